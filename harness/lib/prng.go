// Package lib holds what every property harness shares: one PRNG, Coq term
// printers, the sharded cases writer and the meta/evidence records.
package lib

// Rand is splitmix64: every random choice of a run derives from one state so
// that (seed, case index) replays a case exactly.
type Rand struct{ s uint64 }

func NewRand(seed uint64) *Rand {
	// the seed is mixed so that nearby seeds give unrelated streams (not shifted copies)
	z := seed + 0x1234567
	z = (z ^ (z >> 30)) * 0xBF58476D1CE4E5B9
	z = (z ^ (z >> 27)) * 0x94D049BB133111EB
	z ^= z >> 31
	return &Rand{s: z}
}

func (r *Rand) U64() uint64 {
	r.s += 0x9E3779B97F4A7C15
	z := r.s
	z = (z ^ (z >> 30)) * 0xBF58476D1CE4E5B9
	z = (z ^ (z >> 27)) * 0x94D049BB133111EB
	return z ^ (z >> 31)
}

// Intn returns a value in [0,n); n<=0 gives 0.
func (r *Rand) Intn(n int) int {
	if n <= 0 {
		return 0
	}
	return int(r.U64() % uint64(n))
}

// Range returns a value in [lo,hi].
func (r *Rand) Range(lo, hi int) int {
	if hi < lo {
		return lo
	}
	return lo + r.Intn(hi-lo+1)
}

func (r *Rand) Bool() bool { return r.U64()&1 == 1 }

// Chance is true with probability pct/100.
func (r *Rand) Chance(pct int) bool { return r.Intn(100) < pct }

// Pick returns a weighted index: weights w[i] >= 0.
func (r *Rand) Pick(w ...int) int {
	t := 0
	for _, x := range w {
		t += x
	}
	k := r.Intn(t)
	for i, x := range w {
		if k < x {
			return i
		}
		k -= x
	}
	return len(w) - 1
}

// Fork derives an independent stream (used per case so that cases replay alone).
func (r *Rand) Fork() *Rand { return &Rand{s: r.U64()} }

func (r *Rand) Bytes(n int, alphabet []byte) []byte {
	b := make([]byte, n)
	for i := range b {
		if len(alphabet) == 0 {
			b[i] = byte(r.Intn(256))
		} else {
			b[i] = alphabet[r.Intn(len(alphabet))]
		}
	}
	return b
}
