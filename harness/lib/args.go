package lib

import (
	"flag"
	"os"
	"strconv"
)

// Args is the command line every property harness accepts:
//   <bin> run --tier quick|thorough --seed N --out DIR [--replay FILE]
type Args struct {
	Cmd    string
	Tier   string
	Seed   uint64
	Out    string
	Replay string
}

func ParseArgs() Args {
	a := Args{}
	if len(os.Args) < 2 {
		os.Stderr.WriteString("usage: <bin> run --tier T --seed N --out DIR [--replay FILE]\n")
		os.Exit(2)
	}
	a.Cmd = os.Args[1]
	fs := flag.NewFlagSet(a.Cmd, flag.ExitOnError)
	fs.StringVar(&a.Tier, "tier", "quick", "")
	seed := fs.String("seed", "1", "")
	fs.StringVar(&a.Out, "out", "", "")
	fs.StringVar(&a.Replay, "replay", "", "")
	fs.Parse(os.Args[2:])
	s, err := strconv.ParseUint(*seed, 10, 64)
	if err != nil {
		s = 1
	}
	a.Seed = s
	return a
}
