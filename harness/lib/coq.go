package lib

import (
	"fmt"
	"math"
	"strconv"
	"strings"
)

// CoqZ prints an integer as a Gallina Z term (parenthesised when negative).
func CoqZ(z int64) string {
	if z < 0 {
		return "(" + strconv.FormatInt(z, 10) + ")"
	}
	return strconv.FormatInt(z, 10)
}

// CoqBytes prints a byte string as a `list Z` literal.
func CoqBytes(b []byte) string {
	if len(b) == 0 {
		return "[]"
	}
	var sb strings.Builder
	sb.WriteByte('[')
	for i, c := range b {
		if i > 0 {
			sb.WriteByte(';')
		}
		sb.WriteString(strconv.Itoa(int(c)))
	}
	sb.WriteByte(']')
	return sb.String()
}

func CoqBool(b bool) string {
	if b {
		return "true"
	}
	return "false"
}

func CoqList(items []string) string {
	if len(items) == 0 {
		return "[]"
	}
	return "[" + strings.Join(items, "; ") + "]"
}

func CoqOpt(ok bool, v string) string {
	if !ok {
		return "None"
	}
	return "(Some " + v + ")"
}

// CoqZList prints a []int64 as list Z.
func CoqZList(zs []int64) string {
	it := make([]string, len(zs))
	for i, z := range zs {
		it[i] = CoqZ(z)
	}
	return CoqList(it)
}

// Float views. FloatBits is the IEEE bit pattern as a Z numeral: models that run
// floats take `of_bits`, models that reason exactly take the dyadic view.
func FloatBits(f float64) string { return strconv.FormatUint(math.Float64bits(f), 10) }

// Dyadic returns (m, e) with f = m * 2^e exactly, m odd or zero; ok=false for NaN/Inf.
func Dyadic(f float64) (m int64, e int, ok bool) {
	if math.IsNaN(f) || math.IsInf(f, 0) {
		return 0, 0, false
	}
	if f == 0 {
		return 0, 0, true
	}
	fr, ex := math.Frexp(f) // f = fr * 2^ex, 0.5<=|fr|<1
	mi := int64(fr * (1 << 53))
	ex -= 53
	for mi%2 == 0 {
		mi /= 2
		ex++
	}
	return mi, ex, true
}

func Hex(b []byte) string { return fmt.Sprintf("%x", b) }
