package lib

import (
	"bufio"
	"crypto/sha256"
	"encoding/json"
	"fmt"
	"os"
	"path/filepath"
	"sort"
)

// Case is one differential case: the input, what the real code did, and the
// Gallina term that carries both into the model.
type Case struct {
	ID         int      `json:"id"`
	Coq        string   `json:"-"`          // Gallina term of the property's `case` type
	Input      any      `json:"input"`      // enough to re-run the case against the code
	Observed   any      `json:"observed"`   // projected observables from the real code
	KF         []string `json:"kf"`         // ids of known-finding matchers this input falls under
	Nontrivial bool     `json:"nontrivial"` // per-property rule, measured
	Class      string   `json:"class"`      // coarse input class for the distribution table
}

// GoViolation is a spec-level failure decided on the Go side (a panic that
// escaped, a hang, a crash of the child): it needs no model to be a failure.
type GoViolation struct {
	Case int    `json:"case"`
	What string `json:"what"`
}

type Meta struct {
	Property      string         `json:"property"`
	Tier          string         `json:"tier"`
	Seed          uint64         `json:"seed"`
	Evaluations   int            `json:"evaluations"`
	Distinct      int            `json:"distinct_nontrivial"`
	Rule          string         `json:"rule"`
	Samples       []any          `json:"samples"`
	Distribution  map[string]int `json:"distribution"`
	Discarded     int            `json:"discarded_unsupported"`
	GoViolations  []GoViolation  `json:"go_violations"`
	Shards        []string       `json:"shards"`
	Exhaustive    bool           `json:"exhaustive"`
	Extra         map[string]any `json:"extra,omitempty"`
	GoOnlyChecked int            `json:"go_side_only_evaluations"`
}

// Writer shards cases into cases/<prop>/shard_k.v files. Header holds the
// `Require Import` lines; the property's Coq file must define
// `check_impl check_spec : case -> bool`.
type Writer struct {
	Dir       string
	Header    string
	CaseType  string
	ShardSize int
	Meta      Meta
	// HasSkip: the case module defines check_skip (model says Unsupported/OutOfFuel for the
	// input); such cases are excluded from both lists and counted as discarded by the driver.
	HasSkip bool

	cur    []Case
	nshard int
	seen   map[[32]byte]bool
	jl     *bufio.Writer
	jf     *os.File
	nextID int
}

func NewWriter(dir, prop, tier string, seed uint64, header, caseType string, shardSize int) (*Writer, error) {
	if err := os.MkdirAll(dir, 0o755); err != nil {
		return nil, err
	}
	old, _ := filepath.Glob(filepath.Join(dir, "shard_*"))
	for _, f := range old {
		os.Remove(f)
	}
	jf, err := os.Create(filepath.Join(dir, "cases.jsonl"))
	if err != nil {
		return nil, err
	}
	return &Writer{Dir: dir, Header: header, CaseType: caseType, ShardSize: shardSize,
		Meta: Meta{Property: prop, Tier: tier, Seed: seed, Distribution: map[string]int{}},
		seen: map[[32]byte]bool{}, jl: bufio.NewWriter(jf), jf: jf}, nil
}

// NextID is the id the next added case will get.
func (w *Writer) NextID() int { return w.nextID }

// Add records a case for evaluation by the model.
func (w *Writer) Add(c Case) int {
	c.ID = w.nextID
	w.nextID++
	w.Meta.Evaluations++
	w.Meta.Distribution[c.Class]++
	h := sha256.Sum256([]byte(c.Coq))
	if !w.seen[h] {
		w.seen[h] = true
		if c.Nontrivial {
			w.Meta.Distinct++
		}
	}
	if len(w.Meta.Samples) < 5 && (c.Nontrivial || w.Meta.Evaluations > 50) {
		w.Meta.Samples = append(w.Meta.Samples, map[string]any{"id": c.ID, "input": c.Input, "observed": c.Observed})
	}
	b, _ := json.Marshal(c)
	w.jl.Write(b)
	w.jl.WriteByte('\n')
	w.cur = append(w.cur, c)
	if len(w.cur) >= w.ShardSize {
		w.flush()
	}
	return c.ID
}

// GoFail records a failure decided without the model.
func (w *Writer) GoFail(caseID int, what string) {
	w.Meta.GoViolations = append(w.Meta.GoViolations, GoViolation{caseID, what})
}

func (w *Writer) flush() {
	if len(w.cur) == 0 {
		return
	}
	name := fmt.Sprintf("shard_%04d.v", w.nshard)
	w.nshard++
	f, err := os.Create(filepath.Join(w.Dir, name))
	if err != nil {
		panic(err)
	}
	bw := bufio.NewWriter(f)
	fmt.Fprintf(bw, "%s\nRequire Import GL.Common.Cases.\nOpen Scope Z_scope.\n", w.Header)
	// one Definition per case keeps terms small for the parser; the list refers to them.
	for _, c := range w.cur {
		fmt.Fprintf(bw, "Definition c%d : %s := %s.\n", c.ID, w.CaseType, c.Coq)
	}
	fmt.Fprintf(bw, "Definition cases : list (Z * %s) := [", w.CaseType)
	for i, c := range w.cur {
		if i > 0 {
			bw.WriteString("; ")
		}
		fmt.Fprintf(bw, "(%d, c%d)", c.ID, c.ID)
	}
	bw.WriteString("].\n")
	bw.WriteString("Definition Mimpl := Eval vm_compute in mism check_impl cases.\n")
	bw.WriteString("Definition Mspec := Eval vm_compute in mism check_spec cases.\n")
	if w.HasSkip {
		bw.WriteString("Definition Mskip := Eval vm_compute in mism (fun c => negb (check_skip c)) cases.\nPrint Mskip.\n")
	}
	bw.WriteString("Print Mimpl.\nPrint Mspec.\n")
	bw.Flush()
	f.Close()
	w.Meta.Shards = append(w.Meta.Shards, name)
	w.cur = w.cur[:0]
}

// Close writes the last shard and meta.json.
func (w *Writer) Close() error {
	w.flush()
	w.jl.Flush()
	w.jf.Close()
	if w.Meta.Samples == nil {
		w.Meta.Samples = []any{}
	}
	if w.Meta.GoViolations == nil {
		w.Meta.GoViolations = []GoViolation{}
	}
	b, _ := json.MarshalIndent(w.Meta, "", " ")
	return os.WriteFile(filepath.Join(w.Dir, "meta.json"), b, 0o644)
}

// SortedKeys is a helper for canonical output of Go maps.
func SortedKeys[V any](m map[string]V) []string {
	ks := make([]string, 0, len(m))
	for k := range m {
		ks = append(ks, k)
	}
	sort.Strings(ks)
	return ks
}
