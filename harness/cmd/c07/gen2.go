package main

import (
	"fmt"
	"strings"

	"verifh/lib"
)

type ctl struct {
	loops int
	back  []string
	fwd   []string
}

// block emits n statements (more when nested ones are generated) in a fresh lexical scope.
func (g *gen) block(n int, fnBody bool) {
	nv, nb, nfw := len(g.fn.vars), len(g.back), len(g.fwd)
	g.depth++
	fwdLabel, fwdPos, endLabel := "", -1, false
	if g.r.Chance(22) && n >= 1 {
		fwdLabel = g.id("L")
		if g.r.Chance(45) {
			endLabel = true
		} else {
			fwdPos = 1 + g.r.Intn(n)
			if fwdPos >= n {
				endLabel = true
			}
		}
		g.fwd = append(g.fwd, fwdLabel)
	}
	noLocals := fwdLabel != "" && !endLabel
	for i := 0; i < n; i++ {
		if fwdLabel != "" && !endLabel && i == fwdPos {
			g.line("::%s::", fwdLabel)
			g.fwd = g.fwd[:len(g.fwd)-1]
			g.back = append(g.back, fwdLabel)
			fwdLabel, noLocals = "", false
		}
		// a backward label now and then
		if g.r.Chance(8) {
			l := g.id("L")
			spans := !noLocals && g.r.Chance(60)
			if spans {
				g.moveRun()
			}
			g.line("::%s::", l)
			g.back = append(g.back, l)
			if spans {
				g.moveRun()
				// make sure the label is a backward-jump target
				g.line("cnt = cnt + 1")
				g.line("if cnt < %d then goto %s end", 3+g.r.Intn(10), l)
			}
		}
		last := i == n-1 && !endLabel
		g.stmt(last, noLocals)
	}
	if endLabel {
		g.line("::%s::", fwdLabel)
		if g.r.Chance(20) {
			g.line(";")
		}
	}
	g.depth--
	g.fn.vars = g.fn.vars[:nv]
	g.back = g.back[:nb]
	g.fwd = g.fwd[:nfw]
}

// moveRun emits `local v1, v2[, v3] = l1, l2[, l3]` with locals on the right: a run of consecutive
// MOVEs (MOVEN material). Placed right before and right after labels and loop heads so that runs
// span the targets of backward jumps.
func (g *gen) moveRun() {
	var locs []string
	for _, v := range g.fn.vars[g.fn.base:] {
		locs = append(locs, v.name)
	}
	if len(locs) == 0 || g.fn.nloc > 150 {
		return
	}
	n := 2 + g.r.Intn(2)
	names, rhs := make([]string, n), make([]string, n)
	for i := range names {
		names[i] = g.id("m")
		rhs[i] = locs[g.r.Intn(len(locs))]
	}
	g.line("local %s = %s", strings.Join(names, ", "), strings.Join(rhs, ", "))
	for _, nm := range names {
		g.declare(nm, kAny)
	}
}

func (g *gen) body(n int) {
	g.ind++
	g.block(n, false)
	g.ind--
}

func (g *gen) small() int {
	if g.budget <= 0 {
		return 0
	}
	if g.depth >= 4 {
		return g.r.Intn(2)
	}
	return g.r.Intn(4)
}

func (g *gen) target() (string, vkind) {
	// assignment target: local / upvalue / global / table field
	switch g.r.Intn(6) {
	case 0, 1, 2:
		if v, k, ok := g.anyVar(); ok {
			return v, k
		}
	case 3:
		gl := g.globals[g.r.Intn(len(g.globals))]
		return gl.name, gl.kind
	}
	t := g.atom(kTbl)
	if t == "{}" {
		t = "mt0"
	}
	switch g.r.Intn(3) {
	case 0:
		return t + "." + fieldNames[g.r.Intn(len(fieldNames))], kAny
	case 1:
		return fmt.Sprintf("%s[%s]", t, g.smallIndex(1)), kAny
	}
	return fmt.Sprintf("%s[ %s ]", t, g.atom(kStr)), kAny
}

func (g *gen) stmt(last, noLocals bool) {
	g.budget--
	if g.budget < 0 || g.depth > 6 {
		g.line("cnt = cnt + %s", g.num())
		return
	}
	if last && g.r.Chance(30) {
		g.laststat()
		return
	}
	d := 2
	switch g.r.Intn(24) {
	case 0, 1: // single assignment
		t, k := g.target()
		g.line("%s = %s", t, g.expr(k, d))
	case 2: // multiple assignment, possibly overlapping, open last expression
		n := 2 + g.r.Intn(3)
		ts, es := make([]string, n), []string{}
		for i := range ts {
			ts[i], _ = g.target()
		}
		m := 1 + g.r.Intn(n+1)
		for i := 0; i < m; i++ {
			es = append(es, g.expr(kAny, 1))
		}
		if g.r.Chance(30) {
			es = append(es, g.call(1, false))
		}
		g.line("%s = %s", strings.Join(ts, ", "), strings.Join(es, ", "))
	case 3, 4, 5: // local declaration
		if noLocals {
			g.line("cnt = cnt + 1")
			return
		}
		if g.fn.nloc > 150 {
			g.line("cnt = cnt - 1")
			return
		}
		n := 1
		if g.r.Chance(35) {
			n = 2 + g.r.Intn(3)
		}
		names, kinds, es := make([]string, n), make([]vkind, n), []string{}
		for i := range names {
			names[i] = g.id("v")
			kinds[i] = []vkind{kNum, kNum, kNum, kStr, kTbl, kFun, kAny}[g.r.Intn(7)]
		}
		m := n
		switch g.r.Intn(5) {
		case 0:
			m = 0
		case 1:
			m = 1 + g.r.Intn(n+1)
		}
		for i := 0; i < m; i++ {
			k := kAny
			if i < n {
				k = kinds[i]
			}
			es = append(es, g.expr(k, d))
		}
		if m < n && m > 0 && g.r.Chance(50) {
			if g.fn.vararg && g.r.Chance(50) {
				es = append(es, "...")
			} else {
				es = append(es, g.call(1, false))
			}
		}
		if len(es) == 0 {
			g.line("local %s", strings.Join(names, ", "))
		} else {
			g.line("local %s = %s", strings.Join(names, ", "), strings.Join(es, ", "))
		}
		for i := range names {
			k := kinds[i]
			if i >= m {
				k = kAny
			}
			g.declare(names[i], k)
		}
	case 6, 7: // call statement
		c := g.call(d, true)
		if strings.HasPrefix(c, "(") {
			c = "gf(" + c + ")"
		}
		g.line("%s", c)
	case 8: // do block
		g.line("do")
		g.body(g.small())
		g.line("end")
	case 9, 10: // while
		c := g.id("c")
		if noLocals {
			g.line("while cnt < %d and %s do", 3+g.r.Intn(20), g.cond(1))
			g.loops++
			g.ind++
			g.line("cnt = cnt + 1")
			g.ind--
		} else {
			g.line("local %s = 0", c)
			g.declare(c, kNum)
			if g.r.Chance(30) {
				spans := g.r.Chance(50)
				if spans {
					g.moveRun()
				}
				g.line("while true do")
				g.loops++
				g.ind++
				if spans {
					g.moveRun() // the loop head (target of the back edge) is in the middle of a MOVE run
				}
				g.line("%s = %s + 1", c, c)
				g.line("if %s > %d then break end", c, 1+g.r.Intn(4))
				g.ind--
			} else {
				g.line("while %s < %d and %s do", c, 1+g.r.Intn(4), g.cond(1))
				g.loops++
				g.ind++
				g.line("%s = %s + 1", c, c)
				g.ind--
			}
		}
		g.body(g.small())
		g.loops--
		g.line("end")
	case 11: // repeat
		spans := !noLocals && g.r.Chance(50)
		if spans {
			g.moveRun()
		}
		g.line("repeat")
		g.loops++
		g.ind++
		if spans {
			g.moveRun()
		}
		g.line("cnt = cnt + 1")
		loc := ""
		if g.r.Chance(50) {
			loc = g.id("r")
			g.line("local %s = %s", loc, g.expr(kNum, 1))
		}
		g.ind--
		// the until condition may use a local of the body
		nv := len(g.fn.vars)
		g.body(g.small())
		g.loops--
		if loc != "" && g.r.Chance(60) {
			_ = nv
			g.line("until cnt > %d or %s > 1000", 3+g.r.Intn(30), loc)
		} else {
			g.line("until cnt > %d or %s", 3+g.r.Intn(30), g.cond(1))
		}
	case 12, 13: // if / elseif / else
		g.line("if %s then", g.cond(2))
		g.body(g.small())
		for g.r.Chance(30) {
			g.line("elseif %s then", g.cond(1))
			g.body(g.small())
		}
		if g.r.Chance(50) {
			g.line("else")
			g.body(g.small())
		}
		g.line("end")
	case 14, 15: // numeric for
		v := g.id("i")
		switch g.r.Intn(4) {
		case 0:
			g.line("for %s = %d, %d do", v, g.r.Intn(3), g.r.Intn(5))
		case 1:
			g.line("for %s = %d, %d, %d do", v, 1+g.r.Intn(5), g.r.Intn(3), -1-g.r.Intn(2))
		case 2:
			g.line("for %s = %s, %d do", v, g.expr(kNum, 1), g.r.Intn(4))
		default:
			g.line("for %s = 1, #%s do", v, g.paren(g.expr(kTbl, 1)))
		}
		nv := len(g.fn.vars)
		g.declare(v, kNum)
		g.loops++
		g.body(g.small())
		g.loops--
		g.fn.vars = g.fn.vars[:nv]
		g.line("end")
	case 16, 17: // generic for
		nn := 1 + g.r.Intn(3)
		if g.r.Chance(30) {
			nn = 4 + g.r.Intn(5) // TFORLOOP's result range A+3..A+2+C reaches above the call temporaries
		}
		names := make([]string, nn)
		for i := range names {
			names[i] = g.id("k")
		}
		switch g.r.Intn(5) {
		case 0:
			g.line("for %s in pairs(%s) do", strings.Join(names, ", "), g.expr(kTbl, 1))
		case 1:
			g.line("for %s in ipairs(%s) do", strings.Join(names, ", "), g.expr(kTbl, 1))
		case 2:
			g.line("for %s in next, %s do", strings.Join(names, ", "), g.expr(kTbl, 1))
		case 3:
			g.line("for %s in iter0(%d) do", strings.Join(names, ", "), g.r.Intn(4))
		default:
			g.line("for %s in %s do", strings.Join(names, ", "), g.call(1, false))
		}
		nv := len(g.fn.vars)
		for _, n := range names {
			g.declare(n, kAny)
		}
		g.loops++
		switch g.r.Intn(6) {
		case 0: // empty body: only TFORLOOP itself touches the loop variables
		case 1:
			g.ind++
			g.line("break")
			g.ind--
		case 2:
			g.ind++
			g.line("if %s then break end", names[len(names)-1])
			g.ind--
		case 3:
			g.ind++
			g.line("%s = %s", names[0], names[len(names)-1])
			g.ind--
		default:
			g.body(g.small())
		}
		g.loops--
		g.fn.vars = g.fn.vars[:nv]
		g.line("end")
	case 18: // function definition statements
		switch g.r.Intn(4) {
		case 0:
			gl := g.globals[g.r.Intn(len(g.globals))]
			if gl.kind == kFun {
				g.line("function %s%s", gl.name, strings.TrimPrefix(g.funcExpr(true), "function"))
				return
			}
			fallthrough
		case 1:
			t := g.atom(kTbl)
			if t == "{}" {
				t = "mt0"
			}
			g.line("function %s.%s%s", t, fieldNames[g.r.Intn(len(fieldNames))], strings.TrimPrefix(g.funcExpr(true), "function"))
		case 2:
			t := g.atom(kTbl)
			if t == "{}" {
				t = "mt0"
			}
			// method: self is an extra parameter
			nvars := len(g.fn.vars)
			g.fn.vars = append(g.fn.vars, gvar{"self", kTbl})
			body := strings.TrimPrefix(g.funcExpr(true), "function")
			g.fn.vars = g.fn.vars[:nvars]
			g.line("function %s:%s%s", t, []string{"m", "f", "name"}[g.r.Intn(3)], body)
		default:
			if noLocals || g.fn.nloc > 150 {
				g.line("cnt = cnt + 2")
				return
			}
			f := g.id("lf")
			// local function: the name is in scope inside (recursion is never *called* by the generator
			// with unbounded depth: the body sees it only as an upvalue value)
			g.declare(f, kAny)
			body := strings.TrimPrefix(g.funcExpr(true), "function")
			g.fn.vars[len(g.fn.vars)-1].kind = kFun
			g.line("local function %s%s", f, body)
		}
	case 19, 20: // goto
		var c []string
		c = append(c, g.fwd...)
		if len(g.back) > 0 && g.r.Chance(50) {
			// backward gotos are guarded by the global counter so that most programs terminate
			l := g.back[g.r.Intn(len(g.back))]
			g.line("cnt = cnt + 1")
			g.line("if cnt < %d then goto %s end", 5+g.r.Intn(40), l)
			return
		}
		if len(c) == 0 {
			g.line("cnt = cnt + 3")
			return
		}
		l := c[g.r.Intn(len(c))]
		switch g.r.Intn(3) {
		case 0:
			g.line("if %s then goto %s end", g.cond(1), l)
		case 1:
			g.line("do goto %s end", l)
		default:
			g.line("goto %s", l)
		}
	case 21: // break / return in the middle of a block
		if g.loops > 0 && g.r.Chance(60) {
			g.line("if %s then break end", g.cond(1))
		} else if g.r.Chance(50) {
			g.line("do %s end", g.retstat())
		} else {
			g.line("if %s then %s end", g.cond(1), g.retstat())
		}
	case 22: // closure created here capturing whatever is in scope (forces CLOSE in loops)
		t, _ := g.target()
		g.line("%s = %s", t, g.funcExpr(false))
	default: // string / vararg odds and ends
		if g.fn.vararg {
			g.line("cnt = cnt + select('#', ...)")
		} else {
			t, _ := g.target()
			g.line("%s = %s", t, g.expr(kStr, 2))
		}
	}
}

func (g *gen) retstat() string {
	switch g.r.Intn(8) {
	case 0:
		return "return"
	case 1:
		if v, _, ok := g.anyVar(); ok {
			return "return " + v
		}
	case 2:
		return "return " + g.call(1, false) // tail call
	case 3:
		return "return (" + g.call(1, false) + ")"
	case 4:
		if g.fn.vararg {
			return "return ..."
		}
	case 5:
		return fmt.Sprintf("return %s, %s", g.expr(kAny, 1), g.call(1, false))
	case 6:
		if g.fn.vararg {
			return "return " + g.expr(kNum, 1) + ", ..."
		}
	}
	n := 1 + g.r.Intn(4)
	parts := make([]string, n)
	for i := range parts {
		parts[i] = g.expr(kAny, 1)
	}
	return "return " + strings.Join(parts, ", ")
}

func (g *gen) laststat() {
	if g.loops > 0 && g.r.Chance(40) {
		g.line("break")
		return
	}
	g.line("%s", g.retstat())
}

// genProgram returns one random program.
func genProgram(r *lib.Rand, size int) string { return genProgramPad(r, size, "") }

// genProgramPad: the same program (same random stream) with pad at the head of every function body.
func genProgramPad(r *lib.Rand, size int, pad string) string {
	g := &gen{r: r, budget: size, pad: pad}
	g.fn = &gfunc{vararg: true}
	g.globals = []gvar{{"cnt", kNum}, {"gn", kNum}, {"gs", kStr}, {"mt0", kTbl}, {"gt", kTbl}, {"print0", kFun}, {"gf", kFun}, {"iter0", kFun}}
	g.line("%scnt, gn, gs = 0, 1, 'g'", strings.TrimPrefix(pad, " "))
	g.line("function print0(...) return ... end")
	g.line("mt0 = {x = 1, y = 2, n = 3, m = function(self, a) return a end, f = print0, name = function() return 1, 2, 3 end}")
	g.line("gt = {1, 2, 3, x = 4}")
	g.line("function gf(a, b) cnt = cnt + 1; return a, b end")
	g.line("function iter0(n) local i = 0; return function() i = i + 1; if i <= n then return i, i * 2 end end end")
	g.block(3+r.Intn(8), true)
	return g.sb.String()
}
