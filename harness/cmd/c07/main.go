// c07: harness for property C07 (every compiled function is well-formed bytecode the VM can run
// without faulting). It compiles source texts with the real front end (parse.Parse + lua.Compile),
// dumps every prototype completely, and emits one Coq case per chunk; Coq evaluates the verified
// checker wf_proto on the dump (check_spec) and, as the independent observation (check_impl),
// compares (a) the verdict of the Go port of the checker, (b) a digest of Go's own decoding of every
// instruction, (c) the (pc -> next pc) transitions actually executed by mainLoop with the
// skeleton's successor sets. See notes/C07.md.
package main

import (
	"encoding/json"
	"fmt"
	"os"
	"sort"
	"strings"
	"syscall"

	lua "github.com/yuin/gopher-lua"
	"verifh/lib"
)

const header = "From Coq Require Import Uint63.\nFrom GL Require Import VM.Opcode VM.Proto VM.WfProto VM.Skeleton VM.WfCases."

var extraCmds = map[string]func([]string){}

// prototypes above these sizes are checked by the Go port only (quadratic lookups in the Gallina checker)
var coqMaxFn = 12000
var coqMaxTotal = 60000

type input struct {
	Kind string `json:"kind"` // file | src | adv | codec | twin | hist
	Path string `json:"path,omitempty"`
	Src  string `json:"src,omitempty"`
	Src2 string `json:"src2,omitempty"` // twin: the variant (same program with pads); empty for an execution-mode twin
	Mode string `json:"mode,omitempty"` // twin: kpad | rpad | grow | used`
	Fam  string `json:"family,omitempty"`
	N    int    `json:"n,omitempty"`
	Run  bool   `json:"run"`
	Args []int  `json:"args,omitempty"`
}

type ctx struct {
	w        *lib.Writer
	rejected map[string]int
	goOnly   int
	runs     int
	runInsts int
	starts   int
	overBudg int
	runErrs  int
	ntrans   int
	deferred []func()
	expect   []string   // adversarial programs with a known result: the values the chunk must return
	lastRes  *runResult // the in-process run of the case processed last (nil: not run, or it failed already)
	lastID   int        // its case id (-1: no case was recorded)
	twin     twinStats
	forceCoq bool // thorough tier: push this (large) case through coqc regardless of the size limit
}

func main() {
	if len(os.Args) >= 2 {
		if f, ok := extraCmds[os.Args[1]]; ok {
			f(os.Args[2:])
			return
		}
	}
	// never take the machine down: a runaway allocation inside the VM (possible under a mutated
	// compiler/VM) must kill this process, not its neighbours
	lim := syscall.Rlimit{Cur: 24 << 30, Max: 24 << 30}
	syscall.Setrlimit(syscall.RLIMIT_AS, &lim)
	if v := os.Getenv("C07_COQ_MAX_FN"); v != "" { // development: push larger prototypes through coqc
		fmt.Sscan(v, &coqMaxFn)
		coqMaxTotal = 5 * coqMaxFn
	}
	a := lib.ParseArgs()
	if a.Cmd != "run" {
		fmt.Fprintln(os.Stderr, "unknown command", a.Cmd)
		os.Exit(2)
	}
	w, err := lib.NewWriter(a.Out, "C07", a.Tier, a.Seed, header, "case", 60)
	if err != nil {
		panic(err)
	}
	w.Meta.Rule = "one case = one chunk compiled by parse.Parse+lua.Compile, every prototype of it dumped (Code, constant kinds vs stringConstants, nested prototypes, counts) and checked by wf_proto and strreg_proto (register-form string keys fed by LOADK) in Coq; " +
		"sources: every .lua under _lua5.1-tests and _glua-tests, random programs (all statement kinds at all block positions, goto shapes, closures/upvalues, varargs, methods, constructors, both for loops), adversarial size ladders; " +
		"every generated program is also run as twins (constants padded above / across the RK range in every function, registers shifted, growing registry, used state) whose outcome must equal the plain run (Go-side; 1 in 16 padded twins is an ordinary case), and a sample of the sources is recompiled after the whole history and in fresh processes (same prototype required); " +
		"plus opcode.go codec cases on boundary/random words. non-trivial = chunk with >= 8 instructions and at least one jump/skip, multi-word group or nested prototype (codec: word with all fields non-zero); distinct by Gallina term"
	c := &ctx{w: w, rejected: map[string]int{}}
	r := lib.NewRand(a.Seed)
	if a.Replay != "" {
		replay(c, a.Replay)
	} else {
		corpus(c)
		codecCases(c, r.Fork(), a.Tier)
		scriptFiles(c, a.Tier)
		adversarial(c, a.Tier)
		generated(c, r.Fork(), a.Tier)
		history(c, a.Tier)
	}
	w.Meta.GoOnlyChecked = c.goOnly
	w.Meta.Extra = map[string]any{
		"rejected_by_front_end": c.rejected, "executed_chunks": c.runs, "executed_instructions": c.runInsts,
		"distinct_transitions_checked": c.ntrans, "activation_starts_not_checked": c.starts,
		"runs_cut_by_budget": c.overBudg, "runs_ending_in_lua_error": c.runErrs,
		"coq_size_limit_per_function": coqMaxFn,
		"twin_runs":                   c.twin.Runs, "twin_outcomes_compared": c.twin.Compared, "twin_incomparable": c.twin.Incomparable,
		"twin_variant_rejected_by_front_end": c.twin.Rejected, "twin_variants_with_register_string_keys": c.twin.RegKeys,
		"history_recompiled": c.twin.Hist, "seconds_in_twins": int(c.twin.TwinTime.Seconds()), "seconds_in_history": int(c.twin.HistTime.Seconds()),
	}
	if err := w.Close(); err != nil {
		panic(err)
	}
}

func nontrivialProto(p *P) bool {
	if p.totalInsts() < 8 {
		return false
	}
	if len(p.Subs) > 0 {
		return true
	}
	for _, w := range p.Code {
		switch dOp(w) {
		case opJMP, opEQ, opLT, opLE, opTEST, opTESTSET, opFORLOOP, opFORPREP, opTFORLOOP, opMOVEN, opCLOSURE:
			return true
		}
	}
	return false
}

// dummy is the Coq term attached to cases that carry only a Go-side verdict.
const dummy = "(CDecode 0 0 0 0 0 0 (-131071))"

// process compiles one source and records the case.
func (c *ctx) process(in input, src, name, class string, kf []string, setup func(*lua.LState)) {
	c.processPre(in, src, name, class, kf, setup, nil)
}

// processWithTrace: the execution was done by a child process.
func (c *ctx) processWithTrace(in input, src, name, class string, pre *childOut) {
	c.processPre(in, src, name, class, nil, nil, pre)
}

func (c *ctx) processPre(in input, src, name, class string, kf []string, setup func(*lua.LState), pre *childOut) {
	c.lastRes, c.lastID = nil, -1
	fp, _, pan := compileSrc(src, name)
	if pan != "" {
		id := c.w.Add(lib.Case{Coq: dummy, Input: in, Observed: map[string]any{"panic": pan}, KF: kf, Class: class + "/panic"})
		c.w.GoFail(id, "Go panic escaped parse/Compile: "+pan)
		return
	}
	if fp == nil {
		c.rejected[class]++
		c.w.Meta.Discarded++
		return
	}
	noteForHistory(src, fp)
	root := dumpProto(fp)
	gowf, why := wfProto(root)
	obs := map[string]any{"protos": len(flatten(root)), "insts": root.totalInsts(), "go_wf": gowf}
	if !gowf {
		obs["why"] = why
	}
	var tr *tracer
	wrong := ""
	var ids []int
	var per map[int][][2]int
	total := 0
	if pre != nil {
		per = map[int][][2]int{}
		for k, l := range pre.Trans {
			id := 0
			fmt.Sscan(k, &id)
			ids = append(ids, id)
			per[id] = l
			total += len(l)
		}
		sort.Ints(ids)
		c.runs++
		c.runInsts += pre.Insts
		c.starts += pre.Starts
		if pre.Over {
			c.overBudg++
		} else if pre.Err != "" {
			c.runErrs++
			obs["run_error"] = trunc(pre.Err, 200)
		}
		obs["run_insts"] = pre.Insts
	} else if in.Run {
		var res runResult
		budget := 30000
		if in.Kind == "adv" {
			budget = 700000
		}
		if in.Kind == "twin" {
			budget = 4*30000 + 2000
		}
		tr, res = runTraced(fp, root, budget, setup)
		c.runs++
		c.runInsts += res.Insts
		c.starts += tr.starts
		if res.Over {
			c.overBudg++
		}
		obs["run_insts"] = res.Insts
		if res.Panicked != "" || (res.Err != "" && (res.GoPanic || goRuntimePanic(res.Err))) {
			obs["run_error"] = res.Err + res.Panicked
			id := c.w.Add(lib.Case{Coq: dummy, Input: in, Observed: obs, KF: kf, Class: class + "/runfault"})
			c.lastID = id
			c.w.GoFail(id, "Go runtime panic while running compiled code: "+trunc(res.Err+res.Panicked, 200))
			return
		}
		if res.Err != "" && !res.Over {
			c.runErrs++
		}
		c.lastRes = &res
		if c.expect != nil {
			obs["results"] = res.Results
			if res.Err != "" || strings.Join(res.Results, ",") != strings.Join(c.expect, ",") {
				obs["expected"] = c.expect
				obs["run_error"] = res.Err
				// reported below, on the case that also carries the prototype (so that wf_proto's verdict
				// on the same chunk is in the evidence too)
				wrong = fmt.Sprintf("compiled code computed a wrong result: got %v (%s), want %v", res.Results, trunc(res.Err, 80), c.expect)
			}
		}
		ids, per, total = tr.grouped()
	}
	if (root.maxInsts() > coqMaxFn || root.totalInsts() > coqMaxTotal) && !(c.forceCoq && root.maxInsts() <= 30000) {
		// too large for coqc: the Go port decides (it is cross-checked with wf_proto on every smaller case)
		c.goOnly++
		if !gowf || wrong != "" {
			id := c.w.Add(lib.Case{Coq: dummy, Input: in, Observed: obs, KF: kf, Class: class + "/go-only"})
			if !gowf {
				c.w.GoFail(id, "prototype too large for coqc and the Go port of wf_proto rejects it: "+strings.Join(why, "; "))
			}
			if wrong != "" {
				c.w.GoFail(id, wrong)
			}
		}
		return
	}
	var sb strings.Builder
	sb.WriteString("CProto ")
	root.coq(&sb)
	sb.WriteString(" " + lib.CoqBool(gowf) + " ")
	sb.WriteString(fmt.Sprint(goDigest(root)))
	sb.WriteString(" [")
	if ids != nil {
		c.ntrans += total
		obs["transitions"] = total
		for i, id := range ids {
			if i > 0 {
				sb.WriteString("; ")
			}
			fmt.Fprintf(&sb, "(%d, [", id)
			for j, t := range per[id] {
				if j > 0 {
					sb.WriteByte(';')
				}
				fmt.Fprintf(&sb, "(%d,%d)", t[0], t[1])
			}
			sb.WriteString("])")
		}
	}
	sb.WriteString("]")
	id := c.w.Add(lib.Case{Coq: sb.String(), Input: in, Observed: obs, KF: kf, Nontrivial: nontrivialProto(root), Class: class})
	c.lastID = id
	if wrong != "" {
		c.w.GoFail(id, wrong)
	}
}

// goDigest folds Go's own decoding (opGetOpCode/opGetArg* through the hook) of every instruction.
func goDigest(root *P) int64 {
	h := int64(7)
	for _, p := range flatten(root) {
		h = (h*31 + 1) % 1000000007
		for _, w := range p.Code {
			op, a, b, cc, bx, sbx := lua.VerifOpDecode(w)
			h = (h*31 + int64(op) + 3*int64(a) + 5*int64(b) + 7*int64(cc) + 11*int64(bx) + 13*int64(sbx+131071)) % 1000000007
		}
	}
	return h
}

func replay(c *ctx, file string) {
	b, err := os.ReadFile(file)
	if err != nil {
		panic(err)
	}
	var rp struct {
		Input input `json:"input"`
	}
	if err := json.Unmarshal(b, &rp); err != nil {
		panic(err)
	}
	in := rp.Input
	switch in.Kind {
	case "file":
		runFile(c, in.Path, in.Run)
	case "src":
		c.process(in, in.Src, "replay", "replay", nil, nil)
	case "adv":
		runAdv(c, in.Fam, in.N)
	case "codec":
		codecOne(c, in.Fam, in.Args)
	case "twin":
		replayTwin(c, in)
	case "hist":
		histOne(c, in.Src, true)
	}
}
