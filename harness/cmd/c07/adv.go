package main

import (
	"fmt"
	"strings"
)

// Adversarial size ladders: each family is a deterministic source generator indexed by n.
// Every source is either rejected by the front end with an error, or must give wf prototypes.

func rep(n int, f func(i int) string, sep string) string {
	var sb strings.Builder
	for i := 1; i <= n; i++ {
		if i > 1 {
			sb.WriteString(sep)
		}
		sb.WriteString(f(i))
	}
	return sb.String()
}

// stmtCost measures how many instructions the compiler currently emits for one occurrence of
// stmt inside a numeric for body (the ladders are calibrated in instructions, not statements).
var stmtCostCache = map[string]int{}

func stmtCost(stmt string) int {
	if c, ok := stmtCostCache[stmt]; ok {
		return c
	}
	size := func(m int) int {
		fp, _, _ := compileSrc("local a, b = 0, 0\nfor i = 1, 2 do\n"+strings.Repeat(stmt+"\n", m)+"end\nreturn a\n", "cost")
		if fp == nil {
			return 0
		}
		return len(fp.Code)
	}
	c := (size(20) - size(10)) / 10
	if c < 1 {
		c = 1
	}
	stmtCostCache[stmt] = c
	return c
}

// loopBody returns statements that compile to exactly n instructions (or as close below as the
// current per-statement costs allow).
func loopBody(n int) string {
	c1 := stmtCost("a = a + 1")
	c2 := stmtCost("b = 1")
	m := n / c1
	r := 0
	if c2 > 0 {
		r = (n - m*c1) / c2
	}
	return strings.Repeat("a = a + 1\n", m) + strings.Repeat("b = 1\n", r)
}

func loopSrc(kind string, n int) string {
	body := loopBody(n)
	pre := "local a, b = 0, 0\n"
	switch kind {
	case "numfor":
		return pre + "for i = 1, 2 do\n" + body + "end\nreturn a\n"
	case "while":
		return pre + "local c = 0\nwhile c < 2 do\nc = c + 1\n" + body + "end\nreturn a\n"
	case "genfor":
		return pre + "for k in pairs({1, 2}) do\n" + body + "end\nreturn a\n"
	case "repeat":
		return pre + "local c = 0\nrepeat\nc = c + 1\n" + body + "until c >= 2\nreturn a\n"
	case "ifelse":
		return pre + "if a == 0 then\n" + body + "else\na = -1\nend\nreturn a\n"
	case "gotoback":
		return pre + "local c = 0\n::top::\nc = c + 1\n" + body + "if c < 2 then goto top end\nreturn a\n"
	case "gotofwd":
		return pre + "do goto done end\n" + body + "::done::\nreturn a\n"
	}
	return ""
}

func advSrc(fam string, n int) (src string, run bool) {
	switch fam {
	case "locals":
		return rep(n, func(i int) string { return fmt.Sprintf("local a%d = %d", i, i) }, "\n") + "\nreturn a1\n", true
	case "locals_call":
		return "local function f(...) return ... end\n" + rep(n, func(i int) string { return fmt.Sprintf("local a%d = %d", i, i) }, "\n") +
			"\nreturn f(a1, a2, f(a1))\n", true
	case "locals_multi":
		return "local " + rep(n, func(i int) string { return fmt.Sprintf("a%d", i) }, ", ") + " = " + rep(n, func(i int) string { return fmt.Sprint(i) }, ", ") + "\nreturn a1\n", true
	case "params":
		return "local function f(" + rep(n, func(i int) string { return fmt.Sprintf("p%d", i) }, ", ") + ") return p1 end\nreturn f(1)\n", true
	case "consts":
		return "local a = 0\n" + rep(n, func(i int) string { return fmt.Sprintf("a = a + %d.5", i) }, "\n") + "\nreturn a\n", true
	case "strconsts":
		return "local t = {}\n" + rep(n, func(i int) string { return fmt.Sprintf("t.k%d = %d", i, i) }, "\n") +
			fmt.Sprintf("\nfunction t:m%d() return self.k%d end\nlocal s = t.k1 + t.k%d\nreturn s, t:m%d(), t.k%d\n", n, n, n, n, n-1), true
	case "globals":
		return rep(n, func(i int) string { return fmt.Sprintf("g%d = %d", i, i) }, "\n") + fmt.Sprintf("\nreturn g1 + g%d\n", n), true
	case "tablepos":
		return "local t = {" + rep(n, func(i int) string { return "7" }, ",") + "}\nlocal a, b = #t, t[1]\nreturn a, b\n", true
	case "tablepos_open":
		return "local function f() return 1, 2, 3 end\nlocal t = {" + rep(n, func(i int) string { return "7" }, ",") + ", f()}\nreturn #t\n", true
	case "tablehash":
		return "local t = {" + rep(n, func(i int) string { return fmt.Sprintf("k%d = %d", i, i) }, ", ") + "}\nreturn t.k1\n", true
	case "tablemixed":
		return "local t = {" + rep(n, func(i int) string { return fmt.Sprintf("%d, k%d = %d, [%d.5] = %d", i, i, i, i, i) }, ", ") + "}\nreturn #t\n", true
	case "upvalues":
		if n <= 180 {
			return rep(n, func(i int) string { return fmt.Sprintf("local a%d = %d", i, i) }, "\n") +
				"\nlocal function f() return " + rep(n, func(i int) string { return fmt.Sprintf("a%d", i) }, " + ") + " end\nreturn f()\n", true
		}
		m := n - 150
		return rep(150, func(i int) string { return fmt.Sprintf("local a%d = %d", i, i) }, "\n") + "\nlocal function mid()\n" +
			rep(m, func(i int) string { return fmt.Sprintf("local b%d = %d", i, i) }, "\n") + "\nreturn function() return " +
			rep(150, func(i int) string { return fmt.Sprintf("a%d", i) }, " + ") + " + " + rep(m, func(i int) string { return fmt.Sprintf("b%d", i) }, " + ") +
			" end\nend\nreturn mid()()\n", true
	case "upvalues_set":
		return rep(n, func(i int) string { return fmt.Sprintf("local a%d = %d", i, i) }, "\n") +
			"\nlocal function f() " + rep(n, func(i int) string { return fmt.Sprintf("a%d = a%d + 1", i, i) }, "; ") + " end\nf()\nreturn a1\n", true
	case "nest_table":
		return "local t = " + strings.Repeat("{", n) + "1" + strings.Repeat("}", n) + "\nreturn t\n", true
	case "nest_func":
		return "local x = 1\nlocal f = " + strings.Repeat("function() return ", n) + "x" + strings.Repeat(" end", n) + "\nreturn f\n", true
	case "nest_op":
		return "local x = 1\nreturn " + strings.Repeat("x + (", n) + "x" + strings.Repeat(")", n) + "\n", true
	case "nest_paren":
		return "local x = 1\nreturn " + strings.Repeat("(", n) + "x" + strings.Repeat(")", n) + "\n", true
	case "nest_do":
		return "local x = 1\n" + strings.Repeat("do local y = x\n", n) + "x = x + 1\n" + strings.Repeat("end\n", n) + "return x\n", true
	case "nest_if":
		return "local x = 1\n" + strings.Repeat("if x then\n", n) + "x = x + 1\n" + strings.Repeat("else x = 0 end\n", n) + "return x\n", true
	case "nest_while":
		return "local x = 1\n" + strings.Repeat("while x < 3 do\n", n) + "x = x + 1\n" + strings.Repeat("end\n", n) + "return x\n", true
	case "nest_call":
		return "local function f(...) return ... end\nreturn " + strings.Repeat("f(1, ", n) + "2" + strings.Repeat(")", n) + "\n", true
	case "concat":
		return "local a = 'x'\nreturn " + rep(n, func(i int) string { return "a" }, " .. ") + "\n", true
	case "args":
		return "local function f(...) return select('#', ...) end\nreturn f(" + rep(n, func(i int) string { return fmt.Sprint(i) }, ", ") + ")\n", true
	case "rets":
		return "local function f() return " + rep(n, func(i int) string { return fmt.Sprint(i) }, ", ") + " end\nreturn (f())\n", true
	case "assign_multi":
		return "local t = {}\n" + rep(n, func(i int) string { return fmt.Sprintf("t[%d]", i) }, ", ") + " = " + rep(n, func(i int) string { return fmt.Sprint(i) }, ", ") + "\nreturn t[1]\n", true
	case "moves":
		return rep(n, func(i int) string { return fmt.Sprintf("local a%d = %d", i, i) }, "\n") + "\nlocal function f(...) return ... end\nreturn f(" +
			rep(n, func(i int) string { return fmt.Sprintf("a%d", i) }, ", ") + ")\n", true
	case "protos":
		return rep(n, func(i int) string { return fmt.Sprintf("function f%d() return %d end", i, i) }, "\n") + "\nreturn f1()\n", true
	case "elseif":
		return "local x = 5\nif x == 0 then x = 1\n" + rep(n, func(i int) string { return fmt.Sprintf("elseif x == %d then x = %d", i, i+1) }, "\n") + "\nend\nreturn x\n", true
	case "setlist_then_moves":
		return "local x, y = 1, 2\nlocal t = {" + rep(n, func(i int) string { return "7" }, ",") + "}\nlocal a, b, c = x, y, x\nreturn a, b, c, #t\n", true
	}
	if strings.HasPrefix(fam, "loop_") {
		return loopSrc(strings.TrimPrefix(fam, "loop_"), n), true
	}
	return "", false
}

// rkKinds: every kind of operand the compiler may encode as a constant (RK) operand or must load
// into a register once the constant index exceeds opMaxIndexRk = 255. use = statements whose FIRST
// mention of the target constant (the name TGT / the number 4242.25) is the operand in question;
// nothing they return depends on the padding.
var rkKinds = map[string]string{
	"self":      "local r1, r2 = obj:TGT(7)\nreturn r1, r2\n",
	"self_stmt": "obj:TGT(7)\nreturn last\n",
	"methdef":   "function obj:TGT(a) return 'm', a, self == obj end\nreturn rawget(obj, 'TGT') ~= nil, obj:TGT(3)\n",
	"funcdef":   "function obj.TGT(a) return 'f', a end\nreturn rawget(obj, 'TGT') ~= nil, obj.TGT(3)\n",
	"fieldget":  "local f = obj.TGT\nreturn (f(obj, 1))\n",
	"fieldset":  "obj.TGT = 5\nreturn rawget(obj, 'TGT'), obj.TGT\n",
	"fieldset2": "local v = 6\nobj.TGT, obj.other = v, v\nreturn rawget(obj, 'TGT'), rawget(obj, 'other')\n",
	"strindex":  "local t = {}\nt['TGT'] = 4\nreturn t['TGT'], t.TGT\n",
	"tabkey":    "local t = {TGT = 1, [2] = 3}\nreturn t.TGT, t[2]\n",
	"global":    "TGT = 9\nreturn TGT, rawget(_G, 'TGT')\n",
	"globalget": "return TGT == nil, type(TGT)\n",
	"strarg":    "local function id(...) return ... end\nreturn id('TGT', 'TGT')\n",
	"strlocal":  "local s = 'TGT'\nreturn s .. 'x', #s\n",
	"arith_r":   "local a = 2\nreturn a + 4242.25, a * 4242.25\n",
	"arith_l":   "local a = 2\nreturn 4242.25 - a, 4242.25 / a\n",
	"cmp_r":     "local a = 2\nreturn a < 4242.25, a == 4242.25, a >= 4242.25\n",
	"cmp_l":     "local a = 2\nreturn 4242.25 <= a, 4242.25 ~= a\n",
	"cmp_if":    "local a = 2\nif a == 4242.25 then return 'eq' elseif a < 4242.25 then return 'lt' end\nreturn 'gt'\n",
	"numindex":  "local t = {}\nt[4242.25] = 1\nreturn t[4242.25]\n",
	"numfor":    "local n = 0\nfor i = 4242.25, 4244 do n = n + 1 end\nreturn n\n",
	"numarg":    "local function id(...) return ... end\nreturn id(4242.25)\n",
	// wave 5: the table / receiver is a TEMPORARY (call result, field, index, global, string literal,
	// parenthesised, nested in arguments / return / condition / constructor): once the name is not
	// RK-encodable it is loaded with LOADK into the register right above the temporary, which for
	// OP_SELF is R(A+1) - one of the registers the instruction itself writes. The handler must read
	// its operands before it writes.
	"self_callrecv":  "local r1, r2 = mk():TGT(7)\nreturn r1, r2\n",
	"self_fieldrecv": "local r1, r2 = lbox.o:TGT(7)\nreturn r1, r2\n",
	"self_idxrecv":   "local r1, r2 = lbox[1]:TGT(7)\nreturn r1, r2\n",
	"self_globrecv":  "local r1, r2 = gobj:TGT(7)\nreturn r1, r2\n",
	"self_strrecv":   "local r1, r2 = ('abc'):TGT(7)\nreturn r1, r2\n",
	"self_parenrecv": "local r1, r2 = (obj):TGT(7)\nreturn r1, r2\n",
	"self_arg":       "local function id(...) return ... end\nreturn id(1, 2, mk():TGT(7))\n",
	"self_tail":      "return mk():TGT(7)\n",
	"self_cond":      "if mk():TGT(7) then return 'y', last end\nreturn 'n'\n",
	"self_ctorval":   "local t = {mk():TGT(7)}\nreturn #t, t[1], t[2]\n",
	"self_chain":     "return mk():TGT(7):TGT(8)\n",
	"self_stmt_tmp":  "mk():TGT(7)\nreturn last\n",
	"fieldget_tmp":   "local f = mk().TGT\nreturn (f(obj, 1))\n",
	"fieldget_fld":   "local f = lbox.o.TGT\nreturn (f(obj, 1))\n",
	"fieldget_self":  "local o = obj\no = o.TGT\nreturn (o(obj, 1))\n",
	"fieldset_tmp":   "mk().TGT = 5\nreturn rawget(obj, 'TGT')\n",
	"fieldset_fld":   "lbox.o.TGT = 5\nreturn rawget(obj, 'TGT')\n",
	"fieldset_call":  "local function id(...) return ... end\nobj.TGT = id(3)\nreturn rawget(obj, 'TGT')\n",
	"fieldset_or":    "local n\nobj.TGT = n or 4\nreturn rawget(obj, 'TGT')\n",
	"fieldset_multi": "mk().TGT, mk().other = 1, 2\nreturn rawget(obj, 'TGT'), rawget(obj, 'other')\n",
	"tabkey_call":    "local function id(...) return ... end\nlocal t = {TGT = id(3), [2] = 3}\nreturn t.TGT, t[2]\n",
	"tabkey_or":      "local n\nlocal t = {TGT = n or 4, [2] = 3}\nreturn t.TGT, t[2]\n",
}

// rkSrc builds the program whose target constant first appears at constant index idx of the main
// chunk (constant 0 is the number 0.5; one distinct number constant per padding statement), by
// compiling and adjusting the padding. ok=false if the compiler does not place it there.
func rkSrc(kind string, idx int) (string, bool) {
	use, ok := rkKinds[kind]
	if !ok {
		return "", false
	}
	build := func(pad int) string {
		var sb strings.Builder
		sb.WriteString("local z = 0.5\nlast = nil\nlocal obj = setmetatable({}, {__index = function(t, k) return function(self, a) last = k; return k, a end end})\n")
		sb.WriteString("local function mk() return obj end\nlocal lbox = {o = obj, obj}\ngobj = obj\ngetmetatable('').__index = getmetatable(obj).__index\n")
		for i := 1; i <= pad; i++ {
			fmt.Fprintf(&sb, "z = z + %d.5\n", i)
		}
		sb.WriteString(use)
		return sb.String()
	}
	find := func(src string) int {
		fp, _, _ := compileSrc(src, "rk")
		if fp == nil {
			return -1
		}
		for i, k := range fp.Constants {
			if k.String() == "TGT" || k.String() == "4242.25" {
				return i
			}
		}
		return -1
	}
	pad := idx
	for try := 0; try < 3; try++ {
		if pad < 0 {
			return "", false
		}
		src := build(pad)
		got := find(src)
		if got < 0 {
			return "", false
		}
		if got == idx {
			return src, true
		}
		pad += idx - got
	}
	return "", false
}

// runRk: the target constant at index n, executed, and compared with the same program whose
// padding is 10 constants shorter (a behavioural translation-validation check: the results must
// not depend on where in the constant table the operand lives).
func runRk(c *ctx, kind string, n int) {
	src, ok := rkSrc(kind, n)
	ref, ok2 := rkSrc(kind, n-10)
	if !ok || !ok2 {
		c.rejected["adv/rk_"+kind+"/not-placed"]++
		c.w.Meta.Discarded++
		return
	}
	fp, _, _ := compileSrc(ref, "rkref")
	if fp == nil {
		c.rejected["adv/rk_"+kind+"/ref"]++
		c.w.Meta.Discarded++
		return
	}
	_, res := runTraced(fp, dumpProto(fp), 100000, nil)
	if res.Err != "" || res.Panicked != "" {
		c.rejected["adv/rk_"+kind+"/ref-run"]++
		c.w.Meta.Discarded++
		return
	}
	c.expect = res.Results
	if c.expect == nil {
		c.expect = []string{}
	}
	c.process(input{Kind: "adv", Fam: "rk_" + kind, N: n, Run: true}, src, "adv", "adv/rk_"+kind, nil, nil)
	c.expect = nil
}

func runAdv(c *ctx, fam string, n int) {
	if strings.HasPrefix(fam, "rk_") {
		runRk(c, strings.TrimPrefix(fam, "rk_"), n)
		return
	}
	src, run := advSrc(fam, n)
	var expect []string
	if src == "" {
		src, expect = grpSrc(fam, n)
		run = true
	}
	if src == "" {
		return
	}
	c.expect = expect
	c.process(input{Kind: "adv", Fam: fam, N: n, Run: run}, src, "adv", "adv/"+fam, nil, nil)
	c.expect = nil
}

// grpSrc: programs that put, directly after (or around) each kind of multi-word group — SETLIST with
// its block-number word, CLOSURE with its capture words, MOVEN with its continuation words — the
// instructions patchCode's rewriting passes act on (a MOVE, a MOVE chain that merges into MOVEN, a
// jump target, LOADNIL, another group), and whose result is known: the result is compared, so a
// pass that mangles a data word is seen even where the mangled word is still structurally valid.
// n = number of positional fields for the setlist families (> 25550 needs the extension word).
func grpSrc(fam string, n int) (string, []string) {
	items := func(v string, k int) string { return rep(k, func(int) string { return v }, ",") }
	N := fmt.Sprint(n)
	switch fam {
	case "grp_setlist_move":
		return "local t = {" + items("7", n) + "}\nlocal u = t\nreturn #u, u[" + N + "], u[" + fmt.Sprint(n+1) + "] == nil, u[-49] == nil\n",
			[]string{N, "7", "true", "true"}
	case "grp_setlist_moves":
		return "local x, y = 1, 2\nlocal t = {" + items("7", n) + "}\nlocal a, b, c = x, y, x\nreturn #t, t[" + N + "], a, b, c\n",
			[]string{N, "7", "1", "2", "1"}
	case "grp_setlist_loadnil":
		return "local t = {" + items("7", n) + "}\nlocal p, q\nlocal u = t\nreturn #u, u[" + N + "], p, q\n", []string{N, "7", "nil", "nil"}
	case "grp_setlist_label":
		return "local c = 0\nlocal t = {" + items("7", n) + "}\n::top::\nlocal u = t\nc = c + 1\nif c < 3 then goto top end\nreturn #u, u[" + N + "], c\n",
			[]string{N, "7", "3"}
	case "grp_setlist_if":
		return "local x = 1\nlocal t\nif x then t = {" + items("7", n) + "} end\nlocal u = t\nlocal v, w = u, x\nreturn #v, v[" + N + "], w\n",
			[]string{N, "7", "1"}
	case "grp_setlist_loop":
		return "local s = 0\nfor i = 1, 2 do\nlocal t = {" + items("7", n) + "}\nlocal u, j = t, i\ns = s + #u + j\nend\nreturn s\n",
			[]string{fmt.Sprint(2*n + 3)}
	case "grp_setlist_closure":
		return "local t = {" + items("7", n) + "}\nlocal f = function() return t end\nlocal g = f\nreturn #g(), g()[" + N + "]\n", []string{N, "7"}
	case "grp_setlist_twice":
		return "local t = {" + items("7", n) + "}\nlocal u = {" + items("8", n+1) + "}\nlocal a, b = t, u\nreturn #a, #b, a[" + N + "], b[" + fmt.Sprint(n+1) + "]\n",
			[]string{N, fmt.Sprint(n + 1), "7", "8"}
	case "grp_setlist_open":
		return "local function f() return 1, 2, 3 end\nlocal t = {" + items("7", n) + ", f()}\nlocal u = t\nreturn #u, u[" + fmt.Sprint(n+3) + "]\n",
			[]string{fmt.Sprint(n + 3), "3"}
	case "grp_setlist_arg":
		return "local function f(a, b) return #a, b end\nlocal x = 5\nreturn f({" + items("7", n) + "}, x)\n", []string{N, "5"}
	case "grp_setlist_len": // the constructor is the operand of a propagating (PropagateMV/KMV) consumer
		return "return #{" + items("7", n) + "}\n", []string{N}
	case "grp_setlist_len_fn":
		return "local function f() return #{" + items("7", n) + "} end\nreturn f()\n", []string{N}
	case "grp_setlist_not":
		return "return not {" + items("7", n) + "}\n", []string{"false"}
	case "grp_setlist_index":
		return "local i = " + N + "\nreturn ({" + items("7", n) + "})[i], ({" + items("8", n) + "})[1]\n", []string{"7", "8"}
	case "grp_setlist_cond":
		return "local r = 0\nif {" + items("7", n) + "} then r = 1 end\nwhile not {" + items("7", n) + "} do r = 2 end\nreturn r\n", []string{"1"}
	case "grp_setlist_andor":
		return "local x = false\nlocal t = x or {" + items("7", n) + "}\nlocal u = t and {" + items("8", n) + "}\nreturn #t, #u\n", []string{N, N}
	case "grp_closure_moves":
		return "local a, b, c = 1, 2, 3\nlocal f = function() return a + b + c end\nlocal x, y, z = a, b, c\nreturn f(), x, y, z\n", []string{"6", "1", "2", "3"}
	case "grp_closure_loadnil":
		return "local a, b = 1, 2\nlocal f = function() return a + b end\nlocal p, q\nlocal r = a\nreturn f(), p, q, r\n", []string{"3", "nil", "nil", "1"}
	case "grp_closure_label":
		return "local fs, s = {}, 0\nfor i = 1, 3 do\nlocal j = i\nif i == 2 then goto cont end\nfs[#fs + 1] = function() return j end\n::cont::\nlocal k = j\ns = s + k\nend\nreturn #fs, fs[1](), fs[2](), s\n",
			[]string{"2", "1", "3", "6"}
	case "grp_closure_after_moves":
		return "local a, b = 1, 2\nlocal x, y = a, b\nlocal f = function() return a + y end\nlocal z, w = x, y\nreturn f(), z, w\n", []string{"3", "1", "2"}
	case "grp_closure_upvals":
		return "local a, b = 1, 2\nlocal function l1()\nlocal c = 3\nlocal function l2()\nlocal f = function() return a + b + c end\nlocal x, y = c, c\nreturn f() + x + y\nend\nlocal p, q = c, c\nreturn l2() + p + q\nend\nreturn l1()\n",
			[]string{"18"}
	case "grp_closure_two":
		return "local a, b = 1, 2\nlocal f = function() return a end\nlocal g = function() return a + b end\nlocal x, y = f, g\nreturn x() + y()\n", []string{"4"}
	case "grp_moven_target":
		return "local function p(...) return select('#', ...), ... end\nlocal a, b = 1, 2\nlocal n, r1, r2, r3, r4, r5 = p(a, b, (a and b), b, (nil or a))\nreturn n, r1, r2, r3, r4, r5\n",
			[]string{"5", "1", "2", "2", "2", "1"}
	case "grp_moven_loadnil":
		return "local x, y, z = 1, 2, 3\nlocal a, b, c = x, y, z\nlocal p, q\nlocal d, e = a, b\nreturn a, b, c, p, q, d, e\n", []string{"1", "2", "3", "nil", "nil", "1", "2"}
	case "grp_moven_loop":
		return "local x, y, c = 1, 2, 0\nwhile c < 6 do\nlocal a, b, d = x, y, x\nc = c + a + b\nend\nrepeat\nlocal a, b = y, x\nc = c + a\nuntil c > 9\nreturn c\n", []string{"10"}
	case "grp_moven_swap":
		return "local a, b, c, d = 1, 2, 3, 4\na, b, c, d = d, c, b, a\nlocal e, f = a, b\nreturn a, b, c, d, e, f\n", []string{"4", "3", "2", "1", "4", "3"}
	case "tfor_vars":
		// n = 10*vars + shape: generic for with 1..8 loop variables and a body that uses no register
		// above them (empty / break / test / local-to-local move / nested loop), so only TFORLOOP's
		// implicit result range R(A+3)..R(A+2+C) reaches the top of the frame
		vars, shape := n/10, n%10
		names := rep(vars, func(i int) string { return fmt.Sprintf("v%d", i) }, ", ")
		last := fmt.Sprintf("v%d", vars)
		it := "local function it(s, c) if c < 3 then return c + 1" + strings.Repeat(", c + 1", 8) + " end end\n"
		head := "for " + names + " in it, nil, 0 do\n"
		body := ""
		want := "3"
		switch shape {
		case 0:
			body = ""
		case 1:
			body = "break\n"
			want = "0"
		case 2:
			body = "if " + last + " == 2 then break end\n"
			want = "1"
		case 3:
			body = "v1 = " + last + "\n"
		case 4: // nested: the inner loop has as many variables again
			inner := rep(vars, func(i int) string { return fmt.Sprintf("w%d", i) }, ", ")
			body = "for " + inner + " in it, nil, 0 do end\n"
		case 5: // inside a function with parameters and a vararg
			return it + "local function f(p, ...)\nlocal n = 0\n" + head + "n = n + 1\nend\nreturn n\nend\nreturn f(1, 2, 3)\n", []string{"3"}
		}
		cnt := "n = n + 1\n"
		if shape == 0 || shape == 1 {
			// keep the body free of anything but the shape itself; count with a second loop
			return it + "local n = 0\n" + head + body + "end\n" + "for " + names + " in it, nil, 0 do " + map[bool]string{true: "break", false: "n = n + 1"}[shape == 1] + " end\nreturn n\n", []string{want}
		}
		return it + "local n = 0\n" + head + body + cnt + "end\nreturn n\n", []string{map[bool]string{true: "1", false: "3"}[shape == 2]}
	case "grp_moven_backlabel": // a MOVE run spanning the target of a backward goto
		return "local x, y, n = 1, 2, 0\nlocal a, b = x, y\n::top::\nlocal c, d = y, x\nn = n + c + d\nif n < 9 then goto top end\nreturn a, b, c, d, n\n",
			[]string{"1", "2", "2", "1", "9"}
	case "grp_moven_repeat": // ... the head of a repeat loop
		return "local x, y, n = 1, 2, 0\nlocal a, b = x, y\nrepeat\nlocal c, d = y, x\nn = n + c\nuntil n > 5\nreturn a, b, n\n", []string{"1", "2", "6"}
	case "grp_moven_while": // ... the head of a `while true` loop
		return "local x, y, n = 1, 2, 0\nlocal a, b = x, y\nwhile true do\nlocal c, d = y, x\nn = n + d\nif n > 3 then break end\nend\nreturn a, b, n\n", []string{"1", "2", "4"}
	case "grp_moven_nested": // nested loop heads and a backward label, runs of three
		return "local x, y, z, n = 1, 2, 3, 0\nlocal a, b, c = x, y, z\nrepeat\nlocal d, e, f = z, y, x\n::again::\nlocal g, h = d, e\nn = n + g\nif n % 2 == 1 then goto again end\nuntil n > 10\nreturn a, b, c, n\n",
			[]string{"1", "2", "3", "12"}
	case "grp_moven_fn": // the same inside a function with parameters as the sources
		return "local function f(p, q)\nlocal n = 0\nlocal a, b = p, q\nrepeat\nlocal c, d = q, p\nn = n + c\nuntil n > 5\nreturn a + b + n\nend\nreturn f(1, 2)\n", []string{"9"}
	case "protos_big": // OP_CLOSURE's Bx is 18 bits: the last of n function expressions must be the one called
		return rep(n, func(i int) string { return fmt.Sprintf("f = function() return %d end", i) }, "\n") + "\nreturn f()\n", []string{N}
	case "grp_moven_long":
		return rep(n, func(i int) string { return fmt.Sprintf("local a%d = %d", i, i) }, "\n") + "\nlocal function f(...) return select('#', ...), (select(" + N + ", ...)) end\nreturn f(" +
			rep(n, func(i int) string { return fmt.Sprintf("a%d", i) }, ", ") + ")\n", []string{N, N}
	}
	return "", nil
}

func adversarial(c *ctx, tier string) {
	ladder := map[string][]int{
		"locals": {1, 150, 199, 200, 201}, "locals_call": {150, 196, 197, 198, 199, 200}, "locals_multi": {100, 199, 200, 201},
		"params": {100, 199, 200, 201}, "consts": {255, 256, 257, 511, 512, 513}, "strconsts": {254, 255, 256, 257, 511, 512, 513},
		"globals": {255, 256, 257, 513}, "tablepos": {1, 49, 50, 51, 100, 101, 2500}, "tablepos_open": {49, 50, 51, 100},
		"tablehash": {100, 600}, "tablemixed": {60, 300}, "upvalues": {60, 150, 180, 254, 255, 256, 290}, "upvalues_set": {150},
		"nest_table": {100, 190, 199, 250}, "nest_func": {50, 100}, "nest_op": {100, 195, 199, 250}, "nest_paren": {250},
		"nest_do": {100, 190, 250}, "nest_if": {100, 250}, "nest_while": {100, 250}, "nest_call": {60, 100, 250},
		"concat": {50, 100, 198, 199, 200, 250}, "args": {100, 197, 198, 199, 250, 300}, "rets": {100, 197, 198, 199, 250, 300},
		"assign_multi": {60, 100, 199}, "moves": {100, 190}, "protos": {300}, "elseif": {100, 1000}, "setlist_then_moves": {100},
	}
	for _, f := range []string{"grp_closure_moves", "grp_closure_loadnil", "grp_closure_label", "grp_closure_after_moves", "grp_closure_upvals",
		"grp_closure_two", "grp_moven_target", "grp_moven_loadnil", "grp_moven_loop", "grp_moven_swap",
		"grp_moven_backlabel", "grp_moven_repeat", "grp_moven_while", "grp_moven_nested", "grp_moven_fn"} {
		ladder[f] = []int{1}
	}
	ladder["grp_moven_long"] = []int{60, 90}
	for k := range rkKinds {
		ladder["rk_"+k] = []int{255, 256, 257}
		if strings.Contains(k, "_") && k != "self_stmt" && k != "arith_r" && k != "arith_l" && k != "cmp_r" && k != "cmp_l" && k != "cmp_if" {
			// the wave-5 kinds (temporaries): only the register form is new
			ladder["rk_"+k] = []int{256, 257}
		}
		if tier == "thorough" {
			ladder["rk_"+k] = []int{253, 254, 255, 256, 257, 258, 511, 512, 513}
		}
	}
	for vars := 1; vars <= 8; vars++ {
		for shape := 0; shape <= 5; shape++ {
			ladder["tfor_vars"] = append(ladder["tfor_vars"], vars*10+shape)
		}
	}
	for _, f := range []string{"grp_setlist_move", "grp_setlist_moves", "grp_setlist_loadnil", "grp_setlist_label", "grp_setlist_if", "grp_setlist_loop",
		"grp_setlist_closure", "grp_setlist_twice", "grp_setlist_open", "grp_setlist_arg", "grp_setlist_len", "grp_setlist_len_fn",
		"grp_setlist_not", "grp_setlist_index", "grp_setlist_cond", "grp_setlist_andor"} {
		ladder[f] = []int{120, 25551, 25553}
		if tier == "thorough" {
			ladder[f] = append(ladder[f], 25550, 25600, 25601, 25651)
		}
	}
	big := map[string][]int{
		"tablepos": {25500, 25550, 25551, 25601}, "tablepos_open": {25550, 25551}, "setlist_then_moves": {25551},
	}
	loops := []string{"numfor", "while", "genfor", "repeat", "ifelse", "gotoback", "gotofwd"}
	loopN := []int{131040, 131064, 131068, 131070, 131072}
	if tier == "thorough" {
		nested := map[string][]int{"nest_func": {190, 250}}
		for k, v := range nested {
			ladder[k] = append(ladder[k], v...)
		}
		ladder["protos_big"] = []int{262144, 262145}
		loopN = []int{131066, 131067, 131068, 131069, 131070, 131071, 131072, 131073, 131074, 140000}
		big["tablepos"] = append(big["tablepos"], 25549, 25552, 25600, 25650, 51101)
		ladder["andor"] = nil
	}
	fams := make([]string, 0, len(ladder))
	for k := range ladder {
		fams = append(fams, k)
	}
	sortStrings(fams)
	for _, f := range fams {
		for _, n := range ladder[f] {
			runAdv(c, f, n)
		}
	}
	bf := make([]string, 0, len(big))
	for k := range big {
		bf = append(bf, k)
	}
	sortStrings(bf)
	for _, f := range bf {
		for _, n := range big[f] {
			if tier == "thorough" {
				// the 25550/25551-field ones go through coqc in the thorough tier (about a minute each):
				// spread them over the shards of the generated programs
				force := n == 25550 || n == 25551
				c.deferred = append(c.deferred, func() {
					c.forceCoq = force
					runAdv(c, f, n)
					c.forceCoq = false
				})
			} else {
				runAdv(c, f, n)
			}
		}
	}
	for _, k := range loops {
		for _, n := range loopN {
			runAdv(c, "loop_"+k, n)
		}
	}
}
