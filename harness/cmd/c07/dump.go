package main

import (
	"strconv"
	"strings"

	lua "github.com/yuin/gopher-lua"
)

// P is the complete dump of one FunctionProto: everything the VM indexes.
type P struct {
	Code    []uint32
	Kinds   []int // per constant: 0 not a string, 1 string whose stringConstants entry equals it, 2 string with a missing/different entry
	NSConst int   // len(stringConstants)
	Subs    []*P
	NUp     int
	NParams int
	VarArg  int
	NRegs   int
	NLines  int // len(DbgSourcePositions)
	Src     *lua.FunctionProto
}

func dumpProto(fp *lua.FunctionProto) *P {
	sc := lua.VerifStringConstants(fp)
	p := &P{Code: fp.Code, NSConst: len(sc), NUp: int(fp.NumUpvalues), NParams: int(fp.NumParameters),
		VarArg: int(fp.IsVarArg), NRegs: int(fp.NumUsedRegisters), NLines: len(fp.DbgSourcePositions), Src: fp}
	p.Kinds = make([]int, len(fp.Constants))
	for i, c := range fp.Constants {
		if s, ok := c.(lua.LString); ok {
			if i < len(sc) && sc[i] == string(s) {
				p.Kinds[i] = 1
			} else {
				p.Kinds[i] = 2
			}
		}
	}
	for _, s := range fp.FunctionPrototypes {
		p.Subs = append(p.Subs, dumpProto(s))
	}
	return p
}

// flatten lists the tree in preorder (the Coq side uses the same order).
func flatten(p *P) []*P {
	out := []*P{p}
	for _, s := range p.Subs {
		out = append(out, flatten(s)...)
	}
	return out
}

func (p *P) totalInsts() int {
	n := len(p.Code)
	for _, s := range p.Subs {
		n += s.totalInsts()
	}
	return n
}

func (p *P) maxInsts() int {
	n := len(p.Code)
	for _, s := range p.Subs {
		if m := s.maxInsts(); m > n {
			n = m
		}
	}
	return n
}

func zlist(sb *strings.Builder, n int, at func(i int) int64) {
	sb.WriteByte('[')
	for i := 0; i < n; i++ {
		if i > 0 {
			sb.WriteByte(';')
		}
		sb.WriteString(strconv.FormatInt(at(i), 10))
	}
	sb.WriteByte(']')
}

// coq prints the proto as a Gallina term of type `proto` (VM/Proto.v).
func (p *P) coq(sb *strings.Builder) {
	sb.WriteString("(Proto (z63 ")
	zlist(sb, len(p.Code), func(i int) int64 { return int64(p.Code[i]) })
	sb.WriteString("%uint63)")
	sb.WriteByte(' ')
	zlist(sb, len(p.Kinds), func(i int) int64 { return int64(p.Kinds[i]) })
	sb.WriteByte(' ')
	sb.WriteString(strconv.Itoa(p.NSConst))
	sb.WriteString(" [")
	for i, s := range p.Subs {
		if i > 0 {
			sb.WriteString("; ")
		}
		s.coq(sb)
	}
	sb.WriteString("] ")
	sb.WriteString(strconv.Itoa(p.NUp) + " " + strconv.Itoa(p.NParams) + " " + strconv.Itoa(p.VarArg) + " " +
		strconv.Itoa(p.NRegs) + " " + strconv.Itoa(p.NLines) + ")")
}
