package main

import (
	"sort"

	"verifh/lib"
)

func sortStrings(s []string) { sort.Strings(s) }

// corpus: witnesses of every defect found for C07 (all fixed: a regression is an ordinary
// violation) and minimised shapes that once failed the checker.
var corpusSrcs = []struct{ name, src string }{
	// C07-1: register operands >= NumUsedRegisters
	{"c07-1-closure", "local function f(a)\n  local g = function() return a end\n  return g\nend\nreturn f(1)()"},
	{"c07-1-vararg", "local function f(...)\n  local a, b = 1, 2\n  return ...\nend\nreturn f(1, 2, 3)"},
	{"c07-1-tforloop", "local n = 0\nfor k in pairs({1, 2, 3}) do n = n + k end\nreturn n"},
	{"c07-1-tailcall", "local function f(x) return x end\nlocal function g(a) local b = a; return f(b, a, b) end\nreturn g(1)"},
	{"c07-1-settable", "local t = {}\nlocal function f() t.x = function() return t end end\nf()\nreturn t.x()"},
	{"c07-1-iter0", "function iter0(n) local i = 0; return function() i = i + 1; if i <= n then return i, i * 2 end end end\nfor a, b in iter0(3) do end"},
	// C07-5: jump threading through an already patched JMP
	{"c07-5-hang", "local n = 0\nif n > 5 then n = 1000 end\nfor k in pairs({1, 2, 3}) do break end\nn = n + 1\nreturn n"},
	{"c07-5-wrong", "local i = 0\nlocal j = 0\nif i > 100 then j = 5 end\nwhile true do\n  while true do break end\n  i = i + 1\n  j = j + 10\n  if i > 3 then break end\nend\nreturn i, j"},
	{"c07-5-capture", "local function f(a)\n  local g = function() return a end\n  local c = 0\n  ::top::\n  while true do c = c + 1; if c > 3 then return c end end\n  goto top\nend\nreturn f(1)"},
	{"c07-5-capture-exact", "local function f(a)\n  local g = function() return a end\n  ::top::\n  while true do end\n  goto top\nend\nreturn 1"},
	{"c07-5-tfor-nop", "local n = 0\nif n > 5 then n = 1 end\nif n > 6 then n = 2 end\nfor k, v in pairs({1}) do break end\nn = n + 1\nn = n + 10\nn = n + 100\nreturn n"},
	// C07-6: MOVEN across a jump target
	{"c07-6-moven", "local function p(...) return ... end\nlocal gs = 'g'\nlocal function f(p1, p2) return p(gs, ('' or gs), p2, {}) end\nreturn f(1, 2)"},
	// shapes around multi-word groups
	{"closure-in-loop", "local fs = {}\nfor i = 1, 3 do local j = i; fs[i] = function() j = j + 1; return j + i end end\nreturn fs[1](), fs[3]()"},
	{"repeat-upvalue", "local fs = {}\nlocal i = 0\nrepeat local k = i; fs[#fs + 1] = function() return k end; i = i + 1 until k >= 2\nreturn #fs"},
	{"goto-continue", "local s = 0\nfor i = 1, 5 do\n  if i % 2 == 0 then goto continue end\n  s = s + i\n  ::continue::\nend\nreturn s"},
	{"goto-out-of-nested", "local s = 0\nfor i = 1, 3 do for j = 1, 3 do\n  local f = function() return i + j end\n  s = s + f()\n  if j == 2 then goto out end\nend end\n::out::\nreturn s"},
	{"goto-back-upvalue", "local n = 0\ndo\n  ::top::\n  local x = n\n  local f = function() return x end\n  n = n + f() + 1\n  if n < 10 then goto top end\nend\nreturn n"},
	{"loadbool-skip", "local a, b = 1, 2\nlocal c = a < b\nlocal d = not (a == b)\nlocal e = (a <= b) == (b >= a)\nreturn c, d, e"},
	{"self-big", "local t = {m = function(self, x) return x end}\nreturn t:m(1), t.m(t, 2)"},
	{"testset", "local a, b\nlocal c = a or b or 3\nlocal d = a and b and 4\nlocal e = (a or 1) and (b or 2)\nreturn c, d, e"},
}

func corpus(c *ctx) {
	for _, s := range corpusSrcs {
		c.process(input{Kind: "src", Src: s.src, Run: true}, s.src, s.name, "corpus", nil, nil)
	}
	// the size witnesses (C07-2/3/4)
	runAdv(c, "tablepos", 25551)
	runAdv(c, "grp_setlist_move", 25553) // the seeded regression C07-2: block-number word re-coded as MOVEN
	runAdv(c, "grp_moven_repeat", 1)     // seeded regression C07-8: MOVE run merged across a loop head
	runAdv(c, "grp_moven_backlabel", 1)  // ... across a backward goto label
	runAdv(c, "rk_self", 256)            // seeded regression C07-5: method name at constant index 256
	runAdv(c, "rk_self_callrecv", 256)   // seeded regression C07-10: OP_SELF wrote R(A+1) before reading its key, which the
	runAdv(c, "rk_self_strrecv", 257)    // compiler had loaded into R(A+1) (receiver a temporary, method name not RK-encodable)
	runAdv(c, "grp_setlist_len", 25551)  // PropagateMV popped the block-number word (fixed: cd20660)
	runAdv(c, "tfor_vars", 50)           // the seeded regression C07-4: five loop variables, empty body
	runAdv(c, "loop_numfor", 140000)
	runAdv(c, "loop_numfor", 131071)
	runAdv(c, "loop_repeat", 140000)
	runAdv(c, "upvalues", 290)
}

func generated(c *ctx, r *lib.Rand, tier string) {
	n := 800
	if tier == "thorough" {
		n = 25000
	}
	for i := 0; i < n; i++ {
		if i%61 == 60 && len(c.deferred) > 0 {
			c.deferred[0]()
			c.deferred = c.deferred[1:]
		}
		size := 25 + r.Intn(50)
		fr := r.Fork()
		saved := *fr
		src := genProgram(fr, size)
		c.process(input{Kind: "src", Src: src, Run: true}, src, "gen", "generated", nil, nil)
		c.twinsOf(i, saved, size, src)
	}
	for _, f := range c.deferred {
		f()
	}
	c.deferred = nil
}
