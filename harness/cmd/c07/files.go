package main

import (
	"encoding/json"
	"fmt"
	"os"
	"os/exec"
	"path/filepath"
	"sort"
	"sync"
	"time"

	lua "github.com/yuin/gopher-lua"
)

const repoDir = "/repo"

// the scripts the repository's own script_test.go executes (the others are only compiled)
var executed = map[string]bool{}

func init() {
	for _, s := range []string{"base.lua", "coroutine.lua", "db.lua", "issues.lua", "os.lua", "table.lua", "vm.lua", "math.lua", "strings.lua", "goto.lua"} {
		executed["_glua-tests/"+s] = true
	}
	for _, s := range []string{"attrib.lua", "calls.lua", "closure.lua", "constructs.lua", "events.lua", "literals.lua", "locals.lua", "math.lua", "sort.lua", "strings.lua", "vararg.lua", "pm.lua"} {
		executed["_lua5.1-tests/"+s] = true
	}
	extraCmds["child-trace"] = childTrace
}

type childOut struct {
	Trans  map[string][][2]int `json:"trans"` // prototype index -> transitions
	Insts  int                 `json:"insts"`
	Starts int                 `json:"starts"`
	Err    string              `json:"err"`
	Over   bool                `json:"over"`
}

// childTrace FILE OUT: runs the script (cwd = its directory, as script_test.go does) under the tracer.
func childTrace(args []string) {
	path, out := args[0], args[1]
	b, err := os.ReadFile(path)
	if err != nil {
		os.Exit(3)
	}
	os.Chdir(filepath.Dir(path))
	fp, _, _ := compileSrc(string(b), filepath.Base(path))
	if fp == nil {
		os.Exit(4)
	}
	root := dumpProto(fp)
	tr, res := runTraced(fp, root, 3000000, nil)
	co := childOut{Trans: map[string][][2]int{}, Insts: res.Insts, Starts: tr.starts, Err: res.Err + res.Panicked, Over: res.Over}
	ids, per, _ := tr.grouped()
	for _, id := range ids {
		co.Trans[fmt.Sprint(id)] = per[id]
	}
	j, _ := json.Marshal(co)
	os.WriteFile(out, j, 0o644)
}

type fileJob struct {
	rel  string
	run  bool
	out  *childOut
	fail string
}

func scriptFiles(c *ctx, tier string) {
	var jobs []*fileJob
	for _, d := range []string{"_lua5.1-tests", "_glua-tests"} {
		fs, _ := filepath.Glob(filepath.Join(repoDir, d, "*.lua"))
		sort.Strings(fs)
		for _, f := range fs {
			rel, _ := filepath.Rel(repoDir, f)
			jobs = append(jobs, &fileJob{rel: rel, run: executed[rel]})
		}
	}
	// executions in child processes, in parallel
	tmp, _ := os.MkdirTemp("", "c07trace")
	defer os.RemoveAll(tmp)
	var wg sync.WaitGroup
	sem := make(chan struct{}, 12)
	for i, j := range jobs {
		if !j.run {
			continue
		}
		wg.Add(1)
		go func(i int, j *fileJob) {
			defer wg.Done()
			sem <- struct{}{}
			defer func() { <-sem }()
			out := filepath.Join(tmp, fmt.Sprintf("t%d.json", i))
			cmd := exec.Command(os.Args[0], "child-trace", filepath.Join(repoDir, j.rel), out)
			cmd.Dir = tmp
			done := make(chan error, 1)
			if err := cmd.Start(); err != nil {
				j.fail = "start: " + err.Error()
				return
			}
			go func() { done <- cmd.Wait() }()
			select {
			case err := <-done:
				if err != nil {
					j.fail = "child: " + err.Error()
				}
			case <-time.After(60 * time.Second):
				cmd.Process.Kill()
				j.fail = "timeout"
			}
			if b, err := os.ReadFile(out); err == nil {
				co := &childOut{}
				if json.Unmarshal(b, co) == nil {
					j.out = co
				}
			}
		}(i, j)
	}
	wg.Wait()
	for _, j := range jobs {
		processFile(c, j)
	}
}

func runFile(c *ctx, rel string, run bool) {
	j := &fileJob{rel: rel, run: run}
	if run {
		tmp, _ := os.MkdirTemp("", "c07trace")
		defer os.RemoveAll(tmp)
		out := filepath.Join(tmp, "t.json")
		cmd := exec.Command(os.Args[0], "child-trace", filepath.Join(repoDir, rel), out)
		cmd.Dir = tmp
		cmd.Run()
		if b, err := os.ReadFile(out); err == nil {
			co := &childOut{}
			if json.Unmarshal(b, co) == nil {
				j.out = co
			}
		}
	}
	processFile(c, j)
}

// processFile compiles the script in this process (compilation is deterministic, so the prototype
// numbering equals the child's) and attaches the transitions observed by the child.
func processFile(c *ctx, j *fileJob) {
	b, err := os.ReadFile(filepath.Join(repoDir, j.rel))
	if err != nil {
		return
	}
	in := input{Kind: "file", Path: j.rel, Run: j.run}
	class := "script"
	src := string(b)
	fp, _, pan := compileSrc(src, filepath.Base(j.rel))
	if fp == nil && pan == "" {
		c.rejected[class]++
		c.w.Meta.Discarded++
		return
	}
	in2 := in
	in2.Run = false
	if j.out == nil {
		c.process(in2, src, filepath.Base(j.rel), class, nil, nil)
		if j.run {
			c.rejected["script-trace-unavailable:"+j.fail]++
		}
		return
	}
	c.processWithTrace(in, src, filepath.Base(j.rel), class, j.out)
}

var _ = lua.LNil
