package main

import (
	"fmt"

	lua "github.com/yuin/gopher-lua"
	"verifh/lib"
)

// codecOne runs one opcode.go function on the real code and records the case.
func codecOne(c *ctx, fam string, a []int) {
	in := input{Kind: "codec", Fam: fam, Args: a}
	z := func(i int) string { return lib.CoqZ(int64(a[i])) }
	nz := true
	for _, x := range a {
		if x == 0 {
			nz = false
		}
	}
	switch fam {
	case "decode":
		w := uint32(a[0])
		op, A, B, C, bx, sbx := lua.VerifOpDecode(w)
		c.w.Add(lib.Case{Coq: fmt.Sprintf("CDecode %d %d %d %d %d %d %s", w, op, A, B, C, bx, lib.CoqZ(int64(sbx))),
			Input: in, Observed: []int{op, A, B, C, bx, sbx}, Class: "codec/decode", Nontrivial: op != 0 && A != 0 && B != 0 && C != 0})
	case "abc":
		w := lua.VerifOpCreateABC(a[0], a[1], a[2], a[3])
		c.w.Add(lib.Case{Coq: fmt.Sprintf("CCreateABC %s %s %s %s %d", z(0), z(1), z(2), z(3), w), Input: in, Observed: w, Class: "codec/createABC", Nontrivial: nz})
	case "abx":
		w := lua.VerifOpCreateABx(a[0], a[1], a[2])
		c.w.Add(lib.Case{Coq: fmt.Sprintf("CCreateABx %s %s %s %d", z(0), z(1), z(2), w), Input: in, Observed: w, Class: "codec/createABx", Nontrivial: nz})
	case "asbx":
		w := lua.VerifOpCreateASbx(a[0], a[1], a[2])
		c.w.Add(lib.Case{Coq: fmt.Sprintf("CCreateASbx %s %s %s %d", z(0), z(1), z(2), w), Input: in, Observed: w, Class: "codec/createASbx", Nontrivial: nz})
	case "set":
		w := lua.VerifOpSet(uint32(a[0]), a[1], a[2])
		c.w.Add(lib.Case{Coq: fmt.Sprintf("CSet %d %d %s %d", uint32(a[0]), a[1], z(2), w), Input: in, Observed: w, Class: "codec/set", Nontrivial: a[0] != 0 && a[2] != 0})
	case "props":
		rows := []string{}
		b2 := func(b bool) int64 {
			if b {
				return 1
			}
			return 0
		}
		for _, p := range lua.VerifOpProps() {
			rows = append(rows, lib.CoqZList([]int64{b2(p.IsTest), b2(p.SetRegA), int64(p.ModeArgB), int64(p.ModeArgC), int64(p.Type)}))
		}
		k := lua.VerifProtoConsts()
		consts := []int64{}
		for _, n := range []string{"maxRegisters", "opCodeMax", "opMaxArgsA", "opMaxArgsB", "opMaxArgsC", "opMaxArgBx", "opMaxArgSbx", "opBitRk", "opMaxIndexRk"} {
			consts = append(consts, int64(k[n]))
		}
		consts = append(consts, int64(lua.FieldsPerFlush), int64(lua.MaxArrayIndex))
		// the Go port's own table must be the same table
		for i, p := range lua.VerifOpProps() {
			q := props[i]
			if q.name != p.Name || q.isTest != p.IsTest || q.setA != p.SetRegA || q.mb != p.ModeArgB || q.mc != p.ModeArgC || q.typ != p.Type {
				consts = append(consts, -1) // makes check_impl fail
			}
		}
		c.w.Add(lib.Case{Coq: fmt.Sprintf("CProps %s %s", lib.CoqList(rows), lib.CoqZList(consts)), Input: in, Observed: consts, Class: "codec/opProps", Nontrivial: true})
	}
}

func codecCases(c *ctx, r *lib.Rand, tier string) {
	codecOne(c, "props", nil)
	n := 250
	if tier == "thorough" {
		n = 6000
	}
	// boundary words: every field all-ones / all-zeros, single bits
	words := []uint32{0, 0xffffffff, 0x3ffffff, 0xfc000000, 0x03fc0000, 0x0003fe00, 0x000001ff, 0x0003ffff, 0x00020000, 0x0001ffff, 0x00000100, 0x80000000}
	for b := 0; b < 32; b++ {
		words = append(words, 1<<uint(b))
	}
	for _, w := range words {
		codecOne(c, "decode", []int{int(w)})
	}
	edge := func(max int) int {
		switch r.Intn(8) {
		case 0:
			return 0
		case 1:
			return max
		case 2:
			return max + 1 // out of range: masked by the setters
		case 3:
			return -1 - r.Intn(3)
		case 4:
			return max - 1
		}
		return r.Intn(max + 1)
	}
	for i := 0; i < n; i++ {
		codecOne(c, "decode", []int{int(uint32(r.U64()))})
		codecOne(c, "abc", []int{edge(41), edge(255), edge(511), edge(511)})
		switch i % 3 {
		case 0:
			codecOne(c, "abx", []int{edge(63), edge(255), edge(262143)})
		case 1:
			codecOne(c, "asbx", []int{edge(41), edge(255), edge(262143) - 131071})
		default:
			f := r.Intn(6)
			max := []int{63, 255, 511, 511, 262143, 131072}[f]
			v := edge(max)
			if f == 5 && r.Chance(40) {
				v = -r.Intn(131072)
			}
			codecOne(c, "set", []int{int(uint32(r.U64())), f, v})
		}
	}
}
