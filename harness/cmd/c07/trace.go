package main

import (
	"errors"
	"fmt"
	"sort"
	"strings"
	"time"

	lua "github.com/yuin/gopher-lua"
)

// tracer is a context.Context whose Done() is polled by mainLoopWithContext once per instruction,
// right after the fetch (and, since ac1d613, also after a Go function called from Go code returns:
// those polls are recognised and skipped, see Done): it records the (prototype, pc) about to be executed and, per call-stack
// depth, the transition from the previously executed pc of the same activation. It also enforces
// an instruction budget (Err() becomes non-nil), so generated programs cannot hang the harness.
type tracer struct {
	L      *lua.LState
	ids    map[*lua.FunctionProto]int
	flat   []*P
	budget int
	n      int
	over   bool
	closed chan struct{}
	last   []tent
	trans  map[[3]int]struct{}
	starts int
}

type tent struct {
	valid bool
	id    int
	pc    int
}

var errBudget = errors.New("instruction budget exhausted")

func newTracer(L *lua.LState, root *P, budget int) *tracer {
	t := &tracer{L: L, ids: map[*lua.FunctionProto]int{}, budget: budget, closed: make(chan struct{}), trans: map[[3]int]struct{}{}}
	close(t.closed)
	t.flat = flatten(root)
	for i, p := range t.flat {
		t.ids[p.Src] = i
	}
	return t
}

func (t *tracer) Deadline() (time.Time, bool) { return time.Time{}, false }
func (t *tracer) Value(key any) any           { return nil }
func (t *tracer) Err() error {
	if t.over {
		return errBudget
	}
	return nil
}

// an instruction after which the same stack depth can legitimately show pc 0 of the same prototype
// again (the activation ended: return, tail call, or an error raised by the instruction)
func mayEndActivation(op int) bool {
	switch op {
	case opMOVE, opMOVEN, opLOADK, opLOADBOOL, opLOADNIL, opGETUPVAL, opSETUPVAL, opNEWTABLE, opNOT,
		opJMP, opTEST, opTESTSET, opCLOSE, opCLOSURE, opVARARG, opNOP, opSETLIST:
		return false
	}
	return true
}

func (t *tracer) Done() <-chan struct{} {
	if t.over {
		return t.closed
	}
	proto, pc, depth, ok := lua.VerifCurrentPc(t.L)
	if !ok {
		return nil
	}
	t.n++
	if t.n > t.budget {
		t.over = true
		return t.closed
	}
	if depth >= len(t.last) {
		t.last = append(t.last, make([]tent, depth+1-len(t.last))...)
	} else {
		for d := depth + 1; d < len(t.last); d++ {
			t.last[d].valid = false
		}
		t.last = t.last[:depth+1]
	}
	id, known := t.ids[proto]
	prev := t.last[depth]
	if known && prev.valid && prev.id == id && prev.pc == pc && dOp(t.flat[id].Code[pc]) != opJMP {
		// not an instruction fetch: since /repo ac1d613 the context is also polled when a Go function
		// entered from Go code (the iterator of TFORLOOP through callR, a metamethod, a library
		// callback) returns, while the Lua frame below is still inside the same instruction. A genuine
		// pc -> pc transition exists only for a JMP onto itself.
		return nil
	}
	if known && prev.valid && prev.id == id {
		prevop := dOp(t.flat[id].Code[prev.pc])
		if pc == 0 && mayEndActivation(prevop) {
			t.starts++
		} else {
			t.trans[[3]int{id, prev.pc, pc}] = struct{}{}
		}
	}
	t.last[depth] = tent{known, id, pc}
	return nil
}

// transitions grouped per prototype, sorted.
func (t *tracer) grouped() (ids []int, per map[int][][2]int, total int) {
	per = map[int][][2]int{}
	for k := range t.trans {
		per[k[0]] = append(per[k[0]], [2]int{k[1], k[2]})
	}
	for id, l := range per {
		sort.Slice(l, func(i, j int) bool {
			if l[i][0] != l[j][0] {
				return l[i][0] < l[j][0]
			}
			return l[i][1] < l[j][1]
		})
		ids = append(ids, id)
		total += len(l)
	}
	sort.Ints(ids)
	return
}

type runResult struct {
	Results  []string // the chunk's return values (tostring), at most 12
	Err      string
	Panicked string
	Insts    int
	Over     bool
	GoPanic  bool // the error is a Go panic that PCall converted (ApiErrorPanic), not an error raised by the interpreter
}

var hangs int

// runTraced executes the compiled chunk on a fresh state under the tracer. The instruction budget
// bounds Lua-level loops; a watchdog bounds the time spent inside single instructions (the run is
// abandoned in its goroutine and reported; after three such hangs nothing more is executed).
func runTraced(fp *lua.FunctionProto, root *P, budget int, setup func(L *lua.LState)) (tr *tracer, res runResult) {
	return runTracedWith(fp, root, budget, setup, lua.Options{RegistrySize: 1024 * 20, CallStackSize: 256})
}

// runTracedWith: the same on a state with the given options (twin.go runs every generated program
// also on a state whose registry and call stack start small and grow).
func runTracedWith(fp *lua.FunctionProto, root *P, budget int, setup func(L *lua.LState), opts lua.Options) (tr *tracer, res runResult) {
	L := lua.NewState(opts)
	if setup != nil {
		setup(L)
	}
	tr = newTracer(L, root, budget)
	if hangs >= 3 {
		res.Err = "not executed: too many hung runs"
		return
	}
	L.SetContext(tr)
	done := make(chan runResult, 1)
	go func() {
		var r runResult
		defer func() {
			if rc := recover(); rc != nil {
				r.Panicked = trunc(fmt.Sprint(rc), 300)
			}
			done <- r
		}()
		base := L.GetTop()
		L.Push(L.NewFunctionFromProto(fp))
		if err := L.PCall(0, lua.MultRet, nil); err != nil {
			r.Err = trunc(err.Error(), 300)
			if ae, ok := err.(*lua.ApiError); ok && ae.Type == lua.ApiErrorPanic {
				r.GoPanic = true
			}
		} else {
			for i := base + 1; i <= L.GetTop() && i <= base+12; i++ {
				r.Results = append(r.Results, trunc(L.Get(i).String(), 40))
			}
		}
	}()
	limit := 20 * time.Second
	if budget > 100000 {
		limit = 120 * time.Second
	}
	// a run is hung when a whole watchdog period passes without a single instruction being fetched
	// (on the shared machine a healthy run can be starved for a long time: progress, however slow,
	// re-arms the watchdog, at most 8 times)
	seen := -1
	for round := 0; ; round++ {
		select {
		case res = <-done:
			res.Insts = tr.n
			res.Over = tr.over
			L.Close()
			return
		case <-time.After(limit):
		}
		if now := tr.n; now != seen && round < 8 {
			seen = now
			continue
		}
		break
	}
	hangs++
	// the tracer is still being written by the abandoned goroutine: hand back an empty one
	res = runResult{Panicked: fmt.Sprintf("hang: no instruction fetched for %v under a budget of %d instructions", limit, budget), Insts: budget}
	tr = newTracer(L, root, budget)
	return
}

// goRuntimePanic: the error text of a Go runtime panic that PCall converted into a Lua error.
func goRuntimePanic(msg string) bool {
	return strings.Contains(msg, "runtime error:")
}
