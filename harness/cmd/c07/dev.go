package main

import (
	"fmt"
	"os"

	"verifh/lib"
)

// developer aids: `c07 probe FILE...` prints the Go-port verdict per file; `c07 gen SEED N [SHOW]`
// generates N programs and reports rejects / non-wf ones (SHOW prints program number SHOW).
func init() {
	extraCmds["probe"] = func(files []string) {
		for _, f := range files {
			b, err := os.ReadFile(f)
			if err != nil {
				fmt.Println(f, err)
				continue
			}
			p, errs, pan := compileSrc(string(b), f)
			if p == nil {
				fmt.Println(f, "ERR", errs, "PANIC", pan)
				continue
			}
			d := dumpProto(p)
			ok, why := wfProto(d)
			fmt.Printf("%s protos=%d insts=%d maxfn=%d wf=%v\n", f, len(flatten(d)), d.totalInsts(), d.maxInsts(), ok)
			for _, w := range why {
				fmt.Println("   ", w)
			}
		}
	}
	// `c07 dis FILE...`: disassembly (FunctionProto.String) and the outcome of a traced run
	extraCmds["dis"] = func(files []string) {
		for _, f := range files {
			b, err := os.ReadFile(f)
			if err != nil {
				fmt.Println(f, err)
				continue
			}
			p, errs, pan := compileSrc(string(b), f)
			if p == nil {
				fmt.Println(f, "ERR", errs, "PANIC", pan)
				continue
			}
			fmt.Println(trunc(p.String(), 6000))
			_, res := runTraced(p, dumpProto(p), 100000, nil)
			fmt.Printf("results=%v err=%q panicked=%q gopanic=%v insts=%d\n", res.Results, trunc(res.Err, 200), res.Panicked, res.GoPanic, res.Insts)
		}
	}
	// `c07 twins SEED N OUT`: N generated programs with their twins only (false-alarm hunting on the clean tree)
	extraCmds["twins"] = func(args []string) {
		seed, n := uint64(1), 1000
		fmt.Sscan(args[0], &seed)
		fmt.Sscan(args[1], &n)
		w, err := lib.NewWriter(args[2], "C07", "dev", seed, header, "case", 60)
		if err != nil {
			panic(err)
		}
		c := &ctx{w: w, rejected: map[string]int{}}
		r := lib.NewRand(seed).Fork()
		for i := 0; i < n; i++ {
			size := 25 + r.Intn(50)
			fr := r.Fork()
			saved := *fr
			src := genProgram(fr, size)
			c.process(input{Kind: "src", Src: src, Run: true}, src, "gen", "generated", nil, nil)
			c.twinsOf(i, saved, size, src)
		}
		w.Close()
		fmt.Printf("twins: runs=%d compared=%d incomparable=%d rejected=%d regkeys=%d go_violations=%d\n", c.twin.Runs, c.twin.Compared, c.twin.Incomparable, c.twin.Rejected, c.twin.RegKeys, len(w.Meta.GoViolations))
		for i, g := range w.Meta.GoViolations {
			if i < 5 {
				fmt.Println(trunc(fmt.Sprint(g), 600))
			}
		}
	}
	extraCmds["gen"] = func(args []string) {
		seed, n, show := uint64(1), 1, -1
		fmt.Sscan(args[0], &seed)
		if len(args) > 1 {
			fmt.Sscan(args[1], &n)
		}
		if len(args) > 2 {
			fmt.Sscan(args[2], &show)
		}
		r := lib.NewRand(seed)
		rej, insts, runinsts, errs := 0, 0, 0, 0
		hist := make([]int, 64)
		exec := make([]int, 64)
		for i := 0; i < n; i++ {
			src := genProgram(r.Fork(), 25+r.Intn(50))
			p, e, pan := compileSrc(src, "gen")
			if n == 1 || i == show {
				fmt.Println(src)
				if p != nil {
					fmt.Println(p.String())
				}
			}
			if p == nil {
				rej++
				if n <= 50 || pan != "" || rej < 5 {
					fmt.Println("REJECT", i, e, pan)
				}
				continue
			}
			d := dumpProto(p)
			ok, why := wfProto(d)
			tr, res := runTraced(p, d, 30000, nil)
			_, _, nt := tr.grouped()
			insts += d.totalInsts()
			for _, q := range flatten(d) {
				tags, _ := view(q).scan()
				for pc, w := range q.Code {
					if tags[pc] == 0 {
						hist[dOp(w)]++
					}
				}
			}
			for k := range tr.trans {
				exec[dOp(tr.flat[k[0]].Code[k[1]])]++
			}
			runinsts += res.Insts
			if res.Err != "" {
				errs++
			}
			if n <= 50 || !ok || res.Panicked != "" || goRuntimePanic(res.Err) {
				fmt.Printf("%d: protos=%d insts=%d wf=%v %v | run insts=%d over=%v trans=%d err=%q pan=%q\n", i, len(flatten(d)), d.totalInsts(), ok, why, res.Insts, res.Over, nt, trunc(res.Err, 80), res.Panicked)
			}
		}
		for op := 0; op <= opNOP; op++ {
			fmt.Printf("%s:%d/%d ", props[op].name, hist[op], exec[op])
		}
		fmt.Println()
		fmt.Println("rejected", rej, "of", n, "avg insts", insts/max(n-rej, 1), "avg run insts", runinsts/max(n-rej, 1), "runs with error", errs)
	}
}
