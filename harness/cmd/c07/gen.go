package main

import (
	"fmt"
	"strings"

	"verifh/lib"
)

// Random Lua program generator for C07. The aim is compiler-shape coverage, not meaningful
// computation: every statement kind can appear at every block position (first/middle/last, in
// function bodies, loop bodies, branches, do-blocks), all goto shapes (forward/backward, same
// block / enclosing block / continue label at block end, out of nested loops, across captured
// locals), closures over locals of several enclosing levels (read and written, created in loops),
// varargs in every consuming position, method calls and method definitions, table constructors of
// every field kind with open (multi-value) last fields, numeric and generic for. Light typing
// keeps most programs running for a while so that the executed-transition trace is non-trivial;
// every loop is counter-bounded or cut by the tracer's instruction budget.

type vkind int

const (
	kNum vkind = iota
	kStr
	kTbl
	kFun
	kAny
)

type gvar struct {
	name string
	kind vkind
}

type gfunc struct {
	vars   []gvar // locals visible (all enclosing functions' too, for upvalues)
	base   int    // index in vars where this function's own locals start
	vararg bool
	nloc   int // number of locals declared in this function (kept well below 200)
}

type labelInfo struct {
	name string
}

type gen struct {
	r      *lib.Rand
	sb     strings.Builder
	ind    int
	fn     *gfunc
	fstack []*gfunc
	nid    int
	loops  int // loop nesting inside the current function
	// labels that a goto may target right now: backward ones (already emitted in an enclosing block
	// of the current function) and pending forward ones (will be emitted later in an enclosing block)
	back    []string
	fwd     []string
	budget  int // remaining statements
	globals []gvar
	depth   int
	saveCtl []ctl
	// pad is put (on the same source line, consuming no randomness) at the start of every function body
	// incl. the main chunk: the twin of a program differs from it only by the pads (twin.go)
	pad string
}

func (g *gen) id(prefix string) string {
	g.nid++
	return fmt.Sprintf("%s%d", prefix, g.nid)
}

func (g *gen) line(format string, a ...any) {
	g.sb.WriteString(strings.Repeat(" ", g.ind*2))
	fmt.Fprintf(&g.sb, format, a...)
	g.sb.WriteByte('\n')
}

func (g *gen) pickVar(k vkind) (string, bool) {
	var c []string
	for _, v := range g.fn.vars {
		if v.kind == k {
			c = append(c, v.name)
		}
	}
	for _, v := range g.globals {
		if v.kind == k {
			c = append(c, v.name)
		}
	}
	if len(c) == 0 {
		return "", false
	}
	// prefer recent (inner) names but reach outer ones (upvalues) often
	if g.r.Chance(50) {
		return c[len(c)-1-g.r.Intn(min(len(c), 4))], true
	}
	return c[g.r.Intn(len(c))], true
}

func (g *gen) anyVar() (string, vkind, bool) {
	n := len(g.fn.vars) + len(g.globals)
	if n == 0 {
		return "", kAny, false
	}
	i := g.r.Intn(n)
	if i < len(g.fn.vars) {
		return g.fn.vars[i].name, g.fn.vars[i].kind, true
	}
	v := g.globals[i-len(g.fn.vars)]
	return v.name, v.kind, true
}

func (g *gen) declare(name string, k vkind) {
	g.fn.vars = append(g.fn.vars, gvar{name, k})
	g.fn.nloc++
}

var strLits = []string{`""`, `"a"`, `"key"`, `"x y"`, `'q'`, `"0"`, `"10"`, `[[long]]`, `"\n"`, `"name"`}
var fieldNames = []string{"x", "y", "n", "name", "val", "f", "m", "next", "k1", "k2"}

func (g *gen) num() string {
	switch g.r.Intn(8) {
	case 0:
		return "0"
	case 1:
		return "1"
	case 2:
		return fmt.Sprint(g.r.Intn(10))
	case 3:
		return fmt.Sprint(g.r.Intn(300))
	case 4:
		return fmt.Sprintf("%d.5", g.r.Intn(20))
	case 5:
		return fmt.Sprintf("0x%x", g.r.Intn(256))
	case 6:
		return fmt.Sprintf("%de%d", 1+g.r.Intn(9), g.r.Intn(3))
	}
	return fmt.Sprint(g.r.Intn(100000))
}

// expr of (roughly) kind k, nesting budget d
func (g *gen) expr(k vkind, d int) string {
	if d <= 0 {
		return g.atom(k)
	}
	switch k {
	case kNum:
		switch g.r.Intn(12) {
		case 0, 1, 2:
			return g.atom(k)
		case 3, 4, 5:
			op := []string{"+", "-", "*"}[g.r.Intn(3)]
			return fmt.Sprintf("%s %s %s", g.expr(kNum, d-1), op, g.expr(kNum, d-1))
		case 6:
			op := []string{"/", "%", "^"}[g.r.Intn(3)]
			return fmt.Sprintf("(%s) %s %d", g.expr(kNum, d-1), op, 1+g.r.Intn(3))
		case 7:
			return "-" + g.paren(g.expr(kNum, d-1))
		case 8:
			return "#" + g.paren(g.expr([]vkind{kTbl, kStr}[g.r.Intn(2)], d-1))
		case 9:
			return fmt.Sprintf("(%s and %s or %s)", g.cond(d-1), g.expr(kNum, d-1), g.expr(kNum, d-1))
		case 10:
			return fmt.Sprintf("(tonumber(%s) or %s)", g.expr(kAny, d-1), g.num())
		default:
			return "(" + g.expr(kNum, d-1) + ")"
		}
	case kStr:
		switch g.r.Intn(6) {
		case 0, 1:
			return g.atom(k)
		case 2, 3:
			n := 2 + g.r.Intn(4)
			parts := make([]string, n)
			for i := range parts {
				// operands are literals and numbers only: a string variable here could double in a loop
				if g.r.Chance(50) {
					parts[i] = strLits[g.r.Intn(len(strLits))]
				} else {
					parts[i] = g.paren(g.expr(kNum, d-1))
				}
			}
			return strings.Join(parts, " .. ")
		case 4:
			return "tostring(" + g.expr(kAny, d-1) + ")"
		default:
			return fmt.Sprintf("(%s or %s)", g.expr(kStr, d-1), g.atom(kStr))
		}
	case kTbl:
		if g.r.Chance(35) {
			return g.atom(k)
		}
		return g.table(d - 1)
	case kFun:
		if g.r.Chance(40) {
			return g.atom(k)
		}
		return g.funcExpr(false)
	}
	// kAny
	switch g.r.Intn(14) {
	case 0:
		return "nil"
	case 1:
		return []string{"true", "false"}[g.r.Intn(2)]
	case 2:
		return g.cond(d - 1)
	case 3:
		return g.index(d - 1)
	case 4:
		return g.call(d-1, false)
	case 5:
		if g.fn.vararg {
			if g.r.Chance(50) {
				return "..."
			}
			return "(...)"
		}
		return g.expr(kNum, d-1)
	case 6:
		return fmt.Sprintf("%s %s %s", g.expr(kAny, d-1), []string{"and", "or"}[g.r.Intn(2)], g.expr(kAny, d-1))
	case 7:
		return "not " + g.paren(g.expr(kAny, d-1))
	case 8:
		return "(" + g.call(d-1, false) + ")"
	default:
		return g.expr([]vkind{kNum, kNum, kStr, kTbl, kFun}[g.r.Intn(5)], d)
	}
}

func (g *gen) paren(s string) string { return "(" + s + ")" }

// smallIndex is a numeric index expression whose value stays small (a huge positive integer key
// makes RawSetInt allocate the whole array part up to it).
func (g *gen) smallIndex(d int) string {
	switch g.r.Intn(4) {
	case 0:
		return fmt.Sprint(g.r.Intn(300))
	case 1:
		if v, ok := g.pickVar(kNum); ok {
			return v + " % 50"
		}
	}
	return "(" + g.expr(kNum, d) + ") % 64 + 1"
}

func (g *gen) atom(k vkind) string {
	if v, ok := g.pickVar(k); ok && g.r.Chance(65) {
		return v
	}
	switch k {
	case kNum:
		return g.num()
	case kStr:
		return strLits[g.r.Intn(len(strLits))]
	case kTbl:
		return "{}"
	case kFun:
		return "print0"
	}
	if v, _, ok := g.anyVar(); ok && g.r.Chance(60) {
		return v
	}
	return []string{"nil", "true", "false", "1", `"s"`, "{}"}[g.r.Intn(6)]
}

// a boolean-ish condition (comparison chains, logical operators in condition position)
func (g *gen) cond(d int) string {
	switch g.r.Intn(9) {
	case 0, 1, 2:
		op := []string{"==", "~=", "<", "<=", ">", ">="}[g.r.Intn(6)]
		return fmt.Sprintf("%s %s %s", g.expr(kNum, d), op, g.expr(kNum, d))
	case 3:
		op := []string{"==", "~="}[g.r.Intn(2)]
		return fmt.Sprintf("%s %s %s", g.expr(kAny, d), op, g.expr(kAny, d))
	case 4:
		if d > 0 {
			return fmt.Sprintf("%s and %s", g.cond(d-1), g.cond(d-1))
		}
	case 5:
		if d > 0 {
			return fmt.Sprintf("(%s or %s)", g.cond(d-1), g.cond(d-1))
		}
	case 6:
		if d > 0 {
			return "not " + g.paren(g.cond(d-1))
		}
	case 7:
		return g.atom(kAny)
	case 8:
		return []string{"true", "false", "nil", "1"}[g.r.Intn(4)]
	}
	return fmt.Sprintf("%s < %s", g.expr(kStr, 0), g.expr(kStr, 0))
}

func (g *gen) index(d int) string {
	t := g.atom(kTbl)
	if t == "{}" {
		t = "({})"
	}
	switch g.r.Intn(4) {
	case 0:
		return t + "." + fieldNames[g.r.Intn(len(fieldNames))]
	case 1:
		return fmt.Sprintf("%s[%s]", t, g.smallIndex(d))
	case 2:
		return fmt.Sprintf("%s[ %s ]", t, g.atom(kStr))
	}
	return fmt.Sprintf("%s.%s.%s", t, fieldNames[g.r.Intn(len(fieldNames))], fieldNames[g.r.Intn(len(fieldNames))])
}

func (g *gen) args(d int) string {
	n := g.r.Intn(5)
	parts := make([]string, 0, n+1)
	for i := 0; i < n; i++ {
		parts = append(parts, g.expr([]vkind{kNum, kNum, kStr, kAny, kTbl}[g.r.Intn(5)], d))
	}
	// open last argument: call or vararg
	switch g.r.Intn(6) {
	case 0:
		parts = append(parts, g.call(d-1, false))
	case 1:
		if g.fn.vararg {
			parts = append(parts, "...")
		}
	}
	return strings.Join(parts, ", ")
}

func (g *gen) call(d int, stmt bool) string {
	if d < 0 {
		d = 0
	}
	switch g.r.Intn(8) {
	case 0, 1, 2:
		f := g.atom(kFun)
		return fmt.Sprintf("%s(%s)", f, g.args(d))
	case 3:
		t := g.atom(kTbl)
		if t == "{}" {
			t = "mt0"
		}
		return fmt.Sprintf("%s:%s(%s)", t, []string{"m", "f", "name"}[g.r.Intn(3)], g.args(d))
	case 4:
		a := g.args(d)
		if a != "" {
			a = ", " + a
		}
		return fmt.Sprintf("select(%s%s)", []string{"'#'", "1", "2", "-1"}[g.r.Intn(4)], a)
	case 5:
		a := g.args(d)
		if a != "" {
			a = ", " + a
		}
		return fmt.Sprintf("pcall(%s%s)", g.expr(kFun, d), a)
	case 6:
		return fmt.Sprintf("type(%s)", g.expr(kAny, d))
	}
	// call of a call result / string-literal and table-literal call syntax
	switch g.r.Intn(3) {
	case 0:
		return fmt.Sprintf("print0 %s", strLits[g.r.Intn(len(strLits))])
	case 1:
		return fmt.Sprintf("print0 %s", g.table(0))
	}
	return fmt.Sprintf("(%s)(%s)", g.expr(kFun, d), g.args(d))
}

func (g *gen) table(d int) string {
	if d < 0 {
		d = 0
	}
	n := g.r.Intn(7)
	if g.r.Chance(4) {
		n = 48 + g.r.Intn(8) // around FieldsPerFlush
	}
	parts := make([]string, 0, n+1)
	for i := 0; i < n; i++ {
		switch g.r.Intn(6) {
		case 0, 1, 2:
			parts = append(parts, g.expr([]vkind{kNum, kNum, kStr, kAny}[g.r.Intn(4)], min(d, 1)))
		case 3:
			parts = append(parts, fmt.Sprintf("%s = %s", fieldNames[g.r.Intn(len(fieldNames))], g.expr(kAny, min(d, 1))))
		case 4:
			parts = append(parts, fmt.Sprintf("[%s] = %s", g.smallIndex(min(d, 1)), g.expr(kAny, min(d, 1))))
		case 5:
			if d > 0 {
				parts = append(parts, g.table(d-1))
			} else {
				parts = append(parts, fmt.Sprintf("[ %s ] = %s", g.atom(kStr), g.atom(kNum)))
			}
		}
	}
	switch g.r.Intn(8) {
	case 0:
		parts = append(parts, g.call(d, false))
	case 1:
		if g.fn.vararg {
			parts = append(parts, "...")
		}
	case 2:
		parts = append(parts, "("+g.call(d, false)+")")
	}
	sep := ", "
	if g.r.Chance(15) {
		sep = "; "
	}
	return "{" + strings.Join(parts, sep) + "}"
}

// function expression; method=true adds nothing here (self is added by the `function t:m` form)
func (g *gen) funcExpr(asStmtBody bool) string {
	save := g.sb
	g.sb = strings.Builder{}
	np := g.r.Intn(4)
	va := g.r.Chance(30)
	params := []string{}
	nf := &gfunc{vars: append([]gvar{}, g.fn.vars...), vararg: va}
	nf.base = len(nf.vars)
	for i := 0; i < np; i++ {
		p := g.id("p")
		params = append(params, p)
		nf.vars = append(nf.vars, gvar{p, []vkind{kNum, kNum, kAny, kTbl}[g.r.Intn(4)]})
	}
	if va {
		params = append(params, "...")
	}
	g.sb.WriteString("function(" + strings.Join(params, ", ") + ")" + g.pad + "\n")
	g.pushFunc(nf)
	g.ind++
	g.block(1+g.r.Intn(4), true)
	g.ind--
	g.popFunc()
	g.sb.WriteString(strings.Repeat(" ", g.ind*2) + "end")
	s := g.sb.String()
	g.sb = save
	return s
}

func (g *gen) pushFunc(nf *gfunc) {
	g.fstack = append(g.fstack, g.fn)
	g.fn = nf
	g.saveCtl = append(g.saveCtl, ctl{g.loops, g.back, g.fwd})
	g.loops, g.back, g.fwd = 0, nil, nil
}

func (g *gen) popFunc() {
	g.fn = g.fstack[len(g.fstack)-1]
	g.fstack = g.fstack[:len(g.fstack)-1]
	c := g.saveCtl[len(g.saveCtl)-1]
	g.saveCtl = g.saveCtl[:len(g.saveCtl)-1]
	g.loops, g.back, g.fwd = c.loops, c.back, c.fwd
}
