package main

import "fmt"

// Go port of coq/VM/WfProto.v (wf_fn / wf_proto). It exists only to check prototypes that are too
// large to ship through coqc; on every prototype that does go through Coq its verdict is compared
// with the Coq checker's (check_impl). It has its own instruction decoder on purpose.

const (
	opMOVE = iota
	opMOVEN
	opLOADK
	opLOADBOOL
	opLOADNIL
	opGETUPVAL
	opGETGLOBAL
	opGETTABLE
	opGETTABLEKS
	opSETGLOBAL
	opSETUPVAL
	opSETTABLE
	opSETTABLEKS
	opNEWTABLE
	opSELF
	opADD
	opSUB
	opMUL
	opDIV
	opMOD
	opPOW
	opUNM
	opNOT
	opLEN
	opCONCAT
	opJMP
	opEQ
	opLT
	opLE
	opTEST
	opTESTSET
	opCALL
	opTAILCALL
	opRETURN
	opFORLOOP
	opFORPREP
	opTFORLOOP
	opSETLIST
	opCLOSE
	opCLOSURE
	opVARARG
	opNOP
)

const (
	mN = iota
	mU
	mR
	mK
)
const (
	tABC = iota
	tABx
	tASbx
)

type prop struct {
	name   string
	isTest bool
	setA   bool
	mb, mc int
	typ    int
}

// the table of opcode.go (compared with VerifOpProps() on every run)
var props = []prop{
	{"MOVE", false, true, mR, mN, tABC}, {"MOVEN", false, true, mR, mN, tABC}, {"LOADK", false, true, mK, mN, tABx},
	{"LOADBOOL", false, true, mU, mU, tABC}, {"LOADNIL", false, true, mR, mN, tABC}, {"GETUPVAL", false, true, mU, mN, tABC},
	{"GETGLOBAL", false, true, mK, mN, tABx}, {"GETTABLE", false, true, mR, mK, tABC}, {"GETTABLEKS", false, true, mR, mK, tABC},
	{"SETGLOBAL", false, false, mK, mN, tABx}, {"SETUPVAL", false, false, mU, mN, tABC}, {"SETTABLE", false, false, mK, mK, tABC},
	{"SETTABLEKS", false, false, mK, mK, tABC}, {"NEWTABLE", false, true, mU, mU, tABC}, {"SELF", false, true, mR, mK, tABC},
	{"ADD", false, true, mK, mK, tABC}, {"SUB", false, true, mK, mK, tABC}, {"MUL", false, true, mK, mK, tABC},
	{"DIV", false, true, mK, mK, tABC}, {"MOD", false, true, mK, mK, tABC}, {"POW", false, true, mK, mK, tABC},
	{"UNM", false, true, mR, mN, tABC}, {"NOT", false, true, mR, mN, tABC}, {"LEN", false, true, mR, mN, tABC},
	{"CONCAT", false, true, mR, mR, tABC}, {"JMP", false, false, mR, mN, tASbx}, {"EQ", true, false, mK, mK, tABC},
	{"LT", true, false, mK, mK, tABC}, {"LE", true, false, mK, mK, tABC}, {"TEST", true, true, mR, mU, tABC},
	{"TESTSET", true, true, mR, mU, tABC}, {"CALL", false, true, mU, mU, tABC}, {"TAILCALL", false, true, mU, mU, tABC},
	{"RETURN", false, false, mU, mN, tABC}, {"FORLOOP", false, true, mR, mN, tASbx}, {"FORPREP", false, true, mR, mN, tASbx},
	{"TFORLOOP", true, false, mN, mU, tABC}, {"SETLIST", false, false, mU, mU, tABC}, {"CLOSE", false, false, mN, mN, tABC},
	{"CLOSURE", false, true, mU, mN, tABx}, {"VARARG", false, true, mU, mN, tABC}, {"NOP", false, false, mR, mN, tASbx},
}

const frameLimit = 250
const fieldsPerFlush = 50
const maxArrayIndex = 67108864

func dOp(w uint32) int  { return int(w / (1 << 26)) }
func dA(w uint32) int   { return int(w/(1<<18)) % 256 }
func dB(w uint32) int   { return int(w % 512) }
func dC(w uint32) int   { return int(w/512) % 512 }
func dBx(w uint32) int  { return int(w % (1 << 18)) }
func dSbx(w uint32) int { return dBx(w) - 131071 }

type fnv struct {
	code    []uint32
	kinds   []int
	nsconst int
	nups    []int
	nup     int
	nparams int
	nregs   int
	nlines  int
}

func view(p *P) *fnv {
	f := &fnv{code: p.Code, kinds: p.Kinds, nsconst: p.NSConst, nup: p.NUp, nparams: p.NParams, nregs: p.NRegs, nlines: p.NLines}
	for _, s := range p.Subs {
		f.nups = append(f.nups, s.NUp)
	}
	return f
}

func (f *fnv) groupOf(w uint32) (k, kind int) {
	switch dOp(w) {
	case opCLOSURE:
		if bx := dBx(w); bx < len(f.nups) {
			return f.nups[bx], 1
		}
		return 0, 1
	case opMOVEN:
		return dC(w), 2
	case opSETLIST:
		if dC(w) == 0 {
			return 1, 3
		}
	}
	return 0, 0
}

func (f *fnv) scan() (tags []int8, pend int) {
	tags = make([]int8, len(f.code))
	kind := 0
	for pc, w := range f.code {
		if pend > 0 {
			tags[pc] = int8(kind)
			pend--
		} else {
			pend, kind = f.groupOf(w)
		}
	}
	return
}

type wfctx struct {
	f    *fnv
	tags []int8
	why  []string
}

func (c *wfctx) fail(pc int, format string, a ...any) bool {
	if len(c.why) < 6 {
		c.why = append(c.why, fmt.Sprintf("pc %d: ", pc)+fmt.Sprintf(format, a...))
	}
	return false
}

func (c *wfctx) isHead(t int) bool { return t >= 0 && t < len(c.tags) && c.tags[t] == 0 }
func (c *wfctx) tagIs(t int, k int8) bool {
	return t >= 0 && t < len(c.tags) && c.tags[t] == k
}
func (c *wfctx) reg(r int) bool { return r < c.f.nregs }
func (c *wfctx) rk(x int) bool {
	if x >= 256 {
		return x-256 < len(c.f.kinds)
	}
	return x < c.f.nregs
}
func (c *wfctx) strConst(i int) bool {
	return i < c.f.nsconst && i < len(c.f.kinds) && c.f.kinds[i] == 1
}
func (c *wfctx) strK(x int) bool {
	if x >= 256 {
		return c.strConst(x - 256)
	}
	return x < c.f.nregs
}
func (c *wfctx) modeOK(m, x int) bool {
	switch m {
	case mR:
		return c.reg(x)
	case mK:
		return c.rk(x)
	}
	return true
}

func max3(a, b, c int) int {
	if b > a {
		a = b
	}
	if c > a {
		a = c
	}
	return a
}

func (c *wfctx) instOK(pc int, w uint32) bool {
	f := c.f
	op := dOp(w)
	if op > opNOP {
		return c.fail(pc, "opcode %d", op)
	}
	A, B, C, Bx, sBx := dA(w), dB(w), dC(w), dBx(w), dSbx(w)
	pr := props[op]
	switch pr.typ {
	case tABC:
		if !c.modeOK(pr.mb, B) {
			return c.fail(pc, "%s B=%d mode %d nregs %d nconst %d", pr.name, B, pr.mb, f.nregs, len(f.kinds))
		}
		if !c.modeOK(pr.mc, C) {
			return c.fail(pc, "%s C=%d mode %d nregs %d nconst %d", pr.name, C, pr.mc, f.nregs, len(f.kinds))
		}
	case tABx:
		if pr.mb == mK && !(Bx < len(f.kinds)) {
			return c.fail(pc, "%s Bx=%d nconst %d", pr.name, Bx, len(f.kinds))
		}
	}
	k, _ := f.groupOf(w)
	fall := c.isHead(pc + 1 + k)
	ok := false
	switch op {
	case opMOVE, opLOADK, opLOADNIL, opGETTABLE, opSETTABLE, opNEWTABLE, opADD, opSUB, opMUL, opDIV, opMOD, opPOW, opUNM, opNOT, opLEN:
		ok = c.reg(A) && fall
	case opMOVEN:
		ok = c.reg(A) && fall
		for i := 1; i <= C && ok; i++ {
			ok = c.tagIs(pc+i, 2) && dOp(f.code[pc+i]) == opMOVE && c.reg(dA(f.code[pc+i])) && c.reg(dB(f.code[pc+i]))
		}
	case opLOADBOOL:
		if C != 0 {
			ok = c.reg(A) && c.isHead(pc+2)
		} else {
			ok = c.reg(A) && fall
		}
	case opGETUPVAL, opSETUPVAL:
		ok = c.reg(A) && B < f.nup && fall
	case opGETGLOBAL, opSETGLOBAL:
		ok = c.reg(A) && c.strConst(Bx) && fall
	case opGETTABLEKS:
		ok = c.reg(A) && c.strK(C) && fall
	case opSETTABLEKS:
		ok = c.reg(A) && c.strK(B) && fall
	case opSELF:
		ok = c.reg(A+1) && c.strK(C) && fall
	case opCONCAT:
		ok = c.reg(A) && B <= C && fall
	case opJMP:
		ok = c.isHead(pc + 1 + sBx)
	case opEQ, opLT, opLE:
		ok = fall && c.isHead(pc+2)
	case opTEST, opTESTSET:
		ok = c.reg(A) && fall && c.isHead(pc+2)
	case opCALL:
		ok = c.reg(A+max3(B-1, C-2, 0)) && fall
	case opTAILCALL:
		ok = c.reg(A + max3(B-1, 0, 0))
	case opRETURN, opVARARG:
		switch B {
		case 1:
			ok = true
		case 0:
			ok = c.reg(A)
		default:
			ok = c.reg(A + B - 2)
		}
		if op == opVARARG {
			ok = ok && fall
		}
	case opFORLOOP:
		ok = c.reg(A+3) && fall && c.isHead(pc+1+sBx)
	case opFORPREP:
		ok = c.reg(A+2) && c.isHead(pc+1+sBx)
	case opTFORLOOP:
		ok = c.reg(A+max3(5, 2+C, 0)) && c.isHead(pc+1) && c.isHead(pc+2)
		if ok {
			nx := f.code[pc+1]
			ok = dOp(nx) == opJMP && c.isHead(pc+2+dSbx(nx))
		}
	case opSETLIST:
		ok = c.reg(A+B) && fall
		if ok && C == 0 {
			ok = c.tagIs(pc+1, 3) && f.code[pc+1] >= 1 && int64(f.code[pc+1])*fieldsPerFlush <= maxArrayIndex
		}
	case opCLOSE, opNOP:
		ok = fall
	case opCLOSURE:
		ok = c.reg(A) && Bx < len(f.nups) && fall
		for i := 1; i <= k && ok; i++ {
			if !c.tagIs(pc+i, 1) {
				ok = false
				break
			}
			cw := f.code[pc+i]
			switch dOp(cw) {
			case opMOVE:
				ok = c.reg(dB(cw))
			case opGETUPVAL:
				ok = dB(cw) < f.nup
			default:
				ok = false
			}
		}
	}
	if !ok {
		return c.fail(pc, "%s A=%d B=%d C=%d Bx=%d sBx=%d nregs=%d nup=%d n=%d fall=%v", pr.name, A, B, C, Bx, sBx, f.nregs, f.nup, len(f.code), fall)
	}
	return true
}

// wfFn mirrors wf_fn: the local checks of one function.
func wfFn(f *fnv) (bool, []string) {
	n := len(f.code)
	tags, pend := f.scan()
	c := &wfctx{f: f, tags: tags}
	ok := true
	g := func(cond bool, what string) {
		if !cond {
			ok = false
			c.fail(-1, "%s", what)
		}
	}
	g(n >= 1, "empty code")
	g(pend == 0, "multi-word group overruns the code")
	g(n >= 1 && tags[n-1] == 0 && dOp(f.code[n-1]) == opRETURN, "last instruction is not RETURN")
	g(f.nlines == n, fmt.Sprintf("line table %d vs code %d", f.nlines, n))
	g(f.nsconst == len(f.kinds), fmt.Sprintf("stringConstants %d vs constants %d", f.nsconst, len(f.kinds)))
	for _, k := range f.kinds {
		if k == 2 {
			g(false, "string constant without matching stringConstants entry")
			break
		}
	}
	g(f.nregs <= frameLimit, fmt.Sprintf("NumUsedRegisters %d > %d", f.nregs, frameLimit))
	g(f.nparams <= f.nregs, fmt.Sprintf("NumParameters %d > NumUsedRegisters %d", f.nparams, f.nregs))
	for pc, w := range f.code {
		if tags[pc] == 0 && !c.instOK(pc, w) {
			ok = false
		}
	}
	if !c.strreg() {
		ok = false
	}
	return ok, c.why
}

// ---- port of coq/VM/StrKey.v (strreg_fn): register-form string keys of SELF / GETTABLEKS ----

func (f *fnv) word(t int) uint32 {
	if t < 0 || t >= len(f.code) {
		return 0
	}
	return f.code[t]
}

// succs mirrors i_succ of Skeleton.v's sk_inst.
func (f *fnv) succs(pc int) []int {
	w := f.code[pc]
	op := dOp(w)
	if op > opNOP {
		return nil
	}
	C, sBx := dC(w), dSbx(w)
	switch op {
	case opMOVEN:
		return []int{pc + 1 + C}
	case opLOADBOOL, opSETLIST:
		if C == 0 && op == opLOADBOOL || C != 0 && op == opSETLIST {
			return []int{pc + 1}
		}
		return []int{pc + 2}
	case opJMP, opFORPREP:
		return []int{pc + 1 + sBx}
	case opEQ, opLT, opLE, opTEST, opTESTSET:
		return []int{pc + 1, pc + 2}
	case opTAILCALL, opRETURN:
		return nil
	case opFORLOOP:
		return []int{pc + 1, pc + 1 + sBx}
	case opTFORLOOP:
		return []int{pc + 2, pc + 2 + dSbx(f.word(pc+1))}
	case opCLOSURE:
		k := 0
		if bx := dBx(w); bx < len(f.nups) {
			k = f.nups[bx]
		}
		return []int{pc + 1 + k}
	}
	return []int{pc + 1}
}

func regkeyOf(w uint32) (int, bool) {
	switch dOp(w) {
	case opSELF, opGETTABLEKS:
		if c := dC(w); c < 256 {
			return c, true
		}
	}
	return 0, false
}

func (c *wfctx) strreg() bool {
	f := c.f
	any := false
	for _, w := range f.code {
		if _, ok := regkeyOf(w); ok {
			any = true
			break
		}
	}
	if !any {
		return true
	}
	targets := map[int]bool{}
	for pc := range f.code {
		if c.tags[pc] != 0 {
			continue
		}
		for _, s := range f.succs(pc) {
			if s != pc+1 {
				targets[s] = true
			}
		}
	}
	ok := true
	for pc, w := range f.code {
		if c.tags[pc] != 0 {
			continue
		}
		r, isKey := regkeyOf(w)
		if !isKey {
			continue
		}
		pw := f.word(pc - 1)
		fed := c.isHead(pc-1) && dOp(pw) == opLOADK && dA(pw) == r && c.strConst(dBx(pw))
		if !fed {
			ok = c.fail(pc, "string key in register %d is not loaded by a LOADK of a string constant right before", r)
		} else if targets[pc] {
			ok = c.fail(pc, "string-keyed instruction with a register key is a jump/skip target: its LOADK can be bypassed")
		}
	}
	return ok
}

// wfProto mirrors wf_proto: wf_fn on the function and recursively on every nested prototype.
func wfProto(p *P) (bool, []string) {
	ok, why := wfFn(view(p))
	for i, s := range p.Subs {
		o, w := wfProto(s)
		if !o {
			ok = false
			for _, x := range w {
				if len(why) < 8 {
					why = append(why, fmt.Sprintf("sub %d: %s", i, x))
				}
			}
		}
	}
	return ok, why
}
