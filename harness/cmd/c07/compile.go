package main

import (
	"fmt"
	"strings"

	lua "github.com/yuin/gopher-lua"
	"github.com/yuin/gopher-lua/parse"
)

// compileSrc runs the real front end: parse.Parse then lua.Compile. A Go panic escaping either is
// reported in panicked (the property's domain is "accepted source", so parse/compile *errors* are
// fine, escaped panics are not).
func compileSrc(src, name string) (proto *lua.FunctionProto, errs string, panicked string) {
	defer func() {
		if r := recover(); r != nil {
			s := fmt.Sprint(r)
			if len(s) > 300 {
				s = s[:300]
			}
			panicked = s
		}
	}()
	chunk, err := parse.Parse(strings.NewReader(src), name)
	if err != nil {
		return nil, "parse: " + trunc(err.Error(), 200), ""
	}
	p, err := lua.Compile(chunk, name)
	if err != nil {
		return nil, "compile: " + trunc(err.Error(), 200), ""
	}
	return p, "", ""
}

func trunc(s string, n int) string {
	if len(s) > n {
		return s[:n]
	}
	return s
}
