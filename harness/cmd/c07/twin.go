package main

import (
	"fmt"
	hfnv "hash/fnv"
	"os"
	"os/exec"
	"path/filepath"
	"regexp"
	"strings"
	"sync"
	"time"

	lua "github.com/yuin/gopher-lua"
	"verifh/lib"
)

// Twin executions (wave 5). The contract between compile.go and the VM has clauses no structural
// check of a prototype can see: which operand a handler reads before it writes which register
// (OP_SELF with the method name loaded into R(A+1)), which instruction form is selected once a
// constant index leaves the RK range, what a fresh frame may assume about the registers above top.
// They are exercised here behaviourally: every generated program is run again
//   kpad  with > 255 (or just below 256: the boundary then falls somewhere inside the function)
//         constants in front of every function body, so that every string key / operand that was an RK
//         constant becomes LOADK + register form,
//   rpad  with 40 extra locals in front of every function body (all registers shifted),
//   grow  unchanged, on a state whose registry and call-frame stack start small and grow,
//   used  unchanged, on a state that has already caught errors at depth, inside a coroutine and
//         inside a metamethod (stale values above top, re-used frames),
// and the outcome (returned values or the error message, addresses masked) must be the one of the
// plain run. The variants are compiled by the real front end and judged by the Go port of wf_proto
// (one in sixteen goes through coqc as an ordinary case); a Go panic in a variant's run, a variant
// that is not well formed and a different outcome are Go-side failures.

type twinStats struct {
	Runs, Compared, Incomparable, Rejected, RegKeys, Hist int
	TwinTime, HistTime                                    time.Duration
}

var hexRe = regexp.MustCompile(`0x[0-9a-fA-F]+`)

// outcomeOf: what a run of a chunk amounts to, comparable between twins. ok=false: the run was cut
// by the instruction budget, not executed, or ended in a resource limit the pads legitimately move
// (registry / call stack overflow).
func outcomeOf(res runResult) (string, bool) {
	if res.Over || strings.HasPrefix(res.Err, "not executed") || strings.HasPrefix(res.Panicked, "hang") {
		return "", false
	}
	if res.Panicked != "" {
		return "go panic: " + res.Panicked, true
	}
	if res.Err != "" {
		line := res.Err
		if i := strings.IndexByte(line, '\n'); i >= 0 {
			line = line[:i]
		}
		if strings.Contains(line, "overflow") || strings.Contains(line, "budget") {
			return "", false
		}
		if res.GoPanic {
			return "go panic: " + line, true
		}
		return "error: " + hexRe.ReplaceAllString(line, "PTR"), true
	}
	return "values: " + hexRe.ReplaceAllString(strings.Join(res.Results, " | "), "PTR"), true
}

// padText: k distinct number constants and r locals, on one line, executed as one JMP / one LOADNIL.
func padText(k, r int) string {
	var sb strings.Builder
	if r > 0 {
		sb.WriteString(" local " + rep(r, func(i int) string { return fmt.Sprintf("_r%d", i) }, ", ") + ";")
	}
	if k > 0 {
		sb.WriteString(" if false then local _ = {" + rep(k, func(i int) string { return fmt.Sprintf("%d.25", 1000+i) }, ", ") + "} end")
	}
	sb.WriteString(" ")
	return sb.String()
}

// regKeyForms counts string-keyed instructions whose key is a register (constant index > 255).
func regKeyForms(root *P) int {
	n := 0
	for _, p := range flatten(root) {
		tags, _ := view(p).scan()
		for pc, w := range p.Code {
			if pc < len(tags) && tags[pc] != 0 {
				continue
			}
			switch dOp(w) {
			case opSELF, opGETTABLEKS:
				if dC(w) < 256 {
					n++
				}
			case opSETTABLEKS:
				if dB(w) < 256 {
					n++
				}
			}
		}
	}
	return n
}

var growOpts = lua.Options{RegistrySize: 64, RegistryMaxSize: 1024 * 20, RegistryGrowStep: 7, CallStackSize: 256, MinimizeStackMemory: true}

// usedState leaves the traces of earlier activity in the state the chunk then runs on.
func usedState(L *lua.LState) {
	L.DoString(`
local function deep(n, ...) local a, b, c = n, {n}, "s" .. n; if n == 0 then error({}) end; return 1 + deep(n - 1, a, b, c, ...) end
pcall(deep, 20)
local co = coroutine.wrap(function(...) local x = ...; coroutine.yield(x, x, x); error("e") end)
pcall(co, 1); pcall(co); pcall(co)
local t = setmetatable({}, {__index = function(t, k) error("idx") end, __call = function(self, ...) return ... end})
pcall(function() return t.x end)
pcall(string.rep); pcall(t, 1, 2, 3)
for i = 1, 3 do pcall(deep, i, 1, 2, 3, 4, 5, 6, 7, 8, 9, 10) end
`)
	L.SetTop(0)
}

// twin runs `variant` (the program `base` with pads; or base itself under an execution mode) and
// compares its outcome with baseRes. full: the variant also becomes an ordinary case for coqc.
func (c *ctx) twinOne(base, variant, mode string, baseRes runResult, full bool) {
	in := input{Kind: "twin", Src: base, Mode: mode, Run: true}
	if variant != base {
		in.Src2 = variant
	}
	class := "generated/twin-" + mode
	c.twin.Runs++
	var res runResult
	id := -1
	if full && variant != base {
		c.process(in, variant, "gen", class, nil, nil)
		if c.lastRes == nil {
			if c.lastID < 0 {
				c.twin.Rejected++
			}
			return // rejected by the front end, or already reported as a failure
		}
		res, id = *c.lastRes, c.lastID
		if fp, _, _ := compileSrc(variant, "gen"); fp != nil {
			c.twin.RegKeys += regKeyForms(dumpProto(fp))
		}
	} else {
		fp, _, pan := compileSrc(variant, "gen")
		if pan != "" {
			id = c.w.Add(lib.Case{Coq: dummy, Input: in, Observed: map[string]any{"panic": pan}, Class: class + "/panic"})
			c.w.GoFail(id, "Go panic escaped parse/Compile: "+pan)
			return
		}
		if fp == nil {
			c.twin.Rejected++
			return
		}
		root := dumpProto(fp)
		c.twin.RegKeys += regKeyForms(root)
		if variant != base {
			c.goOnly++
			if gowf, why := wfProto(root); !gowf {
				id = c.w.Add(lib.Case{Coq: dummy, Input: in, Observed: map[string]any{"go_wf": false, "why": why}, Class: class + "/go-only"})
				c.w.GoFail(id, "the Go port of wf_proto rejects the padded twin of a generated program: "+strings.Join(why, "; "))
				return
			}
		}
		var setup func(*lua.LState)
		opts := lua.Options{RegistrySize: 1024 * 20, CallStackSize: 256}
		switch mode {
		case "grow":
			opts = growOpts
		case "used":
			setup = usedState
		}
		_, res = runTracedWith(fp, root, 4*30000+2000, setup, opts)
		c.runs++
		c.runInsts += res.Insts
	}
	want, ok1 := outcomeOf(baseRes)
	got, ok2 := outcomeOf(res)
	fail := ""
	switch {
	case res.Panicked != "" || res.GoPanic || goRuntimePanic(res.Err):
		if id >= 0 && (full && variant != base) {
			return // process has reported it
		}
		fail = "Go runtime panic while running compiled code (" + mode + " twin): " + trunc(res.Err+res.Panicked, 200)
	case !ok1 || !ok2:
		c.twin.Incomparable++
		return
	default:
		c.twin.Compared++
		if want != got {
			fail = fmt.Sprintf("the %s twin of a program behaves differently: plain run gives %q, twin gives %q", mode, trunc(want, 160), trunc(got, 160))
		}
	}
	if fail == "" {
		return
	}
	if id < 0 {
		id = c.w.Add(lib.Case{Coq: dummy, Input: in, Observed: map[string]any{"plain": trunc(want, 300), "twin": trunc(got, 300), "run_error": trunc(res.Err+res.Panicked, 300)}, Class: class + "/differs"})
	}
	c.w.GoFail(id, fail)
}

// twinsOf: the twins of generated program number i (fr = the random stream it was generated from).
func (c *ctx) twinsOf(i int, fr lib.Rand, size int, base string) {
	if c.lastRes == nil {
		return
	}
	t0 := time.Now()
	defer func() { c.twin.TwinTime += time.Since(t0) }()
	baseRes := *c.lastRes
	if _, ok := outcomeOf(baseRes); !ok {
		c.twin.Incomparable++
		return
	}
	gen := func(k, r int) string {
		cp := fr
		return genProgramPad(&cp, size, padText(k, r))
	}
	// constants: all above the RK range, or the boundary somewhere inside each function
	k := 260
	if i%2 == 1 {
		k = 256 - 1 - (i/2)%24
	}
	c.twinOne(base, gen(k, 0), "kpad", baseRes, i%c.twinFullEvery() == 0)
	switch i % 4 {
	case 0:
		c.twinOne(base, base, "grow", baseRes, false)
	case 1:
		c.twinOne(base, gen(0, 40), "rpad", baseRes, i%(4*c.twinFullEvery()) == 1)
	case 2:
		c.twinOne(base, base, "used", baseRes, false)
	case 3:
		c.twinOne(base, gen(260, 40), "krpad", baseRes, false)
	}
}

// one in twinFullEvery padded twins also becomes an ordinary case for coqc (thorough: the sample is
// 30 times larger, so a smaller share keeps the shard volume in proportion)
func (c *ctx) twinFullEvery() int {
	if c.w.Meta.Tier == "thorough" {
		return 64
	}
	return 16
}

func replayTwin(c *ctx, in input) {
	fp, _, _ := compileSrc(in.Src, "gen")
	if fp == nil {
		return
	}
	_, res := runTraced(fp, dumpProto(fp), 30000, nil)
	v := in.Src2
	if v == "" {
		v = in.Src
	}
	c.twinOne(in.Src, v, in.Mode, res, v != in.Src)
}

// ---------------------------------------------------------------------------------------------
// History independence of the front end: the prototype compiled for a source must not depend on
// what the process compiled before (package-level state of compile.go / the parser: shared
// expression contexts, pools, caches; state left behind by a compilation that ended in an error).
// Three observations of the same source must have the same fingerprint: the first compilation
// in this run, a recompilation at the very end of the run (after every ladder, every rejected
// program and the stressors below), and the compilation by a fresh process.

type histSample struct {
	src string
	fp  uint64
}

var histSamples []histSample
var histSeen int

func fingerprint(fp *lua.FunctionProto) uint64 {
	h := hfnv.New64a()
	var walk func(p *lua.FunctionProto)
	walk = func(p *lua.FunctionProto) {
		fmt.Fprintf(h, "P%d,%d,%d,%d,%d,%d|", len(p.Code), p.NumUpvalues, p.NumParameters, p.IsVarArg, p.NumUsedRegisters, len(p.FunctionPrototypes))
		for _, w := range p.Code {
			fmt.Fprintf(h, "%x,", w)
		}
		for _, k := range p.Constants {
			fmt.Fprintf(h, "%d:%s,", k.Type(), k.String())
		}
		for _, s := range lua.VerifStringConstants(p) {
			fmt.Fprintf(h, "s%s,", s)
		}
		for _, l := range p.DbgSourcePositions {
			fmt.Fprintf(h, "%d,", l)
		}
		for _, s := range p.FunctionPrototypes {
			walk(s)
		}
	}
	walk(fp)
	return h.Sum64()
}

// noteForHistory remembers (a sample of) the sources compiled during the run.
func noteForHistory(src string, fp *lua.FunctionProto) {
	if len(src) > 30000 {
		return
	}
	histSeen++
	if len(histSamples) >= 160 && histSeen%7 != 0 {
		return
	}
	s := histSample{src, fingerprint(fp)}
	if len(histSamples) >= 160 {
		histSamples[(histSeen/7)%160] = s
		return
	}
	histSamples = append(histSamples, s)
}

// stressors: compilations that end in every kind of front-end error (the error paths unwind through
// half-built function contexts), and a few that succeed with unusual shapes.
func stressors() []string {
	loc := func(n int) string {
		return rep(n, func(i int) string { return fmt.Sprintf("local a%d = %d", i, i) }, "\n")
	}
	return []string{
		"x = = 1", "local s = 'unfinished", "a.b:c = 1", "for i = 1 do end", "return return",
		"goto nowhere", "break", "local function f() return ... end", "do local a; goto l1; local b; ::l1:: b = 1 end",
		"::l:: ::l::", "local function f() local function g() goto out end ::out:: end",
		loc(201) + "\nreturn a1", "local function f()\n" + loc(201) + "\nend",
		"local t = " + strings.Repeat("{", 260) + strings.Repeat("}", 260),
		"local x = 1\nreturn " + strings.Repeat("x + (", 260) + "x" + strings.Repeat(")", 260),
		"local function f(...) return select('#', ...) end\nreturn f(" + rep(300, func(i int) string { return fmt.Sprint(i) }, ", ") + ")",
		loc(150) + "\nlocal function mid()\n" + rep(140, func(i int) string { return fmt.Sprintf("local b%d = %d", i, i) }, "\n") + "\nreturn function() return " +
			rep(150, func(i int) string { return fmt.Sprintf("a%d", i) }, " + ") + " + " + rep(140, func(i int) string { return fmt.Sprintf("b%d", i) }, " + ") + " end\nend\nreturn mid()()",
		"local a = {f = function(self) return self end}\nreturn a:f():f():f(), a.f(a).f, -a.f(a), not a, #a, a .. 'x'",
		"local function v(...) local a, b = ..., (...); return ..., a, b end\nfor i, j, k in v, 1, 2 do local _ = function() return i + j end; break end",
		"return function(a, b, ...) if a then return b, ... elseif b then return ... else return (...) end end",
	}
}

func runStressors() {
	for _, s := range stressors() {
		compileSrc(s, "stress")
	}
}

// childFP FILE: fingerprint of the file's source compiled as the first thing this process does.
func childFP(args []string) {
	b, err := os.ReadFile(args[0])
	if err != nil {
		os.Exit(3)
	}
	fp, _, _ := compileSrc(string(b), "gen")
	if fp == nil {
		fmt.Println("rejected")
		return
	}
	fmt.Printf("fp %d\n", fingerprint(fp))
}

func init() { extraCmds["child-fp"] = childFP }

func freshFingerprint(src string) (string, error) {
	tmp, err := os.MkdirTemp("", "c07fp")
	if err != nil {
		return "", err
	}
	defer os.RemoveAll(tmp)
	f := filepath.Join(tmp, "s.lua")
	if err := os.WriteFile(f, []byte(src), 0o644); err != nil {
		return "", err
	}
	cmd := exec.Command(os.Args[0], "child-fp", f)
	done := make(chan struct{})
	var out []byte
	go func() { out, err = cmd.Output(); close(done) }()
	select {
	case <-done:
	case <-time.After(60 * time.Second):
		if cmd.Process != nil {
			cmd.Process.Kill()
		}
		<-done
		return "", fmt.Errorf("timeout")
	}
	if err != nil {
		return "", err
	}
	return strings.TrimSpace(string(out)), nil
}

func nowFingerprint(src string) string {
	fp, _, pan := compileSrc(src, "gen")
	if pan != "" {
		return "panic " + pan
	}
	if fp == nil {
		return "rejected"
	}
	return fmt.Sprintf("fp %d", fingerprint(fp))
}

// histOne: one source against the history (replay: the history is the stressor list).
func histOne(c *ctx, src string, isReplay bool) {
	if isReplay {
		runStressors()
	}
	now := nowFingerprint(src)
	fresh, err := freshFingerprint(src)
	c.twin.Hist++
	if err != nil {
		c.rejected["hist/fresh-process-unavailable"]++
		return
	}
	if now != fresh {
		id := c.w.Add(lib.Case{Coq: dummy, Input: input{Kind: "hist", Src: src}, Observed: map[string]any{"after_history": now, "fresh_process": fresh}, Class: "history/differs"})
		c.w.GoFail(id, "the prototype compiled for a source depends on what the process compiled before: after the history "+now+", in a fresh process "+fresh)
	}
}

func history(c *ctx, tier string) {
	t0 := time.Now()
	defer func() { c.twin.HistTime += time.Since(t0) }()
	runStressors()
	// (1) every remembered source recompiled now
	bad := map[int]bool{}
	for i, s := range histSamples {
		c.twin.Hist++
		if now := nowFingerprint(s.src); now != fmt.Sprintf("fp %d", s.fp) {
			bad[i] = true
			id := c.w.Add(lib.Case{Coq: dummy, Input: input{Kind: "hist", Src: s.src}, Observed: map[string]any{"first": fmt.Sprintf("fp %d", s.fp), "after_history": now}, Class: "history/differs"})
			c.w.GoFail(id, "recompiling a source at the end of the run gives a different prototype than its first compilation: "+now)
		}
	}
	// (2) a sample of them against a fresh process each
	n := 24
	if tier == "thorough" {
		n = 160
	}
	var pick []string
	for _, s := range corpusSrcs {
		pick = append(pick, s.src)
	}
	step := len(histSamples)/n + 1
	for i := 0; i < len(histSamples); i += step {
		if !bad[i] {
			pick = append(pick, histSamples[i].src)
		}
	}
	type r struct {
		fresh string
		err   error
	}
	res := make([]r, len(pick))
	var wg sync.WaitGroup
	sem := make(chan struct{}, 8)
	for i := range pick {
		wg.Add(1)
		go func(i int) {
			defer wg.Done()
			sem <- struct{}{}
			defer func() { <-sem }()
			res[i].fresh, res[i].err = freshFingerprint(pick[i])
		}(i)
	}
	wg.Wait()
	for i, src := range pick {
		c.twin.Hist++
		if res[i].err != nil {
			c.rejected["hist/fresh-process-unavailable"]++
			continue
		}
		if now := nowFingerprint(src); now != res[i].fresh {
			id := c.w.Add(lib.Case{Coq: dummy, Input: input{Kind: "hist", Src: src}, Observed: map[string]any{"after_history": now, "fresh_process": res[i].fresh}, Class: "history/differs"})
			c.w.GoFail(id, "the prototype compiled for a source depends on what the process compiled before: after the history "+now+", in a fresh process "+res[i].fresh)
		}
	}
}
