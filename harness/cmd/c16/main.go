// c16: correspondence harness for property C16 (text <-> value round trips).
package main

import (
	"fmt"
	"os"
	"time"

	"verifh/lib"
)

const header = "From GL Require Import Common.Bytes Text.Quote Text.StrLit Text.NumRead Text.NumText Text.Date Text.TextCases."

func main() {
	// the property is stated for a zone without transitions: everything runs in UTC
	time.Local = time.UTC
	if len(os.Args) >= 3 && os.Args[1] == "child" {
		os.Exit(child(os.Args[2:]))
	}
	a := lib.ParseArgs()
	if a.Cmd != "run" {
		fmt.Fprintln(os.Stderr, "unknown command", a.Cmd)
		os.Exit(2)
	}
	w, err := lib.NewWriter(a.Out, "C16", a.Tier, a.Seed, header, "case", 400)
	if err != nil {
		panic(err)
	}
	w.Meta.Rule = "real code: string.format('%q',s) + loadstring read-back; `return <literal>` chunks and parse.Scanner.Scan for string literals " +
		"(every escape, every \\ddd in 1-3 digit forms, every raw byte in both quote forms, backslash-newline in 4 forms, long brackets level 0..3 with foreign closers and all newline forms, malformed/truncated literals); " +
		"numerals through tonumber, s+0 and `return <s>` (enumerated spellings over a small alphabet: all checked on the Go side for three-way agreement, disagreements and a sample through Coq; structured numerals; tonumber with base 2..36); " +
		"several literals in one function (2-3 per chunk: spellings of equal values incl. 0/-0/0.0/0x0 in both orders, each observed as v, 1/v, tostring(v); string literals in equal and different spellings); literals PLACED (every byte of literals with line ends in all four forms, of numerals, escapes and brackets on the last byte of a 4096-byte fill of the scanner's reader via LoadString and via LoadFile, and the same texts through readers that deliver 1, 2, 3, ... bytes per Read, with empty Reads or io.EOF together with the last bytes; literals longer than a fill); tostring/tonumber on floats; os.date('*t')/os.time and os.date formats in UTC. " +
		"non-trivial = quote/literal with a byte outside printable ASCII or an escape; numeral spelling other than plain digits; float that is not a small integer; timestamp other than 0; distinct by Gallina term"
	w.Meta.Extra = map[string]any{}
	r := lib.NewRand(a.Seed)
	if a.Replay != "" {
		replay(w, a.Replay)
	} else {
		corpus(w)
		genQuote(w, r, a.Tier)
		genLiterals(w, r, a.Tier)
		genNumerals(w, r, a.Tier)
		genBases(w, r, a.Tier)
		genFloats(w, r, a.Tier)
		genDates(w, r, a.Tier)
		genContext(w, r, a.Tier)
		genPlaced(w, r, a.Tier)
	}
	if tmpFile != "" {
		os.Remove(tmpFile)
	}
	if err := w.Close(); err != nil {
		panic(err)
	}
}
