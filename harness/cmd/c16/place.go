package main

import (
	"os"
	"strings"

	"verifh/lib"
)

// Literals PLACED: what a literal denotes must not depend on where its text stands in the source
// nor on how the reader hands the source to the scanner. The scanner reads through a bufio.Reader
// of 4096 bytes and looks one byte ahead (the partner of a two-byte line end, the digits of a
// decimal escape, the continuation of a numeral, the level of a long bracket); every such
// look-ahead can fall on the last byte of a fill. The streams below put every byte of a literal
// on the last byte of a fill - of the 4096-byte fills of a chunk loaded with LoadString (first and
// second), of the file reader of LoadFile (with and without a '#' line), and of readers that hand
// over 1, 2, 3, ... bytes per Read, with empty Reads in between or with io.EOF arriving together
// with the last bytes.

// fillPad: the number of pad bytes that puts byte idx of the text on the last byte of the k-th
// fill of size b.
func fillPad(idx, b, k int) int {
	pad := b*k - 1 - idx
	for pad < 0 {
		pad += b
	}
	return pad
}

func at(c in, pad, dl, mode int) in {
	c.At = &place{Pad: pad, Dl: dl, Mode: mode}
	return c
}

// everyFill runs c once for every byte of its text from index from on, that byte being the last of
// a 4096-byte fill (the first or the second one).
func everyFill(w *lib.Writer, c in, from int) {
	n := len(srcText(c))
	for i := from; i < n; i++ {
		runCase(w, at(c, fillPad(i, 4096, 1+i%2), 0, 0))
	}
}

func randPlace(r *lib.Rand, c in) in {
	text := srcText(c)
	idx := 0
	if len(text) > 0 {
		idx = r.Intn(len(text))
	}
	mode := r.Pick(6, 1, 1, 2)
	if mode == 3 { // LoadFile (only chunks); its reader fills 4096 bytes
		if c.Kind == "scan" || c.Kind == "numthen" {
			mode = 0
		} else {
			return at(c, fillPad(idx, 4096, r.Range(1, 2)), 0, 3)
		}
	}
	b := []int{4096, 4096, 4095, 1, 1, 2, 3, 5, 16, 64, 1000}[r.Intn(11)]
	k := r.Range(1, 2)
	if b < 100 {
		k = r.Range(1, 6)
	}
	dl := b
	if b == 4096 {
		dl = 0
	}
	return at(c, fillPad(idx, b, k), dl, mode)
}

// wfItem draws a well-formed item for quotes q with line breaks and short decimal escapes (the
// look-ahead sites) over-represented; prev tells whether the previous item was a decimal escape of
// fewer than three digits (then no raw digit may follow).
func wfItem(r *lib.Rand, q int, shortDec bool) item {
	switch r.Pick(4, 2, 3, 4) {
	case 0:
		for {
			b := r.Intn(256)
			if b != q && b != '\\' && b != 10 && b != 13 && !(shortDec && b >= '0' && b <= '9') {
				return item{K: "raw", B: b}
			}
		}
	case 1:
		return item{K: "esc", B: int([]byte("abfnrtv\\\"'")[r.Intn(10)])}
	case 2:
		n := r.Range(1, 3)
		return item{K: "dec", Ds: digitsOf(r.Intn([]int{10, 100, 256}[n-1]), n)}
	default:
		return item{K: "nl", Nl: r.Intn(4)}
	}
}

func randShort(r *lib.Rand) in {
	q := []int{'"', '\''}[r.Intn(2)]
	its := make([]item, r.Range(1, 7))
	short := false
	for k := range its {
		its[k] = wfItem(r, q, short)
		short = its[k].K == "dec" && len(its[k].Ds) < 3
	}
	return in{Kind: "short", Q: q, Items: its}
}

func randLong(r *lib.Rand) in {
	var sb strings.Builder
	pieces := []string{"\r\n", "\n\r", "\n", "\r", "a", "]", "=", "[", "]]", "\r\n\r\n", "\n\n", "\x00", "\xff", "]=", "x"}
	for k := r.Range(1, 6); k > 0; k-- {
		sb.WriteString(pieces[r.Intn(len(pieces))])
	}
	body := sb.String()
	lvl := r.Intn(3)
	for strings.Contains(body+"]", "]"+strings.Repeat("=", lvl)+"]") { // a level the body cannot close
		lvl++
	}
	return in{Kind: "long", Lvl: lvl, S: hx(body)}
}

func genPlaced(w *lib.Writer, r *lib.Rand, tier string) {
	defer func() {
		if tmpFile != "" {
			os.Remove(tmpFile)
		}
	}()
	a, b := item{K: "raw", B: 'a'}, item{K: "raw", B: 'b'}
	var fam []in // literals with line ends in every form and position
	for _, q := range []int{'"', '\''} {
		for nl := 0; nl < 4; nl++ {
			n := item{K: "nl", Nl: nl}
			fam = append(fam,
				in{Kind: "short", Q: q, Items: []item{a, n, b}},
				in{Kind: "short", Q: q, Items: []item{n}},
				in{Kind: "short", Q: q, Items: []item{n, {K: "nl", Nl: (nl + 1) & 3}, {K: "dec", Ds: []int{1, 0}}, n}})
		}
	}
	nls := []string{"\n", "\r", "\r\n", "\n\r"}
	for lvl := 0; lvl <= 1; lvl++ {
		for _, nl := range nls {
			for _, body := range []string{"a" + nl + "b", nl + "ab", nl + nl, "a" + nl + nl + "]", nl} {
				fam = append(fam, in{Kind: "long", Lvl: lvl, S: hx(body)})
			}
		}
	}
	const lead = 6 // the blank before the literal in `return <literal>`: the first look-ahead is on the opening byte
	for i, c := range fam {
		everyFill(w, c, lead)
		// one byte per Read: every look-ahead finds the buffer empty
		runCase(w, at(c, i%5, 1, 0))
		runCase(w, at(c, i%3, 1, 1+i%2))
		// two and three bytes per Read, every phase
		for pad := 0; pad < 2; pad++ {
			runCase(w, at(c, pad, 2, 0))
		}
		for pad := 0; pad < 3; pad++ {
			runCase(w, at(c, pad, 3, (i+pad)%3))
		}
		// LoadFile: the first byte of every line end and the byte before it on the last byte of a fill
		text := srcText(c)
		for j := lead; j < len(text); j++ {
			if text[j] == '\r' || text[j] == '\n' {
				runCase(w, at(c, fillPad(j, 4096, 1), 0, 3))
				if tier == "thorough" {
					runCase(w, at(c, fillPad(j-1, 4096, 2), 0, 3))
				}
			}
		}
	}
	// numerals, escapes and brackets whose look-ahead falls on a fill boundary
	for _, u := range []string{"0x1e5", "1e+5", "3.14", ".5", "0XfF", "12", "1e-2", "5.", "0x10", "1e", "0x", "3..2"} {
		c := in{Kind: "num", Rd: 2, S: hx(u)}
		everyFill(w, c, lead)
		runCase(w, at(c, 0, 1, 0))
		runCase(w, at(c, 1, 2, 2))
		runCase(w, at(c, fillPad(8, 4096, 1), 0, 3))
	}
	for _, l := range []string{`"\1\12\123x"`, `'\0079\n'`, `"\256"`, `"a\`, `[==[a]=]==]`, `[=[]]=]`, `[=`, `[[a]`, "\"a\\\r", "[[\r", `"\2551"`} {
		c := in{Kind: "lit", S: hx(l)}
		everyFill(w, c, lead)
		runCase(w, at(c, 0, 1, 0))
		runCase(w, at(c, 2, 1, 2))
		runCase(w, at(c, 0, 2, 1))
		runCase(w, at(c, 1, 2, 0))
	}
	for _, u := range []string{"0x1e", "1e5", "5.", "3"} {
		for _, rest := range []string{"+1", "..", ".5", "e", " ", "x"} {
			c := in{Kind: "numthen", S: hx(u), Rest: hx(rest)}
			runCase(w, at(c, fillPad(len(u)-1, 4096, 1), 0, 0))
			runCase(w, at(c, fillPad(len(u), 4096, 1), 0, 0))
			runCase(w, at(c, 3, 1, 0))
		}
	}
	// %q output read back piecewise (its line ends are backslash + LF)
	for i, s := range []string{"a\nb", "\n\n", "\r\n", "\n\r", "\x00\n1", "\\\n", "a\r\nb\n\rc"} {
		runCase(w, at(in{Kind: "quote", S: hx(s)}, i%4, 1, 0))
		for j := 0; j < 2*len(s)+2; j++ {
			runCase(w, at(in{Kind: "quote", S: hx(s)}, fillPad(7+j, 4096, 1), 0, 0))
		}
	}
	// literals longer than a fill, every line end a pair: whichever pair meets the boundary
	nlN, nsN := 2100, 1400
	for pad := 0; pad < 2; pad++ {
		for _, nl := range []string{"\r\n", "\n\r"} {
			runCase(w, at(in{Kind: "long", Lvl: 1, S: hx(strings.Repeat(nl, nlN))}, pad, 0, 0))
		}
	}
	for pad := 0; pad < 3; pad++ {
		its := make([]item, nsN)
		for i := range its {
			its[i] = item{K: "nl", Nl: 2 + (pad+1)%2}
		}
		runCase(w, at(in{Kind: "short", Q: '"', Items: its}, pad, 0, 0))
	}
	// random literals, randomly placed
	n := 500
	if tier == "thorough" {
		n = 12000
	}
	soup := []byte("\"'\\[]==\r\n0129anx \x00\xff")
	for i := 0; i < n; i++ {
		var c in
		switch r.Pick(6, 6, 2, 2, 1, 3, 1) {
		case 0:
			c = randShort(r)
		case 1:
			c = randLong(r)
		case 2:
			c = in{Kind: "num", Rd: 2, S: hx(randNumeral(r))}
			if len(unhex(c.S)) > 40 {
				c.S = hx("0x" + randDigits(r, 9))
			}
		case 3:
			s := []byte{[]byte("\"'[")[r.Intn(3)]}
			if s[0] == '[' {
				s = append(s, []byte(strings.Repeat("=", r.Intn(3))+"[")...)
			}
			for k := r.Range(0, 12); k > 0; k-- {
				s = append(s, soup[r.Intn(len(soup))])
			}
			c = in{Kind: "scan", S: lib.Hex(s)}
		case 4:
			u := randNumeral(r)
			if len(u) > 30 {
				u = u[:30]
			}
			c = in{Kind: "numthen", S: hx(u), Rest: hx([]string{"", "+1", "..", ".5", "e", "x", " ", "\r\n", ")"}[r.Intn(9)])}
		case 5:
			ls := make([]ctxLit, r.Range(2, 3))
			for j := range ls {
				switch r.Intn(3) {
				case 0:
					ls[j] = numLit(r.Chance(30), []string{"0", "0x1e", "1e5", ".5", "255", "0xff", "1e-400", "3.25"}[r.Intn(8)])
				case 1:
					ls[j] = ctxLit{Str: true, Src: hx(srcText(randShort(r))[7:])}
				default:
					ls[j] = ctxLit{Str: true, Src: hx(srcText(randLong(r))[7:])}
				}
			}
			c = in{Kind: "ctx", Lits: ls}
		default:
			c = in{Kind: "quote", S: lib.Hex(r.Bytes(r.Range(0, 12), quoteAlpha))}
			runCase(w, at(c, r.Intn(8), []int{1, 2, 3}[r.Intn(3)], r.Intn(3)))
			continue
		}
		runCase(w, randPlace(r, c))
	}
}
