package main

import (
	"context"
	"encoding/hex"
	"fmt"
	"io"
	"math"
	"os"
	"os/exec"
	"strconv"
	"strings"
	"time"

	lua "github.com/yuin/gopher-lua"
	"github.com/yuin/gopher-lua/parse"
	"verifh/lib"
)

// item of a short string literal: k = raw|esc|dec|nl
type item struct {
	K  string `json:"k"`
	B  int    `json:"b,omitempty"`  // raw byte / escaped character
	Ds []int  `json:"ds,omitempty"` // decimal escape digits
	Nl int    `json:"nl,omitempty"` // 0 LF 1 CR 2 CRLF 3 LFCR
}

// tfield is one entry of a date table: number or string (hex) or bool
type tfield struct {
	Name string `json:"name"`
	Inh  bool   `json:"inherited,omitempty"` // the field lives in the metatable's __index table
	Num  *int64 `json:"num,omitempty"`
	Str  string `json:"str_hex,omitempty"`
	IsS  bool   `json:"is_str,omitempty"`
	IsB  bool   `json:"is_bool,omitempty"` // the value true (not a number, not a string)
}

// ctxLit is one literal of a several-literal chunk: an unsigned numeral (hex of its text), negated
// or not, or the source text of a string literal.
type ctxLit struct {
	Str bool   `json:"str,omitempty"`
	Neg bool   `json:"neg,omitempty"`
	Src string `json:"src_hex"`
}

// in is the replayable input of one case.
type in struct {
	Kind  string   `json:"kind"` // quote short long lit scan num numb tostr datet time strf
	S     string   `json:"s_hex,omitempty"`
	Q     int      `json:"q,omitempty"`
	Items []item   `json:"items,omitempty"`
	Lvl   int      `json:"lvl,omitempty"`
	Rd    int      `json:"rd,omitempty"`
	Base  int      `json:"base,omitempty"`
	Bits  string   `json:"bits,omitempty"` // float64 bit pattern, decimal
	T     int64    `json:"t,omitempty"`
	Tbl   []tfield `json:"tbl,omitempty"`
	Lits  []ctxLit `json:"lits,omitempty"`
	Z     int64    `json:"z,omitempty"`
	Rest  string   `json:"rest_hex,omitempty"`
	At    *place   `json:"at,omitempty"` // the source text is placed: padded in front and delivered piecewise
}

// place says where the source text of a case stands and how it reaches the scanner: Pad bytes of
// blanks and line ends in front; Dl > 0: the reader hands over at most Dl bytes per Read (0: as much
// as asked for, so the scanner's bufio.Reader fills 4096 bytes at a time); Mode 1: the last Read
// returns its bytes together with io.EOF; Mode 2: every delivery is preceded by a Read that returns
// (0, nil); Mode 3: the text is written to a file and loaded with LoadFile (Dl unused), and when
// Pad >= 4 the file starts with a '#' line.
type place struct {
	Pad  int `json:"pad"`
	Dl   int `json:"dl,omitempty"`
	Mode int `json:"mode,omitempty"`
}

// cur is the placement of the case being run (nil: the text is loaded as it is, with LoadString).
var cur *place

func padText(n int, hash bool) string {
	b := make([]byte, n)
	for i := range b {
		b[i] = ' '
		if i%67 == 66 {
			b[i] = '\n'
		}
	}
	if hash && n >= 4 { // first line of a file: skipped by LoadFile up to its line feed
		b[0], b[1], b[2], b[3] = '#', '!', 'x', '\n'
	}
	return string(b)
}

// pieceReader delivers data at most n bytes per Read.
type pieceReader struct {
	data  []byte
	n     int
	mode  int
	calls int
}

func (p *pieceReader) Read(b []byte) (int, error) {
	p.calls++
	if len(p.data) == 0 {
		return 0, io.EOF
	}
	if p.mode == 2 && p.calls%2 == 1 {
		return 0, nil
	}
	k := len(p.data)
	if p.n > 0 && k > p.n {
		k = p.n
	}
	if k > len(b) {
		k = len(b)
	}
	copy(b, p.data[:k])
	p.data = p.data[k:]
	if p.mode == 1 && len(p.data) == 0 {
		return k, io.EOF
	}
	return k, nil
}

// placed returns the reader the scanner gets for the source text src under the current placement.
func placed(src string) io.Reader {
	if cur == nil {
		return strings.NewReader(src)
	}
	text := padText(cur.Pad, false) + src
	if cur.Dl == 0 && cur.Mode == 0 {
		return strings.NewReader(text)
	}
	return &pieceReader{data: []byte(text), n: cur.Dl, mode: cur.Mode}
}

var tmpFile string

// loadChunk compiles src as a chunk under the current placement.
func loadChunk(L *lua.LState, src string) (*lua.LFunction, error) {
	if cur == nil {
		return L.LoadString(src)
	}
	if cur.Mode == 3 {
		if tmpFile == "" {
			tmpFile = fmt.Sprintf("%s/c16-chunk-%d.lua", os.TempDir(), os.Getpid())
		}
		if err := os.WriteFile(tmpFile, []byte(padText(cur.Pad, true)+src), 0o600); err != nil {
			panic(err)
		}
		return L.LoadFile(tmpFile)
	}
	return L.Load(placed(src), "<string>")
}

var L *lua.LState
var coerceFn lua.LValue

func state() *lua.LState {
	if L == nil {
		L = lua.NewState()
		if err := L.DoString("return function(s) return s + 0 end"); err != nil {
			panic(err)
		}
		coerceFn = L.Get(-1)
		L.Pop(1)
	}
	return L
}

// cb prints a byte string as a Gallina term; a run of 64 or more equal bytes is written as
// `repeat b (Z.to_nat n)` (coqc needs ~40 KB of memory per element of a list literal: a numeral
// with 12000 zeros cost 500 MB to parse).
func cb(b []byte) string {
	long := false
	for i := 0; i+64 <= len(b) && !long; i++ {
		j := i
		for j < len(b) && b[j] == b[i] {
			j++
		}
		long = j-i >= 64
		if j > i+1 {
			i = j - 1
		}
	}
	if !long {
		return lib.CoqBytes(b)
	}
	var parts []string
	start := 0
	for i := 0; i < len(b); {
		j := i
		for j < len(b) && b[j] == b[i] {
			j++
		}
		if j-i >= 64 {
			if i > start {
				parts = append(parts, lib.CoqBytes(b[start:i]))
			}
			parts = append(parts, fmt.Sprintf("repeat %d (Z.to_nat %d)", b[i], j-i))
			start = j
		}
		i = j
	}
	if start < len(b) {
		parts = append(parts, lib.CoqBytes(b[start:]))
	}
	return "(" + strings.Join(parts, " ++ ") + ")"
}

func unhex(s string) []byte {
	b, _ := hex.DecodeString(s)
	return b
}

// protect runs f and turns an escaping Go panic into a string.
func protect(f func()) (panicked string) {
	defer func() {
		if r := recover(); r != nil {
			panicked = fmt.Sprint(r)
			if len(panicked) > 200 {
				panicked = panicked[:200]
			}
			L = nil // the state may be inconsistent
		}
	}()
	f()
	return ""
}

// callFn calls a Lua value with arguments; returns results or error text.
func callFn(f lua.LValue, args ...lua.LValue) (res []lua.LValue, errs string, panicked string) {
	L := state()
	top := L.GetTop()
	panicked = protect(func() {
		err := L.CallByParam(lua.P{Fn: f, NRet: lua.MultRet, Protect: true}, args...)
		if err != nil {
			errs = err.Error()
			if len(errs) > 200 {
				errs = errs[:200]
			}
			L.SetTop(top)
			return
		}
		n := L.GetTop() - top
		for i := 1; i <= n; i++ {
			res = append(res, L.Get(top+i))
		}
		L.SetTop(top)
	})
	return
}

func global(name string) lua.LValue { return state().GetGlobal(name) }
func field(tbl, name string) lua.LValue {
	L := state()
	return L.GetField(L.GetGlobal(tbl), name)
}

// evalChunk loads and runs src; err is a load or run error.
func evalChunk(src string) (res []lua.LValue, errs string, panicked string) {
	L := state()
	var fn *lua.LFunction
	panicked = protect(func() {
		f, err := loadChunk(L, src)
		if err != nil {
			errs = err.Error()
			if len(errs) > 200 {
				errs = errs[:200]
			}
			return
		}
		fn = f
	})
	if panicked != "" || errs != "" {
		return
	}
	return callFn(fn)
}

// oneString: the results are exactly one string
func oneString(res []lua.LValue) ([]byte, bool) {
	if len(res) == 1 {
		if s, ok := res[0].(lua.LString); ok {
			return []byte(string(s)), true
		}
	}
	return nil, false
}

func oneNumber(res []lua.LValue) (float64, bool) {
	if len(res) == 1 {
		if n, ok := res[0].(lua.LNumber); ok {
			return float64(n), true
		}
	}
	return 0, false
}

func coqOBytes(b []byte, ok bool) string { return lib.CoqOpt(ok, cb(b)) }

func fvalTerm(f float64) string {
	switch {
	case math.IsNaN(f):
		return "FNaN"
	case math.IsInf(f, 1):
		return "PInf"
	case math.IsInf(f, -1):
		return "NInf"
	}
	m, e, _ := lib.Dyadic(f)
	return fmt.Sprintf("(Fin %s %s)", lib.CoqZ(m), lib.CoqZ(int64(e)))
}

func coqOF(f float64, ok bool) string { return lib.CoqOpt(ok, fvalTerm(f)) }

func obsBytes(b []byte, ok bool) any {
	if !ok {
		return nil
	}
	return lib.Hex(b)
}

func obsNum(f float64, ok bool) any {
	if !ok {
		return nil
	}
	return strconv.FormatFloat(f, 'g', -1, 64)
}

func itemTerm(it item) string {
	switch it.K {
	case "raw":
		return fmt.Sprintf("IRaw %d", it.B)
	case "esc":
		return fmt.Sprintf("IEsc %d", it.B)
	case "dec":
		zs := make([]int64, len(it.Ds))
		for i, d := range it.Ds {
			zs[i] = int64(d)
		}
		return "IDec " + lib.CoqZList(zs)
	default:
		return "INl " + []string{"NlLF", "NlCR", "NlCRLF", "NlLFCR"}[it.Nl&3]
	}
}

func renderItems(q int, its []item) []byte {
	out := []byte{byte(q)}
	for _, it := range its {
		switch it.K {
		case "raw":
			out = append(out, byte(it.B))
		case "esc":
			out = append(out, '\\', byte(it.B))
		case "dec":
			out = append(out, '\\')
			for _, d := range it.Ds {
				out = append(out, byte('0'+d))
			}
		default:
			out = append(out, '\\')
			out = append(out, [][]byte{{10}, {13}, {13, 10}, {10, 13}}[it.Nl&3]...)
		}
	}
	return append(out, byte(q))
}

func longSrc(lvl int, body []byte) []byte {
	eq := strings.Repeat("=", lvl)
	return []byte("[" + eq + "[" + string(body) + "]" + eq + "]")
}

func nonPrintable(b []byte) bool {
	for _, c := range b {
		if c < 0x20 || c > 0x7e || c == '\\' || c == '"' {
			return true
		}
	}
	return false
}

// returnsString evaluates `return <src>` and reports the single string result, if any.
func returnsString(w *lib.Writer, id int, src []byte) ([]byte, bool) {
	res, _, pan := evalChunk("return " + string(src))
	if pan != "" {
		w.GoFail(id, "Go panic escaped while loading/running a literal chunk: "+pan)
		return nil, false
	}
	return oneString(res)
}

var fnames = map[string]string{"year": "FYear", "month": "FMonth", "day": "FDay", "hour": "FHour", "min": "FMin",
	"sec": "FSec", "wday": "FWday", "yday": "FYday", "isdst": "FIsdst"}

// runCase executes one input against the real code and records it.
func runCase(w *lib.Writer, c in, kf ...string) {
	id := w.NextID()
	kc := lib.Case{Input: c, Class: c.Kind, KF: kf}
	s := unhex(c.S)
	cur = c.At
	defer func() { cur = nil }()
	switch c.Kind {
	case "quote":
		res, errs, pan := callFn(field("string", "format"), lua.LString("%q"), lua.LString(string(s)))
		q, ok := oneString(res)
		if pan != "" || errs != "" || !ok {
			w.GoFail(id, "string.format('%q', s) did not return a string: "+errs+pan)
		}
		back, bok := returnsString(w, id, q)
		kc.Observed = map[string]any{"q": lib.Hex(q), "back": obsBytes(back, bok)}
		kc.Coq = fmt.Sprintf("CQuote %s %s %s", cb(s), cb(q), coqOBytes(back, bok))
		kc.Nontrivial = nonPrintable(s)
	case "short":
		src := renderItems(c.Q, c.Items)
		v, ok := returnsString(w, id, src)
		kc.Observed = map[string]any{"src": lib.Hex(src), "value": obsBytes(v, ok)}
		terms := make([]string, len(c.Items))
		for i, it := range c.Items {
			terms[i] = itemTerm(it)
			if it.K != "raw" || it.B < 0x20 || it.B > 0x7e {
				kc.Nontrivial = true
			}
		}
		kc.Coq = fmt.Sprintf("CShort %d %s %s", c.Q, lib.CoqList(terms), coqOBytes(v, ok))
	case "long":
		src := longSrc(c.Lvl, s)
		v, ok := returnsString(w, id, src)
		kc.Observed = map[string]any{"src": lib.Hex(src), "value": obsBytes(v, ok)}
		kc.Coq = fmt.Sprintf("CLong %d %s %s", c.Lvl, cb(s), coqOBytes(v, ok))
		kc.Nontrivial = nonPrintable(s) || strings.ContainsAny(string(s), "]=")
	case "lit":
		v, ok := returnsString(w, id, s)
		kc.Observed = obsBytes(v, ok)
		kc.Coq = fmt.Sprintf("CLit %s %s", cb(s), coqOBytes(v, ok))
		kc.Nontrivial = true
	case "scan":
		var v []byte
		ok := false
		pan := protect(func() {
			sc := parse.NewScanner(placed(string(s)), "case")
			tok, err := sc.Scan(&parse.Lexer{})
			if err == nil && tok.Type == parse.TString {
				v, ok = []byte(tok.Str), true
			}
		})
		if pan != "" {
			w.GoFail(id, "Go panic escaped from Scanner.Scan: "+pan)
		}
		kc.Observed = obsBytes(v, ok)
		kc.Coq = fmt.Sprintf("CScan %s %s", cb(s), coqOBytes(v, ok))
		kc.Nontrivial = true
	case "num":
		f, ok := readNumber(w, id, c.Rd, s)
		kc.Observed = obsNum(f, ok)
		kc.Coq = fmt.Sprintf("CNum %d %s %s", c.Rd, cb(s), coqOF(f, ok))
		kc.Class = fmt.Sprintf("num/rd%d", c.Rd)
		kc.Nontrivial = !plainDigits(s)
	case "numb":
		res, errs, pan := callFn(global("tonumber"), lua.LString(string(s)), lua.LNumber(c.Base))
		if pan != "" || errs != "" {
			w.GoFail(id, "tonumber(s, base) raised: "+errs+pan)
		}
		f, ok := oneNumber(res)
		if !ok && !(len(res) == 1 && res[0] == lua.LNil) {
			w.GoFail(id, "tonumber(s, base): result is neither a number nor nil")
		}
		kc.Observed = obsNum(f, ok)
		kc.Coq = fmt.Sprintf("CNumB %d %s %s", c.Base, cb(s), coqOF(f, ok))
		kc.Nontrivial = true
	case "numberr":
		_, errs, pan := callFn(global("tonumber"), lua.LString(string(s)), lua.LNumber(c.Base))
		if pan != "" {
			w.GoFail(id, "Go panic escaped from tonumber(s, base): "+pan)
		}
		kc.Observed = map[string]any{"raised": errs != "", "error": errs}
		kc.Coq = fmt.Sprintf("CNumBErr %s %s %s", lib.CoqZ(int64(c.Base)), cb(s), lib.CoqBool(errs != ""))
		kc.Nontrivial = true
	case "numbn":
		res, errs, pan := callFn(global("tonumber"), lua.LNumber(c.Z), lua.LNumber(c.Base))
		if pan != "" || errs != "" {
			w.GoFail(id, "tonumber(number, base) raised: "+errs+pan)
		}
		f, ok := oneNumber(res)
		kc.Observed = obsNum(f, ok)
		kc.Coq = fmt.Sprintf("CNumBN %s %d %s", lib.CoqZ(c.Z), c.Base, coqOF(f, ok))
		kc.Nontrivial = true
	case "numthen":
		rest := unhex(c.Rest)
		var v []byte
		ok := false
		pan := protect(func() {
			sc := parse.NewScanner(placed(string(s)+string(rest)), "case")
			tok, err := sc.Scan(&parse.Lexer{})
			if err == nil && tok.Type == parse.TNumber {
				v, ok = []byte(tok.Str), true
			}
		})
		if pan != "" {
			w.GoFail(id, "Go panic escaped from Scanner.Scan: "+pan)
		}
		kc.Observed = obsBytes(v, ok)
		kc.Coq = fmt.Sprintf("CNumThen %s %s %s", cb(s), cb(rest), coqOBytes(v, ok))
		kc.Nontrivial = len(rest) > 0
	case "tostr":
		bits, _ := strconv.ParseUint(c.Bits, 10, 64)
		x := math.Float64frombits(bits)
		res, errs, pan := callFn(global("tostring"), lua.LNumber(x))
		str, ok := oneString(res)
		if pan != "" || errs != "" || !ok {
			w.GoFail(id, "tostring(x) did not return a string: "+errs+pan)
		}
		res2, errs2, pan2 := callFn(global("tonumber"), lua.LString(string(str)))
		if pan2 != "" || errs2 != "" {
			w.GoFail(id, "tonumber(tostring(x)) raised: "+errs2+pan2)
		}
		back, bok := oneNumber(res2)
		kc.Observed = map[string]any{"str": string(str), "back": obsNum(back, bok)}
		kc.Coq = fmt.Sprintf("CToStr %s %s %s", fvalTerm(x), cb(str), coqOF(back, bok))
		kc.Nontrivial = !(x == math.Trunc(x) && math.Abs(x) < 1000)
	case "datet":
		res, errs, pan := callFn(field("os", "date"), lua.LString("*t"), lua.LNumber(c.T))
		var tb *lua.LTable
		if len(res) == 1 {
			tb, _ = res[0].(*lua.LTable)
		}
		if pan != "" || errs != "" || tb == nil {
			w.GoFail(id, "os.date('*t', t) did not return a table: "+errs+pan)
			tb = state().NewTable()
		}
		var flds []int64
		for _, k := range []string{"year", "month", "day", "hour", "min", "sec", "wday", "yday"} {
			n, ok := tb.RawGetString(k).(lua.LNumber)
			if !ok || float64(n) != math.Trunc(float64(n)) {
				w.GoFail(id, "os.date('*t') field is not an integer: "+k)
				n = -99
			}
			flds = append(flds, int64(n))
		}
		isdst := tb.RawGetString("isdst") == lua.LTrue
		res2, errs2, pan2 := callFn(field("os", "time"), tb)
		back, bok := oneNumber(res2)
		if pan2 != "" || errs2 != "" || !bok || back != math.Trunc(back) {
			w.GoFail(id, "os.time(os.date('*t', t)) did not return an integer: "+errs2+pan2)
		}
		kc.Observed = map[string]any{"fields": flds, "isdst": isdst, "back": int64(back)}
		kc.Coq = fmt.Sprintf("CDateT %s %s %s %s", lib.CoqZ(c.T), lib.CoqZList(flds), lib.CoqBool(isdst), lib.CoqZ(int64(back)))
		kc.Nontrivial = c.T != 0
	case "time":
		L := state()
		tb := L.NewTable()
		inh := L.NewTable()
		hasInh := false
		var terms, inhTerms []string
		for _, f := range c.Tbl {
			dst := tb
			if f.Inh {
				dst, hasInh = inh, true
			}
			var term string
			switch {
			case f.IsS:
				dst.RawSetString(f.Name, lua.LString(string(unhex(f.Str))))
				term = fmt.Sprintf("(%s, DStr %s)", fnames[f.Name], cb(unhex(f.Str)))
			case f.IsB:
				dst.RawSetString(f.Name, lua.LTrue)
				term = fmt.Sprintf("(%s, DBool true)", fnames[f.Name])
			case f.Num != nil:
				dst.RawSetString(f.Name, lua.LNumber(*f.Num))
				term = fmt.Sprintf("(%s, DNum %s)", fnames[f.Name], lib.CoqZ(*f.Num))
			default:
				continue
			}
			if f.Inh {
				inhTerms = append(inhTerms, term)
			} else {
				terms = append(terms, term)
			}
		}
		if hasInh { // t[key] finds an own field first, then the __index table's
			mt := L.NewTable()
			mt.RawSetString("__index", inh)
			L.SetMetatable(tb, mt)
			terms = append(terms, inhTerms...)
		}
		res, errs, pan := callFn(field("os", "time"), tb)
		v, ok := oneNumber(res)
		if pan != "" {
			w.GoFail(id, "Go panic escaped from os.time(table): "+pan)
		}
		if errs == "" && (!ok || v != math.Trunc(v)) {
			w.GoFail(id, "os.time(table) returned something that is not an integer")
		}
		raised := errs != "" || pan != ""
		if raised {
			kc.Observed = map[string]any{"raised": errs}
		} else {
			kc.Observed = int64(v)
		}
		kc.Coq = fmt.Sprintf("CTime %s %s", lib.CoqList(terms), lib.CoqOpt(!raised, lib.CoqZ(int64(v))))
		kc.Nontrivial = true
	case "ctx":
		// all literals are constants of ONE function; each numeral is observed as v, 1/v, tostring(v)
		var terms []string
		for _, l := range c.Lits {
			if l.Str {
				terms = append(terms, "XStr "+cb(unhex(l.Src)))
			} else {
				terms = append(terms, fmt.Sprintf("XNum %s %s", lib.CoqBool(l.Neg), cb(unhex(l.Src))))
			}
		}
		chunk := ctxChunk(c.Lits)
		res, errs, pan := evalChunk(chunk)
		if pan != "" {
			w.GoFail(id, "Go panic escaped from a several-literal chunk: "+pan)
		}
		obsTerm := "None"
		var obsJ []any
		if errs == "" && pan == "" {
			var os []string
			k := 0
			for _, l := range c.Lits {
				if l.Str {
					if k < len(res) {
						if sv, ok := res[k].(lua.LString); ok {
							os = append(os, "OStr "+cb([]byte(string(sv))))
							obsJ = append(obsJ, lib.Hex([]byte(string(sv))))
							k++
							continue
						}
					}
					os = append(os, "OBad")
					obsJ = append(obsJ, nil)
					k++
					continue
				}
				okk := k+2 < len(res)
				var x, inv lua.LNumber
				var st lua.LString
				if okk {
					var o1, o2, o3 bool
					x, o1 = res[k].(lua.LNumber)
					inv, o2 = res[k+1].(lua.LNumber)
					st, o3 = res[k+2].(lua.LString)
					okk = o1 && o2 && o3
				}
				if okk {
					nz := float64(x) == 0 && math.IsInf(float64(inv), -1)
					os = append(os, fmt.Sprintf("ONum %s %s %s", fvalTerm(float64(x)), lib.CoqBool(nz), cb([]byte(string(st)))))
					obsJ = append(obsJ, map[string]any{"x": obsNum(float64(x), true), "inv": obsNum(float64(inv), true), "str": string(st)})
				} else {
					os = append(os, "OBad")
					obsJ = append(obsJ, nil)
				}
				k += 3
			}
			if k != len(res) {
				os = append(os, "OBad")
			}
			obsTerm = "(Some " + lib.CoqList(os) + ")"
		}
		kc.Observed = map[string]any{"chunk": chunk, "results": obsJ, "error": errs}
		kc.Coq = fmt.Sprintf("CCtx %s %s", lib.CoqList(terms), obsTerm)
		kc.Nontrivial = len(c.Lits) >= 2
	case "strf":
		res, errs, pan := callFn(field("os", "date"), lua.LString("!"+string(s)), lua.LNumber(c.T))
		o, ok := oneString(res)
		if pan != "" || errs != "" || !ok {
			w.GoFail(id, "os.date(fmt, t) did not return a string: "+errs+pan)
		}
		kc.Observed = string(o)
		kc.Coq = fmt.Sprintf("CStrf %s %s %s", lib.CoqZ(c.T), cb(s), cb(o))
		kc.Nontrivial = c.T != 0
	default:
		panic("unknown kind " + c.Kind)
	}
	if c.At != nil {
		kc.Coq = fmt.Sprintf("CAt %d %d %d (%s)", c.At.Pad, c.At.Dl, c.At.Mode, kc.Coq)
		kc.Class = "at/" + kc.Class
	}
	w.Add(kc)
}

// ctxChunk is the source of a several-literal case.
func ctxChunk(lits []ctxLit) string {
	var decl, vars, rets []string
	for i, l := range lits {
		v := fmt.Sprintf("v%d", i+1)
		vars = append(vars, v)
		src := string(unhex(l.Src))
		if l.Str {
			decl = append(decl, src)
			rets = append(rets, v)
		} else {
			if l.Neg {
				src = "-" + src
			}
			decl = append(decl, src)
			rets = append(rets, v, "1/"+v, "tostring("+v+")")
		}
	}
	return "local " + strings.Join(vars, ", ") + " = " + strings.Join(decl, ", ") + "\nreturn " + strings.Join(rets, ", ")
}

// srcText is the text the scanner is given for a case of a kind that goes through it ("" for the
// others and for quote, whose text is the output of string.format).
func srcText(c in) string {
	switch c.Kind {
	case "short":
		return "return " + string(renderItems(c.Q, c.Items))
	case "long":
		return "return " + string(longSrc(c.Lvl, unhex(c.S)))
	case "lit":
		return "return " + string(unhex(c.S))
	case "num":
		if c.Rd == 2 {
			return "return " + string(unhex(c.S))
		}
	case "scan":
		return string(unhex(c.S))
	case "numthen":
		return string(unhex(c.S)) + string(unhex(c.Rest))
	case "ctx":
		return ctxChunk(c.Lits)
	}
	return ""
}

func plainDigits(s []byte) bool {
	if len(s) == 0 {
		return false
	}
	for _, c := range s {
		if c < '0' || c > '9' {
			return false
		}
	}
	return true
}

// readNumber runs one of the three readers; ok=false: nil / error / not one number.
func readNumber(w *lib.Writer, id int, rd int, s []byte) (float64, bool) {
	switch rd {
	case 0:
		res, errs, pan := callFn(global("tonumber"), lua.LString(string(s)))
		if pan != "" || errs != "" {
			if w != nil {
				w.GoFail(id, "tonumber(s) raised: "+errs+pan)
			}
			return 0, false
		}
		return oneNumber(res)
	case 1:
		state()
		res, _, pan := callFn(coerceFn, lua.LString(string(s)))
		if pan != "" {
			if w != nil {
				w.GoFail(id, "Go panic escaped from s + 0: "+pan)
			}
			return 0, false
		}
		return oneNumber(res)
	default:
		res, _, pan := evalChunk("return " + string(s))
		if pan != "" {
			if w != nil {
				w.GoFail(id, "Go panic escaped from a numeral chunk: "+pan)
			}
			return 0, false
		}
		return oneNumber(res)
	}
}

func lluaStr(s string) lua.LValue { return lua.LString(s) }
func lluaNum(n int64) lua.LValue  { return lua.LNumber(n) }

// child runs one input that may kill the process; exit status 0 = the property held.
func child(args []string) int {
	time.Local = time.UTC
	switch args[0] {
	case "pctpct": // os.date of n pairs "%%" must be n percent signs
		n, _ := strconv.Atoi(args[1])
		res, errs, pan := callFn(field("os", "date"), lua.LString(strings.Repeat("%%", n)), lua.LNumber(0))
		o, ok := oneString(res)
		if pan != "" || errs != "" || !ok || len(o) != n || strings.Trim(string(o), "%") != "" {
			fmt.Println("wrong result", errs, pan, len(o))
			return 1
		}
		return 0
	}
	return 2
}

// runChild re-executes the harness for an input that can crash it; returns "" when the child
// reported success, otherwise what happened (truncated).
func runChild(timeout time.Duration, args ...string) string {
	ctx, cancel := context.WithTimeout(context.Background(), timeout)
	defer cancel()
	cmd := exec.CommandContext(ctx, os.Args[0], append([]string{"child"}, args...)...)
	out, err := cmd.CombinedOutput()
	if err == nil {
		return ""
	}
	msg := err.Error() + ": " + string(out)
	if len(msg) > 300 {
		msg = msg[:300]
	}
	return msg
}
