package main

import (
	"encoding/json"
	"fmt"
	"math"
	"os"
	"strconv"
	"strings"
	"time"

	"verifh/lib"
)

func hx(s string) string { return lib.Hex([]byte(s)) }

func bitsOf(f float64) string { return strconv.FormatUint(math.Float64bits(f), 10) }

// corpus: witnesses of every C16 defect recorded in DESIGN 9.1 (all repaired by fix: commits) and
// boundary inputs found while building the check; run first.
func corpus(w *lib.Writer) {
	all := make([]byte, 256)
	for i := range all {
		all[i] = byte(i)
	}
	for _, s := range []string{"a\nb\x00c\"d\\e\r\xc8", "\x001", "\n\r", "\r\n", "\\n", "\"", "", string(all)} {
		runCase(w, in{Kind: "quote", S: hx(s)}) // C16-4
	}
	runCase(w, in{Kind: "num", Rd: 0, S: hx("1e2")})                                                           // C16-1
	for _, s := range []string{"\xc2\xa010", "10\xc2\x85", "\xe2\x80\x8310\xe3\x80\x80", "\xa010", "10\x85"} { // Unicode spaces are not blanks
		runCase(w, in{Kind: "num", Rd: 0, S: hx(s)})
		runCase(w, in{Kind: "num", Rd: 1, S: hx(s)})
		runCase(w, in{Kind: "num", Rd: 2, S: hx(s)})
	}
	for _, s := range []string{"0010", "0b11", "0o17", "1_000", "inf", "nan", "0x1p4", "1e999", " 10\r", "-0x10", "0x.8p1", "1.0_0", "Infinity", "+inf", "NaN"} {
		runCase(w, in{Kind: "num", Rd: 0, S: hx(s)}) // C16-2, C16-3
		runCase(w, in{Kind: "num", Rd: 1, S: hx(s)})
	}
	for _, s := range []string{"0010", "0012", "0099", "09", "1e", "1e+", "0xffffffffffffffff", "1..2", "0x", "3x", "1.5.3", "08.5", "0x1p4", "1_0", "0b11"} {
		runCase(w, in{Kind: "num", Rd: 2, S: hx(s)}) // C16-2, C16-5
	}
	for _, c := range []struct {
		s string
		b int
	}{{"1.5", 16}, {"1e2", 10}, {"0x10", 10}, {"0x10", 16}, {"zz", 36}, {"ZZ", 36}, {"-10", 2}, {"+1", 2},
		{"7fffffffffffffff", 16}, {"8000000000000000", 16}, {"-8000000000000000", 16}, {"-8000000000000001", 16}, {"1_0", 16}, {" 11\r", 2}, {"", 16}, {"-", 16}, {"12", 2}} {
		runCase(w, in{Kind: "numb", S: hx(c.s), Base: c.b})
	}
	for _, l := range []string{`"\300"`, `"\999"`, `'a\256b'`, `"\255\0"`} { // escapes above 255 are errors
		runCase(w, in{Kind: "lit", S: hx(l)})
	}
	runCase(w, in{Kind: "numb", S: hx("0x10"), Base: 16})
	runCase(w, in{Kind: "numb", S: hx("ffffffffffffffff"), Base: 16})
	runCase(w, in{Kind: "numb", S: hx("--10"), Base: 2}) // seeded C16-8
	runCase(w, in{Kind: "numbn", Z: 10, Base: 16})
	runCase(w, in{Kind: "numberr", S: hx("0b101"), Base: 0})
	runCase(w, in{Kind: "numthen", S: hx("0x1e"), Rest: hx("+1")}) // seeded C16-7
	runCase(w, in{Kind: "numthen", S: hx("0xE"), Rest: hx("-1")})
	for _, f := range []string{"%a %x", "%c", "%j", "%a %A %b %B %d %H %I %m %M %p %S %w %X %y %Y %Z %%", "%", "%%%", "%q%", "%F %P %z", "!%m!", "!"} {
		runCase(w, in{Kind: "strf", S: hx(f), T: 0}) // C16-6
		runCase(w, in{Kind: "strf", S: hx(f), T: 951827696})
	}
	// hunt obs-2/3/4: required date fields, week numbers, numeric strings read as tonumber reads them
	runCase(w, in{Kind: "time", Tbl: []tfield{{Name: "year", Num: num(2024)}, {Name: "month", Num: num(5)}}})
	runCase(w, in{Kind: "time", Tbl: nil})
	runCase(w, in{Kind: "time", Tbl: []tfield{{Name: "year", Num: num(2024)}, {Name: "month", Num: num(5)}, {Name: "day", IsS: true, Str: hx("tenth")}}})
	for _, h := range []string{"0e0", "0.", "0 ", "00E2", "08", "0"} {
		runCase(w, in{Kind: "time", Tbl: []tfield{{Name: "year", Num: num(2000)}, {Name: "month", Num: num(1)}, {Name: "day", Num: num(1)}, {Name: "hour", IsS: true, Str: hx(h)}}})
		runCase(w, in{Kind: "time", Tbl: []tfield{{Name: "year", Num: num(2000)}, {Name: "month", Num: num(1)}, {Name: "day", IsS: true, Str: hx(h)}}})
	}
	for _, t := range []int64{1000000000, 1735603200, 0} {
		runCase(w, in{Kind: "strf", S: hx("%U %W"), T: t})
	}
	// hunt round 2: long numerals, inherited date fields
	numCases(w, []byte("1"+strings.Repeat("0", 800)+"e-800"))
	numCases(w, []byte(strings.Repeat("9", 850)+"e-850"))
	runCase(w, in{Kind: "time", Tbl: []tfield{{Name: "year", Inh: true, Num: num(2001)}, {Name: "month", Inh: true, Num: num(9)}, {Name: "day", Inh: true, Num: num(9)},
		{Name: "hour", Inh: true, Num: num(1)}, {Name: "min", Inh: true, Num: num(46)}, {Name: "sec", Inh: true, Num: num(40)}}})
	runCase(w, in{Kind: "time", Tbl: []tfield{{Name: "year", Num: num(2001)}, {Name: "month", Num: num(9)}, {Name: "day", Num: num(9)}, {Name: "hour", Inh: true, Num: num(0)}}})
	for _, t := range []int64{0, 86400 * 40, -1, 951782400, 951868799} {
		runCase(w, in{Kind: "datet", T: t})
	}
	// seeded C16-5: 0 and -0 in one function must stay two constants, in either order
	runCase(w, in{Kind: "ctx", Lits: []ctxLit{numLit(true, "0"), numLit(false, "0"), numLit(false, "0x0")}})
	runCase(w, in{Kind: "ctx", Lits: []ctxLit{numLit(false, "0"), numLit(true, "0"), numLit(true, "0.0")}})
	for _, f := range []float64{math.Pow(2, 53), math.Pow(2, 63), -math.Pow(2, 63), 1e15, 1e100, 0.1, math.Copysign(0, -1), 5e-324, math.MaxFloat64, 1e21, 123456789, 0.1 + 0.2} {
		runCase(w, in{Kind: "tostr", Bits: bitsOf(f)})
	}
}

var quoteAlpha = []byte{0, 1, 9, 10, 13, 27, 32, '"', '\'', '0', '1', '9', 'a', 'n', 'r', '\\', ']', '[', '=', 127, 128, 200, 254, 255}

func genQuote(w *lib.Writer, r *lib.Rand, tier string) {
	for _, a := range quoteAlpha {
		runCase(w, in{Kind: "quote", S: lib.Hex([]byte{a})})
	}
	for _, a := range quoteAlpha {
		for _, b := range quoteAlpha {
			runCase(w, in{Kind: "quote", S: lib.Hex([]byte{a, b})})
		}
	}
	n := 300
	if tier == "thorough" {
		n = 6000
	}
	for i := 0; i < n; i++ {
		var s []byte
		if r.Chance(50) {
			s = r.Bytes(r.Range(0, 40), nil)
		} else {
			s = r.Bytes(r.Range(0, 24), quoteAlpha)
		}
		runCase(w, in{Kind: "quote", S: lib.Hex(s)})
	}
}

func digitsOf(v, n int) []int {
	ds := make([]int, n)
	for i := n - 1; i >= 0; i-- {
		ds[i] = v % 10
		v /= 10
	}
	return ds
}

func randItem(r *lib.Rand) item {
	switch r.Pick(5, 3, 3, 2) {
	case 0:
		return item{K: "raw", B: r.Intn(256)}
	case 1:
		return item{K: "esc", B: int([]byte("abfnrtv\\\"'qz[ \x00\xff")[r.Intn(16)])}
	case 2:
		n := r.Range(1, 3)
		v := r.Intn([]int{10, 100, 256}[n-1])
		if r.Chance(8) {
			n, v = 3, r.Range(256, 999)
		}
		return item{K: "dec", Ds: digitsOf(v, n)}
	default:
		return item{K: "nl", Nl: r.Intn(4)}
	}
}

func genLiterals(w *lib.Writer, r *lib.Rand, tier string) {
	quotes := []int{'"', '\''}
	// every escape character, in both quote forms
	for _, q := range quotes {
		for c := 0; c < 256; c++ {
			if (c >= '0' && c <= '9') || c == 10 || c == 13 {
				continue
			}
			runCase(w, in{Kind: "short", Q: q, Items: []item{{K: "raw", B: 'a'}, {K: "esc", B: c}, {K: "raw", B: 'b'}}})
		}
	}
	// every decimal escape in its 1, 2, 3 digit forms, at the end / before a letter / before a digit
	for v := 0; v < 256; v++ {
		q := quotes[v&1]
		for n := 1; n <= 3; n++ {
			if (n == 1 && v > 9) || (n == 2 && v > 99) {
				continue
			}
			d := item{K: "dec", Ds: digitsOf(v, n)}
			runCase(w, in{Kind: "short", Q: q, Items: []item{d}})
			runCase(w, in{Kind: "short", Q: q, Items: []item{d, {K: "raw", B: 'x'}}})
			runCase(w, in{Kind: "short", Q: q, Items: []item{d, {K: "raw", B: '7'}}})
		}
	}
	for _, v := range []int{256, 300, 511, 512, 999} {
		runCase(w, in{Kind: "short", Q: '"', Items: []item{{K: "dec", Ds: digitsOf(v, 3)}}})
	}
	// every raw byte in both quote forms
	for _, q := range quotes {
		for b := 0; b < 256; b++ {
			runCase(w, in{Kind: "short", Q: q, Items: []item{{K: "raw", B: b}}})
		}
	}
	// backslash-newline in the four forms, with followers
	for _, q := range quotes {
		for nl := 0; nl < 4; nl++ {
			n := item{K: "nl", Nl: nl}
			for _, f := range [][]item{{}, {{K: "raw", B: 'x'}}, {{K: "raw", B: '1'}}, {n}, {{K: "nl", Nl: (nl + 1) & 3}}, {{K: "raw", B: 13}}, {{K: "raw", B: 10}}, {{K: "esc", B: 'n'}}} {
				runCase(w, in{Kind: "short", Q: q, Items: append([]item{{K: "raw", B: 'a'}, n}, f...)})
			}
		}
	}
	nr := 300
	if tier == "thorough" {
		nr = 6000
	}
	for i := 0; i < nr; i++ {
		its := make([]item, r.Range(0, 8))
		for k := range its {
			its[k] = randItem(r)
		}
		runCase(w, in{Kind: "short", Q: quotes[r.Intn(2)], Items: its})
	}
	// long brackets
	firsts := []string{"", "\n", "\r", "\r\n", "\n\r", "\n\n", "\r\r"}
	mids := []string{"", "a", "]", "]=", "]==", "]===", "]]", "]=]", "]==]", "]===]", "[[", "[=[", "\r", "\n", "\r\n", "\n\r", "\\n", "\x00", "\xff"}
	tails := []string{"", "]", "]=", "="}
	for lvl := 0; lvl <= 3; lvl++ {
		for _, f := range firsts {
			for _, m := range mids {
				for _, t := range tails {
					if tier == "thorough" || r.Chance(25) {
						runCase(w, in{Kind: "long", Lvl: lvl, S: hx(f + m + t)})
					}
				}
			}
		}
	}
	nl := 200
	if tier == "thorough" {
		nl = 4000
	}
	pieces := append(append([]string{}, mids[1:]...), "=", "x", "\r\n\r\n", "]]]", "]=]=]")
	for i := 0; i < nl; i++ {
		var sb strings.Builder
		if r.Chance(40) {
			sb.WriteString(firsts[r.Intn(len(firsts))])
		}
		for k := r.Range(0, 6); k > 0; k-- {
			if r.Chance(20) {
				sb.Write(r.Bytes(r.Range(1, 3), nil))
			} else {
				sb.WriteString(pieces[r.Intn(len(pieces))])
			}
		}
		runCase(w, in{Kind: "long", Lvl: r.Intn(4), S: hx(sb.String())})
	}
	// malformed / truncated literals: every proper prefix of a few literals and some fixed shapes
	for _, lit := range []string{`"ab\"c\65\n"`, "'x\\\r\ny\\'z'", "[==[a]=]b\r\n]==]", "[[a]b]]", "\"\\1\\12\\123\\1234\""} {
		for k := 1; k < len(lit); k++ {
			runCase(w, in{Kind: "lit", S: hx(lit[:k])})
		}
		runCase(w, in{Kind: "lit", S: hx(lit)})
	}
	for _, lit := range []string{"\"abc\n\"", "\"abc\r\"", "'abc", "\"abc'", "'abc\"", "[=x", "[==", "[=[a]]", "[==[a]=]", "[[a]=]", "[", "[a", "\"a\\", "'\\", "[[\n", "[[\r\n\n]]", "[=[]=]", "[[]]", "\"\"", "''", "[==[]==]x", "\"a\"b"} {
		runCase(w, in{Kind: "lit", S: hx(lit)})
	}
	// the first token of byte soup that starts like a string
	ns := 300
	if tier == "thorough" {
		ns = 6000
	}
	soup := []byte("\"'\\[]==\r\n0129anx \x00\xff")
	for i := 0; i < ns; i++ {
		var s []byte
		switch r.Intn(3) {
		case 0:
			s = []byte{'"'}
		case 1:
			s = []byte{'\''}
		default:
			s = append([]byte{'['}, []byte(strings.Repeat("=", r.Intn(3)))...)
			if r.Chance(85) {
				s = append(s, '[')
			}
		}
		for k := r.Range(0, 12); k > 0; k-- {
			if r.Chance(15) {
				s = append(s, byte(r.Intn(256)))
			} else {
				s = append(s, soup[r.Intn(len(soup))])
			}
		}
		runCase(w, in{Kind: "scan", S: lib.Hex(s)})
	}
}

// lexerEligible: the chunk `return <s>` is decided by s being one number token only when s has
// no blank and no sign (a '-' would make it an expression).
func lexerEligible(s []byte) bool {
	for _, c := range s {
		if c == ' ' || c == '\t' || c == '\n' || c == '\v' || c == '\f' || c == '\r' || c == '-' || c == '+' {
			return false
		}
	}
	return true
}

func sameNum(a float64, aok bool, b float64, bok bool) bool {
	if aok != bok {
		return false
	}
	if !aok {
		return true
	}
	return math.Float64bits(a) == math.Float64bits(b) || (a == 0 && b == 0)
}

// threeWay runs the readers on the Go side; agree=false when they differ.
func threeWay(s []byte) (accepted bool, agree bool) {
	t, tok := readNumber(nil, 0, 0, s)
	c, cok := readNumber(nil, 0, 1, s)
	agree = sameNum(t, tok, c, cok)
	accepted = tok || cok
	if lexerEligible(s) {
		l, lok := readNumber(nil, 0, 2, s)
		if !sameNum(t, tok, l, lok) {
			agree = false
		}
		accepted = accepted || lok
	}
	return
}

func numCases(w *lib.Writer, s []byte) {
	h := lib.Hex(s)
	runCase(w, in{Kind: "num", Rd: 0, S: h})
	runCase(w, in{Kind: "num", Rd: 1, S: h})
	if lexerEligible(s) {
		runCase(w, in{Kind: "num", Rd: 2, S: h})
	}
}

func randDigits(r *lib.Rand, n int) string {
	b := make([]byte, n)
	for i := range b {
		b[i] = byte('0' + r.Intn(10))
	}
	return string(b)
}

var blankSet = []string{" ", "\t", "\n", "\v", "\f", "\r", "  ", " \t\r\n"}

// randNumeral draws a well-formed unsigned numeral with the features the property names.
func randNumeral(r *lib.Rand) string {
	if r.Chance(25) {
		n := r.Range(1, 8)
		if r.Chance(15) {
			n = r.Range(14, 20)
		}
		hs := r.Bytes(n, []byte("0123456789abcdefABCDEF"))
		return []string{"0x", "0X"}[r.Intn(2)] + string(hs)
	}
	var sb strings.Builder
	ni := r.Range(0, 6)
	switch r.Intn(10) {
	case 0:
		ni = r.Range(15, 25)
	case 1:
		ni = r.Range(300, 320)
	}
	if r.Chance(30) {
		sb.WriteString(strings.Repeat("0", r.Range(1, 3)))
	}
	sb.WriteString(randDigits(r, ni))
	nf := 0
	if r.Chance(55) {
		nf = r.Range(0, 6)
		if r.Chance(10) {
			nf = r.Range(17, 30)
		}
		if ni == 0 && sb.Len() == 0 && nf == 0 {
			nf = 1
		}
		sb.WriteString("." + randDigits(r, nf))
	} else if sb.Len() == 0 {
		sb.WriteString(randDigits(r, 1))
	}
	if r.Chance(45) {
		sb.WriteString([]string{"e", "E"}[r.Intn(2)])
		sb.WriteString([]string{"", "+", "-"}[r.Intn(3)])
		switch r.Intn(6) {
		case 0:
			sb.WriteString(strconv.Itoa(r.Range(290, 330)))
		case 1:
			sb.WriteString("00" + strconv.Itoa(r.Range(0, 20)))
		default:
			sb.WriteString(strconv.Itoa(r.Range(0, 30)))
		}
	}
	return sb.String()
}

func genNumerals(w *lib.Writer, r *lib.Rand, tier string) {
	// enumerated spellings: every string over the alphabet up to the length bound is run through
	// the readers on the Go side; disagreements and a sample go through the model
	alpha := []byte("019.ex- ")
	maxLen := 6
	accRate, rejRate := 20, 400 // 1 in N
	if tier == "thorough" {
		alpha = []byte("019.eEx-+ a")
		accRate, rejRate = 6, 60
	}
	total, disagreements := 0, 0
	cur := make([]byte, 0, maxLen)
	var rec func(depth int)
	rec = func(depth int) {
		if depth > 0 {
			total++
			acc, agree := threeWay(cur)
			if !agree {
				disagreements++
				if disagreements <= 200 {
					numCases(w, cur)
				}
			} else if (acc && r.Intn(accRate) == 0) || (!acc && r.Intn(rejRate) == 0) {
				numCases(w, cur)
			}
		}
		if depth == maxLen {
			return
		}
		for _, c := range alpha {
			cur = append(cur, c)
			rec(depth + 1)
			cur = cur[:len(cur)-1]
		}
	}
	rec(0)
	w.Meta.GoOnlyChecked += total
	w.Meta.Extra["numeral_spellings_enumerated"] = total
	w.Meta.Extra["numeral_reader_disagreements"] = disagreements
	w.Meta.Extra["numeral_alphabet"] = string(alpha)

	// fixed list of unusual spellings
	for _, s := range []string{"infinity", "0x1p-2", "1e+", "1e-", "1e+5x", "0X1f", "1E5", " \t\n\v\f\r1\r\f\v\n\t ", "\xef\xbc\x91", "1\x00", "\x001",
		"1 2", "0x 1", "- 1", "+-1", "+0x10", "--1", "", " ", ".", "e1", ".e1", "5.", ".5", "5.e1", "0xg", "1e309", "1e-400", "4.9e-324", "2.4e-324",
		"2.5e-324", "2.4703282292062327e-324", "2.4703282292062328e-324", "17976931348623158e292", "17976931348623159e292", "9007199254740993", "9007199254740992.5", "0.1",
		"123456789012345678901234567890", "0x10000000000000000", "0xfffffffffffff800", "0xfffffffffffffc00", "0x1fffffffffffff", "0x20000000000001",
		"-0", "+0", "-0x0", "00", "000.000", "1e0000000000000000000001", "1e99999999999999999999", "1e-99999999999999999999", "0e99999999999999999999", "1.e1", "0x", "0xx1", "00x1", "1x1", "0x1e+1", "0x1e"} {
		numCases(w, []byte(s))
	}
	// confusable blanks: numerals and near-numerals wrapped in every single byte outside the
	// printable range and in the UTF-8 encodings of Unicode spaces / BOM (Go's unicode-aware
	// trimming would accept what C isspace does not), through all three readers
	var pool []string
	for b := 0; b <= 0x20; b++ {
		pool = append(pool, string([]byte{byte(b)}))
	}
	for b := 0x7f; b <= 0xff; b++ {
		pool = append(pool, string([]byte{byte(b)}))
	}
	pool = append(pool, "\xc2\xa0", "\xc2\x85", "\xe1\x9a\x80", "\xe2\x80\x80", "\xe2\x80\x81", "\xe2\x80\x82", "\xe2\x80\x83",
		"\xe2\x80\x84", "\xe2\x80\x85", "\xe2\x80\x86", "\xe2\x80\x87", "\xe2\x80\x88", "\xe2\x80\x89", "\xe2\x80\x8a", "\xe2\x80\x8b",
		"\xe2\x80\xa8", "\xe2\x80\xa9", "\xe2\x80\xaf", "\xe2\x81\x9f", "\xe3\x80\x80", "\xef\xbb\xbf", "\xe1\xa0\x8e", " \xc2\xa0", "\xe3\x80\x80 ")
	cores := []string{"10", "0x1f", "-1.5e1", "1e", "7"}
	for i, bl := range pool {
		for pos := 0; pos < 3; pos++ {
			for ci, core := range cores {
				if tier != "thorough" && ci != (i+pos)%len(cores) {
					continue
				}
				str := []string{bl + core, core + bl, bl + core + bl}[pos]
				numCases(w, []byte(str))
			}
		}
	}
	for i, bl := range pool { // also with an explicit base, where only the trimming differs
		if tier == "thorough" || i%4 == 0 {
			runCase(w, in{Kind: "numb", S: hx(bl + "11" + bl), Base: 2 + i%35})
		}
	}
	// long numerals: more than 800 integer digits, more than 800 leading fraction zeros, exponents
	// beyond 10000 (limits of strconv's internal decimal): the value must not depend on the length
	nlong := 10
	if tier == "thorough" {
		nlong = 120
	}
	// the evaluator's exact arithmetic on a 12000-digit numeral costs ~90 s of coqc each: the quick tier
	// keeps the exponent just beyond 10000 (the witness of /repo 774c46e) and a 3000-digit integer part
	nbig, nbig2 := 10050, 3000
	if tier == "thorough" {
		nbig, nbig2 = 12000, 12000
	}
	longs := []string{
		"1" + strings.Repeat("0", 800) + "e-800", strings.Repeat("9", 850) + "e-850", "1" + strings.Repeat("0", 799) + "e-799",
		"0." + strings.Repeat("0", nbig) + "1e" + strconv.Itoa(nbig+1), "1" + strings.Repeat("0", nbig2) + "e-" + strconv.Itoa(nbig2), "-" + strings.Repeat("0", 900) + "5" + strings.Repeat("0", 900) + ".5e-900",
		"0." + strings.Repeat("0", 900) + "25e+901", strings.Repeat("1", 1300), "1e" + strings.Repeat("0", 900) + "2",
	}
	for i := 0; i < nlong; i++ {
		n := r.Range(780, 1400)
		k := r.Range(1, 30)
		switch r.Intn(4) {
		case 0: // long integer part, exponent brings it back
			longs = append(longs, randDigits(r, k)+strings.Repeat("0", n)+"e-"+strconv.Itoa(n+r.Range(-3, 3)))
		case 1: // long run of fraction zeros
			longs = append(longs, "."+strings.Repeat("0", n)+randDigits(r, k)+"e"+strconv.Itoa(n+r.Range(-3, 3)))
		case 2: // all digits significant
			longs = append(longs, "1"+randDigits(r, n)+"."+randDigits(r, k)+"E-"+strconv.Itoa(n-r.Intn(20)))
		case 3: // leading zeros before a long integer part
			longs = append(longs, strings.Repeat("0", r.Range(1, 900))+"7"+randDigits(r, n)+"e-"+strconv.Itoa(n))
		}
	}
	for i, s := range longs {
		if tier != "thorough" && len(s) > 5000 {
			// 12000-digit numerals cost the evaluator ~10 s and 600 MB each (exact 40000-bit arithmetic):
			// the quick tier reads each through one reader only (all three end in parseNumber)
			runCase(w, in{Kind: "num", Rd: 2 - i%2, S: hx(s)})
			continue
		}
		numCases(w, []byte(s))
	}
	// structured numerals: well-formed, decorated, and mutated
	ns := 450
	if tier == "thorough" {
		ns = 8000
	}
	junk := []string{"_", "p", "x", ".", "e", " ", "-", "+", "f", "\x00", "\xa0"}
	for i := 0; i < ns; i++ {
		s := randNumeral(r)
		switch r.Intn(5) {
		case 0, 1: // as is
		case 2: // sign and blanks
			s = blankSet[r.Intn(len(blankSet))] + []string{"", "-", "+"}[r.Intn(3)] + s
			if r.Chance(70) {
				s += blankSet[r.Intn(len(blankSet))]
			}
		case 3:
			s = []string{"-", "+", " ", ""}[r.Intn(4)] + s + []string{"", " ", "\n"}[r.Intn(3)]
		case 4: // one junk character somewhere
			p := r.Intn(len(s) + 1)
			s = s[:p] + junk[r.Intn(len(junk))] + s[p:]
		}
		numCases(w, []byte(s))
	}
	// tonumber with an explicit base
	digs := "0123456789abcdefghijklmnopqrstuvwxyzABCDEFGHIJKLMNOPQRSTUVWXYZ"
	nb := 10
	if tier == "thorough" {
		nb = 120
	}
	for b := 2; b <= 36; b++ {
		bound := new(strings.Builder)
		bound.WriteString(strconv.FormatInt(math.MaxInt64, b))
		for _, s := range []string{bound.String(), "-" + bound.String(), strconv.FormatUint(1<<63, b), "-" + strconv.FormatUint(1<<63, b),
			"-" + strconv.FormatUint(1<<63+1, b), string(digs[b-1]), string(digs[b%36]), "10", " 10 ", "\t-10\r", "+10", "1.0", "0x10", "", "1e2",
			"--10", "+-10", "-+10", "++1", "- 10", "-", "+", "0X1f", "-0x10", "0x-10", "0x+1", "0x", "+0x", "00x1", strconv.FormatUint(math.MaxUint64, b),
			"-" + strconv.FormatUint(math.MaxUint64, b), "1" + strings.Repeat("0", 70), strings.Repeat(string(digs[b-1]), 41)} {
			runCase(w, in{Kind: "numb", S: hx(s), Base: b})
		}
		for i := 0; i < nb; i++ {
			n := r.Range(1, 10)
			var sb strings.Builder
			if r.Chance(25) {
				sb.WriteString(blankSet[r.Intn(len(blankSet))])
			}
			if r.Chance(25) {
				sb.WriteString([]string{"-", "+"}[r.Intn(2)])
			}
			for k := 0; k < n; k++ {
				lim := b
				if b > 10 && r.Chance(50) {
					lim = b // letters in either case
				}
				d := r.Intn(lim)
				if r.Chance(6) {
					d = b // one digit too large
				}
				c := digs[d%36]
				if d >= 10 && r.Chance(50) {
					c = digs[36+(d-10)%26]
				}
				sb.WriteByte(c)
			}
			if r.Chance(25) {
				sb.WriteString(blankSet[r.Intn(len(blankSet))])
			}
			runCase(w, in{Kind: "numb", S: hx(sb.String()), Base: b})
		}
	}
}

// genBases: tonumber's base argument itself (range check), a number as first argument, and the
// extent of a number token in running text.
func genBases(w *lib.Writer, r *lib.Rand, tier string) {
	for _, b := range []int{-1, 0, 1, 2, 10, 16, 36, 37, 64, 100} {
		for _, s := range []string{"1", "0b101", "1_0", "0x10", "10", ""} {
			runCase(w, in{Kind: "numberr", S: hx(s), Base: b})
		}
	}
	for _, z := range []int64{0, 7, 10, -10, 11, 255, 101, 1 << 53, -(1 << 40), 123456789} {
		for _, b := range []int{2, 8, 10, 16, 36} {
			runCase(w, in{Kind: "numbn", Z: z, Base: b})
		}
	}
	rests := []string{"", "+1", "-1", "+", "-", " ", ")", ",", "*2", "..", ".5", ".", "e", "E1", "x", "_", "\n", "]", "==1", "p1", "\x00", "\xff", "and"}
	us := []string{"0x1e", "0xE", "0x1E", "0xe", "0Xfe", "1e5", "1E+5", "5", "5.", ".5", "0", "00", "1e", "0x", "3.14", "0x10"}
	for _, u := range us {
		for _, rest := range rests {
			runCase(w, in{Kind: "numthen", S: hx(u), Rest: hx(rest)})
		}
	}
	n := 200
	if tier == "thorough" {
		n = 4000
	}
	for i := 0; i < n; i++ {
		u := randNumeral(r)
		if len(u) > 40 {
			u = u[:40]
		}
		runCase(w, in{Kind: "numthen", S: hx(u), Rest: hx(rests[r.Intn(len(rests))])})
	}
}

func genFloats(w *lib.Writer, r *lib.Rand, tier string) {
	for e := 50; e <= 65; e++ {
		for _, d := range []float64{-1, 0, 1} {
			f := math.Pow(2, float64(e)) + d
			runCase(w, in{Kind: "tostr", Bits: bitsOf(f)})
			runCase(w, in{Kind: "tostr", Bits: bitsOf(-f)})
		}
	}
	for _, f := range []float64{0, 1, -1, 10, 100, 1e5, 1e6, 1e20, 1e21, 1e22, 1e-4, 1e-5, 1e-7, 0.5, 1.5, -2.75, 1 / 3.0, 2.2250738585072014e-308, 2.225073858507201e-308,
		4.9e-324, 1.7976931348623157e308, 9007199254740991, 9007199254740993, 4503599627370495.5, 123456.789e3, 1e15 + 0.5} {
		runCase(w, in{Kind: "tostr", Bits: bitsOf(f)})
	}
	n := 500
	if tier == "thorough" {
		n = 12000
	}
	for i := 0; i < n; i++ {
		var f float64
		switch r.Intn(5) {
		case 0: // any finite bit pattern
			for {
				f = math.Float64frombits(r.U64())
				if !math.IsNaN(f) && !math.IsInf(f, 0) {
					break
				}
			}
		case 1: // integers of every magnitude
			f = float64(int64(r.U64()) >> uint(r.Intn(63)))
		case 2: // short decimals
			f = float64(r.Range(-100000, 100000)) / math.Pow(10, float64(r.Intn(8)))
		case 3: // moderate exponent
			f = (float64(r.U64()>>11) / (1 << 53)) * math.Pow(10, float64(r.Range(-30, 30)))
			if r.Bool() {
				f = -f
			}
		case 4: // subnormal
			f = math.Float64frombits(r.U64() >> uint(12+r.Intn(52)))
		}
		runCase(w, in{Kind: "tostr", Bits: bitsOf(f)})
	}
}

func daysFromCivil(y, m, d int64) int64 {
	if m <= 2 {
		y--
	}
	era := y / 400
	if y < 0 && y%400 != 0 {
		era--
	}
	yoe := y - era*400
	mm := m + 9
	if m > 2 {
		mm = m - 3
	}
	doy := (153*mm+2)/5 + d - 1
	doe := yoe*365 + yoe/4 - yoe/100 + doy
	return era*146097 + doe - 719468
}

func num(v int64) *int64 { return &v }

func genDates(w *lib.Writer, r *lib.Rand, tier string) {
	const span = int64(60 * 366 * 86400)
	// the whole grid is checked on the Go side: os.time(os.date('*t', t)) == t
	step := int64(9973)
	every := 260
	if tier == "thorough" {
		every = 12
	}
	gridN, gridBad, k := 0, 0, 0
	for t := -span; t <= span; t += step {
		gridN++
		k++
		res, _, _ := callFn(field("os", "date"), lluaStr("*t"), lluaNum(t))
		ok := false
		if len(res) == 1 {
			res2, _, _ := callFn(field("os", "time"), res[0])
			if v, isn := oneNumber(res2); isn && v == float64(t) {
				ok = true
			}
		}
		if !ok {
			gridBad++
			if gridBad <= 50 {
				runCase(w, in{Kind: "datet", T: t})
			}
		} else if k%every == 0 {
			runCase(w, in{Kind: "datet", T: t})
		}
	}
	w.Meta.GoOnlyChecked += gridN
	w.Meta.Extra["date_grid_points"] = gridN
	w.Meta.Extra["date_grid_roundtrip_failures"] = gridBad
	// leap days and year boundaries
	for y := int64(1910); y <= 2030; y++ {
		if tier != "thorough" && y%4 != 0 && y%7 != 0 {
			continue
		}
		for _, md := range [][2]int64{{2, 28}, {2, 29}, {3, 1}, {12, 31}, {1, 1}} {
			d := daysFromCivil(y, md[0], md[1])
			runCase(w, in{Kind: "datet", T: d * 86400})
			runCase(w, in{Kind: "datet", T: d*86400 + 86399})
			runCase(w, in{Kind: "strf", S: hx("%U %W %j %w %a"), T: d*86400 + 43200})
		}
	}
	n := 300
	if tier == "thorough" {
		n = 6000
	}
	for i := 0; i < n; i++ {
		runCase(w, in{Kind: "datet", T: int64(r.U64()%uint64(2*span)) - span})
	}
	// every table directive alone, some unsupported ones, and random formats
	dirs := "aAbBcdFHIjmMpPSUwWxXyYzZ"
	nt := 8
	if tier == "thorough" {
		nt = 80
	}
	for _, d := range dirs + "qeU%" {
		for i := 0; i < nt; i++ {
			t := int64(r.U64()%uint64(2*span)) - span
			runCase(w, in{Kind: "strf", S: hx("%" + string(d)), T: t})
		}
	}
	nf := 200
	if tier == "thorough" {
		nf = 4000
	}
	for i := 0; i < nf; i++ {
		var sb strings.Builder
		for k := r.Range(0, 8); k > 0; k-- {
			switch r.Pick(6, 3, 1, 1, 1) {
			case 0:
				sb.WriteString("%" + string(dirs[r.Intn(len(dirs))]))
			case 1:
				sb.WriteByte([]byte(" -/:,Tx0")[r.Intn(8)])
			case 2:
				sb.WriteString("%%")
			case 3:
				sb.WriteString("%" + string([]byte("qeUk!")[r.Intn(5)]))
			case 4:
				sb.WriteByte(byte(r.Intn(256)))
			}
		}
		if r.Chance(10) {
			sb.WriteByte('%')
		}
		runCase(w, in{Kind: "strf", S: hx(sb.String()), T: int64(r.U64()%uint64(2*span)) - span})
	}
	// a format is scanned in a loop, whatever its length: long runs of "%%" (in a child process: the
	// recursion this used to be overflowed the Go stack, which no pcall can catch)
	for _, n := range []int{100000, 6000000} {
		id := w.NextID()
		runCase(w, in{Kind: "strf", S: hx(strings.Repeat("%%", 3) + "%Y"), T: int64(n)})
		if msg := runChild(120*time.Second, "pctpct", strconv.Itoa(n)); msg != "" {
			w.GoFail(id, fmt.Sprintf("os.date of %d pairs of %%%% did not return that many percent signs (child process): %s", n, msg))
		}
		w.Meta.GoOnlyChecked++
	}
	// os.time on tables: fields in and out of range, omitted time of day, string values
	nm := 150
	if tier == "thorough" {
		nm = 3000
	}
	strs := []string{"5", "05", " 7", "010", "0", "00", "0x10", "0X10", "abc", "", "12 ", "1e1", "-3", "007",
		"0e0", "0.", "0 ", "0\n", "00E2", "1e0", "\t3\r", "tenth", "08", "0.0", "+4", "0x", "1_0"}
	for i := 0; i < nm; i++ {
		var tb []tfield
		add := func(name string, lo, hi int, optional bool) {
			if optional && r.Chance(25) {
				return
			}
			if r.Chance(12) {
				tb = append(tb, tfield{Name: name, IsS: true, Str: hx(strs[r.Intn(len(strs))])})
				return
			}
			v := int64(r.Range(lo, hi))
			if r.Chance(15) {
				v = int64(r.Range(-40, 80))
			}
			tb = append(tb, tfield{Name: name, Num: num(v)})
		}
		add("year", 1910, 2030, false)
		add("month", 1, 12, false)
		add("day", 1, 31, false)
		add("hour", 0, 23, true)
		add("min", 0, 59, true)
		add("sec", 0, 59, true)
		if r.Chance(25) { // some fields come from the metatable's __index table
			for i := range tb {
				if r.Chance(50) {
					tb[i].Inh = true
				}
			}
			if r.Chance(30) { // an own field shadows an inherited one of the same name
				sh := tb[r.Intn(len(tb))]
				sh.Inh = true
				sh.IsS, sh.IsB, sh.Num = false, false, num(int64(r.Range(1, 12)))
				own := false
				for _, f := range tb {
					if f.Name == sh.Name && !f.Inh {
						own = true
					}
				}
				if own {
					tb = append(tb, sh)
				}
			}
		}
		switch r.Intn(12) { // a required field missing or not a number: os.time must raise
		case 0:
			tb = tb[1:]
		case 1:
			tb = append(tb[:1], tb[2:]...)
		case 2:
			tb = append(tb[:2], tb[3:]...)
		case 3:
			i := r.Intn(len(tb))
			tb[i] = tfield{Name: tb[i].Name, IsB: true}
		}
		runCase(w, in{Kind: "time", Tbl: tb})
	}
}

func replay(w *lib.Writer, path string) {
	b, err := os.ReadFile(path)
	if err != nil {
		panic(err)
	}
	var f struct {
		Input in `json:"input"`
	}
	if err := json.Unmarshal(b, &f); err != nil {
		panic(err)
	}
	if f.Input.Kind == "" {
		panic("replay file has no input.kind")
	}
	runCase(w, f.Input)
}

// safeItem draws a well-formed item of a short string in quotes q (so that the literal cannot end
// early or change the shape of the chunk it stands in).
func safeItem(r *lib.Rand, q int) item {
	switch r.Pick(5, 3, 3, 1) {
	case 0:
		for {
			b := r.Intn(256)
			if b != q && b != '\\' && b != 10 && b != 13 {
				return item{K: "raw", B: b}
			}
		}
	case 1:
		return item{K: "esc", B: int([]byte("abfnrtv\\\"'")[r.Intn(10)])}
	case 2:
		return item{K: "dec", Ds: digitsOf(r.Intn(256), 3)}
	default:
		return item{K: "nl", Nl: r.Intn(4)}
	}
}

func numLit(neg bool, text string) ctxLit { return ctxLit{Neg: neg, Src: hx(text)} }
func strLit(src string) ctxLit            { return ctxLit{Str: true, Src: hx(src)} }

// genContext: literals read IN CONTEXT. A literal's value must not depend on which other literals
// the same function contains (they share its constant table).
func genContext(w *lib.Writer, r *lib.Rand, tier string) {
	// spellings of zero, signed and unsigned: every ordered pair (both orders), each zero seen
	// through 1/v and tostring(v)
	zeros := []string{"0", "0.0", "0e0", "0x0", "00", ".0", "0E5"}
	var zl []ctxLit
	for _, z := range zeros {
		zl = append(zl, numLit(false, z), numLit(true, z))
	}
	for _, a := range zl {
		for _, b := range zl {
			runCase(w, in{Kind: "ctx", Lits: []ctxLit{a, b}})
		}
	}
	// groups of spellings of one value (equal under ==), and of one string
	groups := [][]ctxLit{
		zl,
		{numLit(false, "1"), numLit(false, "1.0"), numLit(false, "0x1"), numLit(false, "1e0"), numLit(false, "10e-1"), numLit(false, "001"), numLit(true, "1"), numLit(true, "0x1")},
		{numLit(false, "255"), numLit(false, "0xff"), numLit(false, "0XFF"), numLit(false, "2.55e2"), numLit(false, "255.0"), numLit(true, "255")},
		{numLit(false, "0.5"), numLit(false, ".5"), numLit(false, "5e-1"), numLit(false, "0.50"), numLit(true, ".5")},
		{numLit(false, "1e-400"), numLit(true, "1e-400"), numLit(false, "0"), numLit(true, "0"), numLit(false, "4.9e-324"), numLit(true, "2e-324")},
		{numLit(false, "9007199254740993"), numLit(false, "9007199254740992"), numLit(false, "0x20000000000001"), numLit(false, "9.007199254740992e15")},
		{strLit(`"a"`), strLit(`'a'`), strLit(`"\97"`), strLit(`[[a]]`), strLit("[==[\na]==]"), strLit(`"\097"`)},
		{strLit(`"0"`), strLit(`'0'`), strLit(`"\48"`), numLit(false, "0"), numLit(true, "0"), strLit(`"-0"`), strLit(`""`), strLit(`[[]]`)},
		{strLit("\"\\\n\""), strLit("'\\n'"), strLit("[[\n\n]]"), strLit("\"\\10\""), strLit("[[\r\n\r\n]]")},
	}
	n3 := 150
	if tier == "thorough" {
		n3 = 3000
	}
	for i := 0; i < n3; i++ {
		g := groups[r.Intn(len(groups))]
		k := r.Range(2, 3)
		ls := make([]ctxLit, k)
		for j := range ls {
			ls[j] = g[r.Intn(len(g))]
		}
		if r.Chance(20) { // a literal of another group in between
			g2 := groups[r.Intn(len(groups))]
			ls[r.Intn(k)] = g2[r.Intn(len(g2))]
		}
		runCase(w, in{Kind: "ctx", Lits: ls})
	}
	// random literals, 2-3 per chunk: the single-literal round trips of the other streams, in company
	nr := 250
	if tier == "thorough" {
		nr = 5000
	}
	for i := 0; i < nr; i++ {
		k := r.Range(2, 3)
		ls := make([]ctxLit, k)
		for j := range ls {
			switch r.Pick(5, 3, 2, 1) {
			case 0:
				ls[j] = numLit(r.Chance(30), randNumeral(r))
			case 1:
				q := []int{'"', '\''}[r.Intn(2)]
				its := make([]item, r.Range(0, 5))
				for x := range its {
					its[x] = safeItem(r, q)
				}
				// a decimal escape is always written with three digits here
				ls[j] = ctxLit{Str: true, Src: lib.Hex(renderItems(q, its))}
			case 2:
				body := r.Bytes(r.Range(0, 6), []byte("ab]=\r\n[\x00\xff"))
				lvl := 3 // no run of three '=' can be formed with the closing bracket from this alphabet? use a level the body cannot close
				for strings.Contains(string(body)+"]", "]"+strings.Repeat("=", lvl)+"]") {
					lvl++
				}
				ls[j] = ctxLit{Str: true, Src: lib.Hex(longSrc(lvl, body))}
			default:
				ls[j] = numLit(r.Chance(50), zeros[r.Intn(len(zeros))])
			}
		}
		if j := r.Intn(k); r.Chance(50) && j > 0 { // repeat an earlier literal verbatim
			ls[j] = ls[0]
		}
		runCase(w, in{Kind: "ctx", Lits: ls})
	}
	// a malformed numeral anywhere makes the chunk fail
	for _, bad := range []string{"1e", "0x", "3x", "1..2"} {
		runCase(w, in{Kind: "ctx", Lits: []ctxLit{numLit(false, "0"), numLit(false, bad)}})
		runCase(w, in{Kind: "ctx", Lits: []ctxLit{numLit(true, bad), strLit(`"a"`)}})
	}
}
