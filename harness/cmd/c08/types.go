package main

import (
	"bytes"
	"encoding/hex"
	"encoding/json"
	"fmt"
	"strings"

	"verifh/lib"
)

// HB is a byte string that travels as hex in JSON (replay files, samples).
type HB []byte

func (h HB) MarshalJSON() ([]byte, error) { return json.Marshal(hex.EncodeToString(h)) }
func (h *HB) UnmarshalJSON(b []byte) error {
	var s string
	if err := json.Unmarshal(b, &s); err != nil {
		return err
	}
	d, err := hex.DecodeString(s)
	*h = d
	return err
}

// model token type codes (coq/Front/Lexer.v); single-character tokens carry their byte value
const (
	mAnd = 257 + iota
	mBreak
	mDo
	mElse
	mElseIf
	mEnd
	mFalse
	mFor
	mFunction
	mIf
	mIn
	mLocal
	mNil
	mNot
	mOr
	mReturn
	mRepeat
	mThen
	mTrue
	mUntil
	mWhile
	mGoto
	mEqeq
	mNeq
	mLte
	mGte
	m2Comma
	m3Comma
	m2Colon
	mIdent
	mNumber
	mString
)

var symText = map[int]string{
	'+': "+", '-': "-", '*': "*", '/': "/", '%': "%", '^': "^", '#': "#",
	mEqeq: "==", mNeq: "~=", mLte: "<=", mGte: ">=", '<': "<", '>': ">", '=': "=",
	'(': "(", ')': ")", '{': "{", '}': "}", '[': "[", ']': "]", ';': ";", ':': ":", ',': ",", '.': ".",
	m2Comma: "..", m3Comma: "...", m2Colon: "::",
}

// zn prints a small non-negative number by its name in Front/ByteNames.v (x00..xff): Coq elaborates
// an identifier about three times faster than a Z numeral; everything else is a numeral.
func zn(n int) string {
	if 0 <= n && n < 256 {
		return fmt.Sprintf("x%02x", n)
	}
	return lib.CoqZ(int64(n))
}

// cb prints a byte string as a list of byte names.
func cb(b []byte) string {
	if len(b) == 0 {
		return "[]"
	}
	var sb strings.Builder
	sb.Grow(4*len(b) + 2)
	sb.WriteByte('[')
	for i, c := range b {
		if i > 0 {
			sb.WriteByte(';')
		}
		sb.WriteString(hexName[c])
	}
	sb.WriteByte(']')
	return sb.String()
}

var hexName = func() (t [256]string) {
	for i := range t {
		t[i] = fmt.Sprintf("x%02x", i)
	}
	return
}()

var modelTypeName = map[int]string{mAnd: "TAnd", mBreak: "TBreak", mDo: "TDo", mElse: "TElse", mElseIf: "TElseIf", mEnd: "TEnd",
	mFalse: "TFalse", mFor: "TFor", mFunction: "TFunction", mIf: "TIf", mIn: "TIn", mLocal: "TLocal", mNil: "TNil", mNot: "TNot",
	mOr: "TOr", mReturn: "TReturn", mRepeat: "TRepeat", mThen: "TThen", mTrue: "TTrue", mUntil: "TUntil", mWhile: "TWhile",
	mGoto: "TGoto", mEqeq: "TEqeq", mNeq: "TNeq", mLte: "TLte", mGte: "TGte", m2Comma: "T2Comma", m3Comma: "T3Comma",
	m2Colon: "T2Colon", mIdent: "TIdent", mNumber: "TNumber", mString: "TString"}

// tyName prints a model token type: a character code by byte name, a named type by its constant
func tyName(ty int) string {
	if s, ok := modelTypeName[ty]; ok {
		return s
	}
	return zn(ty)
}

// ---- separators ----

var nlText = map[string]string{"NlLF": "\n", "NlCR": "\r", "NlCRLF": "\r\n", "NlLFCR": "\n\r"}
var nlKinds = []string{"NlLF", "NlCR", "NlCRLF", "NlLFCR"}

// SepItem mirrors Render.sepitem: blank | nl | line | block
type SepItem struct {
	K    string `json:"k"`
	C    int    `json:"c,omitempty"`
	NL   string `json:"nl,omitempty"`
	Text HB     `json:"text,omitempty"`
	Lvl  int    `json:"lvl,omitempty"`
}

func openBracket(lvl int) string  { return "[" + strings.Repeat("=", lvl) + "[" }
func closeBracket(lvl int) string { return "]" + strings.Repeat("=", lvl) + "]" }

func (s SepItem) bytes() []byte {
	switch s.K {
	case "blank":
		return []byte{byte(s.C)}
	case "nl":
		return []byte(nlText[s.NL])
	case "line":
		return []byte("--" + string(s.Text) + nlText[s.NL])
	case "block":
		return []byte("--" + openBracket(s.Lvl) + string(s.Text) + closeBracket(s.Lvl))
	}
	panic("sep kind " + s.K)
}

func (s SepItem) coq() string {
	switch s.K {
	case "blank":
		return "SpBlank " + zn(s.C)
	case "nl":
		return "SpNl " + s.NL
	case "line":
		if n := len(s.Text); n > 64 && bytes.Count(s.Text, s.Text[:1]) == n { // padding: one byte repeated
			return fmt.Sprintf("SpLine (repeat %s (Z.to_nat %d)) %s", zn(int(s.Text[0])), n, s.NL)
		}
		return fmt.Sprintf("SpLine %s %s", cb(s.Text), s.NL)
	case "block":
		return fmt.Sprintf("SpBlock %d %s", s.Lvl, cb(s.Text))
	}
	panic("sep kind " + s.K)
}

func (s SepItem) hasNewline() bool {
	switch s.K {
	case "nl", "line":
		return true
	case "block":
		return strings.ContainsAny(string(s.Text), "\n\r")
	}
	return false
}

func sepBytes(s []SepItem) []byte {
	var b []byte
	for _, i := range s {
		b = append(b, i.bytes()...)
	}
	return b
}

func sepCoq(s []SepItem) string {
	it := make([]string, len(s))
	for i, x := range s {
		it[i] = x.coq()
	}
	return lib.CoqList(it)
}

// ---- lexemes ----

// SItem mirrors Render.sitem: char | esc | escnl | dec
type SItem struct {
	K  string `json:"k"`
	C  int    `json:"c,omitempty"`
	NL string `json:"nl,omitempty"`
	D  [3]int `json:"d,omitempty"`
}

func (s SItem) bytes() []byte {
	switch s.K {
	case "char":
		return []byte{byte(s.C)}
	case "esc":
		return []byte{'\\', byte(s.C)}
	case "escnl":
		return []byte("\\" + nlText[s.NL])
	case "dec":
		return []byte{'\\', byte('0' + s.D[0]), byte('0' + s.D[1]), byte('0' + s.D[2])}
	}
	panic("sitem kind " + s.K)
}

func (s SItem) coq() string {
	switch s.K {
	case "char":
		return "SiChar " + zn(s.C)
	case "esc":
		return "SiEsc " + zn(s.C)
	case "escnl":
		return "SiEscNl " + s.NL
	case "dec":
		return fmt.Sprintf("SiDec %s %s %s", zn(s.D[0]), zn(s.D[1]), zn(s.D[2]))
	}
	panic("sitem kind " + s.K)
}

// Lexeme mirrors Render.lexeme: name | num | str | long | sym.
// NoNL: no line end may precede it (the "(" of call arguments: Lua 5.1 rejects it as ambiguous).
type Lexeme struct {
	K     string  `json:"k"`
	S     HB      `json:"s,omitempty"`     // name / numeral / long-string body
	Q     int     `json:"q,omitempty"`     // quote of a short string
	Items []SItem `json:"items,omitempty"` // short string contents
	Lvl   int     `json:"lvl,omitempty"`
	Ty    int     `json:"ty,omitempty"` // sym: model token type
	NoNL  bool    `json:"nonl,omitempty"`
}

func (l Lexeme) bytes() []byte {
	switch l.K {
	case "name", "num":
		return []byte(l.S)
	case "str":
		b := []byte{byte(l.Q)}
		for _, i := range l.Items {
			b = append(b, i.bytes()...)
		}
		return append(b, byte(l.Q))
	case "long":
		return []byte(openBracket(l.Lvl) + string(l.S) + closeBracket(l.Lvl))
	case "sym":
		return []byte(symText[l.Ty])
	}
	panic("lexeme kind " + l.K)
}

func (l Lexeme) coq() string {
	switch l.K {
	case "name":
		return "LxName " + cb(l.S)
	case "num":
		return "LxNumber " + cb(l.S)
	case "str":
		it := make([]string, len(l.Items))
		for i, x := range l.Items {
			it[i] = x.coq()
		}
		return fmt.Sprintf("LxString %s %s", zn(l.Q), lib.CoqList(it))
	case "long":
		return fmt.Sprintf("LxLong %d %s", l.Lvl, cb(l.S))
	case "sym":
		return "LxSym " + tyName(l.Ty)
	}
	panic("lexeme kind " + l.K)
}

// Item = separator + lexeme; Prog = items + trailing separator (Render.render)
type Item struct {
	Sep []SepItem `json:"sep"`
	Lx  Lexeme    `json:"lx"`
}

type Prog struct {
	Items   []Item    `json:"items"`
	Trailer []SepItem `json:"trailer"`
}

func (p Prog) bytes() []byte {
	var b []byte
	for _, it := range p.Items {
		b = append(b, sepBytes(it.Sep)...)
		b = append(b, it.Lx.bytes()...)
	}
	return append(b, sepBytes(p.Trailer)...)
}

func (p Prog) coqItems() string {
	it := make([]string, len(p.Items))
	for i, x := range p.Items {
		it[i] = "(" + sepCoq(x.Sep) + ", " + x.Lx.coq() + ")"
	}
	return lib.CoqList(it)
}

// ---- "may these touch" (mirror of Render.no_merge; c = next byte or -1) ----

func isAlnum(c int) bool {
	return c == '_' || 'a' <= c && c <= 'z' || 'A' <= c && c <= 'Z' || '0' <= c && c <= '9'
}

func noMerge(l Lexeme, c int) bool {
	switch l.K {
	case "name":
		return !isAlnum(c)
	case "num":
		return !isAlnum(c) && (c != '.' || numDotOK(l.S))
	case "sym":
		switch l.Ty {
		case '-':
			return c != '-'
		case '[':
			return c != '[' && c != '='
		case '.':
			return c != '.' && !('0' <= c && c <= '9')
		case m2Comma:
			return c != '.'
		case '=', '<', '>':
			return c != '='
		case ':':
			return c != ':'
		}
	}
	return true
}

// numDotOK mirrors Render.num_dot_ok: a "." may follow a hexadecimal numeral or one with an exponent
func numDotOK(s []byte) bool {
	if len(s) > 2 && s[0] == '0' && (s[1] == 'x' || s[1] == 'X') {
		return true
	}
	return bytes.ContainsAny(s, "eE")
}

// mlBodyOK mirrors Render.ml_body_ok: the closing bracket first occurs at the end of body.
func mlBodyOK(lvl int, body []byte) bool {
	cl := closeBracket(lvl)
	s := string(body) + cl
	i := strings.Index(s, cl)
	return i >= len(body)
}

func opensLongBracket(s []byte) bool {
	if len(s) == 0 || s[0] != '[' {
		return false
	}
	i := 1
	for i < len(s) && s[i] == '=' {
		i++
	}
	return i < len(s) && s[i] == '['
}
