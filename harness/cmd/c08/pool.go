package main

// Child processes: every LoadString on generated input runs in a child (`c08 child`) so that a
// Go fatal error (stack overflow) or a hang costs one case, not the run.

import (
	"bufio"
	"encoding/json"
	"fmt"
	"io"
	"os"
	"os/exec"
	"sync"
	"time"
)

type Request struct {
	ID        int  `json:"id"`
	Src       HB   `json:"src"`
	WantToks  bool `json:"toks,omitempty"`
	WantProto bool `json:"proto,omitempty"`
	File      bool `json:"file,omitempty"`   // load through LState.LoadFile from a temporary file
	WantParse bool `json:"parse,omitempty"`  // also run the parse stage alone (parse.Parse)
	Slow      bool `json:"slow,omitempty"`   // deliver the source through a one-byte-per-Read reader (LState.Load)
	Repeat    int  `json:"repeat,omitempty"` // load that many more times: class, message and bytecode must not change
	Run       bool `json:"run,omitempty"`    // also call the loaded function (10 s deadline) and report what it returns
	FailAt    int  `json:"failat,omitempty"` // > 0: load through a reader that fails with io.ErrUnexpectedEOF after that many bytes
	LimitMs   int  `json:"-"`
}

func childMain() {
	in := bufio.NewReaderSize(os.Stdin, 1<<20)
	out := bufio.NewWriter(os.Stdout)
	dec := json.NewDecoder(in)
	for {
		var rq Request
		if err := dec.Decode(&rq); err != nil {
			return
		}
		t0 := time.Now()
		res := Result{ID: rq.ID}
		if rq.File {
			res.Load, res.Msg = loadFileOnce(rq.Src)
		} else if rq.FailAt > 0 {
			res.Load, res.Msg = loadFailingReader(rq.Src, rq.FailAt)
		} else if rq.Run {
			res.Load, res.Msg, res.RunOut = loadAndRun(rq.Src)
		} else {
			res.Load, res.Msg, res.Proto = loadOnceR(rq.Src, rq.WantProto, rq.Slow)
		}
		if rq.WantToks {
			res.Toks, res.LexErr, res.LexFail = scanAllR(rq.Src, rq.Slow)
		}
		base := res.Proto // bytecode of an earlier load of these bytes ("" = not known yet)
		for k := 0; k < rq.Repeat && res.Unstable == ""; k++ {
			c2, m2, p2 := loadOnceR(rq.Src, true, rq.Slow)
			if c2 != res.Load || m2 != res.Msg || (base != "" && p2 != base) {
				res.Unstable = trunc(fmt.Sprintf("load #1: %s %q; load #%d: %s %q", loadNames[res.Load], res.Msg, k+2, loadNames[c2], m2), 500)
			}
			base = p2
		}
		if rq.WantParse {
			res.ParseStage, res.ParseMsg = parseStage(rq.Src)
		}
		res.Micros = time.Since(t0).Microseconds()
		b, _ := json.Marshal(res)
		out.Write(b)
		out.WriteByte('\n')
		out.Flush()
	}
}

type child struct {
	cmd    *exec.Cmd
	stdin  io.WriteCloser
	lines  chan []byte
	stderr *tailBuf
}

type tailBuf struct {
	mu sync.Mutex
	b  []byte
}

func (t *tailBuf) Write(p []byte) (int, error) {
	t.mu.Lock()
	defer t.mu.Unlock()
	if len(t.b) < 600 { // keep the head: "fatal error: stack overflow" is in the first lines
		n := 600 - len(t.b)
		if n > len(p) {
			n = len(p)
		}
		t.b = append(t.b, p[:n]...)
	}
	return len(p), nil
}

func (t *tailBuf) String() string {
	t.mu.Lock()
	defer t.mu.Unlock()
	return string(t.b)
}

func startChild() *child {
	c := &child{lines: make(chan []byte, 1), stderr: &tailBuf{}}
	c.cmd = exec.Command(os.Args[0], "child")
	c.cmd.Env = append(os.Environ(), "GOMEMLIMIT=3GiB", "GOTRACEBACK=single")
	c.cmd.Stderr = c.stderr
	var err error
	if c.stdin, err = c.cmd.StdinPipe(); err != nil {
		panic(err)
	}
	so, err := c.cmd.StdoutPipe()
	if err != nil {
		panic(err)
	}
	if err := c.cmd.Start(); err != nil {
		panic(err)
	}
	go func() {
		rd := bufio.NewReaderSize(so, 1<<20)
		for {
			line, err := rd.ReadBytes('\n')
			if len(line) > 0 && err == nil {
				c.lines <- line
			}
			if err != nil {
				close(c.lines)
				return
			}
		}
	}()
	return c
}

func (c *child) kill() {
	c.stdin.Close()
	c.cmd.Process.Kill()
	c.cmd.Wait()
}

// ask sends one request; ok=false: the child is gone (crash) or silent (hang) and must be replaced.
func (c *child) ask(rq Request) (res Result, ok bool) {
	b, _ := json.Marshal(rq)
	b = append(b, '\n')
	done := make(chan error, 1)
	go func() { _, err := c.stdin.Write(b); done <- err }()
	limit := time.Duration(rq.LimitMs) * time.Millisecond
	timer := time.NewTimer(limit)
	defer timer.Stop()
	select {
	case line, alive := <-c.lines:
		if !alive {
			c.cmd.Wait()
			return Result{ID: rq.ID, Load: loadCrash, Msg: "child process died: " + trunc(c.stderr.String(), 400)}, false
		}
		if err := json.Unmarshal(line, &res); err != nil {
			return Result{ID: rq.ID, Load: loadCrash, Msg: "unreadable answer from child"}, false
		}
		return res, true
	case <-timer.C:
		return Result{ID: rq.ID, Load: loadHang, Msg: "no answer within " + limit.String()}, false
	}
}

// runAll answers every request, in parallel over `workers` children; results are indexed like rqs.
// A request that hangs is retried once alone in a fresh child before it is called a hang.
func runAll(rqs []Request, workers int) []Result {
	out := make([]Result, len(rqs))
	jobs := make(chan int)
	var wg sync.WaitGroup
	for w := 0; w < workers; w++ {
		wg.Add(1)
		go func() {
			defer wg.Done()
			c := startChild()
			defer func() { c.kill() }()
			for i := range jobs {
				res, ok := c.ask(rqs[i])
				if !ok {
					c.kill()
					c = startChild()
					if res.Load == loadHang {
						r2, ok2 := c.ask(rqs[i])
						if !ok2 {
							c.kill()
							c = startChild()
						}
						if r2.Load != loadHang {
							r2.Msg = trunc("(answered on retry) "+r2.Msg, 300)
						}
						res = r2
					}
				}
				out[i] = res
			}
		}()
	}
	for i := range rqs {
		jobs <- i
	}
	close(jobs)
	wg.Wait()
	return out
}
