package main

// The reference parser (coq/Front/Parser.v) against gopher-lua's parser:
//   * every generated program: its two lexeme streams parse to the same reference tree, and the tree
//     printed back by the reference printer (obtained from coqc in a pre-pass) compiles to the same
//     bytecode as the program itself;
//   * token-level mutations of valid programs: parse.Parse accepts  <=>  the reference parser accepts
//     (decided in the shards: case CParse).

import (
	"bytes"
	"fmt"
	"os"
	"os/exec"
	"path/filepath"
	"strconv"
	"strings"
	"time"

	"verifh/lib"
)

func lexemesCoq(l []Lexeme) string {
	it := make([]string, len(l))
	for i, x := range l {
		it[i] = x.coq()
	}
	return lib.CoqList(it)
}

// coqDir: /verif/coq next to /verif/harness (the harness runs with cwd = harness)
func coqDir() string {
	wd, _ := os.Getwd()
	return filepath.Join(filepath.Dir(wd), "coq")
}

// printBack asks coqc for print (pa_b (parse lexemes)) of every program: the reference tree with
// every operator expression in parentheses (explicit grouping); nil entry = the reference parser
// rejected it. Encoding per token: type, length of text, text bytes.
func printBack(dir string, progs [][]Lexeme) ([][]OTok, error) {
	var sb strings.Builder
	sb.WriteString("From GL Require Import Common.Bytes Front.ByteNames Front.Lexer Front.Ast Front.Parser Front.Printer Front.Render Front.LexCases.\nOpen Scope Z_scope.\n")
	sb.WriteString("Definition enc (l : list ptok) : list Z := flat_map (fun t => pty t :: len (ptext t) :: ptext t) l.\n")
	sb.WriteString("Definition pb (l : list lexeme) : list Z := match parse (ptoks_of_lexemes l) with ParseOk t => 1 :: enc (print (pa_b t)) | _ => [0] end.\n")
	for i, p := range progs {
		fmt.Fprintf(&sb, "Definition p%d : list lexeme := %s.\n", i, lexemesCoq(p))
	}
	sb.WriteString("Definition out := Eval vm_compute in [")
	for i := range progs {
		if i > 0 {
			sb.WriteString("; ")
		}
		fmt.Fprintf(&sb, "pb p%d", i)
	}
	sb.WriteString("].\nSet Printing Width 1000000.\nPrint out.\n")
	file := filepath.Join(dir, "printback.v")
	if err := os.WriteFile(file, []byte(sb.String()), 0o644); err != nil {
		return nil, err
	}
	cmd := exec.Command("coqc", "-R", coqDir(), "GL", "printback.v")
	cmd.Dir = dir
	var out bytes.Buffer
	cmd.Stdout = &out
	cmd.Stderr = &out
	if err := cmd.Start(); err != nil {
		return nil, err
	}
	done := make(chan error, 1)
	go func() { done <- cmd.Wait() }()
	select {
	case err := <-done:
		if err != nil {
			return nil, fmt.Errorf("coqc printback.v: %v: %s", err, trunc(out.String(), 400))
		}
	case <-time.After(20 * time.Minute):
		cmd.Process.Kill()
		return nil, fmt.Errorf("coqc printback.v: timeout")
	}
	for _, f := range []string{"printback.vo", "printback.vok", "printback.vos", "printback.glob", ".printback.aux"} {
		os.Remove(filepath.Join(dir, f))
	}
	// parse "out = [[1; 286; ...]; [0]; ...]"
	s := out.String()
	i := strings.Index(s, "out =")
	if i < 0 {
		return nil, fmt.Errorf("coqc printback.v: no result: %s", trunc(s, 300))
	}
	s = s[i+5:]
	var res [][]OTok
	depth := 0
	var cur []int
	num := -1
	flush := func() {
		if num >= 0 {
			cur = append(cur, num)
			num = -1
		}
	}
	for _, c := range s {
		switch {
		case c >= '0' && c <= '9':
			if num < 0 {
				num = 0
			}
			num = num*10 + int(c-'0')
		case c == '[':
			depth++
			if depth == 2 {
				cur = nil
			}
		case c == ']':
			flush()
			if depth == 2 {
				res = append(res, decodeToks(cur))
			}
			depth--
			if depth == 0 {
				if len(res) != len(progs) {
					return nil, fmt.Errorf("printback: %d answers for %d programs", len(res), len(progs))
				}
				return res, nil
			}
		default:
			flush()
		}
	}
	return nil, fmt.Errorf("printback: unterminated answer")
}

func decodeToks(z []int) []OTok {
	if len(z) == 0 || z[0] == 0 {
		return nil
	}
	toks := []OTok{}
	for i := 1; i+1 < len(z); {
		ty, n := z[i], z[i+1]
		text := make([]byte, 0, n)
		for k := 0; k < n && i+2+k < len(z); k++ {
			text = append(text, byte(z[i+2+k]))
		}
		toks = append(toks, OTok{Ty: ty, Text: HB(text)})
		i += 2 + n
	}
	return toks
}

var typeText = func() map[int]string {
	m := map[int]string{}
	for k, v := range symText {
		m[k] = v
	}
	for k, v := range kwType {
		m[v] = k
	}
	return m
}()

// tokensSource writes tokens on one line, separated by blanks; strings with decimal escapes.
func tokensSource(ts []OTok) []byte {
	var sb bytes.Buffer
	for i, t := range ts {
		if i > 0 {
			sb.WriteByte(' ')
		}
		switch t.Ty {
		case mIdent, mNumber:
			sb.Write(t.Text)
		case mString:
			sb.WriteByte('"')
			for _, c := range t.Text {
				if c >= 'a' && c <= 'z' || c >= 'A' && c <= 'Z' || c == ' ' || c == '_' {
					sb.WriteByte(c)
				} else {
					fmt.Fprintf(&sb, "\\%03d", c)
				}
			}
			sb.WriteByte('"')
		default:
			sb.WriteString(typeText[t.Ty])
		}
	}
	return sb.Bytes()
}

// ---------------- token-level mutations ----------------

var insertable = func() []Lexeme {
	var l []Lexeme
	for k := range kwType {
		l = append(l, name(k))
	}
	for _, ty := range []int{'+', '-', '*', '/', '%', '^', '#', mEqeq, mNeq, mLte, mGte, '<', '>', '=', '(', ')', '{', '}', '[', ']', ';', ':', ',', '.', m2Comma, m3Comma, m2Colon} {
		l = append(l, sym(ty))
	}
	l = append(l, name("x"), Lexeme{K: "num", S: HB("1")}, Lexeme{K: "str", Q: '"', Items: []SItem{{K: "char", C: 's'}}})
	// deterministic order (map iteration above is random): sort by printed text
	for i := 1; i < len(l); i++ {
		for j := i; j > 0 && string(l[j].bytes()) < string(l[j-1].bytes()); j-- {
			l[j], l[j-1] = l[j-1], l[j]
		}
	}
	return l
}()

func mutateTokens(r *lib.Rand, toks []Lexeme) []Lexeme {
	t := append([]Lexeme(nil), toks...)
	for k := r.Pick(6, 2) + 1; k > 0; k-- {
		if len(t) == 0 {
			t = append(t, insertable[r.Intn(len(insertable))])
			continue
		}
		p := r.Intn(len(t))
		switch r.Pick(3, 2, 2, 1, 4, 2) {
		case 0: // delete
			t = append(t[:p:p], t[p+1:]...)
		case 1: // duplicate
			t = append(t[:p+1:p+1], t[p:]...)
		case 2: // swap neighbours
			if p+1 < len(t) {
				t[p], t[p+1] = t[p+1], t[p]
			}
		case 3: // swap two
			q := r.Intn(len(t))
			t[p], t[q] = t[q], t[p]
		case 4: // insert
			x := insertable[r.Intn(len(insertable))]
			t = append(t[:p:p], append([]Lexeme{x}, t[p:]...)...)
		case 5: // replace
			t[p] = insertable[r.Intn(len(insertable))]
		}
	}
	for i := range t {
		t[i].NoNL = false // a mutation may put "(" anywhere: line ends are part of the experiment
	}
	return t
}

// oneLine removes the line ends inside string lexemes: the case evaluator derives "on a new line"
// from the lines where tokens START, which is Lua 5.1's rule only if no token spans lines.
func oneLine(toks []Lexeme) []Lexeme {
	out := make([]Lexeme, len(toks))
	for i, l := range toks {
		switch l.K {
		case "str":
			items := make([]SItem, len(l.Items))
			for k, it := range l.Items {
				if it.K == "escnl" {
					it = SItem{K: "esc", C: 'n'}
				}
				items[k] = it
			}
			l.Items = items
		case "long":
			b := append([]byte(nil), l.S...)
			for k := range b {
				if b[k] == '\n' || b[k] == '\r' {
					b[k] = ' '
				}
			}
			l.S = HB(b)
		}
		out[i] = l
	}
	return out
}

// mutLayout: blanks, now and then a line end (so that "(" on a new line occurs)
func mutLayout(r *lib.Rand, toks []Lexeme) []byte {
	var b []byte
	var prev *Lexeme
	for i := range toks {
		sep := " "
		if r.Chance(12) {
			sep = "\n"
		} else if r.Chance(25) && prev != nil && noMerge(*prev, firstByte(toks[i].bytes())) {
			sep = ""
		}
		if i == 0 {
			sep = ""
		}
		b = append(b, sep...)
		b = append(b, toks[i].bytes()...)
		prev = &toks[i]
	}
	return b
}

func runTokenMutations(w *lib.Writer, r *lib.Rand, tier string) {
	n := 1200
	if tier == "thorough" {
		n = 30000
	}
	if v, err := strconv.Atoi(os.Getenv("C08_NMUT")); err == nil && v > 0 {
		n = v
	}
	type job struct{ src []byte }
	jobs := make([]job, 0, n)
	for i := 0; i < n; i++ {
		cr := r.Fork()
		a, b := genProgram(cr, cr.Range(1, 4))
		toks := oneLine(a)
		if cr.Chance(30) {
			toks = oneLine(b)
		}
		if cr.Chance(8) { // unmutated: must be accepted by both
			jobs = append(jobs, job{mutLayout(cr, toks)})
			continue
		}
		jobs = append(jobs, job{mutLayout(cr, mutateTokens(cr, toks))})
	}
	rqs := make([]Request, len(jobs))
	for i, j := range jobs {
		rqs[i] = Request{ID: i, Src: HB(j.src), WantParse: true, LimitMs: 3000}
	}
	res := runAll(rqs, workers)
	acc := 0
	for i, j := range jobs {
		in := In{Kind: "parse", Src: HB(j.src)}
		id := w.NextID()
		rr := res[i]
		if rr.ParseStage == parseAccepted {
			acc++
		}
		o := observed(rr)
		w.Add(lib.Case{Input: in, Observed: o, Class: "token-mutation", Nontrivial: len(j.src) >= 4, KF: kfParse(j.src, rr),
			Coq: fmt.Sprintf("CParse %s %s", cb(j.src), lib.CoqBool(rr.ParseStage == parseAccepted))})
		if f := goFailOf(rr); f != "" {
			w.GoFail(id, f)
		} else if rr.ParseStage == parseBroken || rr.ParseStage == 0 {
			w.GoFail(id, "parse.Parse: "+rr.ParseMsg)
		} else if rr.ParseStage == parseRejected && rr.Load == loadFunction {
			w.GoFail(id, "parse.Parse rejects what LoadString accepts")
		}
	}
	w.Meta.Extra["token_mutations"] = len(jobs)
	w.Meta.Extra["token_mutations_accepted_by_gopher"] = acc
}

// kfParse: the input classes of the three listed over-acceptances of gopher-lua's grammar. The
// matchers are wide on purpose: a tagged case is excused only while it still agrees with the
// `gopher` dialect of the reference parser (check_impl), so any other disagreement stays a violation.
func kfParse(src []byte, r Result) []string {
	if r.ParseStage != parseAccepted {
		return nil // the listed findings are all "gopher-lua accepts what Lua 5.1 rejects"
	}
	var kf []string
	s := string(src)
	if strings.Contains(s, "\n(") || strings.Contains(s, "\n (") {
		kf = append(kf, "C08-5")
	}
	if strings.Contains(s, ";") || strings.Contains(s, ",") {
		kf = append(kf, "C08-6")
	}
	if strings.Contains(s, "(") {
		kf = append(kf, "C08-7")
	}
	return kf
}

// addProgCase records one program: both lexeme streams for the reference parser, and whether the
// reference tree printed back compiled to the same bytecode.
func addProgCase(w *lib.Writer, a, b []Lexeme, same bool, note string) {
	id := w.NextID()
	w.Add(lib.Case{Input: In{Kind: "prog", A: a, B: b}, Observed: map[string]any{"printback_same_bytecode": same, "note": note},
		Class: "program/reference-parser", Nontrivial: len(a) >= 8,
		Coq: fmt.Sprintf("CProg %s %s %s", lexemesCoq(a), lexemesCoq(b), lib.CoqBool(same))})
	if !same {
		w.GoFail(id, "reference tree printed back: "+note)
	}
}

// runPrograms: reference parser on whole programs + print-back through gopher-lua's compiler.
func runPrograms(w *lib.Writer, r *lib.Rand, tier string, outDir string) {
	n := 120
	if tier == "thorough" {
		n = 1500
	}
	as := make([][]Lexeme, n)
	bs := make([][]Lexeme, n)
	for i := 0; i < n; i++ {
		pr := r.Fork()
		as[i], bs[i] = genProgram(pr, pr.Pick(3, 4, 2, 1)*pr.Range(1, 4))
	}
	for _, p := range operatorPrograms() { // priorities and associativity, systematically
		as = append(as, p)
		bs = append(bs, p)
	}
	progCheck(w, as, bs, r, outDir)
	w.Meta.Extra["programs_printed_back"] = len(as)
}

// operatorPrograms: `return a op1 b op2 c` for every ordered pair of binary operators, and the
// unary / binary combinations: gopher-lua's grouping must be the reference parser's (checked through
// the bytecode of the fully parenthesised print-back).
func operatorPrograms() [][]Lexeme {
	ret := name("return")
	a, b, c := name("a"), name("b"), name("c")
	var ps [][]Lexeme
	for _, o1 := range binops {
		for _, o2 := range binops {
			ps = append(ps, []Lexeme{ret, a, o1.lx, b, o2.lx, c})
		}
	}
	for _, u := range unops {
		for _, o := range binops {
			ps = append(ps, []Lexeme{ret, u, a, o.lx, b}, []Lexeme{ret, a, o.lx, u, b}, []Lexeme{ret, u, a, o.lx, u, b, o.lx, c})
		}
		for _, u2 := range unops {
			ps = append(ps, []Lexeme{ret, u, u2, a})
		}
	}
	return ps
}

// progCheck: reference parser on whole programs + the reference tree printed back through
// gopher-lua's compiler.
func progCheck(w *lib.Writer, as, bs [][]Lexeme, r *lib.Rand, outDir string) {
	n := len(as)
	back, err := printBack(outDir, as)
	if err != nil {
		addGoSide(w, In{Kind: "adv", Shape: "printback-prepass"}, Result{Load: loadOtherErr, Msg: err.Error()}, "program/reference-parser", nil)
		return
	}
	var rqs []Request
	for i := 0; i < n; i++ {
		rqs = append(rqs, Request{ID: 2 * i, Src: HB(layout(r.Fork(), as[i], styleCompact).bytes()), WantProto: true, LimitMs: 5000})
		src := []byte("return")
		if back[i] != nil {
			src = tokensSource(back[i])
		}
		rqs = append(rqs, Request{ID: 2*i + 1, Src: HB(src), WantProto: true, LimitMs: 5000})
	}
	res := runAll(rqs, workers)
	for i := 0; i < n; i++ {
		ra, rb := res[2*i], res[2*i+1]
		same, note := true, ""
		switch {
		case back[i] == nil:
			same, note = false, "the reference parser rejects the program"
		case ra.Load != loadFunction:
			same, note = false, "the program itself does not load: "+ra.Msg
		case rb.Load != loadFunction:
			same, note = false, "does not load: "+rb.Msg+" :: "+trunc(string(rqs[2*i+1].Src), 200)
		case ra.Proto != rb.Proto:
			same, note = false, "compiles to different bytecode :: "+trunc(string(rqs[2*i+1].Src), 200)
		}
		addProgCase(w, as[i], bs[i], same, note)
	}
}
