package main

// A compact random generator of syntactically valid Lua 5.1 (+ goto/labels) programs that also
// pass gopher-lua's compile-time checks (break inside loops, labels visible, "..." only in vararg
// functions).  It emits two lexeme streams of the SAME program at once:
//   A: canonical; B: with optional ";" after statements and redundant parentheses that do not
//   change grouping (never around calls or "...", where parentheses truncate to one value).
// Programs are only loaded, never run.

import (
	"strconv"

	"verifh/lib"
)

type gen struct {
	r      *lib.Rand
	a, b   []Lexeme
	depth  int   // block nesting
	loops  []int // per function: loop nesting
	vararg []bool
	labels [][]string // per function: stack of visible label names (all enclosing blocks)
	marks  []int      // block starts inside labels[top]
	nlabel int
	budget int // statements left
}

func (g *gen) emit(l Lexeme) {
	g.a = append(g.a, l)
	g.b = append(g.b, l)
}
func (g *gen) emitB(l Lexeme) { g.b = append(g.b, l) }

var kwType = map[string]int{"and": mAnd, "break": mBreak, "do": mDo, "else": mElse, "elseif": mElseIf,
	"end": mEnd, "false": mFalse, "for": mFor, "function": mFunction, "if": mIf, "in": mIn, "local": mLocal,
	"nil": mNil, "not": mNot, "or": mOr, "return": mReturn, "repeat": mRepeat, "then": mThen, "true": mTrue,
	"until": mUntil, "while": mWhile, "goto": mGoto}

func name(s string) Lexeme { return Lexeme{K: "name", S: HB(s)} }
func sym(ty int) Lexeme    { return Lexeme{K: "sym", Ty: ty} }

func (g *gen) kw(s string) { g.emit(name(s)) }
func (g *gen) sym(ty int)  { g.emit(sym(ty)) }

var namePool = []string{"a", "b", "c", "x", "y", "i", "k", "v", "t", "f", "_", "_x1", "self", "n0", "ending", "do_",
	"nilx", "andy", "Or", "END", "function_", "e", "E1", "x0", "xFF", "goto_", "an_identifier_that_is_rather_long_1234567890"}

func (g *gen) ident() string { return namePool[g.r.Intn(len(namePool))] }
func (g *gen) name()         { g.emit(name(g.ident())) }

var numPool = []string{"0", "1", "2", "7", "10", "42", "255", "256", "65536", "007", "00", "3.14", "0.5", "5.", ".5", "10.25",
	"1e10", "1E5", "1e+5", "2.5e-3", "5.e1", ".5E+2", "0e0", "0x0", "0x1F", "0XaB", "0xdeadBEEF", "0x7fffffff", "1e308", "123456789012"}

// numerals whose end invites a wrong merge with what follows: hexadecimal ones ending in e/E (a
// following + or - is NOT an exponent sign), decimal ones with an exponent (a following ".." is NOT
// part of the numeral)
var numEdgePool = []string{"0xe", "0xE", "0xfe", "0XAE", "0x1e", "0xEE", "0xabe", "0x0E", "1e2", "1E2", "3e0", "2.5e1", "7E-1", "1e+2", ".5e1"}

func (g *gen) number() {
	pool := numPool
	if g.r.Chance(35) {
		pool = numEdgePool
	}
	g.emit(Lexeme{K: "num", S: HB(pool[g.r.Intn(len(pool))])})
}

var escLetters = []byte("abfnrtv\\\"'")

func (g *gen) shortString() Lexeme {
	q := int('"')
	if g.r.Bool() {
		q = '\''
	}
	n := g.r.Pick(2, 4, 4, 2, 1) * g.r.Range(0, 3)
	var items []SItem
	for i := 0; i < n; i++ {
		switch g.r.Pick(12, 3, 1, 2, 2) {
		case 0:
			const plain = "abcxyz 0123456789_-=[]{}()<>.,;:+*/%^#~!?@$&|`\"'"
			c := int(plain[g.r.Intn(len(plain))])
			if c == q {
				c = 'q'
			}
			items = append(items, SItem{K: "char", C: c})
		case 1:
			items = append(items, SItem{K: "esc", C: int(escLetters[g.r.Intn(len(escLetters))])})
		case 2:
			items = append(items, SItem{K: "escnl", NL: nlKinds[g.r.Intn(4)]})
		case 3:
			v := g.r.Pick(1, 1, 1, 3)
			val := []int{0, 10, 255, g.r.Intn(256)}[v]
			items = append(items, SItem{K: "dec", D: [3]int{val / 100, val / 10 % 10, val % 10}})
		case 4: // any other byte (control characters, NUL, high bytes)
			c := g.r.Intn(256)
			if c == q || c == '\\' || c == '\n' || c == '\r' {
				c = 0x80
			}
			items = append(items, SItem{K: "char", C: c})
		}
	}
	return Lexeme{K: "str", Q: q, Items: items}
}

func randBody(r *lib.Rand, lvl int, n int) []byte {
	alpha := []byte("ab ]]==[[-\n\r\t x]=")
	for try := 0; ; try++ {
		b := make([]byte, n)
		for i := range b {
			if r.Chance(8) {
				b[i] = byte(r.Intn(256))
			} else {
				b[i] = alpha[r.Intn(len(alpha))]
			}
		}
		if mlBodyOK(lvl, b) {
			return b
		}
		if try > 3 { // repair: no ']' at all
			for i := range b {
				if b[i] == ']' {
					b[i] = ')'
				}
			}
			return b
		}
	}
}

func (g *gen) longString() Lexeme {
	lvl := g.r.Pick(5, 3, 2, 1)
	return Lexeme{K: "long", Lvl: lvl, S: HB(randBody(g.r, lvl, g.r.Pick(1, 2, 2, 1)*g.r.Range(0, 6)))}
}

func (g *gen) str() {
	if g.r.Chance(20) {
		g.emit(g.longString())
	} else {
		g.emit(g.shortString())
	}
}

// ---------------- expressions ----------------

type ex struct {
	prec  int // 1 or, 2 and, 3 cmp, 4 .., 5 + -, 6 * / %, 7 unary, 8 ^, 9 atom
	op    Lexeme
	l, r  *ex
	atom  func()
	multi bool // function call or "...": parentheses would change the meaning
}

type binop struct {
	lx    Lexeme
	prec  int
	right bool
}

var binops = []binop{
	{name("or"), 1, false}, {name("and"), 2, false},
	{sym('<'), 3, false}, {sym('>'), 3, false}, {sym(mLte), 3, false}, {sym(mGte), 3, false}, {sym(mEqeq), 3, false}, {sym(mNeq), 3, false},
	{sym(m2Comma), 4, true}, {sym('+'), 5, false}, {sym('-'), 5, false},
	{sym('*'), 6, false}, {sym('/'), 6, false}, {sym('%'), 6, false}, {sym('^'), 8, true},
}
var unops = []Lexeme{sym('-'), name("not"), sym('#')}

func (g *gen) genExpr(d int) *ex {
	if d <= 0 || g.r.Chance(45) {
		return g.genAtom(d)
	}
	if g.r.Chance(22) {
		return &ex{prec: 7, op: unops[g.r.Intn(3)], l: g.genExpr(d - 1)}
	}
	o := binops[g.r.Intn(len(binops))]
	if g.r.Chance(25) { // numeral directly followed by + - .. (no blank in the compact layout)
		o = binops[[]int{8, 9, 10}[g.r.Intn(3)]]
		return &ex{prec: o.prec, op: o.lx, l: &ex{prec: 9, atom: g.number}, r: g.genExpr(d - 1)}
	}
	return &ex{prec: o.prec, op: o.lx, l: g.genExpr(d - 1), r: g.genExpr(d - 1)}
}

func isRight(prec int) bool { return prec == 4 || prec == 8 }

// printExpr emits e; must = parentheses required by the context (both streams)
func (g *gen) printExpr(e *ex, must bool) {
	red := !must && !e.multi && g.r.Chance(12)
	if must {
		g.sym('(')
	} else if red {
		g.emitB(sym('('))
	}
	switch {
	case e.atom != nil:
		e.atom()
	case e.r == nil: // unary
		g.emit(e.op)
		g.printExpr(e.l, e.l.prec < 7)
	default:
		g.printExpr(e.l, e.l.prec < e.prec || e.l.prec == e.prec && isRight(e.prec))
		g.emit(e.op)
		g.printExpr(e.r, e.r.prec < e.prec || e.r.prec == e.prec && !isRight(e.prec))
	}
	if must {
		g.sym(')')
	} else if red {
		g.emitB(sym(')'))
	}
}

func (g *gen) expr(d int) { g.printExpr(g.genExpr(d), false) }

func (g *gen) exprList(d, lo, hi int) {
	n := g.r.Range(lo, hi)
	for i := 0; i < n; i++ {
		if i > 0 {
			g.sym(',')
		}
		g.expr(d)
	}
}

func (g *gen) genAtom(d int) *ex {
	e := &ex{prec: 9}
	k := g.r.Pick(6, 6, 5, 2, 2, 2, 5, 3, 2, 2)
	if d <= 0 && k >= 6 {
		k = g.r.Intn(6)
	}
	switch k {
	case 0:
		e.atom = g.name
	case 1:
		e.atom = g.number
	case 2:
		e.atom = g.str
	case 3:
		e.atom = func() { g.kw("nil") }
	case 4:
		e.atom = func() { g.kw([]string{"true", "false"}[g.r.Intn(2)]) }
	case 5:
		if g.vararg[len(g.vararg)-1] {
			e.multi = true
			e.atom = func() { g.sym(m3Comma) }
		} else {
			e.atom = g.name
		}
	case 6: // prefix expression: index chain, maybe ending in a call
		call := g.r.Chance(50)
		e.multi = call
		e.atom = func() { g.prefixExp(d-1, call, !call && g.r.Chance(70), true) }
	case 7:
		e.atom = func() { g.tableCons(d - 1) }
	case 8:
		e.atom = func() { g.kw("function"); g.funcBody(false) }
	case 9: // explicit parenthesised expression used as a value (truncation of a call)
		e.atom = func() { g.sym('('); g.prefixExp(d-1, true, false, true); g.sym(')') }
	}
	return e
}

// prefixExp emits Name|(exp) followed by suffixes; wantCall: the last suffix is a call;
// wantIndex: the last suffix is an index (a "var").
func (g *gen) prefixExp(d int, wantCall, wantIndex, allowParen bool) {
	if allowParen && g.r.Chance(12) {
		// (exp) as a prefix; never first in a statement (allowParen is false there)
		g.sym('(')
		if g.r.Chance(50) {
			g.str()
		} else {
			g.expr(d)
		}
		g.sym(')')
		if !wantCall && !wantIndex {
			wantIndex = true
		}
	} else {
		g.name()
	}
	n := g.r.Pick(3, 4, 2, 1)
	if (wantCall || wantIndex) && n == 0 {
		n = 1
	}
	for i := 0; i < n; i++ {
		last := i == n-1
		k := g.r.Pick(3, 2, 3, 2)
		if last && wantCall && k < 2 {
			k = 2 + g.r.Intn(2)
		}
		if last && !wantCall && k >= 2 { // only a wanted call may end in a call (parentheses would truncate)
			k = g.r.Intn(2)
		}
		switch k {
		case 0:
			g.sym('.')
			g.name()
		case 1:
			g.sym('[')
			g.expr(d)
			g.sym(']')
		case 2:
			g.args(d)
		case 3:
			g.sym(':')
			g.name()
			g.args(d)
		}
	}
}

func (g *gen) args(d int) {
	switch g.r.Pick(6, 1, 1) {
	case 0:
		l := sym('(')
		l.NoNL = true
		g.emit(l)
		g.exprList(d, 0, 3)
		g.sym(')')
	case 1:
		g.str()
	case 2:
		g.tableCons(d)
	}
}

func (g *gen) tableCons(d int) {
	g.sym('{')
	n := g.r.Pick(2, 2, 2, 1, 1)
	for i := 0; i < n; i++ {
		switch g.r.Pick(3, 2, 2) {
		case 0:
			g.expr(d)
		case 1:
			g.name()
			g.sym('=')
			g.expr(d)
		case 2:
			g.sym('[')
			g.expr(d)
			g.sym(']')
			g.sym('=')
			g.expr(d)
		}
		if i < n-1 || g.r.Chance(25) {
			g.sym([]int{',', ';'}[g.r.Pick(3, 1)])
		}
	}
	g.sym('}')
}

// funcBody emits "(" parlist ")" block "end"
func (g *gen) funcBody(method bool) {
	g.sym('(')
	n := g.r.Pick(3, 3, 2, 1)
	va := g.r.Chance(30)
	for i := 0; i < n; i++ {
		if i > 0 {
			g.sym(',')
		}
		g.name()
	}
	if va {
		if n > 0 {
			g.sym(',')
		}
		g.sym(m3Comma)
	}
	g.sym(')')
	g.loops = append(g.loops, 0)
	g.vararg = append(g.vararg, va)
	g.labels = append(g.labels, nil)
	g.block()
	g.labels = g.labels[:len(g.labels)-1]
	g.vararg = g.vararg[:len(g.vararg)-1]
	g.loops = g.loops[:len(g.loops)-1]
	g.kw("end")
}

// ---------------- statements ----------------

func (g *gen) optSemi() {
	if g.r.Chance(30) {
		g.emitB(sym(';'))
	}
}

// block emits a statement list; noLocal: no `local` at this level (between a forward goto and its label)
func (g *gen) block() {
	g.depth++
	top := len(g.labels) - 1
	mark := len(g.labels[top])
	n := 0
	if g.depth <= 4 {
		n = g.r.Pick(1, 3, 3, 2)
	} else if g.depth <= 6 {
		n = g.r.Pick(2, 2)
	}
	fwd := ""   // pending forward label
	fwdAt := -1 // statement index at which it is placed
	for i := 0; i < n && g.budget > 0; i++ {
		g.budget--
		if fwd != "" && i == fwdAt {
			g.sym(m2Colon)
			g.emit(name(fwd))
			g.sym(m2Colon)
			g.optSemi()
			g.labels[top] = append(g.labels[top], fwd)
			fwd = ""
			continue
		}
		if fwd == "" && g.r.Chance(6) && i+1 < n {
			// forward goto (possibly from a nested block) to a label later in this block
			g.nlabel++
			fwd = "fwd" + strconv.Itoa(g.nlabel)
			fwdAt = g.r.Range(i+1, n-1)
			if g.r.Bool() {
				g.kw("goto")
				g.emit(name(fwd))
			} else {
				g.kw("if")
				g.expr(1)
				g.kw("then")
				g.kw("goto")
				g.emit(name(fwd))
				g.kw("end")
			}
			g.optSemi()
			continue
		}
		g.stat(fwd != "")
		g.optSemi()
	}
	if fwd != "" { // the block ended early (budget): place the label now
		g.sym(m2Colon)
		g.emit(name(fwd))
		g.sym(m2Colon)
	}
	// last statement
	switch g.r.Pick(10, 3, 2) {
	case 1:
		g.kw("return")
		if g.r.Chance(75) {
			g.exprList(2, 1, 3)
		}
		g.optSemi()
	case 2:
		if g.loops[len(g.loops)-1] > 0 {
			g.kw("break")
			g.optSemi()
		}
	}
	g.labels[top] = g.labels[top][:mark]
	g.depth--
}

func (g *gen) loopBlock() {
	g.loops[len(g.loops)-1]++
	g.block()
	g.loops[len(g.loops)-1]--
}

func (g *gen) nameList(lo, hi int) {
	n := g.r.Range(lo, hi)
	for i := 0; i < n; i++ {
		if i > 0 {
			g.sym(',')
		}
		g.name()
	}
}

func (g *gen) stat(noLocal bool) {
	top := len(g.labels) - 1
	k := g.r.Pick(8, 7, 3, 3, 3, 5, 3, 3, 3, 3, 6, 2, 2)
	if noLocal && (k == 9 || k == 10) {
		k = 0
	}
	switch k {
	case 0: // assignment
		n := g.r.Pick(5, 2, 1) + 1
		for i := 0; i < n; i++ {
			if i > 0 {
				g.sym(',')
			}
			if g.r.Chance(55) {
				g.name()
			} else {
				g.varExp()
			}
		}
		g.sym('=')
		g.exprList(3, 1, 3)
	case 1: // call statement
		g.callStat()
	case 2:
		g.kw("do")
		g.block()
		g.kw("end")
	case 3:
		g.kw("while")
		g.expr(2)
		g.kw("do")
		g.loopBlock()
		g.kw("end")
	case 4:
		g.kw("repeat")
		g.loopBlock()
		g.kw("until")
		g.expr(2)
	case 5:
		g.kw("if")
		g.expr(2)
		g.kw("then")
		g.block()
		for n := g.r.Pick(4, 2, 1); n > 0; n-- {
			g.kw("elseif")
			g.expr(2)
			g.kw("then")
			g.block()
		}
		if g.r.Chance(40) {
			g.kw("else")
			g.block()
		}
		g.kw("end")
	case 6:
		g.kw("for")
		g.name()
		g.sym('=')
		g.expr(2)
		g.sym(',')
		g.expr(2)
		if g.r.Chance(40) {
			g.sym(',')
			g.expr(1)
		}
		g.kw("do")
		g.loopBlock()
		g.kw("end")
	case 7:
		g.kw("for")
		g.nameList(1, 3)
		g.kw("in")
		g.exprList(2, 1, 3)
		g.kw("do")
		g.loopBlock()
		g.kw("end")
	case 8: // function a.b.c:m () ... end
		g.kw("function")
		g.name()
		for n := g.r.Pick(3, 2, 1); n > 0; n-- {
			g.sym('.')
			g.name()
		}
		m := g.r.Chance(30)
		if m {
			g.sym(':')
			g.name()
		}
		g.funcBody(m)
	case 9:
		g.kw("local")
		g.kw("function")
		g.name()
		g.funcBody(false)
	case 10:
		g.kw("local")
		g.nameList(1, 3)
		if g.r.Chance(75) {
			g.sym('=')
			g.exprList(3, 1, 3)
		}
	case 11: // label here (target of later backward gotos)
		g.nlabel++
		l := "lbl" + strconv.Itoa(g.nlabel)
		g.sym(m2Colon)
		g.emit(name(l))
		g.sym(m2Colon)
		g.labels[top] = append(g.labels[top], l)
	case 12: // backward goto to a visible label
		if vis := g.labels[top]; len(vis) > 0 {
			g.kw("goto")
			g.emit(name(vis[g.r.Intn(len(vis))]))
		} else {
			g.callStat()
		}
	}
}

// varExp: a prefix expression ending in an index, starting with a Name
func (g *gen) varExp() { g.prefixExp(2, false, true, false) } // a statement must not start with "("

func (g *gen) callStat() { g.prefixExp(2, true, false, false) }

// genProgram returns the two lexeme streams of one random program of about `size` statements.
func genProgram(r *lib.Rand, size int) (a, b []Lexeme) {
	g := &gen{r: r, budget: size}
	g.loops = []int{0}
	g.vararg = []bool{true}
	g.labels = [][]string{nil}
	for g.budget > 0 {
		g.budget--
		g.stat(false)
		g.optSemi()
	}
	if g.r.Chance(40) {
		g.kw("return")
		if g.r.Chance(75) {
			g.exprList(2, 1, 3)
		}
		g.optSemi()
	}
	return g.a, g.b
}
