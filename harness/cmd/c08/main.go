// c08: correspondence + exploration harness for property C08 (loading arbitrary bytes ends in a
// function or a syntax error; meaning is layout-independent).
package main

import (
	"encoding/json"
	"fmt"
	"io"
	"os"
	"path/filepath"
	"strings"

	lua "github.com/yuin/gopher-lua"
	"verifh/lib"
)

const header = "From GL Require Import Common.Bytes Front.ByteNames Front.Lines Front.Lexer Front.Render Front.LexCases."

const workers = 8

// In is the replayable input of one case.
type In struct {
	Kind   string   `json:"kind"`              // valid | bytes | adv | file
	Prog   *Prog    `json:"prog,omitempty"`    // valid: lexemes and separators
	RefSrc HB       `json:"ref_src,omitempty"` // valid: the first layout of the same program (bytecode reference)
	Src    HB       `json:"src,omitempty"`     // bytes
	Origin string   `json:"origin,omitempty"`  // bytes: which generator
	Shape  string   `json:"shape,omitempty"`   // adv
	N      int      `json:"n,omitempty"`       // adv
	A      []Lexeme `json:"a,omitempty"`       // prog: canonical lexemes
	B      []Lexeme `json:"b,omitempty"`       // prog: with optional ";" and redundant parentheses
}

func coqOToks(ts []OTok) string {
	it := make([]string, len(ts))
	for i, t := range ts {
		it[i] = "(" + tyName(t.Ty) + ", " + cb(t.Text) + ", " + zn(t.Line) + ")"
	}
	return lib.CoqList(it)
}

func coqObs(r Result) string {
	if r.LexErr != nil {
		return fmt.Sprintf("(ObsErr %s %s %s %s)", coqOToks(r.Toks), r.LexErr.Kind, zn(r.LexErr.Line), cb(r.LexErr.Text))
	}
	return "(ObsOk " + coqOToks(r.Toks) + ")"
}

// checksum mirrors LexCases.checksum: sum of (i+1)*byte_i modulo 65521
func checksum(b []byte) int {
	acc := 0
	for i, c := range b {
		acc = (acc + (i+1)*int(c)) % 65521
	}
	return acc
}

type obsJSON struct {
	Load    string  `json:"load"`
	Msg     string  `json:"msg,omitempty"`
	NToks   int     `json:"ntoks"`
	LexErr  *LexErr `json:"lexerr,omitempty"`
	Same    *bool   `json:"same_bytecode,omitempty"`
	Micros  int64   `json:"us"`
	LexFail string  `json:"lexfail,omitempty"`
	Parse   string  `json:"parse_stage,omitempty"`
}

func observed(r Result) obsJSON {
	return obsJSON{Load: loadNames[r.Load], Msg: r.Msg, NToks: len(r.Toks), LexErr: r.LexErr, Micros: r.Micros, LexFail: r.LexFail,
		Parse: []string{"", "accepted", "rejected", "broken"}[r.ParseStage]}
}

// goFailOf: the Go-side verdict on one answer (nil = fine)
func goFailOf(r Result) string {
	switch r.Load {
	case loadFunction, loadSyntax:
	default:
		return "LoadString ended in " + loadNames[r.Load] + ": " + r.Msg
	}
	if r.LexFail != "" {
		return r.LexFail
	}
	if r.Unstable != "" {
		return "loading the same bytes again gives another result: " + r.Unstable
	}
	return ""
}

// addValid records one layout of a valid program.
func addValid(w *lib.Writer, in In, r Result, same bool, class string, kf []string) {
	p := *in.Prog
	src := p.bytes()
	id := w.NextID()
	o := observed(r)
	o.Same = &same
	nontriv := len(p.Items) >= 8
	w.Add(lib.Case{Input: in, Observed: o, Class: class, Nontrivial: nontriv, KF: kf,
		Coq: fmt.Sprintf("CValid %s %s %d %d %s %d %s", p.coqItems(), sepCoq(p.Trailer), len(src), checksum(src), coqObs(r), r.Load, lib.CoqBool(same))})
	if f := goFailOf(r); f != "" {
		w.GoFail(id, f)
	} else if r.Load == loadFunction && !same {
		w.GoFail(id, "bytecode differs from the first layout of the same program")
	}
}

func addBytes(w *lib.Writer, in In, r Result, class string, kf []string) {
	id := w.NextID()
	nontriv := len(in.Src) >= 4
	w.Add(lib.Case{Input: in, Observed: observed(r), Class: class, Nontrivial: nontriv, KF: kf,
		Coq: fmt.Sprintf("CBytes %s %s %d", cb(in.Src), coqObs(r), r.Load)})
	if f := goFailOf(r); f != "" {
		w.GoFail(id, f)
	}
}

// addGoSide records a check that has no model side (adversarial sizes, failures of Go-only cases).
func addGoSide(w *lib.Writer, in In, r Result, class string, kf []string) {
	id := w.NextID()
	f := goFailOf(r)
	if len(in.Src) > 4096 {
		in.Src = nil // adversarial inputs are rebuilt from shape+n
	}
	w.Add(lib.Case{Input: in, Observed: observed(r), Class: class, Nontrivial: true, KF: kf,
		Coq: "CGoSide " + lib.CoqBool(f == "")})
	if f != "" {
		w.GoFail(id, f)
	}
}

func main() {
	if len(os.Args) > 1 && os.Args[1] == "child" {
		childMain()
		return
	}
	if len(os.Args) > 1 && os.Args[1] == "dump" { // debugging aid: structural dump of stdin's program
		src, _ := io.ReadAll(os.Stdin)
		L := lua.NewState(lua.Options{SkipOpenLibs: true})
		fn, err := L.LoadString(string(src))
		if err != nil {
			fmt.Println("error:", err)
			return
		}
		var sb strings.Builder
		dumpProto(&sb, fn.Proto)
		fmt.Println(strings.ReplaceAll(sb.String(), "F{", "\nF{"))
		return
	}
	a := lib.ParseArgs()
	if a.Cmd != "run" {
		fmt.Fprintln(os.Stderr, "unknown command", a.Cmd)
		os.Exit(2)
	}
	w, err := lib.NewWriter(a.Out, "C08", a.Tier, a.Seed, header, "case", 150)
	if err != nil {
		panic(err)
	}
	w.Meta.Rule = "valid stream: random Lua 5.1(+goto) programs as lexeme lists, each printed under 3 layouts (compact / plain / wild: blanks \\t\\v\\f, LF CR CRLF LFCR, -- and --[=*[ comments) plus a variant with optional ';' and redundant parentheses; " +
		"parse.Scanner driven to EOF must equal the Coq lexer and the lexemes (Render.expected_tokens), LoadString must give a function and the same bytecode (FunctionProto dump without line info) for every layout; " +
		"malformed stream: random bytes, Lua-alphabet soup, token soup, byte/chunk mutations and every truncation of sample programs through LoadString in child processes (2 s limit, recover), a PRNG-chosen part also through the Coq lexer; " +
		"LoadFile on texts with a first '#' line against LoadString of the text without it, and adversarial sizes: Go-side only. non-trivial = valid program with >= 8 lexemes, byte string with >= 4 bytes; distinct by Gallina term"
	w.Meta.Extra = map[string]any{}
	r := lib.NewRand(a.Seed)
	if a.Replay != "" {
		replay(w, a.Replay)
	} else if os.Getenv("C08_ONLY") == "parse" { // development: only the token-mutation stream
		runTokenMutations(w, r.Fork(), a.Tier)
	} else {
		corpus(w)
		runValid(w, r.Fork(), a.Tier)
		runMalformed(w, r.Fork(), a.Tier)
		runLoadFile(w, r.Fork(), a.Tier)
		runFailingReader(w, r.Fork(), a.Tier)
		runPrograms(w, r.Fork(), a.Tier, a.Out)
		runTokenMutations(w, r.Fork(), a.Tier)
		runAdversarial(w, a.Tier)
	}
	if err := w.Close(); err != nil {
		panic(err)
	}
}

func replay(w *lib.Writer, path string) {
	b, err := os.ReadFile(path)
	if err != nil {
		panic(err)
	}
	var rp struct {
		Input In `json:"input"`
	}
	if err := json.Unmarshal(b, &rp); err != nil {
		panic(err)
	}
	in := rp.Input
	switch in.Kind {
	case "valid":
		src := in.Prog.bytes()
		rs := runAll([]Request{{ID: 0, Src: in.RefSrc, WantProto: true, LimitMs: 10000}, {ID: 1, Src: src, WantToks: true, WantProto: true, LimitMs: 10000},
			{ID: 2, Src: src, WantToks: true, WantProto: true, Slow: true, LimitMs: 10000}}, 1)
		id := w.NextID()
		addValid(w, in, rs[1], rs[0].Proto == rs[1].Proto, "replay", kfValid(*in.Prog))
		if d := sameObservation(rs[1], rs[2]); d != "" && goFailOf(rs[1]) == "" && goFailOf(rs[2]) == "" {
			w.GoFail(id, "the outcome depends on how the reader delivers the same bytes (bulk vs one byte per Read): "+d)
		}
	case "bytes":
		rs := runAll([]Request{{ID: 0, Src: in.Src, WantToks: true, LimitMs: 2000}}, 1)
		addBytes(w, in, rs[0], "replay", kfBytes(in.Src, rs[0]))
	case "file":
		rs := runAll([]Request{{ID: 0, Src: in.Src, File: true, LimitMs: 3000}, {ID: 1, Src: HB(stripFirstLine(in.Src)), LimitMs: 3000}}, 1)
		bad := goFailOf(rs[0])
		if bad == "" && goFailOf(rs[1]) == "" && rs[0].Load != rs[1].Load {
			bad = "LoadFile ends in " + loadNames[rs[0].Load] + " but LoadString of the text without its '#' line ends in " + loadNames[rs[1].Load]
		}
		addFileCase(w, in, rs[0], bad)
	case "failread":
		rs := runAll([]Request{{ID: 0, Src: in.Src, FailAt: in.N, LimitMs: 3000}}, 1)
		id := w.NextID()
		ok := rs[0].Load == loadSyntax || rs[0].Load == loadFileErr
		w.Add(lib.Case{Input: in, Observed: observed(rs[0]), Class: "replay", Nontrivial: true, Coq: "CGoSide " + lib.CoqBool(ok)})
		if !ok {
			w.GoFail(id, "Load from a failing reader ended in "+loadNames[rs[0].Load]+": "+rs[0].Msg)
		}
	case "prog":
		progCheck(w, [][]Lexeme{in.A}, [][]Lexeme{in.B}, lib.NewRand(1), filepath.Dir(path))
	case "parse":
		rs := runAll([]Request{{ID: 0, Src: in.Src, WantParse: true, LimitMs: 3000}}, 1)
		id := w.NextID()
		w.Add(lib.Case{Input: in, Observed: observed(rs[0]), Class: "replay", Nontrivial: true, KF: kfParse(in.Src, rs[0]),
			Coq: fmt.Sprintf("CParse %s %s", cb(in.Src), lib.CoqBool(rs[0].ParseStage == parseAccepted))})
		if f := goFailOf(rs[0]); f != "" {
			w.GoFail(id, f)
		}
	case "adv":
		src := advSource(in.Shape, in.N)
		_, run := expectedReturn(in.Shape, in.N)
		rs := runAll([]Request{{ID: 0, Src: src, Run: run, LimitMs: advLimitMs}}, 1)
		addGoSide(w, in, advVerdict(in.Shape, in.N, rs[0]), "replay", kfAdv(in.Shape, in.N))
	default:
		panic("unknown replay kind " + in.Kind)
	}
}

// ---------------- valid stream ----------------

// sameObservation: tokens, lexical error, load class and bytecode of two runs of the same text
func sameObservation(a, b Result) string {
	if a.Load != b.Load {
		return "load class " + loadNames[a.Load] + " vs " + loadNames[b.Load]
	}
	if a.Proto != b.Proto {
		return "bytecode differs"
	}
	if len(a.Toks) != len(b.Toks) || (a.LexErr == nil) != (b.LexErr == nil) {
		return fmt.Sprintf("token streams differ (%d vs %d tokens)", len(a.Toks), len(b.Toks))
	}
	for i := range a.Toks {
		if a.Toks[i].Ty != b.Toks[i].Ty || a.Toks[i].Line != b.Toks[i].Line || string(a.Toks[i].Text) != string(b.Toks[i].Text) {
			return fmt.Sprintf("token %d differs", i)
		}
	}
	if a.LexErr != nil && (a.LexErr.Kind != b.LexErr.Kind || a.LexErr.Line != b.LexErr.Line || string(a.LexErr.Text) != string(b.LexErr.Text)) {
		return "lexical errors differ"
	}
	return ""
}

// validJob: one layout of one program; every layout is observed twice, through LoadString /
// strings.Reader and through LState.Load with a reader that returns one byte per Read.
type validJob struct {
	in      In
	class   string
	ref     int  // index of the reference request (first layout of stream A)
	useSlow bool // the observation handed to the model is the one made through the one-byte reader
}

func runValidJobs(w *lib.Writer, jobs []validJob, srcs [][]byte) {
	rqs := make([]Request, 0, 2*len(jobs))
	for _, src := range srcs {
		rqs = append(rqs, Request{ID: len(rqs), Src: HB(src), WantToks: true, WantProto: true, LimitMs: 8000},
			Request{ID: len(rqs) + 1, Src: HB(src), WantToks: true, WantProto: true, Slow: true, LimitMs: 8000})
	}
	res := runAll(rqs, workers)
	for i, j := range jobs {
		fast, slow, ref := res[2*i], res[2*i+1], res[2*j.ref]
		obs := fast
		class := j.class
		if j.useSlow {
			obs = slow
			class += "/1-byte-reader"
		}
		same := obs.Load == loadFunction && ref.Load == loadFunction && obs.Proto == ref.Proto
		id := w.NextID()
		addValid(w, j.in, obs, same, class, kfValid(*j.in.Prog))
		if goFailOf(fast) == "" && goFailOf(slow) == "" {
			if d := sameObservation(fast, slow); d != "" {
				w.GoFail(id, "the outcome depends on how the reader delivers the same bytes (bulk vs one byte per Read): "+d)
			}
		}
	}
}

func runValid(w *lib.Writer, r *lib.Rand, tier string) {
	nprog := 300
	if tier == "thorough" {
		nprog = 6000
	}
	var jobs []validJob
	var srcs [][]byte
	for i := 0; i < nprog; i++ {
		pr := r.Fork()
		a, b := genProgram(pr, pr.Pick(3, 4, 2, 1)*pr.Range(1, 4))
		ref := len(jobs)
		var refSrc []byte
		for k, v := range []struct {
			toks  []Lexeme
			style int
			class string
			slow  bool
		}{{a, styleCompact, "valid/compact", false}, {a, stylePlain, "valid/plain", false}, {a, styleWild, "valid/wild", false},
			{b, styleWild, "valid/semis+parens/wild", true}} {
			p := layout(pr.Fork(), v.toks, v.style)
			src := p.bytes()
			if k == 0 {
				refSrc = src
			}
			pp := p
			jobs = append(jobs, validJob{In{Kind: "valid", Prog: &pp, RefSrc: HB(refSrc)}, v.class, ref, v.slow})
			srcs = append(srcs, src)
		}
	}
	runValidJobs(w, jobs, srcs)
	w.Meta.Extra["valid_programs"] = nprog
}

func kfValid(p Prog) []string { return nil }

func kfBytes(src []byte, r Result) []string { return nil }

func hasPrefixAny(s string, ps ...string) bool {
	for _, p := range ps {
		if strings.HasPrefix(s, p) {
			return true
		}
	}
	return false
}
