package main

// What the real code does with one source text: LoadString's result class, the token stream of
// parse.Scanner, a structural dump of the compiled prototype (line information excluded).

import (
	"context"
	"crypto/sha256"
	"encoding/hex"
	"fmt"
	"io"
	"math"
	"os"
	"strings"
	"time"

	lua "github.com/yuin/gopher-lua"
	"github.com/yuin/gopher-lua/parse"
)

const (
	loadFunction = 0 // a function
	loadSyntax   = 1 // *ApiError, Type == ApiErrorSyntax
	loadOtherErr = 2 // any other error value
	loadPanic    = 3 // a Go panic escaped LoadString
	loadCrash    = 4 // the child process died
	loadHang     = 5 // no answer within the limit
	loadFileErr  = 6 // *ApiError, Type == ApiErrorFile (only expected from a failing reader)
)

var loadNames = []string{"function", "syntax-error", "other-error", "panic", "crash", "hang", "file-error"}

type OTok struct {
	Ty   int `json:"ty"`
	Text HB  `json:"text"`
	Line int `json:"line"`
}

type LexErr struct {
	Kind string `json:"kind"`
	Line int    `json:"line"`
	Text HB     `json:"text"`
}

// Result is what the child reports for one request.
type Result struct {
	ID      int     `json:"id"`
	Load    int     `json:"load"`
	Msg     string  `json:"msg,omitempty"`
	Toks    []OTok  `json:"toks,omitempty"`
	LexErr  *LexErr `json:"lexerr,omitempty"`
	LexFail string  `json:"lexfail,omitempty"` // scanner misbehaved (panic, unknown message, no progress)
	Proto   string  `json:"proto,omitempty"`   // sha256 of the structural dump
	// parse stage alone: 0 not asked, 1 accepted, 2 rejected (*parse.Error), 3 anything else
	Unstable   string `json:"unstable,omitempty"` // repeated loads of the same bytes ended differently
	RunOut     string `json:"runout,omitempty"`   // Run: "ok:<first result>", "error:<msg>", "timeout"
	ParseStage int    `json:"pstage,omitempty"`
	ParseMsg   string `json:"pmsg,omitempty"`
	Micros     int64  `json:"us"`
}

var tokMap = map[int]int{
	parse.TAnd: mAnd, parse.TBreak: mBreak, parse.TDo: mDo, parse.TElse: mElse, parse.TElseIf: mElseIf,
	parse.TEnd: mEnd, parse.TFalse: mFalse, parse.TFor: mFor, parse.TFunction: mFunction, parse.TIf: mIf,
	parse.TIn: mIn, parse.TLocal: mLocal, parse.TNil: mNil, parse.TNot: mNot, parse.TOr: mOr,
	parse.TReturn: mReturn, parse.TRepeat: mRepeat, parse.TThen: mThen, parse.TTrue: mTrue,
	parse.TUntil: mUntil, parse.TWhile: mWhile, parse.TGoto: mGoto, parse.TEqeq: mEqeq, parse.TNeq: mNeq,
	parse.TLte: mLte, parse.TGte: mGte, parse.T2Comma: m2Comma, parse.T3Comma: m3Comma,
	parse.T2Colon: m2Colon, parse.TIdent: mIdent, parse.TNumber: mNumber, parse.TString: mString,
}

var errKinds = map[string]string{
	"unterminated string":           "EUntermString",
	"unterminated multiline string": "EUntermML",
	"invalid multiline string":      "EInvalidML",
	"invalid multiline comment":     "EInvalidMLComment",
	"malformed number":              "EMalformedNumber",
	"Invalid '~' token":             "EInvalidTilde",
	"Invalid token":                 "EInvalidToken",
	"escape sequence too large":     "EEscapeTooLarge",
}

func trunc(s string, n int) string {
	if len(s) > n {
		return s[:n] + "..."
	}
	return s
}

// scanAll drives the exported scanner the way parse.Lexer.Lex does, to EOF or the first error.
// oneByteReader delivers the source one byte per Read: nothing may depend on how a reader chunks
// the same bytes.
type oneByteReader struct {
	b []byte
	i int
}

func (r *oneByteReader) Read(p []byte) (int, error) {
	if r.i >= len(r.b) {
		return 0, io.EOF
	}
	if len(p) == 0 {
		return 0, nil
	}
	p[0] = r.b[r.i]
	r.i++
	return 1, nil
}

func sourceReader(src []byte, slow bool) io.Reader {
	if slow {
		return &oneByteReader{b: src}
	}
	return strings.NewReader(string(src))
}

func scanAll(src []byte) (toks []OTok, lerr *LexErr, fail string) { return scanAllR(src, false) }

func scanAllR(src []byte, slow bool) (toks []OTok, lerr *LexErr, fail string) {
	defer func() {
		if r := recover(); r != nil {
			fail = "scanner panic: " + trunc(fmt.Sprint(r), 200)
		}
	}()
	sc := parse.NewScanner(sourceReader(src, slow), "<string>")
	lx := &parse.Lexer{PrevTokenType: parse.TNil}
	for n := 0; ; n++ {
		if n > len(src)+1 {
			return toks, nil, "scanner delivered more tokens than input bytes (no progress)"
		}
		lx.PrevTokenType = lx.Token.Type
		tok, err := sc.Scan(lx)
		if err != nil {
			e, ok := err.(*parse.Error)
			if !ok {
				return toks, nil, "scanner error of unknown type: " + trunc(err.Error(), 200)
			}
			k, ok := errKinds[e.Message]
			if !ok {
				return toks, nil, "scanner error with unknown message: " + trunc(e.Message, 200)
			}
			return toks, &LexErr{Kind: k, Line: e.Pos.Line, Text: HB(e.Token)}, ""
		}
		if tok.Type < 0 {
			return toks, nil, ""
		}
		ty := tok.Type
		if ty >= 256 {
			m, ok := tokMap[ty]
			if !ok {
				return toks, nil, fmt.Sprintf("unknown token type %d", ty)
			}
			ty = m
		}
		toks = append(toks, OTok{Ty: ty, Text: HB(tok.Str), Line: tok.Pos.Line})
		lx.Token = tok
	}
}

func dumpValue(sb *strings.Builder, v lua.LValue) {
	switch x := v.(type) {
	case lua.LNumber:
		fmt.Fprintf(sb, "n%016x;", math.Float64bits(float64(x)))
	case lua.LString:
		fmt.Fprintf(sb, "s%d:%x;", len(x), string(x))
	default:
		fmt.Fprintf(sb, "?%s;", v.Type().String())
	}
}

// dumpProto writes everything of a prototype that is not line information.
func dumpProto(sb *strings.Builder, p *lua.FunctionProto) {
	fmt.Fprintf(sb, "F{up=%d par=%d va=%d reg=%d code=[", p.NumUpvalues, p.NumParameters, p.IsVarArg, p.NumUsedRegisters)
	for _, c := range p.Code {
		fmt.Fprintf(sb, "%08x ", c)
	}
	sb.WriteString("] k=[")
	for _, k := range p.Constants {
		dumpValue(sb, k)
	}
	sb.WriteString("] loc=[")
	for _, l := range p.DbgLocals {
		fmt.Fprintf(sb, "%s:%d-%d;", l.Name, l.StartPc, l.EndPc)
	}
	sb.WriteString("] upn=[")
	for _, u := range p.DbgUpvalues {
		sb.WriteString(u + ";")
	}
	sb.WriteString("] calls=[")
	for _, c := range p.DbgCalls {
		fmt.Fprintf(sb, "%s@%d;", c.Name, c.Pc)
	}
	sb.WriteString("] sub=[")
	for _, f := range p.FunctionPrototypes {
		dumpProto(sb, f)
	}
	sb.WriteString("]}")
}

func loadOnce(src []byte, wantProto bool) (class int, msg string, proto string) {
	return loadOnceR(src, wantProto, false)
}

// loadOnceR: slow = through LState.Load with the one-byte-per-Read reader instead of LoadString
func loadOnceR(src []byte, wantProto, slow bool) (class int, msg string, proto string) {
	defer func() {
		if r := recover(); r != nil {
			class, msg = loadPanic, "panic escaped LoadString: "+trunc(fmt.Sprint(r), 300)
		}
	}()
	L := lua.NewState(lua.Options{SkipOpenLibs: true})
	defer L.Close()
	var fn *lua.LFunction
	var err error
	if slow {
		fn, err = L.Load(sourceReader(src, true), "<string>")
	} else {
		fn, err = L.LoadString(string(src))
	}
	if err != nil {
		if ae, ok := err.(*lua.ApiError); ok && ae.Type == lua.ApiErrorSyntax {
			return loadSyntax, trunc(strings.TrimSpace(err.Error()), 200), ""
		}
		return loadOtherErr, trunc(fmt.Sprintf("%T: %v", err, err), 300), ""
	}
	if fn == nil || fn.Proto == nil {
		return loadOtherErr, "LoadString returned neither a Lua function nor an error", ""
	}
	if wantProto {
		var sb strings.Builder
		dumpProto(&sb, fn.Proto)
		h := sha256.Sum256([]byte(sb.String()))
		proto = hex.EncodeToString(h[:])
	}
	return loadFunction, "", proto
}

// loadFileOnce writes src to a temporary file and loads it with LState.LoadFile (first line
// starting with '#' is skipped there).
func loadFileOnce(src []byte) (class int, msg string) {
	defer func() {
		if r := recover(); r != nil {
			class, msg = loadPanic, "panic escaped LoadFile: "+trunc(fmt.Sprint(r), 300)
		}
	}()
	f, err := os.CreateTemp("", "c08-*.lua")
	if err != nil {
		return loadOtherErr, "harness: " + err.Error()
	}
	defer os.Remove(f.Name())
	f.Write(src)
	f.Close()
	L := lua.NewState(lua.Options{SkipOpenLibs: true})
	defer L.Close()
	class, msg = loadFileAPI(L, f.Name())
	if class != loadFunction && class != loadSyntax {
		return
	}
	// the same file through the Lua-level loadfile: same verdict as through the Go API
	lua.OpenBase(L)
	if err := L.CallByParam(lua.P{Fn: L.GetGlobal("loadfile"), NRet: 2, Protect: true}, lua.LString(f.Name())); err != nil {
		return loadOtherErr, "loadfile(path) called from Lua raised: " + trunc(err.Error(), 200)
	}
	v1, v2 := L.Get(-2), L.Get(-1)
	c2 := loadSyntax
	if _, ok := v1.(*lua.LFunction); ok {
		c2 = loadFunction
	} else if v1 != lua.LNil || v2.Type() != lua.LTString {
		return loadOtherErr, "loadfile(path) called from Lua returned " + v1.Type().String() + ", " + v2.Type().String()
	}
	if c2 != class {
		return loadOtherErr, fmt.Sprintf("L.LoadFile ends in %s but loadfile(path) called from Lua ends in %s %s", loadNames[class], loadNames[c2],
			trunc(strings.Replace(v2.String(), f.Name(), "<file>", -1), 120))
	}
	return
}

func loadFileAPI(L *lua.LState, name string) (class int, msg string) {
	fn, err := L.LoadFile(name)
	if err != nil {
		if ae, ok := err.(*lua.ApiError); ok && ae.Type == lua.ApiErrorSyntax {
			return loadSyntax, trunc(strings.Replace(strings.TrimSpace(err.Error()), name, "<file>", -1), 200)
		}
		return loadOtherErr, trunc(fmt.Sprintf("%T: %v", err, err), 300)
	}
	if fn == nil || fn.Proto == nil {
		return loadOtherErr, "LoadFile returned neither a Lua function nor an error"
	}
	return loadFunction, ""
}

const (
	parseAccepted = 1
	parseRejected = 2
	parseBroken   = 3
)

// parseStage runs gopher-lua's parser alone (no compile): accepted / rejected with a *parse.Error.
func parseStage(src []byte) (st int, msg string) {
	defer func() {
		if r := recover(); r != nil {
			st, msg = parseBroken, "panic escaped parse.Parse: "+trunc(fmt.Sprint(r), 200)
		}
	}()
	_, err := parse.Parse(strings.NewReader(string(src)), "<string>")
	if err == nil {
		return parseAccepted, ""
	}
	if _, ok := err.(*parse.Error); ok {
		return parseRejected, trunc(strings.TrimSpace(err.Error()), 160)
	}
	return parseBroken, trunc(fmt.Sprintf("%T: %v", err, err), 200)
}

// loadAndRun loads src and calls the function under a 10 s deadline: "ok:<first result>".
func loadAndRun(src []byte) (class int, msg string, out string) {
	defer func() {
		if r := recover(); r != nil {
			class, msg = loadPanic, "panic escaped: "+trunc(fmt.Sprint(r), 300)
		}
	}()
	L := lua.NewState()
	defer L.Close()
	fn, err := L.LoadString(string(src))
	if err != nil {
		if ae, ok := err.(*lua.ApiError); ok && ae.Type == lua.ApiErrorSyntax {
			return loadSyntax, trunc(strings.TrimSpace(err.Error()), 200), ""
		}
		return loadOtherErr, trunc(fmt.Sprintf("%T: %v", err, err), 300), ""
	}
	ctx, cancel := context.WithTimeout(context.Background(), 10*time.Second)
	defer cancel()
	L.SetContext(ctx)
	L.Push(fn)
	if err := L.PCall(0, 1, nil); err != nil {
		if ctx.Err() != nil {
			return loadFunction, "", "timeout"
		}
		return loadFunction, "", "error:" + trunc(err.Error(), 150)
	}
	return loadFunction, "", "ok:" + L.Get(-1).String()
}

type failingReader struct {
	b []byte
	n int
}

func (r *failingReader) Read(p []byte) (int, error) {
	if len(r.b) == 0 || r.n <= 0 {
		return 0, io.ErrUnexpectedEOF
	}
	k := len(p)
	if k > r.n {
		k = r.n
	}
	if k > len(r.b) {
		k = len(r.b)
	}
	copy(p, r.b[:k])
	r.b, r.n = r.b[k:], r.n-k
	return k, nil
}

// loadFailingReader: LState.Load from a reader that delivers failAt bytes and then fails.
func loadFailingReader(src []byte, failAt int) (class int, msg string) {
	defer func() {
		if r := recover(); r != nil {
			class, msg = loadPanic, "panic escaped Load: "+trunc(fmt.Sprint(r), 300)
		}
	}()
	L := lua.NewState(lua.Options{SkipOpenLibs: true})
	defer L.Close()
	fn, err := L.Load(&failingReader{b: src, n: failAt}, "<reader>")
	if err != nil {
		if ae, ok := err.(*lua.ApiError); ok {
			switch ae.Type {
			case lua.ApiErrorSyntax:
				return loadSyntax, trunc(strings.TrimSpace(err.Error()), 200)
			case lua.ApiErrorFile:
				return loadFileErr, trunc(strings.TrimSpace(err.Error()), 200)
			}
		}
		return loadOtherErr, trunc(fmt.Sprintf("%T: %v", err, err), 300)
	}
	if fn == nil {
		return loadOtherErr, "Load returned neither a function nor an error"
	}
	return loadFunction, ""
}
