package main

import "verifh/lib"

// layout styles
const (
	styleCompact = iota // nothing where lexemes may touch, else one blank
	stylePlain          // spaces and LF line ends, the way programs are usually written
	styleWild           // every separator form: \t \v \f, CR / CRLF / LFCR, line and block comments
)

func firstByte(b []byte) int {
	if len(b) == 0 {
		return -1
	}
	return int(b[0])
}

func randLineText(r *lib.Rand) []byte {
	n := r.Pick(2, 3, 2) * r.Range(0, 8)
	alpha := []byte("abc xyz-[]=-- 01\t")
	b := make([]byte, n)
	for i := range b {
		if r.Chance(6) {
			b[i] = byte(r.Intn(256))
		} else {
			b[i] = alpha[r.Intn(len(alpha))]
		}
		if b[i] == '\n' || b[i] == '\r' {
			b[i] = ' '
		}
	}
	if r.Chance(10) { // looks like a long-bracket opening but is not: "--[==" + text
		b = append([]byte("[=="[:r.Range(1, 3)]), b...)
	}
	if opensLongBracket(b) {
		b = append([]byte{' '}, b...)
	}
	return b
}

// randSep draws one separator; noNL: no line end inside (before the "(" of call arguments)
func randSep(r *lib.Rand, style int, noNL bool, nl string) []SepItem {
	switch style {
	case styleCompact:
		return nil
	case stylePlain:
		switch r.Pick(3, 10, 3, 1) {
		case 0:
			return nil
		case 1:
			return []SepItem{{K: "blank", C: ' '}}
		case 2:
			if noNL {
				return []SepItem{{K: "blank", C: ' '}}
			}
			s := []SepItem{{K: "nl", NL: "NlLF"}}
			for i := r.Intn(4); i > 0; i-- {
				s = append(s, SepItem{K: "blank", C: ' '}, SepItem{K: "blank", C: ' '})
			}
			return s
		default:
			if noNL {
				return nil
			}
			return []SepItem{{K: "blank", C: ' '}, {K: "line", Text: HB(" note"), NL: "NlLF"}}
		}
	}
	var s []SepItem
	n := r.Pick(3, 6, 3, 2, 1)
	for i := 0; i < n; i++ {
		switch r.Pick(8, 3, 4, 2, 2) {
		case 0:
			s = append(s, SepItem{K: "blank", C: ' '})
		case 1:
			s = append(s, SepItem{K: "blank", C: []int{'\t', '\v', '\f'}[r.Intn(3)]})
		case 2:
			if noNL {
				continue
			}
			k := nl
			if k == "" {
				k = nlKinds[r.Intn(4)]
			}
			s = append(s, SepItem{K: "nl", NL: k})
		case 3:
			if noNL {
				continue
			}
			k := nl
			if k == "" {
				k = nlKinds[r.Intn(4)]
			}
			s = append(s, SepItem{K: "line", Text: HB(randLineText(r)), NL: k})
		case 4:
			lvl := r.Pick(4, 3, 2, 1)
			body := randBody(r, lvl, r.Pick(2, 2, 1)*r.Range(0, 7))
			if noNL {
				for i := range body {
					if body[i] == '\n' || body[i] == '\r' {
						body[i] = ' '
					}
				}
				if !mlBodyOK(lvl, body) {
					continue
				}
			}
			s = append(s, SepItem{K: "block", Lvl: lvl, Text: HB(body)})
		}
	}
	return s
}

// layout gives every lexeme a separator such that nothing merges (Render.good).
func layout(r *lib.Rand, toks []Lexeme, style int) Prog {
	nl := "" // wild: one line-end convention per file half of the time, mixed otherwise
	if style == styleWild && r.Bool() {
		nl = nlKinds[r.Intn(4)]
	}
	p := Prog{}
	var prev *Lexeme
	fix := func(sep []SepItem, next []byte) []SepItem {
		if prev == nil {
			return sep
		}
		if !noMerge(*prev, firstByte(append(sepBytes(sep), next...))) {
			return append([]SepItem{{K: "blank", C: ' '}}, sep...)
		}
		return sep
	}
	for i := range toks {
		sep := fix(randSep(r, style, toks[i].NoNL, nl), toks[i].bytes())
		p.Items = append(p.Items, Item{Sep: sep, Lx: toks[i]})
		prev = &toks[i]
	}
	tr := randSep(r, style, false, nl)
	if style == stylePlain {
		tr = []SepItem{{K: "nl", NL: "NlLF"}}
	}
	p.Trailer = fix(tr, nil)
	return p
}
