package main

import (
	"fmt"
	"strings"

	"verifh/lib"
)

var luaAlphabet = []byte("abefxnd_019 .,;:=<>~+-*/%^#(){}[]\"'\\\n\r\t-=[]")
var fragments = []string{"[[", "]]", "--[[", "--[==[", "]==]", "--", "\"", "'", "\\", "\\\n", "0x", "1e", "..", "...", "::", "~", "~=",
	" end ", " do ", " function ", " then ", " if ", " local ", " return ", " goto ", " break ", " until ", " in ", " for ", " while ", " repeat ",
	"(", ")", "{", "}", "\f", "\v", "\x00", "\xff", "\r\n", "\n\r", "=", "=="}

func randBytes(r *lib.Rand) []byte {
	n := r.Pick(1, 4, 4, 2) * r.Range(0, 12)
	return r.Bytes(n, nil)
}

func randSoup(r *lib.Rand) []byte {
	n := r.Pick(1, 4, 4, 2) * r.Range(0, 20)
	b := r.Bytes(n, luaAlphabet)
	for i := r.Intn(3); i > 0 && len(b) > 0; i-- {
		f := fragments[r.Intn(len(fragments))]
		p := r.Intn(len(b) + 1)
		b = append(b[:p:p], append([]byte(f), b[p:]...)...)
	}
	return b
}

// tokenSoup: lexically valid lexemes in random order under a random layout
func tokenSoup(r *lib.Rand) []byte {
	g := &gen{r: r, vararg: []bool{true}, loops: []int{0}, labels: [][]string{nil}}
	n := r.Range(1, 14)
	kws := []string{"and", "break", "do", "else", "elseif", "end", "false", "for", "function", "if", "in", "local", "nil", "not", "or",
		"return", "repeat", "then", "true", "until", "while", "goto"}
	syms := []int{'+', '-', '*', '/', '%', '^', '#', mEqeq, mNeq, mLte, mGte, '<', '>', '=', '(', ')', '{', '}', '[', ']', ';', ':', ',', '.', m2Comma, m3Comma, m2Colon}
	for i := 0; i < n; i++ {
		switch r.Pick(4, 5, 3, 2, 2) {
		case 0:
			g.kw(kws[r.Intn(len(kws))])
		case 1:
			g.sym(syms[r.Intn(len(syms))])
		case 2:
			g.name()
		case 3:
			g.number()
		case 4:
			g.str()
		}
	}
	return layout(r, g.a, []int{styleCompact, stylePlain, styleWild}[r.Intn(3)]).bytes()
}

func mutate(r *lib.Rand, src []byte) []byte {
	b := append([]byte(nil), src...)
	for k := r.Pick(5, 3, 1) + 1; k > 0; k-- {
		if len(b) == 0 {
			b = append(b, byte(r.Intn(256)))
			continue
		}
		p := r.Intn(len(b))
		switch r.Pick(3, 3, 3, 3, 2, 2, 2) {
		case 0: // replace by a random byte
			b[p] = byte(r.Intn(256))
		case 1: // replace by a Lua character
			b[p] = luaAlphabet[r.Intn(len(luaAlphabet))]
		case 2: // insert a fragment
			f := fragments[r.Intn(len(fragments))]
			b = append(b[:p:p], append([]byte(f), b[p:]...)...)
		case 3: // delete a byte
			b = append(b[:p:p], b[p+1:]...)
		case 4: // delete a chunk
			q := p + r.Range(1, 12)
			if q > len(b) {
				q = len(b)
			}
			b = append(b[:p:p], b[q:]...)
		case 5: // duplicate a chunk
			q := p + r.Range(1, 12)
			if q > len(b) {
				q = len(b)
			}
			b = append(b[:q:q], append(append([]byte(nil), b[p:q]...), b[q:]...)...)
		case 6: // swap two bytes
			q := r.Intn(len(b))
			b[p], b[q] = b[q], b[p]
		}
	}
	return b
}

func sampleProgram(r *lib.Rand) []byte {
	a, b := genProgram(r, r.Range(2, 6))
	toks := a
	if r.Chance(30) {
		toks = b
	}
	return layout(r, toks, []int{styleCompact, stylePlain, styleWild, styleWild}[r.Intn(4)]).bytes()
}

// gotoShape: a small block-structured program of local declarations, labels, gotos and uses, over
// three label names and four variable names, so that every arrangement of a jump relative to the
// scopes of locals (forward, backward, into, out of a nested block, across a function) comes up.
func gotoShape(r *lib.Rand) []byte {
	var sb strings.Builder
	var block func(depth int)
	block = func(depth int) {
		for k := r.Range(1, 5); k > 0; k-- {
			c := r.Pick(3, 3, 3, 2, 2, 1, 1, 1, 1, 1)
			if depth >= 3 && c >= 4 {
				c = r.Intn(4)
			}
			switch c {
			case 0:
				fmt.Fprintf(&sb, "local v%d = %d\n", r.Intn(4), r.Intn(9))
			case 1:
				fmt.Fprintf(&sb, "goto l%d\n", r.Intn(3))
			case 2:
				fmt.Fprintf(&sb, "::l%d::%s", r.Intn(3), []string{"\n", " ", ";\n"}[r.Intn(3)])
			case 3:
				fmt.Fprintf(&sb, "v%d = v%d\n", r.Intn(4), r.Intn(4))
			case 4:
				sb.WriteString("do\n")
				block(depth + 1)
				sb.WriteString("end\n")
			case 5:
				fmt.Fprintf(&sb, "while v%d do\n", r.Intn(4))
				block(depth + 1)
				sb.WriteString("end\n")
			case 6:
				fmt.Fprintf(&sb, "if v%d then\n", r.Intn(4))
				block(depth + 1)
				if r.Bool() {
					sb.WriteString("else\n")
					block(depth + 1)
				}
				sb.WriteString("end\n")
			case 7:
				sb.WriteString("repeat\n")
				block(depth + 1)
				fmt.Fprintf(&sb, "until v%d\n", r.Intn(4))
			case 8:
				fmt.Fprintf(&sb, "local function f%d(v%d)\n", r.Intn(2), r.Intn(4))
				block(depth + 1)
				sb.WriteString("end\n")
			case 9:
				fmt.Fprintf(&sb, "for v%d = 1, 2 do\n", r.Intn(4))
				block(depth + 1)
				sb.WriteString("end\n")
			}
		}
	}
	block(0)
	return []byte(sb.String())
}

func runMalformed(w *lib.Writer, r *lib.Rand, tier string) {
	total, coqShare, ntrunc := 16000, 10, 12
	if tier == "thorough" {
		total, coqShare, ntrunc = 330000, 6, 200
	}
	type job struct {
		src    []byte
		origin string
	}
	var jobs []job
	for i := 0; i < total; i++ {
		cr := r.Fork()
		switch cr.Pick(2, 3, 3, 8) {
		case 0:
			jobs = append(jobs, job{randBytes(cr), "random-bytes"})
		case 1:
			jobs = append(jobs, job{randSoup(cr), "char-soup"})
		case 2:
			jobs = append(jobs, job{tokenSoup(cr), "token-soup"})
		case 3:
			jobs = append(jobs, job{mutate(cr, sampleProgram(cr)), "mutation"})
		}
	}
	// several gotos without a visible label in one function: a compile error whose value (which goto
	// it names) must be the same on every load
	for i := 0; i < total/400+20; i++ {
		cr := r.Fork()
		src := sampleProgram(cr)
		pre := ""
		for k := cr.Range(2, 4); k > 0; k-- {
			pre += fmt.Sprintf("goto nolabel%d%s", cr.Intn(5), []string{" ", "\n", ";"}[cr.Intn(3)])
		}
		if cr.Bool() {
			pre = "local function f() " + pre + "end "
		}
		jobs = append(jobs, job{append([]byte(pre), src...), "dangling-gotos"})
	}
	// labels, gotos and local declarations in nested blocks: valid and invalid jumps (into the scope of
	// a local, to a label that is not visible, duplicate labels ...) end in a function or a syntax error
	for i := 0; i < total/25; i++ {
		jobs = append(jobs, job{gotoShape(r.Fork()), "goto-shapes"})
	}
	for i := 0; i < ntrunc; i++ { // every truncation of a sample of programs
		cr := r.Fork()
		src := sampleProgram(cr)
		if len(src) > 400 {
			src = src[:400]
		}
		for k := 0; k <= len(src); k++ {
			jobs = append(jobs, job{src[:k], "truncation"})
		}
	}
	rqs := make([]Request, len(jobs))
	pick := make([]bool, len(jobs))
	for i, j := range jobs {
		pick[i] = r.Chance(coqShare) && len(j.src) <= 600
		rqs[i] = Request{ID: i, Src: HB(j.src), WantToks: pick[i], LimitMs: 2000}
		if j.origin == "dangling-gotos" || i%10 == 0 {
			rqs[i].Repeat = 4
			rqs[i].LimitMs = 4000
		}
	}
	res := runAll(rqs, workers)
	// a third of the inputs once more through the one-byte-per-Read reader: same class, same tokens
	var slowIdx []int
	var slowRq []Request
	for i := range jobs {
		if i%3 == 0 {
			slowIdx = append(slowIdx, i)
			slowRq = append(slowRq, Request{ID: len(slowRq), Src: rqs[i].Src, WantToks: rqs[i].WantToks, Slow: true, LimitMs: 3000})
		}
	}
	slowRes := runAll(slowRq, workers)
	slowDiff := map[int]string{}
	for k, i := range slowIdx {
		if goFailOf(res[i]) == "" && goFailOf(slowRes[k]) == "" {
			if d := sameObservation(res[i], slowRes[k]); d != "" {
				slowDiff[i] = d
			}
		}
	}
	w.Meta.Extra["malformed_also_through_1_byte_reader"] = len(slowIdx)
	dist := map[string]int{}
	goOnly := 0
	for i, j := range jobs {
		in := In{Kind: "bytes", Src: HB(j.src), Origin: j.origin}
		dist[j.origin+"/"+loadNames[res[i].Load]]++
		if d, bad := slowDiff[i]; bad {
			id := w.NextID()
			w.Add(lib.Case{Input: in, Observed: observed(res[i]), Class: "malformed/" + j.origin, Nontrivial: true, Coq: "CGoSide false"})
			w.GoFail(id, "the outcome depends on how the reader delivers the same bytes (bulk vs one byte per Read): "+d)
		}
		if pick[i] {
			if res[i].Load > loadSyntax && res[i].Toks == nil && res[i].LexErr == nil {
				// the child died or hung before it could scan: no token observation
				addGoSide(w, in, res[i], "malformed/"+j.origin, kfBytes(j.src, res[i]))
				continue
			}
			addBytes(w, in, res[i], "malformed/"+j.origin, kfBytes(j.src, res[i]))
			continue
		}
		goOnly++
		if goFailOf(res[i]) != "" {
			addGoSide(w, in, res[i], "malformed/"+j.origin, kfBytes(j.src, res[i]))
		}
	}
	w.Meta.GoOnlyChecked += goOnly
	w.Meta.Extra["malformed_total"] = len(jobs)
	w.Meta.Extra["malformed_distribution"] = dist
}

// ---------------- LoadFile: the first line starting with '#' ----------------

// stripFirstLine is luaL_loadfile's rule: a first line starting with '#' is dropped up to (not
// including) its newline character, or entirely when there is none.
func stripFirstLine(src []byte) []byte {
	if len(src) == 0 || src[0] != '#' {
		return src
	}
	for i, c := range src {
		if c == '\n' {
			return src[i:]
		}
	}
	return nil
}

// runLoadFile: LoadFile(text) must end like LoadString(text without its '#' line): Go side only.
func runLoadFile(w *lib.Writer, r *lib.Rand, tier string) {
	n := 400
	if tier == "thorough" {
		n = 6000
	}
	fixed := []string{"#", "#abc", "#!/usr/bin/lua", "#x\n", "#x\nreturn 1", "#x\r\nreturn = 1", "", "#\n", "##", "x#", "#return 1",
		"#a\rreturn 1", "#!lua\nreturn ...", "# \n\n\nx = = 1", "#\x00\n", "#\nreturn\f1"}
	var srcs [][]byte
	for _, t := range fixed {
		srcs = append(srcs, []byte(t))
	}
	for i := 0; i < n; i++ {
		cr := r.Fork()
		var body []byte
		switch cr.Pick(3, 2, 2) {
		case 0:
			body = sampleProgram(cr)
		case 1:
			body = mutate(cr, sampleProgram(cr))
		case 2:
			body = randSoup(cr)
		}
		switch cr.Pick(5, 2, 1) {
		case 0:
			line := cr.Bytes(cr.Range(0, 12), []byte("!/usr binlua-#\r \t"))
			body = append(append(append([]byte("#"), line...), '\n'), body...)
		case 1:
			body = append([]byte("#"), body...) // no newline of its own: the program's first line is lost
		}
		srcs = append(srcs, body)
	}
	rqs := make([]Request, 0, 2*len(srcs))
	for i, s := range srcs {
		rqs = append(rqs, Request{ID: 2 * i, Src: HB(s), File: true, LimitMs: 3000},
			Request{ID: 2*i + 1, Src: HB(stripFirstLine(s)), LimitMs: 3000})
	}
	res := runAll(rqs, workers)
	for i, s := range srcs {
		rf, rs := res[2*i], res[2*i+1]
		in := In{Kind: "file", Src: HB(s)}
		bad := goFailOf(rf)
		if bad == "" && goFailOf(rs) == "" && rf.Load != rs.Load {
			bad = fmt.Sprintf("LoadFile ends in %s but LoadString of the text without its '#' line ends in %s", loadNames[rf.Load], loadNames[rs.Load])
		}
		if i < len(fixed) || bad != "" {
			addFileCase(w, in, rf, bad)
		} else {
			w.Meta.GoOnlyChecked++
		}
	}
	w.Meta.Extra["loadfile_cases"] = len(srcs)
}

func addFileCase(w *lib.Writer, in In, r Result, bad string) {
	id := w.NextID()
	w.Add(lib.Case{Input: in, Observed: observed(r), Class: "loadfile", Nontrivial: len(in.Src) > 0,
		Coq: "CGoSide " + lib.CoqBool(bad == "")})
	if bad != "" {
		w.GoFail(id, bad)
	}
}

// ---------------- a reader that fails in the middle of the source ----------------

// runFailingReader: LState.Load from a reader that delivers a prefix and then fails with an error
// other than io.EOF (truncated stream), at every kind of place: inside a line comment, a block
// comment, a quoted string, a long string, between tokens. Load must come back (no hang, no panic)
// with an error value - a syntax error or a file error -, never with a function.
func runFailingReader(w *lib.Writer, r *lib.Rand, tier string) {
	n := 60
	if tier == "thorough" {
		n = 3000
	}
	type job struct {
		src []byte
		at  int
	}
	var jobs []job
	for _, t := range []string{"x = 1 -- the rest of the file is lost", "x = 'abc def'", "x = [[abc\ndef]]", "--[[ abc\ndef ]] x = 1",
		"x = [==[abc]==]", "return 1", "x = \"a\\\nb\"", "-- c\n-- d\nreturn"} {
		for at := 1; at <= len(t); at++ {
			jobs = append(jobs, job{[]byte(t), at})
		}
	}
	for i := 0; i < n; i++ {
		cr := r.Fork()
		src := sampleProgram(cr)
		jobs = append(jobs, job{src, cr.Range(1, len(src))})
	}
	rqs := make([]Request, len(jobs))
	for i, j := range jobs {
		rqs[i] = Request{ID: i, Src: HB(j.src), FailAt: j.at, LimitMs: 3000}
	}
	res := runAll(rqs, workers)
	dist := map[string]int{}
	for i, j := range jobs {
		rr := res[i]
		dist[loadNames[rr.Load]]++
		bad := ""
		switch rr.Load {
		case loadSyntax, loadFileErr:
		case loadFunction:
			bad = "Load returns a function although the reader failed after " + fmt.Sprint(j.at) + " bytes"
		default:
			bad = "Load from a failing reader ended in " + loadNames[rr.Load] + ": " + rr.Msg
		}
		if bad == "" {
			w.Meta.GoOnlyChecked++
			continue
		}
		id := w.NextID()
		w.Add(lib.Case{Input: In{Kind: "failread", Src: HB(j.src), N: j.at}, Observed: observed(rr), Class: "failing-reader", Nontrivial: true,
			Coq: "CGoSide false"})
		w.GoFail(id, bad)
	}
	w.Meta.Extra["failing_reader_cases"] = len(jobs)
	w.Meta.Extra["failing_reader_distribution"] = dist
}

// ---------------- adversarial sizes ----------------

const advLimitMs = 120000

func advSource(shape string, n int) []byte {
	var sb strings.Builder
	rep := strings.Repeat
	list := func(f func(i int) string) {
		for i := 0; i < n; i++ {
			if i > 0 {
				sb.WriteString(",")
			}
			sb.WriteString(f(i))
		}
	}
	switch shape {
	case "locals": // n local statements
		for i := 0; i < n; i++ {
			fmt.Fprintf(&sb, "local v%d = %d\n", i, i)
		}
	case "locals1": // one local statement with n names
		sb.WriteString("local ")
		list(func(i int) string { return fmt.Sprintf("v%d", i) })
	case "strconsts": // n distinct string constants in one table
		sb.WriteString("local t = {")
		for i := 0; i < n; i++ {
			fmt.Fprintf(&sb, "'s%d',", i)
		}
		sb.WriteString("}")
	case "consttable-num": // a flat data table of n distinct numbers (loading time must not be quadratic in n)
		sb.WriteString("local t = {")
		for i := 0; i < n; i++ {
			fmt.Fprintf(&sb, "%d,", i)
		}
		fmt.Fprintf(&sb, "}\nreturn t[%d] + #t", n)
	case "consttable-str":
		sb.WriteString("local t = {")
		for i := 0; i < n; i++ {
			fmt.Fprintf(&sb, "'s%d',", i)
		}
		fmt.Fprintf(&sb, "}\nreturn #t .. t[%d]", n)
	case "numconsts": // n distinct number constants as RK operands
		for i := 0; i < n; i++ {
			fmt.Fprintf(&sb, "x = %d + y\n", i+1000)
		}
	case "globals": // n distinct global names
		for i := 0; i < n; i++ {
			fmt.Fprintf(&sb, "g%d = g%d\n", i, i+1)
		}
	case "tables":
		sb.WriteString("x = " + rep("{", n) + rep("}", n))
	case "funcs":
		sb.WriteString("x = " + rep("function() return ", n) + "1" + rep(" end", n))
	case "parens":
		sb.WriteString("x = " + rep("(", n) + "1" + rep(")", n))
	case "parens-open":
		sb.WriteString("x = " + rep("(", n))
	case "parens-close":
		sb.WriteString("x = 1" + rep(")", n))
	case "brackets-open":
		sb.WriteString("x = " + rep("{", n))
	case "longline":
		sb.WriteString("x = 1" + rep(" + 1", n))
	case "concat":
		sb.WriteString("x = 'a'" + rep(" .. 'a'", n))
	case "unary":
		sb.WriteString("x = " + rep("- ", n) + "1")
	case "unary-var": // not a constant: constant folding must not re-walk the operand at every level
		sb.WriteString("x = " + rep("- ", n) + "y")
	case "arith-var": // left-nested chain of n additions of variables (loading time must not be quadratic in n)
		sb.WriteString("x = a" + rep(" + a", n))
	case "arith-mixed": // constant sub-expressions inside a chain that is not constant
		sb.WriteString("x = a" + rep(" + (2 * 3 - -1)", n))
	case "not":
		sb.WriteString("x = " + rep("not ", n) + "1")
	case "pow":
		sb.WriteString("x = 2" + rep("^2", n))
	case "and":
		sb.WriteString("x = a" + rep(" and a", n))
	case "cmp":
		sb.WriteString("x = a" + rep(" < a", n))
	case "index":
		sb.WriteString("x = a" + rep(".b", n))
	case "calls":
		sb.WriteString("x = a" + rep("()", n))
	case "do":
		sb.WriteString(rep("do ", n) + rep(" end", n))
	case "if":
		sb.WriteString(rep("if x then ", n) + rep(" end", n))
	case "elseif":
		sb.WriteString("if x then " + rep("elseif x then y=1 ", n) + " end")
	case "while":
		sb.WriteString(rep("while x do ", n) + rep(" end", n))
	case "args":
		sb.WriteString("f(")
		list(func(int) string { return "1" })
		sb.WriteString(")")
	case "params":
		sb.WriteString("function f(")
		list(func(i int) string { return fmt.Sprintf("p%d", i) })
		sb.WriteString(") end")
	case "assign":
		list(func(i int) string { return fmt.Sprintf("a%d", i) })
		sb.WriteString(" = 1")
	case "return":
		sb.WriteString("return ")
		list(func(int) string { return "x" })
	case "fields":
		sb.WriteString("t = {")
		list(func(i int) string { return fmt.Sprintf("f%d=%d", i, i) })
		sb.WriteString("}")
	case "longstring":
		sb.WriteString("x = '" + rep("a", n) + "'")
	case "longbracket":
		sb.WriteString("x = [" + rep("=", n) + "[ text ]" + rep("=", n) + "]")
	case "longname":
		sb.WriteString(rep("a", n) + " = 1")
	case "longcomment":
		sb.WriteString("--" + rep("c", n) + "\nx = 1 --[[" + rep("\n", n) + "]]")
	case "manylines":
		sb.WriteString(rep("\n", n) + "x = = 1")
	case "upvalues": // a closure over n outer locals (n <= 199)
		for i := 0; i < n; i++ {
			fmt.Fprintf(&sb, "local u%d\n", i)
		}
		sb.WriteString("function f() return ")
		list(func(i int) string { return fmt.Sprintf("u%d", i) })
		sb.WriteString(" end")
	case "localscall": // k locals, then a call with m arguments: k + 1 + m registers (n = 1000*k + m)
		k, m := n/1000, n%1000
		for i := 0; i < k; i++ {
			fmt.Fprintf(&sb, "local a%d = %d\n", i, i)
		}
		sb.WriteString("return tostring(")
		for i := 0; i < m; i++ {
			if i > 0 {
				sb.WriteString(",")
			}
			sb.WriteString("a0")
		}
		sb.WriteString(")")
	case "localsexpr": // k locals, then a right-nested expression d deep: about d temporaries (n = 1000*k + d)
		k, dd := n/1000, n%1000
		for i := 0; i < k; i++ {
			fmt.Fprintf(&sb, "local a%d = %d\n", i, i)
		}
		sb.WriteString("return " + rep("a0 .. (", dd) + "a0" + rep(")", dd))
	case "labels-and": // flat: n expressions with jump labels each; returns n/500
		sb.WriteString("local a, b, n = false, 2, 0\n")
		for i := 1; i <= n; i++ {
			sb.WriteString("do local x = a and b end\n")
			if i%500 == 0 {
				sb.WriteString("n = n + 1\n")
			}
		}
		sb.WriteString("return n")
	case "labels-if": // flat: n if-statements (3 labels each); returns n
		sb.WriteString("local n = 0\n")
		for i := 0; i < n; i++ {
			sb.WriteString("if n >= 0 then n = n + 1 end\n")
		}
		sb.WriteString("return n")
	case "labels-while": // flat: n loops that run once; returns n
		sb.WriteString("local n = 0\n")
		for i := 0; i < n; i++ {
			sb.WriteString("while n == " + fmt.Sprint(i) + " do n = n + 1 end\n")
		}
		sb.WriteString("return n")
	case "labels":
		for i := 0; i < n; i++ {
			fmt.Fprintf(&sb, "::l%d:: goto l%d\n", i, i)
		}
	default:
		panic("unknown adversarial shape " + shape)
	}
	return []byte(sb.String())
}

type advCase struct {
	shape string
	n     int
}

// mustAccept: Lua 5.1 accepts these (at most 200 local variables, fewer than 250 registers), so a
// syntax error is a failure, not just "no crash"
func mustAccept(shape string, n int) bool {
	k, m := n/1000, n%1000
	switch shape {
	case "localscall":
		return k <= 200 && k+1+m < 250
	case "localsexpr":
		return k <= 200 && k+m+2 < 250
	case "locals":
		return n <= 200
	case "labels-and", "labels-if", "labels-while": // flat code: every jump is short
		return true
	case "consttable-num", "consttable-str": // MAXARG_Bx constants per function
		return n <= 262000
	}
	return false
}

// expectedReturn: what the program returns when it is run (ok = the shape is run at all)
func expectedReturn(shape string, n int) (string, bool) {
	switch shape {
	case "labels-and":
		return fmt.Sprint(n / 500), true
	case "labels-if", "labels-while":
		return fmt.Sprint(n), true
	case "consttable-num":
		return fmt.Sprint(2*n - 1), true
	case "consttable-str":
		return fmt.Sprintf("%ds%d", n, n-1), true
	}
	return "", false
}

func advList(tier string) []advCase {
	l := []advCase{
		{"locals", 199}, {"locals", 200}, {"locals", 201}, {"locals", 300}, {"locals1", 200}, {"locals1", 250},
		{"strconsts", 255}, {"strconsts", 256}, {"strconsts", 257}, {"strconsts", 511}, {"strconsts", 512}, {"strconsts", 513}, {"strconsts", 3000},
		{"numconsts", 256}, {"numconsts", 512}, {"numconsts", 600}, {"globals", 300}, {"globals", 600},
		{"tables", 100}, {"tables", 250}, {"tables", 100000}, {"funcs", 100}, {"funcs", 250}, {"funcs", 3000},
		{"parens", 100}, {"parens", 1000}, {"parens", 100000}, {"parens-open", 100000}, {"parens-close", 100000}, {"brackets-open", 100000},
		{"longline", 100000}, {"concat", 100}, {"concat", 1000}, {"unary", 100000}, {"not", 100000}, {"pow", 100000}, {"and", 1000}, {"and", 100000},
		{"cmp", 100000}, {"index", 100000}, {"calls", 100000}, {"do", 250}, {"do", 2000}, {"if", 250}, {"if", 2000}, {"while", 250}, {"elseif", 2000},
		{"args", 250}, {"args", 300}, {"params", 200}, {"params", 300}, {"assign", 250}, {"assign", 300}, {"return", 250}, {"return", 300},
		{"fields", 600}, {"longstring", 1000000}, {"longbracket", 100000}, {"longname", 1000000}, {"longcomment", 1000000}, {"manylines", 1000000},
		{"upvalues", 60}, {"upvalues", 199}, {"labels", 2000},
		// at the limits of one frame: 200 local variables, 250 registers (locals + temporaries)
		{"localscall", 190001}, {"localscall", 198001}, {"localscall", 199001}, {"localscall", 199002}, {"localscall", 200000},
		{"localscall", 200001}, {"localscall", 200010}, {"localscall", 200040}, {"localscall", 200048}, {"localscall", 200049},
		{"localscall", 200060}, {"localscall", 195053}, {"localscall", 201001}, {"localsexpr", 190010}, {"localsexpr", 199003},
		{"localsexpr", 200020}, {"localsexpr", 200046}, {"localsexpr", 200060}, {"localsexpr", 196040},
		// more than 131072 jump labels in one flat function (label numbers must not wrap)
		{"labels-and", 500}, {"labels-and", 32500}, {"labels-and", 33000}, {"labels-and", 66000},
		{"labels-if", 40000}, {"labels-if", 44000}, {"labels-if", 90000}, {"labels-while", 30000}, {"labels-while", 50000},
		// flat data tables: constants are looked up in a map since /repo c7c7b9c (was a linear scan: 200000 distinct constants took 130 s)
		{"consttable-num", 1000}, {"consttable-num", 200000}, {"consttable-str", 200000},
		{"do", 100000}, {"do", 500000}, // linear since /repo 950d344 (was quadratic: 100000 took a minute)
		// chains of operators over variables: constFold re-walked the whole operand at every level (quadratic: 40000 terms took 20 s)
		{"arith-var", 1000}, {"arith-var", 150000}, {"unary-var", 150000}, {"arith-mixed", 100000},
		{"tables", 1000000}, // C08-3: kills the process
	}
	if tier == "thorough" {
		l = append(l, advCase{"parens", 1000000}, advCase{"longline", 1000000}, advCase{"unary", 1000000}, advCase{"pow", 1000000},
			advCase{"not", 1000000}, advCase{"calls", 1000000}, advCase{"cmp", 1000000}, advCase{"index", 1000000}, advCase{"funcs", 20000},
			advCase{"do", 10000}, advCase{"strconsts", 20000}, advCase{"tables", 400000})
	}
	return l
}

// deep AST nesting: the recursive descent of compile.go overflows the Go stack (C08-3)
func kfAdv(shape string, n int) []string {
	switch shape {
	case "tables", "not", "calls", "cmp", "index", "funcs", "unary", "pow", "and", "concat", "unary-var", "arith-var", "arith-mixed":
		if n >= 500000 {
			return []string{"C08-3"}
		}
	}
	return nil
}

// advVerdict turns "a valid program is rejected" and "the loaded function returns something else"
// into failures
func advVerdict(shape string, n int, r Result) Result {
	if mustAccept(shape, n) && r.Load == loadSyntax {
		r.Load, r.Msg = loadOtherErr, "a program that Lua 5.1 accepts is rejected: "+r.Msg
	}
	if want, run := expectedReturn(shape, n); run && r.Load == loadFunction && r.RunOut != "ok:"+want {
		r.Load, r.Msg = loadOtherErr, "the loaded function must return "+want+" but: "+r.RunOut
	}
	return r
}

func runAdversarial(w *lib.Writer, tier string) {
	l := advList(tier)
	rqs := make([]Request, len(l))
	for i, c := range l {
		_, run := expectedReturn(c.shape, c.n)
		rqs[i] = Request{ID: i, Src: HB(advSource(c.shape, c.n)), Run: run, LimitMs: advLimitMs}
	}
	res := runAll(rqs, 4)
	for i, c := range l {
		r := res[i]
		r = advVerdict(c.shape, c.n, r)
		addGoSide(w, In{Kind: "adv", Shape: c.shape, N: c.n}, r, "adversarial/"+c.shape, kfAdv(c.shape, c.n))
	}
}

// ---------------- corpus: witnesses of defects and earlier failures, run first ----------------

func corpus(w *lib.Writer) {
	texts := []string{
		"return\f1", "return\v1", // C08-1 (fixed fb0de2f)
		"--[==x\nreturn 1", "--[== heading ==]\nreturn 1", "--[=\nreturn 1", "--[", "--[=", "--[==[x\n]]\n]==] return 1", // C08-2 (fixed 7485711)
		"x = 1e", "return 3..2", "x=0x", "x=007.5", "x = 1e\r\n+2", // numerals (C16-5, fixed by bcbe0e8)
		"a\n\r\n\rb\r\rc", "x = '\\\r\ny'", "--[[\n\r\nx]] y", "[==[\r\n\r\nx]=]]==]", "\"\\", "\"\\999\\65z\"", "~", "a=[\x80", "a = [=x",
		"f()\n(g)()", "a.b...", "", "\n", "\r", "#!/bin/lua\nreturn 1", "x = [[", "x = '", "--[[", "x = \"a\\", "::", "goto", "x = ]]",
	}
	var rqs []Request
	for i, t := range texts {
		rqs = append(rqs, Request{ID: i, Src: HB(t), WantToks: true, LimitMs: 2000})
	}
	res := runAll(rqs, 4)
	for i, t := range texts {
		addBytes(w, In{Kind: "bytes", Src: HB(t), Origin: "corpus"}, res[i], "corpus", kfBytes([]byte(t), res[i]))
	}
	boundaryCases(w)
	numeralEdgeCases(w)
	// the fixed defects as layout cases: "return <sep> 1" must be a function with tokens [return; 1]
	ret, one := name("return"), Lexeme{K: "num", S: HB("1")}
	for _, sep := range [][]SepItem{
		{{K: "blank", C: '\f'}}, {{K: "blank", C: '\v'}},
		{{K: "line", Text: HB("[==x"), NL: "NlLF"}}, {{K: "line", Text: HB("[== heading ==]"), NL: "NlCRLF"}}, {{K: "line", Text: HB("[="), NL: "NlCR"}},
		{{K: "block", Lvl: 2, Text: HB("x\n]]\n")}}, {{K: "nl", NL: "NlLF"}, {K: "nl", NL: "NlCR"}, {K: "nl", NL: "NlLF"}, {K: "nl", NL: "NlCR"}},
	} {
		p := Prog{Items: []Item{{Sep: nil, Lx: ret}, {Sep: sep, Lx: one}}}
		ref := []byte("return 1")
		rs := runAll([]Request{{ID: 0, Src: HB(ref), WantProto: true, LimitMs: 2000}, {ID: 1, Src: HB(p.bytes()), WantToks: true, WantProto: true, LimitMs: 2000}}, 1)
		pp := p
		addValid(w, In{Kind: "valid", Prog: &pp, RefSrc: HB(ref)}, rs[1], rs[0].Proto == rs[1].Proto && rs[1].Load == loadFunction, "corpus", nil)
	}
}

// ---------------- two-byte line ends across the scanner's buffer refills ----------------

// boundaryCases: programs padded by a leading comment so that a CR LF (or LF CR) pair sits exactly
// on a refill boundary of the scanner's 4096-byte bufio buffer (first byte at offset 4095 / 8191),
// with the pair at each place where a line end means something: between statements, inside a long
// string (also as its skipped first line end), after a backslash in a quoted string, at the end of
// a line comment, inside a block comment. Reference for the bytecode: the LF rendering without
// padding. Every case is also loaded through the one-byte-per-Read reader.
func boundaryCases(w *lib.Writer) {
	x, y := name("x"), name("y")
	eq := sym('=')
	one, two := Lexeme{K: "num", S: HB("1")}, Lexeme{K: "num", S: HB("2")}
	ret := name("return")
	lf := []SepItem{{K: "nl", NL: "NlLF"}}
	sp := []SepItem{{K: "blank", C: ' '}}
	type site struct {
		name string
		prog func(pair string) Prog // pair = NlCRLF | NlLFCR (or NlLF for the reference)
	}
	tail := func(items []Item) []Item { // two more lines so that later line numbers are observed
		return append(items, Item{lf, y}, Item{nil, eq}, Item{nil, two}, Item{lf, ret}, Item{sp, x})
	}
	sites := []site{
		{"between-statements", func(p string) Prog {
			return Prog{Items: tail([]Item{{nil, x}, {nil, eq}, {nil, one}, {[]SepItem{{K: "nl", NL: p}}, x}, {nil, eq}, {nil, two}})}
		}},
		{"in-long-string", func(p string) Prog {
			return Prog{Items: tail([]Item{{nil, x}, {nil, eq}, {nil, Lexeme{K: "long", Lvl: 1, S: HB("a" + nlText[p] + "b")}}})}
		}},
		{"first-line-end-of-long-string", func(p string) Prog {
			return Prog{Items: tail([]Item{{nil, x}, {nil, eq}, {nil, Lexeme{K: "long", Lvl: 0, S: HB(nlText[p] + "b")}}})}
		}},
		{"after-backslash-in-string", func(p string) Prog {
			return Prog{Items: tail([]Item{{nil, x}, {nil, eq}, {nil, Lexeme{K: "str", Q: '"', Items: []SItem{{K: "char", C: 'a'}, {K: "escnl", NL: p}, {K: "char", C: 'b'}}}}})}
		}},
		{"end-of-line-comment", func(p string) Prog {
			return Prog{Items: tail([]Item{{nil, x}, {nil, eq}, {nil, one}, {[]SepItem{{K: "line", Text: HB(" c"), NL: p}}, x}, {nil, eq}, {nil, two}})}
		}},
		{"in-block-comment", func(p string) Prog {
			return Prog{Items: tail([]Item{{nil, x}, {nil, eq}, {nil, one}, {[]SepItem{{K: "block", Lvl: 0, Text: HB("a" + nlText[p] + "b")}}, x}, {nil, eq}, {nil, two}})}
		}},
	}
	var jobs []validJob
	var srcs [][]byte
	for _, st := range sites {
		for _, pair := range []string{"NlCRLF", "NlLFCR"} {
			for _, target := range []int{4095, 8191} {
				p := st.prog(pair)
				at := strings.Index(string(p.bytes()), nlText[pair])
				pad := target - at - 3 // "--" + pad + "\n" in front moves the pair's first byte to `target`
				padded := Prog{Items: append([]Item(nil), p.Items...)}
				padded.Items[0].Sep = append([]SepItem{{K: "line", Text: HB(strings.Repeat("p", pad)), NL: "NlLF"}}, padded.Items[0].Sep...)
				if b := padded.bytes(); string(b[target:target+2]) != nlText[pair] {
					panic("boundaryCases: pair not at the boundary")
				}
				ref := st.prog("NlLF")
				// the reference goes first (index = its own), then the padded layout twice (bulk / one-byte observation)
				ri := len(jobs)
				rp := ref
				jobs = append(jobs, validJob{In{Kind: "valid", Prog: &rp, RefSrc: HB(ref.bytes())}, "boundary/reference-LF", ri, false})
				srcs = append(srcs, ref.bytes())
				pp := padded
				jobs = append(jobs, validJob{In{Kind: "valid", Prog: &pp, RefSrc: HB(ref.bytes())},
					fmt.Sprintf("boundary/%s/%s@%d", st.name, pair, target), ri, false})
				srcs = append(srcs, padded.bytes())
			}
		}
	}
	runValidJobs(w, jobs, srcs)
}

// numeralEdgeCases: a numeral directly followed (no blank) by an operator or a comment, against the
// same lexemes separated by blanks: hexadecimal numerals ending in e/E before + - and "--", numerals
// with an exponent before "..", "-" and "+".
func numeralEdgeCases(w *lib.Writer) {
	num := func(s string) Lexeme { return Lexeme{K: "num", S: HB(s)} }
	str := Lexeme{K: "str", Q: '\'', Items: nil}
	ret := name("return")
	var progs [][]Lexeme
	for _, n := range []string{"0xe", "0xE", "0xfe", "0XAE", "0x1e", "1e2", "1E2", "2.5e1", "7E-1", ".5e1", "0x10", "5"} {
		for _, op := range []int{'+', '-', m2Comma, '*', mEqeq} {
			if op == m2Comma {
				progs = append(progs, []Lexeme{ret, num(n), sym(op), str})
			} else {
				progs = append(progs, []Lexeme{ret, num(n), sym(op), num("1")})
			}
		}
		progs = append(progs, []Lexeme{ret, sym('{'), num(n), sym('-'), num("0xe"), sym('}')})
	}
	var jobs []validJob
	var srcs [][]byte
	add := func(p Prog, class string, ref int, refSrc []byte) {
		pp := p
		jobs = append(jobs, validJob{In{Kind: "valid", Prog: &pp, RefSrc: HB(refSrc)}, class, ref, false})
		srcs = append(srcs, p.bytes())
	}
	r := lib.NewRand(8)
	for _, toks := range progs {
		spaced := Prog{}
		for i, l := range toks {
			var sep []SepItem
			if i > 0 {
				sep = []SepItem{{K: "blank", C: ' '}}
			}
			spaced.Items = append(spaced.Items, Item{sep, l})
		}
		ri := len(jobs)
		add(spaced, "numeral-edge/blanks", ri, spaced.bytes())
		add(layout(r, toks, styleCompact), "numeral-edge/no-blank", ri, spaced.bytes())
		// a comment glued to the numeral: 0xfe--[[c]]-1
		glued := Prog{Items: append([]Item(nil), layout(r, toks, styleCompact).Items...)}
		if !(toks[1].K == "sym") && noMerge(toks[1], '-') {
			glued.Items[2].Sep = append([]SepItem{{K: "block", Lvl: 0, Text: HB("c")}}, glued.Items[2].Sep...)
			add(glued, "numeral-edge/comment-glued", ri, spaced.bytes())
		}
	}
	runValidJobs(w, jobs, srcs)
}
