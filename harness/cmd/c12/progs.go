package main

// Whole-state part of C12: option normalisation, the Options matrix on programs that stay below
// the limits (identical traces) and programs that straddle each limit under pcall.
// Everything that runs Lua code runs in a child process (`c12 child`) with a time limit.

import (
	"bufio"
	"context"
	"encoding/json"
	"fmt"
	"hash/fnv"
	"math"
	"os"
	"os/exec"
	"runtime/debug"
	"strings"
	"time"

	lua "github.com/yuin/gopher-lua"
	"verifh/lib"
)

type Cfg struct {
	CSS  int  `json:"css"`
	Reg  int  `json:"reg"`
	Max  int  `json:"max"`
	Grow int  `json:"grow"`
	Min  bool `json:"min"`
	Ctx  bool `json:"ctx,omitempty"` // an (undone) context is attached
	// CtxMode says which undone context and when (only with Ctx): "" an uncancelled WithCancel attached before the
	// program is loaded; "bg" context.Background(); "deadline" a WithTimeout of one hour; "removed" attached and removed
	// again before the program runs; "late" attached by the program's call of setctx() (coroutines exist already);
	// "midrm" attached before the program, removed by the program's call of rmctx()
	CtxMode string `json:"ctxmode,omitempty"`
	Pkg     bool   `json:"pkg,omitempty"` // the third way of configuring: the package variables lua.CallStackSize / lua.RegistrySize /
	// lua.RegistryGrowStep are set to CSS / Reg / Grow and the state is made by lua.NewState() without arguments
}

// newState makes a state the way the configuration says; restore puts the process-global package
// variables back (no-op for the Options way).
func (c Cfg) newState() (L *lua.LState, restore func()) {
	if !c.Pkg {
		return lua.NewState(c.opts()), func() {}
	}
	css, reg, grow := lua.CallStackSize, lua.RegistrySize, lua.RegistryGrowStep
	lua.CallStackSize, lua.RegistrySize = c.CSS, c.Reg
	if c.Grow > 0 {
		lua.RegistryGrowStep = c.Grow
	}
	restore = func() { lua.CallStackSize, lua.RegistrySize, lua.RegistryGrowStep = css, reg, grow }
	return lua.NewState(), restore
}

func (c Cfg) opts() lua.Options {
	return lua.Options{CallStackSize: c.CSS, RegistrySize: c.Reg, RegistryMaxSize: c.Max, RegistryGrowStep: c.Grow, MinimizeStackMemory: c.Min}
}

func optCoq(css, reg, max, grow int, min bool) string {
	z := func(i int) string { return lib.CoqZ(int64(i)) }
	return fmt.Sprintf("(mkOpt %s %s %s %s %s)", z(css), z(reg), z(max), z(grow), lib.CoqBool(min))
}

// normalised returns what NewState makes of the configuration (read back from L.Options).
func (c Cfg) normalised() Cfg {
	if c.Pkg {
		// what the configuration MEANS (README: the package variables are the defaults of NewState()):
		// a fixed call stack of CSS frames and a fixed registry of Reg cells; not read back from the code
		return Cfg{CSS: c.CSS, Reg: c.Reg, Ctx: c.Ctx, Pkg: true}
	}
	L := lua.NewState(func() lua.Options { o := c.opts(); o.SkipOpenLibs = true; return o }())
	defer L.Close()
	o := L.Options
	return Cfg{CSS: o.CallStackSize, Reg: o.RegistrySize, Max: o.RegistryMaxSize, Grow: o.RegistryGrowStep, Min: o.MinimizeStackMemory, Ctx: c.Ctx}
}

func (c Cfg) coq() string { return optCoq(c.CSS, c.Reg, c.Max, c.Grow, c.Min) }

/* ---------- option normalisation ---------- */

type OptsIn struct {
	Kind string `json:"kind"` // "opts"
	Cfg  Cfg    `json:"cfg"`
}

func runOpts(w *lib.Writer, in OptsIn) {
	if in.Cfg.Pkg {
		// the state made by NewState() must carry the package variables' values
		L, restore := in.Cfg.newState()
		o := L.Options
		L.Close()
		restore()
		got := Cfg{CSS: o.CallStackSize, Reg: o.RegistrySize, Max: o.RegistryMaxSize, Grow: o.RegistryGrowStep, Min: o.MinimizeStackMemory, Pkg: true}
		given := Cfg{CSS: in.Cfg.CSS, Reg: in.Cfg.Reg}
		w.Add(lib.Case{Input: in, Observed: got, Class: "opts/pkgvars", Nontrivial: in.Cfg.CSS != 256 || in.Cfg.Reg != 5120,
			Coq: fmt.Sprintf("COpts %s %s", given.coq(), got.coq())})
		return
	}
	n := in.Cfg.normalised()
	w.Add(lib.Case{Input: in, Observed: n, Class: "opts",
		Nontrivial: n != in.Cfg,
		Coq:        fmt.Sprintf("COpts %s %s", in.Cfg.coq(), n.coq())})
}

func genOpts(r *lib.Rand) OptsIn {
	pick := func(vs ...int) int { return vs[r.Intn(len(vs))] }
	if r.Chance(25) {
		// package variables + NewState(): values NewState(Options{...}) would keep as they are
		return OptsIn{Kind: "opts", Cfg: Cfg{Pkg: true, CSS: pick(1, 2, 7, 8, 9, 16, 17, 30, 255, 256, 257, 1000), Reg: pick(128, 129, 200, 1000, 5119, 5120, 5121, 8192), Grow: pick(0, 1, 32)}}
	}
	return OptsIn{Kind: "opts", Cfg: Cfg{
		CSS:  pick(-1, 0, 1, 2, 7, 8, 9, 16, 17, 256, 1000),
		Reg:  pick(-5, 0, 1, 127, 128, 129, 256, 5120, 10000),
		Max:  pick(-1, 0, 1, 127, 128, 129, 256, 5119, 5120, 5121, 131072),
		Grow: pick(-3, 0, 1, 2, 32, 64),
		Min:  r.Bool(),
	}}
}

/* ---------- jobs for the child ---------- */

// Job is one execution of a Lua program in a fresh state under a configuration.
type Job struct {
	Cfg     Cfg    `json:"cfg"`
	Prog    string `json:"prog"`              // Lua source; may call emit(...), mark()
	N       int    `json:"n"`                 // value of the global N
	Co      bool   `json:"co"`                // mark() is expected to be called from a coroutine
	Want    int    `json:"want"`              // expected numeric result when the protected body completes
	Api     bool   `json:"api"`               // the chunk returns a function; it is called with N through L.CallByParam{Protect} from Go
	Kind    string `json:"kind"`              // "call" | "reg" | "": which overflow message counts as outcome 1
	ApiArgs bool   `json:"apiargs,omitempty"` // with Api: N numeric arguments instead of the single argument N
}

// JobOut is what the child reports for one job.
type JobOut struct {
	Trace   []int64 `json:"trace"`   // encoded emit log + final status
	Outcome int     `json:"outcome"` // limit programs: 0 completed with Want, 1 caught overflow of the expected kind, 2 other error, 3 wrong value
	ErrMsg  string  `json:"err,omitempty"`
	Epi     bool    `json:"epi"`    // epilogue on the same state worked and Sp/top are back
	MaxSp   int     `json:"maxsp"`  // deepest VerifSp seen by mark()
	RegCap  int     `json:"regcap"` // final registry capacity of the thread that called mark()
	Fail    string  `json:"fail,omitempty"`
}

func enc(v lua.LValue) int64 {
	switch x := v.(type) {
	case *lua.LNilType:
		return 0
	case lua.LBool:
		if x {
			return 2
		}
		return 1
	case lua.LNumber:
		f := float64(x)
		if f == math.Trunc(f) && math.Abs(f) < 1e15 {
			return 1000 + 2*int64(f)
		}
		return 1001 + 2*int64(math.Float64bits(f)>>12)
	case lua.LString:
		h := fnv.New32a()
		h.Write([]byte(string(x)))
		return -int64(h.Sum32()) - 10
	}
	return -int64(v.Type()) - 1 // tables/functions/...: type only
}

const epilogue = `
local function f(a, b) return a + b end
local t = {}
for i = 1, 10 do t[i] = i end
local ok = pcall(error, "x")
local co = coroutine.wrap(function(a) local b = coroutine.yield(a + 1) return b * 2 end)
return f(20, 22), select('#', unpack(t)), ok, co(1), co(5)
`

// runJob executes one job in this process.
func runJob(j Job) (out JobOut) {
	L, restore := j.Cfg.newState()
	defer restore()
	defer L.Close()
	attach := func() {}
	if j.Cfg.Ctx {
		var ctx context.Context
		cancel := func() {}
		switch j.Cfg.CtxMode {
		case "bg":
			ctx = context.Background()
		case "deadline":
			ctx, cancel = context.WithTimeout(context.Background(), time.Hour)
		default:
			ctx, cancel = context.WithCancel(context.Background())
		}
		defer cancel()
		attach = func() { L.SetContext(ctx) }
		switch j.Cfg.CtxMode {
		case "late":
		case "removed":
			attach()
			L.RemoveContext()
		default:
			attach()
		}
	}
	// setctx() / rmctx(): the program says where a context is attached to / removed from the state (main thread);
	// no-ops unless the configuration asks for it, so that every configuration runs the same program
	L.SetGlobal("setctx", L.NewFunction(func(*lua.LState) int {
		if j.Cfg.Ctx && j.Cfg.CtxMode == "late" {
			attach()
		}
		return 0
	}))
	L.SetGlobal("rmctx", L.NewFunction(func(*lua.LState) int {
		if j.Cfg.Ctx && j.Cfg.CtxMode == "midrm" {
			L.RemoveContext()
		}
		return 0
	}))
	// goresume(co, ...): coroutine.resume through the Go API (LState.Resume called by a Go function)
	L.SetGlobal("goresume", L.NewFunction(func(L *lua.LState) int {
		th := L.CheckThread(1)
		n := L.GetTop()
		args := make([]lua.LValue, 0, n)
		for i := 2; i <= n; i++ {
			args = append(args, L.Get(i))
		}
		L.SetTop(1)
		st, err, vals := L.Resume(th, nil, args...)
		if st == lua.ResumeError {
			L.Push(lua.LFalse)
			if ae, ok := err.(*lua.ApiError); ok && ae.Object != nil {
				L.Push(ae.Object)
			} else {
				L.Push(lua.LString(err.Error()))
			}
			return 2
		}
		L.Push(lua.LTrue)
		for _, v := range vals {
			L.Push(v)
		}
		return 1 + len(vals)
	}))
	var markL *lua.LState
	L.SetGlobal("emit", L.NewFunction(func(L *lua.LState) int {
		n := L.GetTop()
		out.Trace = append(out.Trace, int64(-1000000-n))
		for i := 1; i <= n; i++ {
			out.Trace = append(out.Trace, enc(L.Get(i)))
		}
		return 0
	}))
	L.SetGlobal("mark", L.NewFunction(func(L *lua.LState) int {
		if sp := lua.VerifSp(L); sp > out.MaxSp {
			out.MaxSp = sp
		}
		markL = L
		L.Push(lua.LNumber(0))
		return 1
	}))
	L.SetGlobal("pushn", L.NewFunction(func(L *lua.LState) int {
		n := L.ToInt(1)
		for i := 0; i < n; i++ {
			L.Push(lua.LNumber(i))
		}
		L.Push(lua.LNumber(n))
		return 1
	}))
	L.SetGlobal("N", lua.LNumber(j.N))
	fn, err := L.LoadString(j.Prog)
	if err != nil {
		out.Fail = "load: " + err.Error()
		return
	}
	// top-level run: the program itself uses pcall where it wants protection; PCall here catches the rest
	L.Push(fn)
	err = L.PCall(0, lua.MultRet, nil)
	if err != nil {
		msg := err.Error()
		if len(msg) > 160 {
			msg = msg[:160]
		}
		out.ErrMsg = msg
		out.Trace = append(out.Trace, -2)
		out.Outcome = 2
	} else {
		if j.Api {
			// the chunk left a function: call it protected from Go, then present (ok, value|message) as pcall would
			f := L.Get(1)
			L.SetTop(0)
			cargs := []lua.LValue{lua.LNumber(j.N)}
			if j.ApiArgs {
				cargs = make([]lua.LValue, j.N)
				for i := range cargs {
					cargs[i] = lua.LNumber(i)
				}
			}
			if e2 := L.CallByParam(lua.P{Fn: f, NRet: 1, Protect: true}, cargs...); e2 != nil {
				L.SetTop(0)
				L.Push(lua.LFalse)
				if ae, ok := e2.(*lua.ApiError); ok && ae.Object != nil {
					L.Push(ae.Object)
				} else {
					L.Push(lua.LString(e2.Error()))
				}
			} else {
				v := L.Get(1)
				L.SetTop(0)
				L.Push(lua.LTrue)
				L.Push(v)
			}
		}
		// results: ok-flag, value-or-message (limit programs) or anything (trace programs)
		n := L.GetTop()
		out.Trace = append(out.Trace, int64(-2000000-n))
		for i := 1; i <= n; i++ {
			out.Trace = append(out.Trace, enc(L.Get(i)))
		}
		if n >= 2 {
			if L.Get(1) == lua.LTrue {
				if v, ok := L.Get(2).(lua.LNumber); ok && int(v) == j.Want {
					out.Outcome = 0
				} else {
					out.Outcome = 3
				}
			} else {
				msg := L.Get(2).String()
				if len(msg) > 160 {
					msg = msg[:160]
				}
				out.ErrMsg = msg
				switch {
				case j.Kind != "reg" && strings.Contains(msg, "stack overflow") && !strings.Contains(msg, "callstack"):
					out.Outcome = 1
				case j.Kind != "call" && strings.Contains(msg, "registry overflow"):
					out.Outcome = 1
				default:
					out.Outcome = 2
				}
			}
		}
		L.SetTop(0)
	}
	if markL != nil {
		out.RegCap = lua.VerifRegCap(markL)
	} else {
		out.RegCap = lua.VerifRegCap(L)
	}
	// epilogue on the same state
	out.Epi = func() bool {
		if lua.VerifSp(L) != 0 || L.GetTop() != 0 {
			return false
		}
		if err := L.DoString(epilogue); err != nil {
			return false
		}
		ok := L.GetTop() == 5 && L.Get(1) == lua.LNumber(42) && L.Get(2) == lua.LNumber(10) &&
			L.Get(3) == lua.LFalse && L.Get(4) == lua.LNumber(2) && L.Get(5) == lua.LNumber(10)
		L.SetTop(0)
		return ok && lua.VerifSp(L) == 0
	}()
	return
}

// childMain: jobs as JSON lines on stdin, one JobOut line per job on stdout.
func childMain() {
	debug.SetMaxStack(256 << 20) // a runaway Go recursion dies quickly instead of eating 1 GB first
	in := bufio.NewReaderSize(os.Stdin, 1<<20)
	outw := bufio.NewWriter(os.Stdout)
	dec := json.NewDecoder(in)
	for {
		var j Job
		if err := dec.Decode(&j); err != nil {
			break
		}
		o := func() (o JobOut) {
			defer func() {
				if r := recover(); r != nil {
					s := fmt.Sprint(r)
					if len(s) > 200 {
						s = s[:200]
					}
					o.Fail = "panic escaped: " + s
				}
			}()
			return runJob(j)
		}()
		b, _ := json.Marshal(o)
		outw.Write(b)
		outw.WriteByte('\n')
		outw.Flush()
	}
}

// runJobs executes jobs in child processes; a crash or timeout is attributed to the job in flight.
func runJobs(jobs []Job, perJob time.Duration) []JobOut {
	outs := make([]JobOut, len(jobs))
	i := 0
	for i < len(jobs) {
		ctx, cancel := context.WithTimeout(context.Background(), perJob*time.Duration(len(jobs)-i)+10*time.Second)
		cmd := exec.CommandContext(ctx, os.Args[0], "child")
		cmd.Env = append(os.Environ(), "GOMEMLIMIT=2GiB")
		stdin, _ := cmd.StdinPipe()
		stdout, _ := cmd.StdoutPipe()
		cmd.Stderr = nil
		if err := cmd.Start(); err != nil {
			panic(err)
		}
		go func(from int) {
			e := json.NewEncoder(stdin)
			for k := from; k < len(jobs); k++ {
				if e.Encode(jobs[k]) != nil {
					break
				}
			}
			stdin.Close()
		}(i)
		sc := bufio.NewScanner(stdout)
		sc.Buffer(make([]byte, 1<<20), 1<<26)
		for i < len(jobs) && sc.Scan() {
			var o JobOut
			if json.Unmarshal(sc.Bytes(), &o) != nil {
				o.Fail = "unreadable child output"
			}
			outs[i] = o
			i++
		}
		err := cmd.Wait()
		cancel()
		if i < len(jobs) && (err != nil || ctx.Err() != nil) {
			what := "child process died"
			if ctx.Err() != nil {
				what = "timeout"
			}
			if err != nil {
				what += ": " + err.Error()
			}
			outs[i] = JobOut{Fail: what, Outcome: 9}
			i++
		} else if i < len(jobs) && err == nil {
			outs[i] = JobOut{Fail: "child ended early", Outcome: 9}
			i++
		}
	}
	return outs
}

// runJobsPar is runJobs with the jobs spread over up to k child processes (results in job order).
func runJobsPar(jobs []Job, perJob time.Duration, k int) []JobOut {
	if k < 2 || len(jobs) < 2*k {
		return runJobs(jobs, perJob)
	}
	per := (len(jobs) + k - 1) / k
	var batches [][]Job
	for i := 0; i < len(jobs); i += per {
		j := i + per
		if j > len(jobs) {
			j = len(jobs)
		}
		batches = append(batches, jobs[i:j])
	}
	var outs []JobOut
	for _, o := range runBatches(batches, perJob) {
		outs = append(outs, o...)
	}
	return outs
}

// runBatches runs independent job batches in parallel child processes (results in batch order).
func runBatches(batches [][]Job, perJob time.Duration) [][]JobOut {
	outs := make([][]JobOut, len(batches))
	sem := make(chan struct{}, 8)
	done := make(chan int)
	for i := range batches {
		go func(i int) {
			sem <- struct{}{}
			outs[i] = runJobs(batches[i], perJob)
			<-sem
			done <- i
		}(i)
	}
	for range batches {
		<-done
	}
	return outs
}

/* ---------- the Options matrix ---------- */

func matrix(ctxToo bool) []Cfg {
	var cs []Cfg
	for _, css := range []int{7, 8, 9, 16, 17, 256} {
		for _, min := range []bool{false, true} {
			for _, reg := range []int{128, 5120} {
				for _, max := range []int{0, 131072} {
					for _, grow := range []int{1, 32} {
						cs = append(cs, Cfg{CSS: css, Reg: reg, Max: max, Grow: grow, Min: min})
						if ctxToo {
							cs = append(cs, Cfg{CSS: css, Reg: reg, Max: max, Grow: grow, Min: min, Ctx: true})
						}
					}
				}
			}
		}
	}
	// the third way of configuring: package variables + NewState()
	for _, css := range []int{7, 9, 16, 300} {
		for _, reg := range []int{128, 5120, 6000} {
			cs = append(cs, Cfg{CSS: css, Reg: reg, Pkg: true})
		}
	}
	return cs
}

var refCfg = Cfg{CSS: 256, Reg: 5120, Max: 0, Grow: 32, Min: false}

// measuring configuration: limits far away, registry grows one cell at a time so that cap-1 = cells needed
var measureCfg = Cfg{CSS: 4096, Reg: 128, Max: 1 << 22, Grow: 1, Min: false}

// Programs that stay below every limit of the matrix: at most 6 frames deep (7 is the smallest
// CallStackSize and emit/mark need one frame), at most ~100 registry cells per thread.
// %d slots are filled with small random parameters.
var smallProgs = []string{
	// recursion, arithmetic, multiple results
	`local function fib(n) if n < 2 then return n end return fib(n-1) + fib(n-2) end
	 local function r3(n) if n == 0 then return 1, 2, 3 end return r3(n-1) end
	 emit(fib(%d %% 4), r3(%d %% 3)) return fib(3)`,
	// pcall / error / error values
	`local function thrower(x) if x > %d then error({code = x}) end return x end
	 for i = 1, 6 do local ok, e = pcall(thrower, i) emit(ok, type(e) == "table" and e.code or e) end
	 emit(pcall(error)) emit(select('#', pcall(error, nil))) return "done"`,
	// closures and upvalues
	`local function counter() local c = %d return function() c = c + 1 return c end end
	 local a, b = counter(), counter() a() a() emit(a(), b()) local t = {} for i = 1, 5 do t[i] = function() return i end end
	 emit(t[1](), t[5]()) return a() + b()`,
	// varargs, unpack, select below the registry limit
	`local function va(...) return select('#', ...), ... end
	 local t = {} for i = 1, %d %% 40 + 1 do t[i] = i * 2 end
	 emit(va(unpack(t))) emit(select(-1, unpack(t))) emit((va())) return #t`,
	// tables, metamethods
	`local mt = { __index = function(t, k) return k .. "!" end, __add = function(a, b) return 7 end, __call = function(self, x) return x * 2 end,
	   __eq = function() return true end, __lt = function() return true end, __concat = function() return "cc" end, __len = function() return %d end }
	 local a, b = setmetatable({}, mt), setmetatable({}, mt)
	 emit(a.foo, a + b, a(21), a == b, a < b, a .. b, #a) return rawget(a, "foo")`,
	// coroutines (each has its own call stack and registry)
	`local function gen(n) return coroutine.wrap(function() for i = 1, n do coroutine.yield(i) end return "end" end) end
	 local g = gen(%d %% 5 + 1) local x = g() while x ~= "end" do emit(x) x = g() end
	 local co = coroutine.create(function(a, b) local c = coroutine.yield(a + b) error("boom" .. c) end)
	 emit(coroutine.resume(co, 1, 2)) emit(coroutine.resume(co, 5)) emit(coroutine.status(co), coroutine.resume(co)) return 1`,
	// string library and numeric for
	`local s = 0 for i = %d %% 7, 20, 3 do s = s + i end
	 emit(s, ("x"):rep(3), ("hello"):sub(2, 4), ("a,b,c"):find(",", 1, true), #("abc" .. 12))
	 local parts = {} for w in ("one two three"):gmatch("%%a+") do parts[#parts + 1] = w end emit(unpack(parts))
	 emit(string.format("%%d-%%s", 5, "z"), tostring(nil), tonumber("12")) return s`,
	// generic for, next, table functions
	`local t = {} for i = 1, %d %% 9 + 1 do table.insert(t, i) end table.insert(t, 1, 99) emit(table.remove(t), #t, table.concat(t, ","))
	 local keys = {} for k, v in pairs({a = 1, b = 2, c = 3}) do keys[#keys + 1] = k end table.sort(keys) emit(unpack(keys))
	 table.sort(t, function(x, y) return x > y end) emit(t[1], t[#t]) local n = 0 for i, v in ipairs(t) do n = n + v end return n`,
	// tail calls do not use frames; nested pcall; xpcall with traceback-free handler
	`local function loop(n, acc) if n == 0 then return acc end return loop(n - 1, acc + n) end
	 emit(loop(%d %% 50 + 100, 0)) emit(xpcall(function() error("E") end, function(m) return "H" end))
	 emit(pcall(pcall, error, "x")) return select('#', loop(3, 0))`,
	// goto, repeat, while, logical operators, integer/float arithmetic
	`local i, acc = 0, {} repeat i = i + 1 if i %% 2 == 0 then goto continue end acc[#acc + 1] = i ::continue:: until i >= %d %% 9 + 2
	 emit(unpack(acc)) emit(1 and 2, nil or "d", false and 1, not nil, 7 %% 3, 2 ^ 10, 7 / 2, -7 %% 3, 1 == 1.0) local w = 0 while w < 5 do w = w + 2 end return w`,
	// method calls, multiple assignment, nested tables
	`local obj = { v = %d } function obj:add(n) self.v = self.v + n return self end
	 emit(obj:add(1):add(2).v) local a, b, c = (function() return 1, 2, 3 end)() emit(a, b, c)
	 local t = { { 1, 2 }, { x = { y = "deep" } } } emit(t[1][2], t[2].x.y, #t) local x, y = 1 emit(x, y) return obj.v`,
	// error with levels and non-string errors through nested pcall, tostring/tonumber round trips
	`local function l1() error("lvl1", 1) end local function l2() error("lvl2", 2) end
	 emit(pcall(l1)) emit(pcall(l2)) emit(pcall(error, 42)) emit(pcall(error, nil)) emit(tostring(1e15), tostring(0.5), tonumber("0x10"), tonumber("  5  "), tonumber("z", 36))
	 return %d`,
}

// TraceIn is the replayable input of one below-the-limits case.
type TraceIn struct {
	Kind string `json:"kind"` // "trace"
	Cfg  Cfg    `json:"cfg"`
	Prog string `json:"prog"`
}

func fillProg(tmpl string, r *lib.Rand) string {
	n := strings.Count(strings.ReplaceAll(tmpl, "%%", ""), "%d")
	args := make([]any, n)
	for i := range args {
		args[i] = r.Range(1, 60)
	}
	return fmt.Sprintf(tmpl, args...)
}

func zlist(t []int64) string { return lib.CoqZList(t) }

func traceCase(w *lib.Writer, in TraceIn, ref JobOut, o JobOut, class string) {
	rt, ot := ref.Trace, o.Trace
	if strings.HasPrefix(class, "trace/cotree") {
		// long traces (hundreds of entries, parsing them dominates the evaluation): the first 48 entries, the
		// length and a 62-bit digest of the whole trace; the full traces are in cases.jsonl
		rt, ot = digestTrace(rt), digestTrace(ot)
	}
	term := fmt.Sprintf("CTrace %s %s %s", in.Cfg.coq(), zlist(rt), zlist(ot))
	if zlist(rt) == zlist(ot) {
		// the common case: the list is written (and parsed) once
		term = fmt.Sprintf("let t := %s in CTrace %s t t", zlist(rt), in.Cfg.coq())
	}
	id := w.Add(lib.Case{Input: in, Observed: map[string]any{"trace": o.Trace, "ref": ref.Trace, "err": o.ErrMsg}, Class: class,
		Nontrivial: in.Cfg != refCfg && len(ref.Trace) > 3,
		Coq:        term})
	if o.Fail != "" {
		w.GoFail(id, "below the limits: "+o.Fail)
	} else if !o.Epi {
		w.GoFail(id, "below the limits: the state did not work afterwards (epilogue failed)")
	}
	if ref.Fail != "" {
		w.GoFail(id, "reference run: "+ref.Fail)
	}
}

func digestTrace(t []int64) []int64 {
	if len(t) <= 52 {
		return t
	}
	h := fnv.New64a()
	var b [8]byte
	for _, v := range t {
		for i := 0; i < 8; i++ {
			b[i] = byte(uint64(v) >> (8 * i))
		}
		h.Write(b[:])
	}
	sum := h.Sum64()
	out := append([]int64{}, t[:48]...)
	return append(out, int64(len(t)), int64(sum>>33), int64(sum&0x7fffffff))
}

func genTraces(w *lib.Writer, r *lib.Rand, tier string) {
	variants := 1
	if tier == "thorough" {
		variants = 12
	}
	cfgs := matrix(true)
	var progs []string
	var classes []string
	var batches [][]Job
	for v := 0; v < variants; v++ {
		for pi, tmpl := range smallProgs {
			prog := fillProg(tmpl, r)
			jobs := []Job{{Cfg: refCfg, Prog: prog}}
			for _, c := range cfgs {
				jobs = append(jobs, Job{Cfg: c, Prog: prog})
			}
			progs = append(progs, prog)
			classes = append(classes, fmt.Sprintf("trace/p%02d", pi))
			batches = append(batches, jobs)
		}
	}
	all := runBatches(batches, 2*time.Second)
	for b, outs := range all {
		for k, c := range cfgs {
			traceCase(w, TraceIn{Kind: "trace", Cfg: c, Prog: progs[b]}, outs[0], outs[k+1], classes[b])
		}
	}
}

/* ---------- programs that make a growable registry grow (still far below every limit) ---------- */

// Each program descends through vararg functions with 1..3 named parameters, called with 0..6
// arguments that grow by one per level, so that the registry top sweeps upwards through many
// capacity boundaries and the crossing lands on every kind of operation (argument set-up, the
// SetTop of the vararg frame entry, calls of host functions). Every descent runs in a fresh
// coroutine (= a fresh registry of RegistrySize cells); the alignment of the top with the growth
// steps is varied by 0..LIFT fixed-arity frames (4 cells each) below and by the argument count.
// After the nested call every level checks that its named parameters and varargs are intact.
// %d: depth, lift levels.
var growProgs = []string{
	// plain recursion, 1 / 2 / 3 named parameters
	`local DEPTH, LIFT = %d %% 6 + 14, %d %% 2 + 4
	 local function f1(a, ...) if a == 0 then return select('#', ...) end
	   local n = select('#', ...) local r = f1(a - 1, a, ...) assert(select('#', ...) == n) return r * 3 %% 1000003 + a end
	 local function f2(a, b, ...) if a == 0 then return select('#', ...) + b end
	   local n = select('#', ...) local r = f2(a - 1, b + 1, a, ...) assert(select('#', ...) == n) return (r * 3 + b) %% 1000003 + a end
	 local function f3(a, b, c, ...) if a == 0 then return select('#', ...) + b + #c end
	   local n, first = select('#', ...), (...) local r = f3(a - 1, b + 1, c .. "x", a, ...)
	   assert(select('#', ...) == n and (...) == first and #c == DEPTH - a + 1) return (r * 3 + b + #c) %% 1000003 + a end
	 local function lift(k, g, ...) if k == 0 then return g(...) end local x = lift(k - 1, g, ...) return x end
	 local args = { 11, 22, 33, 44, 55, 66 }
	 for k = 0, LIFT do for n = 0, 6 do
	   local co = coroutine.wrap(function(...) return pcall(lift, k, function(...) return f1(DEPTH, ...) + f2(DEPTH, 10, ...) + f3(DEPTH, 10, "s", ...) end, ...) end)
	   emit(k, n, co(unpack(args, 1, n)))
	 end end return 1`,
	// tail calls into vararg functions, method calls (self is a named parameter), __call
	`local DEPTH, LIFT = %d %% 6 + 14, %d %% 2 + 4
	 local obj = { tag = 7 }
	 function obj:m(a, ...) if a == 0 then return self.tag + select('#', ...) end
	   local n = select('#', ...) local r = self:m(a - 1, a, ...) assert(select('#', ...) == n and self == obj) return r * 3 %% 1000003 + a end
	 local callable = setmetatable({ tag = 5 }, { __call = function(self, a, b, ...) if a == 0 then return self.tag + b + select('#', ...) end
	   local n = select('#', ...) local r = self(a - 1, b + 1, a, ...) assert(select('#', ...) == n and self.tag == 5) return (r * 3 + b) %% 1000003 + a end })
	 local function tail(a, acc, ...) if a == 0 then return acc + select('#', ...) end return tail(a - 1, acc + a, a, ...) end
	 local function viatail(a, b, ...) if a == 0 then return b + select('#', ...) end
	   local n = select('#', ...) local r = viatail(a - 1, b + 1, a, ...) assert(select('#', ...) == n) return tail(3, r + b, ...) end
	 local function lift(k, g, ...) if k == 0 then return g(...) end local x = lift(k - 1, g, ...) return x end
	 local args = { 11, 22, 33, 44, 55, 66 }
	 for k = 0, LIFT do for n = 0, 6 do
	   local co = coroutine.wrap(function(...) return pcall(lift, k, function(...) return obj:m(DEPTH, ...) + callable(DEPTH, 1, ...) + viatail(DEPTH, 2, ...) + tail(DEPTH * 4, 0, ...) end, ...) end)
	   emit(k, n, co(unpack(args, 1, n)))
	 end end return 2`,
	// the same descents on the main thread (one alignment per state), with live locals before the call
	`local DEPTH, PAD = %d %% 12 + 18, %d %% 40
	 local function f3(a, b, c, ...) if a == 0 then return select('#', ...) + b + #c end
	   local n, first = select('#', ...), (...) local r = f3(a - 1, b + 1, c .. "x", a, ...)
	   assert(select('#', ...) == n and (...) == first) return (r * 3 + b + #c) %% 1000003 + a end
	 local function pad(k, ...) if k == 0 then return f3(DEPTH, 10, "s", ...) end local x = pad(k - 1, ...) return x end
	 emit(pcall(pad, PAD)) emit(pcall(pad, PAD, 1, 2, 3)) emit(pcall(f3, DEPTH + 20, 1, "t", nil, nil)) return 3`,
}

// configurations for the growing programs: every one leaves room for them (needs stay below ~2000 cells)
func growMatrix(tier string) []Cfg {
	var cs []Cfg
	steps := []int{1, 2, 3, 7, 8, 31, 32, 33, 64}
	for _, g := range steps {
		for _, max := range []int{4096, 131072} {
			if max == 4096 && tier != "thorough" && g != 1 && g != 7 && g != 32 {
				continue
			}
			cs = append(cs, Cfg{CSS: 256, Reg: 128, Max: max, Grow: g, Min: g%2 == 0})
		}
	}
	// call stacks of more than 65536 segments (auto-growing only: a fixed stack of that size is 50 MB per thread)
	cs = append(cs, Cfg{CSS: 524296, Reg: 5120, Max: 0, Grow: 32, Min: true}, Cfg{CSS: 600000, Reg: 128, Max: 4096, Grow: 7, Min: true})
	// a grow step so large that requiredSize+growBy does not fit an int: growth goes straight to the maximum
	cs = append(cs, Cfg{CSS: 256, Reg: 128, Max: 4096, Grow: math.MaxInt64, Min: false}, Cfg{CSS: 256, Reg: 128, Max: 131072, Grow: math.MaxInt64 - 100, Min: true})
	cs = append(cs, Cfg{CSS: 256, Reg: 200, Max: 3000, Grow: 5, Min: true}, Cfg{CSS: 256, Reg: 129, Max: 2500, Grow: 1, Min: true, Ctx: true},
		Cfg{CSS: 256, Reg: 5120, Max: 131072, Grow: 1, Min: false}, Cfg{CSS: 256, Reg: 5120, Max: 0, Grow: 32, Min: true}, Cfg{CSS: 256, Reg: 2048, Max: 0, Grow: 0, Min: false})
	return cs
}

func genGrowTraces(w *lib.Writer, r *lib.Rand, tier string) {
	variants := 1
	if tier == "thorough" {
		variants = 10
	}
	cfgs := growMatrix(tier)
	var progs []string
	var classes []string
	var batches [][]Job
	for v := 0; v < variants; v++ {
		for pi, tmpl := range growProgs {
			prog := fillProg(tmpl, r)
			jobs := []Job{{Cfg: refCfg, Prog: prog}}
			for _, c := range cfgs {
				jobs = append(jobs, Job{Cfg: c, Prog: prog})
			}
			progs = append(progs, prog)
			classes = append(classes, fmt.Sprintf("trace/grow%d", pi))
			batches = append(batches, jobs)
		}
	}
	all := runBatches(batches, 5*time.Second)
	for b, outs := range all {
		for k, c := range cfgs {
			traceCase(w, TraceIn{Kind: "trace", Cfg: c, Prog: progs[b]}, outs[0], outs[k+1], classes[b])
		}
	}
}

/* ---------- limit programs ---------- */

// every body is run as `pcall(body)` (or through the Go API) and returns a number equal to Want
type limitProg struct {
	name string
	kind string // "call" | "reg"
	src  string // uses N; must return pcall-style (ok, value|message)
	want func(n int) int
	co   bool
	api  bool
	// apiArgs: the chunk returns a function; it is called through L.CallByParam{Protect} with N arguments
	apiArgs bool
	// wide: one operation of the program asks for ~150 cells at once (a frame with 150 locals): also aim
	// 57 and 160 cells beyond the limit so that the overflow happens in that operation
	wide bool
	// handover: the operation at the limit is a coroutine handing values to its resumer (wave5.go); own configurations
	handover bool
	// thoroughOnly: not part of the quick tier (replayable in both)
	thoroughOnly bool
}

var limitProgs = []limitProg{
	{name: "rec", kind: "call", want: func(n int) int { return n },
		src: `local function rec(n) if n == 0 then return mark() end return 1 + rec(n - 1) end
		      return pcall(rec, N)`},
	{name: "rec-co", kind: "call", co: true, want: func(n int) int { return n },
		src: `local function rec(n) if n == 0 then return mark() end return 1 + rec(n - 1) end
		      local co = coroutine.wrap(function() return pcall(rec, N) end)
		      return co()`},
	{name: "rec-xpcall", kind: "call", want: func(n int) int { return n },
		src: `local function rec(n) if n == 0 then return mark() end return 1 + rec(n - 1) end
		      return xpcall(function() return rec(N) end, function(m) return m end)`},
	{name: "rec-meta", kind: "call", want: func(n int) int { return n },
		src: `local mt = {} local function mk(n) return setmetatable({ n = n }, mt) end
		      mt.__index = function(t, k) if t.n == 0 then return mark() end return 1 + mk(t.n - 1)[k] end
		      return pcall(function() return mk(N).x end)`},
	{name: "rec-resume", kind: "call", co: true, want: func(n int) int { return n },
		src: `local function rec(n) if n == 0 then return mark() end return 1 + rec(n - 1) end
		      local co = coroutine.create(function() return rec(N) end)
		      local ok, v = coroutine.resume(co)
		      emit(coroutine.status(co))
		      return ok, v`},
	// a worker created inside another coroutine dies of the limit; its creator goes on working, creates and
	// runs another coroutine (with a context attached the creator's derived context must survive the worker)
	{name: "rec-resume-nested", kind: "call", co: true, want: func(n int) int { return n },
		src: `local function rec(n) if n == 0 then return mark() end return 1 + rec(n - 1) end
		      local outer = coroutine.wrap(function()
		        local me = coroutine.running()
		        local w = coroutine.create(function() return rec(N) end)
		        local ok, v = coroutine.resume(w)
		        local s = 0 for i = 1, 100 do s = s + i end
		        if s ~= 5050 then return false, "the creator miscounted" end
		        if coroutine.running() ~= me then return false, "running thread is wrong after resume" end
		        if coroutine.status(w) ~= "dead" then return false, "status " .. coroutine.status(w) end
		        local k = coroutine.wrap(function(a) local b = coroutine.yield(a + 1) return a + b end)
		        if k(1) ~= 2 or k(5) ~= 6 then return false, "a coroutine made after the worker died misbehaves" end
		        return ok, v
		      end)
		      local ok, v = outer()
		      if coroutine.running() ~= nil then return false, "main thread is not running" end
		      return ok, v`},
	{name: "unpack", kind: "reg", want: func(n int) int { return n },
		src: `local t = {} for i = 1, N do t[i] = i end
		      return pcall(function() mark() return select('#', unpack(t, 1, N)) end)`},
	{name: "vararg", kind: "reg", want: func(n int) int { return n },
		src: `local t = {} for i = 1, N do t[i] = i end
		      local function va(...) return select('#', ...) end
		      return pcall(function() mark() return va(unpack(t, 1, N)) end)`},
	{name: "unpack-co", kind: "reg", co: true, want: func(n int) int { return n },
		src: `local t = {} for i = 1, N do t[i] = i end
		      local co = coroutine.wrap(function() return pcall(function() mark() return select('#', unpack(t, 1, N)) end) end)
		      return co()`},
	{name: "deep-regs", kind: "reg", want: func(n int) int { return n },
		src: `local function rec(n) local a, b, c, d, e, f, g, h = 1, 2, 3, 4, 5, 6, 7, 8 if n == 0 then return mark() end return 1 + rec(n - 1) + (a - a) end
		      return pcall(rec, N)`},
	// registry exhaustion that kills a coroutine started with coroutine.create/resume (no pcall inside):
	// resume must return false + message, the coroutine is dead, the resumer is running again
	// (checked from inside an outer coroutine, where coroutine.running() is a value), a second
	// resume reports a dead coroutine
	{name: "unpack-resume", kind: "reg", co: true, want: func(n int) int { return n },
		src: `local t = {} for i = 1, N do t[i] = i end
		      local outer = coroutine.wrap(function()
		        local me = coroutine.running()
		        local co = coroutine.create(function() mark() return select('#', unpack(t, 1, N)) end)
		        local ok, v = coroutine.resume(co)
		        if coroutine.running() ~= me then return false, "running thread is wrong after resume" end
		        if coroutine.status(co) ~= "dead" then return false, "status " .. coroutine.status(co) end
		        local ok2, v2 = coroutine.resume(co)
		        if ok2 ~= false or not tostring(v2):find("dead") then return false, "second resume: " .. tostring(v2) end
		        return ok, v
		      end)
		      local ok, v = outer()
		      if coroutine.running() ~= nil then return false, "main thread is not running" end
		      return ok, v`},
	{name: "deep-regs-resume", kind: "reg", co: true, want: func(n int) int { return n },
		src: `local function rec(n) local a, b, c, d, e, f, g, h = 1, 2, 3, 4, 5, 6, 7, 8 if n == 0 then return mark() end return 1 + rec(n - 1) + (a - a) end
		      local co = coroutine.create(function() return rec(N) end)
		      local ok, v = coroutine.resume(co)
		      if coroutine.running() ~= nil then return false, "main thread is not running" end
		      if coroutine.status(co) ~= "dead" then return false, "status " .. coroutine.status(co) end
		      local ok2, v2 = coroutine.resume(co)
		      if ok2 ~= false or not tostring(v2):find("dead") then return false, "second resume: " .. tostring(v2) end
		      return ok, v`},
	// a frame of 150 locals + varargs set up at the limit, by an ordinary call and by a TAIL call
	// (the frame is rewritten in place, Pc = 0, before initCallFrame can raise)
	{name: "bigframe", kind: "reg", wide: true, want: func(n int) int { return n },
		src: `local big = loadstring("return function(...) local a0" .. (",x"):rep(150) .. " = ... ; mark() return select('#', ...) end")()
		      local t = {} for i = 1, N do t[i] = i end
		      return pcall(function() local r = big(unpack(t, 1, N)) return r end)`},
	{name: "bigframe-tail", kind: "reg", wide: true, want: func(n int) int { return n },
		src: `local big = loadstring("return function(...) local a0" .. (",x"):rep(150) .. " = ... ; mark() return select('#', ...) end")()
		      local t = {} for i = 1, N do t[i] = i end
		      return pcall(function() return big(unpack(t, 1, N)) end)`},
	// resume arguments the coroutine's own registry cannot take (its first frame needs 2N+151 cells, the resumer N+few)
	{name: "resume-args", kind: "reg", co: true, wide: true, want: func(n int) int { return n },
		src: `local big = loadstring("return function(...) local a0" .. (",x"):rep(150) .. " = ... ; mark() return select('#', ...) end")()
		      local t = {} for i = 1, N do t[i] = i end
		      local co = coroutine.create(big)
		      local ok, v = coroutine.resume(co, unpack(t, 1, N))
		      if coroutine.running() ~= nil then return false, "main thread is not running" end
		      if coroutine.status(co) ~= "dead" then return false, "status " .. coroutine.status(co) end
		      local ok2, v2 = coroutine.resume(co)
		      if ok2 ~= false or not tostring(v2):find("dead") then return false, "second resume: " .. tostring(v2) end
		      return ok, v`},
	// many arguments given to a protected call from Go
	{name: "args-api", kind: "reg", apiArgs: true, want: func(n int) int { return n },
		src: `return function(...) mark() return select('#', ...) end`},
	// limits hit under xpcall while closures created in the frames being unwound have escaped:
	// the handler call fails again at the exhausted depth (PCall's second recovery path); afterwards the
	// closures must still own their variables
	{name: "rec-xpcall-up", kind: "call", want: func(n int) int { return n },
		src: `local keep = {}
		      local function rec(n) local x = n keep[#keep + 1] = function() x = x + 1 return x end
		        if n == 0 then return mark() end return 1 + rec(n - 1) end
		      local ok, v = xpcall(function() return rec(N) end, function(m) return m end)
		      local function clobber(...) local a, b, c, d, e, f, g, h = ... return (a or 0) + (h or 0) end
		      for i = 1, 6 do clobber(101, 102, 103, 104, 105, 106, 107, 108) end
		      local sum, want = 0, 0
		      for i = 1, #keep do sum = sum + keep[i]() + keep[i]() want = want + 2 * (N - i + 1) + 3 end
		      if sum ~= want then return false, "escaped closures lost their variables: " .. sum .. " ~= " .. want end
		      return ok, v`},
	{name: "deep-regs-xpcall-up", kind: "reg", want: func(n int) int { return n },
		src: `local keep = {}
		      local function rec(n) local x, b, c, d, e, f, g, h = n, 2, 3, 4, 5, 6, 7, 8 keep[#keep + 1] = function() x = x + 1 return x end
		        if n == 0 then return mark() end return 1 + rec(n - 1) + (b - b) end
		      local ok, v = xpcall(function() return rec(N) end, function(m) return m end)
		      local function clobber(...) local a, b, c, d, e, f, g, h = ... return (a or 0) + (h or 0) end
		      for i = 1, 6 do clobber(101, 102, 103, 104, 105, 106, 107, 108) end
		      local sum, want = 0, 0
		      for i = 1, #keep do sum = sum + keep[i]() + keep[i]() want = want + 2 * (N - i + 1) + 3 end
		      if sum ~= want then return false, "escaped closures lost their variables: " .. sum .. " ~= " .. want end
		      return ok, v`},
	// the limit must be the same at every moment of a state's life: the same probe before and after 300 caught
	// overflow errors (each raised with a full registry) must have the same outcome
	{name: "unpack-ratchet", kind: "reg", wide: true, want: func(n int) int { return n },
		src: `local t, big = {}, {} for i = 1, N do t[i] = i end for i = 1, N + 3000 do big[i] = i end
		      local function probe() return pcall(function() mark() return select('#', unpack(t, 1, N)) end) end
		      local res = {}
		      res[1] = { probe() }
		      for i = 1, 300 do pcall(unpack, big) end
		      res[2] = { probe() }   -- called from the same register as the first one
		      if res[1][1] ~= res[2][1] then return false, "the limit moved: first " .. tostring(res[1][1]) .. ", after 300 caught overflows " .. tostring(res[2][1]) end
		      return res[1][1], res[1][2]`},
	// the registry fills exactly while a Go function called without arguments is the current frame of a
	// coroutine.create/resume coroutine (its LocalBase is the limit; pushing its result overflows): hunt2 obs-1
	{name: "deep-regs-gofn-resume", kind: "reg", co: true, want: func(n int) int { return n },
		src: `-- mark() is called from the top-most register of rec's frame: its own frame starts where rec's ends
		      local function rec(n, t) local a, b, c, d, e, f, g, h = 1, 2, 3, 4, 5, 6, 7, 8 if n == 0 then return t end return rec(n - 1, mark()) + 1 + (a - a) end
		      local co = coroutine.create(function() return rec(N, 0) end)
		      local ok, v = coroutine.resume(co)
		      if coroutine.running() ~= nil then return false, "main thread is not running" end
		      if coroutine.status(co) ~= "dead" then return false, "status " .. coroutine.status(co) end
		      local ok2, v2 = coroutine.resume(co)
		      if ok2 ~= false or not tostring(v2):find("dead") then return false, "second resume: " .. tostring(v2) end
		      return ok, v`},
	{name: "pushn", kind: "reg", want: func(n int) int { return n },
		src: `return pcall(function() mark() return pushn(N) end)`},
	{name: "rec-api", kind: "call", api: true, want: func(n int) int { return n },
		src: `local function rec(n) if n == 0 then return mark() end return 1 + rec(n - 1) end
		      return rec`},
}

type LimitIn struct {
	Kind string `json:"kind"` // "limit"
	Prog string `json:"prog"` // name in limitProgs
	Cfg  Cfg    `json:"cfg"`
	N    int    `json:"n"`
}

func findLimitProg(name string) *limitProg {
	for i := range limitProgs {
		if limitProgs[i].name == name {
			return &limitProgs[i]
		}
	}
	return nil
}

// need measures what N costs under the measuring configuration: frames (MaxSp) or registry cells.
func limitJob(p *limitProg, cfg Cfg, n int) Job {
	return Job{Cfg: cfg, Prog: p.src, N: n, Co: p.co, Want: p.want(n), Api: p.api || p.apiArgs, ApiArgs: p.apiArgs, Kind: p.kind}
}

func limitCase(w *lib.Writer, in LimitIn, p *limitProg, need int, measFail string, o JobOut) {
	ctor := "CLimitCall"
	if p.kind == "reg" {
		ctor = "CLimitReg"
	}
	nc := in.Cfg.normalised()
	lim := nc.CSS
	if nc.Min {
		lim = 8 * ((nc.CSS + 7) / 8)
	}
	if p.kind == "reg" {
		lim = nc.Reg
		if nc.Max > lim {
			lim = nc.Max
		}
	}
	id := w.Add(lib.Case{Input: in, Observed: map[string]any{"need": need, "outcome": o.Outcome, "err": o.ErrMsg, "epilogue": o.Epi, "fail": o.Fail},
		Class:      "limit/" + p.name,
		Nontrivial: need >= lim-2 && need <= lim+9,
		Coq:        fmt.Sprintf("%s %s %d %d %s", ctor, nc.coq(), need, o.Outcome, lib.CoqBool(o.Epi))})
	if o.Fail != "" {
		w.GoFail(id, "limit program "+p.name+": "+o.Fail)
	}
	if measFail != "" {
		w.GoFail(id, fmt.Sprintf("measuring run of %s N=%d: %s", p.name, in.N, measFail))
	}
}

// measure gives, for each N, what the program needs: frames (deepest VerifSp seen by mark()) or
// registry cells (the smallest fixed registry under which it completes, found by bisection below
// the capacity a growing registry ended with).
func measure(p *limitProg, ns []int) (need map[int]int, fail map[int]string) {
	need, fail = map[int]int{}, map[int]string{}
	var jobs []Job
	for _, n := range ns {
		jobs = append(jobs, limitJob(p, measureCfg, n))
	}
	a := runJobsPar(jobs, 20*time.Second, 4)
	if p.kind == "call" {
		for i, n := range ns {
			need[n] = a[i].MaxSp
			if a[i].Fail != "" || a[i].Outcome != 0 {
				fail[n] = fmt.Sprintf("outcome %d %s %s", a[i].Outcome, a[i].ErrMsg, a[i].Fail)
			}
		}
		return
	}
	// the need is the smallest fixed registry under which the program completes: bisection between
	// 128 and the capacity the growing registry ended with (independent of the growth policy)
	lo, hi := make([]int, len(ns)), make([]int, len(ns)) // invariant: fails with lo (or lo = 127), completes with hi
	for i, n := range ns {
		lo[i], hi[i] = 127, a[i].RegCap
		if a[i].Fail != "" || a[i].Outcome != 0 {
			fail[n] = fmt.Sprintf("outcome %d cap %d %s %s", a[i].Outcome, a[i].RegCap, a[i].ErrMsg, a[i].Fail)
			lo[i] = hi[i]
		}
	}
	for {
		var idx []int
		jobs = jobs[:0]
		for i, n := range ns {
			if hi[i]-lo[i] > 1 {
				mid := (lo[i] + hi[i]) / 2
				if hi[i]-lo[i] > 2 && hi[i] == a[i].RegCap {
					mid = hi[i] - 2 // the answer is almost always cap-1 or cap: look there first
				}
				idx = append(idx, i)
				jobs = append(jobs, limitJob(p, Cfg{CSS: measureCfg.CSS, Reg: mid, Max: 0, Grow: 1}, n))
			}
		}
		if len(idx) == 0 {
			break
		}
		b := runJobsPar(jobs, 20*time.Second, 4)
		for k, i := range idx {
			mid := jobs[k].Cfg.Reg
			if b[k].Outcome == 0 && b[k].Fail == "" {
				hi[i] = mid
			} else {
				lo[i] = mid
			}
		}
	}
	for i, n := range ns {
		if hi[i] <= 128 {
			continue // completes in the smallest registry: below every limit; the caller uses the calibrated line
		}
		need[n] = hi[i]
	}
	return
}

// limitTargets: for a configuration, the needs that straddle its limit(s).
func limitTargets(p *limitProg, cfg Cfg, r *lib.Rand, tier string) []int {
	nc := cfg.normalised()
	var lims []int
	if p.kind == "call" {
		lims = []int{nc.CSS}
		if nc.Min {
			lims = append(lims, 8*((nc.CSS+7)/8))
		}
	} else {
		lim := nc.Reg
		if nc.Max > lim {
			lim = nc.Max
		}
		lims = []int{lim}
	}
	var ts []int
	for _, l := range lims {
		for d := -1; d <= 2; d++ {
			ts = append(ts, l+d)
		}
		if tier == "thorough" {
			ts = append(ts, l-3, l+8, l+40)
		}
	}
	if p.wide {
		ts = append(ts, lims[len(lims)-1]+57, lims[len(lims)-1]+160)
	}
	if p.apiArgs {
		// the callee needs two cells per argument, the Go caller's pushes one: also aim beyond twice the limit
		// so that the pushes themselves (made by CallByParam before the call) overflow
		ts = append(ts, 2*lims[len(lims)-1]+8, 2*lims[len(lims)-1]+50)
	}
	ts = append(ts, lims[0]/2+1)
	if tier == "thorough" || r.Chance(30) {
		ts = append(ts, lims[len(lims)-1]+r.Range(3, 300))
	}
	return ts
}

func limitCfgs(kind, tier string) []Cfg {
	var cs []Cfg
	if kind == "call" {
		for _, css := range []int{7, 8, 9, 16, 17, 256} {
			for _, min := range []bool{false, true} {
				cs = append(cs, Cfg{CSS: css, Reg: 5120, Max: 0, Grow: 32, Min: min})
			}
		}
		// package variables + NewState(): limits below and above the built-in defaults
		for _, css := range []int{7, 16, 30, 300, 700} {
			cs = append(cs, Cfg{CSS: css, Reg: 20000, Pkg: true})
		}
		return append(cs, Cfg{CSS: 30, Reg: 128, Max: 131072, Grow: 1, Min: true}, Cfg{CSS: 64, Reg: 128, Max: 131072, Grow: 32, Min: true, Ctx: true},
			Cfg{CSS: 17, Reg: 5120, Max: 0, Grow: 32, Min: false, Ctx: true, CtxMode: "bg"})
	}
	for _, reg := range []int{128, 5120} {
		for _, min := range []bool{false, true} {
			cs = append(cs, Cfg{CSS: 2000, Reg: reg, Max: 0, Grow: 32, Min: min})
		}
	}
	cs = append(cs, Cfg{CSS: 2000, Reg: 128, Max: 8192, Grow: 32, Min: false}, Cfg{CSS: 2000, Reg: 5120, Max: 8192, Grow: 1, Min: true},
		Cfg{CSS: 2000, Reg: 200, Max: 300, Grow: 25, Min: false}, Cfg{CSS: 2000, Reg: 129, Max: 129, Grow: 7, Min: true}, Cfg{CSS: 2000, Reg: 128, Max: 1000, Grow: 1, Min: false})
	for _, reg := range []int{128, 200, 1000, 6000, 8192} {
		cs = append(cs, Cfg{CSS: 2000, Reg: reg, Pkg: true}) // package variables + NewState()
	}
	if tier == "thorough" {
		// growing to 131072 cells is slow (every resize copies the live prefix): thorough tier only, step 32; step 1 up to 16384
		cs = append(cs, Cfg{CSS: 2000, Reg: 128, Max: 131072, Grow: 32, Min: true}, Cfg{CSS: 2000, Reg: 5120, Max: 131072, Grow: 32, Min: false}, Cfg{CSS: 2000, Reg: 5120, Max: 16384, Grow: 1, Min: false})
	}
	return cs
}

// limitResult is one limit case ready to be added (the programs are run in parallel, the cases added in order).
type limitResult struct {
	in    LimitIn
	need  int
	mfail string
	out   JobOut
}

func genLimits(w *lib.Writer, r *lib.Rand, tier string) {
	results := make([][]limitResult, len(limitProgs))
	rs := make([]*lib.Rand, len(limitProgs))
	for pi := range limitProgs {
		rs[pi] = r.Fork()
	}
	sem := make(chan struct{}, 6)
	done := make(chan int)
	for pi := range limitProgs {
		go func(pi int) {
			sem <- struct{}{}
			results[pi] = runLimitProg(&limitProgs[pi], rs[pi], tier)
			<-sem
			done <- pi
		}(pi)
	}
	for range limitProgs {
		<-done
	}
	for pi := range limitProgs {
		for _, x := range results[pi] {
			limitCase(w, x.in, &limitProgs[pi], x.need, x.mfail, x.out)
		}
	}
}

func runLimitProg(p *limitProg, r *lib.Rand, tier string) (res []limitResult) {
	tStart := time.Now()
	defer func() {
		if os.Getenv("C12_DEBUG") != "" {
			fmt.Fprintln(os.Stderr, "limit program", p.name, "total", time.Since(tStart))
		}
	}()
	{
		cfgs := limitCfgs(p.kind, tier)
		if p.handover {
			cfgs = handoverCfgs(tier)
		}
		if only := os.Getenv("C12_PROG"); only != "" && !strings.HasPrefix(p.name, only) { // development aid
			return nil
		}
		if p.thoroughOnly && tier != "thorough" {
			return nil
		}
		if p.name == "rec-meta" {
			// every level nests a call from Go into the interpreter: above ~190 levels the "C stack overflow"
			// limit (independent of Options, see genCcalls) comes first
			var small []Cfg
			for _, c := range cfgs {
				if c.CSS <= 64 {
					small = append(small, c)
				}
			}
			cfgs = small
		}
		if strings.HasPrefix(p.name, "deep-regs") {
			// every alignment of the last frame against the end of the registry
			for size := 130; size < 142; size++ {
				cfgs = append(cfgs, Cfg{CSS: 2000, Reg: size, Max: 0, Grow: 32, Min: size%2 == 0})
			}
		}
		// need(N) = k0 + slope*N, calibrated exactly at three points; N above 6000 uses the line
		n0 := 40
		if p.kind == "reg" {
			n0 = 300 // above the smallest registry so that the measuring registry grows
		}
		if strings.HasPrefix(p.name, "deep-regs") {
			n0 = 60
		}
		cal, _ := measure(p, []int{n0, n0 + 1, 2 * n0})
		slope := cal[n0+1] - cal[n0]
		if slope < 1 {
			slope = 1
		}
		k0 := cal[n0] - n0*slope
		linear := cal[2*n0] == k0+2*n0*slope
		var ins []LimitIn
		seenN := map[int]bool{}
		var directNs []int
		for _, c := range cfgs {
			seen := map[int]bool{}
			for _, t := range limitTargets(p, c, r, tier) {
				n := (t - k0) / slope
				if n < 1 || n > 140000 || (strings.HasPrefix(p.name, "deep-regs") && n > 1500) || (p.name == "rec-meta" && n > 150) || seen[n] {
					continue
				}
				seen[n] = true
				ins = append(ins, LimitIn{Kind: "limit", Prog: p.name, Cfg: c, N: n})
				if (n <= 6000 || !linear) && !seenN[n] {
					seenN[n] = true
					directNs = append(directNs, n)
				}
			}
		}
		need, mfail := measure(p, directNs)
		jobs := make([]Job, len(ins))
		for i, in := range ins {
			jobs[i] = limitJob(p, in.Cfg, in.N)
		}
		t0 := time.Now()
		outs := runJobsPar(jobs, 20*time.Second, 4)
		if os.Getenv("C12_DEBUG") != "" {
			fmt.Fprintln(os.Stderr, "limit program", p.name, "jobs", len(jobs), "measured", len(directNs), "k0", k0, "slope", slope, "linear", linear, time.Since(t0))
		}
		for i, in := range ins {
			nd, ok := need[in.N]
			if !ok {
				nd = k0 + slope*in.N
			}
			res = append(res, limitResult{in: in, need: nd, mfail: mfail[in.N], out: outs[i]})
		}
	}
	return res
}

/* ---------- recursion through Go functions: bounded by a limit that no Option moves ---------- */

// Every level of these programs nests a call from Go code into the interpreter (pcall, a metamethod,
// a sort comparator, a gsub callback). Under a large CallStackSize the depth is bounded by the
// "C stack overflow" check (LUAI_MAXCCALLS-like), which must be a catchable error at the same depth
// under every configuration. N is the number of levels; the program returns pcall-style.
var ccallProgs = []struct{ name, src string }{
	{"pcall", `local function f(n) if n == 0 then return 0 end local ok, v = pcall(f, n - 1) if not ok then error(v, 0) end return v + 1 end
	           return pcall(f, N)`},
	{"index", `local mt = {} local function mk(n) return setmetatable({ n = n }, mt) end
	           mt.__index = function(t, k) if t.n == 0 then return 0 end return 1 + mk(t.n - 1)[k] end
	           return pcall(function() return mk(N).x end)`},
	{"sort", `local function s(n) if n == 0 then return 0 end local r
	            table.sort({ 2, 1 }, function(a, b) if not r then r = s(n - 1) end return a < b end) return r + 1 end
	          return pcall(s, N)`},
	// coroutines resuming coroutines: every level runs on the Go stack of its resumer (maxResumeDepth); every level's
	// coroutine is created by the one above it and dies before its creator goes on (with a context: a chain of derived contexts)
	{"resume", `local function f(n) if n == 0 then return 0 end local co = coroutine.create(f) local ok, v = coroutine.resume(co, n - 1)
	              if not ok then error(v, 0) end if coroutine.status(co) ~= "dead" then error("not dead", 0) end return v + 1 end
	            return pcall(f, N)`},
	// (the error leaves each wrap function through a pcall: a wrap function called from Lua code prefixes a position at every level)
	{"wrap", `local function f(n) if n == 0 then return 0 end local ok, v = pcall(coroutine.wrap(f), n - 1) if not ok then error(v, 0) end
	            local s = 0 for i = 1, 10 do s = s + i end return v + s - 54 end
	          return pcall(f, N)`},
	{"gsub", `local function g(n) if n == 0 then return 0 end local r
	            string.gsub("x", "x", function() r = g(n - 1) end) return r + 1 end
	          return pcall(g, N)`},
}

type CcallIn struct {
	Kind string `json:"kind"` // "ccall"
	Prog string `json:"prog"`
	Cfg  Cfg    `json:"cfg"`
	Ns   []int  `json:"ns"`
}

var ccallRef = Cfg{CSS: 3000, Reg: 20000}

func ccallCfgs() []Cfg {
	return []Cfg{{CSS: 2000, Reg: 20000}, {CSS: 2000, Reg: 20000, Min: true}, {CSS: 100000, Reg: 5120, Max: 131072, Grow: 32, Min: true},
		{CSS: 1000, Reg: 128, Max: 131072, Grow: 1}, {CSS: 1500, Reg: 20000, Pkg: true}, {CSS: 1000, Reg: 20000, Ctx: true}}
}

func ccallJob(src string, cfg Cfg, n int) Job {
	return Job{Cfg: cfg, Prog: src, N: n, Want: n, Kind: "call"}
}

func ccallCase(w *lib.Writer, in CcallIn, ref, outs []JobOut) {
	enc := func(os []JobOut) []int64 {
		t := make([]int64, len(os))
		for i, o := range os {
			t[i] = int64(o.Outcome)
		}
		return t
	}
	rt, tt := enc(ref), enc(outs)
	mixed := false
	for i := range rt {
		if rt[i] != rt[0] {
			mixed = true
		}
	}
	id := w.Add(lib.Case{Input: in, Observed: map[string]any{"outcomes": tt, "ref": rt}, Class: "ccall/" + in.Prog, Nontrivial: mixed,
		Coq: fmt.Sprintf("CTrace %s %s %s", in.Cfg.normalised().coq(), zlist(rt), zlist(tt))})
	for i, o := range outs {
		if o.Fail != "" {
			w.GoFail(id, fmt.Sprintf("recursion through Go functions, %s N=%d: %s", in.Prog, in.Ns[i], o.Fail))
		} else if o.Outcome > 1 {
			w.GoFail(id, fmt.Sprintf("recursion through Go functions, %s N=%d: neither completed nor a caught stack overflow: %s", in.Prog, in.Ns[i], o.ErrMsg))
		} else if !o.Epi {
			w.GoFail(id, fmt.Sprintf("recursion through Go functions, %s N=%d: the state did not work afterwards", in.Prog, in.Ns[i]))
		}
	}
}

func findCcall(name string) string {
	for _, p := range ccallProgs {
		if p.name == name {
			return p.src
		}
	}
	return ""
}

func genCcalls(w *lib.Writer) {
	type res struct {
		ns   []int
		outs []JobOut
	}
	cfgs := ccallCfgs()
	results := make([]res, len(ccallProgs))
	done := make(chan int)
	for pi := range ccallProgs {
		go func(pi int) {
			p := ccallProgs[pi]
			// the deepest N that completes under the reference configuration
			lo, hi := 1, 1200
			for hi-lo > 1 {
				mid := (lo + hi) / 2
				o := runJobs([]Job{ccallJob(p.src, ccallRef, mid)}, 20*time.Second)
				if o[0].Outcome == 0 && o[0].Fail == "" {
					lo = mid
				} else {
					hi = mid
				}
			}
			ns := []int{lo / 2, lo - 1, lo, lo + 1, lo + 2, lo + 60}
			var jobs []Job
			for _, n := range ns {
				jobs = append(jobs, ccallJob(p.src, ccallRef, n))
			}
			for _, c := range cfgs {
				for _, n := range ns {
					jobs = append(jobs, ccallJob(p.src, c, n))
				}
			}
			results[pi] = res{ns: ns, outs: runJobs(jobs, 20*time.Second)}
			done <- pi
		}(pi)
	}
	for range ccallProgs {
		<-done
	}
	for pi, p := range ccallProgs {
		ns, outs := results[pi].ns, results[pi].outs
		for k, c := range cfgs {
			ccallCase(w, CcallIn{Kind: "ccall", Prog: p.name, Cfg: c, Ns: ns}, outs[:len(ns)], outs[(k+1)*len(ns):(k+2)*len(ns)])
		}
	}
}

func replayCcall(w *lib.Writer, in CcallIn) {
	src := findCcall(in.Prog)
	var jobs []Job
	for _, n := range in.Ns {
		jobs = append(jobs, ccallJob(src, ccallRef, n))
	}
	for _, n := range in.Ns {
		jobs = append(jobs, ccallJob(src, in.Cfg, n))
	}
	outs := runJobs(jobs, 30*time.Second)
	ccallCase(w, in, outs[:len(in.Ns)], outs[len(in.Ns):])
}

/* ---------- replay helpers ---------- */

func replayTrace(w *lib.Writer, in TraceIn) {
	outs := runJobs([]Job{{Cfg: refCfg, Prog: in.Prog}, {Cfg: in.Cfg, Prog: in.Prog}}, 5*time.Second)
	traceCase(w, in, outs[0], outs[1], "trace/replay")
}

func replayLimit(w *lib.Writer, in LimitIn) {
	p := findLimitProg(in.Prog)
	if p == nil {
		panic("unknown limit program " + in.Prog)
	}
	need, mfail := measure(p, []int{in.N})
	outs := runJobs([]Job{limitJob(p, in.Cfg, in.N)}, 60*time.Second)
	limitCase(w, in, p, need[in.N], mfail[in.N], outs[0])
}
