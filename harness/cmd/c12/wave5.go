package main

// Wave 5 additions:
//  (a) hand-over limit programs: a coroutine yields / returns / dies of an error while its RESUMER is
//      nearly out of registry; N (the number of values the resumer holds) sweeps the resumer's top
//      across the exact boundary where the handed-over values (and the status boolean of
//      coroutine.resume / LState.Resume) just fit or just do not. Whatever the outcome, the
//      hand-over is all-or-nothing (model: Stack/Handover.v) and the coroutine is afterwards what it
//      is after a completed hand-over: suspended in its yield (the next resume continues its body)
//      or dead.
//  (b) coroutine-tree programs: random scripts in which coroutines create, resume, outlive and
//      survive one another (creator != resumer, children finishing before / after their creator,
//      errors), run with every kind of undone context attached (model: Stack/CtxTree.v) and without.
//  (c) context-tree histories through the public API (NewThread / Resume / Context().Err()).

import (
	"context"
	"fmt"
	"strings"
	"time"

	lua "github.com/yuin/gopher-lua"
	"verifh/lib"
)

/* ---------- (a) hand-over at the resumer's registry boundary ---------- */

type handoverSpec struct {
	mode    string // "yield" | "return" | "error": how the coroutine gives control back
	resumer string // "resume" (coroutine.resume) | "wrap" (a coroutine.wrap function) | "go" (LState.Resume from a Go function)
	nested  bool   // the resumer is itself a coroutine
	k       int    // number of values handed over (1 for "error")
	// thorough: run in the thorough tier only
	thorough bool
}

func (h handoverSpec) name() string {
	n := fmt.Sprintf("handover-%s-%s-k%d", h.mode, h.resumer, h.k)
	if h.nested {
		n += "-nested"
	}
	return n
}

// handed: how many values arrive in the resumer's registry
func (h handoverSpec) handed() int {
	if h.resumer == "wrap" {
		if h.mode == "error" {
			return 2 // pcall(f) gives false, message
		}
		return h.k
	}
	return h.k + 1
}

func (h handoverSpec) src() string {
	var b strings.Builder
	w := func(f string, a ...any) { fmt.Fprintf(&b, f+"\n", a...) }
	w(`local K = %d`, h.k)
	w(`local t, vals = {}, {} for i = 1, N do t[i] = i end t[1] = N for i = 1, K do vals[i] = i end`)
	w(`local function main()`)
	w(`local started = false`)
	switch h.mode {
	case "yield":
		w(`local body = function() started = true local v = coroutine.yield(unpack(vals)) return "done", v end`)
	case "return":
		w(`local body = function() started = true return unpack(vals) end`)
	case "error":
		w(`local body = function() started = true error("boom", 0) end`)
	}
	call, again := "", ""
	switch h.resumer {
	case "resume":
		w(`local co = coroutine.create(body)`)
		call, again = `coroutine.resume(co)`, `coroutine.resume(co, "go")`
	case "go":
		w(`local co = coroutine.create(body)`)
		call, again = `goresume(co)`, `goresume(co, "go")`
	case "wrap":
		w(`local co local f = coroutine.wrap(function() co = coroutine.running() return body() end)`)
		call, again = `f()`, `pcall(f, "go")`
		if h.mode == "error" {
			call = `pcall(f)`
		}
	}
	// the resumer holds N values (its varargs) below the call that receives the hand-over; nothing else
	// in the program needs more registry than that call
	w(`local function hold(a, ...)`)
	w(`  mark()`)
	w(`  local r = { %s }`, call)
	if h.mode == "error" {
		w(`  if r[1] ~= false or not tostring(r[2]):find("boom") then error(r[2], 0) end`)
	}
	w(`  return #r + a`)
	w(`end`)
	w(`local me = coroutine.running()`)
	w(`local ok, v = pcall(hold, unpack(t, 1, N))`)
	w(`if coroutine.running() ~= me then return false, "the resumer is not the running thread after the hand-over" end`)
	// an overflow before the coroutine was ever resumed is the ordinary case of the other limit programs
	w(`if not started then if ok then return false, "the body never ran" end return ok, v end`)
	if h.mode == "yield" {
		w(`if coroutine.status(co) ~= "suspended" then return false, "after the first resume the coroutine is " .. coroutine.status(co) end`)
		w(`local r = { %s }`, again)
		w(`if #r ~= 3 or r[1] ~= true or r[2] ~= "done" or r[3] ~= "go" then`)
		w(`  return false, "the next resume did not continue the coroutine's body: " .. #r .. " values: " .. tostring(r[1]) .. ", " .. tostring(r[2]) .. ", " .. tostring(r[3]) end`)
	}
	w(`if coroutine.status(co) ~= "dead" then return false, "at the end the coroutine is " .. coroutine.status(co) end`)
	w(`local r2 = { %s }`, again)
	w(`if r2[1] ~= false or not tostring(r2[2]):find("dead") then return false, "resuming the dead coroutine: " .. tostring(r2[1]) .. ", " .. tostring(r2[2]) end`)
	w(`return ok, v`)
	w(`end`)
	// (an overflow outside hold, far beyond the limit, is caught here)
	if h.nested {
		w(`local outer = coroutine.wrap(function() return pcall(main) end)`)
		w(`local ok0, ok, v = outer()`)
		w(`if coroutine.running() ~= nil then return false, "main thread is not running" end`)
	} else {
		w(`local ok0, ok, v = pcall(main)`)
	}
	w(`if not ok0 then return false, ok end`)
	w(`return ok, v`)
	return b.String()
}

func handoverSpecs() []handoverSpec {
	var hs []handoverSpec
	for _, nested := range []bool{false, true} {
		for _, res := range []string{"resume", "wrap", "go"} {
			// nested: the quick tier runs one mode per resumer (a diagonal), the thorough tier all
			hs = append(hs,
				handoverSpec{mode: "yield", resumer: res, nested: nested, k: 20, thorough: nested && res != "resume"},
				handoverSpec{mode: "return", resumer: res, nested: nested, k: 7, thorough: nested && res != "go"},
				handoverSpec{mode: "error", resumer: res, nested: nested, k: 1, thorough: nested && res != "wrap"})
		}
	}
	// a single value and none at all (only the boolean is handed over)
	hs = append(hs, handoverSpec{mode: "yield", resumer: "resume", k: 1}, handoverSpec{mode: "yield", resumer: "resume", k: 0, nested: true},
		handoverSpec{mode: "return", resumer: "go", k: 0}, handoverSpec{mode: "yield", resumer: "wrap", k: 1})
	return hs
}

func init() {
	for _, h := range handoverSpecs() {
		h := h
		limitProgs = append(limitProgs, limitProg{name: h.name(), kind: "reg", src: h.src(), co: h.nested, handover: true, thoroughOnly: h.thorough,
			want: func(n int) int { return n + h.handed() }})
	}
}

// configurations for the hand-over programs: fixed and growable registries (the growable ones reach
// their maximum on the way), both call-stack kinds, the package-variable way, a context
func handoverCfgs(tier string) []Cfg {
	cs := []Cfg{
		{CSS: 2000, Reg: 128, Max: 0, Grow: 32, Min: false},
		{CSS: 2000, Reg: 200, Max: 300, Grow: 25, Min: true},
		{CSS: 2000, Reg: 128, Max: 1000, Grow: 1, Min: false},
		{CSS: 2000, Reg: 129, Max: 129, Grow: 7, Min: true, Ctx: true},
		{CSS: 2000, Reg: 200, Pkg: true},
	}
	if tier == "thorough" {
		cs = append(cs, Cfg{CSS: 2000, Reg: 5120, Max: 0, Grow: 32, Min: true}, Cfg{CSS: 2000, Reg: 128, Max: 8192, Grow: 32, Min: false},
			Cfg{CSS: 2000, Reg: 5120, Max: 8192, Grow: 1, Min: true}, Cfg{CSS: 2000, Reg: 1000, Pkg: true})
	}
	return cs
}

/* ---------- (b) coroutine trees ---------- */

// A script is one list of commands per coroutine id (0 = the main chunk). The interpreter below runs
// them; every observable (values passed through resume/yield, statuses, errors) goes to emit().
// At most 3 frames deep in every thread, a handful of registers.
const coTreeInterp = `
local cos, MAXID = {}, #S
local function status()
  local t = {} for id = 1, MAXID do t[#t + 1] = cos[id] and coroutine.status(cos[id]) or "-" end
  emit("st", unpack(t))
end
local run
run = function(id, ...)
  emit("start", id, ...)
  local cmds = S[id] or S0
  for pc = 1, #cmds do
    local c = cmds[pc]
    local op, a, b = c[1], c[2], c[3]
    if op == "create" then cos[a] = coroutine.create(function(...) return run(a, ...) end)
    elseif op == "gobody" then cos[a] = coroutine.create(coroutine.yield)
    elseif op == "wrap" then local f f = coroutine.wrap(function(...) cos[a] = coroutine.running() return run(a, ...) end) cos[-a] = f
    elseif op == "resume" then
      if cos[-a] and b == 1 then emit("w", id, a, pcall(cos[-a], id * 10 + pc))
      elseif cos[a] then emit("r", id, a, coroutine.resume(cos[a], id * 10 + pc))
      elseif cos[-a] then emit("w", id, a, pcall(cos[-a], id * 10 + pc))
      else emit("r", id, a, "none") end
    elseif op == "goresume" then
      if cos[a] then emit("g", id, a, goresume(cos[a], id * 10 + pc)) else emit("g", id, a, "none") end
    elseif op == "yield" then emit("y", id, coroutine.yield(id, pc))
    elseif op == "err" then error("e" .. id, 0)
    elseif op == "errtab" then error({ id })
    elseif op == "work" then local s = 0 for i = 1, 40 do s = s + i * id end emit("k", id, s)
    elseif op == "status" then status()
    elseif op == "setctx" then setctx()
    elseif op == "rmctx" then rmctx()
    elseif op == "drop" then cos[a] = nil cos[-a] = nil collectgarbage()
    end
  end
  return "ret", id
end
emit(pcall(run, 0))
status()
return 1
`

type coCmd struct {
	op   string
	a, b int
}

// genCoTree draws a script: ids 1..m, each created by an earlier id (chains are favoured: the
// creator of a coroutine is usually the latest one), resumed by its creator, by the main chunk or by
// any other coroutine that runs later; bodies yield 0..3 times, finish or raise; creators go on
// working after their children are done, or finish first and leave them to others.
func genCoTree(r *lib.Rand) string {
	m := r.Range(2, 7)
	creator := make([]int, m+1)
	for id := 1; id <= m; id++ {
		switch {
		case id == 1:
			creator[id] = 0
		case r.Chance(60):
			creator[id] = id - 1
		default:
			creator[id] = r.Intn(id)
		}
	}
	scripts := make([][]coCmd, m+1)
	filler := func(id int) coCmd {
		switch r.Pick(4, 3, 1) {
		case 0:
			return coCmd{op: "work"}
		case 1:
			return coCmd{op: "status"}
		default:
			if id != 0 && r.Chance(50) {
				return coCmd{op: "yield"}
			}
			return coCmd{op: "work"}
		}
	}
	for id := m; id >= 0; id-- {
		var cmds []coCmd
		if id == 0 && r.Chance(50) {
			cmds = append(cmds, filler(id))
		}
		var kids []int
		for k := id + 1; k <= m; k++ {
			if creator[k] == id {
				kids = append(kids, k)
			}
		}
		for _, k := range kids {
			if id == 0 && k == kids[len(kids)-1] && r.Chance(50) {
				cmds = append(cmds, coCmd{op: "setctx"})
			}
			if r.Chance(25) {
				cmds = append(cmds, coCmd{op: "wrap", a: k})
			} else if r.Chance(8) {
				// the body is a Go function (coroutine.yield itself): it has no frame to continue, the second resume ends it
				cmds = append(cmds, coCmd{op: "gobody", a: k})
			} else {
				cmds = append(cmds, coCmd{op: "create", a: k})
			}
			if r.Chance(30) {
				cmds = append(cmds, filler(id))
			}
			// how often the creator itself resumes the child: often until it is finished and beyond
			for n := r.Pick(2, 3, 3, 3, 2); n > 0; n-- {
				op := "resume"
				if r.Chance(15) {
					op = "goresume"
				}
				cmds = append(cmds, coCmd{op: op, a: k, b: r.Intn(2)})
				if r.Chance(35) {
					cmds = append(cmds, filler(id))
				}
			}
			if r.Chance(10) {
				cmds = append(cmds, coCmd{op: "drop", a: k})
			}
		}
		// resumes of coroutines created by others (any id; unknown or unfinished ones included)
		for n := r.Pick(5, 3, 2); n > 0; n-- {
			at := r.Intn(len(cmds) + 1)
			c := coCmd{op: "resume", a: r.Range(1, m), b: r.Intn(2)}
			cmds = append(cmds[:at], append([]coCmd{c}, cmds[at:]...)...)
		}
		// the creator goes on after its children: the instructions that a context cancelled under it would not survive
		for n := r.Range(1, 3); n > 0; n-- {
			cmds = append(cmds, filler(id))
		}
		if id == 0 {
			if r.Chance(30) {
				cmds = append(cmds, coCmd{op: "rmctx"})
			}
			// the main chunk finishes what is left, twice over
			for round := 0; round < 3; round++ {
				for k := 1; k <= m; k++ {
					cmds = append(cmds, coCmd{op: "resume", a: k, b: round % 2})
				}
				cmds = append(cmds, coCmd{op: "status"})
			}
		} else {
			switch r.Pick(6, 2, 1) {
			case 1:
				cmds = append(cmds, coCmd{op: "err"})
			case 2:
				cmds = append(cmds, coCmd{op: "errtab"})
			}
		}
		scripts[id] = cmds
	}
	lit := func(cmds []coCmd) string {
		var b strings.Builder
		b.WriteString("{")
		for _, c := range cmds {
			fmt.Fprintf(&b, `{%q,%d,%d},`, c.op, c.a, c.b)
		}
		b.WriteString("}")
		return b.String()
	}
	var b strings.Builder
	fmt.Fprintf(&b, "local S0 = %s\nlocal S = {\n", lit(scripts[0]))
	for id := 1; id <= m; id++ {
		fmt.Fprintf(&b, " %s,\n", lit(scripts[id]))
	}
	b.WriteString("}\n")
	b.WriteString(coTreeInterp)
	return b.String()
}

// hand-written coroutine trees: the lifetimes the generator is meant to cover, always run
var coTreeCorpus = []string{
	// a worker created, resumed and finished inside another coroutine, which then carries on
	`local outer = coroutine.create(function()
	   local inner = coroutine.create(function(x) coroutine.yield(x + 1) return x + 2 end)
	   emit(coroutine.resume(inner, 1)) emit(coroutine.resume(inner)) emit(coroutine.status(inner))
	   coroutine.yield("mid")
	   local w = coroutine.create(function() error("worker failed", 0) end)
	   emit(coroutine.resume(w))
	   local s = 0 for i = 1, 100 do s = s + i end return s end)
	 emit(coroutine.resume(outer)) emit(coroutine.resume(outer)) emit(coroutine.status(outer)) return 1`,
	// three levels; the innermost outlives its creator and is finished by the main chunk
	`local keep
	 local a = coroutine.wrap(function()
	   local b = coroutine.wrap(function()
	     keep = coroutine.create(function() local v = coroutine.yield("c1") local s = 0 for i = 1, 30 do s = s + i end return v, s end)
	     emit(coroutine.resume(keep)) return "b done" end)
	   emit(b()) local s = 0 for i = 1, 50 do s = s + i end coroutine.yield(s) return "a done" end)
	 emit(a()) emit(coroutine.resume(keep, "later")) emit(a()) emit(coroutine.status(keep)) return 2`,
	// siblings: the creator survives the first child's death only if the second still holds on
	`local outer = coroutine.wrap(function()
	   local c1 = coroutine.create(function() return 1 end)
	   local c2 = coroutine.create(function() coroutine.yield(2) return 3 end)
	   emit(coroutine.resume(c2)) emit(coroutine.resume(c1)) local s = 0 for i = 1, 20 do s = s + i end emit(s)
	   emit(coroutine.resume(c2)) for i = 1, 20 do s = s + i end emit(s, coroutine.status(c1), coroutine.status(c2)) return "end" end)
	 emit(outer()) return 3`,
	// the context is attached when coroutines already exist; one of them creates more
	`local early = coroutine.create(function() local k = coroutine.create(function() return "kid" end) coroutine.yield("e1")
	   emit(coroutine.resume(k)) local s = 0 for i = 1, 60 do s = s + i end return s end)
	 emit(coroutine.resume(early)) setctx() emit(coroutine.resume(early)) emit(coroutine.status(early))
	 local late = coroutine.wrap(function() local g = coroutine.wrap(function() return "g" end) emit(g()) local s = 0 for i = 1, 60 do s = s + i end return s end)
	 emit(late()) rmctx() return 4`,
}

func coTreeCfgs(tier string) []Cfg {
	cs := []Cfg{
		{CSS: 256, Reg: 5120, Grow: 32, Ctx: true},
		{CSS: 256, Reg: 5120, Grow: 32, Ctx: true, CtxMode: "bg"},
		{CSS: 9, Reg: 128, Max: 131072, Grow: 1, Min: true, Ctx: true, CtxMode: "deadline"},
		{CSS: 256, Reg: 5120, Grow: 32, Ctx: true, CtxMode: "removed"},
		{CSS: 16, Reg: 128, Grow: 7, Min: true, Ctx: true, CtxMode: "late"},
		{CSS: 256, Reg: 5120, Grow: 32, Ctx: true, CtxMode: "midrm"},
		{CSS: 7, Reg: 128, Max: 4096, Grow: 3, Min: true},
		{CSS: 300, Reg: 6000, Pkg: true, Ctx: true, CtxMode: "bg"},
	}
	if tier == "thorough" {
		cs = append(cs, Cfg{CSS: 8, Reg: 128, Max: 0, Grow: 0, Ctx: true, CtxMode: "late"}, Cfg{CSS: 17, Reg: 129, Max: 2500, Grow: 1, Min: true, Ctx: true, CtxMode: "midrm"},
			Cfg{CSS: 256, Reg: 5120, Grow: 32, Min: true, Ctx: true}, Cfg{CSS: 7, Reg: 128, Pkg: true})
	}
	return cs
}

func genCoTrees(w *lib.Writer, r *lib.Rand, tier string) {
	n := 40
	if tier == "thorough" {
		n = 600
	}
	cfgs := coTreeCfgs(tier)
	var progs, classes []string
	for i, p := range coTreeCorpus {
		progs = append(progs, p)
		classes = append(classes, fmt.Sprintf("trace/cotree-corpus%d", i))
	}
	for i := 0; i < n; i++ {
		progs = append(progs, genCoTree(r.Fork()))
		classes = append(classes, "trace/cotree")
	}
	var batches [][]Job
	for _, p := range progs {
		jobs := []Job{{Cfg: refCfg, Prog: p}}
		for _, c := range cfgs {
			jobs = append(jobs, Job{Cfg: c, Prog: p})
		}
		batches = append(batches, jobs)
	}
	// few, larger child processes
	var merged [][]Job
	per := 8
	for i := 0; i < len(batches); i += per {
		var js []Job
		for k := i; k < i+per && k < len(batches); k++ {
			js = append(js, batches[k]...)
		}
		merged = append(merged, js)
	}
	all := runBatches(merged, 2*time.Second)
	stride := len(cfgs) + 1
	for b := range progs {
		outs := all[b/per][(b%per)*stride : (b%per+1)*stride]
		for k, c := range cfgs {
			traceCase(w, TraceIn{Kind: "trace", Cfg: c, Prog: progs[b]}, outs[0], outs[k+1], classes[b])
		}
	}
}

/* ---------- (c) context-tree histories through the public API ---------- */

// CtxOp: "new" derives thread number Next from thread A (0 = the main state, which carries the
// context given to SetContext); "die" lets thread A run its (empty) body to the end.
type CtxOp struct {
	K string `json:"k"` // new | die
	A int    `json:"a"`
}

type CtxIn struct {
	Kind string  `json:"kind"` // "ctx"
	Ops  []CtxOp `json:"ops"`
}

// runCtx executes a history: after every operation the Err() != nil of every thread's context is recorded.
func runCtx(w *lib.Writer, in CtxIn, class string) {
	L := lua.NewState(lua.Options{SkipOpenLibs: true})
	defer L.Close()
	ctx, cancel := context.WithCancel(context.Background())
	defer cancel()
	L.SetContext(ctx)
	body, lerr := L.LoadString("return")
	if lerr != nil {
		panic(lerr)
	}
	threads := []*lua.LState{L}
	var opsCoq, obsCoq []string
	fail := ""
	for _, o := range in.Ops {
		func() {
			defer func() {
				if r := recover(); r != nil && fail == "" {
					fail = fmt.Sprint(r)
					if len(fail) > 200 {
						fail = fail[:200]
					}
				}
			}()
			switch o.K {
			case "new":
				th, _ := threads[o.A].NewThread()
				threads = append(threads, th)
				opsCoq = append(opsCoq, fmt.Sprintf("XNew %d", o.A))
			case "die":
				st, err, _ := L.Resume(threads[o.A], body)
				if st != lua.ResumeOK && fail == "" {
					fail = fmt.Sprintf("Resume of thread %d: state %d, %v", o.A, st, err)
				}
				opsCoq = append(opsCoq, fmt.Sprintf("XDie %d", o.A))
			}
		}()
		flags := make([]string, 0, len(threads)-1)
		for i := 1; i < len(threads); i++ {
			c := threads[i].Context() != nil && threads[i].Context().Err() != nil
			flags = append(flags, lib.CoqBool(c))
		}
		obsCoq = append(obsCoq, lib.CoqList(flags))
	}
	id := w.Add(lib.Case{Input: in, Observed: obsCoq, Class: class, Nontrivial: len(threads) > 3,
		Coq: fmt.Sprintf("CCtx %s %s", lib.CoqList(opsCoq), lib.CoqList(obsCoq))})
	if fail != "" {
		w.GoFail(id, "context tree history: "+fail)
	}
}

// genCtx: derive from live threads only (a dead thread runs no code, so nothing is created by it), kill live non-main threads.
func genCtx(r *lib.Rand) CtxIn {
	n := r.Range(4, 24)
	live := []int{0}
	next := 1
	var ops []CtxOp
	for len(ops) < n {
		if len(live) > 1 && r.Chance(45) {
			// kill: favour the youngest (a worker that finishes inside its creator)
			i := len(live) - 1
			if r.Chance(50) {
				i = r.Range(1, len(live)-1)
			}
			ops = append(ops, CtxOp{K: "die", A: live[i]})
			live = append(live[:i], live[i+1:]...)
		} else {
			from := live[len(live)-1]
			if r.Chance(40) {
				from = live[r.Intn(len(live))]
			}
			ops = append(ops, CtxOp{K: "new", A: from})
			live = append(live, next)
			next++
		}
	}
	return CtxIn{Kind: "ctx", Ops: ops}
}

func ctxCorpus(w *lib.Writer) {
	for _, ops := range [][]CtxOp{
		{{"new", 0}, {"new", 1}, {"die", 2}, {"new", 1}, {"die", 3}, {"die", 1}},
		{{"new", 0}, {"new", 1}, {"new", 2}, {"die", 1}, {"die", 2}, {"die", 3}},
		{{"new", 0}, {"new", 1}, {"new", 1}, {"die", 2}, {"die", 1}, {"new", 3}, {"die", 4}, {"die", 3}},
	} {
		runCtx(w, CtxIn{Kind: "ctx", Ops: ops}, "corpus/ctx")
	}
}

/* ---------- (d) one hand-over through the Go API against the model ---------- */

// HoIn: a state made with the given registry options holds T values at its base level and resumes
// (LState.Resume) a coroutine that yields / returns K values or raises an error.
type HoIn struct {
	Kind string `json:"kind"` // "handover"
	Reg  int    `json:"reg"`
	Max  int    `json:"max"`
	Grow int    `json:"grow"`
	Min  bool   `json:"min"`
	T    int    `json:"t"`
	K    int    `json:"k"`
	Mode int    `json:"mode"` // 0 yield, 1 return, 2 error
}

const hoBody = `local k, mode = ...
local vals = {} for i = 1, k do vals[i] = i end
if mode == 2 then error("boom", 0) end
if mode == 1 then return unpack(vals) end
local v = coroutine.yield(unpack(vals))
return "done", v`

func runHandover(w *lib.Writer, in HoIn, class string) {
	L := lua.NewState(lua.Options{RegistrySize: in.Reg, RegistryMaxSize: in.Max, RegistryGrowStep: in.Grow, MinimizeStackMemory: in.Min})
	defer L.Close()
	o := L.Options
	fail := ""
	note := func(f string, a ...any) {
		if fail == "" {
			fail = fmt.Sprintf(f, a...)
			if len(fail) > 200 {
				fail = fail[:200]
			}
		}
	}
	guard := func(f func()) (msg string, panicked bool) {
		defer func() {
			if r := recover(); r != nil {
				panicked = true
				msg = fmt.Sprint(r)
				if e, ok := r.(error); ok {
					msg = e.Error()
				}
			}
		}()
		f()
		return
	}
	fn, err := L.LoadString(hoBody)
	if err != nil {
		panic(err)
	}
	th, _ := L.NewThread()
	L.SetTop(0)
	if lua.VerifRegTop(L) != 0 {
		note("registry top of a fresh state is %d", lua.VerifRegTop(L))
	}
	if msg, p := guard(func() {
		for i := 1; i <= in.T; i++ {
			L.Push(lua.LNumber(i))
		}
	}); p {
		note("pushing %d values: %s", in.T, msg)
	}
	st, nvals, valsok := 0, 0, true
	var rs lua.ResumeState
	var rerr error
	var vals []lua.LValue
	msg, p := guard(func() { rs, rerr, vals = L.Resume(th, fn, lua.LNumber(in.K), lua.LNumber(in.Mode)) })
	switch {
	case p && strings.Contains(msg, "registry overflow"):
		st = 1
	case p:
		st = 2
		note("Resume panicked: %s", msg)
	case in.Mode == 2:
		nvals = 1
		ae, ok := rerr.(*lua.ApiError)
		valsok = rs == lua.ResumeError && ok && ae.Object == lua.LString("boom")
	default:
		nvals = len(vals)
		valsok = rerr == nil && ((in.Mode == 0 && rs == lua.ResumeYield) || (in.Mode == 1 && rs == lua.ResumeOK))
		for i, v := range vals {
			if v != lua.LNumber(i+1) {
				valsok = false
			}
		}
	}
	// afterwards: the resumer is the running thread, its values are intact, the coroutine is what it is after a completed hand-over
	childok := L.Status(L) == "running"
	if _, p := guard(func() { L.SetTop(in.T) }); p {
		childok = false
	}
	for _, i := range []int{1, in.T / 2, in.T} {
		if i >= 1 && i <= in.T && L.Get(i) != lua.LNumber(i) {
			childok = false
		}
	}
	guard(func() { L.SetTop(0) })
	if in.Mode == 0 {
		if L.Status(th) != "suspended" {
			childok = false
		}
		var rs2 lua.ResumeState
		var vals2 []lua.LValue
		if _, p := guard(func() { rs2, _, vals2 = L.Resume(th, fn, lua.LString("go")) }); p || rs2 != lua.ResumeOK || len(vals2) != 2 ||
			vals2[0] != lua.LString("done") || vals2[1] != lua.LString("go") {
			childok = false
		}
	}
	if L.Status(th) != "dead" || L.Status(L) != "running" {
		childok = false
	}
	var rs3 lua.ResumeState
	if _, p := guard(func() { rs3, _, _ = L.Resume(th, fn) }); p || rs3 != lua.ResumeError {
		childok = false
	}
	lim := o.RegistrySize
	if o.RegistryMaxSize > lim {
		lim = o.RegistryMaxSize
	}
	need := in.T + in.K + 1
	z := func(i int) string { return lib.CoqZ(int64(i)) }
	id := w.Add(lib.Case{Input: in, Observed: map[string]any{"st": st, "nvals": nvals, "valsok": valsok, "childok": childok, "msg": truncate(msg, 120)},
		Class: class, Nontrivial: need >= lim-1 && need <= lim+2,
		Coq: fmt.Sprintf("CHandover %s %s %s %s %s %d %d %d %s %s", z(o.RegistrySize), z(o.RegistryGrowStep), z(o.RegistryMaxSize), z(in.T), z(in.K), in.Mode, st, nvals,
			lib.CoqBool(valsok), lib.CoqBool(childok))})
	if fail != "" {
		w.GoFail(id, "hand-over through the Go API: "+fail)
	}
}

func truncate(s string, n int) string {
	if len(s) > n {
		return s[:n]
	}
	return s
}

func genHandover(r *lib.Rand) HoIn {
	pick := func(vs ...int) int { return vs[r.Intn(len(vs))] }
	in := HoIn{Kind: "handover", Reg: pick(128, 129, 150, 200), Grow: pick(0, 1, 2, 7, 32, 100), Min: r.Bool(), Mode: r.Pick(3, 2, 2)}
	switch r.Pick(3, 2, 2, 2) {
	case 0:
		in.Max = 0
	case 1:
		in.Max = in.Reg + pick(0, 1, 2, 31, 32, 33)
	case 2:
		in.Max = pick(256, 300)
	default:
		in.Max = in.Reg - 1 // below the initial size: fixed
	}
	in.K = pick(0, 1, 2, 3, 5, 20, 60)
	if in.Mode == 2 {
		in.K = 1
	}
	lim := in.Reg
	if in.Max > lim {
		lim = in.Max
	}
	// the boundary is T + K + 1 == lim
	in.T = lim - in.K - 1 + r.Range(-2, 3)
	if r.Chance(15) {
		in.T = r.Intn(lim + 1)
	}
	if in.T < 0 {
		in.T = 0
	}
	if in.T > lim {
		in.T = lim
	}
	return in
}
