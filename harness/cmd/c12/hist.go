package main

// Hook-driven histories: random operation sequences against the real fixedCallFrameStack,
// autoGrowingCallFrameStack and registry (through /repo/verif_hooks_stack.go), recorded with
// everything the operations return.

import (
	"fmt"
	"math"
	"strings"

	lua "github.com/yuin/gopher-lua"
	"verifh/lib"
)

/* ---------- call-frame stacks ---------- */

// SOp is one call-frame stack operation (replayable).
type SOp struct {
	K string `json:"k"` // push pop last at setsp sp empty full
	A int    `json:"a,omitempty"`
}

type StackIn struct {
	Kind string `json:"kind"` // "fixed" | "auto"
	Size int    `json:"size"`
	Ops  []SOp  `json:"ops"`
}

func (o SOp) coq() string {
	switch o.K {
	case "push":
		return fmt.Sprintf("SPush %s []", lib.CoqZ(int64(o.A)))
	case "pop":
		return "SPop"
	case "last":
		return "SLast"
	case "at":
		return "SAt " + lib.CoqZ(int64(o.A))
	case "setsp":
		return "SSetSp " + lib.CoqZ(int64(o.A))
	case "sp":
		return "SSp"
	case "empty":
		return "SIsEmpty"
	case "full":
		return "SIsFull"
	}
	panic("bad sop " + o.K)
}

func frameCoq(f lua.VerifFrame) string {
	if f.Nil {
		return "OFrame None"
	}
	return fmt.Sprintf("OFrame (Some (mkFrame %s %s))", lib.CoqZ(int64(f.Tag)), lib.CoqZ(int64(f.Idx)))
}

// stackStep runs one operation on the real stack; the observation is a Gallina `sobs` term.
func stackStep(s *lua.VerifCallStack, o SOp) (obs string) {
	defer func() {
		if r := recover(); r != nil {
			if strings.Contains(fmt.Sprint(r), "lua callstack overflow") {
				obs = "OPanicOverflow"
			} else {
				obs = "OFault"
			}
		}
	}()
	switch o.K {
	case "push":
		s.Push(o.A)
		return "OUnit"
	case "pop":
		return frameCoq(s.Pop())
	case "last":
		return frameCoq(s.Last())
	case "at":
		return frameCoq(s.At(o.A))
	case "setsp":
		s.SetSp(o.A)
		return "OUnit"
	case "sp":
		return "OZ " + lib.CoqZ(int64(s.Sp()))
	case "empty":
		return "OBool " + lib.CoqBool(s.IsEmpty())
	case "full":
		return "OBool " + lib.CoqBool(s.IsFull())
	}
	panic("bad sop")
}

func capOf(kind string, size int) int {
	if kind == "auto" {
		return 8 * ((size + 7) / 8)
	}
	return size
}

func runStack(w *lib.Writer, in StackIn, class string) {
	var s *lua.VerifCallStack
	if in.Kind == "auto" {
		lua.VerifDirtySegmentPool(6, 7000)
		s = lua.VerifAutoStack(in.Size)
	} else {
		s = lua.VerifFixedStack(in.Size)
	}
	ops := make([]string, 0, len(in.Ops))
	obs := make([]string, 0, len(in.Ops))
	c := capOf(in.Kind, in.Size)
	depth, maxDepth, boundary := 0, 0, false
	for _, o := range in.Ops {
		ob := stackStep(s, o)
		ops = append(ops, o.coq())
		obs = append(obs, ob)
		// shadow depth for the non-triviality rule only
		switch o.K {
		case "push":
			if ob == "OUnit" {
				depth++
			}
		case "pop":
			if depth > 0 {
				depth--
			}
		case "setsp":
			if o.A == depth && depth > 0 && depth%8 == 0 {
				boundary = true
			}
			if o.A <= depth {
				depth = o.A
			}
		}
		if depth > maxDepth {
			maxDepth = depth
		}
		if ob == "OFault" {
			break // the Go object may be inconsistent after a runtime panic; the model stops being compared later anyway
		}
	}
	s.FreeAll()
	ctor := "CFixed"
	if in.Kind == "auto" {
		ctor = "CAuto"
	}
	// non-trivial: the history crossed a segment boundary (depth > 8) or reached the capacity, or did SetSp(Sp) on a boundary
	nt := maxDepth > 8 || maxDepth >= c || boundary
	w.Add(lib.Case{
		Input: in, Observed: obs, Class: class, Nontrivial: nt,
		Coq: fmt.Sprintf("%s %d %s %s", ctor, in.Size, lib.CoqList(ops), lib.CoqList(obs)),
	})
}

// genStack draws a history that walks between target depths chosen around segment boundaries and
// the capacity, with queries in between.
func genStack(r *lib.Rand, kind string) StackIn {
	sizes := []int{1, 2, 3, 7, 8, 9, 15, 16, 17, 23, 24, 25, 31, 32, 33, 40}
	size := sizes[r.Intn(len(sizes))]
	if r.Chance(30) {
		size = r.Range(1, 40)
	}
	if kind == "auto" && r.Chance(2) {
		// more than 65536 segments (the segment index must not be a 16-bit number)
		size = []int{524288, 524289, 524296, 600000}[r.Intn(4)]
	}
	c := capOf(kind, size)
	if c > 48 {
		c = 48 // targets of the walk; the real capacity is far away
	}
	n := r.Range(10, 70)
	var ops []SOp
	depth := 0
	tag := 100
	target := 0
	pickTarget := func() int {
		switch r.Pick(3, 3, 2, 2) {
		case 0: // around a segment boundary
			k := 8 * r.Range(0, (c+7)/8)
			t := k + r.Range(-1, 1)
			if t < 0 {
				t = 0
			}
			if t > c {
				t = c
			}
			return t
		case 1:
			return c - r.Intn(2)
		case 2:
			return r.Intn(c + 1)
		default:
			return 0
		}
	}
	target = pickTarget()
	for len(ops) < n {
		if depth == target {
			target = pickTarget()
		}
		switch r.Pick(50, 10, 10, 8, 8, 5, 9) {
		case 0: // move towards the target
			if depth < target {
				ops = append(ops, SOp{K: "push", A: tag})
				tag++
				depth++
			} else if depth > target {
				if r.Chance(25) {
					ops = append(ops, SOp{K: "setsp", A: target})
					depth = target
				} else {
					ops = append(ops, SOp{K: "pop"})
					depth--
				}
			}
		case 1:
			ops = append(ops, SOp{K: "last"})
		case 2:
			if depth > 0 {
				ops = append(ops, SOp{K: "at", A: r.Intn(depth)})
			}
		case 3:
			ops = append(ops, SOp{K: "sp"})
		case 4:
			ops = append(ops, SOp{K: "full"})
		case 5:
			ops = append(ops, SOp{K: "empty"})
		case 6: // SetSp to the current depth (what PCall does after every call) or a little below
			d := depth - r.Pick(6, 2, 1)
			if d < 0 {
				d = 0
			}
			ops = append(ops, SOp{K: "setsp", A: d})
			depth = d
		}
		// rarely: outside the domain of the list specification (the impl model is still exact)
		if r.Chance(1) && depth == c {
			ops = append(ops, SOp{K: "push", A: tag}) // push when full: panic, nothing changes
			tag++
		}
		if r.Chance(1) && depth == 0 && kind == "auto" {
			ops = append(ops, SOp{K: "pop"}) // the auto stack returns nil on an empty Pop
		}
	}
	return StackIn{Kind: kind, Size: size, Ops: ops}
}

/* ---------- registry ---------- */

type ROp struct {
	K string `json:"k"` // push pop get set settop copy fillnil insert raise move
	A int    `json:"a,omitempty"`
	B int    `json:"b,omitempty"`
	C int    `json:"c,omitempty"`
	D int    `json:"d,omitempty"`
	V int    `json:"v,omitempty"` // payload; 0 = LNil
}

type RegIn struct {
	Kind string `json:"kind"` // "reg"
	Init int    `json:"init"`
	Grow int    `json:"grow"`
	Max  int    `json:"max"`
	Ops  []ROp  `json:"ops"`
}

func valCoq(v int) string {
	if v == 0 {
		return "VNil"
	}
	return "(VInt " + lib.CoqZ(int64(v)) + ")"
}

func valGo(v int) lua.LValue {
	if v == 0 {
		return lua.LNil
	}
	return lua.LNumber(v)
}

func (o ROp) coq() string {
	z := func(i int) string { return lib.CoqZ(int64(i)) }
	switch o.K {
	case "push":
		return "RPush " + valCoq(o.V)
	case "pop":
		return "RPop"
	case "get":
		return "RGet " + z(o.A)
	case "set":
		return "RSet " + z(o.A) + " " + valCoq(o.V)
	case "settop":
		return "RSetTop " + z(o.A)
	case "copy":
		return fmt.Sprintf("RCopyRange %s %s %s %s", z(o.A), z(o.B), z(o.C), z(o.D))
	case "fillnil":
		return "RFillNil " + z(o.A) + " " + z(o.B)
	case "insert":
		return "RInsert " + valCoq(o.V) + " " + z(o.A)
	case "raise":
		return "RRaisePush"
	case "move":
		return "RMove " + z(o.A) + " " + z(o.B)
	}
	panic("bad rop " + o.K)
}

// cellCoq prints a raw LValue as a Gallina `cell`.
func cellCoq(v lua.LValue) string {
	if v == nil {
		return "None"
	}
	switch x := v.(type) {
	case *lua.LNilType:
		return "(Some VNil)"
	case lua.LNumber:
		return "(Some (VInt " + lib.CoqZ(int64(x)) + "))"
	case lua.LString:
		return "(Some VMsg)"
	}
	return "(Some (VRef 0))"
}

func regObs(g *lua.VerifRegistry, status string, ret string) string {
	st := "SOk"
	switch {
	case status == "overflow":
		st = "SOverflow"
	case status != "":
		return "mkRobs SFault None 0 []"
	}
	top := g.Top()
	cells := make([]string, top)
	for i := 0; i < top; i++ {
		v, s := g.Get(i)
		if s != "" {
			return "mkRobs SFault None 0 []"
		}
		cells[i] = cellCoq(v)
	}
	return fmt.Sprintf("mkRobs %s %s %d %s", st, ret, top, lib.CoqList(cells))
}

// applyReg runs one operation on the real registry.
func applyReg(g *lua.VerifRegistry, o ROp) (status, ret string) {
	ret = "None"
	switch o.K {
	case "push":
		status = g.Push(valGo(o.V))
	case "pop":
		var v lua.LValue
		v, status = g.Pop()
		ret = "(Some " + cellCoq(v) + ")"
	case "get":
		var v lua.LValue
		v, status = g.Get(o.A)
		ret = "(Some " + cellCoq(v) + ")"
	case "set":
		status = g.Set(o.A, valGo(o.V))
	case "settop":
		status = g.SetTop(o.A)
	case "copy":
		status = g.CopyRange(o.A, o.B, o.C, o.D)
	case "fillnil":
		status = g.FillNil(o.A, o.B)
	case "insert":
		status = g.Insert(valGo(o.V), o.A)
	case "raise":
		// the registry part of LState.raiseError, composed from the thin wrappers
		if g.IsFull() {
			status = g.ForceResize(g.Top() + 1)
		}
		if status == "" {
			status = g.PushRaw(lua.LString("msg"))
		}
	case "move":
		var v lua.LValue
		v, status = g.Get(o.B)
		if status == "" {
			status = g.Set(o.A, v)
		}
	}
	return
}

func runReg(w *lib.Writer, in RegIn, class string) {
	g := lua.VerifNewRegistry(in.Init, in.Grow, in.Max)
	ops := make([]string, 0, len(in.Ops))
	obs := make([]string, 0, len(in.Ops))
	grew, overflowed := false, false
	for _, o := range in.Ops {
		cap0 := g.Cap()
		status, ret := applyReg(g, o)
		if status != "" {
			ret = "None"
		}
		if status == "overflow" {
			overflowed = true
		}
		if g.Cap() != cap0 {
			grew = true
		}
		ob := regObs(g, status, ret)
		ops = append(ops, o.coq())
		obs = append(obs, ob)
		if strings.Contains(ob, "SFault") {
			break
		}
	}
	w.Add(lib.Case{
		Input: in, Observed: obs, Class: class, Nontrivial: grew || overflowed,
		Coq: fmt.Sprintf("CReg %d %d %d %s %s", in.Init, in.Grow, in.Max, lib.CoqList(ops), lib.CoqList(obs)),
	})
}

func genReg(r *lib.Rand) RegIn {
	init := r.Range(1, 40)
	grow := r.Range(1, 64)
	if r.Chance(40) {
		grow = []int{1, 2, 8, 32, 64, 0, math.MaxInt64, math.MaxInt64 - 7}[r.Intn(8)]
	}
	var max int
	switch r.Pick(3, 2, 3, 2, 1) {
	case 0:
		max = 0
	case 1:
		max = init
	case 2:
		max = init + r.Range(1, 30)
	case 3:
		max = 200
	default:
		max = r.Intn(init) // smaller than the initial size: no growth
	}
	lim := init
	if max > lim {
		lim = max
	}
	n := r.Range(8, 40)
	var ops []ROp
	sh := lua.VerifNewRegistry(init, grow, max) // shadow instance: state feedback for the generator
	top := 0
	val := 1
	nv := func() int {
		val++
		if r.Chance(10) {
			return 0
		}
		return val
	}
	setTop := func(int) {}
	applied := 0
	for len(ops) < n {
		for ; applied < len(ops); applied++ {
			applyReg(sh, ops[applied])
		}
		top = sh.Top()
		if sh.Cap() > lim {
			lim = sh.Cap()
		}
		switch r.Pick(22, 8, 6, 8, 12, 12, 8, 8, 4, 6, 6) {
		case 0:
			ops = append(ops, ROp{K: "push", V: nv()})
			setTop(top + 1)
		case 1:
			if top > 0 {
				ops = append(ops, ROp{K: "pop"})
			}
		case 2:
			if top > 0 {
				ops = append(ops, ROp{K: "get", A: r.Intn(top)})
			}
		case 3:
			reg := r.Intn(top + 1)
			ops = append(ops, ROp{K: "set", A: reg, V: nv()})
			if reg == top {
				setTop(top + 1)
			}
		case 4:
			var t int
			switch r.Pick(4, 3, 3) {
			case 0:
				t = r.Intn(top + 8)
			case 1:
				t = lim + r.Range(-2, 2)
			default:
				t = top + r.Range(0, 70)
			}
			if t < 0 {
				t = 0
			}
			ops = append(ops, ROp{K: "settop", A: t})
			setTop(t)
		case 5:
			regv := r.Intn(top + 1)
			start := r.Range(-2, top+2)
			k := r.Intn(7)
			if r.Chance(15) {
				k = lim - regv + r.Range(-1, 1)
				if k < 0 {
					k = 0
				}
			}
			limit := -1
			switch r.Pick(5, 3, 2) {
			case 1:
				limit = r.Intn(top + 1)
			case 2:
				limit = top + r.Range(1, 3)
			}
			ops = append(ops, ROp{K: "copy", A: regv, B: start, C: limit, D: k})
			setTop(regv + k)
		case 6:
			regm := r.Intn(top + 1)
			k := r.Intn(6)
			if r.Chance(15) {
				k = lim - regm + r.Range(-1, 1)
				if k < 0 {
					k = 0
				}
			}
			ops = append(ops, ROp{K: "fillnil", A: regm, B: k})
			setTop(regm + k)
		case 7:
			ops = append(ops, ROp{K: "insert", A: r.Intn(top + 1), V: nv()})
			setTop(top + 1)
		case 8:
			ops = append(ops, ROp{K: "raise"})
		case 9:
			if top > 0 {
				dst := r.Intn(top + 1)
				ops = append(ops, ROp{K: "move", A: dst, B: r.Intn(top)})
				if dst == top {
					setTop(top + 1)
				}
			}
		case 10: // outside the domain of the list specification: leaves a hole / reads above the top
			switch r.Intn(3) {
			case 0:
				reg := top + r.Range(1, 3)
				ops = append(ops, ROp{K: "set", A: reg, V: nv()})
				setTop(reg + 1)
			case 1:
				regv := top + r.Range(1, 3)
				k := r.Intn(3)
				ops = append(ops, ROp{K: "copy", A: regv, B: r.Intn(top + 1), C: -1, D: k})
				setTop(regv + k)
			default:
				reg := top + r.Range(1, 2)
				ops = append(ops, ROp{K: "insert", A: reg, V: nv()})
				setTop(reg + 1)
			}
		}
	}
	return RegIn{Kind: "reg", Init: init, Grow: grow, Max: max, Ops: ops}
}
