// c12: correspondence harness for property C12 (limits are catchable errors; Options never change
// behaviour below them).
package main

import (
	"encoding/json"
	"fmt"
	"os"

	"verifh/lib"
)

const header = "From GL Require Import Stack.Registry Stack.RegSpec Stack.CallFrames Stack.CtxTree Stack.Handover Stack.C12Cases."

func main() {
	if len(os.Args) > 1 && os.Args[1] == "child" {
		childMain()
		return
	}
	a := lib.ParseArgs()
	if a.Cmd != "run" {
		fmt.Fprintln(os.Stderr, "unknown command", a.Cmd)
		os.Exit(2)
	}
	w, err := lib.NewWriter(a.Out, "C12", a.Tier, a.Seed, header, "case", 300)
	if err != nil {
		panic(err)
	}
	w.Meta.Rule = "(i) hook-driven random histories on the real fixedCallFrameStack / autoGrowingCallFrameStack (sizes 1..40, targets around 8-frame boundaries and the capacity, dirty segment pool) and registry (initial 1..40, grow 0..64, max below/at/above the initial size), every returned value and the live cells compared; " +
		"(ii) NewState option normalisation on boundary values, and NewState() without arguments after setting the package variables lua.CallStackSize / RegistrySize / RegistryGrowStep (the third way of configuring; also part of the Options matrix of (iii) and of the limit configurations of (iv), with limits below and above the built-in defaults); (iii) 12 program templates below every limit under 96 Options x {context, none} vs the reference configuration; " +
		"(iii') 3 program templates that make a growable registry grow (descents through vararg functions with 1..3 named parameters, 0..6 arguments, tail calls, methods, __call; each descent in a fresh coroutine, alignment swept by 0..10 lifting frames x 0..6 arguments) under registries 128 growing by 1,2,3,7,8,31,32,33,64 vs the fixed reference; (iv) limit programs (recursion in Lua/coroutine/xpcall/metamethod/Go API, unpack/vararg/Go pushes/deep frames, also killing a coroutine.create/resume coroutine: resume false+message, status dead, running thread restored) with the need measured under far limits and N chosen so that need straddles each limit, then an epilogue on the same state. " +
		"(vi) hand-over limit programs: a coroutine yields / returns / raises while its resumer (coroutine.resume, a wrap function, LState.Resume; main thread or a coroutine) holds N values, N chosen so that the status boolean and the values just fit / just do not: outcome by the measured need, and the coroutine must afterwards be suspended in its yield (the next resume continues its body) or dead; the same hand-over through the Go API on registries of 128..300 cells compared with the Coq model of switchToParentThread (CHandover); (vii) random coroutine-tree scripts (coroutines creating, resuming, outliving one another; creator != resumer; errors) under every kind of undone context (WithCancel, Background, deadline, attached late, removed before / during the run) vs the reference; context-tree histories through NewThread/Resume/Context().Err() against the ctxNode model (CCtx). (v) recursion through Go functions (nested pcall, __index, sort comparator, gsub callback, coroutines resuming coroutines) under large CallStackSize: a caught stack overflow at the same depth under every configuration. non-trivial = a history that crossed a segment boundary / reached capacity / grew or overflowed the registry; an option set that NewState changed; a non-reference configuration with a non-empty trace; a limit case with need within [limit-2, limit+9]; distinct by Gallina term"
	r := lib.NewRand(a.Seed)
	if a.Replay != "" {
		replay(w, a.Replay)
	} else {
		only := os.Getenv("C12_ONLY") // development aid: run one part
		if only == "" {
			corpus(w)
		}
		nh, nr, no := 500, 500, 150
		if a.Tier == "thorough" {
			nh, nr, no = 12000, 12000, 2000
		}
		if only != "" && only != "hist" {
			nh, nr, no = 0, 0, 0
		}
		for i := 0; i < nh; i++ {
			runStack(w, genStack(r.Fork(), "fixed"), "hist/fixed")
			runStack(w, genStack(r.Fork(), "auto"), "hist/auto")
		}
		for i := 0; i < nr; i++ {
			runReg(w, genReg(r.Fork()), "hist/registry")
		}
		for i := 0; i < no; i++ {
			runOpts(w, genOpts(r.Fork()))
		}
		if only == "" || only == "traces" {
			genTraces(w, r.Fork(), a.Tier)
			genGrowTraces(w, r.Fork(), a.Tier)
		}
		if only == "" || only == "cotree" {
			genCoTrees(w, r.Fork(), a.Tier)
		}
		if only == "" || only == "ctx" {
			nc := 200
			if a.Tier == "thorough" {
				nc = 6000
			}
			ctxCorpus(w)
			rc := r.Fork()
			for i := 0; i < nc; i++ {
				runCtx(w, genCtx(rc.Fork()), "hist/ctx")
			}
			for i := 0; i < nc; i++ {
				runHandover(w, genHandover(rc.Fork()), "hist/handover")
			}
		}
		if only == "" || only == "limits" {
			genLimits(w, r.Fork(), a.Tier)
			genCcalls(w)
		}
	}
	if err := w.Close(); err != nil {
		panic(err)
	}
}

// corpus: the witnesses of DESIGN 9.1 C12-1 and C12-2 (both repaired: a regression is an ordinary
// violation) and hand-made boundary histories; always run first.
func corpus(w *lib.Writer) {
	push := func(n int) []SOp {
		var o []SOp
		for i := 0; i < n; i++ {
			o = append(o, SOp{K: "push", A: 10 + i})
		}
		return o
	}
	q := []SOp{{K: "sp"}, {K: "last"}, {K: "full"}, {K: "empty"}}
	// C12-2: SetSp(8k) at depth 8k with segment k not allocated
	for _, d := range []int{8, 16, 24} {
		ops := append(push(d), SOp{K: "setsp", A: d})
		ops = append(ops, q...)
		ops = append(ops, SOp{K: "at", A: d - 1}, SOp{K: "push", A: 99}, SOp{K: "last"}, SOp{K: "pop"}, SOp{K: "pop"}, SOp{K: "sp"})
		runStack(w, StackIn{Kind: "auto", Size: 64, Ops: ops}, "corpus/C12-2")
		runStack(w, StackIn{Kind: "fixed", Size: 64, Ops: ops}, "corpus/C12-2")
	}
	// hunt obs-1: more than 65536 segments (CallStackSize above 524288 under MinimizeStackMemory)
	for _, size := range []int{524289, 524296, 600000} {
		ops := append(push(20), SOp{K: "sp"}, SOp{K: "full"}, SOp{K: "at", A: 17}, SOp{K: "setsp", A: 16}, SOp{K: "last"}, SOp{K: "pop"}, SOp{K: "sp"})
		runStack(w, StackIn{Kind: "auto", Size: size, Ops: ops}, "corpus/segidx16")
	}
	// SetSp(8k) from above keeps segment k; then Pop frees it
	{
		ops := append(push(19), SOp{K: "setsp", A: 16}, SOp{K: "sp"}, SOp{K: "last"}, SOp{K: "pop"}, SOp{K: "sp"}, SOp{K: "push", A: 7}, SOp{K: "push", A: 8}, SOp{K: "last"}, SOp{K: "setsp", A: 0}, SOp{K: "empty"}, SOp{K: "last"})
		runStack(w, StackIn{Kind: "auto", Size: 40, Ops: ops}, "corpus/boundary")
	}
	// C12-1: IsFull at the capacity (30 -> 32 frames for the auto stack)
	for _, size := range []int{30, 32, 8, 1} {
		c := capOf("auto", size)
		ops := append(push(c-1), SOp{K: "full"}, SOp{K: "push", A: 1}, SOp{K: "full"}, SOp{K: "sp"}, SOp{K: "push", A: 2}, SOp{K: "sp"}, SOp{K: "full"}, SOp{K: "setsp", A: c}, SOp{K: "sp"}, SOp{K: "pop"}, SOp{K: "full"})
		runStack(w, StackIn{Kind: "auto", Size: size, Ops: ops}, "corpus/C12-1")
		opf := append(push(size-1), SOp{K: "full"}, SOp{K: "push", A: 1}, SOp{K: "full"}, SOp{K: "sp"}, SOp{K: "pop"}, SOp{K: "full"})
		runStack(w, StackIn{Kind: "fixed", Size: size, Ops: opf}, "corpus/C12-1")
	}
	// registry: growth copies the live prefix only; overflow leaves everything unchanged; raise always has room
	runReg(w, RegIn{Kind: "reg", Init: 2, Grow: 1, Max: 5, Ops: []ROp{{K: "push", V: 1}, {K: "push", V: 2}, {K: "push", V: 3}, {K: "copy", A: 1, B: 2, C: -1, D: 3}, {K: "settop", A: 6}, {K: "raise"}, {K: "raise"}, {K: "push", V: 4}, {K: "pop"}, {K: "settop", A: 0}, {K: "settop", A: 7}}}, "corpus/registry")
	runReg(w, RegIn{Kind: "reg", Init: 3, Grow: 32, Max: 0, Ops: []ROp{{K: "push", V: 1}, {K: "push", V: 2}, {K: "push", V: 3}, {K: "push", V: 4}, {K: "insert", A: 0, V: 5}, {K: "fillnil", A: 1, B: 3}, {K: "raise"}, {K: "settop", A: 1}, {K: "set", A: 3, V: 9}, {K: "get", A: 2}}}, "corpus/registry")
	for _, c := range []Cfg{{}, {CSS: 0, Reg: 127, Max: 127, Grow: 0}, {CSS: 5, Reg: 128, Max: 128, Grow: 0, Min: true}, {CSS: 1, Reg: 5120, Max: 5119, Grow: -1}} {
		runOpts(w, OptsIn{Kind: "opts", Cfg: c})
	}
	// the state-level witnesses of C12-1 / C12-2 are limit programs: recursion to the capacity under
	// MinimizeStackMemory (rec, rec-api at Sp = 8k) in genLimits' fixed configurations
	for _, in := range []LimitIn{
		{Kind: "limit", Prog: "rec", Cfg: Cfg{CSS: 30, Reg: 5120, Min: true}, N: 3000},
		{Kind: "limit", Prog: "rec", Cfg: Cfg{CSS: 30, Reg: 5120, Min: true}, N: 29},
		{Kind: "limit", Prog: "rec", Cfg: Cfg{CSS: 30, Reg: 5120, Min: true}, N: 30},
		{Kind: "limit", Prog: "rec-api", Cfg: Cfg{CSS: 16, Reg: 5120, Min: true}, N: 15},
		{Kind: "limit", Prog: "rec-api", Cfg: Cfg{CSS: 16, Reg: 5120, Min: true}, N: 16},
	} {
		replayLimit(w, in)
	}
}

func replay(w *lib.Writer, path string) {
	b, err := os.ReadFile(path)
	if err != nil {
		panic(err)
	}
	var rp struct {
		Input json.RawMessage `json:"input"`
	}
	if err := json.Unmarshal(b, &rp); err != nil {
		panic(err)
	}
	var k struct {
		Kind string `json:"kind"`
	}
	json.Unmarshal(rp.Input, &k)
	switch k.Kind {
	case "fixed", "auto":
		var in StackIn
		json.Unmarshal(rp.Input, &in)
		runStack(w, in, "replay")
	case "reg":
		var in RegIn
		json.Unmarshal(rp.Input, &in)
		runReg(w, in, "replay")
	case "opts":
		var in OptsIn
		json.Unmarshal(rp.Input, &in)
		runOpts(w, in)
	case "trace":
		var in TraceIn
		json.Unmarshal(rp.Input, &in)
		replayTrace(w, in)
	case "ctx":
		var in CtxIn
		json.Unmarshal(rp.Input, &in)
		runCtx(w, in, "replay")
	case "handover":
		var in HoIn
		json.Unmarshal(rp.Input, &in)
		runHandover(w, in, "replay")
	case "ccall":
		var in CcallIn
		json.Unmarshal(rp.Input, &in)
		replayCcall(w, in)
	case "limit":
		var in LimitIn
		json.Unmarshal(rp.Input, &in)
		replayLimit(w, in)
	default:
		panic("unknown input kind " + k.Kind)
	}
}
