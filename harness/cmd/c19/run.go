package main

import (
	"bytes"
	"context"
	"encoding/json"
	"fmt"
	"os"
	"os/exec"
	"path/filepath"
	"strings"
	"time"

	lua "github.com/yuin/gopher-lua"

	"verifh/lib"
)

var scratch = fmt.Sprintf("/tmp/vh-io-%d", os.Getpid())
var fileSeq int

// runner drives the real io library through the Go API: every step is one protected call.
type runner struct {
	L       *lua.LState
	path    string
	handles []lua.LValue
	iters   map[int][]lua.LValue // handle -> the iterator of its last lines op and its arguments
	ioOpen  lua.LValue
	ioLines lua.LValue
	ioInput lua.LValue
	ioClose lua.LValue
	ioTab   lua.LValue

	stateClosed bool
}

// viaIO: the step is spelt through the default streams (io.input(f) / io.output(f) first)
func (r *runner) setDefault(which string, ud lua.LValue) error {
	_, err := r.call(r.L.GetField(r.ioTab, which), ud)
	return err
}

func (r *runner) call(fn lua.LValue, args ...lua.LValue) (vals []lua.LValue, err error) {
	L := r.L
	base := L.GetTop()
	defer func() {
		if rc := recover(); rc != nil {
			L.SetTop(base)
			vals, err = nil, fmt.Errorf("go panic: %v", rc)
		}
	}()
	if e := L.CallByParam(lua.P{Fn: fn, NRet: lua.MultRet, Protect: true}, args...); e != nil {
		L.SetTop(base)
		return nil, e
	}
	n := L.GetTop() - base
	vals = make([]lua.LValue, n)
	for i := 0; i < n; i++ {
		vals[i] = L.Get(base + 1 + i)
	}
	L.SetTop(base)
	return vals, nil
}

func toVal(v lua.LValue) (Val, bool) {
	switch x := v.(type) {
	case *lua.LNilType:
		return Val{T: "nil"}, true
	case lua.LString:
		return Val{T: "str", S: encode([]byte(string(x)))}, true
	case lua.LNumber:
		return numVal(float64(x)), true
	}
	return Val{}, false
}

func weird(vals []lua.LValue) Res {
	s := ""
	for _, v := range vals {
		t := v.String()
		if len(t) > 40 {
			t = t[:40]
		}
		s += v.Type().String() + ":" + t + " "
	}
	return Res{T: "weird", Note: s}
}

// shape maps the values of one method call to the result alphabet of the models.
func shape(kind string, vals []lua.LValue, err error) Res {
	if err != nil {
		return Res{T: "raise"}
	}
	if len(vals) >= 2 && vals[0] == lua.LNil {
		return Res{T: "fail"} // nil, message [, errno]
	}
	switch kind {
	case "read":
		if len(vals) == 0 {
			return weird(vals)
		}
		out := make([]Val, len(vals))
		for i, v := range vals {
			x, ok := toVal(v)
			if !ok {
				return weird(vals)
			}
			out[i] = x
		}
		return Res{T: "vals", Vals: out}
	case "seek":
		if len(vals) == 1 {
			if n, ok := vals[0].(lua.LNumber); ok && float64(n) == float64(int64(n)) {
				return Res{T: "off", Off: int64(n)}
			}
		}
	default: // write flush setvbuf close
		if len(vals) == 1 && vals[0] == lua.LTrue {
			return Res{T: "true"}
		}
	}
	return weird(vals)
}

func (r *runner) method(h int, name string) (lua.LValue, lua.LValue) {
	ud := r.handles[h]
	return r.L.GetField(ud, name), ud
}

// iterArg: an unrelated handle handed to the iterator (to be ignored by it)
func (r *runner) iterArg(o Op) []lua.LValue {
	if o.Arg == nil || *o.Arg < 0 || *o.Arg >= len(r.handles) || r.handles[*o.Arg] == lua.LNil {
		return nil
	}
	return []lua.LValue{r.handles[*o.Arg]}
}

func (r *runner) iterate(it lua.LValue, arg []lua.LValue, k int) Res {
	var out []Val
	for i := 0; i < k; i++ {
		vals, err := r.call(it, arg...)
		if err != nil {
			return Res{T: "raise"}
		}
		if len(vals) != 1 {
			return weird(vals)
		}
		v, ok := toVal(vals[0])
		if !ok || v.T == "num" {
			return weird(vals)
		}
		out = append(out, v)
		if v.T == "nil" {
			break
		}
	}
	return Res{T: "vals", Vals: out}
}

func (r *runner) step(o Op) Res {
	L := r.L
	switch o.T {
	case "open":
		var vals []lua.LValue
		var err error
		switch {
		case o.Via == "io" && o.Mode == "r":
			vals, err = r.call(r.ioInput, lua.LString(r.path)) // io.input(name): mode "r"
		case o.Via == "io" && o.Mode == "w":
			vals, err = r.call(r.L.GetField(r.ioTab, "output"), lua.LString(r.path)) // io.output(name): mode "w"
		case o.NilArg && o.Mode == "r":
			vals, err = r.call(r.ioOpen, lua.LString(r.path), lua.LNil)
		default:
			vals, err = r.call(r.ioOpen, lua.LString(r.path), lua.LString(o.Mode))
		}
		if err != nil {
			return Res{T: "raise"}
		}
		if len(vals) == 1 {
			if _, ok := vals[0].(*lua.LUserData); ok {
				r.handles = append(r.handles, vals[0])
				return Res{T: "true"}
			}
		}
		// keep the handle numbering of the models: a failed open still takes an index
		r.handles = append(r.handles, lua.LNil)
		return shape("open", vals, nil)
	case "snap":
		b, err := os.ReadFile(r.path)
		if err != nil {
			return Res{T: "weird", Note: "snapshot: " + err.Error()}
		}
		return Res{T: "bytes", Bytes: encode(b)}
	case "lclose":
		// the script ends with files left open: the state's Close is their close
		r.stateClosed = true
		L.Close()
		return Res{T: "true"}
	case "stdwrite":
		// buffered bytes on the process's stderr: they have to arrive by the end of the state
		std := L.GetField(r.ioTab, "stderr")
		if _, err := r.call(L.GetField(std, "setvbuf"), std, lua.LString("full")); err != nil {
			return Res{T: "raise"}
		}
		args := []lua.LValue{std}
		for _, s := range o.Strs {
			args = append(args, lua.LString(string(decode(s))))
		}
		vals, err := r.call(L.GetField(std, "write"), args...)
		return shape("write", vals, err)
	case "devfull":
		// a close whose final flush fails: nil, message, errno; the descriptor is given back
		vals, err := r.call(r.ioOpen, lua.LString("/dev/full"), lua.LString("w"))
		if err != nil || len(vals) != 1 {
			return Res{T: "weird", Note: "cannot open /dev/full"}
		}
		f := vals[0]
		r.call(L.GetField(f, "setvbuf"), f, lua.LString("full"))
		r.call(L.GetField(f, "write"), f, lua.LString("some data"))
		vals, err = r.call(L.GetField(f, "close"), f)
		res := shape("close", vals, err)
		if n := fdsOn("/dev/full"); n != 0 {
			return Res{T: "weird", Note: fmt.Sprintf("%d descriptor(s) on /dev/full still open after close", n)}
		}
		return res
	case "stdclose":
		std := L.GetField(r.ioTab, o.Which)
		vals, err := r.call(L.GetField(std, "close"), std)
		return shape("close", vals, err)
	case "iolines":
		vals, err := r.call(r.ioLines, lua.LString(r.path))
		if err != nil {
			return Res{T: "raise"}
		}
		if len(vals) == 0 {
			return Res{T: "fail"}
		}
		return r.iterate(vals[0], vals[1:], 1<<20)
	}
	if o.H < 0 || o.H >= len(r.handles) || r.handles[o.H] == lua.LNil {
		return Res{T: "weird", Note: "no such handle"}
	}
	fn, ud := r.method(o.H, o.T)
	switch o.T {
	case "read":
		args := []lua.LValue{ud}
		if o.Via == "io" {
			if err := r.setDefault("input", ud); err != nil {
				return Res{T: "weird", Note: "io.input(f): " + err.Error()}
			}
			fn, args = r.L.GetField(r.ioTab, "read"), nil
		}
		if !o.NoArg {
			for _, f := range o.Fmts {
				switch f.K {
				case "count":
					args = append(args, lua.LNumber(f.N))
				case "line":
					args = append(args, lua.LString(map[bool]string{false: "*l", true: "*line"}[f.Long]))
				case "all":
					args = append(args, lua.LString(map[bool]string{false: "*a", true: "*all"}[f.Long]))
				default:
					args = append(args, lua.LString(map[bool]string{false: "*n", true: "*number"}[f.Long]))
				}
			}
		}
		vals, err := r.call(fn, args...)
		return shape("read", vals, err)
	case "lines":
		var vals []lua.LValue
		var err error
		if o.Via == "io" {
			if _, err = r.call(r.ioInput, ud); err != nil {
				return Res{T: "weird", Note: "io.input(f): " + err.Error()}
			}
			if o.NilArg {
				vals, err = r.call(r.ioLines, lua.LNil)
			} else {
				vals, err = r.call(r.ioLines) // a closure over the default input
			}
		} else {
			vals, err = r.call(fn, ud)
		}
		if err != nil {
			return Res{T: "raise"}
		}
		if len(vals) == 0 {
			return Res{T: "fail"} // fileLines gives nothing back for a handle that cannot be read
		}
		if _, ok := vals[0].(*lua.LFunction); !ok {
			return weird(vals)
		}
		// the iterator outlives this step: "next" steps call it again, also after a close
		r.iters[o.H] = vals
		return r.iterate(vals[0], append(vals[1:len(vals):len(vals)], r.iterArg(o)...), o.K)
	case "next":
		it, ok := r.iters[o.H]
		if !ok {
			return Res{T: "weird", Note: "no iterator was obtained on this handle"}
		}
		return r.iterate(it[0], append(it[1:len(it):len(it)], r.iterArg(o)...), o.K)
	case "write":
		args := []lua.LValue{ud}
		if o.Via == "io" {
			if err := r.setDefault("output", ud); err != nil {
				return Res{T: "weird", Note: "io.output(f): " + err.Error()}
			}
			fn, args = r.L.GetField(r.ioTab, "write"), nil
		}
		for _, s := range o.Strs {
			args = append(args, lua.LString(string(decode(s))))
		}
		vals, err := r.call(fn, args...)
		return shape("write", vals, err)
	case "seek":
		args := []lua.LValue{ud}
		if !o.NoArg {
			var w, n lua.LValue = lua.LString(o.Whence), lua.LNumber(o.Off)
			if o.NilArg && o.Whence == "cur" {
				w = lua.LNil
			}
			if o.NilArg && o.Off == 0 {
				n = lua.LNil
			}
			args = append(args, w, n)
		}
		vals, err := r.call(fn, args...)
		return shape("seek", vals, err)
	case "flush", "close":
		if o.T == "close" && o.Via == "io" {
			vals, err := r.call(r.ioClose, ud)
			return shape(o.T, vals, err)
		}
		if o.Via == "io0" { // io.output(f); io.close() / io.flush()
			if err := r.setDefault("output", ud); err != nil {
				return Res{T: "weird", Note: "io.output(f): " + err.Error()}
			}
			vals, err := r.call(r.L.GetField(r.ioTab, o.T))
			return shape(o.T, vals, err)
		}
		vals, err := r.call(fn, ud)
		return shape(o.T, vals, err)
	case "setvbuf":
		args := []lua.LValue{ud, lua.LString(o.VMode)}
		if o.Size != nil {
			args = append(args, lua.LNumber(*o.Size))
		}
		vals, err := r.call(fn, args...)
		return shape("setvbuf", vals, err)
	}
	_ = L
	return Res{T: "weird", Note: "unknown op " + o.T}
}

// execute runs one history against the real library on a fresh temp file.
func execute(in Input) []Res {
	if err := os.MkdirAll(scratch, 0o700); err != nil {
		panic(err)
	}
	fileSeq++
	path := filepath.Join(scratch, fmt.Sprintf("f%d.bin", fileSeq))
	if err := os.WriteFile(path, decode(in.Init), 0o600); err != nil {
		panic(err)
	}
	defer os.Remove(path)
	L := lua.NewState()
	io := L.GetGlobal("io")
	r := &runner{L: L, path: path, iters: map[int][]lua.LValue{},
		ioOpen: L.GetField(io, "open"), ioLines: L.GetField(io, "lines"),
		ioInput: L.GetField(io, "input"), ioClose: L.GetField(io, "close"), ioTab: io}
	obs := make([]Res, 0, len(in.Ops))
	for _, o := range in.Ops {
		obs = append(obs, r.step(o))
	}
	// whatever the history left open is closed outside the history (its effect is not observed)
	if !r.stateClosed {
		for _, h := range r.handles {
			if h != lua.LNil {
				r.call(L.GetField(h, "close"), h)
			}
		}
		L.Close()
	}
	return obs
}

// a count beyond this could make a faulty reader allocate the process to death (observed: read(2^40)
// before the repair): such histories run in a child process
const childCount = int64(1) << 32

func needsChild(in Input) bool {
	for _, o := range in.Ops {
		for _, f := range o.Fmts {
			if f.K == "count" && f.N >= childCount {
				return true
			}
		}
		if o.T == "setvbuf" && o.Size != nil && *o.Size >= childCount { // a size that is allocated at once
			return true
		}
		if o.T == "stdclose" || o.T == "stdwrite" { // a close that is not refused takes the process's own descriptors
			return true
		}
	}
	return false
}

func childMain() {
	defer os.RemoveAll(scratch)
	var in Input
	if err := json.NewDecoder(os.Stdin).Decode(&in); err != nil {
		fmt.Fprintln(os.Stderr, "child: bad input:", err)
		os.Exit(3)
	}
	b, _ := json.Marshal(execute(in))
	os.Stdout.Write(b)
}

// executeSafe returns the observations, or a description of how the child died
func executeSafe(in Input) ([]Res, string) {
	if !needsChild(in) {
		return execute(in), ""
	}
	ctx, cancel := context.WithTimeout(context.Background(), 60*time.Second)
	defer cancel()
	cmd := exec.CommandContext(ctx, os.Args[0], "child")
	cmd.Env = append(os.Environ(), "GOMEMLIMIT=1GiB")
	b, _ := json.Marshal(in)
	cmd.Stdin = bytes.NewReader(b)
	var out, errb bytes.Buffer
	cmd.Stdout, cmd.Stderr = &out, &errb
	err := cmd.Run()
	if cmd.Process != nil { // a child that died could not remove its scratch directory
		os.RemoveAll(fmt.Sprintf("/tmp/vh-io-%d", cmd.Process.Pid))
	}
	var obs []Res
	if err == nil && json.Unmarshal(out.Bytes(), &obs) == nil && len(obs) == len(in.Ops) {
		// what the history wrote to the (buffered) standard error has arrived when the state is gone
		var want []byte
		for _, o := range in.Ops {
			if o.T == "stdwrite" {
				for _, s := range o.Strs {
					want = append(want, decode(s)...)
				}
			}
		}
		if want != nil && !bytes.Equal(errb.Bytes(), want) {
			got := errb.String()
			if len(got) > 80 {
				got = got[:80]
			}
			return obs, fmt.Sprintf("bytes buffered on io.stderr were lost at the end of the state: %d expected, got %q", len(want), got)
		}
		return obs, ""
	}
	msg := errb.String()
	if i := strings.IndexByte(msg, '\n'); i >= 0 {
		msg = msg[:i]
	}
	if len(msg) > 200 {
		msg = msg[:200]
	}
	obs = make([]Res, len(in.Ops))
	for i := range obs {
		obs[i] = Res{T: "weird", Note: "child died"}
	}
	return obs, fmt.Sprintf("the process running the history died (%v): %s", err, msg)
}

func fdsOn(target string) int {
	es, _ := os.ReadDir("/proc/self/fd")
	n := 0
	for _, e := range es {
		if l, err := os.Readlink("/proc/self/fd/" + e.Name()); err == nil && l == target {
			n++
		}
	}
	return n
}

func hasSeq(b []byte, x, y byte) bool {
	for i := 0; i+1 < len(b); i++ {
		if b[i] == x && b[i+1] == y {
			return true
		}
	}
	return false
}

func hasByte(b []byte, c byte) bool {
	for _, x := range b {
		if x == c {
			return true
		}
	}
	return false
}

// known-finding matchers (predicates on the input only)
func matchKF(in Input) []string {
	var kf []string
	// C19-3: a line-reading step, and a byte 13 can come to stand immediately before a byte 10:
	// the initial bytes or a written string contain 13,10, or a written string ends in 13, or a
	// written string begins with 10 while a 13 occurs anywhere.
	init := decode(in.Init)
	lineRead, crlf, anyCR, lfFirst := false, hasSeq(init, 13, 10), hasByte(init, 13), false
	for _, o := range in.Ops {
		switch o.T {
		case "lines", "next", "iolines":
			lineRead = true
		case "read":
			for _, f := range o.Fmts {
				if f.K == "line" {
					lineRead = true
				}
			}
		case "write":
			for _, ss := range o.Strs {
				s := decode(ss)
				if len(s) == 0 {
					continue
				}
				crlf = crlf || hasSeq(s, 13, 10) || s[len(s)-1] == 13
				anyCR = anyCR || hasByte(s, 13)
				lfFirst = lfFirst || s[0] == 10
			}
		}
	}
	if lineRead && (crlf || (anyCR && lfFirst)) {
		kf = append(kf, "C19-3")
	}
	return kf
}

func runCase(w *lib.Writer, in Input) {
	obs, died := executeSafe(in)
	id := w.NextID()
	var bad []string
	if died != "" {
		bad = append(bad, died)
	}
	reads, moves, data := 0, 0, false
	for i, r := range obs {
		switch r.T {
		case "weird":
			if died != "" {
				break
			}
			bad = append(bad, fmt.Sprintf("step %d (%s): unexpected result shape: %s", i, in.Ops[i].T, r.Note))
		case "vals":
			reads++
			for _, v := range r.Vals {
				if v.T != "nil" {
					data = true
				}
			}
		}
		switch in.Ops[i].T {
		case "write", "seek":
			moves++
		}
	}
	size := len(decode(in.Init))
	bucket := "small"
	switch {
	case size == 0:
		bucket = "empty"
	case size >= 4095 && size <= 4097:
		bucket = "4096"
	case size > 4097:
		bucket = "big"
	}
	nh := 0
	for _, o := range in.Ops {
		if o.T == "open" {
			nh++
		}
	}
	d := "wild"
	if in.Disc {
		d = "disciplined"
	}
	w.Add(lib.Case{
		Coq:        coqCase(in, obs),
		Input:      in,
		Observed:   obs,
		KF:         matchKF(in),
		Nontrivial: len(in.Ops) >= 6 && data && moves >= 1,
		Class:      fmt.Sprintf("%s/%s/%dh/%s", in.Flavour, d, min(nh, 3), bucket),
	})
	for _, b := range bad {
		w.GoFail(id, b)
	}
}
