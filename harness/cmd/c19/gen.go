package main

import (
	"encoding/json"
	"os"

	"verifh/lib"
)

var allModes = []string{"r", "rb", "w", "wb", "a", "ab", "r+", "rb+", "r+b", "w+", "wb+", "w+b", "a+", "ab+", "a+b"}

func modeRd(m string) bool { c := modeCtor[m]; return c != "MW" && c != "MA" }
func modeWr(m string) bool { return modeCtor[m] != "MR" }
func modeTrunc(m string) bool {
	c := modeCtor[m]
	return c == "MW" || c == "MWp"
}

const (
	lNone = iota
	lRead
	lWrite
)

// tracker mirrors IoSys.disc_sys_step so that most histories are disciplined
type trk struct {
	open, stale bool
	dirty       bool // wrote since the last flush / seek / close
	iter        bool // a lines iterator was obtained on this handle (it stays usable for "next")
	last        int
	rd, wr      bool
}

type gen struct {
	r       *lib.Rand
	flavour string // pat | text | num
	disc    bool
	ops     []Op
	ts      []trk
	cur     int
	size    int // running estimate of the file size (for drawing offsets)
	cr      bool // CR LF line ends may occur (they fall under finding C19-3)
}

func (g *gen) emit(o Op) { g.ops = append(g.ops, o) }

// ---------- contents ----------

var textAlphaCR = []byte("abcdefghij klmnop\n\n\nqrstuvwxyz0123456789\r\n")
var textAlphaLF = []byte("abcdefghij klmnop\n\n\nqrstuvwxyz0123456789\n")

func (g *gen) textAlpha() []byte {
	if g.cr {
		return textAlphaCR
	}
	return textAlphaLF
}
var numToks = []string{"0", "7", "12", "-3", "+4", "3.5", "0.25", ".5", "5.", "1000000", "00012", "-0", "12.125",
	"99999999999999999999", "0.1", "2.675", "-77.001", "1", "2", "42"}
var numSeps = []string{" ", "\n", "\t", "  ", " \n ", "\n\n", ",", " "}
// junk next to numerals: also what Go's own numeral syntax would have taken ("p" exponents, "_",
// "0x", inf/nan) and bytes >= 0x80; no "e"/"E" (the models leave the exponent part out)
var numJunk = []string{"a", "z", ",", "-", "+", ".", "-.", "+a", "@", "b c", "", "px", "p5", "_000", "_", "x1F", "pm",
	"nan", "inf", "Inf", "\xc3\xa9", "\xff", "\r"}

func (g *gen) numText(n int) []byte {
	var b []byte
	for len(b) < n {
		switch g.r.Pick(6, 5, 1) {
		case 0:
			b = append(b, numToks[g.r.Intn(len(numToks))]...)
		case 1:
			b = append(b, numSeps[g.r.Intn(len(numSeps))]...)
		default:
			k := len(numJunk)
			if !g.cr {
				k-- // no CR
			}
			b = append(b, numJunk[g.r.Intn(k)]...)
		}
	}
	return b
}

func patterned(a, n int) []byte {
	b := make([]byte, n)
	for i := range b {
		b[i] = byte((a + i) % 251)
	}
	return b
}

func rep(c byte, n int) []byte {
	b := make([]byte, n)
	for i := range b {
		b[i] = c
	}
	return b
}

var sizes = []int{0, 1, 4095, 4096, 4097, 9000}

// textual content made of runs so that the Gallina term stays short: long lines, lines that end
// exactly at / around the 4096-byte buffer, "\r\n" straddling it
func (g *gen) runText(target int) []byte {
	var b []byte
	for len(b) < target {
		left := target - len(b)
		switch g.r.Pick(5, 3, 2, 2) {
		case 0:
			n := []int{1, 3, 17, 60, 250, 4093, 4094, 4095, 4096, 4097, 5000}[g.r.Intn(11)]
			if n > left {
				n = left
			}
			b = append(b, rep("ax 0"[g.r.Intn(4)], n)...)
		case 1:
			b = append(b, g.r.Bytes(g.r.Range(1, 6), g.textAlpha())...)
		case 2:
			if g.cr {
				b = append(b, []string{"\n", "\r\n", "\r", "\n\n"}[g.r.Pick(5, 3, 1, 1)]...)
			} else {
				b = append(b, []string{"\n", "\n\n"}[g.r.Pick(5, 1)]...)
			}
		default:
			n := g.r.Range(12, 300)
			a := g.r.Intn(251)
			if !g.cr { // stay inside 14..250: no 13
				a = 14 + g.r.Intn(50)
				if n > 180 {
					n = 180
				}
			}
			if n > left {
				n = left
			}
			b = append(b, patterned(a, n)...)
		}
	}
	return b
}

func (g *gen) initial() []byte {
	switch g.flavour {
	case "num":
		return g.numText([]int{0, 1, 5, 20, 60, 120}[g.r.Intn(6)])
	case "text":
		n := sizes[g.r.Intn(len(sizes))]
		if g.r.Chance(30) {
			n = g.r.Range(2, 400)
		}
		return g.runText(n)
	}
	n := sizes[g.r.Intn(len(sizes))]
	if g.r.Chance(20) {
		n = []int{2, 10, 250, 251, 252, 8191, 8192, 8193}[g.r.Intn(8)]
	}
	return patterned(0, n)
}

func (g *gen) wstr() []byte {
	if g.flavour == "num" {
		if g.r.Chance(10) {
			return nil
		}
		return g.numText(g.r.Range(1, 12))
	}
	switch g.r.Pick(50, 8, 20, 12, 10) {
	case 0:
		al := g.textAlpha()
		if g.flavour == "pat" && g.r.Bool() {
			// any byte, but not a line feed in front (it could follow the pattern's 13)
			b := g.r.Bytes(g.r.Range(1, 10), nil)
			for i := range b {
				if !g.cr && (b[i] == 13 || (i == 0 && b[i] == 10)) {
					b[i] = 'q'
				}
			}
			return b
		}
		return g.r.Bytes(g.r.Range(1, 10), al)
	case 1:
		return nil
	case 2:
		return rep("XY.#"[g.r.Intn(4)], g.r.Range(1, 40))
	case 3:
		n := []int{4095, 4096, 4097, 5000, 100, 1000}[g.r.Intn(6)]
		if g.r.Bool() {
			return rep('W', n)
		}
		return patterned(g.r.Intn(251), n)
	}
	if g.cr {
		return []byte([]string{"\n", "\r\n", "line\n", "a\r\nb", "\r"}[g.r.Intn(5)])
	}
	if g.flavour == "pat" {
		// the pattern contains a 13: no line feed in front
		return []byte([]string{"x\n", "line\n", "a\nb", "tail"}[g.r.Intn(4)])
	}
	return []byte([]string{"\n", "line\n", "a\nb", "tail"}[g.r.Intn(4)])
}

// ---------- operations ----------

func (g *gen) count() int64 {
	if g.r.Chance(7) {
		// no limit (negative: C Lua's size_t conversion) and counts far beyond any file
		return []int64{-1, -1, -7, 1 << 31, 1 << 40, 1 << 53, 20000, 16384}[g.r.Intn(8)]
	}
	if g.flavour == "num" {
		return int64([]int{0, 1, 1, 2, 3, 5, 200}[g.r.Intn(7)])
	}
	switch g.r.Pick(45, 25, 30) {
	case 0:
		return int64([]int{0, 1, 2, 3, 7, 100, 250, 251}[g.r.Intn(8)])
	case 1:
		return int64(g.r.Range(1, 30))
	}
	return int64([]int{4095, 4096, 4097, 5000, 8191, 8192, 8193, 10000, 4000, 96}[g.r.Intn(10)])
}

func (g *gen) rfmt() Fmt {
	f := g.rfmt0()
	if f.K != "count" && g.r.Chance(25) {
		f.Long = true // "*line", "*all", "*number"
	}
	return f
}

func (g *gen) rfmt0() Fmt {
	if g.flavour == "num" {
		switch g.r.Pick(50, 20, 20, 10) {
		case 0:
			return Fmt{K: "num"}
		case 1:
			return Fmt{K: "count", N: g.count()}
		case 2:
			return Fmt{K: "line"}
		}
		return Fmt{K: "all"}
	}
	switch g.r.Pick(50, 38, 12) {
	case 0:
		return Fmt{K: "count", N: g.count()}
	case 1:
		return Fmt{K: "line"}
	}
	return Fmt{K: "all"}
}

func (g *gen) readOp() Op {
	o := Op{T: "read", H: g.cur}
	n := 1
	if g.r.Chance(15) {
		n = g.r.Range(2, 3)
	}
	for i := 0; i < n; i++ {
		o.Fmts = append(o.Fmts, g.rfmt())
	}
	if n == 1 && o.Fmts[0].K == "line" && g.r.Chance(30) {
		o.NoArg = true
	}
	if g.r.Chance(20) {
		o.Via = "io" // io.input(f); io.read(...)
	}
	return o
}

func (g *gen) seekOp() Op {
	o := Op{T: "seek", H: g.cur, NilArg: g.r.Chance(20)}
	s := g.size
	switch g.r.Pick(45, 35, 20) {
	case 0:
		o.Whence = "set"
		c := []int{0, 0, 1, s - 1, s, s + 1, 4095, 4096, 4097, 8192, g.r.Range(0, s+10), s + g.r.Range(1, 50), -1}
		o.Off = int64(c[g.r.Intn(len(c))])
		if o.Off < 0 && !g.r.Chance(15) {
			o.Off = 0
		}
	case 1:
		o.Whence = "cur"
		c := []int{0, 0, 0, 0, -g.r.Range(1, 10), g.r.Range(1, 10), -4096, 4096, -1, 1, -s - 1}
		o.Off = int64(c[g.r.Intn(len(c))])
		if o.Off == 0 && g.r.Chance(30) {
			o.NoArg = true
		}
	default:
		o.Whence = "end"
		c := []int{0, 0, 0, -1, -g.r.Range(0, s), g.r.Range(1, 5), -4096, -4097, -s, -s - 1}
		o.Off = int64(c[g.r.Intn(len(c))])
	}
	return o
}

func (g *gen) writeOp() Op {
	o := Op{T: "write", H: g.cur}
	n := []int{1, 1, 1, 1, 1, 1, 1, 1, 2, 3, 0}[g.r.Intn(11)]
	o.Strs = [][]Seg{}
	for i := 0; i < n; i++ {
		b := g.wstr()
		g.size += len(b)
		o.Strs = append(o.Strs, encode(b))
	}
	if g.r.Chance(20) {
		o.Via = "io" // io.output(f); io.write(...)
	}
	return o
}

func (g *gen) setvbufOp() Op {
	o := Op{T: "setvbuf", H: g.cur, VMode: []string{"no", "full", "full", "line"}[g.r.Intn(4)]}
	if o.VMode != "no" && g.r.Chance(75) {
		v := []int64{0, -1, 1, 2, 8, 16, 1024, 4096, 5000, 1 << 45, 1 << 62, 1 << 20, 1<<20 + 1}[g.r.Intn(13)]
		o.Size = &v
	}
	return o
}

// note applies the op to the tracker (same transitions as disc_sys_step)
func (g *gen) note(o Op) {
	switch o.T {
	case "open":
		if modeTrunc(o.Mode) {
			for i := range g.ts {
				g.ts[i].stale = true
			}
			g.size = 0
		}
		g.ts = append(g.ts, trk{open: true, rd: modeRd(o.Mode), wr: modeWr(o.Mode)})
		return
	case "snap", "iolines", "stdclose", "stdwrite", "devfull":
		return
	case "lclose":
		for i := range g.ts {
			g.ts[i].open, g.ts[i].last, g.ts[i].stale = false, lNone, false
		}
		return
	}
	t := &g.ts[o.H]
	if !t.open {
		return
	}
	switch o.T {
	case "read", "lines", "next":
		t.last, t.stale = lRead, false
		if o.T == "lines" && t.rd {
			t.iter = true
		}
	case "write":
		t.last, t.stale, t.dirty = lWrite, false, true
		for i := range g.ts {
			if i != o.H {
				g.ts[i].stale = true
			}
		}
	case "seek":
		t.last, t.stale, t.dirty = lNone, false, false
	case "flush":
		t.last, t.dirty = lNone, false
	case "close":
		t.open, t.last, t.stale, t.dirty = false, lNone, false, false
	}
}

func (g *gen) push(o Op) { g.emit(o); g.note(o) }

// separator between a read and a write (or the other way round) on the current handle
func (g *gen) separate() {
	switch g.r.Pick(45, 30, 25) {
	case 0:
		g.push(Op{T: "seek", H: g.cur, Whence: "cur", NoArg: g.r.Bool()})
	case 1:
		g.push(Op{T: "flush", H: g.cur})
	default:
		g.push(g.seekOp())
	}
}

// sync makes handle i hold no unflushed write (disciplined mode)
func (g *gen) sync(i int) {
	if g.ts[i].open && g.ts[i].dirty {
		save := g.cur
		g.cur = i
		switch g.r.Pick(50, 25, 25) {
		case 0:
			g.push(Op{T: "flush", H: i})
		case 1:
			g.push(Op{T: "seek", H: i, Whence: "cur"})
		default:
			g.push(Op{T: "close", H: i})
		}
		g.cur = save
	}
}

func (g *gen) handleOp() {
	t := g.ts[g.cur]
	var o Op
	wNext := 0
	if t.iter {
		wNext = 7
		if !t.open {
			wNext = 30 // a step of an iterator made before the close
		}
	}
	kind := g.r.Pick(30, 9, 26, 18, 6, 5, 5, wNext)
	// mostly ops the mode allows
	if !g.r.Chance(8) {
		if !t.rd && (kind == 0 || kind == 1) {
			kind = 2
		}
		if !t.wr && (kind == 2 || kind == 4 || kind == 5) {
			kind = 0
		}
	}
	switch kind {
	case 0:
		o = g.readOp()
	case 1:
		o = Op{T: "lines", H: g.cur, K: []int{0, 0, 1, 1, 2, 3, 5, 64}[g.r.Intn(8)]}
		if t.rd && g.r.Chance(30) {
			o.Via = "io" // io.input(f); io.lines(), also when f is closed by now
			o.NilArg = g.r.Chance(25)
		}
	case 2:
		o = g.writeOp()
	case 3:
		o = g.seekOp()
	case 4:
		o = Op{T: "flush", H: g.cur}
		if g.r.Chance(30) {
			o.Via = "io0" // io.output(f); io.flush()
		}
	case 5:
		o = g.setvbufOp()
	case 6:
		o = Op{T: "close", H: g.cur}
		if g.r.Chance(45) {
			o.Via = []string{"io", "io", "io0"}[g.r.Intn(3)] // io.close(f) / io.output(f); io.close()
		}
	default:
		o = Op{T: "next", H: g.cur, K: []int{1, 1, 2, 3, 64}[g.r.Intn(5)]}
	}
	if (o.T == "lines" || o.T == "next") && len(g.ts) > 1 && g.r.Chance(25) {
		a := g.r.Intn(len(g.ts)) // some handle passed to the iterator: it has to ignore it
		o.Arg = &a
	}
	if g.disc && t.open {
		switch o.T {
		case "read", "lines", "next":
			// no separator after the handle's own write: the read writes pending bytes out itself
			if t.last == lWrite && g.r.Chance(40) {
				g.separate()
			}
			if g.ts[g.cur].stale {
				g.push(g.seekOp())
			}
		case "write":
			if t.last == lRead {
				g.separate()
			}
		}
	}
	g.push(o)
	if o.T == "close" && t.open && t.iter && g.r.Chance(60) {
		// the iterator obtained before this close is called again
		g.push(Op{T: "next", H: g.cur, K: []int{1, 2, 64}[g.r.Intn(3)]})
	}
}

func (g *gen) openOp() {
	if g.disc {
		for i := range g.ts {
			g.sync(i)
		}
	}
	m := allModes[g.r.Intn(len(allModes))]
	if g.r.Chance(50) {
		m = []string{"r+", "rb+", "r+b", "a+", "r", "w+"}[g.r.Intn(6)]
	}
	o := Op{T: "open", Mode: m, NilArg: g.r.Chance(30)}
	if g.r.Chance(12) {
		// io.input(name) / io.output(name): modes "r" / "w"
		o.Mode, o.Via = []string{"r", "w"}[g.r.Intn(2)], "io"
	}
	g.push(o)
	g.cur = len(g.ts) - 1
}

func (g *gen) history(maxOps int) Input {
	r := g.r
	g.flavour = []string{"pat", "text", "num"}[r.Pick(40, 40, 20)]
	g.disc = r.Chance(82)
	g.cr = r.Chance(12)
	init := g.initial()
	g.size = len(init)
	n := r.Range(8, maxOps)
	g.openOp()
	for len(g.ops) < n {
		open := []int{}
		for i, t := range g.ts {
			if t.open {
				open = append(open, i)
			}
		}
		curOpen := g.ts[g.cur].open
		switch {
		case !curOpen && r.Chance(45):
			g.handleOp() // methods of a closed handle
		case !curOpen && len(open) > 0 && r.Chance(50):
			g.cur = open[r.Intn(len(open))]
		case !curOpen:
			if len(g.ts) >= 4 {
				n = 0
			} else {
				g.openOp()
			}
		default:
			switch r.Pick(84, 4, 5, 5, 2, 2) {
			case 5:
				switch r.Intn(3) {
				case 0:
					g.emit(Op{T: "stdclose", Which: []string{"stdout", "stderr"}[r.Intn(2)]})
				case 1:
					g.emit(Op{T: "stdwrite", Strs: [][]Seg{encode(g.wstr()), lit("tail\n")}})
				default:
					g.emit(Op{T: "devfull"})
				}
			case 0:
				g.handleOp()
			case 1:
				if len(g.ts) < 4 {
					g.openOp()
				}
			case 2:
				if len(open) > 1 {
					if g.disc {
						g.sync(g.cur)
					}
					g.cur = open[r.Intn(len(open))]
				}
			case 3:
				g.emit(Op{T: "snap"})
			default:
				if g.disc {
					for i := range g.ts {
						g.sync(i)
					}
				}
				g.emit(Op{T: "iolines"})
			}
		}
	}
	if r.Chance(35) {
		// the script ends with its files open: closing the state closes (and flushes) them
		g.push(Op{T: "lclose"})
	} else {
		for i, t := range g.ts {
			if t.open {
				g.push(Op{T: "close", H: i})
			}
		}
		for i, t := range g.ts {
			if t.iter && r.Chance(50) {
				g.push(Op{T: "next", H: i, K: []int{1, 2, 64}[r.Intn(3)]})
			}
		}
	}
	g.emit(Op{T: "snap"})
	return Input{Init: encode(init), Ops: g.ops, Flavour: g.flavour, Disc: g.disc}
}

func genHistories(w *lib.Writer, r *lib.Rand, tier string) {
	n, maxOps := 420, 36
	if tier == "thorough" {
		n, maxOps = 12000, 40
	}
	for i := 0; i < n; i++ {
		g := &gen{r: r.Fork()}
		runCase(w, g.history(maxOps))
	}
}

func replay(w *lib.Writer, path string) {
	b, err := os.ReadFile(path)
	if err != nil {
		panic(err)
	}
	var rp struct {
		Input Input `json:"input"`
	}
	if err := json.Unmarshal(b, &rp); err != nil {
		panic(err)
	}
	runCase(w, rp.Input)
}
