package main

import (
	"fmt"
	"math"
	"strings"

	"verifh/lib"
)

// Seg is a run-length piece of a byte string: exactly one field is set.
//   P = [a, n]: bytes (a+i) mod 251 for i < n;  R = [b, n]: n times b;  L: literal bytes.
type Seg struct {
	P []int64 `json:"p,omitempty"`
	R []int64 `json:"r,omitempty"`
	L []int   `json:"l,omitempty"`
}

const minRun = 12

func encode(b []byte) []Seg {
	var out []Seg
	var lit []int
	flush := func() {
		if len(lit) > 0 {
			out = append(out, Seg{L: lit})
			lit = nil
		}
	}
	for i := 0; i < len(b); {
		j := i + 1
		for j < len(b) && b[j] == b[i] {
			j++
		}
		k := i + 1
		if b[i] < 251 {
			for k < len(b) && int(b[k]) == (int(b[k-1])+1)%251 {
				k++
			}
		}
		switch {
		case j-i >= minRun && j-i >= k-i:
			flush()
			out = append(out, Seg{R: []int64{int64(b[i]), int64(j - i)}})
			i = j
		case k-i >= minRun:
			flush()
			out = append(out, Seg{P: []int64{int64(b[i]), int64(k - i)}})
			i = k
		default:
			lit = append(lit, int(b[i]))
			i++
		}
	}
	flush()
	return out
}

func decode(ss []Seg) []byte {
	var out []byte
	for _, s := range ss {
		switch {
		case s.P != nil:
			for i := int64(0); i < s.P[1]; i++ {
				out = append(out, byte((s.P[0]+i)%251))
			}
		case s.R != nil:
			for i := int64(0); i < s.R[1]; i++ {
				out = append(out, byte(s.R[0]))
			}
		default:
			for _, c := range s.L {
				out = append(out, byte(c))
			}
		}
	}
	return out
}

func coqInts(l []int) string {
	var sb strings.Builder
	sb.WriteByte('[')
	for i, c := range l {
		if i > 0 {
			sb.WriteByte(';')
		}
		fmt.Fprintf(&sb, "%d", c)
	}
	sb.WriteByte(']')
	return sb.String()
}

// coqBytes prints a byte string as a Gallina term of type bytes.
func coqBytes(b []byte) string {
	ss := encode(b)
	if len(ss) == 0 {
		return "[]"
	}
	if len(ss) == 1 && ss[0].L != nil {
		return coqInts(ss[0].L)
	}
	it := make([]string, len(ss))
	for i, s := range ss {
		switch {
		case s.P != nil:
			it[i] = fmt.Sprintf("SPat %d %d", s.P[0], s.P[1])
		case s.R != nil:
			it[i] = fmt.Sprintf("SRep %d %d", s.R[0], s.R[1])
		default:
			it[i] = "SLit " + coqInts(s.L)
		}
	}
	return "(dec " + lib.CoqList(it) + ")"
}

// ---------- histories ----------

type Fmt struct {
	K string `json:"k"` // count | line | all | num
	N int64  `json:"n,omitempty"`
	// Long: the format is spelt "*line" / "*all" / "*number" (only the letter after '*' counts)
	Long bool `json:"long,omitempty"`
}

type Op struct {
	T      string  `json:"t"` // open read lines next write seek flush setvbuf close snap iolines lclose stdclose
	H      int     `json:"h,omitempty"`
	Mode   string  `json:"mode,omitempty"`
	Fmts   []Fmt   `json:"fmts,omitempty"`
	NoArg  bool    `json:"noarg,omitempty"` // read() / seek() with the defaults left out
	K      int     `json:"k,omitempty"`
	Strs   [][]Seg `json:"strs,omitempty"`
	Whence string  `json:"whence,omitempty"`
	Off    int64   `json:"off,omitempty"`
	VMode  string  `json:"vmode,omitempty"`
	Size   *int64  `json:"size,omitempty"`
	// Via "io": the same operation spelt through the io table: lines = io.input(f); io.lines(),
	// close = io.close(f). The models do not distinguish the spellings.
	Via string `json:"via,omitempty"`
	// Arg: lines/next call the iterator with this handle as its argument (it must be ignored:
	// the iterator is a closure over its own file); nil = called without arguments
	Arg *int `json:"arg,omitempty"`
	// NilArg: optional arguments that have their default value are passed as explicit nils:
	// io.open(p, nil) for mode "r", f:seek(nil, n) for "cur", f:seek(w, nil) for 0, io.lines(nil)
	NilArg bool `json:"nilarg,omitempty"`
	// Which: stdclose closes "stdout" or "stderr" (refused)
	Which string `json:"which,omitempty"`
}

type Input struct {
	Init    []Seg  `json:"init"`
	Ops     []Op   `json:"ops"`
	Flavour string `json:"flavour"`
	Disc    bool   `json:"disciplined"`
}

var modeCtor = map[string]string{
	"r": "MR", "rb": "MR", "w": "MW", "wb": "MW", "a": "MA", "ab": "MA",
	"r+": "MRp", "rb+": "MRp", "r+b": "MRp", "w+": "MWp", "wb+": "MWp", "w+b": "MWp",
	"a+": "MAp", "ab+": "MAp", "a+b": "MAp",
}

func coqFmt(f Fmt) string {
	switch f.K {
	case "count":
		return "FCount " + lib.CoqZ(f.N)
	case "line":
		return "FLine"
	case "all":
		return "FAll"
	}
	return "FNum"
}

func coqOp(o Op) string {
	h := func(s string) string { return fmt.Sprintf("SOp %d (%s)", o.H, s) }
	switch o.T {
	case "open":
		return "SOpen " + modeCtor[o.Mode]
	case "snap":
		return "SSnap"
	case "iolines":
		return "SIoLines"
	case "lclose":
		return "SCloseAll"
	case "stdclose":
		return "SStdClose"
	case "stdwrite":
		return "SStdWrite"
	case "devfull":
		return "SDevFull"
	case "read":
		it := make([]string, len(o.Fmts))
		for i, f := range o.Fmts {
			it[i] = coqFmt(f)
		}
		return h("ORead " + lib.CoqList(it))
	case "next":
		return h(fmt.Sprintf("ONext %d", o.K))
	case "lines":
		return h(fmt.Sprintf("OLines %d", o.K))
	case "write":
		it := make([]string, len(o.Strs))
		for i, s := range o.Strs {
			it[i] = coqBytes(decode(s))
		}
		return h("OWrite " + lib.CoqList(it))
	case "seek":
		w := map[string]string{"set": "WSet", "cur": "WCur", "end": "WEnd"}[o.Whence]
		return h("OSeek " + w + " " + lib.CoqZ(o.Off))
	case "flush":
		return h("OFlush")
	case "setvbuf":
		m := map[string]string{"no": "VNo", "full": "VFull", "line": "VLine"}[o.VMode]
		sz := "None"
		if o.Size != nil {
			sz = "(Some " + lib.CoqZ(*o.Size) + ")"
		}
		return h("OSetvbuf " + m + " " + sz)
	case "close":
		return h("OClose")
	}
	panic("bad op " + o.T)
}

// ---------- observations ----------

type Val struct {
	T string `json:"t"` // nil | str | num
	S []Seg  `json:"s,omitempty"`
	M int64  `json:"m,omitempty"`
	E int    `json:"e,omitempty"`
}

type Res struct {
	T     string `json:"t"` // vals | fail | true | off | raise | bytes | weird
	Vals  []Val  `json:"vals,omitempty"`
	Off   int64  `json:"off,omitempty"`
	Bytes []Seg  `json:"bytes,omitempty"`
	Note  string `json:"note,omitempty"`
}

func numVal(f float64) Val {
	if f == 0 || math.IsNaN(f) || math.IsInf(f, 0) {
		return Val{T: "num"}
	}
	fr, ex := math.Frexp(f) // 0.5 <= |fr| < 1
	return Val{T: "num", M: int64(fr * (1 << 53)), E: ex - 53}
}

func coqRes(r Res) string {
	switch r.T {
	case "vals":
		it := make([]string, len(r.Vals))
		for i, v := range r.Vals {
			switch v.T {
			case "nil":
				it[i] = "VNil"
			case "str":
				it[i] = "VStr " + coqBytes(decode(v.S))
			default:
				it[i] = "VDy " + lib.CoqZ(v.M) + " " + lib.CoqZ(int64(v.E))
			}
		}
		return "RVals " + lib.CoqList(it)
	case "fail":
		return "RFail"
	case "true":
		return "RTrue"
	case "off":
		return "ROff " + lib.CoqZ(r.Off)
	case "raise":
		return "RRaise"
	case "bytes":
		return "RBytes " + coqBytes(decode(r.Bytes))
	}
	return "RUnsupported"
}

func coqCase(in Input, obs []Res) string {
	ops := make([]string, len(in.Ops))
	for i, o := range in.Ops {
		ops[i] = coqOp(o)
	}
	rs := make([]string, len(obs))
	for i, r := range obs {
		rs[i] = coqRes(r)
	}
	return "Hist " + coqBytes(decode(in.Init)) + "\n  " + lib.CoqList(ops) + "\n  " + lib.CoqList(rs)
}
