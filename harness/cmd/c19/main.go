// c19: correspondence harness for property C19 (io handles = one byte sequence with one cursor).
package main

import (
	"fmt"
	"os"

	"verifh/lib"
)

const header = "From GL Require Import Common.Bytes Io.IoSpec Io.IoImpl Io.IoSys Io.IoCases."

func main() {
	a := lib.ParseArgs()
	if a.Cmd == "child" {
		childMain()
		return
	}
	if a.Cmd != "run" {
		fmt.Fprintln(os.Stderr, "unknown command", a.Cmd)
		os.Exit(2)
	}
	defer os.RemoveAll(scratch)
	w, err := lib.NewWriter(a.Out, "C19", a.Tier, a.Seed, header, "case", 40)
	if err != nil {
		panic(err)
	}
	w.Meta.Rule = "histories of io.open (all 15 mode strings) / read (count, *l, *a, *n, several formats) / lines / io.lines / write / seek / flush / setvbuf / close " +
		"on 1-4 handles over one temp file (sizes 0, 1, 4095, 4096, 4097, 9000 and others; patterned, run-structured text with long lines and CR LF around the 4096 boundary, numeric text), " +
		"each step one protected call of the real method through the Go API, file bytes read back at snapshots and after the final close; 82% of the histories are disciplined " +
		"(ISO C 7.19.5.3 separators, handles switched only when flushed), the rest interleave freely (impl model only); methods of closed handles included; " +
		"non-trivial = at least 6 steps, at least one read that returned data and at least one write or seek; distinct by Gallina term"
	func() {
		defer func() {
			if rc := recover(); rc != nil {
				os.RemoveAll(scratch)
				panic(rc)
			}
		}()
		r := lib.NewRand(a.Seed)
		if a.Replay != "" {
			replay(w, a.Replay)
		} else {
			corpus(w)
			genHistories(w, r, a.Tier)
		}
	}()
	if err := w.Close(); err != nil {
		panic(err)
	}
}

func lit(s string) []Seg { return encode([]byte(s)) }

func rd(h int, fs ...Fmt) Op { return Op{T: "read", H: h, Fmts: fs} }
func wr(h int, ss ...string) Op {
	o := Op{T: "write", H: h, Strs: [][]Seg{}}
	for _, s := range ss {
		o.Strs = append(o.Strs, lit(s))
	}
	return o
}
func sk(h int, w string, off int64) Op { return Op{T: "seek", H: h, Whence: w, Off: off} }
func vb(h int, m string, size int64) Op {
	o := Op{T: "setvbuf", H: h, VMode: m}
	if size != 0 {
		o.Size = &size
	}
	return o
}
func op(t string, h int) Op { return Op{T: t, H: h} }
func open(m string) Op     { return Op{T: "open", Mode: m} }

var zero, one = 0, 1

var (
	fl  = Fmt{K: "line"}
	fa  = Fmt{K: "all"}
	fn  = Fmt{K: "num"}
	snp = Op{T: "snap"}
)

func cnt(n int64) Fmt { return Fmt{K: "count", N: n} }

// corpus: the witnesses of every C19 defect (DESIGN 9.1 C19-1..6 and the ones found while
// building the check), fixed or listed, plus boundary cases kept from development.
func corpus(w *lib.Writer) {
	long := string(rep('a', 5000))
	cs := []Input{
		// C19-1 (fixed): read, flush, write lands at the cursor
		{Init: lit("0123456789"), Ops: []Op{open("rb+"), rd(0, cnt(2)), op("flush", 0), wr(0, "XY"), op("close", 0), snp}},
		{Init: lit("0123456789"), Ops: []Op{open("rb+"), rd(0, cnt(2)), sk(0, "cur", 0), wr(0, "XY"), sk(0, "cur", 0), op("close", 0), snp}},
		// the same without a separator (outside ISO C; the repaired code handles it)
		{Init: lit("0123456789"), Ops: []Op{open("r+"), rd(0, cnt(2)), wr(0, "XY"), sk(0, "cur", 0), rd(0, cnt(3)), op("close", 0), snp}},
		// append: the cursor is at the end after a write
		{Init: lit("abc"), Ops: []Op{open("a+"), rd(0, cnt(1)), sk(0, "cur", 0), wr(0, "X"), sk(0, "cur", 0), rd(0, cnt(1)), sk(0, "set", 1), wr(0, "Y"), sk(0, "cur", 0), op("close", 0), snp}},
		// C19-2 (fixed): buffered writer + seek
		{Init: lit("0123456789"), Ops: []Op{open("rb+"), vb(0, "full", 1024), sk(0, "set", 5), wr(0, "AB"), sk(0, "set", 0), wr(0, "C"), op("close", 0), snp}},
		{Init: lit("0123456789"), Ops: []Op{open("r+"), vb(0, "full", 4), wr(0, "abc"), wr(0, "de"), snp, wr(0, "fghijk"), snp, op("flush", 0), snp, sk(0, "end", 0), op("close", 0), snp}},
		// C19-3 (listed): *l drops the CR of CR LF
		{Init: lit("abc\r\nx"), Ops: []Op{open("rb"), rd(0, fl), rd(0, fl), rd(0, fl), op("close", 0), snp}},
		{Init: encode(append(append(rep('a', 4095), "\r\nb\n"...), rep('c', 4096)...)), Ops: []Op{open("r"), rd(0, fl), rd(0, fl), rd(0, fl), rd(0, fl), op("close", 0), snp}},
		{Init: encode(append(rep('a', 4095), "\rb\r"...)), Ops: []Op{open("r"), Op{T: "lines", H: 0, K: 64}, op("close", 0), snp}},
		// C19-4 (fixed): *n across newlines
		{Init: lit("1\n2"), Ops: []Op{open("rb"), rd(0, fn), rd(0, fn), rd(0, fn), op("close", 0), snp}, Flavour: "num"},
		{Init: lit(" 12.5\n-7 .5 5. - a 0.1"), Ops: []Op{open("r"), rd(0, fn, fn), rd(0, fn), rd(0, fn), rd(0, fn), rd(0, cnt(2)), rd(0, fn), rd(0, fn), rd(0, fn), op("close", 0), snp}, Flavour: "num"},
		// C19-5 (fixed): every method of a closed handle raises
		{Init: lit("abc"), Ops: []Op{open("rb+"), op("close", 0), sk(0, "set", 0), vb(0, "no", 0), rd(0, cnt(1)), wr(0, "x"), op("flush", 0), Op{T: "lines", H: 0, K: 1}, op("close", 0), snp}},
		{Init: lit("abc"), Ops: []Op{open("r"), op("close", 0), wr(0, "x"), op("flush", 0), vb(0, "full", 0), open("a"), op("close", 1), rd(1, cnt(1)), Op{T: "lines", H: 1, K: 1}, snp}},
		// C19-6 (fixed): r+b w+b a+b
		{Init: lit("abc"), Ops: []Op{open("r+b"), rd(0, fa), op("close", 0), open("a+b"), wr(1, "d"), op("close", 1), open("w+b"), wr(2, "xy"), sk(2, "set", 0), rd(2, fa), op("close", 2), snp}},
		// C19-7 (fixed): lines longer than the read buffer
		{Init: lit(long + "\nx"), Ops: []Op{open("r"), Op{T: "lines", H: 0, K: 64}, op("close", 0), Op{T: "iolines"}, snp}},
		{Init: encode(rep('q', 4097)), Ops: []Op{open("r"), Op{T: "lines", H: 0, K: 64}, op("close", 0), snp}},
		// C19-8 (fixed): setvbuf keeps what the old writer holds
		{Init: lit(""), Ops: []Op{open("w"), vb(0, "full", 0), wr(0, "abc"), vb(0, "no", 0), wr(0, "d"), snp, op("close", 0), snp}},
		// C19-9 (fixed): setvbuf("line")
		{Init: lit(""), Ops: []Op{open("w"), vb(0, "line", 0), wr(0, "x\n"), op("flush", 0), snp, op("close", 0), snp}},
		// C19-10 (fixed): mode a is write-only
		{Init: lit("abc"), Ops: []Op{open("a"), rd(0, cnt(0)), rd(0, cnt(1)), rd(0, fa), Op{T: "lines", H: 0, K: 1}, wr(0, "d"), sk(0, "cur", 0), op("close", 0), snp}},
		// C19-11 (listed): a failing *n after another format drops the earlier value
		{Init: lit("x abc"), Ops: []Op{open("r"), rd(0, cnt(1), fn), rd(0, cnt(2)), op("close", 0), snp}, Flavour: "num"},
		// an iterator obtained before the close is an operation on the closed handle: it raises and
		// returns none of the lines that were still in the read-ahead
		{Init: lit("l1\nl2\nl3\nl4\n"), Ops: []Op{open("r"), rd(0, cnt(1)), Op{T: "lines", H: 0, K: 1}, op("close", 0), Op{T: "next", H: 0, K: 2}, Op{T: "next", H: 0, K: 1}, snp}},
		{Init: lit("l1\nl2\nl3\nl4\n"), Ops: []Op{open("r+"), Op{T: "lines", H: 0, K: 0, Via: "io"}, Op{T: "next", H: 0, K: 1}, rd(0, cnt(1)), Op{T: "close", H: 0, Via: "io"}, Op{T: "next", H: 0, K: 64}, snp}},
		{Init: encode(patterned(0, 9000)), Ops: []Op{open("rb"), Op{T: "lines", H: 0, K: 2}, sk(0, "set", 4000), Op{T: "next", H: 0, K: 1}, op("close", 0), Op{T: "next", H: 0, K: 1}, open("r"), Op{T: "lines", H: 1, K: 64}, Op{T: "next", H: 1, K: 1}, op("close", 1), Op{T: "next", H: 1, K: 1}, snp}},
		// the default streams: io.output(name) is mode "w" (truncates), io.input(name) mode "r";
		// io.read/io.write/io.lines()/io.close() are the methods of the default handles
		{Init: lit("0123456789"), Ops: []Op{Op{T: "open", Mode: "w", Via: "io"}, Op{T: "write", H: 0, Strs: [][]Seg{lit("ab")}, Via: "io"}, Op{T: "flush", H: 0, Via: "io0"}, snp, Op{T: "close", H: 0, Via: "io0"}, snp}},
		{Init: lit("l1\nl2\nl3\n"), Ops: []Op{Op{T: "open", Mode: "r", Via: "io"}, Op{T: "read", H: 0, Fmts: []Fmt{cnt(1), fl}, Via: "io"}, Op{T: "lines", H: 0, K: 1, Via: "io"}, Op{T: "write", H: 0, Strs: [][]Seg{lit("x")}, Via: "io"}, Op{T: "close", H: 0, Via: "io"}, Op{T: "lines", H: 0, K: 0, Via: "io"}, Op{T: "read", H: 0, Fmts: []Fmt{fa}, Via: "io"}, Op{T: "next", H: 0, K: 1}, snp}},
		// counts without limit: negative (C Lua's size_t conversion) and beyond any file; read(2^40)
		// used to kill the process with "out of memory"
		{Init: lit("abc\ndef"), Ops: []Op{open("r"), rd(0, cnt(1)), rd(0, cnt(-1)), rd(0, cnt(-1)), sk(0, "set", 2), rd(0, cnt(1 << 31)), sk(0, "set", 0), rd(0, cnt(1 << 40)), rd(0, cnt(1 << 53)), op("close", 0), snp}},
		{Init: encode(patterned(0, 9000)), Ops: []Op{open("r+"), rd(0, cnt(8191)), rd(0, cnt(2)), sk(0, "set", 1), rd(0, cnt(-5)), rd(0, cnt(0)), sk(0, "set", 808), rd(0, cnt(8192), cnt(1 << 40)), op("close", 0), snp}},
		// the state is closed with files open: what a buffered writer holds reaches the file
		{Init: lit(""), Ops: []Op{open("w"), vb(0, "full", 0), wr(0, "hello world\n"), snp, Op{T: "lclose"}, snp}},
		{Init: lit("0123456789"), Ops: []Op{open("r+"), vb(0, "line", 8), rd(0, cnt(2)), sk(0, "cur", 0), wr(0, "AB"), open("a"), vb(1, "full", 0), Op{T: "lclose"}, snp}},
		// iterators are closures over their file: called without arguments, or with another handle
		{Init: lit("l1\nl2\nl3\nl4\n"), Ops: []Op{open("r"), open("r"), Op{T: "lines", H: 0, K: 1, Via: "io"}, Op{T: "next", H: 0, K: 1, Arg: &one}, rd(1, fl), Op{T: "lines", H: 1, K: 1, Arg: &zero}, rd(0, fl), op("close", 0), op("close", 1), snp}},
		// "*n" reads a C numeral and leaves the rest; no numeral is a plain nil after the earlier values
		{Init: lit("12px 1p5 1_000 3pm 0x10 inf -.5a"), Ops: []Op{open("r"), rd(0, fn), rd(0, cnt(2)), rd(0, fn), rd(0, cnt(2)), rd(0, fn), rd(0, cnt(4)), rd(0, fn, cnt(2)), rd(0, cnt(1), fn), rd(0, cnt(3)), rd(0, cnt(1), fn), rd(0, cnt(3), fn), rd(0, fa), op("close", 0), snp}, Flavour: "num"},
		// only the letter after '*' counts
		{Init: lit("abc\ndef\n12\nrest"), Ops: []Op{open("r"), rd(0, Fmt{K: "line", Long: true}), rd(0, fl, Fmt{K: "num", Long: true}), rd(0, Fmt{K: "all", Long: true}), op("close", 0), snp}, Flavour: "num"},
		// flush/setvbuf on a handle that is only read succeed; the standard files are not closed
		{Init: lit("abc"), Ops: []Op{open("r"), op("flush", 0), vb(0, "full", 0), vb(0, "no", 0), wr(0, "x"), Op{T: "stdclose", Which: "stdout"}, Op{T: "stdclose", Which: "stderr"}, op("close", 0), snp}},
		// a read after a buffered write sees the pending bytes, which land at the cursor
		{Init: lit("0123456789"), Ops: []Op{open("r+"), vb(0, "full", 0), wr(0, "AB"), rd(0, cnt(2)), wr(0, "C"), Op{T: "lines", H: 0, K: 2}, op("close", 0), snp}},
		// the size of setvbuf is a hint (2^45 used to kill the process); bytes buffered on stderr arrive
		// by the end of the state; a close whose flush fails returns nil, message and frees the descriptor
		{Init: lit("abc"), Ops: []Op{open("a"), vb(0, "full", 1 << 45), wr(0, "x"), vb(0, "line", 1 << 62), wr(0, "y"), Op{T: "stdwrite", Strs: [][]Seg{lit("buffered on stderr\n")}}, Op{T: "lclose"}, snp}},
		{Init: lit("abc"), Ops: []Op{Op{T: "devfull"}, open("r"), Op{T: "devfull"}, op("close", 0), snp}},
		// an explicit nil is an absent optional argument
		{Init: lit("abcdef\ng\n"), Ops: []Op{Op{T: "open", Mode: "r", NilArg: true}, rd(0, cnt(2)), Op{T: "seek", H: 0, Whence: "cur", Off: 2, NilArg: true}, Op{T: "seek", H: 0, Whence: "set", NilArg: true}, Op{T: "seek", H: 0, Whence: "cur", NilArg: true}, Op{T: "lines", H: 0, K: 1, Via: "io", NilArg: true}, op("close", 0), snp}},
		// boundaries: counts across the buffer, read(0) at the end, holes
		{Init: encode(patterned(0, 9000)), Ops: []Op{open("r+"), rd(0, cnt(4095)), rd(0, cnt(2)), rd(0, cnt(5000)), rd(0, cnt(0)), rd(0, cnt(1)), sk(0, "set", 4096), wr(0, "ZZ"), sk(0, "cur", -3), rd(0, cnt(4)), sk(0, "end", 5), wr(0, "!"), op("close", 0), snp}},
		{Init: encode(patterned(0, 4096)), Ops: []Op{open("r"), rd(0, cnt(4096)), rd(0, cnt(0)), sk(0, "set", -1), sk(0, "end", -1), rd(0, fa), rd(0, fa), rd(0, fl), op("close", 0), snp}},
		// a second handle sees flushed bytes
		{Init: lit("hello\n"), Ops: []Op{open("a+"), wr(0, "world\n"), op("flush", 0), open("r"), rd(1, fa), op("close", 1), sk(0, "set", 0), rd(0, fl), op("close", 0), snp}},
	}
	for _, c := range cs {
		if c.Flavour == "" {
			c.Flavour = "text"
		}
		c.Flavour = "corpus-" + c.Flavour
		c.Disc = true
		runCase(w, c)
	}
}
