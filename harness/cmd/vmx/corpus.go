package main

import (
	"verifh/lib"
	"verifh/luagen"
)

func genSource(prop string, seed uint64, idx int) string {
	f := luagen.CoreFeatures()
	switch prop {
	case "c02":
		f.Funcs, f.Varargs, f.MultiAssign, f.Closures, f.Goto, f.Errors, f.Tables = 14, 12, 5, 1, 0, 1, 4
	case "c03":
		f.Closures, f.Goto, f.Errors, f.Funcs, f.Coroutines, f.Fenv, f.Varargs, f.MultiAssign = 14, 6, 5, 4, 3, 4, 1, 2
	}
	r := lib.NewRand(seed*1000003 + uint64(idx))
	g := luagen.NewGen(r, f)
	return luagen.PrintLua(g.Program())
}

// one program per opcode / VM mechanism / host function, then the witnesses of the c01..c03 corpora
var corpus = []string{
	// MOVE LOADK LOADBOOL LOADNIL, emit
	`local a = 1; local b = a; local c, d; local e = true; local f = false; emit(a, b, c, d, e, f, "s", 2.5, nil)`,
	// MOVEN (parallel assignment of locals)
	`local a, b, c = 1, 2, 3; a, b, c = c, a, b; emit(a, b, c); a, b = b, a; emit(a, b)`,
	// GETGLOBAL SETGLOBAL
	`g1 = 5; g2 = g1; emit(g1, g2, g3); g1 = nil; emit(g1)`,
	// NEWTABLE GETTABLE SETTABLE GETTABLEKS SETTABLEKS
	`local t = {}; t.x = 1; t["y"] = 2; t[1] = "a"; local k = "z"; t[k] = 3; emit(t.x, t.y, t[1], t.z, t[k], t.none, t[2])`,
	// SETLIST with B=0 (open call at the end) and B>0, > 50 items (two flushes)
	`local function f() return 7, 8, 9 end; local t = {1, 2, f()}; emit(#t, t[3], t[5]); local u = {f(), f()}; emit(#u, u[1], u[2], u[4])`,
	`local t = {1,2,3,4,5,6,7,8,9,10,11,12,13,14,15,16,17,18,19,20,21,22,23,24,25,26,27,28,29,30,31,32,33,34,35,36,37,38,39,40,41,42,43,44,45,46,47,48,49,50,51,52,53}; emit(#t, t[50], t[51], t[53])`,
	// arithmetic on numbers, constants folded and not
	`local a, b = 7, 2; emit(a + b, a - b, a * b, a / b, a % b, a ^ b, -a, 10 % 3, -10 % 3, 10 % -3, 2 ^ 10)`,
	// arithmetic coercion of strings, error on non-numbers
	`local s = "10"; emit(s + 1, s * "2", "0x10" + 0, -s); emit(pcall(function() return {} + 1 end)); emit(pcall(function() return "a" + 1 end)); emit(pcall(function() return -{} end))`,
	// NOT LEN
	`local t = {1, 2, 3}; emit(not nil, not 0, not false, #t, #"abcd", #{}); emit(pcall(function() return #5 end))`,
	// CONCAT incl. numbers and a run of three
	`local a, b, c = "x", 1, "z"; emit(a .. b, a .. b .. c, 1 .. 2, a .. a .. a .. a); emit(pcall(function() return a .. {} end)); emit(pcall(function() return nil .. a end))`,
	// JMP EQ LT LE TEST TESTSET in branch and value context
	`local a, b = 1, 2; if a == b then emit("eq") else emit("ne") end; if a < b then emit("lt") end; if a <= b then emit("le") end; if a > b then emit("gt") else emit("ngt") end; emit(a == b, a ~= b, a < b, a >= b, "a" < "b", "a" <= "a", "b" < "a")`,
	`local a, b = nil, 5; local x = a and b; local y = a or b; local z = b and a; local w = b or a; emit(x, y, z, w); local f = false; emit(f and 1, f or 2, not f and 3); if a then emit(1) elseif b then emit(2) end`,
	// comparison errors
	`emit(pcall(function() return 1 < "2" end)); emit(pcall(function() return {} < {} end)); emit(pcall(function() return nil <= 1 end)); emit(1 == "1", "1" == 1, nil == false)`,
	// numeric for: up, down, fractional step, empty, string operands, bad operand
	`local s = 0; for i = 1, 5 do s = s + i end; emit(s); for i = 5, 1, -2 do emit(i) end; for i = 1, 2, 0.5 do emit(i) end; for i = 1, 0 do emit("never") end; for i = "1", "2" do emit(i) end; emit(pcall(function() for i = 1, {} do end end))`,
	// while repeat break
	`local i = 0; while i < 3 do i = i + 1; if i == 2 then break end end; emit(i); local j = 0; repeat local k = j; j = j + 1 until k >= 2; emit(j)`,
	// generic for with pairs ipairs next and a Lua iterator (TFORLOOP)
	`local t = {10, 20, 30}; for i, v in ipairs(t) do emit(i, v) end; for k, v in pairs({a = 1}) do emit(k, v) end; for k, v in next, {5} do emit(k, v) end; local function it(s, c) if c < s then return c + 1, c * 2 end end; for a, b in it, 3, 0 do emit(a, b) end`,
	// CALL with fixed/open arguments and results; adjust
	`local function f(a, b) return a, b end; local function g() return 1, 2, 3 end; emit(f(1)); emit(f(1, 2, 3)); emit(f(g())); emit(g(), 10); emit((g())); local x, y, z, w = g(); emit(x, y, z, w); local p = g(); emit(p); g()`,
	// VARARG in every position, arg table, select
	`local function v(...) local a, b = ...; emit(a, b, ...); emit(select("#", ...)); return ... end; emit(v()); emit(v(1)); emit(v(1, 2, 3)); local function w(...) emit(arg.n, arg[1]) end; w(); w(9, 8); local function u(a, ...) return select(2, ...) end; emit(u(1, 2, 3, 4))`,
	// TAILCALL to Lua (deep), to a host function, through __call
	`local function loop(n, acc) if n == 0 then return acc end return loop(n - 1, acc + n) end; emit(loop(500, 0)); local function t1(...) return select("#", ...) end; local function t2() return t1(1, 2, 3) end; emit(t2()); local function t3() return type(1) end; emit(t3())`,
	`local mt = {__call = function(self, a, b) return b, a end}; local c = setmetatable({}, mt); emit(c(1, 2)); local function tc() return c(3, 4) end; emit(tc()); emit(pcall(function() local n = nil; return n() end)); emit(pcall(function() local n = 5; n() end))`,
	// SELF and methods
	`local o = {k = 5}; function o:m(a, ...) emit(self == o, self.k, a, ...) return self.k + (a or 0) end; emit(o:m()); emit(o:m(1, 2)); emit(o.m(o, 7)); emit(("abc"):upper(), ("x"):rep(3), ("Hello"):len(), ("Hello"):sub(2, 3), ("Hello"):lower(), ("A"):byte())`,
	// CLOSURE GETUPVAL SETUPVAL CLOSE: counters, shared upvalue, per-iteration cells
	`local function mk() local c = 0; return function() c = c + 1; return c end, function() return c end end; local inc, get = mk(); emit(inc(), inc(), get()); local inc2 = mk(); emit(inc2(), get())`,
	`local fs = {}; for i = 1, 3 do local x = i * 10; fs[i] = function() x = x + 1; return x end end; emit(fs[1](), fs[1](), fs[2](), fs[3]()); local gs = {}; local j = 0; while j < 3 do j = j + 1; local y = j; gs[j] = function() return y end end; emit(gs[1](), gs[2](), gs[3]())`,
	`local a = 1; local function f() local function g() a = a + 1; return a end; return g end; emit(f()(), f()(), a); do local b = 5; h = function() b = b + 1; return b end end; emit(h(), h())`,
	// closure over loop variable with break; goto continue
	`local fs = {}; for i = 1, 3 do local x = i * 10; fs[i] = function() x = x + 1 return x end; if i == 2 then break end end; emit((function(a,b,c,d) return d end)(1,2,3,4)); emit(fs[1](), fs[2](), fs[2]())`,
	`local fs = {}; local c = 0; ::top:: local x = c * 10; fs[#fs+1] = function() x = x + 1 return x end; c = c + 1; if c < 3 then goto top end; emit(fs[1](), fs[1](), fs[2](), fs[3]())`,
	// metamethods: __index (table, function, chain), __newindex, arithmetic, __concat, __eq, __lt, __le, __len, __unm, __call
	`local base = {x = 1}; local t = setmetatable({}, {__index = base}); emit(t.x, t.y); local u = setmetatable({}, {__index = function(s, k) return k .. "!" end}); emit(u.a, u[1]); local log = {}; local w = setmetatable({}, {__newindex = function(s, k, v) rawset(s, k, v * 2) end}); w.a = 5; emit(w.a, rawget(w, "a"))`,
	`local mt = {}; mt.__add = function(a, b) return "add" end; mt.__concat = function(a, b) return "cat" end; mt.__eq = function(a, b) return true end; mt.__lt = function(a, b) return true end; mt.__le = function(a, b) return false end; mt.__unm = function(a) return "unm" end; mt.__len = function(a) return 42 end; local a, b = setmetatable({}, mt), setmetatable({}, mt); emit(a + 1, 1 + a, a .. "s", "s" .. a, a == b, a ~= b, a < b, a <= b, a > b, -a, #a)`,
	`emit(pcall(function() local n = nil; return n.x end)); emit(pcall(function() local n = nil; n.x = 1 end)); emit(pcall(function() local t = {}; t[nil] = 1 end)); emit(pcall(function() return (1).x end)); emit(("x").len)`,
	// pcall/error/assert: values, levels, nesting, non-string errors
	`emit(pcall(error)); emit(pcall(error, "msg")); emit(pcall(error, "msg", 0)); emit(pcall(error, {})); emit(pcall(function() error("in fn") end)); emit(pcall(function() error("lvl2", 2) end)); emit(pcall(function() error() end)); emit(pcall(function() error(nil) end)); emit(pcall(function() error(42) end))`,
	`emit(pcall(assert, false)); emit(pcall(assert, nil, "m")); emit(pcall(assert, 1, 2)); emit(select("#", assert(1, 2, 3))); emit(pcall(function() assert(false, "boom") end)); emit(pcall(pcall)); emit(pcall(pcall, error, "x")); emit(pcall(5))`,
	`local function thrower() local x = 1; local f = function() return x end; error({code = 1}) end; local ok, e = pcall(thrower); emit(ok, type(e), e.code); emit(xpcall(thrower, function(m) return "handled" end)); emit(xpcall(function() return 1, 2 end, function() end))`,
	// uncaught error ends the chunk; results of the chunk
	`emit(1); error("top")`,
	`emit(1); local t = nil; emit(t.x)`,
	`return 1, "two", nil, {} `,
	// host functions: type tostring tonumber select unpack rawget rawset rawequal getmetatable setmetatable next
	`emit(type(1), type("s"), type(nil), type({}), type(emit), type(function() end), type(true)); emit(tostring(1), tostring("s"), tostring(nil), tostring(true), tostring(1.5), tostring(-0.25)); emit(tonumber("10"), tonumber("0x1F"), tonumber("x"), tonumber(5), tonumber(nil), tonumber("  7  "))`,
	`emit(select("#")); emit(select("#", nil, nil)); emit(select(2, "a", "b", "c")); emit(select(-1, "a", "b", "c")); emit(unpack({1, 2, 3})); emit(unpack({1, 2, 3}, 2)); emit(unpack({1, 2, 3}, 2, 3)); emit(pcall(select, 0))`,
	`local t = {}; rawset(t, "a", 1); emit(rawget(t, "a"), rawequal(t, t), rawequal(t, {}), rawequal(1, 1)); local mt = {}; emit(getmetatable(t), setmetatable(t, mt) == t, getmetatable(t) == mt, getmetatable("s").__index == string); emit(next({}), next({5})); mt.__metatable = "locked"; emit(getmetatable(t), pcall(setmetatable, t, nil))`,
	`local t = {}; table.insert(t, "a"); table.insert(t, 1, "b"); emit(#t, t[1], t[2], table.concat(t, ","), table.remove(t), #t, table.remove(t, 1), #t); emit(math.floor(2.5), math.max(1, 3, 2), math.min(4, 2), math.abs(-3)); emit(tostring(setmetatable({}, {__tostring = function() return "custom" end})))`,
	// getfenv setfenv
	`local function f() return x end; x = 1; emit(f()); setfenv(f, {x = 2}); emit(f(), getfenv(f).x, getfenv(1) == _G, getfenv(emit) == _G)`,
	// deep recursion: stack overflow is a catchable error
	`local function r(n) return 1 + r(n + 1) end; local ok, e = pcall(r, 1); emit(ok)`,
	// tostring/tonumber via metamethod re-entrance inside host function inside pcall
	`local t = setmetatable({}, {__index = function(s, k) error("idx " .. k) end}); emit(pcall(function() return t.foo end)); emit(pcall(function() for i = 1, 3 do local v = t[i] end end))`,
	// upvalues survive an error caught by pcall; registers reused afterwards
	`local up; local function mk() local x = 1; up = function() x = x + 1; return x end; error("boom") end; emit(pcall(mk)); emit((function(a,b,c,d,e,f,g,h) local p,q,r,s = 61,62,63,64 return a end)(10,20,30,40,50,60,70,80)); emit(up(), up())`,
	`local up; local function mk() local x = 1; up = function() x = x + 1; return x end; error("boom") end; emit((xpcall(mk, function(m) error("again") end))); emit((function(a,b,c,d,e,f,g,h) local p,q,r,s = 61,62,63,64 return a end)(10,20,30,40,50,60,70,80)); emit(up(), up())`,
	// c01 corpus
	`local a,b=1,2; a,b=b,a; emit(a,b); local x,y,z=1,2,3; x,y,z=z,x,y; emit(x,y,z); local m,n=1,2; m,n=n,m+0; emit(m,n)`,
	`local a={} local p=7; g, a.x = 5, p; emit(g, a.x); local d='e' local f=1; f, a.d = f, d; emit(f, a.d)`,
	`local s=0; for i="1",2 do s=s+i end; for i=1,"2" do s=s+i end; emit(s)`,
	`local v = 's'; v = not v and 5; emit(v); local w = 3; w = w == 4 and 1 ~= 2; emit(w)`,
	`local t = {-3 % 3}; local a = 4; emit(a / 0, 1 / t[1]); local z = 0; emit(1/(z * -1), 1/(-z))`,
	`local function it(s,c) return nil end; for u,x in it,{101} do end; local n=0; for k,v in next,{101} do n=n+1 end; emit(n)`,
	`local a1 = 8; local function g() return a1 end; local c=0; ::top:: c=c+1; if c<3 then goto top end; a1 = 100; emit(g())`,
	`local i=0 local j=0 if i>100 then j=5 end while true do while true do break end i=i+1 j=j+10 if i>3 then break end end emit(i,j)`,
	`emit(pcall(error)); emit(pcall(function() local x = nil; return x.y end))`,
	`emit(10 % 3, -10 % 3, 10 % -3, 2^10, 7/2, "10"+1, "0x10"*2, 10 .. 20, #"abc", not nil, 1 < 2, "a" < "b", 1 == 1.0, "1" == 1)`,
	`local t = {}; local k = 1; t[k], k = "v", 2; emit(t[1], t[2], k); local a, i = {}, 1; a[i], i = 10, i + 1; emit(a[1], a[2], i)`,
	`local n = 0; for i = 0, 1, 0 do n = n + 1; if n > 3 then break end end; emit(n)`,
	`local t = {10,20,30,nil}; emit(#t); t[#t+1] = 40; emit(#t, t[4]); local u = {n=1, [1]="a", [2]="b"}; emit(#u, u.n)`,
	// c02 corpus
	`local t = {5, 6}; local function f() local k, v = next(t); return k end; local a, b = f(); emit(a, b); local function g() local p, q, r = 1, 2, 3; return p, q end; local x, y, z = g(); emit(x, y, z)`,
	`local function f(a, b, ...) emit(a, b, select('#', ...), ...) return ..., a end; emit(f()); emit(f(1)); emit(f(1,2,3,4)); emit((f(1,2,3))); emit(f(1,2,3), 9); local t = {f(1,2,3,4)}; emit(#t)`,
	`local function g() return 1, 2, 3 end; local a, b, c, d = g(); emit(a, b, c, d); local x, y = g(), 10; emit(x, y); emit(({g(), g()})[4], #{g(), g()}); emit(#{(g())})`,
	`local function noarg(...) emit(arg.n, arg[1], arg[2]) return arg.n end; emit(noarg()); emit(noarg(7, nil)); emit(noarg(nil, nil, nil))`,
	// c03 corpus
	`local fs = {}; for i = 1, 3 do do local x = i * 10; fs[i] = function() x = x + 1 return x end; if i == 2 then break end end end; emit((function(a,b,c,d,e) return e end)(1,2,3,4,5)); emit(fs[1](), fs[2](), fs[2]())`,
	`local x = 1; local function get() return x end; local function set(v) x = v end; emit(pcall(error, "e")); x = 2; emit(get()); set(5); emit(x, get())`,
	`local a1 = 8; local function g() return a1 end; for i=1,2 do if i==1 then goto cont end ::cont:: end; a1 = 100; emit(g())`,
	// coroutines: create/resume/yield/status/running, wrap (values, end, errors of every kind), upvalues of a suspended
	// and of a dead coroutine, nested coroutines, resume of the running coroutine
	`local co = coroutine.create(function(a, b) emit("start", a, b); local x, y = coroutine.yield(a + b); emit("resumed", x, y); local z = coroutine.yield(x * 2); emit("again", z); return "done", 99 end)
emit(coroutine.status(co))
emit(coroutine.resume(co, 1, 2))
emit(coroutine.status(co))
emit(coroutine.resume(co, 10, 20))
emit(coroutine.resume(co, "z"))
emit(coroutine.status(co))
emit(coroutine.resume(co))
emit(coroutine.running())`,
	`local gen = coroutine.wrap(function() for i = 1, 3 do coroutine.yield(i) end return "end" end)
emit(gen(), gen(), gen(), gen())
emit(pcall(gen))
local w = coroutine.wrap(function() error("boom") end)
emit(pcall(w))
local w2 = coroutine.wrap(function() local t = nil; return t.x end)
emit(pcall(w2))
local w3 = coroutine.wrap(function() error({}) end)
emit(pcall(w3))`,
	`local f; local co = coroutine.create(function() local x = 5; f = function() x = x + 1; return x end; coroutine.yield(); x = x + 100; local z = nil; return z.y end)
emit(coroutine.resume(co)); emit(f()); emit(coroutine.resume(co)); emit(f(), coroutine.status(co))
local co2 = coroutine.create(function(...) emit("args", ...); emit("in", coroutine.status(co2), coroutine.running() == co2); local a, b, c = coroutine.yield(1, 2, 3); emit(a, b, c); coroutine.yield() end)
emit(coroutine.resume(co2, "p", "q")); emit(coroutine.resume(co2, 7)); emit(coroutine.resume(co2)); emit(coroutine.resume(co2)); emit(coroutine.resume(co2))
emit(pcall(coroutine.yield, 1))
emit(coroutine.resume(coroutine.create(emit), 5, 6))`,
	`local outer = coroutine.create(function() local inner = coroutine.create(function() emit("inner", coroutine.status(outer)); coroutine.yield("i1"); return "i2" end); emit(coroutine.resume(inner)); coroutine.yield("o1"); emit(coroutine.resume(inner)); emit(coroutine.resume(inner)); return "o2" end)
emit(coroutine.resume(outer)); emit(coroutine.resume(outer)); emit(coroutine.resume(outer))`,
	`local co = coroutine.wrap(function() local x = 1; local f = function() x = x + 1 return x end; coroutine.yield(f); x = x + 10; coroutine.yield(f); error({}) end); local f = co(); emit(f()); co(); emit(f()); emit(pcall(co)); emit(f(), f())`,
	`local self = coroutine.wrap(function() return coroutine.resume(coroutine.running()) end); emit(self())`,
	// coroutine boundary cases (cmd/c06/boundary.go): resume of a wrap-created thread, yield under pcall / a metamethod /
	// an iterator ("attempt to yield across metamethod/C-call boundary"), legal yields around pcall, a Go-function body that yields
	`local th; local w = coroutine.wrap(function(...) th = coroutine.running(); local a = coroutine.yield(1); return a end); emit(w()); emit(coroutine.resume(th, 5)); emit(coroutine.status(th))`,
	`local co = coroutine.create(function() emit("r", pcall(function() emit("in"); local v = coroutine.yield(1); emit("back", v); return 7 end)); return 9 end); emit(coroutine.resume(co)); emit(coroutine.status(co)); emit(coroutine.resume(co, 2))`,
	`local co = coroutine.create(function() emit(pcall(coroutine.yield, 1)); return 9 end); emit(coroutine.resume(co)); emit(coroutine.status(co))`,
	`local co = coroutine.create(function() local t = setmetatable({}, {__index = function(t, k) return coroutine.yield(k) end}); emit("got", t.x); return 9 end); emit(coroutine.resume(co)); emit(coroutine.status(co)); emit(coroutine.resume(co, 2))`,
	`local co = coroutine.create(function() for k in function() return coroutine.yield(5) end do emit("k", k); break end; return 9 end); emit(coroutine.resume(co)); emit(coroutine.resume(co, 2)); emit(coroutine.status(co))`,
	`local co = coroutine.wrap(function() local ok = pcall(error, "x"); local v = coroutine.yield(ok); local ok2, e = pcall(function() error("y", 0) end); coroutine.yield(v, ok2, e); return "end" end); emit(co()); emit(co(4)); emit(co())`,
	`local w = coroutine.wrap(coroutine.yield); emit(w(1)); emit(pcall(w, 2, 3)); emit(pcall(w, 3)); local co = coroutine.create(coroutine.yield); emit(coroutine.resume(co, 1, 2)); emit(coroutine.status(co)); emit(coroutine.resume(co, 7, 8)); emit(coroutine.status(co))`,
	// metamethod handlers that are callable tables (/repo 5c2f2ce), unary minus on numeric strings (46ac53a)
	`local H = setmetatable({}, {__call = function(self, a, b) emit("H", type(self), type(a), type(b)) return "handled" end}); local mt = {__add = H, __sub = H, __mul = H, __div = H, __mod = H, __pow = H, __concat = H, __unm = H, __len = H}; local x = setmetatable({}, mt); emit(x + 1); emit(1 - x); emit(x * x); emit(x / 2, x % 2, x ^ 2); emit(x .. "a", "a" .. x); emit(-x); emit(#x)`,
	`local H = setmetatable({}, {__call = function(self, a, b) emit("H") return 1 end}); local mt = {__eq = H, __lt = H, __le = H}; local x, y = setmetatable({}, mt), setmetatable({}, mt); emit(x == y); emit(x ~= y); emit(x < y); emit(x <= y); emit(x > y)`,
	`local H = setmetatable({}, {__call = function(self, a, b) emit("lt") return false end}); local mt = {__lt = H}; local x, y = setmetatable({}, mt), setmetatable({}, mt); emit(x <= y, x >= y)`,
	`local H = setmetatable({}, {__call = function(self, o) emit("ts", type(o)) return "str!" end}); local x = setmetatable({}, {__tostring = H}); emit(tostring(x))`,
	`local x = setmetatable({}, {__unm = 5, __add = true, __concat = "s", __len = 0}); emit(pcall(function() return -x end)); emit(pcall(function() return x + 1 end)); emit(pcall(function() return x .. "a" end)); emit(pcall(function() return #x end))`,
	`local smt = getmetatable(""); smt.__unm = function(a) emit("str-unm", a) return "mm" end; emit(-"10", -"2.5"); emit(pcall(function() return -"abc" end)); smt.__unm = nil; emit(pcall(function() return -"abc" end))`,
}
