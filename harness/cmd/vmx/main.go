// vmx: development/validation tool of the bytecode-VM model (coq/VMX). It runs Lua sources on the
// real interpreter, dumps the prototypes the real compiler produced, and writes a Coq file in which
// the VM model's outcome is compared with the observed one (no reference evaluator involved).
//
//   vmx corpus <out.v>            the fixed opcode/feature corpus (corpus.go)
//   vmx file <out.v> <a.lua>...   sources from files
//   vmx gen <out.v> <prop> <seed> <n>   n programs of the c01/c02/c03 generator mix
package main

import (
	"fmt"
	"os"
	"strings"

	"verifh/luagen"
	"verifh/luaprop"
)

func emitCases(out string, srcs []string, names []string) {
	var sb strings.Builder
	sb.WriteString(luaprop.VMHeader + "\nOpen Scope Z_scope.\n")
	ids := []string{}
	for i, src := range srcs {
		o := luagen.RunIsolated(src, 20e9, nil)
		if o.GoFail != "" {
			fmt.Printf("case %d (%s): go failure: %s\n", i, names[i], o.GoFail)
			continue
		}
		p, err := luaprop.ProtoCoq(src)
		if err != nil {
			fmt.Printf("case %d (%s): dump failed: %v\n", i, names[i], err)
			continue
		}
		fmt.Fprintf(&sb, "Definition p%d : xproto := %s.\nDefinition o%d : outcome := %s.\n", i, p, i, o.Coq())
		ids = append(ids, fmt.Sprint(i))
	}
	sb.WriteString("Definition rs := Eval vm_compute in [")
	for k, id := range ids {
		if k > 0 {
			sb.WriteString("; ")
		}
		fmt.Fprintf(&sb, "(%s, match vm_outcome p%s with OutUnsup c => c | OutFuel => -1 | Outcome _ _ => if outcome_eqb (vm_outcome p%s) o%s then 0 else -2 end)", id, id, id, id)
	}
	sb.WriteString("].\nPrint rs.\n")
	if err := os.WriteFile(out, []byte(sb.String()), 0o644); err != nil {
		panic(err)
	}
	fmt.Printf("wrote %d cases to %s\n", len(ids), out)
}

func main() {
	if len(os.Args) > 1 && os.Args[1] == "child" {
		luagen.ChildMain(nil)
		return
	}
	if len(os.Args) < 3 {
		fmt.Println("usage: vmx corpus|file|gen <out.v> ...")
		os.Exit(2)
	}
	switch os.Args[1] {
	case "corpus":
		names := make([]string, len(corpus))
		for i := range corpus {
			names[i] = strings.ReplaceAll(strings.ReplaceAll(corpus[i], "*)", "* )"), "(*", "( *")
			if len(names[i]) > 60 {
				names[i] = names[i][:60]
			}
			names[i] = strings.ReplaceAll(names[i], "\n", " ")
		}
		emitCases(os.Args[2], corpus, names)
	case "file":
		var srcs, names []string
		for _, f := range os.Args[3:] {
			b, err := os.ReadFile(f)
			if err != nil {
				panic(err)
			}
			srcs = append(srcs, string(b))
			names = append(names, f)
		}
		emitCases(os.Args[2], srcs, names)
	case "gen":
		var seed uint64
		var n int
		fmt.Sscan(os.Args[4], &seed)
		fmt.Sscan(os.Args[5], &n)
		var srcs, names []string
		for i := 0; i < n; i++ {
			srcs = append(srcs, genSource(os.Args[3], seed, i))
			names = append(names, fmt.Sprintf("%s seed %d idx %d", os.Args[3], seed, i))
		}
		emitCases(os.Args[2], srcs, names)
	}
}
