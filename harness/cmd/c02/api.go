package main

import (
	"fmt"
	"strings"

	lua "github.com/yuin/gopher-lua"
	"verifh/lib"
)

// hostCalls: the call contract at the host boundary, on ONE long-lived state with a history.
//
// A fixed set of callees (Lua functions with 0..2 parameters, with `...`, with the compatibility
// `arg` table, a mutator of its own arg table, tail calls to Lua and to Go, parenthesised and
// middle-position calls, __call objects with a Lua and a Go handler, a coroutine body, a pcall, a
// callee returning n values, a table popped by assignment before unpack, and a Go function) each
// come with a Go-side oracle `want(args)`: the complete list of values Lua 5.1 prescribes. A random
// sequence of probes calls them with 0..5 arguments asking for 0, 1, 2, 4 or all results
//   - through LState.CallByParam (with and without Protect), LState.Call, LState.PCall,
//   - on the main state, on a second thread of the same state (shared Global), and from inside a
//     host function that is itself running under Lua frames of depth 1..6 (re-entrant),
//
// and checks: no error, GetTop grew by exactly the number of results asked for (or produced, for
// MultRet), the values are the oracle's list truncated / nil-padded to that number, and a Go callee
// saw exactly the arguments passed (GetTop inside the callee). Between probes the history moves on:
// the arg mutator runs with zero surplus arguments, a shared table is pushed/popped by assignment,
// a protected call fails and is caught, the registry grows (a callee returning hundreds of values).
// A second, independent state must stay unaffected by all of it.
type hcallee struct {
	name  string
	noNil bool // arguments must not contain nil (the oracle would need `#` of a table with holes)
	maxN  int  // maximum number of arguments (0 = up to 5)
	want  func(p *hprobe, args []lua.LValue) []lua.LValue
}

type hprobe struct {
	L       *lua.LState
	seen    [][]lua.LValue // arguments recorded by the Go callee gecho, one entry per activation
	objs    map[string]lua.LValue
	shared  []lua.LValue // oracle content of the global sequence T
	nprobes int
}

const hostPrelude = `
function fixed0() return "z" end
function fixed2(a, b) return a, b end
function none() end
function va0(...) return select('#', ...), ... end
function va1(a, ...) return a, select('#', ...), ... end
function argf(a, ...) return arg.n, arg[1], arg[arg.n] end
function argmut(...) local n0 = arg.n; arg.n = n0 + 1; arg[n0 + 1] = "m"; arg.tag = true; return n0, arg[1] end
function argtag(...) return arg.n, arg.tag end
function many(n) local t = {} for i = 1, n do t[i] = i end return unpack(t) end
function tail(...) return va0(...) end
function tailgo(...) return gecho(...) end
function paren(...) return (va0(...)) end
function mid(...) return va0(...), "e" end
function pc(...) return pcall(va0, ...) end
function coro(...) return coroutine.wrap(va0)(...) end
function popunpack(...) local t = {...}; t[#t + 1] = 1; t[#t + 1] = 2; t[#t] = nil; t[#t] = nil; return unpack(t) end
function popcount(...) local t = {...}; t[#t + 1] = 1; t[#t] = nil; return select('#', unpack(t)), #t end
function selfm(...) local o = {}; function o:m(...) return self == o, select('#', ...), ... end; return o:m(...) end
callable = setmetatable({}, {__call = function(self, a, ...) return a, select('#', ...) end})
gocallable = setmetatable({}, {__call = gecho})
function tailcallable(...) return gocallable(...) end
T = {}
function tpush(v) T[#T + 1] = v end
function tpop() T[#T] = nil end
function tspread() return unpack(T) end
function tspreadgo() return gecho(unpack(T)) end
function tcount() return select('#', unpack(T)), #T end
function manyctor(n) local t = {many(n)}; return #t, t[n], select('#', unpack(t)), select('#', many(n)) end
function manyva(n) return va0(many(n)) end
function manyarg(n) return argf(many(n)) end
function gretctx(k) local a, b, c = gret(k); local t = {gret(k)}; local u = {gret(k), gret(k)}; return a, b, c, #t, #u, (gret(k)), select('#', gret(k)), select('#', gret(k), gret(k)) end
function enter(d) if d == 0 then return inhost() end local r = enter(d - 1) return r end
`

func nilPad(vs []lua.LValue, i int) lua.LValue {
	if i >= 0 && i < len(vs) {
		return vs[i]
	}
	return lua.LNil
}

func num(n int) lua.LValue { return lua.LNumber(n) }

func manyN(a []lua.LValue) int {
	if len(a) > 0 {
		if n, ok := a[0].(lua.LNumber); ok {
			return int(n)
		}
	}
	return 0
}

func manySeq(n int) []lua.LValue {
	out := make([]lua.LValue, n)
	for i := range out {
		out[i] = num(i + 1)
	}
	return out
}

func hostCallees() []hcallee {
	va0 := func(p *hprobe, a []lua.LValue) []lua.LValue { return append([]lua.LValue{num(len(a))}, a...) }
	return []hcallee{
		{name: "fixed0", want: func(p *hprobe, a []lua.LValue) []lua.LValue { return []lua.LValue{lua.LString("z")} }},
		{name: "fixed2", want: func(p *hprobe, a []lua.LValue) []lua.LValue { return []lua.LValue{nilPad(a, 0), nilPad(a, 1)} }},
		{name: "none", want: func(p *hprobe, a []lua.LValue) []lua.LValue { return nil }},
		{name: "va0", want: va0},
		{name: "va1", want: func(p *hprobe, a []lua.LValue) []lua.LValue {
			s := a[min(1, len(a)):]
			return append([]lua.LValue{nilPad(a, 0), num(len(s))}, s...)
		}},
		{name: "argf", want: func(p *hprobe, a []lua.LValue) []lua.LValue {
			s := a[min(1, len(a)):]
			return []lua.LValue{num(len(s)), nilPad(s, 0), nilPad(s, len(s)-1)}
		}},
		{name: "argmut", want: func(p *hprobe, a []lua.LValue) []lua.LValue {
			if len(a) == 0 {
				return []lua.LValue{num(0), lua.LString("m")}
			}
			return []lua.LValue{num(len(a)), a[0]}
		}},
		{name: "argtag", want: func(p *hprobe, a []lua.LValue) []lua.LValue { return []lua.LValue{num(len(a)), lua.LNil} }},
		{name: "tail", want: va0},
		{name: "tailgo", want: func(p *hprobe, a []lua.LValue) []lua.LValue { return a }},
		{name: "gecho", want: func(p *hprobe, a []lua.LValue) []lua.LValue { return a }},
		{name: "paren", want: func(p *hprobe, a []lua.LValue) []lua.LValue { return []lua.LValue{num(len(a))} }},
		{name: "mid", want: func(p *hprobe, a []lua.LValue) []lua.LValue { return []lua.LValue{num(len(a)), lua.LString("e")} }},
		{name: "pc", want: func(p *hprobe, a []lua.LValue) []lua.LValue { return append([]lua.LValue{lua.LTrue}, va0(p, a)...) }},
		{name: "coro", want: va0},
		{name: "popunpack", noNil: true, want: func(p *hprobe, a []lua.LValue) []lua.LValue { return a }},
		{name: "popcount", noNil: true, want: func(p *hprobe, a []lua.LValue) []lua.LValue { return []lua.LValue{num(len(a)), num(len(a))} }},
		{name: "selfm", want: func(p *hprobe, a []lua.LValue) []lua.LValue {
			return append([]lua.LValue{lua.LTrue, num(len(a))}, a...)
		}},
		{name: "callable", want: func(p *hprobe, a []lua.LValue) []lua.LValue {
			return []lua.LValue{nilPad(a, 0), num(len(a[min(1, len(a)):]))}
		}},
		{name: "gocallable", want: func(p *hprobe, a []lua.LValue) []lua.LValue { return append([]lua.LValue{p.objs["gocallable"]}, a...) }},
		{name: "tailcallable", want: func(p *hprobe, a []lua.LValue) []lua.LValue { return append([]lua.LValue{p.objs["gocallable"]}, a...) }},
		{name: "many", maxN: 1, want: func(p *hprobe, a []lua.LValue) []lua.LValue { return manySeq(manyN(a)) }},
		{name: "manyctor", maxN: 1, want: func(p *hprobe, a []lua.LValue) []lua.LValue {
			n := manyN(a)
			return []lua.LValue{num(n), nilPad(manySeq(n), n-1), num(n), num(n)}
		}},
		{name: "manyva", maxN: 1, want: func(p *hprobe, a []lua.LValue) []lua.LValue {
			n := manyN(a)
			return append([]lua.LValue{num(n)}, manySeq(n)...)
		}},
		{name: "manyarg", maxN: 1, want: func(p *hprobe, a []lua.LValue) []lua.LValue {
			s := manySeq(manyN(a))
			s = s[min(1, len(s)):]
			return []lua.LValue{num(len(s)), nilPad(s, 0), nilPad(s, len(s)-1)}
		}},
		{name: "gretctx", maxN: 1, want: func(p *hprobe, a []lua.LValue) []lua.LValue {
			k := manyN(a)
			s := manySeq(k)
			return []lua.LValue{nilPad(s, 0), nilPad(s, 1), nilPad(s, 2), num(k), num(min(k, 1) + k), nilPad(s, 0), num(k), num(1 + k)}
		}},
		{name: "tspread", maxN: -1, want: func(p *hprobe, a []lua.LValue) []lua.LValue { return append([]lua.LValue{}, p.shared...) }},
		{name: "tspreadgo", maxN: -1, want: func(p *hprobe, a []lua.LValue) []lua.LValue { return append([]lua.LValue{}, p.shared...) }},
		{name: "tcount", maxN: -1, want: func(p *hprobe, a []lua.LValue) []lua.LValue {
			return []lua.LValue{num(len(p.shared)), num(len(p.shared))}
		}},
	}
}

func showVals(vs []lua.LValue) string {
	parts := make([]string, len(vs))
	for i, v := range vs {
		if v == nil {
			parts[i] = "<Go nil>"
		} else if s, ok := v.(lua.LString); ok {
			parts[i] = fmt.Sprintf("%q", string(s))
		} else if v.Type() == lua.LTTable {
			parts[i] = "table"
		} else {
			parts[i] = v.String()
		}
	}
	return "[" + strings.Join(parts, " ") + "]"
}

func showSeen(ss [][]lua.LValue) string {
	parts := make([]string, len(ss))
	for i, s := range ss {
		parts[i] = showVals(s)
	}
	return strings.Join(parts, ";")
}

func adjustTo(vs []lua.LValue, n int) []lua.LValue {
	if n < 0 {
		return vs
	}
	out := make([]lua.LValue, n)
	for i := range out {
		out[i] = nilPad(vs, i)
	}
	return out
}

func sameVals(a, b []lua.LValue) bool {
	if len(a) != len(b) {
		return false
	}
	for i := range a {
		if a[i] != b[i] {
			return false
		}
	}
	return true
}

// one probe on state S (the main state or a thread of it); returns "" or the description of the failure
func (p *hprobe) probe(S *lua.LState, c hcallee, style string, args []lua.LValue, nret int) (what string) {
	defer func() {
		if r := recover(); r != nil {
			what = fmt.Sprintf("Go panic escaped: %v", r)
		}
	}()
	p.nprobes++
	before := S.GetTop()
	fn := S.GetGlobal(c.name)
	want := adjustTo(c.want(p, args), nret)
	seen0 := len(p.seen)
	var err error
	switch style {
	case "callbyparam", "callbyparam-protect":
		err = S.CallByParam(lua.P{Fn: fn, NRet: nret, Protect: style == "callbyparam-protect"}, args...)
	default:
		S.Push(fn)
		for _, a := range args {
			S.Push(a)
		}
		if style == "call" {
			S.Call(len(args), nret)
		} else {
			err = S.PCall(len(args), nret, nil)
		}
	}
	if err != nil {
		S.SetTop(before)
		return fmt.Sprintf("error %v", err)
	}
	got := []lua.LValue{}
	for i := before + 1; i <= S.GetTop(); i++ {
		got = append(got, S.Get(i))
	}
	top := S.GetTop()
	S.SetTop(before)
	if top-before != len(want) {
		return fmt.Sprintf("GetTop grew by %d, %d result(s) are due; got %s, want %s", top-before, len(want), showVals(got), showVals(want))
	}
	if !sameVals(got, want) {
		return fmt.Sprintf("results %s, want %s", showVals(got), showVals(want))
	}
	// what the Go callee saw
	var sawWant []lua.LValue
	switch c.name {
	case "gecho", "tailgo":
		sawWant = args
	case "gocallable", "tailcallable":
		sawWant = append([]lua.LValue{p.objs["gocallable"]}, args...)
	case "tspreadgo":
		sawWant = p.shared
	default:
		return ""
	}
	if len(p.seen) != seen0+1 || !sameVals(p.seen[seen0], sawWant) {
		return fmt.Sprintf("the Go callee was entered %d time(s) and saw %s, want once with %s", len(p.seen)-seen0, showSeen(p.seen[seen0:]), showVals(sawWant))
	}
	return ""
}

func hostCallsRun(opt lua.Options, seed uint64, n int) (fails []string, nprobes int) {
	defer func() {
		if r := recover(); r != nil {
			fails = append(fails, fmt.Sprintf("Go panic escaped: %v", r))
		}
	}()
	r := lib.NewRand(seed)
	L := lua.NewState(opt)
	defer L.Close()
	other := lua.NewState(opt) // control: an independent state
	defer other.Close()
	p := &hprobe{L: L, objs: map[string]lua.LValue{}}
	gecho := func(S *lua.LState) int {
		n := S.GetTop()
		vs := make([]lua.LValue, n)
		for i := range vs {
			vs[i] = S.Get(i + 1)
		}
		p.seen = append(p.seen, vs)
		return n
	}
	for _, S := range []*lua.LState{L, other} {
		S.SetGlobal("gecho", S.NewFunction(gecho))
		S.SetGlobal("inhost", S.NewFunction(func(S *lua.LState) int { return 0 }))
		S.SetGlobal("gret", S.NewFunction(func(S *lua.LState) int {
			k := S.CheckInt(1)
			S.SetTop(0)
			for i := 1; i <= k; i++ {
				S.Push(lua.LNumber(i))
			}
			return k
		}))
		if err := S.DoString(hostPrelude); err != nil {
			return []string{"prelude: " + err.Error()}, 0
		}
	}
	p.objs["gocallable"] = L.GetGlobal("gocallable")
	th, _ := L.NewThread()
	callees := hostCallees()
	var argtag hcallee
	for _, c := range callees {
		if c.name == "argtag" {
			argtag = c
		}
	}
	styles := []string{"callbyparam", "callbyparam-protect", "call", "pcall"}
	pool := []lua.LValue{num(1), num(2), lua.LString("s"), lua.LTrue, lua.LFalse, num(-7), lua.LString("")}
	fail := func(f string, a ...any) {
		if len(fails) < 4 {
			fails = append(fails, fmt.Sprintf(f, a...))
		}
	}
	one := func(S *lua.LState, where string) {
		c := callees[r.Intn(len(callees))]
		na := r.Pick(25, 20, 20, 15, 10, 10)
		if c.maxN > 0 && na > c.maxN {
			na = c.maxN
		}
		if c.maxN < 0 {
			na = 0
		}
		args := make([]lua.LValue, na)
		for i := range args {
			if !c.noNil && r.Chance(15) {
				args[i] = lua.LNil
			} else {
				args[i] = pool[r.Intn(len(pool))]
			}
		}
		if c.name == "gretctx" {
			args = []lua.LValue{num(r.Intn(6))}
		} else if strings.HasPrefix(c.name, "many") {
			args = []lua.LValue{num([]int{0, 1, 2, 3, 49, 50, 51, 100, 127, 128, 129, 254, 255, 256, 300, 513}[r.Intn(16)])}
		}
		nret := []int{0, 1, 2, 4, lua.MultRet, lua.MultRet}[r.Intn(6)]
		style := styles[r.Intn(len(styles))]
		if what := p.probe(S, c, style, args, nret); what != "" {
			fail("probe %d %s: %s(%s) via %s asking for %d result(s): %s", p.nprobes, where, c.name, showVals(args), style, nret, what)
		}
	}
	// the re-entrant site: probes issued by a host function running under `enter(d)`
	L.SetGlobal("inhost", L.NewFunction(func(S *lua.LState) int {
		for i := 0; i < 3; i++ {
			one(S, "inside a host function")
		}
		return 0
	}))
	do := func(S *lua.LState, src string) {
		if err := S.DoString(src); err != nil {
			fail("history step %q: %v", src, err)
		}
	}
	for i := 0; i < n && len(fails) == 0; i++ {
		switch r.Pick(50, 12, 8, 6, 6, 6, 4, 4, 4) {
		case 0:
			one(L, "on the main state")
		case 1:
			one(th, "on a second thread")
		case 2:
			do(L, fmt.Sprintf("enter(%d)", r.Range(0, 6)))
		case 3: // the arg table of a zero-surplus call is modified by its owner
			do(L, "argmut(); pcall(argmut); coroutine.wrap(argmut)()")
		case 4:
			v := pool[r.Intn(2)]
			p.shared = append(p.shared, v)
			do(L, fmt.Sprintf("tpush(%s)", v.String()))
		case 5:
			if len(p.shared) > 0 {
				p.shared = p.shared[:len(p.shared)-1]
			}
			do(L, "tpop()")
		case 6: // an error caught earlier
			if err := L.CallByParam(lua.P{Fn: L.GetGlobal("error"), NRet: 2, Protect: true}, lua.LString("boom")); err == nil {
				fail("error('boom') under Protect returned no error")
			}
			do(L, "pcall(error, {}) ; pcall(function() local q = nil; return q.x end) ; pcall(many, 300)")
		case 7: // the control state must not be affected by the first one's history
			if what := (&hprobe{L: other, objs: map[string]lua.LValue{"gocallable": other.GetGlobal("gocallable")}}).probe(other, argtag, "callbyparam", nil, lua.MultRet); what != "" {
				fail("independent second state (it never ran a mutator), argtag(): %s", what)
			}
		default: // a new thread joins
			th, _ = L.NewThread()
		}
	}
	return fails, p.nprobes
}

func hostCalls(w *lib.Writer, tier string, seed uint64) {
	n := 700
	if tier == "thorough" {
		n = 6000
	}
	for i := range hostOptions {
		hostCallsCase(w, i, seed, n)
	}
}

var hostOptions = []lua.Options{{}, {RegistrySize: 128, RegistryMaxSize: 1 << 16, RegistryGrowStep: 16, CallStackSize: 32}, {MinimizeStackMemory: true, CallStackSize: 40}}

func hostCallsCase(w *lib.Writer, i int, seed uint64, n int) {
	o := hostOptions[i]
	fails, np := hostCallsRun(o, seed*7919+uint64(i), n)
	id := w.Add(lib.Case{Input: map[string]any{"c02api": "host-calls", "config": i, "seed": seed, "steps": n, "options": fmt.Sprintf("%+v", o)},
		Observed: map[string]any{"probes": np, "failures": fails}, Class: "api-host-calls", Nontrivial: true, Coq: "CProg [] (Outcome [] (OOk []))"})
	w.Meta.GoOnlyChecked++
	if len(fails) > 0 {
		w.GoFail(id, fmt.Sprintf("host-boundary call contract (%d probes, options %+v): %s", np, o, strings.Join(fails, " | ")))
	}
}
