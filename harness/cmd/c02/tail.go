package main

import (
	"fmt"

	lua "github.com/yuin/gopher-lua"
	"verifh/lib"
	"verifh/luagen"
)

// tailCalls: `return f(args)` must not consume call-stack space: 200000 consecutive tail calls (self,
// mutual, through a Go function, through __call) under tiny call stacks, fixed and auto-growing.
func tailCalls(w *lib.Writer, tier string, seed uint64) {
	n := 200000
	if tier == "thorough" {
		n = 2000000
	}
	progs := map[string]string{
		"self":   fmt.Sprintf(`local function loop(n, acc) if n == 0 then return acc end return loop(n - 1, acc + 1) end; emit(loop(%d, 0))`, n),
		"mutual": fmt.Sprintf(`local even, odd; function even(n) if n == 0 then return true end return odd(n - 1) end; function odd(n) if n == 0 then return false end return even(n - 1) end; emit(even(%d))`, n),
		"gofunc": fmt.Sprintf(`local function loop(n) if n == 0 then return "done" end return select(2, n, loop(n - 1)) end; emit(pcall(loop, %d))`, 50),
		"call-mm": fmt.Sprintf(`local c = setmetatable({}, {__call = function(self, n, f) if n == 0 then return "end" end return f(n - 1, f) end}); local function f(n, g) return c(n, g) end; emit(f(%d, f))`, n/4),
	}
	for _, name := range lib.SortedKeys(progs) {
		for _, opt := range []lua.Options{{CallStackSize: 8}, {CallStackSize: 8, MinimizeStackMemory: true}, {CallStackSize: 64, RegistrySize: 256}} {
			o := opt
			out := luagen.Run(progs[name], &luagen.RunOptions{Options: &o, Timeout: 60e9})
			want := map[string]string{"self": fmt.Sprint(n), "mutual": "true", "gofunc": "", "call-mm": `"end"`}[name]
			got := ""
			if len(out.Trace) == 1 && len(out.Trace[0]) >= 1 {
				got = out.Trace[0][0].String()
				if out.Trace[0][0].Kind == "num" {
					got = fmt.Sprint(int64(out.Trace[0][0].N))
				}
			}
			ok := out.Ok && (name == "gofunc" || got == want)
			id := w.Add(lib.Case{Input: map[string]any{"tail": name, "options": fmt.Sprintf("%+v", o)}, Observed: out.Summary(), Class: "tailcall-" + name,
				Nontrivial: true, Coq: "CProg [] (Outcome [] (OOk []))"})
			w.Meta.GoOnlyChecked++
			if !ok {
				w.GoFail(id, fmt.Sprintf("tail-call program %q under %+v: expected %s, got %s (ok=%v err=%s %s)", name, o, want, got, out.Ok, out.Err.String(), out.GoFail))
			}
		}
	}
}
