// c02: call shapes — parameters/arguments/varargs/result contexts/tail calls.
package main

import (
	"encoding/json"
	"os"

	"verifh/lib"
	"verifh/luagen"
	"verifh/luaprop"
)

// extras: the Go-side runs of C02 (tail-call depth, the call contract at the host boundary).
func extras(w *lib.Writer, tier string, seed uint64) {
	tailCalls(w, tier, seed)
	hostCalls(w, tier, seed)
}

// replayExtra re-runs a Go-side extra case named by a replay file (the common main replays
// generated programs and corpus entries only). Returns false if the file is not one of ours.
func replayExtra() bool {
	if len(os.Args) < 2 || os.Args[1] != "run" {
		return false
	}
	a := lib.ParseArgs()
	if a.Replay == "" {
		return false
	}
	b, err := os.ReadFile(a.Replay)
	if err != nil {
		return false
	}
	var rp struct {
		Input struct {
			API    string `json:"c02api"`
			Tail   string `json:"tail"`
			Config int    `json:"config"`
			Seed   uint64 `json:"seed"`
			Steps  int    `json:"steps"`
		} `json:"input"`
	}
	if json.Unmarshal(b, &rp) != nil || (rp.Input.API == "" && rp.Input.Tail == "") {
		return false
	}
	w, err := lib.NewWriter(a.Out, "C02", a.Tier, a.Seed, luaprop.VMHeader, "vcase", 20)
	if err != nil {
		panic(err)
	}
	w.HasSkip = true
	w.Meta.Rule = "replay of a Go-side extra case"
	if rp.Input.API != "" {
		hostCallsCase(w, rp.Input.Config, rp.Input.Seed, rp.Input.Steps)
	} else {
		tailCalls(w, a.Tier, a.Seed)
	}
	if err := w.Close(); err != nil {
		panic(err)
	}
	return true
}

func main() {
	if replayExtra() {
		return
	}
	f := luagen.CoreFeatures()
	f.Funcs, f.Varargs, f.MultiAssign, f.Closures, f.Goto, f.Errors, f.Tables = 14, 12, 5, 1, 0, 1, 4
	luaprop.Main(&luaprop.Config{
		Prop: "C02",
		Rule: "generated programs dominated by function definitions (0..3 parameters, varargs, methods) and calls with fewer/equal/more arguments in every result context " +
			"(statement, single, parenthesised, middle, last of argument list/return list/table constructor/multiple assignment), select/unpack/arg; traces compared with the reference evaluator; " +
			"non-trivial = at least 5 emitted rows or an error outcome; distinct by Gallina term",
		Modes: []luaprop.Mode{{Name: "calls", Features: f, Weight: 5}, {Name: "calls-bigk", Features: bigk(f), Weight: 1},
			{Name: "calls-history", Features: f, Weight: 1, Gen: luagen.W5C02Program}},
		NQuick:    400,
		NThorough: 2500,
		Corpus:    corpus,
		VM:        true,
		Extra:     extras,
	})
}

func bigk(f luagen.Features) luagen.Features { f.BigK = true; f.MaxStmts = 25; return f }

var corpus = []string{
	`local t = {5, 6}; local function f() local k, v = next(t); return k end; local a, b = f(); emit(a, b); local function g() local p, q, r = 1, 2, 3; return p, q end; local x, y, z = g(); emit(x, y, z)`,
	`local function f(a, b, ...) emit(a, b, select('#', ...), ...) return ..., a end; emit(f()); emit(f(1)); emit(f(1,2,3,4)); emit((f(1,2,3))); emit(f(1,2,3), 9); local t = {f(1,2,3,4)}; emit(#t)`,
	`local function g() return 1, 2, 3 end; local a, b, c, d = g(); emit(a, b, c, d); local x, y = g(), 10; emit(x, y); emit(({g(), g()})[4], #{g(), g()}); emit(#{(g())})`,
	`local function v(...) return select('#', ...), select(2, ...) end; emit(v()); emit(v(nil, nil)); emit(v(1, nil, 3)); emit(select(-1, 1, 2, 3)); emit(unpack({1, 2, 3}, 2)); emit(unpack({1, 2, 3}, 2, 3))`,
	`local o = {k = 5}; function o:m(a, ...) emit(self == o, self.k, a, ...) return self.k + (a or 0) end; emit(o:m()); emit(o:m(1, 2)); emit(o.m(o, 7))`,
	`local function noarg(...) emit(arg.n, arg[1], arg[2]) return arg.n end; emit(noarg()); emit(noarg(7, nil)); emit(noarg(nil, nil, nil))`,
	`local function loop(n, acc) if n == 0 then return acc end return loop(n - 1, acc + n) end; emit(loop(100, 0))`,
	// wave 5: a sequence popped by assignment then spread; an arg table modified by its owner, then later calls
	`local t = {1, 2, 3}; t[#t] = nil; emit(select('#', unpack(t)), unpack(t)); local function r() return unpack(t) end; emit(r()); t[#t] = nil; t[#t] = nil; emit(select('#', unpack(t)), select('#', r())); emit(#{unpack(t)}, pcall(math.max, 0, unpack(t))); t[#t + 1] = 7; emit(unpack(t))`,
	`local function d(...) emit(arg.n, arg[1]); arg[arg.n + 1] = "v"; arg.n = arg.n + 1; return arg.n end; local function q(...) return arg.n, arg[1] end; emit(d()); emit(q()); emit(d()); emit(pcall(q)); emit(d(5)); emit(q(6)); emit((function() return q() end)())`,
	`local mt = {__call = function(self, a, b) emit("called", a, b) return b, a end}; local c = setmetatable({}, mt); emit(c(1, 2)); local function tc() return c(3, 4) end; emit(tc())`,
}
