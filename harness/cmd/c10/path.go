package main

// Call paths: the activation that runs a script / makes a call is reached through a generated
// sequence of levels (Lua functions of fixed arity or vararg, Go host functions), each of which
// may first make some history (a caught error, a deep call chain that has returned), fill a run of
// high temporaries that are dead when the call is made, and enter the next level in one of several
// ways (plain call, pcall, open argument list, tail call from an inner closure, as an __index or
// __call handler, as the body of a coroutine.wrap coroutine, twice in a row with a longer argument
// list first, below a recursion that crosses call-frame-stack segment boundaries).
// What the callers left in the registry is not assumed: it is read raw through the hook by the leaf.

import (
	"fmt"
	"strings"

	lua "github.com/yuin/gopher-lua"
	"verifh/lib"
)

// Lvl is one caller level of a path.
type Lvl struct {
	Kind   string `json:"kind"`             // lua | go
	Locals int    `json:"locals,omitempty"` // tagged locals (lua) / pushed values (go) held across the call and checked afterwards
	Params int    `json:"params,omitempty"` // lua: named parameters
	Vararg bool   `json:"vararg,omitempty"` // lua: takes ...
	Hi     int    `json:"hi,omitempty"`     // lua: values put into temporaries above the locals just before the call (dead when the call is made)
	HiHow  string `json:"hihow,omitempty"`  // table | concat | block | loop | args | max
	Pre    string `json:"pre,omitempty"`    // history made before the call: err | deep | errnf
	How    string `json:"how,omitempty"`    // lua: call pcall unpack tail index callmeta wrap twice rec ; go: call callm call2 pcall cbp cbpp
	Rec    int    `json:"rec,omitempty"`    // how=rec: recursion depth above the call
}

func luaArgs(args []int) []string {
	as := make([]string, len(args))
	for i, v := range args {
		if v == 0 {
			as[i] = "nil"
		} else {
			as[i] = fmt.Sprint(v)
		}
	}
	return as
}

// entryCount: how many values the next level finds as its list when entered with n arguments.
func entryCount(how string, n int) int {
	switch how {
	case "index":
		return 2
	case "callmeta":
		return n + 1
	}
	return n
}

// luaLevel builds the Lua function of level k. Upvalues: callee (the next level), report, obj (a
// table whose __index and __call handlers are the next level).
func luaLevel(L *lua.LState, k int, lv Lvl, args []int, next *lua.LFunction, report *lua.LFunction) *lua.LFunction {
	var sb strings.Builder
	var conds []string
	ps := make([]string, 0, lv.Params+1)
	for i := 0; i < lv.Params; i++ {
		ps = append(ps, fmt.Sprintf("p%d", i))
	}
	if lv.Vararg {
		ps = append(ps, "...")
	}
	fmt.Fprintf(&sb, "local callee, report, obj = ...\nreturn function(%s)\n", strings.Join(ps, ", "))
	for i := 0; i < lv.Locals; i++ {
		fmt.Fprintf(&sb, "  local v%d = %d\n", i, 7000+100*k+i)
		conds = append(conds, fmt.Sprintf("v%d == %d", i, 7000+100*k+i))
	}
	if lv.Vararg {
		sb.WriteString("  local n = select('#', ...)\n")
		conds = append(conds, "n == select('#', ...)")
	}
	switch lv.Pre {
	case "err":
		sb.WriteString("  local pok, pmsg = pcall(function(x) local a, b, c, d, e, f = 1, 2, 3, 4, 5, 6; error({x}) end, 5)\n")
		conds = append(conds, "pok == false", "type(pmsg) == 'table'")
	case "errnf":
		sb.WriteString("  local pok = pcall(17, 1, 2, 3, 4, 5, 6, 7)\n")
		conds = append(conds, "pok == false")
	case "deep":
		sb.WriteString("  local function rec(n, a, b, c) local x, y, z = a + 1, b + 1, c + 1; if n == 0 then return a end return (rec(n - 1, a, y, z)) end\n  local pd = rec(5, 81, 82, 83)\n")
		conds = append(conds, "pd == 81")
	}
	if lv.Hi > 0 {
		hs := make([]string, lv.Hi)
		for i := range hs {
			hs[i] = fmt.Sprint(8000 + 100*k + i)
		}
		switch lv.HiHow {
		case "args":
			fmt.Fprintf(&sb, "  local hi = select('#', %s)\n", strings.Join(hs, ", "))
			conds = append(conds, fmt.Sprintf("hi == %d", lv.Hi))
		case "concat":
			fmt.Fprintf(&sb, "  local hi = %s\n", strings.Join(hs, " .. "))
			conds = append(conds, fmt.Sprintf("#hi == %d", 4*lv.Hi))
		case "block":
			bs := make([]string, lv.Hi)
			for i := range bs {
				bs[i] = fmt.Sprintf("b%d", i)
			}
			fmt.Fprintf(&sb, "  local hi\n  do local %s = %s; hi = b%d end\n", strings.Join(bs, ", "), strings.Join(hs, ", "), lv.Hi-1)
			conds = append(conds, fmt.Sprintf("hi == %d", 8000+100*k+lv.Hi-1))
		case "loop":
			bs := make([]string, lv.Hi)
			for i := range bs {
				bs[i] = fmt.Sprintf("b%d", i)
			}
			fmt.Fprintf(&sb, "  local hi = 0\n  for i = 1, 2 do local %s = %s; hi = hi + b0 end\n", strings.Join(bs, ", "), strings.Join(hs, ", "))
			conds = append(conds, fmt.Sprintf("hi == %d", 2*(8000+100*k)))
		case "max":
			fmt.Fprintf(&sb, "  local hi = math.max(%s)\n", strings.Join(hs, ", "))
			conds = append(conds, fmt.Sprintf("hi == %d", 8000+100*k+lv.Hi-1))
		default:
			fmt.Fprintf(&sb, "  local hi = {%s}\n", strings.Join(hs, ", "))
			conds = append(conds, fmt.Sprintf("#hi == %d", lv.Hi))
		}
	}
	as := strings.Join(luaArgs(args), ", ")
	switch lv.How {
	case "pcall":
		if as == "" {
			sb.WriteString("  local cok = pcall(callee)\n")
		} else {
			fmt.Fprintf(&sb, "  local cok = pcall(callee, %s)\n", as)
		}
		conds = append(conds, "cok == true")
	case "unpack":
		fmt.Fprintf(&sb, "  callee(unpack({%s}, 1, %d))\n", as, len(args))
	case "tail":
		fmt.Fprintf(&sb, "  local function tc(a, b) local w0, w1, w2 = a, b, 3; return callee(%s) end\n  tc(1, 2)\n", as)
	case "index":
		a1 := "nil"
		if len(args) > 0 {
			a1 = luaArgs(args)[0]
		}
		fmt.Fprintf(&sb, "  local iv = obj[%s]\n", a1)
	case "callmeta":
		fmt.Fprintf(&sb, "  obj(%s)\n", as)
	case "wrap":
		fmt.Fprintf(&sb, "  coroutine.wrap(callee)(%s)\n", as)
	case "twice":
		more := "1, 2, 3, 4, 5"
		if as != "" {
			more = as + ", " + more
		}
		fmt.Fprintf(&sb, "  callee(%s)\n  callee(%s)\n", more, as)
	case "rec":
		fmt.Fprintf(&sb, "  local function rc(n) if n == 0 then callee(%s) return 1 end local r = rc(n - 1) return r end\n  local rr = rc(%d)\n", as, lv.Rec)
		conds = append(conds, "rr == 1")
	default:
		fmt.Fprintf(&sb, "  callee(%s)\n", as)
	}
	if len(conds) == 0 {
		conds = []string{"true"}
	}
	fmt.Fprintf(&sb, "  report(%s)\nend\n", strings.Join(conds, " and "))
	f, e := L.LoadString(sb.String())
	if e != nil {
		panic(fmt.Sprint(e, "\n", sb.String()))
	}
	obj := L.NewTable()
	mt := L.NewTable()
	mt.RawSetString("__index", next)
	mt.RawSetString("__call", next)
	L.SetMetatable(obj, mt)
	L.Push(f)
	L.Push(next)
	L.Push(report)
	L.Push(obj)
	L.Call(3, 1)
	fn := L.Get(-1).(*lua.LFunction)
	L.Pop(1)
	return fn
}

// goLevel builds the host function of level k.
func goLevel(L *lua.LState, k int, lv Lvl, args []int, next *lua.LFunction, bad func()) *lua.LFunction {
	failing := L.NewFunction(func(L *lua.LState) int {
		L.Push(lua.LNumber(1))
		L.Push(lua.LNumber(2))
		L.RaiseError("pre failed")
		return 0
	})
	return L.NewFunction(func(L *lua.LState) int {
		for i := 0; i < lv.Locals; i++ {
			L.Push(lua.LNumber(5000 + 100*k + i))
		}
		before, cellsBefore := newCellEnc().dump(L)
		switch lv.Pre {
		case "err":
			if err := L.CallByParam(lua.P{Fn: failing, NRet: 2, Protect: true}, lua.LNumber(1), lua.LNumber(2), lua.LNumber(3)); err == nil {
				bad()
			}
		case "errnf":
			L.Push(lua.LNumber(17))
			L.Push(lua.LNumber(1))
			if err := L.PCall(1, lua.MultRet, nil); err == nil {
				bad()
			}
		case "deep":
			if err := L.DoString("local function rec(n, a) local x, y, z = 1, 2, 3; if n == 0 then return a end return (rec(n - 1, a)) end return rec(5, 81)"); err != nil {
				bad()
			}
			L.Pop(1)
		}
		if n, _ := newCellEnc().dump(L); n != before {
			bad()
		}
		want := 0
		switch lv.How {
		case "cbp", "cbpp":
			av := make([]lua.LValue, len(args))
			for i, v := range args {
				av[i] = valGo(v)
			}
			nret := 0
			if lv.How == "cbpp" {
				nret, want = 1, 1
			}
			if err := L.CallByParam(lua.P{Fn: next, NRet: nret, Protect: lv.How == "cbpp"}, av...); err != nil {
				bad()
			}
		default:
			L.Push(next)
			for _, v := range args {
				L.Push(valGo(v))
			}
			switch lv.How {
			case "callm":
				L.Call(len(args), lua.MultRet)
			case "call2":
				L.Call(len(args), 2)
				want = 2
			case "pcall":
				if err := L.PCall(len(args), 0, nil); err != nil {
					bad()
				}
			default:
				L.Call(len(args), 0)
			}
		}
		if L.GetTop() != before+want {
			bad()
		}
		for i := 0; i < want; i++ {
			if L.Get(before+1+i) != lua.LNil {
				bad()
			}
		}
		if L.GetTop() >= before {
			L.SetTop(before)
		}
		after, cellsAfter := newCellEnc().dump(L)
		if before != after || strings.Join(cellsBefore, ";") != strings.Join(cellsAfter, ";") {
			bad()
		}
		return 0
	})
}

// chainPath runs `leaf` as a host function reached through path (empty path = top level). The
// leaf may be entered more than once (how=twice).
func chainPath(L *lua.LState, path []Lvl, init []int, leaf func(L *lua.LState) int) (callersOK bool, err error) {
	return chainPathFill(L, path, 0, init, leaf)
}

// chainPathFill: the same with `fill` values held at top level below the whole path (brings the
// registry top close to its size, so that pushes and result copies deeper down make it grow).
func chainPathFill(L *lua.LState, path []Lvl, fill int, init []int, leaf func(L *lua.LState) int) (callersOK bool, err error) {
	callersOK = true
	if len(path) == 0 {
		return chain(L, 0, nil, init, leaf)
	}
	bad := func() { callersOK = false }
	report := L.NewFunction(func(L *lua.LState) int {
		if !L.ToBool(1) {
			callersOK = false
		}
		return 0
	})
	n := len(path)
	fns := make([]*lua.LFunction, n+1)
	fns[n] = L.NewFunction(leaf)
	argList := func(k int) []int { // arguments level k receives
		if k == n {
			return init
		}
		return []int{9000 + k, 0, 9100 + k}[:k%3+1]
	}
	for k := n - 1; k >= 0; k-- {
		if path[k].Kind == "go" {
			fns[k] = goLevel(L, k, path[k], argList(k+1), fns[k+1], bad)
		} else {
			fns[k] = luaLevel(L, k, path[k], argList(k+1), fns[k+1], report)
		}
	}
	L.SetTop(0)
	for i := 0; i < fill; i++ {
		L.Push(lua.LNumber(3000 + i))
	}
	a0 := argList(0)
	av := make([]lua.LValue, len(a0))
	for i, v := range a0 {
		av[i] = valGo(v)
	}
	err = L.CallByParam(lua.P{Fn: fns[0], NRet: 0, Protect: true}, av...)
	if L.GetTop() != fill {
		callersOK = false
	}
	for i := 0; i < fill && i < L.GetTop(); i++ {
		if L.Get(i+1) != lua.LNumber(3000+i) {
			callersOK = false
		}
	}
	L.SetTop(0)
	return
}

// genFill: how many values to hold at top level below a path.
func genFill(r *lib.Rand, reg RegOpt) int {
	switch {
	case reg.Max > 0 && r.Chance(65):
		return r.Range(75, 122) // a growing registry of 128: the top ends up near / at the size
	case reg.Max == 0 && reg.Size >= 256 && r.Chance(15):
		return r.Range(1, 60)
	}
	return 0
}

func genPath(r *lib.Rand, depth int) []Lvl {
	path := make([]Lvl, depth)
	for k := range path {
		lv := Lvl{Locals: r.Intn(4)}
		if r.Chance(68) {
			lv.Kind = "lua"
			lv.Params = r.Intn(3)
			lv.Vararg = r.Chance(30)
			if r.Chance(55) {
				lv.Hi = r.Range(3, 14)
				lv.HiHow = hiHows[r.Intn(len(hiHows))]
			}
			if r.Chance(25) {
				lv.Pre = []string{"err", "errnf", "deep"}[r.Intn(3)]
			}
			switch r.Pick(50, 8, 8, 8, 5, 6, 4, 6, 5) {
			case 1:
				lv.How = "pcall"
			case 2:
				lv.How = "unpack"
			case 3:
				lv.How = "tail"
			case 4:
				lv.How = "index"
			case 5:
				lv.How = "callmeta"
			case 6:
				lv.How = "wrap"
			case 7:
				lv.How = "twice"
			case 8:
				lv.How = "rec"
				lv.Rec = []int{1, 5, 6, 7, 8, 13, 14, 15, 16, 23}[r.Intn(10)]
			default:
				lv.How = "call"
			}
		} else {
			lv.Kind = "go"
			lv.How = []string{"call", "call", "callm", "call2", "pcall", "cbp", "cbpp"}[r.Intn(7)]
			if r.Chance(25) {
				lv.Pre = []string{"err", "errnf", "deep"}[r.Intn(3)]
			}
		}
		path[k] = lv
	}
	return path
}

var hiHows = []string{"table", "table", "concat", "concat", "block", "block", "loop", "args", "max"}

// stalePath: the shape that leaves dead temporaries of a Lua caller above a host function's list:
// a Lua function fills hi temporaries, calls (in a low register) a fixed-arity Lua function with a
// small frame, which calls the leaf.
func stalePath(outerLocals, hi int, hiHow string, innerLocals int) []Lvl {
	return []Lvl{
		{Kind: "lua", Locals: outerLocals, Hi: hi, HiHow: hiHow, How: "call"},
		{Kind: "lua", Locals: innerLocals, Params: 1, How: "call"},
	}
}

// wrappedCallee builds the callee kinds in which a Lua function stands between the call and a host
// function g (g leaves `junk` values, then its results, and returns the count of results):
//
//	luatail  return g(a, ...)                      tail call: all of g's results
//	luafix   local r0 .. r(p-1) = g(...)           OP_CALL with a fixed result count: g produces up to two values more
//	         return r0 .. r(p-1)                   or fewer than the p asked for (truncated / nil-padded)
//	luapre   return 7, g(...)                      an open result list after a fixed value
//	reenter  calls a host function that works on its own list, fills temporaries, returns constants
//
// It returns the function and the values the call must produce.
func wrappedCallee(L *lua.LState, kind string, junk, produced int, fails bool) (lua.LValue, []int) {
	load := func(src string, up lua.LValue) lua.LValue {
		f, err := L.LoadString(src)
		if err != nil {
			panic(fmt.Sprint(err, "\n", src))
		}
		L.Push(f)
		L.Push(up)
		L.Call(1, 1)
		fn := L.Get(-1)
		L.Pop(1)
		return fn
	}
	mk := func(vals []int) lua.LValue {
		return L.NewFunction(func(L *lua.LState) int {
			for i := 0; i < junk; i++ {
				L.Push(lua.LNumber(800 + i))
			}
			if fails {
				L.RaiseError("callee failed")
			}
			for _, v := range vals {
				L.Push(valGo(v))
			}
			return len(vals)
		})
	}
	results := producedN(produced)
	switch kind {
	case "luatail":
		return load("local g = ...\nreturn function(a, ...) local j0, j1 = 1, 2; return g(a, ...) end", mk(results)), results
	case "luafix":
		n := produced + junk%5 - 2 // what g produces: up to two fewer / more than asked for
		if n < 0 {
			n = 0
		}
		gres := producedN(n)
		want := make([]int, produced)
		copy(want, gres)
		rs := make([]string, produced)
		for i := range rs {
			rs[i] = fmt.Sprintf("r%d", i)
		}
		if produced == 0 {
			return load("local g = ...\nreturn function(...) local j0 = 1; g(...); local t = {1, 2, 3, 4, 5} end", mk(gres)), want
		}
		l := strings.Join(rs, ", ")
		return load("local g = ...\nreturn function(...) local j0 = 1; local "+l+" = g(...); local t = {1, 2, 3, 4, 5}; return "+l+" end", mk(gres)), want
	case "luapre":
		return load("local g = ...\nreturn function(...) local j0 = 1; return 7, g(...) end", mk(results)), append([]int{7}, results...)
	case "reenter":
		sub := L.NewFunction(func(L *lua.LState) int {
			L.SetTop(7)
			L.Insert(lua.LNumber(5), 2)
			L.Pop(3)
			L.Replace(1, lua.LNumber(31))
			return 2
		})
		body := "local sub = ...\nreturn function(...) local a, b = sub(1, 2, 3); local t = {1, 2, 3, 4, 5, 6, 7, 8, a, b}\n"
		if fails {
			body += "  error('callee failed')\n"
		}
		return load(body+"  return "+strings.Join(luaArgs(results), ", ")+"\nend", sub), results
	}
	panic("bad wrapped callee " + kind)
}

func isWrapped(kind string) bool {
	return kind == "luatail" || kind == "luafix" || kind == "luapre" || kind == "reenter"
}

// errHandler builds the error handler of a protected call: go | lua return "handled:" .. msg-type,
// failing raises itself. *calls counts the invocations.
func errHandler(L *lua.LState, kind string, calls *int) *lua.LFunction {
	switch kind {
	case "go":
		return L.NewFunction(func(L *lua.LState) int {
			*calls++
			if L.GetTop() != 1 {
				*calls += 100
			}
			L.Push(lua.LNumber(1)) // junk below the result
			L.Push(lua.LString("handled"))
			return 1
		})
	case "lua":
		count := L.NewFunction(func(L *lua.LState) int { *calls++; return 0 })
		f, err := L.LoadString("local count = ...\nreturn function(e, ...) count(); local a, b, c = 1, 2, 3; if select('#', ...) ~= 0 then count() end return 'handled', 'extra' end")
		if err != nil {
			panic(err)
		}
		L.Push(f)
		L.Push(count)
		L.Call(1, 1)
		fn := L.Get(-1).(*lua.LFunction)
		L.Pop(1)
		return fn
	case "failing":
		return L.NewFunction(func(L *lua.LState) int {
			*calls++
			L.Push(lua.LNumber(2))
			L.RaiseError("handler failed")
			return 0
		})
	}
	return nil
}

// handlerVerdict: what the handler must have seen / produced, "" when all is well.
func handlerVerdict(kind string, calls int, failed bool, err error) string {
	if kind == "" {
		return ""
	}
	if !failed {
		if calls != 0 {
			return "the error handler ran although the call succeeded"
		}
		return ""
	}
	if calls != 1 {
		return fmt.Sprintf("the error handler ran %d times (with one argument) for one error", calls)
	}
	if kind == "failing" {
		return ""
	}
	ae, ok := err.(*lua.ApiError)
	if !ok || ae.Object != lua.LString("handled") {
		return "the error returned is not the error handler's result"
	}
	return ""
}

// fitPath keeps the recursion levels of a path inside what a fixed registry can hold (a path that
// overflows the registry never reaches the leaf).
func fitPath(path []Lvl, reg RegOpt) {
	budget := 30
	if reg.Max == 0 && reg.Size <= 128 {
		budget = 6
	}
	for k := range path {
		if path[k].How != "rec" {
			continue
		}
		if path[k].Rec > budget {
			path[k].Rec = budget
		}
		budget -= path[k].Rec
		if budget < 1 {
			budget = 1
		}
	}
}

/* ---------- initCallFrame of a fixed-arity Lua function, through the hook ---------- */

// InitLuaIn: a registry holding Cells (0 = nil) with Stale dead values above the top; a Lua function with
// NP parameters and NRegs registers is handed NArgs arguments at LocalBase LB.
type InitLuaIn struct {
	Kind  string `json:"kind"` // "initlua"
	Cells []int  `json:"cells"`
	Stale int    `json:"stale"`
	LB    int    `json:"lb"`
	NArgs int    `json:"nargs"`
	NP    int    `json:"np"`
	NRegs int    `json:"nregs"`
	Reg   RegOpt `json:"reg"`
}

func runInitLua(w *lib.Writer, in InitLuaIn, class string) {
	o := lua.Options{RegistrySize: in.Reg.Size, RegistryMaxSize: in.Reg.Max, RegistryGrowStep: in.Reg.Grow, SkipOpenLibs: true}
	L := lua.NewState(o)
	defer L.Close()
	e := newCellEnc()
	for _, v := range in.Cells {
		L.Push(valGo(v))
	}
	// dead values above the top, left the way a calling Lua function leaves them (plain register writes
	// followed by a lowered top are not available from outside: initCallFrame itself is used for that)
	for i := 0; i < in.Stale; i++ {
		L.Push(lua.LNumber(990 + i))
	}
	if in.Stale > 0 {
		lua.VerifInitCallFrame(L, len(in.Cells), 0, 0, 0, false) // top := len(cells), nothing cleared
	}
	top := lua.VerifRegTop(L)
	cells := e.rawRange(L, 0, top)
	above := e.rawRange(L, top, top+aboveWindow)
	pad := lua.VerifRegCap(L) - top - len(above)
	for len(above) > 0 && above[len(above)-1] == "None" {
		above = above[:len(above)-1]
		pad++
	}
	fault := ""
	func() {
		defer func() {
			if r := recover(); r != nil {
				fault = fmt.Sprint(r)
			}
		}()
		lua.VerifInitCallFrame(L, in.LB, in.NArgs, in.NP, in.NRegs, false)
	}()
	ntop := lua.VerifRegTop(L)
	n := len(cells) + len(above)
	if ntop > n {
		n = ntop
	}
	after := e.rawRange(L, 0, n)
	id := w.Add(lib.Case{Input: in, Observed: map[string]any{"top": ntop, "arr": after}, Class: class,
		// non-trivial: dead values above the arguments survive above the new frame
		Nontrivial: in.Stale > 0 && fault == "",
		Coq:        fmt.Sprintf("CInitLua %s %s %d %s %s %s %s %d %s", lib.CoqList(cells), lib.CoqList(above), pad, z(in.LB), z(in.NArgs), z(in.NP), z(in.NRegs), ntop, lib.CoqList(after))})
	if fault != "" {
		if len(fault) > 150 {
			fault = fault[:150]
		}
		w.GoFail(id, "initCallFrame panicked: "+fault)
	}
}

func genInitLua(r *lib.Rand) InitLuaIn {
	in := InitLuaIn{Kind: "initlua", Reg: RegOpt{Size: 128}}
	n := r.Range(1, 14)
	for i := 0; i < n; i++ {
		v := 100 + i
		if r.Chance(10) {
			v = 0
		}
		in.Cells = append(in.Cells, v)
	}
	in.Stale = r.Pick(3, 0, 2, 2, 2, 2, 2, 2, 2)
	in.LB = r.Range(1, n)
	in.NArgs = r.Intn(n - in.LB + 1) // the arguments are live cells; what is above them belongs to the caller
	in.NP = r.Intn(5)
	in.NRegs = in.NP + r.Intn(8)
	if r.Chance(15) {
		// the frame ends exactly at / one off the old top or the end of the dead values
		in.NRegs = n + in.Stale - in.LB + r.Range(-1, 1)
		if in.NRegs < in.NP {
			in.NRegs = in.NP
		}
	}
	return in
}
