package main

// Object-level API calls against the same operator evaluated by a Lua chunk on the same operands
// in the same state; metamethods log their operands (by role) into the global LOG.

import (
	"fmt"
	"hash/fnv"
	"math"
	"strings"

	lua "github.com/yuin/gopher-lua"
	"verifh/lib"
)

// Operand describes a value by the Lua expression that builds it (evaluated in the setup chunk).
type Operand struct {
	Src string `json:"src"` // Lua expression; may use MT1, MT2, newud
}

// ObjIn is the replayable input of an object-op case.
type ObjIn struct {
	Kind string  `json:"kind"` // "obj"
	Op   string  `json:"op"`
	A    Operand `json:"a"`
	B    Operand `json:"b"`
	K    Operand `json:"k"`
	V    Operand `json:"v"`
	MT1  int     `json:"mt1"` // bit mask of metamethods present in MT1
	MT2  int     `json:"mt2"`
	Same bool    `json:"same_mm"` // MT2 shares MT1's metamethod functions (needed for __eq/__lt to apply)
	Name string  `json:"name"`    // field / global name for getfield, setfield, getglobal, setglobal
	// where the API call is made: by a host function reached through Path (empty: called from top level) that
	// holds Held values on its list; Rep = 2: the call is made twice in a row (so is the Lua statement)
	Path []Lvl `json:"path,omitempty"`
	Held int   `json:"held,omitempty"`
	Rep  int   `json:"rep,omitempty"`
}

var mmNames = []string{"__index", "__newindex", "__eq", "__lt", "__le", "__concat", "__len", "__tostring", "__metatable", "__call", "__index_t", "__newindex_t"}

// prelude defines LOG, role(), the metamethod functions and the two metatables.
func prelude(in ObjIn) string {
	var sb strings.Builder
	sb.WriteString(`
LOG = {}
A, B, K, V = nil, nil, nil, nil
local function role(v)
  if rawequal(v, A) and A ~= nil then return "A" end
  if rawequal(v, B) and B ~= nil then return "B" end
  local t = type(v)
  if t == "number" or t == "boolean" or t == "nil" then return t .. ":" .. tostring(v) end
  if t == "string" then return "s:" .. v end
  if rawequal(v, K) then return "K" end
  if rawequal(v, V) then return "V" end
  return "other:" .. t
end
local function log(ev, ...)
  local parts = { ev }
  for i = 1, select('#', ...) do parts[#parts + 1] = role((select(i, ...))) end
  LOG[#LOG + 1] = table.concat(parts, "|")
end
FALLBACK = { fb = "from-fallback", [1] = "fb1" }
SINK = {}
local mm = {
  __index = function(t, k) log("index", t, k) if k == "absent" then return nil end return "idx" end,
  __newindex = function(t, k, v) log("newindex", t, k, v) rawset(SINK, #SINK + 1, v) end,
  __eq = function(a, b) log("eq", a, b) return true end,
  __lt = function(a, b) log("lt", a, b) return 1 end,
  __le = function(a, b) log("le", a, b) return false end,
  __concat = function(a, b) log("concat", a, b) return "CAT" end,
  __len = function(a) log("len", a) return 42 end,
  __tostring = function(a) log("tostring", a) return "TOSTR" end,
  __call = function(self, x) log("call", self, x) return x end,
}
local function mkmt(mask, fns)
  local mt = {}
  if mask % 2 >= 1 then mt.__index = fns.__index end
  if mask % 4 >= 2 then mt.__newindex = fns.__newindex end
  if mask % 8 >= 4 then mt.__eq = fns.__eq end
  if mask % 16 >= 8 then mt.__lt = fns.__lt end
  if mask % 32 >= 16 then mt.__le = fns.__le end
  if mask % 64 >= 32 then mt.__concat = fns.__concat end
  if mask % 128 >= 64 then mt.__len = fns.__len end
  if mask % 256 >= 128 then mt.__tostring = fns.__tostring end
  if mask % 512 >= 256 then mt.__metatable = "locked" end
  if mask % 1024 >= 512 then mt.__call = fns.__call end
  if mask % 2048 >= 1024 then mt.__index = FALLBACK end
  if mask % 4096 >= 2048 then mt.__newindex = SINK end
  return mt
end
`)
	fmt.Fprintf(&sb, "MT1 = mkmt(%d, mm)\n", in.MT1)
	if in.Same {
		fmt.Fprintf(&sb, "MT2 = mkmt(%d, mm)\n", in.MT2)
	} else {
		sb.WriteString(`local mm2 = {}
for k, f in pairs(mm) do mm2[k] = function(...) return f(...) end end
`)
		fmt.Fprintf(&sb, "MT2 = mkmt(%d, mm2)\n", in.MT2)
	}
	return sb.String()
}

func operands(in ObjIn) string {
	return fmt.Sprintf("A = %s\nB = %s\nK = %s\nV = %s\nLOG = {}\nfor i = #SINK, 1, -1 do SINK[i] = nil end\nrawset(_G, 'GDEF', 'defined') rawset(_G, 'GNEW', nil) rawset(_G, 'GNEWRAW', nil)\n", in.A.Src, in.B.Src, in.K.Src, in.V.Src)
}

// the Lua expression / statement each API call corresponds to
var luaForms = map[string]string{
	"gettable":     "return A[K]",
	"getfield":     "return A.%s",
	"settable":     "A[K] = V",
	"setfield":     "A.%s = V",
	"getglobal":    "return %s",
	"setglobal":    "%s = V",
	"equal":        "return A == B",
	"rawequal":     "return rawequal(A, B)",
	"lessthan":     "return A < B",
	"concat":       "return A .. B",
	"concat3":      "return A .. B .. K",
	"concat0":      `return ""`, // lua_concat(L, 0): no operands give the empty string
	"objlen":       "return #A",
	"getmetatable": "return getmetatable(A)",
	"tostringmeta": "return tostring(A)",
	"next":         "return next(A, K)",
}

type objEnc struct {
	L *lua.LState
}

func (e objEnc) val(v lua.LValue) string {
	L := e.L
	if v == nil {
		return "GONIL"
	}
	switch x := v.(type) {
	case *lua.LNilType:
		return "nil"
	case lua.LBool:
		return fmt.Sprint(bool(x))
	case lua.LNumber:
		return fmt.Sprintf("n:%x", math.Float64bits(float64(x)))
	case lua.LString:
		return "s:" + noAddr(string(x))
	}
	for _, name := range []string{"A", "B", "K", "V", "MT1", "MT2", "FALLBACK", "SINK"} {
		if g := L.GetGlobal(name); g == v && g != lua.LNil {
			return "role:" + name
		}
	}
	if v == L.GetField(L.GetGlobal("string"), "len") {
		return "fn:string.len"
	}
	return "obj:" + v.Type().String()
}

func (e objEnc) logOf() []string {
	var out []string
	if t, ok := e.L.GetGlobal("LOG").(*lua.LTable); ok {
		for i := 1; i <= t.Len(); i++ {
			out = append(out, "log:"+t.RawGetInt(i).String())
		}
	}
	return out
}

// readback after a mutating operation: the raw contents of the touched places
func (e objEnc) readback(in ObjIn) []string {
	L := e.L
	var out []string
	a := L.GetGlobal("A")
	if t, ok := a.(*lua.LTable); ok {
		switch in.Op {
		case "settable":
			k := L.GetGlobal("K")
			if k != lua.LNil {
				if n, isn := k.(lua.LNumber); !isn || float64(n) == float64(n) {
					out = append(out, "raw:"+e.val(t.RawGet(k)))
				}
			}
		case "setfield":
			out = append(out, "raw:"+e.val(t.RawGetString(in.Name)))
		}
	}
	if in.Op == "setglobal" {
		g := L.Get(lua.GlobalsIndex).(*lua.LTable)
		out = append(out, "rawg:"+e.val(g.RawGetString(in.Name)))
		g.RawSetString(in.Name, lua.LNil)
	}
	if s, ok := L.GetGlobal("SINK").(*lua.LTable); ok {
		for i := 1; i <= s.Len(); i++ {
			out = append(out, "sink:"+e.val(s.RawGetInt(i)))
		}
	}
	return out
}

// noAddr removes object addresses from default tostring results (never compared).
func noAddr(s string) string {
	for _, p := range []string{"table: 0x", "userdata: 0x", "function: 0x", "thread: 0x"} {
		if strings.HasPrefix(s, p) {
			return p + "ADDR"
		}
	}
	return s
}

func hashZ(s string) int64 {
	h := fnv.New64a()
	h.Write([]byte(s))
	return int64(h.Sum64() >> 2)
}

func runObj(w *lib.Writer, in ObjIn, class string) {
	L := lua.NewState()
	defer L.Close()
	L.SetGlobal("newud", L.NewFunction(func(L *lua.LState) int {
		ud := L.NewUserData()
		ud.Value = 7
		if mt, ok := L.Get(1).(*lua.LTable); ok {
			L.SetMetatable(ud, mt)
		}
		L.Push(ud)
		return 1
	}))
	fail := ""
	do := func(src string) bool {
		if err := L.DoString(src); err != nil {
			s := err.Error()
			if len(s) > 200 {
				s = s[:200]
			}
			fail = "setup chunk failed: " + s
			return false
		}
		return true
	}
	if !do(prelude(in)) {
		w.GoFail(w.Add(lib.Case{Input: in, Class: class, Coq: "CObj 0 [] [1]"}), fail)
		return
	}
	e := objEnc{L}
	form := luaForms[in.Op]
	if strings.Contains(form, "%s") {
		form = fmt.Sprintf(form, in.Name)
	}
	// globals metatable: undefined globals go through logging metamethods (both sides)
	gsetup := `setmetatable(_G, { __index = function(t, k) if k == "GUNDEF" then LOG[#LOG + 1] = "gindex|" .. k return "gdefault" end return nil end,
	  __newindex = function(t, k, v) if k == "GNEW" or k == "GNEWRAW" then LOG[#LOG + 1] = "gnewindex|" .. k end rawset(t, k, v) end })
	GDEF = "defined"`
	if !do(gsetup) {
		w.GoFail(w.Add(lib.Case{Input: in, Class: class, Coq: "CObj 0 [] [1]"}), fail)
		return
	}

	// --- API side ---
	if !do(operands(in)) {
		w.GoFail(w.Add(lib.Case{Input: in, Class: class, Coq: "CObj 0 [] [1]"}), fail)
		return
	}
	var api []string
	top0 := L.GetTop()
	reps := 1
	if in.Rep > 1 {
		reps = in.Rep
	}
	heldOK := true
	host := func(L *lua.LState) int {
		for i := 0; i < in.Held; i++ {
			L.Push(lua.LNumber(4100 + i))
		}
		ltop := L.GetTop()
		_, lcells := newCellEnc().dump(L)
		A, B, K, V := L.GetGlobal("A"), L.GetGlobal("B"), L.GetGlobal("K"), L.GetGlobal("V")
		for rep := 0; rep < reps; rep++ {
			switch in.Op {
			case "gettable":
				api = append(api, "ret:"+e.val(L.GetTable(A, K)))
			case "getfield":
				api = append(api, "ret:"+e.val(L.GetField(A, in.Name)))
			case "settable":
				L.SetTable(A, K, V)
			case "setfield":
				L.SetField(A, in.Name, V)
			case "getglobal":
				api = append(api, "ret:"+e.val(L.GetGlobal(in.Name)))
			case "setglobal":
				L.SetGlobal(in.Name, V)
			case "equal":
				api = append(api, "ret:"+fmt.Sprint(L.Equal(A, B)))
			case "rawequal":
				api = append(api, "ret:"+fmt.Sprint(L.RawEqual(A, B)))
			case "lessthan":
				api = append(api, "ret:"+fmt.Sprint(L.LessThan(A, B)))
			case "concat":
				api = append(api, "ret:s:"+noAddr(L.Concat(A, B)))
			case "concat3":
				api = append(api, "ret:s:"+noAddr(L.Concat(A, B, K)))
			case "concat0":
				api = append(api, "ret:s:"+L.Concat())
			case "objlen":
				api = append(api, fmt.Sprintf("ret:n:%x", math.Float64bits(float64(L.ObjLen(A)))))
			case "getmetatable":
				api = append(api, "ret:"+e.val(L.GetMetatable(A)))
			case "tostringmeta":
				api = append(api, "ret:"+e.val(L.ToStringMeta(A)))
			case "next":
				k, v := L.Next(A.(*lua.LTable), K)
				if k == lua.LNil {
					api = append(api, "ret:nil")
				} else {
					api = append(api, "ret:"+e.val(k), "ret:"+e.val(v))
				}
			}
		}
		// the host function's own list is as before
		if _, c := newCellEnc().dump(L); L.GetTop() != ltop || strings.Join(c, ";") != strings.Join(lcells, ";") {
			heldOK = false
		}
		return 0
	}
	var err error
	callersOK := true
	if len(in.Path) > 0 {
		callersOK, err = chainPath(L, in.Path, nil, host)
	} else {
		err = L.CallByParam(lua.P{Protect: true, NRet: 0, Fn: L.NewFunction(host)})
	}
	if err != nil {
		api = []string{"error"}
	}
	stackOK := L.GetTop() == top0 && heldOK
	api = append(api, e.logOf()...)
	api = append(api, e.readback(in)...)

	// --- Lua side: the operator evaluated by a chunk; operands rebuilt identically after a mutating call ---
	mutating := in.Op == "settable" || in.Op == "setfield" || in.Op == "setglobal"
	if !mutating {
		do("LOG = {}")
	} else if !do(operands(in)) {
		w.GoFail(w.Add(lib.Case{Input: in, Class: class, Coq: "CObj 0 [] [1]"}), fail)
		return
	}
	var lu []string
	fn, lerr := L.LoadString(form)
	if lerr != nil {
		w.GoFail(w.Add(lib.Case{Input: in, Class: class, Coq: "CObj 0 [] [1]"}), "operator chunk does not load: "+form)
		return
	}
	for rep := 0; rep < reps; rep++ {
		L.SetTop(top0)
		L.Push(fn)
		if err := L.PCall(0, lua.MultRet, nil); err != nil {
			lu = []string{"error"}
			break
		}
		n := L.GetTop() - top0
		for i := 1; i <= n; i++ {
			v := L.Get(top0 + i)
			if in.Op == "concat" || in.Op == "concat3" || in.Op == "concat0" {
				// the API returns a Go string: numbers/strings are compared as text
				lu = append(lu, "ret:s:"+noAddr(lua.LVAsString(v)))
			} else if in.Op == "equal" || in.Op == "rawequal" || in.Op == "lessthan" {
				lu = append(lu, "ret:"+fmt.Sprint(lua.LVAsBool(v)))
			} else {
				lu = append(lu, "ret:"+e.val(v))
			}
		}
		if n == 0 && (in.Op == "gettable" || in.Op == "getfield" || in.Op == "getglobal") {
			lu = append(lu, "ret:nil")
		}
	}
	L.SetTop(top0)
	lu = append(lu, e.logOf()...)
	lu = append(lu, e.readback(in)...)

	toZ := func(ss []string) string {
		zs := make([]int64, len(ss))
		for i, s := range ss {
			zs[i] = hashZ(s)
		}
		return lib.CoqZList(zs)
	}
	hasLog := false
	for _, s := range api {
		if strings.HasPrefix(s, "log:") {
			hasLog = true
		}
	}
	opIdx := 0
	for i, k := range lib.SortedKeys(luaForms) {
		if k == in.Op {
			opIdx = i
		}
	}
	var kf []string
	coq := fmt.Sprintf("CObj %d %s %s", opIdx, toZ(api), toZ(lu))
	if in.Op == "objlen" && ((in.A.Src == "newud(MT1)" && in.MT1&64 == 0) || (in.A.Src == "newud(MT2)" && in.MT2&64 == 0)) {
		// C10-2: ObjLen of a userdata without __len returns 0 where Lua's # raises
		kf = []string{"C10-2"}
		class = "obj/objlen-ud-nolen"
		dev := make([]string, reps) // (the call is made reps times)
		for i := range dev {
			dev[i] = fmt.Sprintf("ret:n:%x", math.Float64bits(0))
		}
		coq = fmt.Sprintf("CObjDev %d %s %s %s", opIdx, toZ(api), toZ(lu), toZ(dev))
	}
	id := w.Add(lib.Case{Input: in, Observed: map[string]any{"api": api, "lua": lu}, Class: class, KF: kf,
		Nontrivial: hasLog, // a metamethod took part
		Coq:        coq})
	if !stackOK {
		w.GoFail(id, "the API call left values on the stack or disturbed the host function's list")
	}
	if !callersOK {
		w.GoFail(id, "a caller found its locals changed after the API call")
	}
}

/* ---------- generator ---------- */

var plainVals = []string{`"h\195\169llo"`, `"\240\159\152\128x"`, "nil", "true", "false", "0", "1", "2", "10", "-3", "2.5", `"abc"`, `"abd"`, `"10"`, `"2"`, `""`, `"x"`, `"absent"`}

func genOperand(r *lib.Rand, op string, which byte) Operand {
	tbl := func() string {
		body := []string{"{}", "{10, 20, 30}", `{10, 20, x = "xv", absent0 = 1}`, `{[1] = "one", [2] = "two", x = 1, y = 2}`}[r.Intn(4)]
		switch r.Pick(3, 4, 3) {
		case 0:
			return body
		case 1:
			return "setmetatable(" + body + ", MT1)"
		default:
			return "setmetatable(" + body + ", MT2)"
		}
	}
	ud := func() string {
		if r.Bool() {
			return "newud(MT1)"
		}
		return "newud(MT2)"
	}
	switch op {
	case "next":
		if which == 'A' {
			return Operand{[]string{"{}", "{10, 20, 30}", `{10, 20, x = "xv", y = "yv"}`, `{x = 1}`, `setmetatable({5, 6, z = 7}, MT1)`}[r.Intn(5)]}
		}
		if which == 'K' {
			// keys of the table, and keys that are not in it (Lua 5.1: "invalid key to 'next'"; whatever next() does, L.Next must do)
			return Operand{[]string{"nil", "1", "2", "3", `"x"`, `"y"`, `"z"`, `"zzz"`, "7", "2.5", "0", "true"}[r.Intn(12)]}
		}
	case "objlen":
		if which == 'A' {
			switch r.Pick(3, 5, 2) {
			case 0:
				return Operand{[]string{`""`, `"abc"`, `"a\0b"`, `"10"`, `"h\195\169llo"`, `"\240\159\152\128"`, `"\200\201"`, `"\226\130\172 5"`}[r.Intn(8)]}
			case 1:
				return Operand{tbl()}
			default:
				if r.Chance(60) {
					return Operand{"newud(MT1)"} // MT1 carries __len for this op (see genObj)
				}
				return Operand{"newud(MT2)"} // MT2 may lack __len: known finding C10-2
			}
		}
	}
	switch r.Pick(5, 5, 2) {
	case 0:
		return Operand{plainVals[r.Intn(len(plainVals))]}
	case 1:
		return Operand{tbl()}
	default:
		return Operand{ud()}
	}
}

func genObj(r *lib.Rand) ObjIn {
	ops := lib.SortedKeys(luaForms)
	in := ObjIn{Kind: "obj", Op: ops[r.Intn(len(ops))]}
	in.MT1 = r.Intn(1 << 12)
	in.MT2 = r.Intn(1 << 12)
	if r.Chance(30) {
		in.MT2 = in.MT1
	}
	in.Same = r.Chance(70)
	// make the metamethod the operator uses likely to be present
	want := map[string]int{"gettable": 1, "getfield": 1, "settable": 2, "setfield": 2, "equal": 4, "lessthan": 8, "concat": 32, "concat3": 32,
		"objlen": 64, "tostringmeta": 128, "getmetatable": 256}
	if b, ok := want[in.Op]; ok && r.Chance(70) {
		in.MT1 |= b
		if r.Chance(70) {
			in.MT2 |= b
		}
	}
	if in.Op == "objlen" {
		in.MT1 |= 64 // userdata operands of objlen carry __len (without it Lua's # raises and ObjLen returns 0: outside the statement)
	}
	in.A = genOperand(r, in.Op, 'A')
	in.B = genOperand(r, in.Op, 'B')
	in.K = genOperand(r, in.Op, 'K')
	in.V = genOperand(r, in.Op, 'V')
	switch in.Op {
	case "getfield", "setfield":
		in.Name = []string{"x", "y", "absent", "fb", "newname"}[r.Intn(5)]
	case "getglobal":
		in.Name = []string{"GDEF", "GUNDEF", "GNIL"}[r.Intn(3)]
	case "setglobal":
		in.Name = []string{"GDEF", "GNEW", "GNEWRAW"}[r.Intn(3)]
	case "equal", "rawequal", "lessthan":
		if r.Chance(25) {
			in.B = Operand{"A"} // the very same object
		}
	}
	if in.Op == "settable" || in.Op == "gettable" {
		if r.Chance(50) {
			in.K = Operand{[]string{"1", "2", "4", `"x"`, `"absent"`, `"fb"`, "true", "2.5"}[r.Intn(8)]}
		}
	}
	if r.Chance(40) {
		// made by a host function deeper in a call path that holds values of its own
		in.Path = genPath(r, r.Range(1, 3))
		for k := range in.Path {
			// the call may raise: no level catches the error, none enters the host function twice
			switch in.Path[k].How {
			case "pcall", "cbpp", "twice":
				in.Path[k].How = "call"
			}
		}
		fitPath(in.Path, RegOpt{Size: 256})
		in.Held = r.Intn(4)
	}
	if r.Chance(25) {
		in.Rep = 2
	}
	return in
}

/* ---------- the globals table after it has been replaced (setfenv(0, t) / Replace(GlobalsIndex, t)) ---------- */

// GenvIn: GetGlobal/SetGlobal must address the table a newly loaded chunk sees as its globals.
type GenvIn struct {
	Kind   string `json:"kind"`   // "genv"
	How    string `json:"how"`    // setfenv0 | replace | thread-setfenv0 | none
	V      string `json:"v"`      // Lua expression of the value stored
	Shadow bool   `json:"shadow"` // the new table redefines GDEF
}

func runGenv(w *lib.Writer, in GenvIn, class string) {
	L0 := lua.NewState()
	defer L0.Close()
	L := L0
	fail := ""
	do := func(L *lua.LState, src string) lua.LValue {
		top := L.GetTop()
		if err := L.DoString(src); err != nil {
			s := err.Error()
			if len(s) > 160 {
				s = s[:160]
			}
			fail = "chunk failed: " + s
			return lua.LNil
		}
		v := L.Get(top + 1)
		L.SetTop(top)
		return v
	}
	do(L, `GDEF = "old" GOLD = "only-old"`)
	shadow := ""
	if in.Shadow {
		shadow = `GDEF = "sandbox"`
	}
	switch in.How {
	case "setfenv0":
		do(L, `setfenv(0, setmetatable({`+shadow+`}, { __index = _G }))`)
	case "replace":
		tb := do(L, `return setmetatable({`+shadow+`}, { __index = _G })`)
		L.Replace(lua.GlobalsIndex, tb)
	case "thread-setfenv0":
		th, _ := L.NewThread()
		L = th
		do(L, `setfenv(0, setmetatable({`+shadow+`}, { __index = _G }))`)
	}
	e := objEnc{L}
	v := do(L, "return "+in.V)
	var api, lu []string
	// reads
	api = append(api, "get:"+e.val(L.GetGlobal("GDEF")), "get:"+e.val(L.GetGlobal("GOLD")), "get:"+e.val(L.GetGlobal("GNONE")))
	lu = append(lu, "get:"+e.val(do(L, "return GDEF")), "get:"+e.val(do(L, "return GOLD")), "get:"+e.val(do(L, "return GNONE")))
	// a write through the API is seen by a chunk, a write by a chunk is seen through the API
	L.SetGlobal("GAPI", v)
	api = append(api, "set:"+e.val(do(L, "return GAPI")))
	do(L, "GLUA = "+in.V)
	lu = append(lu, "set:"+e.val(L.GetGlobal("GLUA")))
	// the API's globals table is the chunk's: rawequal(getfenv(0), <Get(GlobalsIndex)>)
	L.SetGlobal("GTAB", L.Get(lua.GlobalsIndex))
	api = append(api, "same:"+e.val(do(L, "return rawequal(getfenv(0), GTAB)")))
	lu = append(lu, "same:true")
	toZ := func(ss []string) string {
		zs := make([]int64, len(ss))
		for i, s := range ss {
			zs[i] = hashZ(s)
		}
		return lib.CoqZList(zs)
	}
	id := w.Add(lib.Case{Input: in, Observed: map[string]any{"api": api, "lua": lu}, Class: class, Nontrivial: in.How != "none",
		Coq: fmt.Sprintf("CObj 98 %s %s", toZ(api), toZ(lu))})
	if fail != "" {
		w.GoFail(id, fail)
	}
}

func genGenv(r *lib.Rand) GenvIn {
	return GenvIn{Kind: "genv", How: []string{"setfenv0", "replace", "thread-setfenv0", "none"}[r.Intn(4)],
		V: []string{"5", `"str"`, "true", "{}", "2.5", "print"}[r.Intn(6)], Shadow: r.Chance(70)}
}
