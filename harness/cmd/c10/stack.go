package main

// Stack scripts and call contract: a host function (NewFunction) at activation depth 0..4
// (Lua->Go->Lua->Go chains) executes a generated script of stack operations, logging GetTop and
// every Get(i) after each operation; the callers' registry cells are read back afterwards (raw,
// through the hook) and every Lua caller checks its locals.

import (
	"fmt"
	"strings"

	lua "github.com/yuin/gopher-lua"
	"verifh/lib"
)

// AOp is one API stack operation.
type AOp struct {
	K string `json:"k"` // push pop get settop insert remove replace gettop | call
	I int    `json:"i,omitempty"`
	V int    `json:"v,omitempty"` // payload tag; 0 = LNil
	// k=call: a call made in the middle of the script (I = NRet, -1 = MultRet)
	C   string `json:"c,omitempty"`   // callee: go | lua | luav | luatail | reenter | nonfn
	Via string `json:"via,omitempty"` // cbp | cbpp | call | pcall
	N   int    `json:"n,omitempty"`   // arguments
	J   int    `json:"j,omitempty"`   // values the callee leaves below its results
	P   int    `json:"p,omitempty"`   // results produced
	F   bool   `json:"f,omitempty"`   // the callee fails (protected vias only)
	H   string `json:"h,omitempty"`   // error handler of a protected call: go | lua | failing
}

// RegOpt selects the registry configuration of the state.
type RegOpt struct {
	Size int  `json:"size"`
	Max  int  `json:"max"`
	Grow int  `json:"grow"`
	Min  bool `json:"min,omitempty"` // Options{CallStackSize: 64, MinimizeStackMemory: true}: the call-frame stack grows in segments of 8
}

// ApiIn is the replayable input of a script case.
type ApiIn struct {
	Kind   string `json:"kind"` // "api"
	Depth  int    `json:"depth"`
	Locals []int  `json:"locals"` // per level: how many locals / junk values the caller at that level holds
	Init   []int  `json:"init"`   // tags of the activation's initial list (0 = nil)
	Ops    []AOp  `json:"ops"`
	Reg    RegOpt `json:"reg"`
	Path   []Lvl  `json:"path,omitempty"` // when present: the callers (Depth = len(Path)); otherwise the alternating chain
	Fill   int    `json:"fill,omitempty"` // values held at top level below the path
}

func z(i int) string { return lib.CoqZ(int64(i)) }

func valCoq(v int) string {
	if v == 0 {
		return "VNil"
	}
	return "(VInt " + z(v) + ")"
}

func valGo(v int) lua.LValue {
	if v == 0 {
		return lua.LNil
	}
	return lua.LNumber(v)
}

func (o AOp) coq() string {
	switch o.K {
	case "push":
		return "APush " + valCoq(o.V)
	case "pop":
		return "APop " + z(o.I)
	case "get":
		return "AGet " + z(o.I)
	case "settop":
		return "ASetTop " + z(o.I)
	case "insert":
		return "AInsert " + valCoq(o.V) + " " + z(o.I)
	case "remove":
		return "ARemove " + z(o.I)
	case "replace":
		return "AReplace " + z(o.I) + " " + valCoq(o.V)
	case "gettop":
		return "AGetTop"
	}
	panic("bad aop " + o.K)
}

// cellEnc prints raw LValues as Gallina cells; non-number objects get ids by first appearance.
type cellEnc struct{ ids map[lua.LValue]int }

func newCellEnc() *cellEnc { return &cellEnc{ids: map[lua.LValue]int{}} }

func (e *cellEnc) cell(v lua.LValue) string {
	if v == nil {
		return "None"
	}
	switch x := v.(type) {
	case *lua.LNilType:
		return "(Some VNil)"
	case lua.LNumber:
		if float64(x) == float64(int64(x)) {
			return "(Some (VInt " + lib.CoqZ(int64(x)) + "))"
		}
	case lua.LString:
		if strings.Contains(string(x), "register underflow") {
			return "(Some VMsg)"
		}
	}
	id, ok := e.ids[v]
	if !ok {
		id = len(e.ids) + 1
		e.ids[v] = id
	}
	return "(Some (VRef " + z(id) + "))"
}

func (e *cellEnc) rawRange(L *lua.LState, from, to int) []string {
	var out []string
	for i := from; i < to; i++ {
		v, ok := lua.VerifRegCell(L, i)
		if !ok {
			break
		}
		out = append(out, e.cell(v))
	}
	return out
}

func (e *cellEnc) dump(L *lua.LState) (int, []string) {
	n := L.GetTop()
	if n < 0 {
		// a negative GetTop: the state is corrupt (the current frame's base is above the registry top)
		return n, []string{"(Some (VRef 666))"}
	}
	cells := make([]string, n)
	for i := 1; i <= n; i++ {
		cells[i-1] = e.cell(L.Get(i))
	}
	return n, cells
}

func newState(r RegOpt) *lua.LState {
	o := lua.Options{RegistrySize: r.Size, RegistryMaxSize: r.Max, RegistryGrowStep: r.Grow}
	if r.Min {
		o.CallStackSize, o.MinimizeStackMemory = 64, true
	}
	return lua.NewState(o)
}

// chain runs `leaf` inside an activation at the given depth: levels alternate Lua and Go functions
// and the last level is a Go host function (depth 0 = top level, no frame). Every Lua level holds
// locals[level] tagged locals and checks them after the call; every Go level pushes locals[level]
// tagged junk values before calling deeper and checks them afterwards. The leaf's activation starts
// with `init` as its list. callersOK reports all those checks. The returned error is what the
// outermost protected call returned.
func chain(L *lua.LState, depth int, locals []int, init []int, leaf func(L *lua.LState) int) (callersOK bool, err error) {
	callersOK = true
	report := L.NewFunction(func(L *lua.LState) int {
		if !L.ToBool(1) {
			callersOK = false
		}
		return 0
	})
	if depth == 0 {
		// top level: the list is the state's own stack
		L.SetTop(0)
		for _, v := range init {
			L.Push(valGo(v))
		}
		func() {
			defer func() {
				if r := recover(); r != nil {
					err = fmt.Errorf("panic at top level: %v", r)
				}
			}()
			leaf(L)
		}()
		L.SetTop(0)
		return
	}
	// level k in 1..depth; level depth is the leaf host; kinds alternate so that the leaf is Go
	isGo := func(k int) bool { return (depth-k)%2 == 0 }
	fns := make([]*lua.LFunction, depth+2)
	fns[depth] = L.NewFunction(leaf)
	argList := func(k int) []int { // arguments passed to level k by its caller
		if k == depth {
			return init
		}
		return []int{9000 + k, 0, 9100 + k}[:k%3+1]
	}
	for k := depth - 1; k >= 1; k-- {
		k := k
		next := fns[k+1]
		nl := locals[k%len(locals)]
		args := argList(k + 1)
		if isGo(k) {
			fns[k] = L.NewFunction(func(L *lua.LState) int {
				for i := 0; i < nl; i++ {
					L.Push(lua.LNumber(5000 + 100*k + i))
				}
				before, _ := newCellEnc().dump(L)
				_, cellsBefore := newCellEnc().dump(L)
				L.Push(next)
				for _, v := range args {
					L.Push(valGo(v))
				}
				L.Call(len(args), 0)
				after, cellsAfter := newCellEnc().dump(L)
				if before != after || strings.Join(cellsBefore, ";") != strings.Join(cellsAfter, ";") {
					callersOK = false
				}
				return 0
			})
		} else {
			var sb strings.Builder
			sb.WriteString("local callee, report = ...\nreturn function(...)\n")
			var conds []string
			for i := 0; i < nl; i++ {
				fmt.Fprintf(&sb, "  local v%d = %d\n", i, 7000+100*k+i)
				conds = append(conds, fmt.Sprintf("v%d == %d", i, 7000+100*k+i))
			}
			as := make([]string, len(args))
			for i, v := range args {
				if v == 0 {
					as[i] = "nil"
				} else {
					as[i] = fmt.Sprint(v)
				}
			}
			fmt.Fprintf(&sb, "  local n = select('#', ...)\n  callee(%s)\n", strings.Join(as, ", "))
			conds = append(conds, "n == select('#', ...)")
			fmt.Fprintf(&sb, "  report(%s)\nend\n", strings.Join(conds, " and "))
			f, e := L.LoadString(sb.String())
			if e != nil {
				panic(e)
			}
			L.Push(f)
			L.Push(next)
			L.Push(report)
			L.Call(2, 1)
			fns[k] = L.Get(-1).(*lua.LFunction)
			L.Pop(1)
		}
	}
	L.SetTop(0)
	a1 := argList(1)
	av := make([]lua.LValue, len(a1))
	for i, v := range a1 {
		av[i] = valGo(v)
	}
	err = L.CallByParam(lua.P{Fn: fns[1], NRet: 0, Protect: true}, av...)
	L.SetTop(0)
	return
}

// apiStep performs one operation; ret is the Gallina `option cell` it returned; raised reports a
// Lua error (RaiseError) from the operation.
func apiStep(L *lua.LState, e *cellEnc, o AOp) (ret string, raised bool, fault string) {
	ret = "None"
	defer func() {
		if r := recover(); r != nil {
			if ae, ok := r.(*lua.ApiError); ok && ae.Type == lua.ApiErrorRun {
				raised = true
				return
			}
			fault = fmt.Sprint(r)
			if len(fault) > 150 {
				fault = fault[:150]
			}
		}
	}()
	switch o.K {
	case "push":
		L.Push(valGo(o.V))
	case "pop":
		L.Pop(o.I)
	case "get":
		ret = "(Some " + e.cell(L.Get(o.I)) + ")"
	case "settop":
		L.SetTop(o.I)
	case "insert":
		L.Insert(valGo(o.V), o.I)
	case "remove":
		L.Remove(o.I)
	case "replace":
		L.Replace(o.I, valGo(o.V))
	case "gettop":
		ret = "(Some (Some (VInt " + z(L.GetTop()) + ")))"
	}
	return
}

const aboveWindow = 64

// apiSeg is one CApi case: a run of stack operations between two calls (or the whole script).
type apiSeg struct {
	pre, l0, above, preAfter, ops, obs []string
	pad                                int
	fault                              string
	holes, boundary, raisedAny         bool
}

// midCall is a call made in the middle of a script: one CCall case.
type midCall struct {
	op                AOp
	l0, after         []string
	results           []int
	fails, gotErr     bool
	fault, hverdict   string
	spBefore, spAfter int
	preSame           bool
}

func producedN(n int) []int {
	rs := make([]int, n)
	for i := range rs {
		if (i+n)%5 == 4 {
			rs[i] = 0
		} else {
			rs[i] = 600 + i
		}
	}
	return rs
}

// doMidCall performs the call operation o from the activation whose list starts at register base.
func doMidCall(L *lua.LState, e *cellEnc, o AOp, base int) *midCall {
	mc := &midCall{op: o, fails: o.F || o.C == "nonfn", results: producedN(o.P)}
	gfn := func(L *lua.LState) int {
		for i := 0; i < o.J; i++ {
			L.Push(lua.LNumber(800 + i))
		}
		if o.F {
			L.RaiseError("callee failed")
		}
		for _, v := range mc.results {
			L.Push(valGo(v))
		}
		return len(mc.results)
	}
	var fn lua.LValue
	switch {
	case o.C == "lua":
		fn = luaCallee(L, CallIn{Callee: "lua", NArgs: o.N, Junk: o.J, Produced: o.P, Fails: o.F})
	case o.C == "luav":
		fn = luaCallee(L, CallIn{Callee: "luavararg", NArgs: o.N, Junk: o.J, Produced: o.P, Fails: o.F})
	case isWrapped(o.C):
		fn, mc.results = wrappedCallee(L, o.C, o.J, o.P, o.F)
	case o.C == "nonfn":
		fn = lua.LNumber(1)
	default:
		fn = L.NewFunction(gfn)
	}
	hcalls := 0
	var handler *lua.LFunction
	if o.Via == "cbpp" || o.Via == "pcall" {
		handler = errHandler(L, o.H, &hcalls)
	}
	args := make([]lua.LValue, o.N)
	for i := range args {
		args[i] = lua.LNumber(300 + i)
	}
	preBefore := strings.Join(newCellEnc().rawRange(L, 0, base), ";")
	mc.l0 = e.rawRange(L, base, lua.VerifRegTop(L))
	mc.spBefore = lua.VerifSp(L)
	var err error
	func() {
		defer func() {
			if r := recover(); r != nil {
				mc.fault = fmt.Sprint(r)
				if len(mc.fault) > 150 {
					mc.fault = mc.fault[:150]
				}
			}
		}()
		switch o.Via {
		case "call", "pcall":
			L.Push(fn)
			for _, a := range args {
				L.Push(a)
			}
			if o.Via == "call" {
				L.Call(o.N, o.I)
			} else {
				err = L.PCall(o.N, o.I, handler)
			}
		default:
			err = L.CallByParam(lua.P{Fn: fn, NRet: o.I, Protect: o.Via == "cbpp", Handler: handler}, args...)
		}
	}()
	mc.gotErr = err != nil
	if handler != nil && mc.fault == "" {
		mc.hverdict = handlerVerdict(o.H, hcalls, mc.fails, err)
	}
	mc.spAfter = lua.VerifSp(L)
	if top := lua.VerifRegTop(L); top >= base {
		mc.after = e.rawRange(L, base, top)
	} else {
		mc.after = []string{"(Some (VRef 666))"}
	}
	mc.preSame = preBefore == strings.Join(newCellEnc().rawRange(L, 0, base), ";")
	return mc
}

func (in ApiIn) run(L *lua.LState, leaf func(L *lua.LState) int) (bool, error) {
	if len(in.Path) > 0 {
		return chainPathFill(L, in.Path, in.Fill, in.Init, leaf)
	}
	return chain(L, in.Depth, in.Locals, in.Init, leaf)
}

func runApi(w *lib.Writer, in ApiIn, class string) {
	L := newState(in.Reg)
	defer L.Close()
	e := newCellEnc()
	type item struct {
		seg  *apiSeg
		call *midCall
	}
	var items []item
	invocations := 0
	leaf := func(L *lua.LState) int {
		invocations++
		if invocations > 3 {
			return 0
		}
		base := lua.VerifLocalBase(L)
		open := func() *apiSeg {
			top := lua.VerifRegTop(L)
			s := &apiSeg{pre: e.rawRange(L, 0, base), l0: e.rawRange(L, base, top), above: e.rawRange(L, top, top+aboveWindow)}
			s.pad = lua.VerifRegCap(L) - top - len(s.above)
			// trailing Go-nil cells of the window are the same as capacity (mkR appends `fresh pad`)
			for len(s.above) > 0 && s.above[len(s.above)-1] == "None" {
				s.above = s.above[:len(s.above)-1]
				s.pad++
			}
			items = append(items, item{seg: s})
			return s
		}
		seg := open()
		for _, o := range in.Ops {
			if o.K == "call" {
				seg.preAfter = e.rawRange(L, 0, base)
				mc := doMidCall(L, e, o, base)
				items = append(items, item{call: mc})
				if mc.fault != "" {
					return 0
				}
				seg = open()
				continue
			}
			n := L.GetTop()
			if o.K != "push" && o.K != "gettop" && o.K != "pop" && (o.I == 0 || o.I == n+1 || o.I == -(n+1) || o.I > n+1 || o.I < -(n+1)) {
				seg.boundary = true
			}
			ret, raised, f := apiStep(L, e, o)
			seg.ops = append(seg.ops, o.coq())
			if f != "" {
				seg.fault = f
				seg.obs = append(seg.obs, "mkAobs StFault None 0 []")
				break
			}
			nt, cells := e.dump(L)
			st := "StOk"
			if raised {
				st = "StRaised"
				seg.raisedAny = true
			}
			for _, c := range cells {
				if c == "None" {
					seg.holes = true
				}
			}
			seg.obs = append(seg.obs, fmt.Sprintf("mkAobs %s %s %d %s", st, ret, nt, lib.CoqList(cells)))
			if raised {
				break
			}
		}
		seg.preAfter = e.rawRange(L, 0, base)
		return 0
	}
	ok, err := in.run(L, leaf)
	first := -1
	for i, it := range items {
		if s := it.seg; s != nil {
			if len(s.ops) == 0 && len(items) > 1 {
				continue // nothing happened between two calls
			}
			cl := class
			if i > 0 {
				cl += "/after-call"
			}
			for _, c := range s.above {
				if c != "None" && c != "(Some VNil)" {
					cl += "+stale-above" // values of callers / finished callees sit in the cells above the top
					break
				}
			}
			id := w.Add(lib.Case{
				Input: in, Observed: map[string]any{"obs": s.obs, "callers_ok": ok}, Class: cl,
				// non-trivial: a frame base above 0 and (a boundary / out-of-range index or a raise)
				Nontrivial: len(s.pre) > 0 && (s.boundary || s.raisedAny) && !s.holes,
				Coq: fmt.Sprintf("CApi %s %s %s %d %d %d %s %s %s %s", lib.CoqList(s.pre), lib.CoqList(s.l0), lib.CoqList(s.above), s.pad, in.Reg.growN(), in.Reg.maxN(),
					lib.CoqList(s.ops), lib.CoqList(s.obs), lib.CoqList(s.preAfter), lib.CoqBool(ok)),
			})
			if first < 0 {
				first = id
			}
			if s.fault != "" {
				w.GoFail(id, "stack operation panicked in Go: "+s.fault)
			}
			continue
		}
		mc := it.call
		id := w.Add(lib.Case{Input: in, Observed: map[string]any{"err": mc.gotErr, "after": mc.after, "sp": []int{mc.spBefore, mc.spAfter}}, Class: "api-call/" + mc.op.Via + "/" + mc.op.C,
			Nontrivial: mc.op.I != mc.op.P || mc.fails,
			Coq:        fmt.Sprintf("CCall %s %s %s %s %s %s", lib.CoqList(mc.l0), lib.CoqList(cellsOf(mc.results)), z(mc.op.I), lib.CoqBool(mc.fails), lib.CoqBool(mc.gotErr), lib.CoqList(mc.after))})
		if first < 0 {
			first = id
		}
		if mc.fault != "" {
			w.GoFail(id, "a call made from the script panicked in Go: "+mc.fault)
		} else {
			if !mc.preSame {
				w.GoFail(id, "the call disturbed registry cells of the callers")
			}
			if mc.hverdict != "" {
				w.GoFail(id, mc.hverdict)
			}
			if mc.spBefore != mc.spAfter {
				w.GoFail(id, fmt.Sprintf("call-stack depth %d before the call, %d after", mc.spBefore, mc.spAfter))
			}
		}
	}
	if first < 0 {
		// the leaf was never reached
		first = w.Add(lib.Case{Input: in, Observed: map[string]any{"reached": false}, Class: class, Coq: "CObj 96 [0] [1]"})
	}
	if err != nil {
		s := err.Error()
		if len(s) > 200 {
			s = s[:200]
		}
		w.GoFail(first, "the chain of calls around the script failed: "+s)
	}
}

// what NewState makes of the registry options (read back)
func (r RegOpt) norm() lua.Options {
	L := lua.NewState(lua.Options{RegistrySize: r.Size, RegistryMaxSize: r.Max, RegistryGrowStep: r.Grow, SkipOpenLibs: true})
	defer L.Close()
	return L.Options
}
func (r RegOpt) growN() int { return r.norm().RegistryGrowStep }
func (r RegOpt) maxN() int  { return r.norm().RegistryMaxSize }

func genRegOpt(r *lib.Rand) RegOpt {
	switch r.Pick(6, 2, 2) {
	case 0:
		return RegOpt{Size: 256}
	case 1:
		return RegOpt{Size: 128, Max: 2048, Grow: r.Range(1, 9)}
	default:
		return RegOpt{Size: 128}
	}
}

func genLocals(r *lib.Rand, reg RegOpt) []int {
	ls := make([]int, 5)
	for i := range ls {
		ls[i] = r.Intn(6)
	}
	if reg.Max > 0 && r.Chance(60) {
		// bring the top close to the registry size so that the script makes the registry grow
		ls[r.Intn(5)] = r.Range(60, 105)
	}
	return ls
}

func genApi(r *lib.Rand, depth int, usePath bool) ApiIn {
	reg := genRegOpt(r)
	if usePath && r.Chance(15) {
		reg = RegOpt{Size: 128, Max: 2048, Grow: r.Range(1, 9)}
	}
	in := ApiIn{Kind: "api", Depth: depth, Reg: reg, Locals: genLocals(r, reg)}
	n0 := r.Intn(5)
	if usePath && depth > 0 {
		in.Path = genPath(r, depth)
		in.Reg.Min = r.Chance(30)
		if r.Chance(25) && depth >= 2 {
			// the shape that leaves a Lua caller's dead temporaries above the host function's list
			sp := stalePath(r.Intn(3), r.Range(4, 14), hiHows[r.Intn(len(hiHows))], r.Intn(2))
			copy(in.Path[depth-2:], sp)
		}
		fitPath(in.Path, reg)
		in.Fill = genFill(r, reg)
	}
	tag := 1
	nv := func() int {
		tag++
		if r.Chance(12) {
			return 0
		}
		return tag
	}
	for i := 0; i < n0; i++ {
		in.Init = append(in.Init, nv())
	}
	top := n0 // shadow top (exact unless an operation raises, which ends the script)
	if len(in.Path) > 0 {
		top = entryCount(in.Path[len(in.Path)-1].How, n0)
	}
	// reads above the top: what the callers (or an earlier call) left there must not be visible
	probe := func() {
		for j, n := 0, r.Range(1, 3); j < n; j++ {
			in.Ops = append(in.Ops, AOp{K: "get", I: top + r.Range(1, 12)})
		}
	}
	if usePath && r.Chance(60) {
		probe()
	}
	ncalls := 0
	idx := func() int {
		switch r.Pick(40, 12, 10, 10, 8, 6, 6, 8) {
		case 0:
			if top == 0 {
				return 1
			}
			return r.Range(1, top)
		case 1:
			if top == 0 {
				return -1
			}
			return -r.Range(1, top)
		case 2:
			return 0
		case 3:
			return top + 1
		case 4:
			return -(top + 1)
		case 5:
			return top + r.Range(2, 3)
		case 6:
			return -(top + r.Range(2, 3))
		default:
			return []int{1000, -1000, 9999, -9999}[r.Intn(4)]
		}
	}
	nops := r.Range(3, 12)
	wcall := 0
	if usePath {
		wcall = 7
	}
	for len(in.Ops) < nops {
		switch r.Pick(22, 10, 14, 12, 14, 12, 10, 6, wcall) {
		case 8:
			if ncalls == 2 {
				continue
			}
			ncalls++
			o := AOp{K: "call", C: []string{"go", "go", "lua", "luav", "luatail", "luafix", "luapre", "reenter", "nonfn"}[r.Intn(9)], Via: []string{"cbp", "cbpp", "cbpp", "call", "pcall"}[r.Intn(5)],
				N: r.Intn(4), J: r.Intn(5), P: r.Intn(4), I: r.Range(-1, 4), F: r.Chance(35)}
			if o.C == "nonfn" {
				o.P, o.F = 0, false
			}
			if r.Chance(40) {
				o.H = []string{"go", "lua", "failing"}[r.Intn(3)] // (used by the protected vias)
			}
			if reg.Max > 0 && r.Chance(15) {
				// many results / a large NRet on a registry that has to grow while the results are put in place
				if r.Bool() {
					o.P = r.Range(15, 40)
				} else {
					o.I = r.Range(15, 50)
				}
			}
			if (o.F || o.C == "nonfn") && (o.Via == "cbp" || o.Via == "call") {
				o.Via = []string{"cbpp", "pcall"}[r.Intn(2)]
			}
			in.Ops = append(in.Ops, o)
			if !o.F && o.C != "nonfn" {
				if o.I >= 0 {
					top += o.I
				} else if o.C == "luapre" {
					top += o.P + 1
				} else {
					top += o.P
				}
			}
			if r.Chance(50) {
				probe()
			}
		case 0:
			in.Ops = append(in.Ops, AOp{K: "push", V: nv()})
			top++
		case 1:
			n := r.Pick(2, 6, 3, 1) // 0,1,2,3
			if r.Chance(8) {
				n = top + r.Range(1, 2) // underflow: raises after popping everything
			}
			if r.Chance(5) {
				n = -1
			}
			in.Ops = append(in.Ops, AOp{K: "pop", I: n})
			if n > top {
				return in
			}
			if n > 0 {
				top -= n
			}
		case 2:
			in.Ops = append(in.Ops, AOp{K: "get", I: idx()})
		case 3:
			i := idx()
			if i > top+8 {
				i = top + r.Range(0, 8)
			}
			in.Ops = append(in.Ops, AOp{K: "settop", I: i})
			if i >= 0 {
				top = i
			} else if top+i+1 >= 0 {
				top = top + i + 1
			} else {
				top = 0
			}
		case 4:
			i := idx()
			if i > top+1 {
				if r.Chance(70) {
					i = top + 1
				} else {
					i = top + r.Range(2, 4) // above the top: the gap is filled with nil
				}
			}
			in.Ops = append(in.Ops, AOp{K: "insert", I: i, V: nv()})
			if i > top+1 {
				top = i
			} else {
				top++
			}
		case 5:
			i := idx()
			in.Ops = append(in.Ops, AOp{K: "remove", I: i})
			if (i >= 1 && i <= top) || (i < 0 && -i <= top) {
				top--
			}
		case 6:
			in.Ops = append(in.Ops, AOp{K: "replace", I: idx(), V: nv()})
		case 7:
			in.Ops = append(in.Ops, AOp{K: "gettop"})
		}
	}
	return in
}

/* ---------- call contract ---------- */

// CallIn is the replayable input of a call-contract case.
type CallIn struct {
	Kind     string `json:"kind"`   // "call"
	Via      string `json:"via"`    // callbyparam | call | pcall | gpcall
	Callee   string `json:"callee"` // go | lua | luavararg | nonfunction | callable-table | callable-userdata
	Depth    int    `json:"depth"`
	Locals   []int  `json:"locals"`
	Init     []int  `json:"init"`
	NArgs    int    `json:"nargs"`
	Junk     int    `json:"junk"` // values the callee leaves below its results
	Produced int    `json:"produced"`
	NRet     int    `json:"nret"` // -1 = MultRet
	Protect  bool   `json:"protect"`
	Fails    bool   `json:"fails"`
	Reg      RegOpt `json:"reg"`
	Path     []Lvl  `json:"path,omitempty"`    // when present: the callers (Depth = len(Path)); otherwise the alternating chain
	Handler  string `json:"handler,omitempty"` // error handler given to PCall / CallByParam{Protect}: go | lua | failing
	Fill     int    `json:"fill,omitempty"`    // values held at top level below the path
}

func luaCallee(L *lua.LState, in CallIn) *lua.LFunction {
	var sb strings.Builder
	params := "..."
	if in.Callee == "lua" {
		ps := make([]string, in.NArgs/2)
		for i := range ps {
			ps[i] = fmt.Sprintf("p%d", i)
		}
		ps = append(ps, "...")
		params = strings.Join(ps, ", ")
	}
	fmt.Fprintf(&sb, "return function(%s)\n", params)
	for i := 0; i < in.Junk; i++ {
		fmt.Fprintf(&sb, "  local j%d = %d\n", i, 800+i)
	}
	if in.Fails {
		sb.WriteString("  error('callee failed')\n")
	}
	rs := make([]string, in.Produced)
	for i := range rs {
		if (i+in.Produced)%5 == 4 {
			rs[i] = "nil"
		} else {
			rs[i] = fmt.Sprint(600 + i)
		}
	}
	fmt.Fprintf(&sb, "  return %s\nend\n", strings.Join(rs, ", "))
	f, e := L.LoadString(sb.String())
	if e != nil {
		panic(e)
	}
	L.Push(f)
	L.Call(0, 1)
	fn := L.Get(-1).(*lua.LFunction)
	L.Pop(1)
	return fn
}

func producedVals(in CallIn) []int {
	rs := make([]int, in.Produced)
	for i := range rs {
		if (i+in.Produced)%5 == 4 {
			rs[i] = 0
		} else {
			rs[i] = 600 + i
		}
	}
	return rs
}

func runCall(w *lib.Writer, in CallIn, class string) {
	L := newState(in.Reg)
	defer L.Close()
	e := newCellEnc()
	results := producedVals(in)
	var fn lua.LValue
	var callLog []string // what a __call handler saw
	gfn := func(L *lua.LState) int {
		for i := 0; i < in.Junk; i++ {
			L.Push(lua.LNumber(800 + i))
		}
		if in.Fails {
			L.RaiseError("callee failed")
		}
		for _, v := range results {
			L.Push(valGo(v))
		}
		return len(results)
	}
	switch in.Callee {
	case "go":
		fn = L.NewFunction(gfn)
	case "lua", "luavararg":
		fn = luaCallee(L, in)
	case "luatail", "luafix", "luapre", "reenter":
		fn, results = wrappedCallee(L, in.Callee, in.Junk, in.Produced, in.Fails)
	case "nonfunction":
		fn = lua.LNumber(1)
	case "callable-table", "callable-userdata":
		// the __call handler observes what it is given: its first argument must be the called
		// object itself, the others the call's arguments
		var obj lua.LValue
		mt := L.NewTable()
		mt.RawSetString("__call", L.NewFunction(func(L *lua.LState) int {
			self := L.Get(1)
			switch {
			case self == obj:
				callLog = append(callLog, "self:object")
			default:
				callLog = append(callLog, "self:other:"+self.Type().String())
			}
			callLog = append(callLog, fmt.Sprintf("nargs:%d", L.GetTop()-1))
			for i := 2; i <= L.GetTop(); i++ {
				callLog = append(callLog, "arg:"+L.Get(i).String())
			}
			L.Remove(1) // self
			return gfn(L)
		}))
		if in.Callee == "callable-table" {
			t := L.NewTable()
			L.SetMetatable(t, mt)
			obj = t
		} else {
			ud := L.NewUserData()
			ud.Value = 1
			L.SetMetatable(ud, mt)
			obj = ud
		}
		fn = obj
	}
	args := make([]lua.LValue, in.NArgs)
	argCells := make([]string, in.NArgs)
	for i := range args {
		args[i] = lua.LNumber(300 + i)
		argCells[i] = fmt.Sprintf("(Some (VInt %d))", 300+i)
	}
	var pre, l0, preAfter, after []string
	var gotErr, observed bool
	var spBefore, spAfter int
	hcalls, hverdict := 0, ""
	leaf := func(L *lua.LState) int {
		callLog = nil // (a path may enter the leaf twice: the last activation is the one reported)
		hcalls = 0
		handler := errHandler(L, in.Handler, &hcalls)
		base := lua.VerifLocalBase(L)
		pre = e.rawRange(L, 0, base)
		l0 = e.rawRange(L, base, lua.VerifRegTop(L))
		spBefore = lua.VerifSp(L)
		var err error
		switch in.Via {
		case "callbyparam":
			err = L.CallByParam(lua.P{Fn: fn, NRet: in.NRet, Protect: in.Protect, Handler: handler}, args...)
		case "call", "pcall":
			L.Push(fn)
			for _, a := range args {
				L.Push(a)
			}
			if in.Via == "call" {
				L.Call(in.NArgs, in.NRet)
			} else {
				err = L.PCall(in.NArgs, in.NRet, handler)
			}
		case "gpcall":
			// GPCall(fn, data): one argument, MultRet
			err = L.GPCall(func(L *lua.LState) int { L.Remove(1); return gfn(L) }, lua.LNumber(300))
		}
		gotErr = err != nil
		if (in.Via == "callbyparam" && in.Protect) || in.Via == "pcall" {
			hverdict = handlerVerdict(in.Handler, hcalls, in.Fails || in.Callee == "nonfunction", err)
		}
		spAfter = lua.VerifSp(L)
		_, after = e.dump(L)
		preAfter = e.rawRange(L, 0, base)
		observed = true
		return 0
	}
	var ok bool
	var cerr error
	if len(in.Path) > 0 {
		ok, cerr = chainPathFill(L, in.Path, in.Fill, in.Init, leaf)
	} else {
		ok, cerr = chain(L, in.Depth, in.Locals, in.Init, leaf)
	}
	fails := in.Fails || in.Callee == "nonfunction"
	protected := in.Protect || in.Via == "pcall" || in.Via == "gpcall"
	if in.Via == "call" {
		protected = false
	}
	var coq string
	nt := in.Depth > 0 && (in.NRet != in.Produced || fails)
	switch {
	case !observed:
		// an unprotected failing call: the error leaves the activation, the list is not observable;
		// what must hold is that the error reached the outermost protected call
		after = l0
		gotErr = cerr != nil
		cerr = nil
		coq = fmt.Sprintf("CCall %s %s %s %s %s %s", lib.CoqList(l0), lib.CoqList(cellsOf(results)), z(in.NRet), lib.CoqBool(fails), lib.CoqBool(gotErr), lib.CoqList(after))
	case in.Callee == "go" && in.Via == "callbyparam" && in.Protect:
		junk := make([]string, in.Junk)
		for i := range junk {
			junk[i] = fmt.Sprintf("(Some (VInt %d))", 800+i)
		}
		coq = fmt.Sprintf("CCallG %s %s %s %s %s %s %s %s %s %s", lib.CoqList(pre), lib.CoqList(l0), lib.CoqList(argCells), lib.CoqList(junk),
			lib.CoqList(cellsOf(results)), z(in.NRet), lib.CoqBool(in.Fails), lib.CoqBool(gotErr), lib.CoqList(after), lib.CoqList(preAfter))
	default:
		coq = fmt.Sprintf("CCall %s %s %s %s %s %s", lib.CoqList(l0), lib.CoqList(cellsOf(results)), z(in.NRet), lib.CoqBool(fails), lib.CoqBool(gotErr), lib.CoqList(after))
	}
	id := w.Add(lib.Case{Input: in, Observed: map[string]any{"err": gotErr, "after": after, "callers_ok": ok, "sp": []int{spBefore, spAfter}}, Class: class, Nontrivial: nt, Coq: coq})
	if observed && strings.Join(pre, ";") != strings.Join(preAfter, ";") {
		w.GoFail(id, "the call disturbed registry cells of the callers")
	}
	if strings.HasPrefix(in.Callee, "callable-") && in.Via != "gpcall" {
		// the same call written as the Lua expression OBJ(a, b, ...): the handler must see the same
		apiLog := callLog
		callLog = nil
		L.SetGlobal("OBJ", fn)
		as := make([]string, in.NArgs)
		for i := range as {
			as[i] = fmt.Sprint(300 + i)
		}
		luaErr := L.DoString("return OBJ("+strings.Join(as, ", ")+")") != nil
		L.SetTop(0)
		luaLog := callLog
		if luaErr {
			luaLog = append(luaLog, "error")
		}
		if gotErr {
			apiLog = append(apiLog, "error")
		}
		toZ := func(ss []string) string {
			zs := make([]int64, len(ss))
			for i, x := range ss {
				zs[i] = hashZ(x)
			}
			return lib.CoqZList(zs)
		}
		w.Add(lib.Case{Input: in, Observed: map[string]any{"api": apiLog, "lua": luaLog}, Class: "callmeta/" + in.Via + "/" + in.Callee,
			Nontrivial: in.NArgs > 0, Coq: fmt.Sprintf("CObj 99 %s %s", toZ(apiLog), toZ(luaLog))})
	}
	if !ok {
		w.GoFail(id, "a caller found its locals changed after the call")
	}
	if hverdict != "" {
		w.GoFail(id, hverdict)
	}
	if observed && spBefore != spAfter {
		w.GoFail(id, fmt.Sprintf("call-stack depth %d before the call, %d after", spBefore, spAfter))
	}
	if cerr != nil && (protected || !fails) {
		s := cerr.Error()
		if len(s) > 200 {
			s = s[:200]
		}
		w.GoFail(id, "the chain of calls around the call failed: "+s)
	}
}

func cellsOf(vs []int) []string {
	out := make([]string, len(vs))
	for i, v := range vs {
		out[i] = "(Some " + valCoq(v) + ")"
	}
	return out
}

func genCall(r *lib.Rand, depth int, usePath bool) CallIn {
	reg := genRegOpt(r)
	if usePath && r.Chance(25) {
		reg = RegOpt{Size: 128, Max: 2048, Grow: r.Range(1, 9)}
	}
	in := CallIn{Kind: "call", Depth: depth, Reg: reg, Locals: genLocals(r, reg)}
	if usePath && depth > 0 {
		in.Path = genPath(r, depth)
		in.Reg.Min = r.Chance(30)
		if r.Chance(25) && depth >= 2 {
			sp := stalePath(r.Intn(3), r.Range(4, 14), hiHows[r.Intn(len(hiHows))], r.Intn(2))
			copy(in.Path[depth-2:], sp)
		}
		fitPath(in.Path, reg)
		in.Fill = genFill(r, reg)
	}
	in.Via = []string{"callbyparam", "callbyparam", "callbyparam", "call", "pcall", "gpcall"}[r.Intn(6)]
	in.Callee = []string{"go", "go", "lua", "lua", "luavararg", "nonfunction", "callable-table", "callable-table", "callable-userdata"}[r.Intn(9)]
	if usePath && r.Chance(35) {
		in.Callee = []string{"luatail", "luafix", "luapre", "reenter"}[r.Intn(4)]
	}
	in.NArgs = r.Intn(5)
	in.Junk = r.Intn(5)
	in.Produced = r.Intn(5)
	in.NRet = r.Range(-1, 5)
	in.Protect = r.Chance(70)
	in.Fails = r.Chance(20)
	if usePath && r.Chance(40) {
		in.Handler = []string{"go", "lua", "failing"}[r.Intn(3)]
	}
	{
		if reg.Max > 0 && r.Chance(20) {
			// many results / a large NRet on a registry that has to grow while the results are put in place
			if r.Bool() {
				in.Produced = r.Range(15, 40)
			} else {
				in.NRet = r.Range(15, 50)
			}
		}
	}
	if in.Via == "gpcall" {
		in.Callee, in.NArgs, in.NRet, in.Protect = "go", 1, -1, true
	}
	if in.Callee == "nonfunction" {
		in.Produced = 0
	}
	for i, n := 0, r.Intn(4); i < n; i++ {
		in.Init = append(in.Init, 40+i)
	}
	if (in.Fails || in.Callee == "nonfunction") && (in.Via == "call" || (in.Via == "callbyparam" && !in.Protect)) {
		// an unprotected failing call: the error must reach the outermost protected call, so no level of the
		// path may catch it
		for k := range in.Path {
			if h := in.Path[k].How; h == "pcall" || h == "cbpp" {
				in.Path[k].How = "call"
			}
		}
	}
	return in
}

// runC101 is the witness of DESIGN 9.1 C10-1 (= C12-2): Options{CallStackSize:64,
// MinimizeStackMemory:true}; a host function reached at call depth 8 and 16 does
// CallByParam(P{Fn: LNumber(1), Protect: true}); the error must be caught with the state intact.
func runC101(w *lib.Writer) {
	for _, depth := range []int{6, 14, 22, 5, 7} {
		L := lua.NewState(lua.Options{CallStackSize: 64, MinimizeStackMemory: true})
		var gotErr bool
		var after []string
		var sp0, sp1 int
		L.SetGlobal("host", L.NewFunction(func(L *lua.LState) int {
			sp0 = lua.VerifSp(L)
			L.Push(lua.LNumber(41))
			err := L.CallByParam(lua.P{Fn: lua.LNumber(1), Protect: true})
			gotErr = err != nil
			sp1 = lua.VerifSp(L)
			_, after = newCellEnc().dump(L)
			L.Push(lua.LString("caught"))
			return 1
		}))
		fail := ""
		func() {
			defer func() {
				if r := recover(); r != nil {
					fail = fmt.Sprint(r)
				}
			}()
			err := L.DoString(fmt.Sprintf("local function rec(n) if n == 0 then return host() end local r = rec(n-1) return r end\nreturn rec(%d)", depth))
			if err != nil {
				fail = err.Error()
			} else if L.Get(-1) != lua.LString("caught") {
				fail = "the enclosing call returned " + L.Get(-1).String()
			}
		}()
		L.Close()
		if len(fail) > 200 {
			fail = fail[:200]
		}
		l0 := []string{"(Some (VInt 41))"}
		id := w.Add(lib.Case{Input: map[string]any{"kind": "c10-1", "depth": depth}, Observed: map[string]any{"err": gotErr, "sp": []int{sp0, sp1}, "fail": fail},
			Class: "corpus/C10-1", Nontrivial: sp0%8 == 0,
			Coq: fmt.Sprintf("CCall %s [] 0 true %s %s", lib.CoqList(l0), lib.CoqBool(gotErr), lib.CoqList(after))})
		if fail != "" {
			w.GoFail(id, "failed protected call at call depth "+fmt.Sprint(sp0)+": "+fail)
		}
		if sp0 != sp1 {
			w.GoFail(id, fmt.Sprintf("call-stack depth %d before the failed protected call, %d after", sp0, sp1))
		}
	}
}

/* ---------- copyReturnValues (OP_RETURN's window arithmetic) through the hook ---------- */

type CopyRetIn struct {
	Kind  string `json:"kind"` // "copyret"
	Cells []int  `json:"cells"`
	Regv  int    `json:"regv"`
	Start int    `json:"start"`
	N     int    `json:"n"`
	B     int    `json:"b"`
}

func runCopyRet(w *lib.Writer, in CopyRetIn, class string) {
	L := lua.NewState(lua.Options{RegistrySize: 256, SkipOpenLibs: true})
	defer L.Close()
	e := newCellEnc()
	for _, v := range in.Cells {
		L.Push(valGo(v))
	}
	// make the cells above the top stale
	for i := 0; i < 6; i++ {
		L.Push(lua.LNumber(990 + i))
	}
	L.SetTop(len(in.Cells) + 3)
	L.Pop(3)
	top := lua.VerifRegTop(L)
	cells := e.rawRange(L, 0, top)
	above := e.rawRange(L, top, top+aboveWindow)
	pad := lua.VerifRegCap(L) - top - len(above)
	fault := ""
	func() {
		defer func() {
			if r := recover(); r != nil {
				fault = fmt.Sprint(r)
			}
		}()
		lua.VerifCopyReturnValues(L, in.Regv, in.Start, in.N, in.B)
	}()
	ntop := lua.VerifRegTop(L)
	after := e.rawRange(L, 0, ntop)
	id := w.Add(lib.Case{Input: in, Observed: map[string]any{"top": ntop, "cells": after}, Class: class,
		Nontrivial: in.N != in.B-1 && in.Regv < in.Start,
		Coq:        fmt.Sprintf("CCopyRet %s %s %d %s %s %s %s %d %s", lib.CoqList(cells), lib.CoqList(above), pad, z(in.Regv), z(in.Start), z(in.N), z(in.B), ntop, lib.CoqList(after))})
	if fault != "" {
		if len(fault) > 150 {
			fault = fault[:150]
		}
		w.GoFail(id, "copyReturnValues panicked: "+fault)
	}
}

func genCopyRet(r *lib.Rand) CopyRetIn {
	n := r.Range(0, 12)
	in := CopyRetIn{Kind: "copyret"}
	for i := 0; i < n; i++ {
		v := 100 + i
		if r.Chance(10) {
			v = 0
		}
		in.Cells = append(in.Cells, v)
	}
	in.Regv = r.Intn(n + 1)
	in.Start = in.Regv + r.Intn(n-in.Regv+1)
	in.N = r.Intn(8)
	in.B = r.Pick(3, 2, 2, 2, 1, 1)
	if in.B > 1 && in.Start+in.B-1 > n {
		in.B = n - in.Start + 1
	}
	if r.Chance(5) && in.Start > 0 {
		in.Regv = in.Start + r.Range(1, 2) // towards higher registers: outside the return contract, exact in the impl model
	}
	return in
}

/* ---------- calls made on a coroutine.create thread that nobody has resumed yet (hunt2 C10 obs-1) ---------- */

type ThreadCallIn struct {
	Kind    string `json:"kind"` // "threadcall"
	Via     string `json:"via"`  // callbyparam | call | pcall
	LuaFn   bool   `json:"luafn"`
	NRet    int    `json:"nret"`
	Protect bool   `json:"protect"`
	Fails   bool   `json:"fails"`
}

func runThreadCall(w *lib.Writer, in ThreadCallIn, class string) {
	L := lua.NewState()
	defer L.Close()
	e := newCellEnc()
	if err := L.DoString(`co = coroutine.create(function(...) return select('#', ...), ... end)
	function helper(x) if FAIL then error("helper failed") end return x + 1, x + 2 end`); err != nil {
		panic(err)
	}
	if in.Fails {
		L.SetGlobal("FAIL", lua.LTrue)
	}
	th := L.GetGlobal("co").(*lua.LState)
	var fn lua.LValue = L.GetGlobal("helper")
	if !in.LuaFn {
		fn = L.NewFunction(func(L *lua.LState) int {
			if in.Fails {
				L.RaiseError("helper failed")
			}
			x := L.ToInt(1)
			L.Push(lua.LNumber(x + 1))
			L.Push(lua.LNumber(x + 2))
			return 2
		})
	}
	_, l0 := e.dump(th)
	var gotErr bool
	fault := ""
	func() {
		defer func() {
			if r := recover(); r != nil {
				if _, ok := r.(*lua.ApiError); ok {
					gotErr = true
					return
				}
				fault = fmt.Sprint(r)
			}
		}()
		var err error
		switch in.Via {
		case "callbyparam":
			err = th.CallByParam(lua.P{Fn: fn, NRet: in.NRet, Protect: in.Protect}, lua.LNumber(20))
		case "call":
			th.Push(fn)
			th.Push(lua.LNumber(20))
			th.Call(1, in.NRet)
		case "pcall":
			th.Push(fn)
			th.Push(lua.LNumber(20))
			err = th.PCall(1, in.NRet, nil)
		}
		gotErr = err != nil
	}()
	protected := (in.Via == "callbyparam" && in.Protect) || in.Via == "pcall"
	_, after := e.dump(th)
	if in.Fails && !protected {
		after = l0 // the error left the call unprotected: the list is not observable (as in runCall)
		th.SetTop(len(l0))
	}
	results := []string{"(Some (VInt 21))", "(Some (VInt 22))"}
	id := w.Add(lib.Case{Input: in, Observed: map[string]any{"err": gotErr, "after": after}, Class: class, Nontrivial: true,
		Coq: fmt.Sprintf("CCall %s %s %s %s %s %s", lib.CoqList(l0), lib.CoqList(results), z(in.NRet), lib.CoqBool(in.Fails), lib.CoqBool(gotErr), lib.CoqList(after))})
	if fault != "" {
		if len(fault) > 150 {
			fault = fault[:150]
		}
		w.GoFail(id, "call on an unresumed coroutine thread panicked: "+fault)
	}
	if in.Fails && !protected {
		return // an error that left the thread unprotected (recovered by this Go code, not by the library): nothing is promised
	}
	// drop the results; the thread must still be an unstarted coroutine that takes its arguments
	func() {
		defer func() { recover() }()
		th.SetTop(len(l0))
	}()
	var lu []string
	top := L.GetTop()
	if err := L.DoString(`return coroutine.status(co), coroutine.resume(co, "x", "y")`); err != nil {
		lu = append(lu, "error")
	} else {
		for i := top + 1; i <= L.GetTop(); i++ {
			lu = append(lu, L.Get(i).String())
		}
	}
	want := []string{"suspended", "true", "2", "x", "y"}
	toZ := func(ss []string) string {
		zs := make([]int64, len(ss))
		for i, s := range ss {
			zs[i] = hashZ(s)
		}
		return lib.CoqZList(zs)
	}
	w.Add(lib.Case{Input: in, Observed: map[string]any{"resume": lu}, Class: class + "/resume-after", Nontrivial: true,
		Coq: fmt.Sprintf("CObj 97 %s %s", toZ(lu), toZ(want))})
}

func genThreadCall(r *lib.Rand) ThreadCallIn {
	return ThreadCallIn{Kind: "threadcall", Via: []string{"callbyparam", "call", "pcall"}[r.Intn(3)], LuaFn: r.Bool(),
		NRet: r.Range(-1, 3), Protect: r.Chance(70), Fails: r.Chance(20)}
}
