// c10: correspondence harness for property C10 (Go API: value stack, call contract, object ops).
package main

import (
	"encoding/json"
	"fmt"
	"os"

	"verifh/lib"
)

const header = "From GL Require Import Stack.Registry Stack.StackApi Stack.C10Cases."

func main() {
	a := lib.ParseArgs()
	if a.Cmd != "run" {
		fmt.Fprintln(os.Stderr, "unknown command", a.Cmd)
		os.Exit(2)
	}
	w, err := lib.NewWriter(a.Out, "C10", a.Tier, a.Seed, header, "case", 250)
	if err != nil {
		panic(err)
	}
	w.Meta.Rule = "(a) scripts of 3..12 stack operations (Push/Pop/Get/SetTop/Insert/Remove/Replace/GetTop, indices valid, 0, +-(top+1), beyond, +-1000/9999) run by a NewFunction host function at activation depth 0..4 (Lua->Go->Lua->Go chains with 0..5, sometimes 60..105, caller locals; registries 256, 128 fixed and 128 growing), GetTop and every Get(i) logged after each operation, callers' registry cells read back raw and every caller checks its locals; " +
		"(b) CallByParam/Call/PCall/GPCall x callee (Go, Lua fixed/vararg, non-function, table / userdata with a __call handler that records whether its first argument is the called object and its other arguments, compared with the Lua expression OBJ(a, b, ...)) x nargs 0..4 x produced 0..4 x NRet -1..5 x Protect x failing callee at depth 0..4; " +
		"(a2/b3) the same scripts and calls made by a host function reached through a generated call path of depth 1..6: Lua levels (fixed arity or vararg, 0..3 locals, a run of 3..14 dead temporaries from a table constructor / concatenation / closed block / finished loop / argument list just before the call, an earlier caught error or finished deep recursion) and Go levels, entered by call / pcall / open argument list / tail call / __index / __call / coroutine.wrap / twice in a row / below a recursion of 1..23 frames, with MinimizeStackMemory on or off and 0..122 values held at top level (growing registries end up near their size); scripts contain reads at top+1..top+12 and up to two calls (Go / Lua / Lua wrapping a host function by tail call, fixed result count, open result list / re-entrant; with Go, Lua or failing error handlers; up to 40 results or NRet 50) after each of which the registry is read raw again; " +
		"(b4) state.go initCallFrame of a fixed-arity Lua function driven through the hook on registries with dead values above the top; " +
		"(b2) vm.go copyReturnValues driven through the hook on random frames (regv <= start, B = 0/1/>1, any count); (c) 15 object-level API calls vs the same operator in a Lua chunk on identically built operands (plain values, tables/userdata with random subsets of 12 logging metamethods), 40% of them made by a host function reached through a call path of depth 1..3 that holds 0..3 values of its own (checked afterwards), 25% made twice in a row. " +
		"non-trivial = (a) frame base above 0 and a boundary/out-of-range index or a raise, no Go-nil holes; (b) depth > 0 and NRet != produced or a failing callee; (c) a metamethod was logged; distinct by Gallina term"
	r := lib.NewRand(a.Seed)
	if a.Replay != "" {
		replay(w, a.Replay)
	} else {
		corpus(w)
		na, nc, no := 1500, 1200, 1200
		np, ncp := 900, 400 // scripts / calls reached through generated call paths
		if a.Tier == "thorough" {
			na, nc, no = 40000, 20000, 30000
			np, ncp = 20000, 6000
		}
		for i := 0; i < na; i++ {
			d := i % 5
			runApi(w, genApi(r.Fork(), d, false), fmt.Sprintf("api/depth%d", d))
		}
		for i := 0; i < np; i++ {
			d := 1 + i%6
			runApi(w, genApi(r.Fork(), d, true), fmt.Sprintf("api-path/depth%d", d))
		}
		for i := 0; i < ncp; i++ {
			in := genCall(r.Fork(), 1+i%6, true)
			runCall(w, in, "call-path/"+in.Via+"/"+in.Callee)
		}
		if a.Tier == "thorough" {
			exhaustiveApi(w)
		}
		for i := 0; i < nc; i++ {
			in := genCall(r.Fork(), i%5, false)
			runCall(w, in, "call/"+in.Via+"/"+in.Callee)
		}
		for i := 0; i < nc/20; i++ {
			runThreadCall(w, genThreadCall(r.Fork()), "call/unresumed-thread")
		}
		for i := 0; i < nc/3; i++ {
			runCopyRet(w, genCopyRet(r.Fork()), "copyret")
		}
		for i := 0; i < nc/4; i++ {
			runInitLua(w, genInitLua(r.Fork()), "initlua")
		}
		for i := 0; i < no/20; i++ {
			in := genGenv(r.Fork())
			runGenv(w, in, "obj/globals-"+in.How)
		}
		for i := 0; i < no; i++ {
			in := genObj(r.Fork())
			runObj(w, in, "obj/"+in.Op)
		}
	}
	if err := w.Close(); err != nil {
		panic(err)
	}
}

// exhaustiveApi: every script of <= 2 operations with indices in [-5,5] on a 3-element frame at
// depth 2 (thorough tier).
func exhaustiveApi(w *lib.Writer) {
	var single []AOp
	for i := -5; i <= 5; i++ {
		single = append(single, AOp{K: "get", I: i}, AOp{K: "settop", I: i}, AOp{K: "remove", I: i}, AOp{K: "replace", I: i, V: 77})
		if i <= 4 {
			single = append(single, AOp{K: "insert", I: i, V: 88})
		}
		if i >= 0 {
			single = append(single, AOp{K: "pop", I: i})
		}
	}
	single = append(single, AOp{K: "push", V: 99}, AOp{K: "gettop"})
	for _, o1 := range single {
		for _, o2 := range single {
			in := ApiIn{Kind: "api", Depth: 2, Locals: []int{2, 3, 1, 0, 2}, Init: []int{11, 0, 13}, Ops: []AOp{o1, o2}, Reg: RegOpt{Size: 256}}
			runApi(w, in, "api/exhaustive2")
		}
	}
}

// corpus: the witness of DESIGN 9.1 C10-1 (= C12-2, repaired) and hand-made boundary scripts.
func corpus(w *lib.Writer) {
	// C10-1: a failed protected call from a host function at call depth 8k under MinimizeStackMemory
	runC101(w)
	// hunt2 obs-1: calls on a coroutine.create thread nobody has resumed yet
	for _, via := range []string{"callbyparam", "call", "pcall"} {
		runThreadCall(w, ThreadCallIn{Kind: "threadcall", Via: via, LuaFn: via != "call", NRet: 1, Protect: true}, "corpus/unresumed-thread")
	}
	// obs-1: GetGlobal/SetGlobal after the globals table was replaced
	for _, how := range []string{"setfenv0", "replace", "thread-setfenv0"} {
		runGenv(w, GenvIn{Kind: "genv", How: how, V: "5", Shadow: true}, "corpus/globals")
	}
	// obs-4 (fixed 3542b20): Insert above the top fills the gap with nil
	for _, d := range []int{0, 2, 3} {
		runApi(w, ApiIn{Kind: "api", Depth: d, Locals: []int{2, 2, 2, 2, 2}, Reg: RegOpt{Size: 256}, Ops: []AOp{{K: "insert", I: 3, V: 7}, {K: "get", I: 1}, {K: "get", I: 2}, {K: "insert", I: 7, V: 8}, {K: "pop", I: 1}, {K: "insert", I: 9, V: 9}}}, "corpus/insert-above-top")
	}
	for d := 0; d <= 4; d++ {
		runApi(w, ApiIn{Kind: "api", Depth: d, Locals: []int{3, 2, 4, 1, 2}, Init: []int{11, 12, 13}, Reg: RegOpt{Size: 256}, Ops: []AOp{
			{K: "get", I: 0}, {K: "get", I: 4}, {K: "get", I: -4}, {K: "get", I: 1000}, {K: "get", I: -1000},
			{K: "insert", I: 0, V: 5}, {K: "insert", I: -1, V: 6}, {K: "insert", I: 6, V: 7}, {K: "remove", I: -6}, {K: "remove", I: 7}, {K: "remove", I: 0},
			{K: "replace", I: 0, V: 8}, {K: "replace", I: -7, V: 8}, {K: "replace", I: 7, V: 8}, {K: "settop", I: -7}, {K: "settop", I: -8}, {K: "push", V: 1}, {K: "settop", I: 3}, {K: "pop", I: 4}}}, "corpus/boundary")
		runApi(w, ApiIn{Kind: "api", Depth: d, Locals: []int{100, 100, 100, 100, 100}, Init: []int{1}, Reg: RegOpt{Size: 128, Max: 1024, Grow: 1}, Ops: []AOp{
			{K: "push", V: 2}, {K: "push", V: 3}, {K: "settop", I: 30}, {K: "insert", I: 1, V: 4}, {K: "remove", I: 2}, {K: "settop", I: 1}, {K: "gettop"}}}, "corpus/grow")
	}
	// seeded C10-10: dead temporaries of a Lua caller (left above the frame of a fixed-arity Lua callee) must not be
	// visible above the list of the host function that callee calls
	for i, how := range []string{"table", "concat", "block", "loop", "args"} {
		runApi(w, ApiIn{Kind: "api", Depth: 2, Path: stalePath(i, 8+i, how, i%2), Init: []int{11}, Reg: RegOpt{Size: 256}, Ops: []AOp{
			{K: "get", I: 2}, {K: "get", I: 3}, {K: "get", I: 6}, {K: "gettop"}, {K: "settop", I: 4}, {K: "get", I: 5}, {K: "settop", I: 1}, {K: "push", V: 5}, {K: "get", I: 3},
			{K: "call", C: "lua", Via: "cbpp", N: 1, J: 2, P: 2, I: 3}, {K: "get", I: 6}, {K: "get", I: 8}, {K: "call", C: "reenter", Via: "pcall", N: 2, P: 1, I: 1, F: true}, {K: "get", I: 6}, {K: "pop", I: 2}, {K: "get", I: 4}}}, "corpus/stale-above-top")
	}
	// initCallFrame of a fixed-arity Lua function: the caller's dead temporaries stay above the frame
	for _, c := range [][4]int{{3, 1, 1, 2}, {3, 0, 2, 3}, {2, 2, 1, 1}, {3, 1, 2, 12}, {1, 3, 0, 0}} {
		runInitLua(w, InitLuaIn{Kind: "initlua", Cells: []int{100, 101, 102, 103}, Stale: 7, LB: c[0], NArgs: c[1], NP: c[2], NRegs: c[3], Reg: RegOpt{Size: 128}}, "corpus/initlua")
	}
	// C10-2 (open finding): ObjLen of a userdata without __len; and Concat() without operands (fixed b70edf8)
	runObj(w, ObjIn{Kind: "obj", Op: "objlen", A: Operand{"newud(MT2)"}, B: Operand{"nil"}, K: Operand{"nil"}, V: Operand{"nil"}, MT1: 64, MT2: 1, Same: true}, "corpus/C10-2")
	runObj(w, ObjIn{Kind: "obj", Op: "concat0", A: Operand{"nil"}, B: Operand{"nil"}, K: Operand{"nil"}, V: Operand{"nil"}, Same: true}, "corpus/concat0")
	// seeded C10-4: the __call handler of a callable table / userdata must receive the object itself
	for _, via := range []string{"callbyparam", "call", "pcall"} {
		for _, callee := range []string{"callable-table", "callable-userdata"} {
			for nargs := 0; nargs <= 4; nargs += 2 {
				runCall(w, CallIn{Kind: "call", Via: via, Callee: callee, Depth: 1 + nargs/2, Locals: []int{2, 2, 2, 2, 2}, Init: []int{41}, NArgs: nargs, Junk: 1, Produced: 2, NRet: nargs - 1, Protect: nargs != 2, Reg: RegOpt{Size: 256}}, "corpus/callmeta")
			}
		}
	}
	for _, nret := range []int{-1, 0, 1, 3} {
		runCall(w, CallIn{Kind: "call", Via: "callbyparam", Callee: "go", Depth: 3, Locals: []int{2, 2, 2, 2, 2}, Init: []int{41, 42}, NArgs: 2, Junk: 2, Produced: 2, NRet: nret, Protect: true, Reg: RegOpt{Size: 256}}, "corpus/call")
		runCall(w, CallIn{Kind: "call", Via: "callbyparam", Callee: "lua", Depth: 2, Locals: []int{2, 2, 2, 2, 2}, Init: []int{41}, NArgs: 3, Junk: 1, Produced: 2, NRet: nret, Protect: true, Fails: nret == 0, Reg: RegOpt{Size: 256}}, "corpus/call")
	}
}

func replay(w *lib.Writer, path string) {
	b, err := os.ReadFile(path)
	if err != nil {
		panic(err)
	}
	var rp struct {
		Input json.RawMessage `json:"input"`
	}
	if err := json.Unmarshal(b, &rp); err != nil {
		panic(err)
	}
	var k struct {
		Kind string `json:"kind"`
	}
	json.Unmarshal(rp.Input, &k)
	switch k.Kind {
	case "api":
		var in ApiIn
		json.Unmarshal(rp.Input, &in)
		runApi(w, in, "replay")
	case "call":
		var in CallIn
		json.Unmarshal(rp.Input, &in)
		runCall(w, in, "replay")
	case "obj":
		var in ObjIn
		json.Unmarshal(rp.Input, &in)
		runObj(w, in, "replay")
	case "threadcall":
		var in ThreadCallIn
		json.Unmarshal(rp.Input, &in)
		runThreadCall(w, in, "replay")
	case "genv":
		var in GenvIn
		json.Unmarshal(rp.Input, &in)
		runGenv(w, in, "replay")
	case "copyret":
		var in CopyRetIn
		json.Unmarshal(rp.Input, &in)
		runCopyRet(w, in, "replay")
	case "initlua":
		var in InitLuaIn
		json.Unmarshal(rp.Input, &in)
		runInitLua(w, in, "replay")
	case "c10-1":
		runC101(w)
	default:
		panic("unknown input kind " + k.Kind)
	}
}
