// c04: metamethod selection and application.
package main

import (
	"os"

	"verifh/luagen"
	"verifh/luaprop"
)

func main() {
	f := luagen.CoreFeatures()
	f.Meta, f.Funcs, f.Errors, f.Closures, f.Goto, f.Varargs, f.MultiAssign = 16, 3, 2, 1, 0, 1, 2
	luaprop.Main(&luaprop.Config{
		Prop: "C04",
		Rule: "generated programs dominated by metatable shapes: __index/__newindex through tables and functions, arithmetic/concat handlers with the object on the left, right or both sides, " +
			"__eq/__lt/__le (with and without __le), __call/__unm/__tostring/__metatable, rawget/rawset/rawequal; one fifth are small programs of the wave-5 shapes (raw operations next to the operators on pairs of host-created userdata/tables sharing a metatable, only the handler, or nothing; __index/__newindex chains of 98..102 objects around the documented depth with number, run-time string, constant string, method and global keys and every ending; the operator matrix on userdata); host API scenarios (RawEqual/Equal, GetTable/GetField/SetTable/SetField on chains of 1..102 objects) checked Go-side; handlers log their operands through emit; traces compared with the reference evaluator; " +
			"non-trivial = at least 5 emitted rows or an error outcome; distinct by Gallina term",
		Modes:       modes(f),
		NQuick:      400,
		NThorough:   2500,
		Corpus:      append(corpus, corpusW5...),
		Extra:       metaExtra,
		ReplayExtra: extraReplay,
		VM:          true,
	})
}

// modes: the feature-driven mix, and (wave 5) small stand-alone programs made of the raw-operation
// matrix, the chain-depth boundary and the userdata event matrix (luagen/shapes_w5_c04.go).
func modes(f luagen.Features) []luaprop.Mode {
	if os.Getenv("C04_DEV_W5ONLY") != "" { // development aid: only the wave-5 mode
		return []luaprop.Mode{{Name: "w5focus", Features: f, Weight: 1, Gen: luagen.W5MetaC04Program}}
	}
	return []luaprop.Mode{{Name: "meta", Features: f, Weight: 80}, {Name: "w5focus", Features: f, Weight: 20, Gen: luagen.W5MetaC04Program}}
}

var corpus = []string{
	`local last = {}; local mid = setmetatable({held = 1}, {__newindex = function(t, k, v) emit("mid handler", k, v) end}); local o = setmetatable({}, {__newindex = mid}); o.held = 2; o.fresh = 3; emit(rawget(o, "held"), rawget(mid, "held"), rawget(mid, "fresh"))`,
	`local o = setmetatable({}, {__lt = function() emit("lt") return false end}); emit(o <= o, o >= o, o < o); emit(pcall(function() local p = {} return p <= p end))`,
	`local log = function(...) emit(...) end; local mt = {}; mt.__add = function(a, b) log("add", type(a), type(b)) return 1 end; local o = setmetatable({}, mt); emit(o + 1, 1 + o, o + o, o + "x")`,
	`local base = {inherited = 1}; local mid = setmetatable({midv = 2}, {__index = base}); local o = setmetatable({}, {__index = mid}); emit(o.inherited, o.midv, o.none, rawget(o, "midv"))`,
	`local store = {}; local o = setmetatable({present = 1}, {__newindex = function(t, k, v) emit("ni", k, v); rawset(store, k, v) end}); o.present = 2; o.absent = 3; emit(o.present, rawget(o, "absent"), store.absent)`,
	`local mt = {__eq = function(a, b) emit("eq") return true end}; local a, b = setmetatable({}, mt), setmetatable({}, mt); local c = setmetatable({}, {__eq = function() return true end}); emit(a == b, a ~= b, a == c, a == 1, rawequal(a, b))`,
	`local mt = {__lt = function(a, b) emit("lt", a.v, b.v) return a.v < b.v end}; local a, b = setmetatable({v=1}, mt), setmetatable({v=2}, mt); emit(a < b, a > b, a <= b, a >= b)`,
	`local mt = {__concat = function(a, b) emit("cc", type(a), type(b)) return "X" end}; local o = setmetatable({}, mt); emit(o .. "a", "a" .. o, 1 .. o, o .. o, "a" .. "b" .. o)`,
	`local o = setmetatable({}, {__call = function(self, ...) emit("call", self ~= nil, ...) return ... end}); emit(o(1, 2)); emit(pcall(o, 3)); for i in o, 1, nil do emit("iter", i) break end`,
	`local o = setmetatable({}, {__unm = function(a) return "neg" end, __tostring = function() return "str!" end, __metatable = "locked"}); emit(-o, tostring(o), getmetatable(o)); emit(pcall(function() return setmetatable(o, {}) end))`,
	`local u = newud(); local mt = {__index = function(u, k) return k .. "?" end, __add = function(a, b) return "ud+" end}; local v = newud(mt); emit(v.foo, v + 1, 2 + v, type(v)); emit(pcall(function() return u.x end))`,
	`local depth = setmetatable({}, {__index = setmetatable({}, {__index = setmetatable({}, {__index = function(t, k) return "deep:" .. k end})})}); emit(depth.key); local nmt = setmetatable({}, {__newindex = setmetatable({}, {__newindex = function(t,k,v) emit("deepset", k, v) end})}); nmt.q = 1; emit(rawget(nmt, "q"))`,
	// rawset returns its table (lbaselib.c luaB_rawset: return 1): chaining and the memoizing __index idiom
	`local t = {}; emit(select("#", rawset(t, "k", 1)), rawset(t, "j", 2) == t); emit(rawset(rawset({}, 1, "a"), 2, "b")[1]); local memo = setmetatable({}, {__index = function(self, k) emit("miss", k) return rawset(self, k, k * 2)[k] end}); emit(memo[21], memo[21], rawget(memo, 21))`,
	// setmetatable with the second argument missing is an error and changes nothing (luaL_argcheck "nil or table expected")
	`local t = setmetatable({}, {__index = function(t, k) return "served" end}); emit(pcall(setmetatable, t) == false, t.x); emit(pcall(function() return setmetatable(t) end) == false, t.y); setmetatable(t, nil); emit(t.z)`,
	// the string metatable is a separate table {__index = string}: a field stored in the library table is not a handler
	`string.__add = function(a, b) emit("hijacked") return "h" end; string.__call = function() emit("hijacked-call") return "c" end; emit(pcall(function() return "abc" + 1 end)); emit(pcall(function() return ("abc")(1) end)); emit(getmetatable("") == string, rawget(string, "__index") == nil, getmetatable("").__index == string); emit(("x"):rep(2), ("abc"):len()); string.__add = nil; string.__call = nil`,
	// fixed 5c2f2ce: a handler that is a callable table is called (any non-nil handler is)
	`local H = setmetatable({}, {__call = function(self, a) emit("H", type(self), type(a)) return "handled" end}); local mt = {__add = H, __sub = H, __concat = H, __unm = H, __eq = H, __lt = H, __le = H, __tostring = H}; local x, y = setmetatable({}, mt), setmetatable({}, mt); emit(x + 1, 1 - x, x .. "a", "a" .. x, -x); emit(x == y, x ~= y, x < y, x <= y, x > y); emit(tostring(x))`,
	// fixed 46ac53a: unary minus converts a numeric string before looking for __unm
	`local smt = getmetatable(""); smt.__unm = function(a) emit("str-unm", a) return "mm" end; emit(-"10", -"2.5"); emit(pcall(function() return -"abc" end)); smt.__unm = nil; emit(pcall(function() return -"abc" end))`,
	// fixed 52e547f: numbers and numeric strings are computed before an arithmetic handler is looked for
	`local smt = getmetatable(""); smt.__add = function(a, b) emit("str-add", a, b); return "mm" end; emit("10" + 1, 1 + "10", "10" + "2"); emit(pcall(function() return "a" + 1 end)); emit(pcall(function() return 1 + "a" end)); local t = setmetatable({}, {__add = function(a, b) return type(a) .. type(b) end}); emit("10" + t, t + "10", t + 1); smt.__add = nil`,
}
