package main

import (
	"fmt"
	"strings"

	"verifh/lib"
	"verifh/luagen"
)

// metaExtraProgs: metamethod clauses checked Go-side against what Lua 5.1 prescribes (lvm.c,
// lbaselib.c, ldblib.c), for programs that are kept out of the VM-tied corpus: handlers that are
// callable tables (any non-nil handler is called through luaD_call, so __call is honoured), the
// numeric coercion of a string operand of unary minus before __unm is looked for, and the consumers
// of the RAW metatable (debug.getmetatable, newproxy(p)) which __metatable must not deceive. Each
// expected row is matched by substring; rows are the emitted rows in order. kf: id of an open known
// finding the program witnesses (its failure is then listed, not a violation).
var metaExtraProgs = []struct {
	name string
	src  string
	want []string
	kf   string
}{
	{"callable-handler-arith", `local H = setmetatable({}, {__call = function(self, a, b) emit("H", type(self), type(a), type(b)) return "handled" end}); local mt = {__add = H, __sub = H, __mul = H, __div = H, __mod = H, __pow = H, __concat = H, __unm = H}; local x = setmetatable({}, mt); emit(x + 1); emit(1 - x); emit(x * x); emit(x / 2, x % 2, x ^ 2); emit(x .. "a", "a" .. x); emit(-x)`,
		[]string{`"H" "table" "table" "number"`, `"handled"`, `"H" "table" "number" "table"`, `"handled"`, `"H" "table" "table" "table"`, `"handled"`, `"H"`, `"H"`, `"H"`, `"handled" "handled" "handled"`, `"H" "table" "table" "string"`, `"H" "table" "string" "table"`, `"handled" "handled"`, `"H"`, `"handled"`}, ""},
	{"callable-handler-compare", `local H = setmetatable({}, {__call = function(self, a, b) emit("H") return 1 end}); local mt = {__eq = H, __lt = H, __le = H}; local x, y = setmetatable({}, mt), setmetatable({}, mt); emit(x == y); emit(x ~= y); emit(x < y); emit(x <= y); emit(x > y)`,
		[]string{`"H"`, "true", `"H"`, "false", `"H"`, "true", `"H"`, "true", `"H"`, "true"}, ""},
	{"callable-handler-le-fallback", `local H = setmetatable({}, {__call = function(self, a, b) emit("lt") return false end}); local mt = {__lt = H}; local x, y = setmetatable({}, mt), setmetatable({}, mt); emit(x <= y, x >= y)`,
		[]string{`"lt"`, `"lt"`, "true true"}, ""},
	{"callable-handler-tostring", `local H = setmetatable({}, {__call = function(self, o) emit("ts", type(o)) return "str!" end}); local x = setmetatable({}, {__tostring = H}); emit(tostring(x))`,
		[]string{`"ts" "table"`, `"str!"`}, ""},
	{"callable-handler-userdata", `local H = setmetatable({}, {__call = function(self, a, b) return "ud-handled" end}); local u = newproxy(true); getmetatable(u).__add = H; getmetatable(u).__len = H; getmetatable(u).__unm = H; emit(u + 1, 1 + u, #u, -u)`,
		[]string{`"ud-handled" "ud-handled" "ud-handled" "ud-handled"`}, ""},
	{"callable-index-is-indexed-not-called", `local H = setmetatable({k = "field"}, {__call = function() emit("must not be called") return "called" end}); local x = setmetatable({}, {__index = H}); emit(x.k, x.none); local store = setmetatable({}, {__call = function() emit("must not be called") end}); local y = setmetatable({}, {__newindex = store}); y.a = 5; emit(rawget(y, "a"), rawget(store, "a"))`,
		[]string{`"field" nil`, "nil 5"}, ""},
	{"unm-numeric-string-before-handler", `local smt = getmetatable(""); smt.__unm = function(a) emit("str-unm", a) return "mm" end; emit(-"10", -"2.5"); emit(pcall(function() return -"abc" end)); smt.__unm = nil; emit(pcall(function() return -"abc" end))`,
		[]string{"-10 -2.5", `"str-unm" "abc"`, `true "mm"`, "false"}, ""},
	{"debug-getmetatable-raw", `local real = {__metatable = "locked"}; local t = setmetatable({}, real); emit(getmetatable(t), debug.getmetatable(t) == real, type(debug.getmetatable(t)))`,
		[]string{`"locked" true "table"`}, ""},
	{"newproxy-shares-raw-metatable", `local p = newproxy(true); getmetatable(p).__index = function(u, k) return "proxy." .. k end; getmetatable(p).__metatable = {fake = true}; local q = newproxy(p); emit(q.x, debug.getmetatable(q) == debug.getmetatable(p), getmetatable(q).fake)`,
		[]string{`"proxy.x" true true`}, ""},
	{"xpcall-callable-first-argument", `local c = setmetatable({}, {__call = function(self, ...) emit("called", type(self), select("#", ...)) return "r1", "r2" end}); emit(xpcall(c, function(e) return "h" end)); emit(xpcall(42, function(e) emit("handler", type(e)) return "h" end)); emit(pcall(xpcall, nil, function(e) return "h2" end))`,
		[]string{`"called" "table" 0`, `true "r1" "r2"`, `"handler" "string"`, `false "h"`, `true false "h2"`}, ""},
	{"debug-setmetatable-returns-true", `local mt = {}; emit(debug.setmetatable(nil, mt), debug.getmetatable(nil) == mt); emit(debug.setmetatable(nil, nil), debug.getmetatable(nil)); local t = {}; emit(debug.setmetatable(t, mt), getmetatable(t) == mt)`,
		[]string{"true true", "true nil", "true true"}, ""},
	{"string-metatable-is-separate", `string.__unm = function() return "hijacked" end; emit(pcall(function() return -"abc" end)); emit(getmetatable("") == string); local n = 0; for k, v in pairs(string) do if type(v) ~= "function" then n = n + 1 end end; emit(n)`,
		[]string{"false", "false", "0"}, ""},
	// OPEN finding C04-1: `#` on a table consults __len (Lua 5.2 rule; the project's own suite pins it)
	{"len-of-table-ignores-handler", `local calls = 0; local t = setmetatable({10, 20, 30}, {__len = function() calls = calls + 1 return 42 end}); emit(#t, calls); t[#t + 1] = 40; emit(t[4], rawget(t, 43))`,
		[]string{"3 0", "40 nil"}, "C04-1"},
}

func rowsOf(out *luagen.Outcome) []string {
	rows := []string{}
	for _, t := range out.Trace {
		parts := make([]string, len(t))
		for j, v := range t {
			parts[j] = v.String()
		}
		rows = append(rows, strings.Join(parts, " "))
	}
	return rows
}

func metaExtra(w *lib.Writer, tier string, seed uint64) {
	for _, p := range metaExtraProgs {
		runMetaExtraProg(w, p.name, p.src, p.want, p.kf)
	}
	apiExtra(w, tier, seed)
}

func runMetaExtraProg(w *lib.Writer, name, src string, want []string, kf string) {
	out := luagen.Run(src, nil)
	rows := rowsOf(out)
	ok := out.Ok && out.GoFail == "" && len(rows) == len(want)
	if ok {
		for i := range rows {
			if !strings.Contains(rows[i], want[i]) {
				ok = false
			}
		}
	}
	c := lib.Case{Input: map[string]any{"meta_extra": name, "src": src}, Observed: out.Summary(), Class: "extra-" + name,
		Nontrivial: true, Coq: "CProg [] (Outcome [] (OOk []))"}
	if kf != "" {
		c.KF = []string{kf}
	}
	id := w.Add(c)
	w.Meta.GoOnlyChecked++
	if !ok {
		w.GoFail(id, fmt.Sprintf("metamethod program %q: expected rows %q, got %q (ok=%v err=%s %s)", name, want, rows, out.Ok, out.Err.String(), out.GoFail))
	}
}
