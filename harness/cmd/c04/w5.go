package main

// Wave 5 corpus (tied to both models like every corpus program).
//
// (a) raw operations on host-created userdata: rawequal of two DISTINCT userdata is false and calls
// nothing, whatever their metatables share (the same __eq function in two metatables, one common
// metatable); `==` on the same pairs does call the common handler. The library function and the
// operator reach the comparison through different entry points of the interpreter (baseRawEqual /
// L.RawEqual / equals with the raw flag), so the pairs are tried through both, in both orders,
// before and after the handler has run once.
//
// (b) the documented depth of __index / __newindex chains (MaxTableGetLoop = 100 = MAXTAGLOOP of
// lvm.c): a chain of n objects is walked completely for n <= 100 (the LAST object's raw slot and its
// own __index / __newindex are honoured) and is an error for n = 101, for every way a key reaches
// the interpreter: a number key and a run-time string key (getField / setField), a constant string
// key (getFieldString / setFieldString), a method call (OP_SELF). The error message of the
// over-long chain is the interpreter's own wording, so only success/failure of the protected call
// and the value are emitted.
var corpusW5 = []string{
	`local calls = 0; local h = function(a, b) calls = calls + 1; emit("eq-handler", type(a), type(b)) return true end; ` +
		`local u1, u2 = newud({__eq = h}), newud({__eq = h}); local m = {__eq = h}; local u3, u4 = newud(m), newud(m); local bare = newud(); ` +
		`local t1, t2 = setmetatable({}, {__eq = h}), setmetatable({}, m); ` +
		`emit(rawequal(u1, u2), rawequal(u3, u4), rawequal(u1, u1), rawequal(t1, t2), rawequal(u1, t1), rawequal(u1, bare), calls); ` +
		`emit(u1 == u2, u3 ~= u4, u1 == u1, t1 == t2, u1 == t1, u1 == bare, calls); ` +
		`emit(rawequal(u2, u1), rawequal(u4, u3), rawequal(t2, t1), rawequal(bare, bare), calls)`,
	`local function chain(n, base) local cur = base; for i = 2, n do cur = setmetatable({}, {__index = cur}) end return cur end; ` +
		`local function probe(o, k) local ok, val = pcall(function() return o[k] end); return ok, ok and val end; ` +
		`local function probec(o) local ok, val = pcall(function() return o.ck end); return ok, ok and val end; ` +
		`local dyn = "dy" .. "n"; ` +
		`for _, n in ipairs({99, 100, 101}) do local c = chain(n, {}); emit("absent", n, probe(c, 1)); emit(n, probe(c, dyn)); emit(n, probec(c)); ` +
		`local c2 = chain(n, {[1] = "one", dyn = "dv", ck = "cv"}); emit("hit-in-last", n, probe(c2, 1)); emit(n, probe(c2, dyn)); emit(n, probec(c2)); ` +
		`local fb; fb = setmetatable({}, {__index = function(t, k) emit("last-handler", t == fb, k) return "from-handler" end}); ` +
		`local c3 = chain(n, fb); emit("fn-at-last", n, probe(c3, 1)); emit(n, probe(c3, dyn)); emit(n, probec(c3)) end`,
	`local function nchain(n, base) local cur = base; for i = 2, n do cur = setmetatable({}, {__newindex = cur}) end return cur end; ` +
		`local dyn = "dy" .. "n"; ` +
		`for _, n in ipairs({99, 100, 101}) do local base = {}; local c = nchain(n, base); ` +
		`emit("plain-last", n, (pcall(function() c[1] = "a" end)), (pcall(function() c[dyn] = "b" end)), (pcall(function() c.ck = "c" end))); ` +
		`emit(rawget(base, 1), rawget(base, dyn), rawget(base, "ck"), rawget(c, 1) == nil or n == 1); ` +
		`local fb; fb = setmetatable({}, {__newindex = function(t, k, x) emit("last-handler", t == fb, k, x) end}); local c3 = nchain(n, fb); ` +
		`emit("fn-at-last", n, (pcall(function() c3[1] = "a" end)), (pcall(function() c3[dyn] = "b" end)), (pcall(function() c3.ck = "c" end))); ` +
		`emit(rawget(fb, 1), rawget(fb, dyn), rawget(fb, "ck")) end`,
	// a userdata inside / at the end of a maximal chain, and the method-call form
	`local function chain(n, base) local cur = base; for i = 2, n do cur = setmetatable({}, {__index = cur}) end return cur end; ` +
		`for _, n in ipairs({99, 100, 101}) do local ud = newud({__index = function(u, k) emit("ud-handler", type(u), k) return function(self) return "m:" .. type(self) end end}); ` +
		`local c = chain(n, ud); local ok, val = pcall(function() return c:meth() end); emit(n, ok, ok and val); ` +
		`ok, val = pcall(function() return c[n] end); emit(n, ok, ok and type(val)); ` +
		`local mid = newud({__index = chain(50, {[7] = "seven"})}); local c2 = chain(n - 50, mid); ok, val = pcall(function() return c2[7] end); emit(n, ok, ok and val); ` +
		`ok, val = pcall(function() return c2[8] end); emit(n, ok, ok and val) end`,
}
