package main

import (
	"encoding/json"
	"fmt"
	"strings"

	lua "github.com/yuin/gopher-lua"
	"verifh/lib"
)

// Wave 5: the metamethod rules at the HOST API (LState.RawEqual/Equal, GetTable/GetField,
// SetTable/SetField, RawGet/RawSet), which share their workers with the VM instructions and with
// the library functions (rawequal, rawget, rawset) -- a slip in a shared worker is invisible to a
// Lua program whenever the library function happens not to use it, and the other way round.
//
// Every scenario is checked against what Lua 5.1 prescribes (lvm.c luaV_gettable/luaV_settable
// with MAXTAGLOOP = 100, luaV_equalval, lapi.c lua_rawequal), computed here from the construction
// parameters, never from a second run. All scenarios of one run share ONE LState, in a fixed order
// in which over-long chains (an error) precede maximal ones: every later scenario runs after caught
// errors, and the value stack must be as high afterwards as before.

type apiScenario struct {
	Api    string `json:"api"` // "equal" | "chain"
	Kinds  string `json:"kinds,omitempty"`
	Share  string `json:"share,omitempty"`
	Result string `json:"result,omitempty"`
	Event  string `json:"event,omitempty"`
	N      int    `json:"n,omitempty"`
	Ending string `json:"ending,omitempty"`
	UdAt   int    `json:"ud_at,omitempty"`
}

func apiScenarios() []apiScenario {
	var out []apiScenario
	for _, kinds := range []string{"ud-ud", "tab-tab", "ud-tab"} {
		for _, share := range []string{"same-metatable", "same-handler", "different-handlers", "one-sided", "none"} {
			for _, res := range []string{"true", "false", "nil", "zero"} {
				if share == "none" && res != "true" {
					continue
				}
				out = append(out, apiScenario{Api: "equal", Kinds: kinds, Share: share, Result: res})
			}
		}
	}
	for _, ev := range []string{"__index", "__newindex"} {
		for _, n := range []int{101, 100, 102, 99, 1, 2, 50, 100, 101} {
			for _, ending := range []string{"absent", "hit", "lua-handler", "go-handler", "ud-handler", "inner"} {
				if (ev == "__newindex" && ending == "hit") || (ev == "__index" && ending == "inner") || (ending == "inner" && n < 4) {
					continue
				}
				out = append(out, apiScenario{Api: "chain", Event: ev, N: n, Ending: ending})
				if n >= 50 {
					out = append(out, apiScenario{Api: "chain", Event: ev, N: n, Ending: ending, UdAt: 2 + n%37})
				}
			}
		}
	}
	return out
}

// protect runs f inside a protected call on L and reports (error?, stack height preserved?).
func protect(L *lua.LState, f func()) (failed bool, msg string) {
	top := L.GetTop()
	err := L.CallByParam(lua.P{Fn: L.NewFunction(func(*lua.LState) int { f(); return 0 }), NRet: 0, Protect: true})
	if err != nil {
		failed, msg = true, err.Error()
	}
	if L.GetTop() != top {
		msg += fmt.Sprintf(" [value stack height %d -> %d]", top, L.GetTop())
		L.SetTop(top)
		return failed, "STACK" + msg
	}
	return failed, msg
}

func runEqual(L *lua.LState, sc apiScenario) (bad []string) {
	calls := 0
	var res lua.LValue = lua.LTrue
	truth := true
	switch sc.Result {
	case "false":
		res, truth = lua.LFalse, false
	case "nil":
		res, truth = lua.LNil, false
	case "zero":
		res, truth = lua.LNumber(0), true
	}
	var seenA, seenB lua.LValue
	h := L.NewFunction(func(L *lua.LState) int { calls++; seenA, seenB = L.Get(1), L.Get(2); L.Push(res); return 1 })
	h2 := L.NewFunction(func(L *lua.LState) int { calls += 1000; L.Push(lua.LTrue); return 1 })
	mtWith := func(f *lua.LFunction) *lua.LTable {
		mt := L.NewTable()
		if f != nil {
			mt.RawSetString("__eq", f)
		}
		return mt
	}
	mk := func(kind byte, mt *lua.LTable) lua.LValue {
		if kind == 'u' {
			ud := L.NewUserData()
			ud.Metatable = lua.LNil
			if mt != nil {
				ud.Metatable = mt
			}
			return ud
		}
		t := L.NewTable()
		if mt != nil {
			L.SetMetatable(t, mt)
		}
		return t
	}
	parts := strings.SplitN(sc.Kinds, "-", 2)
	ka, kb := parts[0][0], parts[1][0]
	var a, b lua.LValue
	common := false // do a and b offer the identical handler?
	switch sc.Share {
	case "same-metatable":
		mt := mtWith(h)
		a, b, common = mk(ka, mt), mk(kb, mt), true
	case "same-handler":
		a, b, common = mk(ka, mtWith(h)), mk(kb, mtWith(h)), true
	case "different-handlers":
		a, b = mk(ka, mtWith(h)), mk(kb, mtWith(h2))
	case "one-sided":
		a, b = mk(ka, mtWith(h)), mk(kb, nil)
	default:
		a, b = mk(ka, nil), mk(kb, nil)
	}
	sameType := ka == kb
	L.SetGlobal("w5a", a)
	L.SetGlobal("w5b", b)
	lhs := func(src string) (lua.LValue, string) {
		top := L.GetTop()
		if err := L.DoString(src); err != nil {
			L.SetTop(top)
			return lua.LNil, err.Error()
		}
		v := L.Get(-1)
		L.SetTop(top)
		return v, ""
	}
	check := func(what string, got, want lua.LValue, wantCalls int) {
		if got != want || calls != wantCalls {
			bad = append(bad, fmt.Sprintf("%s: got %v with %d handler call(s), Lua 5.1: %v with %d", what, got, calls, want, wantCalls))
		}
		calls = 0
	}
	for _, p := range [][2]lua.LValue{{a, b}, {b, a}} {
		x, y := p[0], p[1]
		nm := "(a,b)"
		if x == b {
			nm = "(b,a)"
		}
		// raw: identity only, never a handler
		var r bool
		failed, msg := protect(L, func() { r = L.RawEqual(x, y) })
		if failed || msg != "" {
			bad = append(bad, "L.RawEqual"+nm+" "+msg)
		}
		check("L.RawEqual"+nm, lua.LBool(r), lua.LFalse, 0)
		// equality: the common handler decides for two tables / two userdata, its truth value is the answer
		seenA, seenB = nil, nil
		failed, msg = protect(L, func() { r = L.Equal(x, y) })
		if failed || msg != "" {
			bad = append(bad, "L.Equal"+nm+" "+msg)
		}
		if sameType && common {
			check("L.Equal"+nm, lua.LBool(r), lua.LBool(truth), 1)
			if seenA != x || seenB != y {
				bad = append(bad, "L.Equal"+nm+": the handler did not receive the operands in order")
			}
		} else {
			check("L.Equal"+nm, lua.LBool(r), lua.LFalse, 0)
		}
	}
	for _, x := range []lua.LValue{a, b} {
		check("L.RawEqual(x,x)", lua.LBool(L.RawEqual(x, x)), lua.LTrue, 0)
		check("L.Equal(x,x)", lua.LBool(L.Equal(x, x)), lua.LTrue, 0)
	}
	// the library function and the operator on the same pair, after the API calls
	got, e := lhs(`return rawequal(w5a, w5b) or rawequal(w5b, w5a)`)
	if e != "" {
		bad = append(bad, "rawequal raised "+e)
	}
	check("rawequal(a,b) or rawequal(b,a)", got, lua.LFalse, 0)
	got, e = lhs(`return rawequal(w5a, w5a) and rawequal(w5b, w5b)`)
	check("rawequal(x,x)"+e, got, lua.LTrue, 0)
	got, e = lhs(`return w5a == w5b`)
	if sameType && common {
		check("a == b"+e, got, lua.LBool(truth), 1)
	} else {
		check("a == b"+e, got, lua.LFalse, 0)
	}
	got, e = lhs(`return w5a ~= w5b`)
	if sameType && common {
		check("a ~= b"+e, got, lua.LBool(!truth), 1)
	} else {
		check("a ~= b"+e, got, lua.LTrue, 0)
	}
	// primitive values: raw equality is value equality, no coercion
	for _, q := range []struct {
		x, y lua.LValue
		want bool
	}{{lua.LString("ab"), lua.LString("a" + "b"), true}, {lua.LNumber(1), lua.LNumber(1), true}, {lua.LNumber(1), lua.LString("1"), false},
		{lua.LNil, lua.LNil, true}, {lua.LNil, lua.LFalse, false}, {lua.LTrue, lua.LTrue, true}, {a, lua.LNumber(1), false}} {
		if L.RawEqual(q.x, q.y) != q.want || L.Equal(q.x, q.y) != q.want {
			bad = append(bad, fmt.Sprintf("RawEqual/Equal(%v,%v) is not %v", q.x, q.y, q.want))
		}
	}
	if calls != 0 {
		bad = append(bad, "a handler ran for primitive operands")
	}
	return bad
}

func runChain(L *lua.LState, sc apiScenario) (bad []string) {
	ev, n := sc.Event, sc.N
	set := ev == "__newindex"
	calls := 0
	var seenObj, seenKey, seenVal lua.LValue
	goH := L.NewFunction(func(L *lua.LState) int {
		calls++
		seenObj, seenKey, seenVal = L.Get(1), L.Get(2), L.Get(3)
		L.Push(lua.LString("from-handler"))
		return 1
	})
	// the base (object number 1)
	var base lua.LValue
	baseT := L.NewTable()
	base = baseT
	var handler lua.LValue = lua.LNil
	switch sc.Ending {
	case "hit":
		baseT.RawSetInt(7, lua.LString("v7"))
		baseT.RawSetString("sk", lua.LString("vsk"))
	case "lua-handler":
		L.SetGlobal("w5note", L.NewFunction(func(L *lua.LState) int {
			calls++
			seenObj, seenKey, seenVal = L.Get(1), L.Get(2), L.Get(3)
			return 0
		}))
		if err := L.DoString(`return function(o, k, x) w5note(o, k, x) return "from-handler" end`); err != nil {
			return []string{"setup: " + err.Error()}
		}
		handler = L.Get(-1)
		L.Pop(1)
	case "go-handler":
		handler = goH
	case "ud-handler":
		ud := L.NewUserData()
		base = ud
		handler = goH
	}
	if handler != lua.LNil {
		mt := L.NewTable()
		mt.RawSetString(ev, handler)
		if ud, ok := base.(*lua.LUserData); ok {
			ud.Metatable = mt
		} else {
			L.SetMetatable(base, mt)
		}
	}
	link := func(next lua.LValue, i int) lua.LValue {
		mt := L.NewTable()
		mt.RawSetString(ev, next)
		if sc.UdAt == i && i < n {
			ud := L.NewUserData()
			ud.Metatable = mt
			return ud
		}
		t := L.NewTable()
		L.SetMetatable(t, mt)
		return t
	}
	// inner: object number `at` of a __newindex chain holds the keys
	var inner *lua.LTable
	at := 0
	if sc.Ending == "inner" {
		at = 2 + n/3
	}
	cur := base
	for i := 2; i <= n; i++ {
		cur = link(cur, i)
		if i == at {
			if t, ok := cur.(*lua.LTable); ok {
				inner = t
				t.RawSetInt(7, lua.LString("held"))
				t.RawSetString("sk", lua.LString("held"))
			}
		}
	}
	head := cur
	headT, _ := head.(*lua.LTable)
	ending := sc.Ending
	if ending == "inner" && inner == nil { // the would-be holder is the userdata link: nothing is held
		ending = "absent"
	}
	type probe struct {
		name string
		key  lua.LValue
		do   func() lua.LValue
	}
	val := lua.LString("stored")
	probes := []probe{}
	if !set {
		probes = append(probes,
			probe{"GetTable(number key)", lua.LNumber(7), func() lua.LValue { return L.GetTable(head, lua.LNumber(7)) }},
			probe{"GetTable(string key)", lua.LString("sk"), func() lua.LValue { return L.GetTable(head, lua.LString("sk")) }},
			probe{"GetField", lua.LString("sk"), func() lua.LValue { return L.GetField(head, "sk") }})
	} else {
		probes = append(probes,
			probe{"SetTable(number key)", lua.LNumber(7), func() lua.LValue { L.SetTable(head, lua.LNumber(7), val); return lua.LNil }},
			probe{"SetTable(string key)", lua.LString("sk"), func() lua.LValue { L.SetTable(head, lua.LString("sk"), val); return lua.LNil }},
			probe{"SetField", lua.LString("sk2"), func() lua.LValue { L.SetField(head, "sk2", val); return lua.LNil }})
	}
	for _, p := range probes {
		calls, seenObj, seenKey, seenVal = 0, nil, nil, nil
		var got lua.LValue
		failed, msg := protect(L, func() { got = p.do() })
		nm := fmt.Sprintf("%s on a %s chain of %d objects ending %s", p.name, ev, n, sc.Ending)
		held := ending == "inner" && p.name != "SetField" // "sk2" is held nowhere
		tooLong := n > 100 && !held                       // a holder ends the walk early (within depth here)
		if len(msg) >= 5 && msg[:5] == "STACK" {
			bad = append(bad, nm+": "+msg)
		}
		if tooLong {
			if !failed || calls != 0 {
				bad = append(bad, fmt.Sprintf("%s: a chain beyond the documented depth must be an error (failed=%v, %d handler calls)", nm, failed, calls))
			}
			continue
		}
		if failed {
			bad = append(bad, nm+": raised "+msg+" (Lua 5.1 walks a chain of up to 100 objects completely)")
			continue
		}
		switch {
		case ending == "inner" && !held:
			if baseT.RawGetString("sk2") != val {
				bad = append(bad, nm+": the value did not arrive in the last object")
			}
			baseT.RawSetString("sk2", lua.LNil)
		case ending == "inner":
			if inner.RawGet(p.key) != val || calls != 0 {
				bad = append(bad, nm+": a key present in an inner table is raw-assigned there")
			}
			inner.RawSet(p.key, lua.LString("held"))
		case ending == "absent" && !set:
			if got != lua.LNil {
				bad = append(bad, fmt.Sprintf("%s: got %v, Lua 5.1: nil", nm, got))
			}
		case ending == "hit":
			want := lua.LString("vsk")
			if p.key == lua.LNumber(7) {
				want = "v7"
			}
			if got != want {
				bad = append(bad, fmt.Sprintf("%s: got %v, Lua 5.1: %v", nm, got, want))
			}
		case ending == "absent" && set:
			if baseT.RawGet(p.key) != val {
				bad = append(bad, nm+": the value did not arrive in the last object")
			}
			baseT.RawSet(p.key, lua.LNil)
		default: // a handler on the last object
			if calls != 1 || seenObj != base || seenKey != p.key || (set && seenVal != val) {
				bad = append(bad, fmt.Sprintf("%s: the last object's handler must run once with (last object, key%s); ran %d time(s), first argument is the last object: %v, key %v",
					nm, map[bool]string{true: ", value", false: ""}[set], calls, seenObj == base, seenKey))
			}
			if !set && got != lua.LString("from-handler") {
				bad = append(bad, fmt.Sprintf("%s: got %v, Lua 5.1: the handler's first result", nm, got))
			}
		}
		if set && headT != nil && n > 1 && headT != inner && headT.RawGet(p.key) != lua.LNil {
			bad = append(bad, nm+": the value was stored in the indexed object although it has __newindex")
		}
	}
	// raw access to the head never walks the chain and never calls
	if headT != nil && n > 1 {
		calls = 0
		if L.RawGet(headT, lua.LNumber(7)) != lua.LNil && inner != headT {
			bad = append(bad, "RawGet followed the chain")
		}
		L.RawSet(headT, lua.LString("rawk"), lua.LNumber(1))
		if headT.RawGetString("rawk") != lua.LNumber(1) || calls != 0 {
			bad = append(bad, "RawSet did not store in the table itself / called a handler")
		}
		headT.RawSetString("rawk", lua.LNil)
	}
	return bad
}

func runApiScenario(L *lua.LState, sc apiScenario) (bad []string) {
	defer func() {
		if r := recover(); r != nil {
			bad = append(bad, fmt.Sprintf("Go panic escaped: %v", r))
		}
	}()
	if sc.Api == "equal" {
		return runEqual(L, sc)
	}
	return runChain(L, sc)
}

func addApiCase(w *lib.Writer, sc apiScenario, bad []string) {
	class := "api-equal"
	if sc.Api == "chain" {
		class = "api-chain" + sc.Event
	}
	obs := "as Lua 5.1 prescribes"
	if len(bad) > 0 {
		obs = bad[0]
	}
	id := w.Add(lib.Case{Input: map[string]any{"api_scenario": sc}, Observed: obs, Class: class, Nontrivial: true, Coq: "CProg [] (Outcome [] (OOk []))"})
	w.Meta.GoOnlyChecked++
	if len(bad) > 0 {
		if len(bad) > 4 {
			bad = bad[:4]
		}
		w.GoFail(id, fmt.Sprintf("host API scenario %+v: %q", sc, bad))
	}
}

func apiExtra(w *lib.Writer, tier string, seed uint64) {
	L := lua.NewState()
	defer L.Close()
	for _, sc := range apiScenarios() {
		addApiCase(w, sc, runApiScenario(L, sc))
	}
}

// extraReplay re-runs one Go-side scenario (a metamethod program or a host API scenario) of a replay file.
func extraReplay(w *lib.Writer, file []byte) bool {
	var rp struct {
		Input struct {
			MetaExtra string       `json:"meta_extra"`
			Api       *apiScenario `json:"api_scenario"`
		} `json:"input"`
	}
	if json.Unmarshal(file, &rp) != nil {
		return false
	}
	if rp.Input.Api != nil {
		L := lua.NewState()
		defer L.Close()
		addApiCase(w, *rp.Input.Api, runApiScenario(L, *rp.Input.Api))
		return true
	}
	if rp.Input.MetaExtra != "" {
		for _, p := range metaExtraProgs {
			if p.name == rp.Input.MetaExtra {
				runMetaExtraProg(w, p.name, p.src, p.want, p.kf)
				return true
			}
		}
	}
	return false
}
