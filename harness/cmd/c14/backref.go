package main

import (
	"fmt"
	"strings"

	"verifh/lib"
)

// Stream "backref" (wave 5): back-references at EVERY position relative to the captures of the
// pattern -- before the capture is opened (forward reference), between its parentheses (open),
// after it is closed (valid), to a capture that does not exist, to a position capture -- on
// subjects built from the pattern's own witness so that the matcher really reaches the
// back-reference; and malformed pattern tails behind a prefix that matches.  lstrlib raises
// "invalid capture index" whenever an invalid reference is reached; gopher-lua must raise an error
// or report no match, never a match.

// tok: one token of a pattern skeleton with the text it matches
type tok struct {
	p, w  string
	open  bool // "("
	close bool // ")"
	pos   bool // "()"
}

var brLits = []tok{{p: "a", w: "a"}, {p: "b", w: "b"}, {p: "%d", w: "5"}, {p: ".", w: "x"}, {p: "[ab]", w: "b"}, {p: "%a", w: "q"}}
var brQuants = []tok{{p: "a*", w: "aa"}, {p: "b+", w: "bb"}, {p: "a-", w: ""}, {p: "x?", w: "x"}, {p: ".-", w: ""}, {p: "%d*", w: ""}}

func brSkeleton(r *lib.Rand, depth, n int, ncap *int) []tok {
	var ts []tok
	for i := 0; i < n; i++ {
		switch r.Pick(38, 17, 33, 12) {
		case 0:
			ts = append(ts, brLits[r.Intn(len(brLits))])
		case 1:
			ts = append(ts, brQuants[r.Intn(len(brQuants))])
		case 2:
			if depth >= 2 || *ncap >= 9 {
				ts = append(ts, brLits[r.Intn(len(brLits))])
				continue
			}
			*ncap++
			ts = append(ts, tok{p: "(", open: true})
			ts = append(ts, brSkeleton(r, depth+1, r.Range(0, 2), ncap)...)
			ts = append(ts, tok{p: ")", close: true})
		default:
			if *ncap >= 9 {
				continue
			}
			*ncap++
			ts = append(ts, tok{p: "()", pos: true})
		}
	}
	return ts
}

// brInsert places "%N" before token index at (at == len(ts): at the end)
type brRef struct{ at, n int }

// brRender: pattern text, a subject text the pattern is meant to match, and the kind of the
// worst back-reference (valid < pos < none < open < forward in reporting priority)
func brRender(ts []tok, refs []brRef) (pat, wit, kind string) {
	total := 0
	for _, t := range ts {
		if t.open || t.pos {
			total++
		}
	}
	var pb, wb strings.Builder
	type capst struct {
		start  int
		closed bool
		pos    bool
		w      string
	}
	caps := []capst{}
	var stack []int
	rank := map[string]int{"": 0, "valid": 1, "pos": 2, "none": 3, "open": 4, "forward": 5}
	upd := func(k string) {
		if rank[k] > rank[kind] {
			kind = k
		}
	}
	emitRefs := func(i int) {
		for _, rf := range refs {
			if rf.at != i {
				continue
			}
			fmt.Fprintf(&pb, "%%%d", rf.n)
			switch {
			case rf.n > total:
				upd("none")
			case rf.n > len(caps):
				upd("forward")
			case caps[rf.n-1].pos:
				upd("pos")
			case !caps[rf.n-1].closed:
				upd("open")
			default:
				upd("valid")
				wb.WriteString(caps[rf.n-1].w)
			}
		}
	}
	for i, t := range ts {
		emitRefs(i)
		pb.WriteString(t.p)
		switch {
		case t.open:
			caps = append(caps, capst{start: wb.Len()})
			stack = append(stack, len(caps)-1)
		case t.close:
			k := stack[len(stack)-1]
			stack = stack[:len(stack)-1]
			caps[k].closed = true
			caps[k].w = wb.String()[caps[k].start:]
		case t.pos:
			caps = append(caps, capst{closed: true, pos: true})
		default:
			wb.WriteString(t.w)
		}
	}
	emitRefs(len(ts))
	return pb.String(), wb.String(), kind
}

// brRun: the entry points on one (pattern, witness): a subject around the witness, the witness
// twice (a second match after a successful one), and a failed partial attempt before the full
// witness (an earlier attempt of the same Find call has written capture slots)
func brRun(w *lib.Writer, pl *pool, r *lib.Rand, p, wit, origin string, all bool) {
	junk := []byte("ab5x ")
	sA := string(r.Bytes(r.Range(0, 3), junk)) + wit + string(r.Bytes(r.Range(0, 2), junk))
	sB := wit + wit
	sC := wit[:len(wit)/2] + "#" + wit + "#"
	if len(wit) == 0 {
		sB, sC = "ab", "a#b"
	}
	repl := []string{"<%0>", "<%1>", "[%0|%1]", "%2", ""}[r.Intn(5)]
	cs := []in{
		{Fn: "find", S: hx(sA), P: hx(p), Src: origin},
		{Fn: []string{"find", "match"}[r.Intn(2)], S: hx(sC), P: hx(p), Init: i64(int64(r.Range(-len(sC)-1, len(sC)+1))), Src: origin},
		{Fn: "gmatch", S: hx(sB), P: hx(p), Src: origin},
		{Fn: "gsub", S: hx([]string{sB, sC}[r.Intn(2)]), P: hx(p), Repl: &replIn{Kind: "str", Str: hx(repl)}, Src: origin},
		{Fn: "pmfind", S: hx(sB), P: hx(p), Off: int64(r.Range(0, 1)), Limit: i64([]int64{-1, 1, 2}[r.Intn(3)]), Src: origin},
		{Fn: "match", S: hx(wit), P: hx(p), Src: origin},
	}
	if all {
		for _, c := range cs {
			runCase(w, pl, c)
		}
		return
	}
	runCase(w, pl, cs[0])
	runCase(w, pl, cs[1+r.Intn(len(cs)-1)])
}

var brTails = []string{"(", "(a", ")", "%", "%b", "%b(", "[a", "[^", "[", "[%", "[a-", "(()", "%0"}

func backrefStream(w *lib.Writer, pl *pool, r *lib.Rand, thorough bool) {
	mk := func(ps ...string) []tok {
		var ts []tok
		for _, p := range ps {
			switch p {
			case "(":
				ts = append(ts, tok{p: p, open: true})
			case ")":
				ts = append(ts, tok{p: p, close: true})
			case "()":
				ts = append(ts, tok{p: p, pos: true})
			case "a*":
				ts = append(ts, tok{p: p, w: "aa"})
			default:
				ts = append(ts, tok{p: p, w: p})
			}
		}
		return ts
	}
	// (a) systematic: fixed skeletons x every insertion point x every N in 1..captures+1
	skels := [][]tok{
		mk("(", "a", ")"),
		mk("(", "a", ")", "(", "b", ")"),
		mk("()"),
		mk("(", "(", "a", ")", "b", ")"),
		mk("a*", "(", "b", ")"),
		mk("()", "(", "a", ")"),
	}
	for _, sk := range skels {
		total := 0
		for _, t := range sk {
			if t.open || t.pos {
				total++
			}
		}
		for at := 0; at <= len(sk); at++ {
			for n := 1; n <= total+1; n++ {
				p, wit, kind := brRender(sk, []brRef{{at, n}})
				brRun(w, pl, r, p, wit, "backref-"+kind, thorough)
			}
		}
	}
	// (b) the %1..%9 boundary: 8, 9 and 10 captures with %8 / %9 in front, in the middle, at the end
	for _, k := range []int{8, 9, 10} {
		var sk []tok
		for i := 0; i < k; i++ {
			sk = append(sk, mk("(", "a", ")")...)
		}
		for _, n := range []int{8, 9} {
			for _, at := range []int{0, 3 * 4, len(sk)} {
				p, wit, kind := brRender(sk, []brRef{{at, n}})
				c := in{Fn: []string{"find", "gmatch", "gsub"}[r.Intn(3)], S: hx("x" + wit + wit), P: hx(p), Src: "backref-" + kind}
				if c.Fn == "gsub" {
					c.Repl = &replIn{Kind: "str", Str: hx(fmt.Sprintf("<%%%d>", n))}
				}
				runCase(w, pl, c)
			}
		}
		// replacement-string references at the same boundary
		p, wit, _ := brRender(sk, nil)
		for _, n := range []int{k - 1, k, k + 1} {
			if n > 9 {
				continue
			}
			runCase(w, pl, in{Fn: "gsub", S: hx(wit + "b" + wit), P: hx(p), Repl: &replIn{Kind: "str", Str: hx(fmt.Sprintf("%%%d.", n))}, Src: "repl-index"})
		}
	}
	// (c) random skeletons, one or two references anywhere, optional anchors
	nrand := 70
	if thorough {
		nrand = 6000
	}
	for i := 0; i < nrand; i++ {
		ncap := 0
		sk := brSkeleton(r, 0, r.Range(1, 4), &ncap)
		total := ncap
		nref := 1
		if r.Chance(25) {
			nref = 2
		}
		var refs []brRef
		for k := 0; k < nref; k++ {
			refs = append(refs, brRef{at: r.Intn(len(sk) + 1), n: r.Range(1, min(9, total+1))})
		}
		p, wit, kind := brRender(sk, refs)
		origin := "backref-" + kind
		if r.Chance(18) {
			// a malformed tail behind a prefix that matches
			p += brTails[r.Intn(len(brTails))]
			origin = "badtail"
		} else {
			if r.Chance(12) {
				p = "^" + p
			}
			if r.Chance(12) {
				p += "$"
			}
		}
		brRun(w, pl, r, p, wit, origin, thorough || r.Chance(25))
	}
}
