package main

import (
	"bufio"
	"encoding/hex"
	"encoding/json"
	"fmt"
	"math"
	"os"
	"os/exec"
	"strconv"
	"strings"
	"time"

	lua "github.com/yuin/gopher-lua"
	"github.com/yuin/gopher-lua/pm"
	"verifh/lib"
)

// ---- replayable input ------------------------------------------------------

type tabEntry struct {
	KeyStr *string `json:"key_hex,omitempty"` // string key (hex) ...
	KeyNum *int64  `json:"key_num,omitempty"` // ... or number key
	Val    *string `json:"val_hex,omitempty"` // string value (hex); nil with Num nil = false
	Num    *int64  `json:"val_num,omitempty"` // number value
	Bad    string  `json:"val_bad,omitempty"` // a value that is no valid replacement: table | true | func | userdata
}

type replIn struct {
	Kind string     `json:"kind"` // str | num | tab | fn
	Str  string     `json:"str_hex,omitempty"`
	Num  int64      `json:"num,omitempty"`
	Tab  []tabEntry `json:"tab,omitempty"`
	Rets []tabEntry `json:"rets,omitempty"` // fn: k-th call returns Val/Num, or false
}

type in struct {
	Fn    string  `json:"fn"` // find | match | gmatch | gsub | pmfind | prog
	S     string  `json:"s_hex"`
	P     string  `json:"p_hex"`
	Init  *int64  `json:"init,omitempty"`
	Limit *int64  `json:"limit,omitempty"`
	Repl  *replIn `json:"repl,omitempty"`
	Off   int64   `json:"off,omitempty"`
	SNum  bool    `json:"s_is_number,omitempty"` // pass the subject (decimal digits) as a Lua number
	Kind  int     `json:"kind,omitempty"`        // fn=big: 0 = find(("a"):rep(N), "a*"), 1 = find("abc", ("("):rep(N)), 2 = gsub("a","a",("%%"):rep(N)), 3 = gsub("ab","b",("%0%%"):rep(N))
	N     int64   `json:"n,omitempty"`
	Plain bool    `json:"plain,omitempty"` // find: pass `true` as 4th argument ...
	Extra int     `json:"extra,omitempty"` // ... followed by this many nil arguments
	Nested bool   `json:"nested,omitempty"` // gsub with a function / gmatch: other pattern calls (one of them a caught error) run between the matches
	Src   string  `json:"origin,omitempty"` // generator stream, for the distribution table
}

// ---- what the child reports -------------------------------------------------

type val struct {
	T string `json:"t"` // nil | num | str | other
	N int64  `json:"n,omitempty"`
	S string `json:"s,omitempty"` // hex
}

type out struct {
	Kind   string      `json:"kind"` // ok | err | panic
	Msg    string      `json:"msg,omitempty"`
	Vals   []val       `json:"vals,omitempty"`
	Tuples [][]val     `json:"tuples,omitempty"`
	Str    string      `json:"str,omitempty"`
	Count  int64       `json:"count,omitempty"`
	Calls  [][]val     `json:"calls,omitempty"`
	MDs    [][][2]int64 `json:"mds,omitempty"`
	Head   bool        `json:"head,omitempty"`
	Rows   [][]int     `json:"rows,omitempty"`
	Bad    []string    `json:"bad,omitempty"` // Go-side failures (wrong shape, subject modified, ...)
}

func unhex(s string) []byte {
	b, err := hex.DecodeString(s)
	if err != nil {
		panic("bad hex " + s)
	}
	return b
}

func hx(s string) string { return hex.EncodeToString([]byte(s)) }

// ---- child: runs the real code ----------------------------------------------

var cL *lua.LState

func lvToVal(v lua.LValue, bad *[]string) val {
	switch x := v.(type) {
	case *lua.LNilType:
		return val{T: "nil"}
	case lua.LNumber:
		f := float64(x)
		if f != math.Trunc(f) || math.Abs(f) > 1e15 {
			*bad = append(*bad, fmt.Sprintf("non-integer number result %v", f))
		}
		return val{T: "num", N: int64(f)}
	case lua.LString:
		return val{T: "str", S: hx(string(x))}
	}
	*bad = append(*bad, "result of type "+v.Type().String())
	return val{T: "other"}
}

// pcall: results of fn(args...) or the error classification
func pcall(L *lua.LState, fn lua.LValue, args ...lua.LValue) (res []lua.LValue, kind, msg string) {
	top := L.GetTop()
	err := L.CallByParam(lua.P{Fn: fn, NRet: lua.MultRet, Protect: true}, args...)
	if err != nil {
		L.SetTop(top)
		kind = "err"
		if ae, ok := err.(*lua.ApiError); ok && ae.Type == lua.ApiErrorPanic {
			kind = "panic"
		}
		m := err.Error()
		if len(m) > 200 {
			m = m[:200]
		}
		return nil, kind, m
	}
	n := L.GetTop() - top
	for i := 1; i <= n; i++ {
		res = append(res, L.Get(top+i))
	}
	L.SetTop(top)
	return res, "ok", ""
}

func entryToLV(e tabEntry) lua.LValue {
	switch e.Bad {
	case "table":
		return cL.NewTable()
	case "true":
		return lua.LTrue
	case "func":
		return cL.NewFunction(func(L *lua.LState) int { return 0 })
	case "userdata":
		return cL.NewUserData()
	}
	if e.Val != nil {
		return lua.LString(string(unhex(*e.Val)))
	}
	if e.Num != nil {
		return lua.LNumber(*e.Num)
	}
	return lua.LFalse
}

// nestedProbe: pattern-matching calls made while an outer gsub/gmatch is in progress (from the
// replacement function, between two iterator calls): results fixed by the 5.1 manual, one of the
// calls raises (and catches) a pattern error.  They must neither be disturbed by the outer call nor
// disturb it (the outer observation is compared with the model as if they were absent).
func nestedProbe(L *lua.LState, bad *[]string) {
	strlib := L.GetGlobal("string")
	str := func(vs []lua.LValue) string {
		parts := []string{}
		for _, v := range vs {
			parts = append(parts, v.String())
		}
		return strings.Join(parts, ",")
	}
	expect := func(what, want string, res []lua.LValue, kind string) {
		got := kind
		if kind == "ok" {
			got = str(res)
		}
		if got != want {
			*bad = append(*bad, fmt.Sprintf("nested %s inside a running gsub/gmatch gave %q, expected %q", what, got, want))
		}
	}
	res, kind, _ := pcall(L, L.GetField(strlib, "find"), lua.LString("key = value"), lua.LString("(%w+)%s*=%s*()(%w+)"))
	expect("find", "1,11,key,7,value", res, kind)
	res, kind, _ = pcall(L, L.GetField(strlib, "find"), lua.LString("abc"), lua.LString("(b"))
	expect("find with an unfinished capture", "err", res, kind)
	res, kind, _ = pcall(L, L.GetField(strlib, "gsub"), lua.LString("abc abc"), lua.LString("(b)(c)"), lua.LString("%2%1"))
	expect("gsub", "acb acb,2", res, kind)
	res, kind, _ = pcall(L, L.GetField(strlib, "gmatch"), lua.LString("x1 y2"), lua.LString("%a(%d)"))
	if kind == "ok" && len(res) == 1 {
		f := res[0]
		r1, k1, _ := pcall(L, f)
		r2, k2, _ := pcall(L, f)
		r3, k3, _ := pcall(L, f)
		if len(r3) == 1 && r3[0] == lua.LNil {
			r3 = nil // "no more matches" is no value (5.1's gmatch_aux) or a nil
		}
		expect("gmatch", "ok,1;ok,2;ok,", nil, k1+","+str(r1)+";"+k2+","+str(r2)+";"+k3+","+str(r3))
	} else {
		expect("gmatch", "one iterator", nil, kind)
	}
}

func runReal(c in) (o out) {
	defer func() {
		if v := recover(); v != nil {
			o = out{Kind: "panic", Msg: fmt.Sprint(v)}
			if len(o.Msg) > 200 {
				o.Msg = o.Msg[:200]
			}
			cL = nil // the state may be inconsistent
		}
	}()
	if cL == nil {
		cL = lua.NewState()
	}
	L := cL
	s := string(unhex(c.S))
	p := string(unhex(c.P))
	sCopy := string(append([]byte{}, s...))
	strlib := L.GetGlobal("string")
	var subj lua.LValue = lua.LString(s)
	if c.SNum {
		f, _ := strconv.ParseFloat(s, 64)
		subj = lua.LNumber(f)
	}
	var bad []string
	conv := func(rs []lua.LValue) []val {
		vs := make([]val, 0, len(rs))
		for _, r := range rs {
			vs = append(vs, lvToVal(r, &bad))
		}
		return vs
	}
	switch c.Fn {
	case "find", "match":
		args := []lua.LValue{subj, lua.LString(p)}
		if c.Init != nil {
			args = append(args, lua.LNumber(*c.Init))
		} else if c.Plain {
			args = append(args, lua.LNumber(1))
		}
		if c.Plain {
			args = append(args, lua.LTrue)
			for k := 0; k < c.Extra; k++ {
				args = append(args, lua.LNil)
			}
		}
		res, kind, msg := pcall(L, L.GetField(strlib, c.Fn), args...)
		o = out{Kind: kind, Msg: msg, Vals: conv(res)}
	case "gmatch":
		res, kind, msg := pcall(L, L.GetField(strlib, "gmatch"), subj, lua.LString(p))
		o = out{Kind: kind, Msg: msg}
		if kind != "ok" {
			break
		}
		// Lua 5.1: ONE value, a self-contained iterator function
		if len(res) != 1 || res[0].Type() != lua.LTFunction {
			bad = append(bad, fmt.Sprintf("gmatch returned %d values (one iterator function expected)", len(res)))
			break
		}
		f := res[0]
		o.Tuples = [][]val{}
		for k := 0; ; k++ {
			// called without arguments, and as the generic for calls it, alternately
			var r []lua.LValue
			var kd, m string
			if k%2 == 0 {
				r, kd, m = pcall(L, f)
			} else {
				r, kd, m = pcall(L, f, lua.LNil, lua.LNil)
			}
			if kd != "ok" {
				o.Kind, o.Msg = kd, m
				break
			}
			if len(r) == 0 || r[0] == lua.LNil {
				break
			}
			o.Tuples = append(o.Tuples, conv(r))
			if c.Nested {
				nestedProbe(L, &bad)
			}
			if k > len(s)+3 {
				bad = append(bad, "gmatch iterator yields more matches than the subject has positions")
				break
			}
		}
		if o.Kind == "ok" {
			// exhausted iterators stay exhausted; a stray argument is ignored
			r, kd, m := pcall(L, f, L.NewTable())
			if kd != "ok" {
				o.Kind, o.Msg = kd, "after exhaustion: "+m
			} else if len(r) != 0 && r[0] != lua.LNil {
				bad = append(bad, "gmatch iterator returned a value after exhaustion")
			}
		}
	case "big":
		var res []lua.LValue
		var kind, msg string
		if c.Kind == 0 {
			res, kind, msg = pcall(L, L.GetField(strlib, "find"), lua.LString(strings.Repeat("a", int(c.N))), lua.LString("a*"))
		} else if c.Kind == 1 {
			res, kind, msg = pcall(L, L.GetField(strlib, "find"), lua.LString("abc"), lua.LString(strings.Repeat("(", int(c.N))))
		} else {
			// long replacement strings: the result is reported as (length, count, number of '%')
			if c.Kind == 2 {
				res, kind, msg = pcall(L, L.GetField(strlib, "gsub"), lua.LString("a"), lua.LString("a"), lua.LString(strings.Repeat("%%", int(c.N))))
			} else {
				res, kind, msg = pcall(L, L.GetField(strlib, "gsub"), lua.LString("ab"), lua.LString("b"), lua.LString(strings.Repeat("%0%%", int(c.N))))
			}
			if kind == "ok" {
				if len(res) == 2 {
					if rs, ok := res[0].(lua.LString); ok {
						res = []lua.LValue{lua.LNumber(len(rs)), res[1], lua.LNumber(strings.Count(string(rs), "%"))}
					}
				} else {
					bad = append(bad, "gsub did not return two values")
				}
			}
		}
		o = out{Kind: kind, Msg: msg, Vals: conv(res)}
	case "gsub":
		args := []lua.LValue{subj, lua.LString(p)}
		var calls [][]val
		ncall := 0
		switch c.Repl.Kind {
		case "str":
			args = append(args, lua.LString(string(unhex(c.Repl.Str))))
		case "num":
			args = append(args, lua.LNumber(c.Repl.Num))
		case "tab":
			t := L.NewTable()
			for _, e := range c.Repl.Tab {
				var k lua.LValue
				if e.KeyStr != nil {
					k = lua.LString(string(unhex(*e.KeyStr)))
				} else {
					k = lua.LNumber(*e.KeyNum)
				}
				t.RawSet(k, entryToLV(e))
			}
			args = append(args, t)
		case "fn":
			rets := c.Repl.Rets
			args = append(args, L.NewFunction(func(L *lua.LState) int {
				n := L.GetTop()
				var a []val
				for i := 1; i <= n; i++ {
					a = append(a, lvToVal(L.Get(i), &bad))
				}
				calls = append(calls, a)
				k := ncall
				ncall++
				if c.Nested {
					nestedProbe(L, &bad)
				}
				if k < len(rets) {
					L.Push(entryToLV(rets[k]))
				} else {
					L.Push(lua.LNil)
				}
				return 1
			}))
		}
		if c.Limit != nil {
			args = append(args, lua.LNumber(*c.Limit))
		}
		res, kind, msg := pcall(L, L.GetField(strlib, "gsub"), args...)
		o = out{Kind: kind, Msg: msg, Calls: calls}
		if kind == "ok" {
			if len(res) != 2 {
				bad = append(bad, fmt.Sprintf("gsub returned %d values", len(res)))
			} else {
				rs, ok1 := res[0].(lua.LString)
				rn, ok2 := res[1].(lua.LNumber)
				if !ok1 || !ok2 {
					bad = append(bad, "gsub result is not (string, number)")
				}
				o.Str, o.Count = hx(string(rs)), int64(rn)
			}
		}
	case "pmfind":
		var lim int64 = -1
		if c.Limit != nil {
			lim = *c.Limit
		}
		mds, err := pm.Find(p, []byte(s), int(c.Off), int(lim))
		if err != nil {
			o = out{Kind: "err", Msg: err.Error()}
			break
		}
		o = out{Kind: "ok", MDs: [][][2]int64{}}
		for _, md := range mds {
			row := [][2]int64{}
			for i := 0; i < md.CaptureLength(); i++ {
				f := int64(0)
				if md.IsPosCapture(i) {
					f = 1
				}
				row = append(row, [2]int64{int64(md.Capture(i)), f})
			}
			o.MDs = append(o.MDs, row)
		}
	case "prog":
		rows, head, err := pm.VerifCompile(p)
		if err != nil {
			o = out{Kind: "err", Msg: err.Error()}
			break
		}
		o = out{Kind: "ok", Head: head, Rows: rows}
	default:
		o = out{Kind: "ok"}
		bad = append(bad, "unknown fn "+c.Fn)
	}
	if s != sCopy {
		bad = append(bad, "subject string modified in place")
	}
	if L.GetTop() != 0 {
		bad = append(bad, fmt.Sprintf("value stack not restored (top=%d)", L.GetTop()))
		L.SetTop(0)
	}
	o.Bad = bad
	return o
}

func childMain() {
	rd := bufio.NewReaderSize(os.Stdin, 1<<20)
	wr := bufio.NewWriter(os.Stdout)
	for {
		line, err := rd.ReadBytes('\n')
		if len(line) > 0 {
			var c in
			if e := json.Unmarshal(line, &c); e != nil {
				fmt.Fprintln(wr, `{"kind":"panic","msg":"bad input line"}`)
			} else {
				o := runReal(c)
				b, _ := json.Marshal(o)
				wr.Write(b)
				wr.WriteByte('\n')
			}
			wr.Flush()
		}
		if err != nil {
			return
		}
	}
}

// ---- parent: worker pool of one child with a per-case time limit ---------------

type pool struct {
	cmd      *exec.Cmd
	in       *bufio.Writer
	lines    chan string
	restarts int
}

func newPool() *pool { return &pool{} }

func (p *pool) start() {
	cmd := exec.Command(os.Args[0], "child")
	cmd.Env = append(os.Environ(), "GOMEMLIMIT=1GiB")
	stdin, _ := cmd.StdinPipe()
	stdout, _ := cmd.StdoutPipe()
	cmd.Stderr = nil
	if err := cmd.Start(); err != nil {
		panic(err)
	}
	p.cmd = cmd
	p.in = bufio.NewWriter(stdin)
	ch := make(chan string, 1)
	p.lines = ch
	go func() {
		rd := bufio.NewReaderSize(stdout, 1<<20)
		for {
			l, err := rd.ReadString('\n')
			if l != "" {
				ch <- l
			}
			if err != nil {
				close(ch)
				return
			}
		}
	}()
}

func (p *pool) kill() {
	if p.cmd != nil {
		p.cmd.Process.Kill()
		p.cmd.Wait()
		p.cmd = nil
	}
}

func (p *pool) close() { p.kill() }

const caseLimit = 5 * time.Second

// exec runs one case in the child; crash/timeout are reported as such.
func (p *pool) exec(c in) (o out, fail string) {
	if p.cmd == nil {
		p.start()
	}
	b, _ := json.Marshal(c)
	p.in.Write(b)
	p.in.WriteByte('\n')
	if err := p.in.Flush(); err != nil {
		p.kill()
		p.restarts++
		return out{Kind: "panic", Msg: "worker died"}, "worker process died before the case"
	}
	select {
	case l, ok := <-p.lines:
		if !ok {
			p.kill()
			p.restarts++
			return out{Kind: "panic", Msg: "worker crashed"}, "the worker process crashed on this case (fatal Go error)"
		}
		if err := json.Unmarshal([]byte(l), &o); err != nil {
			return out{Kind: "panic", Msg: "bad worker output"}, "unreadable worker output: " + strings.TrimSpace(l[:min(len(l), 100)])
		}
		return o, ""
	case <-time.After(caseLimit):
		p.kill()
		p.restarts++
		return out{Kind: "panic", Msg: "timeout"}, "no answer within 5 s (hang or runaway backtracking)"
	}
}

// ---- Gallina printing ----------------------------------------------------------

func coqVal(v val) string {
	switch v.T {
	case "nil":
		return "VNil"
	case "num":
		return "VNum " + lib.CoqZ(v.N)
	case "str":
		return "VStr " + lib.CoqBytes(unhex(v.S))
	}
	return "VNum (-777)"
}

func coqVals(vs []val) string {
	it := make([]string, len(vs))
	for i, v := range vs {
		it[i] = coqVal(v)
	}
	return lib.CoqList(it)
}

func coqTuples(ts [][]val) string {
	it := make([]string, len(ts))
	for i, t := range ts {
		it[i] = coqVals(t)
	}
	return lib.CoqList(it)
}

func coqOptZ(p *int64) string {
	if p == nil {
		return "None"
	}
	return "(Some " + lib.CoqZ(*p) + ")"
}

func coqOptBytes(e tabEntry) string {
	if e.Bad != "" {
		return "RBad"
	}
	if e.Val != nil {
		return "(RSome " + lib.CoqBytes(unhex(*e.Val)) + ")"
	}
	if e.Num != nil {
		return "(RSome " + lib.CoqBytes([]byte(fmt.Sprint(*e.Num))) + ")"
	}
	return "RNone"
}

func coqRepl(r *replIn) string {
	switch r.Kind {
	case "str":
		return "(RStr " + lib.CoqBytes(unhex(r.Str)) + ")"
	case "num":
		return "(RStr " + lib.CoqBytes([]byte(fmt.Sprint(r.Num))) + ")"
	case "tab":
		// later assignments to the same key win in the Lua table: print in reverse, first hit wins
		it := make([]string, len(r.Tab))
		for j := range r.Tab {
			i := len(r.Tab) - 1 - j
			e := r.Tab[j]
			k := ""
			if e.KeyStr != nil {
				k = "VStr " + lib.CoqBytes(unhex(*e.KeyStr))
			} else {
				k = "VNum " + lib.CoqZ(*e.KeyNum)
			}
			it[i] = "(" + k + ", " + coqOptBytes(e) + ")"
		}
		return "(RTab " + lib.CoqList(it) + ")"
	case "fn":
		it := make([]string, len(r.Rets))
		for i, e := range r.Rets {
			it[i] = coqOptBytes(e)
		}
		return "(RFn " + lib.CoqList(it) + ")"
	}
	return "(RStr [])"
}

func obsWrap(kind, okTerm string) string {
	switch kind {
	case "ok":
		return "(OOk " + okTerm + ")"
	case "err":
		return "OErr"
	}
	return "OPanic"
}

func coqCase(c in, o out) string {
	s, p := lib.CoqBytes(unhex(c.S)), lib.CoqBytes(unhex(c.P))
	switch c.Fn {
	case "find":
		if c.Plain {
			init := c.Init
			if init == nil {
				one := int64(1)
				init = &one
			}
			return fmt.Sprintf("CFindPlain %s %s %s %d %s", s, p, coqOptZ(init), c.Extra, obsWrap(o.Kind, coqVals(o.Vals)))
		}
		return fmt.Sprintf("CFind %s %s %s %s", s, p, coqOptZ(c.Init), obsWrap(o.Kind, coqVals(o.Vals)))
	case "match":
		return fmt.Sprintf("CMatch %s %s %s %s", s, p, coqOptZ(c.Init), obsWrap(o.Kind, coqVals(o.Vals)))
	case "gmatch":
		return fmt.Sprintf("CGmatch %s %s %s", s, p, obsWrap(o.Kind, coqTuples(o.Tuples)))
	case "gsub":
		ok := "(" + lib.CoqBytes(unhex(o.Str)) + ", " + lib.CoqZ(o.Count) + ", " + coqTuples(o.Calls) + ")"
		return fmt.Sprintf("CGsub %s %s %s %s %s", s, p, coqRepl(c.Repl), coqOptZ(c.Limit), obsWrap(o.Kind, ok))
	case "pmfind":
		ms := make([]string, len(o.MDs))
		for i, md := range o.MDs {
			it := make([]string, len(md))
			for j, e := range md {
				it[j] = "(" + lib.CoqZ(e[0]) + ", " + lib.CoqBool(e[1] == 1) + ")"
			}
			ms[i] = lib.CoqList(it)
		}
		lim := int64(-1)
		if c.Limit != nil {
			lim = *c.Limit
		}
		return fmt.Sprintf("CPmFind %s %s %s %s %s", p, s, lib.CoqZ(c.Off), lib.CoqZ(lim), obsWrap(o.Kind, lib.CoqList(ms)))
	case "big":
		return fmt.Sprintf("CBig %d %d %s", c.Kind, c.N, obsWrap(o.Kind, coqVals(o.Vals)))
	case "prog":
		rows := make([]string, len(o.Rows))
		for i, r := range o.Rows {
			mem := make([]int64, 0, len(r))
			for _, x := range r[3:] {
				mem = append(mem, int64(x))
			}
			rows[i] = fmt.Sprintf("(%s, %s, %s, %s)", lib.CoqZ(int64(r[0])), lib.CoqZ(int64(r[1])), lib.CoqZ(int64(r[2])), lib.CoqZList(mem))
		}
		return fmt.Sprintf("CProg %s %s", p, obsWrap(o.Kind, "("+lib.CoqBool(o.Head)+", "+lib.CoqList(rows)+")"))
	}
	return "CProg [] OPanic"
}

// ---- one case ---------------------------------------------------------------------

const specials = ".%[]()*+-?^$"

func nontrivial(c in, o out) bool {
	return o.Kind == "ok" && len(c.S) > 0 && strings.ContainsAny(string(unhex(c.P)), specials)
}

// supported: inside the modelled domain (DESIGN 9.2)
func supported(c in) bool {
	p := unhex(c.P)
	ncap := 0
	for i, b := range p {
		if b == 0 {
			return false // embedded NUL: not a Lua 5.1 pattern
		}
		if b == '%' && i+1 < len(p) && p[i+1] == 'f' {
			return false // %f frontier: outside the 5.1 manual
		}
		if b == '(' {
			ncap++
		}
	}
	if ncap > 40 {
		return false // the reference side stops at LUA_MAXCAPTURES = 32; a few more are generated on purpose
	}
	if len(c.S) > 2*4096 {
		return false
	}
	if c.Fn == "pmfind" {
		if c.Off < 0 || (c.Limit != nil && (*c.Limit == 0 || *c.Limit < -1)) {
			return false // pm.Find's contract: offset >= 0, limit -1 or positive
		}
	}
	return true
}

func runCase(w *lib.Writer, pl *pool, c in) {
	if !supported(c) {
		w.Meta.Discarded++
		return
	}
	o, fail := pl.exec(c)
	id := w.NextID()
	origin := c.Src
	if origin == "" {
		origin = "replay"
	}
	kc := lib.Case{Input: c, Class: c.Fn + "/" + origin, Nontrivial: nontrivial(c, o), KF: knownFindings(c), Coq: coqCase(c, o)}
	obs := map[string]any{"kind": o.Kind}
	if o.Msg != "" {
		obs["msg"] = o.Msg
	}
	switch c.Fn {
	case "find", "match", "big":
		obs["vals"] = o.Vals
	case "gmatch":
		obs["tuples"] = o.Tuples
	case "gsub":
		obs["str"], obs["count"], obs["calls"] = o.Str, o.Count, o.Calls
	case "pmfind":
		obs["mds"] = o.MDs
	case "prog":
		obs["ninst"] = len(o.Rows)
	}
	kc.Observed = obs
	w.Add(kc)
	if fail != "" {
		w.GoFail(id, fail)
	}
	if o.Kind == "panic" && fail == "" {
		w.GoFail(id, "Go run-time panic escaped the pattern matcher: "+o.Msg)
	}
	for _, b := range o.Bad {
		w.GoFail(id, b)
	}
}

func replay(w *lib.Writer, pl *pool, path string) {
	b, err := os.ReadFile(path)
	if err != nil {
		panic(err)
	}
	var rp struct {
		Input in `json:"input"`
	}
	if err := json.Unmarshal(b, &rp); err != nil {
		panic(err)
	}
	runCase(w, pl, rp.Input)
}
