// c14: correspondence harness for property C14 (Lua patterns: find/match/gmatch/gsub and pm.Find).
package main

import (
	"fmt"
	"os"

	"verifh/lib"
)

const header = "From GL Require Import Common.Bytes Pm.Class Pm.PmTypes Pm.PmCases."

func main() {
	if len(os.Args) >= 2 && os.Args[1] == "child" {
		childMain()
		return
	}
	a := lib.ParseArgs()
	if a.Cmd != "run" {
		fmt.Fprintln(os.Stderr, "unknown command", a.Cmd)
		os.Exit(2)
	}
	shard := 400
	if a.Tier == "thorough" {
		shard = 2000
	}
	w, err := lib.NewWriter(a.Out, "C14", a.Tier, a.Seed, header, "case", shard)
	if err != nil {
		panic(err)
	}
	w.Meta.Rule = "string.find/match/gmatch/gsub called through CallByParam (gmatch driven as the generic for does), pm.Find through its exported API, " +
		"and the compiled program through the verif hook, each case in a worker child process with a 5 s limit; " +
		"bounded-exhaustive stream: patterns of length<=4 over {a,b,.,%,[,],^,$,*,+,-,?,(,),1} x subjects of length<=4 over {a,b} x init in [-5,5] " +
		"(quick: PRNG sample; thorough: all patterns of length<=3 exhaustively, length 4 sampled), grammar-generated longer patterns, malformed stream, " +
		"gsub with string/number/table/function replacements and limits (half of the function replacements and 40 % of the gmatch loops run other pattern calls, one of them a caught pattern error, between the matches); " +
		"back-reference stream: %N at every position relative to the captures (before the capture is opened, inside it, after it, non-existent, position capture; the %8/%9 boundary) and malformed tails, on subjects built from the pattern's own witness; " +
		"non-trivial = the call raised no error, the pattern contains at least one pattern special and the subject is non-empty; distinct by Gallina term"
	r := lib.NewRand(a.Seed)
	pool := newPool()
	defer pool.close()
	if a.Replay != "" {
		replay(w, pool, a.Replay)
	} else {
		corpus(w, pool)
		generate(w, pool, r, a.Tier)
	}
	w.Meta.Extra = map[string]any{"worker_restarts": pool.restarts}
	if err := w.Close(); err != nil {
		panic(err)
	}
}
