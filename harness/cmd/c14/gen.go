package main

import (
	"fmt"
	"strings"

	"verifh/lib"
)

func i64(x int64) *int64 { return &x }
func sp(s string) *string { h := hx(s); return &h }

// ---- matchers of the open known findings (predicates on the input only) -----------

// setRangeEndsWithPercent: inside a [set] a plain character is followed by "-%" (C14-10).
func setRangeEndsWithPercent(p []byte) bool {
	i := 0
	for i < len(p) {
		switch p[i] {
		case '%':
			i += 2
		case '[':
			i++
			if i < len(p) && p[i] == '^' {
				i++
			}
			first := true
			for i < len(p) && (p[i] != ']' || first) {
				first = false
				if p[i] == '%' {
					i += 2
					continue
				}
				if i+2 < len(p) && p[i+1] == '-' && p[i+2] != ']' {
					if p[i+2] == '%' {
						return true
					}
					i += 3
					continue
				}
				i++
			}
			i++
		default:
			i++
		}
	}
	return false
}

// backrefToOpenCapture: some %k stands between the parentheses of capture k (C14-9).
func backrefToOpenCapture(p []byte) bool {
	var open []int
	n := 0
	i := 0
	for i < len(p) {
		switch p[i] {
		case '%':
			if i+1 < len(p) && p[i+1] >= '1' && p[i+1] <= '9' {
				k := int(p[i+1] - '0')
				for _, o := range open {
					if o == k {
						return true
					}
				}
			}
			if i+1 < len(p) && p[i+1] == 'b' {
				i += 4
			} else {
				i += 2
			}
		case '[':
			i++
			if i < len(p) && p[i] == '^' {
				i++
			}
			first := true
			for i < len(p) && (p[i] != ']' || first) {
				first = false
				if p[i] == '%' {
					i++
				}
				i++
			}
			i++
		case '(':
			n++
			if i+1 < len(p) && p[i+1] == ')' {
				i += 2
			} else {
				open = append(open, n)
				i++
			}
		case ')':
			if len(open) > 0 {
				open = open[:len(open)-1]
			}
			i++
		default:
			i++
		}
	}
	return false
}

// replHasOtherEscape: a replacement string with '%' followed by something that is neither a
// digit nor '%', or ending in a single '%' (C14-5).
func replHasOtherEscape(r []byte) bool {
	for i := 0; i < len(r); i++ {
		if r[i] == '%' {
			if i+1 >= len(r) {
				return true
			}
			d := r[i+1]
			if !(d >= '0' && d <= '9') && d != '%' {
				return true
			}
			i++
		}
	}
	return false
}

func knownFindings(c in) []string {
	var kf []string
	p := unhex(c.P)
	if c.Fn == "gsub" && c.Repl != nil && c.Repl.Kind == "str" && replHasOtherEscape(unhex(c.Repl.Str)) {
		kf = append(kf, "C14-5")
	}
	if c.Fn == "big" && c.Kind == 0 && c.N+3 > 1000000 {
		kf = append(kf, "C14-11")
	}
	if c.Fn != "prog" && setRangeEndsWithPercent(p) {
		kf = append(kf, "C14-10")
	}
	return kf
}

// ---- corpus: witnesses of every defect of DESIGN 9.1 (C14-1..7) and of the ones found since ----

func corpus(w *lib.Writer, pl *pool) {
	f := func(fn, s, p string, init *int64) in {
		return in{Fn: fn, S: hx(s), P: hx(p), Init: init, Src: "corpus"}
	}
	g := func(s, p string, r replIn, lim *int64) in {
		return in{Fn: "gsub", S: hx(s), P: hx(p), Repl: &r, Limit: lim, Src: "corpus"}
	}
	str := func(x string) replIn { return replIn{Kind: "str", Str: hx(x)} }
	cs := []in{
		g("aaa", "a", str("b"), i64(0)),  // C14-1 (fixed)
		g("aaa", "a", str("b"), i64(-1)), // C14-1, negative limit (fixed)
		g("aaa", "a", str("b"), i64(2)),
		f("gmatch", "aaa", "^a", nil),   // C14-2 (fixed)
		f("gmatch", "^a^a", "^a", nil),  // C14-2
		f("find", "-", "[%a-z]", nil),   // C14-3 (fixed)
		f("find", "a", "[%a-z]", nil),   // C14-3
		f("find", "a", "[a-b-c]", nil),  // range followed by '-' (fixed)
		f("find", "a", "[a--]", nil),    // "--" in a set (fixed)
		f("find", ",", "[+--]", nil),    //
		f("find", "]", "[a-%]]", nil),   // C14-10 (open): range end '%'
		f("find", "", "()%1", nil),      // C14-4 (fixed)
		f("find", "abc", "()%1", nil),   // C14-4
		f("gmatch", "abc", "()%1", nil), // C14-4
		g("hello", "l", str("%x"), nil), // C14-5 (open)
		g("hello", "l", str("%"), nil),  // C14-5: trailing %
		f("find", "hello", "lo$", i64(5)),  // seeded C14-3: '$'-anchored fixed-width pattern must honour init
		f("match", "hello", "lo$", i64(5)), //
		f("find", "hello", "lo$", i64(4)),  //
		f("find", "abc", "x*", i64(10)), // C14-6 (fixed earlier for find)
		f("match", "abc", "()", i64(10)), // C14-6 (fixed)
		f("match", "abc", "x*", i64(4)),
		g("abc", "b", replIn{Kind: "num", Num: 5}, nil), // C14-7 (fixed)
		f("match", "a", "b", nil),                       // no match must be one nil (fixed)
		f("gmatch", "a", "a", nil),                      // iterator past exhaustion (fixed)
		f("find", "ab", "(a*(b)%1)", nil),               // C14-9 (fixed): back-reference to an open capture
		f("find", "xab", "(a*(b)%1)", nil),              // C14-9: was a slice bounds panic
		f("find", "xab", "(a(b)%1)", nil),               // C14-9 witness of the side report
		f("gmatch", "xab", "(a(b)%1)", nil),             //
		f("find", "b", "(a%1)", nil),                    // never reached in 5.1 (nil); an error here is allowed
		f("find", "a", "%1(a)", nil),                    // seeded C14-9 (wave 5): forward reference, reached: error
		f("gmatch", "abab", "(a)%2(b)", nil),            //
		g("abab", "%2(a)(b)", str("x"), nil),            //
		f("match", "b", "a%1(a)", nil),                  // forward reference never reached: nil or error
		g("abc", "b", replIn{Kind: "fn", Rets: []tabEntry{{Bad: "table"}}}, nil),                        // invalid replacement value (fixed)
		g("abc", "%w", replIn{Kind: "fn", Rets: []tabEntry{{Val: sp("x")}, {Bad: "true"}}}, nil),         //
		g("abc", "b", replIn{Kind: "tab", Tab: []tabEntry{{KeyStr: sp("b"), Bad: "table"}}}, nil),       //
		g("abc", "b", replIn{Kind: "tab", Tab: []tabEntry{{KeyStr: sp("b"), Bad: "func"}}}, nil),        //
		g("abc", "c", replIn{Kind: "fn", Rets: []tabEntry{{Bad: "userdata"}}}, nil),                     //
		{Fn: "find", S: hx("a.b"), P: hx("."), Init: i64(1), Plain: true, Extra: 1, Src: "corpus"},    // plain flag with 5 arguments (fixed)
		{Fn: "find", S: hx("a.b"), P: hx("."), Init: i64(1), Plain: true, Extra: 0, Src: "corpus"},
		{Fn: "find", S: hx("a+b"), P: hx("+b"), Init: i64(-2), Plain: true, Extra: 3, Src: "corpus"},
		// hunt round: gmatch must return one closure (harness protocol); subject given as a number;
		// capture limit / parser recursion; recursion cap on big subjects (C14-11, open); extreme init
		{Fn: "gsub", S: hx("123"), P: hx("x"), Repl: &replIn{Kind: "str", Str: hx("y")}, SNum: true, Src: "corpus"},
		{Fn: "gsub", S: hx("123"), P: hx("2"), Repl: &replIn{Kind: "str", Str: hx("y")}, Limit: i64(0), SNum: true, Src: "corpus"},
		{Fn: "gsub", S: hx("2009"), P: hx("%s+"), Repl: &replIn{Kind: "str", Str: ""}, SNum: true, Src: "corpus"},
		{Fn: "gsub", S: hx("123"), P: hx("2"), Repl: &replIn{Kind: "str", Str: hx("y")}, SNum: true, Src: "corpus"},
		{Fn: "find", S: hx("123"), P: hx("%d%d$"), SNum: true, Src: "corpus"},
		{Fn: "gmatch", S: hx("1234"), P: hx("%d%d"), SNum: true, Src: "corpus"},
		{Fn: "big", Kind: 1, N: 5000000, Src: "corpus"}, // was: fatal stack overflow in parsePattern (fixed)
		{Fn: "big", Kind: 1, N: 33, Src: "corpus"},
		{Fn: "big", Kind: 1, N: 3, Src: "corpus"},
		{Fn: "big", Kind: 2, N: 5000000, Src: "corpus"}, // was: fatal stack overflow in flagScanner.Next (fixed by 5c980d1)
		{Fn: "big", Kind: 2, N: 3, Src: "corpus"},
		{Fn: "big", Kind: 3, N: 2000000, Src: "corpus"},
		{Fn: "big", Kind: 3, N: 0, Src: "corpus"},
		{Fn: "big", Kind: 0, N: 999997, Src: "corpus"},  // largest subject "a*" still matches
		{Fn: "big", Kind: 0, N: 999998, Src: "corpus"},  // C14-11 (open): pattern/input too complex
		{Fn: "big", Kind: 0, N: 1100000, Src: "corpus"}, // C14-11
		f("find", "abc", "a", i64(-9223372036854775808)), // -2^63 (fixed by e961103)
		f("match", "abc", "a", i64(-9223372036854775808)),
		f("find", "abc", "c", i64(9007199254740992)), // 2^53
		f("match", "abc", "()", i64(-9007199254740992)),
		g("abc", "(%w)", str("%2"), nil),     // seeded C14-8: %N with N = captures+1
		g("abc", "(%w)(%w)", str("%3"), nil), //
		g("abc", "()", str("%2"), nil),       //
		f("find", "a", "%", nil),                        // malformed: no match
		f("find", "a", "a)", nil),
		f("find", "b", "(a$", nil),
		f("find", "a", "%1", nil),
		f("find", "aa", "(a)%2", nil),
		f("find", "hello world", "(o)( )(w)", nil),
		f("find", "hello", "()ll()", nil),
		f("match", "hello (a(b)c) x", "%b()", nil),
		f("match", "abcabc", "(abc)%1", nil),
		f("match", "  x  ", "^%s*(.-)%s*$", nil),
		f("gmatch", "one two  three", "%a+", nil),
		f("gmatch", "abc", "", nil),
		f("gmatch", "k1=v1, k2=v2", "(%w+)=(%w+)", nil),
		g("hello", "", str("-"), nil),
		g("hello world", "(%w+)", str("%1 %1"), nil),
		g("hello world", "%w+", str("%0 %0"), i64(1)),
		g("abc", "%w", str("%1"), nil),
		g("abc", "%w", str("%2"), nil),
		g("abc", "(%w)", str("%%%1"), nil),
		g("hello", "^h", str("J"), nil),
		g("hello world", "%w+", replIn{Kind: "tab", Tab: []tabEntry{{KeyStr: sp("hello"), Num: i64(1)}, {KeyStr: sp("world")}}}, nil),
		g("abc", "()b", replIn{Kind: "tab", Tab: []tabEntry{{KeyNum: i64(2), Val: sp("Q")}}}, nil),
		g("aXbY", "%u", replIn{Kind: "fn", Rets: []tabEntry{{Val: sp("<>")}, {}}}, nil),
		g("aXbY", "(%l)(%u)", replIn{Kind: "fn", Rets: []tabEntry{{Num: i64(7)}}}, nil),
		{Fn: "pmfind", S: hx("aXbXc"), P: hx("(X)()"), Off: 0, Limit: i64(-1), Src: "corpus"},
		{Fn: "pmfind", S: hx("aaa"), P: hx("a-"), Off: 1, Limit: i64(2), Src: "corpus"},
		{Fn: "prog", P: hx("^a*(b+)()[^c-e]-%1%b()$"), Src: "corpus"},
		{Fn: "prog", P: hx("[%a-z][a--][]x]"), Src: "corpus"},
	}
	for _, c := range cs {
		runCase(w, pl, c)
	}
}

// ---- generators -------------------------------------------------------------------

var smallAlpha = []byte("ab.%[]^$*+-?()1")

func smallSubjects() []string {
	out := []string{""}
	prev := []string{""}
	for l := 1; l <= 4; l++ {
		var cur []string
		for _, p := range prev {
			cur = append(cur, p+"a", p+"b")
		}
		out = append(out, cur...)
		prev = cur
	}
	return out
}

// nthPattern: the k-th string of the given length over smallAlpha
func nthPattern(length, k int) string {
	b := make([]byte, length)
	for i := length - 1; i >= 0; i-- {
		b[i] = smallAlpha[k%len(smallAlpha)]
		k /= len(smallAlpha)
	}
	return string(b)
}

func pow(b, e int) int {
	r := 1
	for ; e > 0; e-- {
		r *= b
	}
	return r
}

func smallCase(r *lib.Rand, p, s string, init int64, origin string) in {
	c := in{S: hx(s), P: hx(p), Src: origin}
	switch r.Pick(50, 30) {
	case 0:
		c.Fn = "find"
	default:
		c.Fn = "match"
	}
	c.Init = i64(init)
	return c
}

var smallRepls = []string{"<%0>", "%1", "x", "", "%%", "%1%1", "[%0%0]"}

// extraCases: the other entry points on the same (pattern, subject)
func extraCase(r *lib.Rand, p, s, origin string) in {
	c := in{S: hx(s), P: hx(p), Src: origin}
	switch r.Pick(30, 40, 20, 10) {
	case 0:
		c.Fn = "gmatch"
	case 1:
		c.Fn = "gsub"
		c.Repl = &replIn{Kind: "str", Str: hx(smallRepls[r.Intn(len(smallRepls))])}
		if r.Chance(40) {
			c.Limit = i64(int64(r.Range(-1, 3)))
		}
	case 2:
		c.Fn = "pmfind"
		c.Off = int64(r.Range(0, len(s)+1))
		c.Limit = i64([]int64{-1, -1, 1, 2, 3}[r.Intn(5)])
	default:
		c.Fn = "prog"
		c.S = ""
	}
	return c
}

// grammar-generated patterns -----------------------------------------------------------

var litChars = []byte("abc12 x_")
var classLetters = []byte("acdlpsuwxzACDLPSUWXZ")
var escPunct = []byte(".%[]()*+-?^$")
var subjAlpha = []byte("abcABC12 _().-%x\n\t\v\f\r09azAZfgFG/:@[`{~\x00\x1f\x7f\x80\xff")

type gstate struct {
	r      *lib.Rand
	ncap   int   // captures opened so far
	closed []int // numbers of closed captures (valid back-reference targets)
}

func (g *gstate) single() string {
	r := g.r
	switch r.Pick(40, 20, 8, 8, 24) {
	case 0:
		return string(litChars[r.Intn(len(litChars))])
	case 1:
		return "%" + string(classLetters[r.Intn(len(classLetters))])
	case 2:
		return "%" + string(escPunct[r.Intn(len(escPunct))])
	case 3:
		return "."
	default:
		return g.set()
	}
}

func (g *gstate) set() string {
	r := g.r
	s := "["
	if r.Chance(30) {
		s += "^"
	}
	n := r.Range(1, 4)
	for i := 0; i < n; i++ {
		switch r.Pick(35, 30, 20, 5, 5, 5) {
		case 0:
			s += string(litChars[r.Intn(len(litChars))])
		case 1:
			lo := []byte("aA0b1")[r.Intn(5)]
			s += string(lo) + "-" + string(lo+byte(r.Range(0, 4)))
		case 2:
			s += "%" + string(classLetters[r.Intn(len(classLetters))])
		case 3:
			if i == 0 {
				s += "]"
			} else {
				s += "%]"
			}
		case 4:
			s += "-"
		default:
			s += "%" + string(escPunct[r.Intn(len(escPunct))])
		}
	}
	return s + "]"
}

func (g *gstate) item(depth int) string {
	r := g.r
	switch r.Pick(62, 12, 6, 8, 6, 6) {
	case 0:
		s := g.single()
		switch r.Pick(45, 15, 15, 12, 13) {
		case 1:
			s += "*"
		case 2:
			s += "+"
		case 3:
			s += "-"
		case 4:
			s += "?"
		}
		return s
	case 1:
		if depth >= 3 || g.ncap >= 8 {
			return g.single()
		}
		g.ncap++
		k := g.ncap
		body := g.seq(depth+1, r.Range(0, 3))
		g.closed = append(g.closed, k)
		return "(" + body + ")"
	case 2:
		if g.ncap >= 8 {
			return g.single()
		}
		g.ncap++
		g.closed = append(g.closed, g.ncap)
		return "()"
	case 3:
		if len(g.closed) == 0 {
			return g.single()
		}
		return "%" + string(byte('0'+g.closed[g.r.Intn(len(g.closed))]))
	case 4:
		return "%b" + []string{"()", "ab", "xx", "[]"}[r.Intn(4)]
	default:
		return string(litChars[r.Intn(len(litChars))])
	}
}

func (g *gstate) seq(depth, n int) string {
	s := ""
	for i := 0; i < n; i++ {
		s += g.item(depth)
	}
	return s
}

func grammarPattern(r *lib.Rand) string {
	g := &gstate{r: r}
	p := g.seq(0, r.Range(1, 5))
	if r.Chance(20) {
		p = "^" + p
	}
	if r.Chance(20) {
		p += "$"
	}
	return p
}

// a subject biased towards matching: pieces of the pattern's literals and the class alphabets
func subjectFor(r *lib.Rand, p string) string {
	n := r.Range(0, 12)
	b := make([]byte, 0, n)
	for len(b) < n {
		if r.Chance(35) && len(p) > 0 {
			c := p[r.Intn(len(p))]
			if c != 0 {
				b = append(b, c)
				continue
			}
		}
		if r.Chance(4) {
			b = append(b, byte(r.Intn(256)))
		} else {
			b = append(b, subjAlpha[r.Intn(len(subjAlpha))])
		}
	}
	return string(b)
}

func mutate(r *lib.Rand, p string) string {
	b := []byte(p)
	all := []byte("ab.%[]^$*+-?()1290b")
	for k := r.Range(1, 2); k > 0; k-- {
		switch r.Intn(4) {
		case 0:
			if len(b) > 0 {
				b = b[:r.Intn(len(b))]
			}
		case 1:
			i := r.Intn(len(b) + 1)
			b = append(b[:i], append([]byte{all[r.Intn(len(all))]}, b[i:]...)...)
		case 2:
			if len(b) > 0 {
				i := r.Intn(len(b))
				b = append(b[:i], b[i+1:]...)
			}
		default:
			if len(b) > 0 {
				b[r.Intn(len(b))] = all[r.Intn(len(all))]
			}
		}
	}
	return string(b)
}

func randomRepl(r *lib.Rand, ncap int) replIn {
	pieces := []string{"x", "<", ">", " ", "%0", "%1", "%%", "ab", "%2", "1"}
	n := r.Range(0, 4)
	if r.Chance(8) {
		n = r.Range(20, 60) // long runs (mostly %% and %0..%9)
		pieces = []string{"%%", "%%", "%0", "%1", "x"}
	}
	s := ""
	for i := 0; i < n; i++ {
		if r.Chance(5) {
			s += "%" + string(byte('0'+r.Intn(10)))
		} else {
			s += pieces[r.Intn(len(pieces))]
		}
	}
	return replIn{Kind: "str", Str: hx(s)}
}

func gsubCase(r *lib.Rand, p, s, origin string) in {
	c := in{Fn: "gsub", S: hx(s), P: hx(p), Src: origin}
	switch r.Pick(45, 5, 25, 25) {
	case 0:
		rp := randomRepl(r, 0)
		c.Repl = &rp
	case 1:
		c.Repl = &replIn{Kind: "num", Num: int64(r.Range(0, 120))}
	case 2:
		// keys: substrings of the subject (likely whole matches / first captures) and positions
		var t []tabEntry
		for k := r.Range(0, 4); k > 0; k-- {
			var e tabEntry
			if r.Chance(75) {
				a := r.Intn(len(s) + 1)
				bnd := r.Range(a, min(len(s), a+3))
				e.KeyStr = sp(s[a:bnd])
			} else {
				e.KeyNum = i64(int64(r.Range(1, len(s)+1)))
			}
			switch r.Pick(56, 18, 18, 8) {
			case 0:
				e.Val = sp([]string{"", "Q", "<k>", "%1"}[r.Intn(4)])
			case 1:
				e.Num = i64(int64(r.Range(0, 99)))
			case 3:
				e.Bad = []string{"table", "true", "func", "userdata"}[r.Intn(4)]
			}
			t = append(t, e)
		}
		c.Repl = &replIn{Kind: "tab", Tab: t}
	default:
		var rets []tabEntry
		for k := r.Range(0, 5); k > 0; k-- {
			var e tabEntry
			switch r.Pick(52, 14, 27, 7) {
			case 0:
				e.Val = sp([]string{"", "R", "[r]", "%0"}[r.Intn(4)])
			case 1:
				e.Num = i64(int64(r.Range(0, 99)))
			case 3:
				e.Bad = []string{"table", "true", "func", "userdata"}[r.Intn(4)]
			}
			rets = append(rets, e)
		}
		c.Repl = &replIn{Kind: "fn", Rets: rets}
		c.Nested = r.Chance(50)
	}
	if r.Chance(45) {
		c.Limit = i64(int64([]int{-1, 0, 1, 1, 2, 3, len(s) + 1}[r.Intn(7)]))
	}
	return c
}

func anyCase(r *lib.Rand, p, s, origin string) in {
	switch r.Pick(30, 22, 12, 22, 8, 6) {
	case 0, 1:
		c := in{Fn: "find", S: hx(s), P: hx(p), Src: origin}
		if r.Chance(40) {
			c.Fn = "match"
		}
		if r.Chance(50) {
			c.Init = i64(int64(r.Range(-len(s)-2, len(s)+3)))
		}
		return c
	case 2:
		return in{Fn: "gmatch", S: hx(s), P: hx(p), Nested: r.Chance(40), Src: origin}
	case 3:
		return gsubCase(r, p, s, origin)
	case 4:
		return in{Fn: "pmfind", S: hx(s), P: hx(p), Off: int64(r.Range(0, len(s)+1)), Limit: i64([]int64{-1, -1, 1, 2}[r.Intn(4)]), Src: origin}
	default:
		return in{Fn: "prog", P: hx(p), Src: origin}
	}
}

func generate(w *lib.Writer, pl *pool, r *lib.Rand, tier string) {
	subjects := smallSubjects()
	thorough := tier == "thorough"

	// (1) bounded-exhaustive small scope
	if thorough {
		w.Meta.Exhaustive = true
		for l := 0; l <= 3; l++ {
			for k := 0; k < pow(len(smallAlpha), l); k++ {
				p := nthPattern(l, k)
				for _, s := range subjects {
					for init := int64(-5); init <= 5; init++ {
						// the window is exhaustive in (pattern, subject, init); find/match alternate by PRNG
						runCase(w, pl, smallCase(r, p, s, init, "small-exh"))
					}
					if r.Chance(25) {
						runCase(w, pl, extraCase(r, p, s, "small-exh"))
					}
				}
			}
		}
		// length 4: a sample of the 50625 patterns, all subjects, 3 inits each
		for n := 0; n < 2500; n++ {
			p := nthPattern(4, r.Intn(pow(len(smallAlpha), 4)))
			for _, s := range subjects {
				for q := 0; q < 3; q++ {
					runCase(w, pl, smallCase(r, p, s, int64(r.Range(-5, 5)), "small-4"))
				}
				if r.Chance(20) {
					runCase(w, pl, extraCase(r, p, s, "small-4"))
				}
			}
		}
	} else {
		// quick: a PRNG sample of the same space (about 2 % of the pattern x subject pairs of length <= 3,
		// plus length-4 patterns), lengths weighted towards 3 and 4
		for n := 0; n < 3600; n++ {
			l := []int{1, 2, 2, 3, 3, 3, 3, 4, 4, 4, 4, 4}[r.Intn(12)]
			p := nthPattern(l, r.Intn(pow(len(smallAlpha), l)))
			s := subjects[r.Intn(len(subjects))]
			runCase(w, pl, smallCase(r, p, s, int64(r.Range(-5, 5)), "small"))
			if r.Chance(22) {
				runCase(w, pl, extraCase(r, p, s, "small"))
			}
		}
	}

	// (1b) class sweep: every class letter, plain and inside (complemented) sets, against all 256 bytes:
	// gsub deletes the matching bytes, so the result string shows the exact membership
	all := make([]byte, 256)
	for i := range all {
		all[i] = byte(i)
	}
	for _, cl := range classLetters {
		for _, form := range []string{"%%%c", "[%%%c]", "[^%%%c_]", "[a%%%c-]"} {
			p := fmt.Sprintf(form, cl)
			runCase(w, pl, in{Fn: "gsub", S: hx(string(all)), P: hx(p), Repl: &replIn{Kind: "str", Str: ""}, Src: "class-sweep"})
		}
	}
	for _, p := range []string{".", "[a-f]", "[^a-f]", "[%a%d]", "[\x80-\xff]", "[^%z]", "%%", "[%]]", "[]]", "[^]]", "[%-]", "[a-]"} {
		runCase(w, pl, in{Fn: "gsub", S: hx(string(all)), P: hx(p), Repl: &replIn{Kind: "str", Str: ""}, Src: "class-sweep"})
	}

	// (1c) anchored patterns x the whole init window: '$'- and '^'-anchored patterns (fixed-width bodies
	// and quantified ones) on subjects whose suffix / prefix matches the body, init sweeping
	// [-len-2, len+2] for find and match, every offset for pm.Find
	nanch := 36
	if thorough {
		nanch = 1500
	}
	for n := 0; n < nanch; n++ {
		body, wit := anchoredBody(r)
		pre := string(r.Bytes(r.Range(0, 4), []byte("abx5 .")))
		post := string(r.Bytes(r.Range(0, 3), []byte("abx5 .")))
		type ps struct{ p, s string }
		variants := []ps{
			{body + "$", pre + wit},        // suffix matches
			{body + "$", pre + wit + post}, // suffix may not match
			{"^" + body, wit + post},       // prefix matches
			{"^" + body + "$", wit},
			{body, pre + wit + post},
		}
		v := variants[r.Intn(len(variants))]
		if n < len(variants) {
			v = variants[n]
		}
		l := len(v.s)
		for init := -l - 2; init <= l+2; init++ {
			runCase(w, pl, in{Fn: "find", S: hx(v.s), P: hx(v.p), Init: i64(int64(init)), Src: "anchored-init"})
			runCase(w, pl, in{Fn: "match", S: hx(v.s), P: hx(v.p), Init: i64(int64(init)), Src: "anchored-init"})
		}
		for _, init := range []int64{-9223372036854775808, -9007199254740992, 9007199254740992} {
			runCase(w, pl, in{Fn: []string{"find", "match"}[r.Intn(2)], S: hx(v.s), P: hx(v.p), Init: i64(init), Src: "anchored-init"})
		}
		for off := 0; off <= l; off++ {
			if r.Chance(50) {
				runCase(w, pl, in{Fn: "pmfind", S: hx(v.s), P: hx(v.p), Off: int64(off), Limit: i64([]int64{-1, 1, 2}[r.Intn(3)]), Src: "anchored-init"})
			}
		}
		runCase(w, pl, in{Fn: "gmatch", S: hx(v.s), P: hx(v.p), Src: "anchored-init"})
		runCase(w, pl, in{Fn: "gsub", S: hx(v.s), P: hx(v.p), Repl: &replIn{Kind: "str", Str: hx("<%0>")}, Src: "anchored-init"})
	}

	// (1d) capture references in replacement strings: k captures (0..3, plain and position) x %N for
	// N = 0..k+2, alone and between literals
	capPats := []string{"%w", "(%w)", "()%w", "(%w)(%w)", "(%w)()", "((%w)%w)", "(%w)(%w)(%w)", "()()()"}
	for _, p := range capPats {
		for n := 0; n <= 5; n++ {
			rp := fmt.Sprintf("%%%d", n)
			if r.Chance(50) {
				rp = "<" + rp + ">"
			}
			c := in{Fn: "gsub", S: hx("ab cd"), P: hx(p), Repl: &replIn{Kind: "str", Str: hx(rp)}, Src: "repl-index"}
			if r.Chance(30) {
				c.Limit = i64(1)
			}
			runCase(w, pl, c)
		}
	}
	// (1f) capture limit: 30..34 captures (position, plain, nested) -- LUA_MAXCAPTURES is 32
	for k := 30; k <= 34; k++ {
		for _, mk := range []func(int) string{
			func(k int) string { return strings.Repeat("()", k) },
			func(k int) string { return strings.Repeat("(a?)", k) },
			func(k int) string { return strings.Repeat("(", k) + "a" + strings.Repeat(")", k) },
			func(k int) string { return strings.Repeat("(", k) + "b" }, // unfinished
		} {
			p := mk(k)
			runCase(w, pl, in{Fn: "find", S: hx("a"), P: hx(p), Src: "cap-limit"})
			runCase(w, pl, in{Fn: "gsub", S: hx("aa"), P: hx(p), Repl: &replIn{Kind: "str", Str: hx("<%1>")}, Src: "cap-limit"})
		}
	}
	// (1g) numbers as subject (converted to their decimal string; the result is a string)
	for n := 0; n < 24; n++ {
		subj := fmt.Sprint(r.Range(0, 99999))
		p := []string{"x", "%d", "0", "%s+", "", "(%d)(%d)", "9$", "^1"}[r.Intn(8)]
		c := gsubCase(r, p, subj, "number-subject")
		c.SNum = true
		runCase(w, pl, c)
	}
	// (1e) plain find with and without further arguments after the flag
	nplain := 40
	if thorough {
		nplain = 2000
	}
	for n := 0; n < nplain; n++ {
		s := string(r.Bytes(r.Range(0, 8), []byte("ab.%+-")))
		var p string
		if len(s) > 0 && r.Chance(70) {
			a := r.Intn(len(s))
			p = s[a:r.Range(a, min(len(s), a+3))]
		} else {
			p = string(r.Bytes(r.Range(0, 2), []byte("ab.%+-")))
		}
		c := in{Fn: "find", S: hx(s), P: hx(p), Plain: true, Extra: r.Pick(40, 30, 20, 10), Src: "plain-extra"}
		if r.Chance(70) {
			c.Init = i64(int64(r.Range(-len(s)-2, len(s)+2)))
		}
		runCase(w, pl, c)
	}

	// (2) grammar-generated longer patterns, (3) malformed stream
	ngram, nmal, ngsub := 1100, 450, 700
	if thorough {
		ngram, nmal, ngsub = 40000, 12000, 20000
	}
	for n := 0; n < ngram; n++ {
		p := grammarPattern(r)
		s := subjectFor(r, p)
		runCase(w, pl, anyCase(r, p, s, "grammar"))
	}
	for n := 0; n < nmal; n++ {
		var p string
		if r.Chance(60) {
			p = mutate(r, grammarPattern(r))
		} else {
			p = string(r.Bytes(r.Range(1, 8), []byte("ab.%[]^$*+-?()12b")))
		}
		s := subjectFor(r, p)
		runCase(w, pl, anyCase(r, p, s, "malformed"))
	}
	// (4) gsub with every kind of replacement
	for n := 0; n < ngsub; n++ {
		p := grammarPattern(r)
		if r.Chance(30) {
			p = []string{"", "a", "%w+", "(%w)(%w)", "()", ".", "a*", "(a*)b", "%s*", "^a", "b$", "[ab]+"}[r.Intn(12)]
		}
		s := subjectFor(r, p)
		runCase(w, pl, gsubCase(r, p, s, "gsub"))
	}
	// (5) back-references at every position relative to the captures, on witness subjects (backref.go)
	backrefStream(w, pl, r.Fork(), thorough)
}

// anchoredBody: a pattern body and a string it matches entirely. Mostly fixed-width items
// (characters, classes, sets, '.', captures, position captures), sometimes a quantified item.
func anchoredBody(r *lib.Rand) (body, witness string) {
	type it struct{ p, w string }
	fixed := []it{{"a", "a"}, {"b", "b"}, {"%d", "5"}, {"[a-c]", "b"}, {".", "x"}, {"%a", "q"}, {"[^%s]", "z"},
		{"%.", "."}, {"(a)", "a"}, {"()", ""}, {"(%d)(.)", "7k"}, {"[%w_]", "_"}, {"o", "o"}, {"l", "l"}}
	quant := []it{{"a*", "aa"}, {"%d+", "42"}, {".-", ""}, {"b?", "b"}, {"(a+)", "aaa"}, {"[ab]*", "abba"}}
	n := r.Range(1, 3)
	for i := 0; i < n; i++ {
		var x it
		if r.Chance(85) {
			x = fixed[r.Intn(len(fixed))]
		} else {
			x = quant[r.Intn(len(quant))]
		}
		body += x.p
		witness += x.w
	}
	return
}
