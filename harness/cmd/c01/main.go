// c01: programs of the deterministic core run on the real interpreter vs the reference evaluator.
package main

import (
	"encoding/json"
	"fmt"
	"os"
	"os/exec"
	"path/filepath"
	"strings"

	"verifh/lib"
	"verifh/luagen"
)

const header = "From Coq Require Import Floats.\nFrom GL Require Import Common.Bytes Lua.Syntax Lua.Run Lua.LuaCases.\nOpen Scope float_scope."

type input struct {
	Src  string `json:"src"`
	Seed uint64 `json:"seed"`
	Idx  int    `json:"idx"`
	Mode string `json:"mode"`
}

// shrink <seed> <idx>: minimise a failing generated program with coqc as the oracle (development aid,
// also used to produce small replays).
func shrinkCmd(seed uint64, idx int) {
	r := lib.NewRand(seed*1000003 + uint64(idx))
	g := luagen.NewGen(r, luagen.CoreFeatures())
	prog := g.Program()
	dir, _ := os.MkdirTemp("", "c01shr")
	defer os.RemoveAll(dir)
	fails := func(p []luagen.Stmt) bool {
		src := luagen.PrintLua(p)
		out := luagen.Run(src, nil)
		if out.GoFail != "" {
			return false
		}
		v := header + "\nOpen Scope Z_scope.\nDefinition cc : case := CProg " + luagen.CoqBlock(p) + " " + out.Coq() + ".\n" +
			"Definition rr := Eval vm_compute in (check_spec cc).\nPrint rr.\n"
		os.WriteFile(filepath.Join(dir, "cand.v"), []byte(v), 0o644)
		cmd := exec.Command("timeout", "120", "coqc", "-R", "/verif/coq", "GL", "cand.v")
		cmd.Dir = dir
		o, _ := cmd.CombinedOutput()
		if !strings.Contains(string(o), "rr = ") {
			fmt.Println("oracle error:", string(o)[:min(len(o), 600)])
		}
		return strings.Contains(string(o), "rr = false")
	}
	if !fails(prog) {
		fmt.Println("does not fail")
		return
	}
	small := luagen.Shrink(prog, fails, 400)
	src := luagen.PrintLua(small)
	fmt.Println(src)
	out := luagen.Run(src, nil)
	b, _ := json.Marshal(out.Summary())
	fmt.Println("OBSERVED:", string(b))
}

func main() {
	if len(os.Args) > 3 && os.Args[1] == "shrink" {
		var seed uint64
		var idx int
		fmt.Sscan(os.Args[2], &seed)
		fmt.Sscan(os.Args[3], &idx)
		shrinkCmd(seed, idx)
		return
	}
	a := lib.ParseArgs()
	w, err := lib.NewWriter(a.Out, "C01", a.Tier, a.Seed, header, "case", 40)
	if err != nil {
		panic(err)
	}
	w.HasSkip = true
	w.Meta.Rule = "random well-typed-by-construction Lua programs (generator luagen, core feature mix) printed one statement per line; each is run by DoString-equivalent on the real interpreter " +
		"and its emit trace/results/error compared with the reference evaluator in Coq; non-trivial = at least 5 emitted rows or an error outcome; distinct by Gallina term"
	if a.Replay != "" {
		b, _ := os.ReadFile(a.Replay)
		var rp struct {
			Input input `json:"input"`
		}
		json.Unmarshal(b, &rp)
		runOne(w, rp.Input.Seed, rp.Input.Idx, rp.Input.Mode)
	} else {
		n := 240
		if a.Tier == "thorough" {
			n = 6000
		}
		for i := 0; i < n; i++ {
			runOne(w, a.Seed, i, "core")
		}
	}
	w.Meta.Extra = map[string]any{"feature_uses": uses}
	if err := w.Close(); err != nil {
		panic(err)
	}
}

var uses = map[string]int{}

func runOne(w *lib.Writer, seed uint64, idx int, mode string) {
	r := lib.NewRand(seed*1000003 + uint64(idx))
	g := luagen.NewGen(r, luagen.CoreFeatures())
	prog := g.Program()
	src := luagen.PrintLua(prog)
	out := luagen.Run(src, nil)
	for k, v := range g.Uses {
		uses[k] += v
	}
	coq := fmt.Sprintf("CProg %s %s", luagen.CoqBlock(prog), out.Coq())
	if out.GoFail != "" {
		// a hang/escaped panic is a failure by itself; keep the shard cheap
		coq = "CProg [] (Outcome [] (OOk []))"
	}
	c := lib.Case{
		Input:      input{Src: src, Seed: seed, Idx: idx, Mode: mode},
		Observed:   out.Summary(),
		Class:      mode,
		Nontrivial: len(out.Trace) >= 5 || !out.Ok,
		Coq:        coq,
	}
	id := w.Add(c)
	if out.GoFail != "" {
		w.GoFail(id, out.GoFail)
	}
}
