// c01: programs of the deterministic core run on the real interpreter vs the reference evaluator.
package main

import (
	"verifh/luagen"
	"verifh/luaprop"
)

func main() {
	luaprop.Main(&luaprop.Config{
		Prop: "C01",
		Rule: "random well-typed-by-construction Lua programs (generator luagen, core feature mix: every operator with constant/local/upvalue/global/field operands, " +
			"single and multiple assignment incl. swaps, all loop kinds, break, goto shapes) printed one statement per line; each is run on the real interpreter " +
			"and its emit trace/results/error compared in Coq with the reference evaluator; non-trivial = at least 5 emitted rows or an error outcome; distinct by Gallina term; " +
			"fragment mode: straight-line chunks inside the transcribed fragment of compile.go (coq/CC), each counted non-trivial, whose dumped prototype must equal the transcription's (frag_tie); " +
			"w5-matrix mode (each counted non-trivial): lists of values of every kind (constants, locals, upvalues, globals, fields, arithmetic, and/or in value context, comparisons, concatenations, " +
			"closed/open calls, method calls, varargs) in every list context (multiple assignment to local/upvalue/global/field/computed-index targets with fewer/equal/more values, local lists, call and " +
			"method arguments, table constructors, return lists, operand pairs) with every target observed afterwards; numeric for with init/limit/step given as numbers or numeral strings from every " +
			"storage kind, inside functions called with changing operand types and after caught operand errors",
		Modes:     []luaprop.Mode{{Name: "core", Features: luagen.CoreFeatures(), Weight: 5}, {Name: "core-bigk", Features: bigk(luagen.CoreFeatures()), Weight: 1},
			{Name: "fragment", Gen: luaprop.FragmentProgram, Weight: 3},
			{Name: "w5-matrix", Gen: luagen.W5C01Program, Weight: 2}},
		NQuick:    400,
		NThorough: 2500,
		Corpus:    corpus,
		VM:        true,
	})
}

func bigk(f luagen.Features) luagen.Features { f.BigK = true; f.MaxStmts = 25; return f }

// witnesses of repaired defects and minimised earlier failures
var corpus = []string{
	`local a,b=1,2; a,b=b,a; emit(a,b); local x,y,z=1,2,3; x,y,z=z,x,y; emit(x,y,z); local m,n=1,2; m,n=n,m+0; emit(m,n)`,
	`local a={} local p=7; g, a.x = 5, p; emit(g, a.x); local d='e' local f=1; f, a.d = f, d; emit(f, a.d)`,
	`local s=0; for i="1",2 do s=s+i end; for i=1,"2" do s=s+i end; emit(s)`,
	`local v = 's'; v = not v and 5; emit(v); local w = 3; w = w == 4 and 1 ~= 2; emit(w)`,
	`local t = {-3 % 3}; local a = 4; emit(a / 0, 1 / t[1]); local z = 0; emit(1/(z * -1), 1/(-z))`,
	`local function it(s,c) return nil end; for u,x in it,{101} do end; local n=0; for k,v in next,{101} do n=n+1 end; emit(n)`,
	`local a1 = 8; local function g() return a1 end; local c=0; ::top:: c=c+1; if c<3 then goto top end; a1 = 100; emit(g())`,
	`local i=0 local j=0 if i>100 then j=5 end while true do while true do break end i=i+1 j=j+10 if i>3 then break end end emit(i,j)`,
	`emit(pcall(error)); emit(pcall(function() local x = nil; return x.y end))`,
	`emit(10 % 3, -10 % 3, 10 % -3, 2^10, 7/2, "10"+1, "0x10"*2, 10 .. 20, #"abc", not nil, 1 < 2, "a" < "b", 1 == 1.0, "1" == 1)`,
	`local u = {1,2,3,4,5,6,7,8,9,10,11,12,13,14,15,16,17,18,19,20,21,22,23,24,25,26,27,28,29,30,31,32,33,34,35,36,37,38,39,40,41,42,43,44,45,46,47,48,49,50, (function() return 7, 8 end)()}; emit(#u, u[1], u[51], u[52]); local w = {7,7,7,7,7,7,7,7,7,7,7,7,7,7,7,7,7,7,7,7,7,7,7,7,7,7,7,7,7,7,7,7,7,7,7,7,7,7,7,7,7,7,7,7,7,7,7,7,7,7, x = 9}; emit(#w, w[1], w.x)`,
	`local t = {}; local k = 1; t[k], k = "v", 2; emit(t[1], t[2], k); local a, i = {}, 1; a[i], i = 10, i + 1; emit(a[1], a[2], i)`,
	`local n = 0; for i = 0, 1, 0 do n = n + 1; if n > 3 then break end end; emit(n)`,
	`local t = {10,20,30,nil}; emit(#t); t[#t+1] = 40; emit(#t, t[4]); local u = {n=1, [1]="a", [2]="b"}; emit(#u, u.n)`,
	// fixed 80dc40d / 26e5bc0: values and tables of a multiple assignment are read before any store
	`local a=1; local t={}; t[1], a = a, 5; emit(t[1], a); local c=1; local v={}; v[1], c, v[2] = c, 9, c; emit(v[1], c, v[2])`,
	`local x=1; local z={}; local function g() x=7 return 2 end; z.k, z.j = x, g(); emit(z.k, z.j, x)`,
	`local t = {}; local u = t; t.x, t = 1, nil; emit(u.x, t); local a, b = 1, 2; local w = {}; w.x, a, w.y, b = a, b, b, a; emit(w.x, a, w.y, b)`,
	`local t = {}; emit(pcall(function() ("s").x = 1 end)); emit(t.x)`,
	// wave 5: a value kept in a temporary (and/or in value context, stored into a table field) survives the
	// evaluation of the values that follow it in the same list; numeral strings as for operands in every position
	`local t = {} local a, b, n = 3, 4, nil; t.x, b = a and b, a + 1; emit(t.x, b); t.y, t.z, a = n or "d", a or b, b * 2; emit(t.y, t.z, a); local function f() return 7, 8 end; t[1], t[2], t[3] = n or a, f(); emit(t[1], t[2], t[3])`,
	`local s = 0; local st = "3"; for i = 2, 11, st do s = s + i end; for i = 9, "1", "-2" do s = s + i end; for i = "1", " 3 ", "0x1" do s = s + i end; emit(s, st, type(st)); emit(pcall(function() for i = 1, 2, "x" do end end))`,
}
