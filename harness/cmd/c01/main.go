// c01: programs of the deterministic core run on the real interpreter vs the reference evaluator.
package main

import (
	"encoding/json"
	"fmt"
	"os"

	"verifh/lib"
	"verifh/luagen"
)

const header = "From Coq Require Import Floats.\nFrom GL Require Import Common.Bytes Lua.Syntax Lua.Run Lua.LuaCases.\nOpen Scope float_scope."

type input struct {
	Src  string `json:"src"`
	Seed uint64 `json:"seed"`
	Idx  int    `json:"idx"`
	Mode string `json:"mode"`
}

func main() {
	a := lib.ParseArgs()
	w, err := lib.NewWriter(a.Out, "C01", a.Tier, a.Seed, header, "case", 40)
	if err != nil {
		panic(err)
	}
	w.HasSkip = true
	w.Meta.Rule = "random well-typed-by-construction Lua programs (generator luagen, core feature mix) printed one statement per line; each is run by DoString-equivalent on the real interpreter " +
		"and its emit trace/results/error compared with the reference evaluator in Coq; non-trivial = at least 5 emitted rows or an error outcome; distinct by Gallina term"
	if a.Replay != "" {
		b, _ := os.ReadFile(a.Replay)
		var rp struct {
			Input input `json:"input"`
		}
		json.Unmarshal(b, &rp)
		runOne(w, rp.Input.Seed, rp.Input.Idx, rp.Input.Mode)
	} else {
		n := 240
		if a.Tier == "thorough" {
			n = 6000
		}
		for i := 0; i < n; i++ {
			runOne(w, a.Seed, i, "core")
		}
	}
	w.Meta.Extra = map[string]any{"feature_uses": uses}
	if err := w.Close(); err != nil {
		panic(err)
	}
}

var uses = map[string]int{}

func runOne(w *lib.Writer, seed uint64, idx int, mode string) {
	r := lib.NewRand(seed*1000003 + uint64(idx))
	g := luagen.NewGen(r, luagen.CoreFeatures())
	prog := g.Program()
	src := luagen.PrintLua(prog)
	out := luagen.Run(src, nil)
	for k, v := range g.Uses {
		uses[k] += v
	}
	coq := fmt.Sprintf("CProg %s %s", luagen.CoqBlock(prog), out.Coq())
	if out.GoFail != "" {
		// a hang/escaped panic is a failure by itself; keep the shard cheap
		coq = "CProg [] (Outcome [] (OOk []))"
	}
	c := lib.Case{
		Input:      input{Src: src, Seed: seed, Idx: idx, Mode: mode},
		Observed:   out.Summary(),
		Class:      mode,
		Nontrivial: len(out.Trace) >= 5 || !out.Ok,
		Coq:        coq,
	}
	id := w.Add(c)
	if out.GoFail != "" {
		w.GoFail(id, out.GoFail)
	}
}
