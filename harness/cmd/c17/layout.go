package main

import (
	"strings"

	"verifh/lib"
)

// A layout is the separator written before every token (plus a trailer). Separators hold
// blanks, newline sequences of every kind, line comments and block comments (which may
// themselves span lines).
type Layout struct {
	Style string
	Seps  []string
	Tail  string
}

var nlKinds = []string{"\n", "\r\n", "\r", "\n\r"}

type layGen struct {
	r     *lib.Rand
	nl    func() string // newline sequence for this layout
	style string
	pEdge int // chance (percent) that a comment is drawn from the look-ahead edge grammar
	glue  int // chance (percent) that a comment is written without a blank before / after it
}

// cblanks: the blanks next to a comment (none at all with chance glue).
func (g *layGen) cblanks() string {
	if g.r.Chance(g.glue) {
		return ""
	}
	return g.blanks(1)
}

func (g *layGen) blanks(min int) string {
	n := min + g.r.Intn(3)
	var sb strings.Builder
	for i := 0; i < n; i++ {
		if g.r.Chance(15) {
			sb.WriteByte('\t')
		} else if g.pEdge > 50 && g.r.Chance(6) {
			sb.WriteByte("\v\f"[g.r.Intn(2)]) // white space for the scanner as for Lua's isspace
		} else {
			sb.WriteByte(' ')
		}
	}
	return sb.String()
}

var commentWords = []string{"x", "note", "end", "if x then", "--", "]]", "[[", "local a = 1", "\"", "error('m')", "1 2 3", ""}
var lineWords = []string{"x", " note", "end", " if x then", "--", "]]", " [[", " local a = 1", "\"", " error('m')", "-[[", ""}

func (g *layGen) pick(xs ...string) string { return xs[g.r.Intn(len(xs))] }

// edgeLineText makes the text of a line comment (what follows "--") out of the bytes the scanner
// looks ahead for: a long-bracket opener cut short at every position ("[", "[=", "[==" ... then the
// end of the line or a byte other than '['), closers without opener, further dashes, quotes and a
// backslash before the line end. Never a complete opener "[" "="* "[" at the start.
func (g *layGen) edgeLineText() string {
	switch g.r.Intn(8) {
	case 0, 1, 2, 3:
		s := "[" + strings.Repeat("=", g.r.Intn(4))
		if g.r.Chance(45) {
			s += g.pick(" ", "x", "]", "-", "=]", "]]", " [", "x[", "\t", "]=]", "--", "\\")
			if g.r.Chance(40) {
				s += g.pick("[", "[[", "=", "]]", " x", "[=[", "--[[")
			}
		}
		return s
	case 4:
		return g.pick("]", "]]", "]=]", "]==]", "=", "==[", "]=", "] ]") + g.pick("", "", " x", "[")
	case 5:
		return g.pick("-", "--", "-[[", "-[==[", "-[", "-[=", "- [[") + g.pick("", "", "x]]", "]]")
	case 6:
		return g.pick("\\", "x\\", "\"", "'", "\\n", " [[\\", "\\[[", "\xff", "\x00", "\xc3\xa9[=", "\x1a", "[\xff", "[=\x00")
	default:
		return g.pick("", "", " ", "\t", strings.Repeat("x", 60+g.r.Intn(200)))
	}
}

func (g *layGen) lineText() string {
	if g.r.Chance(g.pEdge) {
		return g.edgeLineText()
	}
	return lineWords[g.r.Intn(len(lineWords))]
}

func (g *layGen) lineComment() string {
	return "--" + g.lineText() + g.nl()
}

// closes reports whether body followed by the closer ends exactly where it should (the closer does
// not occur earlier, e.g. through a body that ends in "]").
func closes(body, closer string) bool {
	return strings.Index(body+closer, closer) == len(body)
}

// soup makes the body of a long bracket of the given level out of closer and opener look-alikes of
// every level, dashes, quotes, backslashes and line ends (directly after "]", "]=", "[", "-", "\\" too).
func (g *layGen) soup(eq string, nl func() string) string {
	var sb strings.Builder
	if g.r.Chance(35) {
		sb.WriteString(nl()) // the scanner drops a first line end from the value, not from the count
	}
	n := g.r.Intn(6)
	for i := 0; i < n; i++ {
		switch g.r.Intn(10) {
		case 0, 1:
			sb.WriteString("]" + strings.Repeat("=", g.r.Intn(4)))
		case 2:
			sb.WriteString(g.pick("[", "[=", "[=[", "[==[", "=", "=="))
		case 3:
			sb.WriteString(g.pick("-", "--", "--[", "--]", "\\", "\"", "'", "\xff", "\x00"))
		case 4, 5:
			sb.WriteString(g.pick("x", " ", "end", "a b", "1"))
		default:
			sb.WriteString(nl())
		}
	}
	body := sb.String()
	closer := "]" + eq + "]"
	if !closes(body, closer) {
		body = strings.ReplaceAll(body, "]", ")")
	}
	if eq == "" {
		body = strings.ReplaceAll(body, "[[", "[(") // Lua 5.1 rejects a nested level-0 opener
	}
	return body
}

func (g *layGen) blockComment() string {
	// --[[ ... ]] or --[==[ ... ]==], possibly spanning lines
	eq := ""
	if g.r.Chance(40) {
		eq = strings.Repeat("=", 1+g.r.Intn(2))
	}
	if g.r.Chance(g.pEdge) {
		if g.r.Chance(30) {
			eq = strings.Repeat("=", g.r.Intn(4))
		}
		return "--[" + eq + "[" + g.soup(eq, g.nl) + "]" + eq + "]"
	}
	var sb strings.Builder
	sb.WriteString("--[" + eq + "[")
	n := g.r.Intn(4)
	for i := 0; i < n; i++ {
		w := commentWords[g.r.Intn(len(commentWords))]
		if eq == "" && strings.Contains(w, "]]") {
			w = "y"
		}
		sb.WriteString(w)
		if g.r.Chance(60) {
			sb.WriteString(g.nl())
		} else {
			sb.WriteByte(' ')
		}
	}
	sb.WriteString("]" + eq + "]")
	return sb.String()
}

// tight reports whether a and b may be written without anything between them.
func tight(a, b string) bool {
	safe := func(s string) bool { return s == "(" || s == ")" || s == "," || s == ";" || s == "{" || s == "}" }
	if a == "" {
		return true
	}
	return safe(a) || safe(b)
}

func isWord(s string) bool {
	c := s[0]
	return c == '_' || c >= 'a' && c <= 'z' || c >= 'A' && c <= 'Z' || c >= '0' && c <= '9'
}

// sep makes one separator. pNL: chance (percent) of at least one line break; more: chance of
// extra blank/comment lines; pc: chance of comments.
func (g *layGen) sep(prev, next string, pNL, more, pc int) string {
	var sb strings.Builder
	brk := g.r.Chance(pNL)
	if !brk {
		if tight(prev, next) && g.r.Chance(50) {
			return ""
		}
		if g.r.Chance(pc / 3) {
			sb.WriteString(g.cblanks())
			sb.WriteString(g.blockComment())
			for g.r.Chance(g.glue) { // comments back to back
				sb.WriteString(g.blockComment())
			}
			sb.WriteString(g.cblanks())
		} else {
			sb.WriteString(g.blanks(1))
		}
		return sb.String()
	}
	// a line break, maybe preceded by a trailing comment, maybe followed by more lines
	if prev != "" || g.r.Chance(50) {
		if g.r.Chance(pc) {
			sb.WriteString(g.cblanks())
			if g.r.Chance(70) {
				sb.WriteString(g.lineComment())
			} else {
				sb.WriteString(g.blockComment())
				sb.WriteString(g.nl())
			}
		} else {
			sb.WriteString(g.nl())
		}
	}
	for g.r.Chance(more) {
		switch g.r.Intn(4) {
		case 0:
			sb.WriteString(g.nl()) // blank line
		case 1:
			sb.WriteString(g.blanks(0))
			sb.WriteString(g.nl())
		case 2:
			sb.WriteString(g.cblanks())
			sb.WriteString(g.lineComment())
		default:
			sb.WriteString(g.cblanks())
			sb.WriteString(g.blockComment())
			if g.r.Chance(70) {
				sb.WriteString(g.nl())
			} else {
				sb.WriteByte(' ')
			}
		}
	}
	sb.WriteString(g.blanks(0))
	s := sb.String()
	if s == "" {
		s = " "
	}
	return s
}

// stmtStart marks tokens that begin a statement entry (used by the tidy styles).
func stmtStarts(p *Program) map[int]bool {
	m := map[int]bool{}
	for _, s := range p.Stmts {
		m[s[0]] = true
	}
	for i, t := range p.Toks {
		if t == "end" || t == "else" || t == "elseif" || t == "until" {
			m[i] = true
		}
	}
	return m
}

// makeLayout builds layout number k for the program. Style 0 is the tidy one (a statement
// per line, LF); the others are drawn from the styles below.
func makeLayout(p *Program, k int, r *lib.Rand) Layout {
	g := &layGen{r: r}
	styles := []string{"tidy", "spread", "comments", "tokenline", "mixed", "blanklines", "crlf-tidy", "lexedge"}
	style := styles[0]
	if k > 0 {
		style = styles[1+r.Intn(len(styles)-1)]
	}
	if k == 2 {
		style = "lexedge"
	}
	if k == 3 {
		style = "tokenline"
	}
	g.style = style
	g.pEdge, g.glue = 25, 10
	kind := nlKinds[r.Pick(4, 3, 3, 1)]
	if style == "tidy" {
		kind = "\n"
	}
	mixed := style == "mixed"
	if style == "lexedge" {
		// comments everywhere, most of them drawn from the scanner's look-ahead decisions, written
		// with and without blanks around them; one newline convention or all of them
		g.pEdge, g.glue = 75, 35
		mixed = r.Chance(40)
	}
	if mixed {
		kind = "mixed"
		g.nl = func() string { return nlKinds[r.Pick(4, 3, 3, 1)] }
	} else {
		g.nl = func() string { return kind }
	}
	starts := stmtStarts(p)
	lay := Layout{Style: style + "/" + strings.NewReplacer("\n", "LF", "\r", "CR").Replace(kind)}
	prev := ""
	for i, t := range p.Toks {
		var s string
		switch style {
		case "tidy", "crlf-tidy":
			if i == 0 {
				s = ""
			} else if starts[i] {
				s = g.nl() + strings.Repeat(" ", r.Intn(3))
			} else if tight(prev, t) && (t == "(" || t == ")" || t == ",") {
				s = ""
			} else {
				s = " "
			}
		case "spread":
			s = g.sep(prev, t, 35, 10, 0)
		case "comments":
			s = g.sep(prev, t, 30, 30, 60)
		case "tokenline":
			s = g.sep(prev, t, 100, 5, 10)
		case "blanklines":
			if starts[i] {
				s = g.sep(prev, t, 100, 60, 20)
			} else {
				s = g.sep(prev, t, 5, 0, 0)
			}
		case "lexedge":
			s = g.sep(prev, t, 35, 30, 80)
		default: // mixed
			s = g.sep(prev, t, 40, 25, 35)
		}
		if i == 0 && style != "tidy" && r.Chance(50) {
			s = g.sep("", t, 100, 40, 40)
		}
		// never let two tokens run together
		if s == "" && !tight(prev, t) {
			s = " "
		}
		// a separator that starts with "--" directly after "-" would read as a comment start earlier
		if strings.HasPrefix(s, "-") {
			s = " " + s
		}
		// gopher (like Lua 5.1) rejects a line break between ")" and "(" of a call: keep them together
		if t == "(" && prev == ")" {
			s = ""
		}
		lay.Seps = append(lay.Seps, s)
		prev = t
	}
	if r.Chance(70) {
		lay.Tail = g.nl()
	}
	if style != "tidy" && r.Chance(g.pEdge) {
		lay.Tail = g.tail()
	}
	if style == "lexedge" && r.Chance(50) {
		g.align(p, &lay)
	}
	if style == "lexedge" && r.Chance(4) {
		// a tall file: the program starts next to a line number where a narrower counter would wrap
		n := []int{256, 32768, 65536}[r.Pick(3, 2, 2)] - 6 + r.Intn(10)
		one := g.nl()
		if len(one) > 1 {
			one = "\n"
		}
		lay.Seps[0] = strings.Repeat(one, n) + lay.Seps[0]
		lay.Style += "/tall"
	}
	return lay
}

// tail makes the end of the file: a comment that is ended by the end of the input instead of a
// line end (every cut of an opener among them), blanks, several line ends, or nothing at all.
func (g *layGen) tail() string {
	var sb strings.Builder
	for g.r.Chance(40) {
		sb.WriteString(g.pick(g.nl(), g.blanks(1), g.cblanks()+g.lineComment(), g.cblanks()+g.blockComment()))
	}
	switch g.r.Intn(4) {
	case 0, 1:
		sb.WriteString(g.cblanks() + "--" + g.lineText())
	case 2:
		sb.WriteString(g.cblanks() + g.blockComment())
	}
	return sb.String()
}

const scanBuf = 4096 // parse.NewScanner: bufio.NewReaderSize(reader, 4096)

// align pads one separator with a one-line block comment so that a multiple of the scanner's
// read-buffer size falls inside (or directly before / after) a piece of text the scanner decides
// on by looking ahead: a line end (pair), a comment opener or its look-alike, a long-bracket
// closer, an escaped line end, a multi-character operator. No line number changes.
func (g *layGen) align(p *Program, lay *Layout) {
	n := len(p.Toks)
	// prefer a token with a line break inside, or a separator with a comment / line end
	var cand []int
	for i, t := range p.Toks {
		if strings.ContainsAny(t, "\n\r") || strings.ContainsAny(lay.Seps[i], "\n\r-") {
			cand = append(cand, i)
		}
	}
	i := g.r.Intn(n)
	if len(cand) > 0 && g.r.Chance(85) {
		i = cand[g.r.Intn(len(cand))]
	}
	off := 0
	for j := 0; j < i; j++ {
		off += len(lay.Seps[j]) + len(p.Toks[j])
	}
	e := lay.Seps[i] + p.Toks[i]
	if i+1 < n {
		e += lay.Seps[i+1]
	} else {
		e += lay.Tail
	}
	// the byte of e that is to be the first byte of a new buffer: next to an interesting byte
	var ds []int
	for d := 0; d <= len(e); d++ {
		hot := func(k int) bool { return k >= 0 && k < len(e) && strings.IndexByte("\n\r[]=-\\", e[k]) >= 0 }
		if hot(d) || hot(d-1) {
			ds = append(ds, d)
		}
	}
	d := g.r.Intn(len(e) + 1)
	if len(ds) > 0 && g.r.Chance(85) {
		d = ds[g.r.Intn(len(ds))]
	}
	pre := ""
	if i > 0 && strings.HasSuffix(p.Toks[i-1], "-") {
		pre = " "
	}
	const frame = 6 // "--[[" "]]"
	l := (scanBuf - (off+len(pre)+frame+d)%scanBuf) % scanBuf
	lay.Seps[i] = pre + "--[[" + strings.Repeat("x", l) + "]]" + lay.Seps[i]
	lay.Style += "/aligned"
}

// render returns the source text and the (offset, length) of every token.
func render(p *Program, lay Layout) ([]byte, [][2]int) {
	var sb strings.Builder
	spans := make([][2]int, len(p.Toks))
	for i, t := range p.Toks {
		sb.WriteString(lay.Seps[i])
		spans[i] = [2]int{sb.Len(), len(t)}
		sb.WriteString(t)
	}
	sb.WriteString(lay.Tail)
	return []byte(sb.String()), spans
}
