package main

import (
	"strings"

	"verifh/lib"
)

// A layout is the separator written before every token (plus a trailer). Separators hold
// blanks, newline sequences of every kind, line comments and block comments (which may
// themselves span lines).
type Layout struct {
	Style string
	Seps  []string
	Tail  string
}

var nlKinds = []string{"\n", "\r\n", "\r", "\n\r"}

type layGen struct {
	r     *lib.Rand
	nl    func() string // newline sequence for this layout
	style string
}

func (g *layGen) blanks(min int) string {
	n := min + g.r.Intn(3)
	var sb strings.Builder
	for i := 0; i < n; i++ {
		if g.r.Chance(15) {
			sb.WriteByte('\t')
		} else {
			sb.WriteByte(' ')
		}
	}
	return sb.String()
}

var commentWords = []string{"x", "note", "end", "if x then", "--", "]]", "[[", "local a = 1", "\"", "error('m')", "1 2 3", ""}
var lineWords = []string{"x", " note", "end", " if x then", "--", "]]", " [[", " local a = 1", "\"", " error('m')", "-[[", ""}

func (g *layGen) lineComment() string {
	return "--" + lineWords[g.r.Intn(len(lineWords))] + g.nl()
}

func (g *layGen) blockComment() string {
	// --[[ ... ]] or --[==[ ... ]==], possibly spanning lines
	eq := ""
	if g.r.Chance(40) {
		eq = strings.Repeat("=", 1+g.r.Intn(2))
	}
	var sb strings.Builder
	sb.WriteString("--[" + eq + "[")
	n := g.r.Intn(4)
	for i := 0; i < n; i++ {
		w := commentWords[g.r.Intn(len(commentWords))]
		if eq == "" && strings.Contains(w, "]]") {
			w = "y"
		}
		sb.WriteString(w)
		if g.r.Chance(60) {
			sb.WriteString(g.nl())
		} else {
			sb.WriteByte(' ')
		}
	}
	sb.WriteString("]" + eq + "]")
	return sb.String()
}

// tight reports whether a and b may be written without anything between them.
func tight(a, b string) bool {
	safe := func(s string) bool { return s == "(" || s == ")" || s == "," || s == ";" || s == "{" || s == "}" }
	if a == "" {
		return true
	}
	return safe(a) || safe(b)
}

func isWord(s string) bool {
	c := s[0]
	return c == '_' || c >= 'a' && c <= 'z' || c >= 'A' && c <= 'Z' || c >= '0' && c <= '9'
}

// sep makes one separator. pNL: chance (percent) of at least one line break; more: chance of
// extra blank/comment lines; pc: chance of comments.
func (g *layGen) sep(prev, next string, pNL, more, pc int) string {
	var sb strings.Builder
	brk := g.r.Chance(pNL)
	if !brk {
		if tight(prev, next) && g.r.Chance(50) {
			return ""
		}
		sb.WriteString(g.blanks(1))
		if g.r.Chance(pc / 3) {
			sb.WriteString(g.blockComment())
			sb.WriteString(g.blanks(1))
		}
		return sb.String()
	}
	// a line break, maybe preceded by a trailing comment, maybe followed by more lines
	if prev != "" || g.r.Chance(50) {
		if g.r.Chance(pc) {
			sb.WriteString(g.blanks(1))
			if g.r.Chance(70) {
				sb.WriteString(g.lineComment())
			} else {
				sb.WriteString(g.blockComment())
				sb.WriteString(g.nl())
			}
		} else {
			sb.WriteString(g.nl())
		}
	}
	for g.r.Chance(more) {
		switch g.r.Intn(4) {
		case 0:
			sb.WriteString(g.nl()) // blank line
		case 1:
			sb.WriteString(g.blanks(0))
			sb.WriteString(g.nl())
		case 2:
			sb.WriteString(g.blanks(1))
			sb.WriteString(g.lineComment())
		default:
			sb.WriteString(g.blanks(1))
			sb.WriteString(g.blockComment())
			if g.r.Chance(70) {
				sb.WriteString(g.nl())
			} else {
				sb.WriteByte(' ')
			}
		}
	}
	sb.WriteString(g.blanks(0))
	s := sb.String()
	if s == "" {
		s = " "
	}
	return s
}

// stmtStart marks tokens that begin a statement entry (used by the tidy styles).
func stmtStarts(p *Program) map[int]bool {
	m := map[int]bool{}
	for _, s := range p.Stmts {
		m[s[0]] = true
	}
	for i, t := range p.Toks {
		if t == "end" || t == "else" || t == "elseif" || t == "until" {
			m[i] = true
		}
	}
	return m
}

// makeLayout builds layout number k for the program. Style 0 is the tidy one (a statement
// per line, LF); the others are drawn from the styles below.
func makeLayout(p *Program, k int, r *lib.Rand) Layout {
	g := &layGen{r: r}
	styles := []string{"tidy", "spread", "comments", "tokenline", "mixed", "blanklines", "crlf-tidy"}
	style := styles[0]
	if k > 0 {
		style = styles[1+r.Intn(len(styles)-1)]
	}
	if k == 3 {
		style = "tokenline"
	}
	g.style = style
	kind := nlKinds[r.Pick(4, 3, 3, 1)]
	if style == "tidy" {
		kind = "\n"
	}
	if style == "mixed" {
		g.nl = func() string { return nlKinds[r.Pick(4, 3, 3, 1)] }
	} else {
		g.nl = func() string { return kind }
	}
	starts := stmtStarts(p)
	lay := Layout{Style: style + "/" + strings.NewReplacer("\n", "LF", "\r", "CR").Replace(kind)}
	prev := ""
	for i, t := range p.Toks {
		var s string
		switch style {
		case "tidy", "crlf-tidy":
			if i == 0 {
				s = ""
			} else if starts[i] {
				s = g.nl() + strings.Repeat(" ", r.Intn(3))
			} else if tight(prev, t) && (t == "(" || t == ")" || t == ",") {
				s = ""
			} else {
				s = " "
			}
		case "spread":
			s = g.sep(prev, t, 35, 10, 0)
		case "comments":
			s = g.sep(prev, t, 30, 30, 60)
		case "tokenline":
			s = g.sep(prev, t, 100, 5, 10)
		case "blanklines":
			if starts[i] {
				s = g.sep(prev, t, 100, 60, 20)
			} else {
				s = g.sep(prev, t, 5, 0, 0)
			}
		default: // mixed
			s = g.sep(prev, t, 40, 25, 35)
		}
		if i == 0 && style != "tidy" && r.Chance(50) {
			s = g.sep("", t, 100, 40, 40)
		}
		// never let two tokens run together
		if s == "" && !tight(prev, t) {
			s = " "
		}
		// a separator that starts with "--" directly after "-" would read as a comment start earlier
		if strings.HasPrefix(s, "-") {
			s = " " + s
		}
		// gopher (like Lua 5.1) rejects a line break between ")" and "(" of a call: keep them together
		if t == "(" && prev == ")" {
			s = ""
		}
		lay.Seps = append(lay.Seps, s)
		prev = t
	}
	if r.Chance(70) {
		lay.Tail = g.nl()
	}
	return lay
}

// render returns the source text and the (offset, length) of every token.
func render(p *Program, lay Layout) ([]byte, [][2]int) {
	var sb strings.Builder
	spans := make([][2]int, len(p.Toks))
	for i, t := range p.Toks {
		sb.WriteString(lay.Seps[i])
		spans[i] = [2]int{sb.Len(), len(t)}
		sb.WriteString(t)
	}
	sb.WriteString(lay.Tail)
	return []byte(sb.String()), spans
}
