package main

import "verifh/lib"

type corpusCase struct {
	name    string
	build   func() *Generated
	layouts []Layout
}

func corpusList() []corpusCase { return nil }

func corpus(w *lib.Writer) {
	for _, c := range corpusList() {
		runCase(w, input{Kind: "corpus", Name: c.name, NLay: len(c.layouts)}, c.build(), c.layouts)
	}
}
