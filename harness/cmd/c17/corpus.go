package main

import "verifh/lib"

// The regression corpus: the witnesses of every defect found for C17 (fixed or listed), built
// by hand with the same machinery as the generated programs. Run first on every check.
type corpusCase struct {
	name    string
	build   func() *Generated
	layouts []Layout
}

type hand struct {
	g    *gen
	main *Func
	fx   *fctx
}

func newHand(seed uint64) *hand {
	g := newGen(lib.NewRand(seed))
	main := &Func{ID: 0, IsMain: true, Vararg: true}
	fx := &fctx{fn: main, callerNLoc: -1}
	fx.push()
	return &hand{g, main, fx}
}

func (h *hand) local(fx *fctx, nm string, v int) *Stmt {
	fx.declare(Binding{nm, ival(v)})
	return &Stmt{K: "local", Names: []string{nm}, Exprs: []*Expr{num(v)}, Vals: []*int{ival(v)}}
}

// q is the statement Q(id) observed at levels 1 and 2.
func (h *hand) q(fx *fctx) *Stmt {
	p := h.g.pt("Q")
	e := call(name("Q"), num(p.ID))
	if x := fx.extraLevel(); x > 0 {
		e.Args = append(e.Args, num(x))
	}
	e.Pt = p
	h.g.observeFrame(fx, p, func() *Expr { return e })
	return &Stmt{K: "call", Exprs: []*Expr{e}}
}

func (h *hand) qs(fx *fctx, idx, v int) *Stmt {
	p := h.g.pt("QS")
	ie := num(idx)
	if idx < 0 {
		ie = un("-", num(-idx))
	}
	e := call(name("QS"), num(p.ID), num(1), ie, num(v))
	e.Pt = p
	h.g.sets = append(h.g.sets, setObs{scopeObs{fixed(fx.fn), p.ID, p.ID, 1}, idx, v})
	return &Stmt{K: "call", Exprs: []*Expr{e}}
}

func layoutsFor(g *Generated, seed uint64) []Layout {
	r := lib.NewRand(seed)
	var ls []Layout
	for k := 0; k < 4; k++ {
		ls = append(ls, makeLayout(g.Prog, k, r.Fork()))
	}
	return ls
}

func corpusList() []corpusCase {
	var out []corpusCase
	add := func(name string, build func() *Generated) {
		out = append(out, corpusCase{name, build, layoutsFor(build(), 17)})
	}
	// C17-1 (fixed 0bd7783): local a=1; do local c=3 end; local d=4; getlocal(1,2) gave "c",4
	add("dbglocals-register-reuse", func() *Generated {
		h := newHand(1)
		b := []*Stmt{h.local(h.fx, "a", 1)}
		h.fx.push()
		inner := []*Stmt{h.local(h.fx, "c", 3), h.q(h.fx)}
		h.fx.pop()
		b = append(b, &Stmt{K: "do", Body: inner})
		b = append(b, h.local(h.fx, "d", 4), h.q(h.fx))
		h.fx.push()
		in2 := []*Stmt{h.local(h.fx, "e", 5), h.local(h.fx, "f", 6)}
		h.fx.pop()
		b = append(b, &Stmt{K: "do", Body: in2}, h.local(h.fx, "g", 7), h.q(h.fx), h.qs(h.fx, 2, 9001))
		h.main.Body = b
		return finish(h.g, h.main)
	})
	// fixed 6924931: hidden loop variables were in scope inside the loop header expressions
	add("for-header-scope", func() *Generated {
		h := newHand(2)
		mk := func() *Expr {
			p := h.g.pt("Q")
			e := call(name("Q"), num(p.ID))
			e.Pt = p
			h.g.observeFrame(h.fx, p, func() *Expr { return e })
			return e
		}
		b := []*Stmt{h.local(h.fx, "a", 1)}
		nf := &Stmt{K: "numfor", Names: []string{"i"}, Exprs: []*Expr{mk(), mk(), mk()}}
		h.fx.push()
		for _, n := range []string{"(for index)", "(for limit)", "(for step)", "i"} {
			h.fx.declare(Binding{n, ival(1)})
		}
		nf.ForVals = [4]*int{ival(1), ival(1), ival(1), ival(1)}
		nf.Body = []*Stmt{h.q(h.fx)}
		h.fx.pop()
		gf := &Stmt{K: "genfor", Names: []string{"k", "v"}, Exprs: []*Expr{call(name("pairs"), &Expr{K: "table", Args: []*Expr{mk()}, Keys: []string{""}})}, Vals: []*int{ival(1), ival(1)}}
		h.fx.push()
		for _, n := range []string{"(for generator)", "(for state)", "(for control)"} {
			h.fx.declare(Binding{n, nil})
		}
		h.fx.declare(Binding{"k", ival(1)})
		h.fx.declare(Binding{"v", ival(1)})
		gf.Body = []*Stmt{h.q(h.fx)}
		h.fx.pop()
		h.main.Body = append(b, nf, gf, h.q(h.fx))
		return finish(h.g, h.main)
	})
	// fixed 2c783a2: getlocal/setlocal with index 0 or negative
	add("getlocal-index-le-0", func() *Generated {
		h := newHand(3)
		h.main.Body = []*Stmt{h.local(h.fx, "a", 1), h.qs(h.fx, 0, 9002), h.qs(h.fx, -1, 9003), h.qs(h.fx, 1, 9004), h.qs(h.fx, 250, 9005), h.q(h.fx)}
		return finish(h.g, h.main)
	})
	// fixed 8d6d67c: linedefined of function statements
	add("linedefined-function-statement", func() *Generated {
		h := newHand(4)
		var body []*Stmt
		for _, kind := range []string{"localfunc", "funcstmt", "method", "anon", "paren"} { // paren: fixed de349e1
			f := &Func{ID: h.g.fn()}
			cx := &fctx{fn: f, parent: h.fx, callerNLoc: -1}
			cx.push()
			var ce *Expr
			switch kind {
			case "localfunc":
				ce = call(name("lf"))
			case "funcstmt":
				ce = call(index(name("T"), "gf"))
			case "method":
				f.Method = true
				cx.declare(Binding{"self", nil})
				ce = method(name("T"), "mm")
			case "paren":
				ce = call(name("pf"))
			default:
				ce = call(name("af"))
			}
			p := h.g.pt("chain")
			ce.Pt = p
			cx.callSite, cx.callPt, cx.callerFn = ce, p, h.fx
			f.Body = []*Stmt{h.q(cx), {K: "return", Exprs: []*Expr{num(1)}}}
			switch kind {
			case "localfunc":
				h.fx.declare(Binding{"lf", nil})
				body = append(body, &Stmt{K: "localfunc", Names: []string{"lf"}, Fn: f})
			case "funcstmt":
				body = append(body, &Stmt{K: "funcstmt", Path: []string{"T", "gf"}, Fn: f})
			case "method":
				body = append(body, &Stmt{K: "funcstmt", Path: []string{"T"}, Method: "mm", Fn: f})
			case "paren":
				body = append(body, &Stmt{K: "local", Names: []string{"pf"}, Exprs: []*Expr{paren(&Expr{K: "func", Fn: f})}, Vals: []*int{nil}})
				h.fx.declare(Binding{"pf", nil})
			default:
				body = append(body, &Stmt{K: "local", Names: []string{"af"}, Exprs: []*Expr{{K: "func", Fn: f}}, Vals: []*int{nil}})
				h.fx.declare(Binding{"af", nil})
			}
			body = append(body, &Stmt{K: "call", Exprs: []*Expr{ce}})
		}
		h.main.Body = body
		return finish(h.g, h.main)
	})
	// C17-2 (= C05-3, fixed 7dd2d0e by the coordinator): error("m", 2) reported the level-1 position
	add("error-level-2", func() *Generated {
		h := newHand(5)
		inner := &Func{ID: h.g.fn()}
		ci := &fctx{fn: inner, parent: h.fx, callerNLoc: -1}
		ci.push()
		outer := &Func{ID: h.g.fn()}
		co := &fctx{fn: outer, parent: h.fx, callerNLoc: -1}
		co.push()
		ce := call(name("inner"))
		p := h.g.pt("chain")
		ce.Pt = p
		ci.callSite, ci.callPt, ci.callerFn = ce, p, co
		er := call(name("error"), str("\"m\""), num(2))
		inner.Body = []*Stmt{{K: "call", Exprs: []*Expr{er}}}
		h.g.lines = append(h.g.lines, lineObs{"range", func() int { return ce.First }, func() int { return ce.Anchor }, obsSrc{"err", 1, 0, 0}, "err:error2"})
		h.g.classes["fault:error2"] = true
		h.fx.declare(Binding{"inner", nil})
		co.resolve("inner")
		outer.Body = []*Stmt{{K: "call", Exprs: []*Expr{ce}}, {K: "return", Exprs: []*Expr{num(1)}}}
		h.fx.declare(Binding{"outer", nil})
		h.g.nScen = 1
		h.main.Body = []*Stmt{
			{K: "localfunc", Names: []string{"inner"}, Fn: inner},
			{K: "localfunc", Names: []string{"outer"}, Fn: outer},
			{K: "call", Exprs: []*Expr{call(name("R"), num(1), call(name("pcall"), name("outer")))}},
		}
		return finish(h.g, h.main)
	})
	// fixed aa93f59: the iterator of a generic for saw the hidden variables as (*temporary)
	add("generic-for-iterator-scope", func() *Generated {
		h := newHand(8)
		f := &Func{ID: h.g.fn(), Params: []Binding{{"s", ival(101)}, {"c", ival(0)}}}
		cx := &fctx{fn: f, parent: h.fx, callerNLoc: -1}
		cx.push()
		cx.declare(f.Params[0])
		cx.declare(f.Params[1])
		site := &Expr{K: "itersite"}
		p := h.g.pt("chain")
		site.Pt = p
		cx.callSite, cx.callPt, cx.callerFn = site, p, h.fx
		f.Body = []*Stmt{h.q(cx), {K: "return", Exprs: []*Expr{num(1)}}}
		h.fx.declare(Binding{"it", nil})
		st := &Stmt{K: "genfor", Names: []string{"i", "j"}, IterSite: site, Exprs: []*Expr{name("it"), num(101), num(0)},
			Body: []*Stmt{{K: "local", Names: []string{"z"}, Exprs: []*Expr{num(3)}, Vals: []*int{ival(3)}}, {K: "break"}}}
		h.main.Body = []*Stmt{{K: "localfunc", Names: []string{"it"}, Fn: f}, h.local(h.fx, "q", 7), st, h.q(h.fx)}
		return finish(h.g, h.main)
	})
	// fixed 5239a70: a level that falls on a frame lost to a tail call addressed the bottom frame
	add("levels-through-tail-calls", func() *Generated {
		h := newHand(7)
		fH := &Func{ID: h.g.fn()}
		cH := &fctx{fn: fH, parent: h.fx, callerNLoc: -1, underPcall: true}
		cH.push()
		fG := &Func{ID: h.g.fn()}
		cG := &fctx{fn: fG, parent: h.fx, callerNLoc: -1}
		cG.push()
		fG2 := &Func{ID: h.g.fn()}
		cG2 := &fctx{fn: fG2, parent: h.fx, callerNLoc: -1, tailOf: cG}
		cG2.push()
		fF := &Func{ID: h.g.fn()}
		cF := &fctx{fn: fF, parent: h.fx, callerNLoc: -1, tailOf: cG2}
		cF.push()
		callG := call(name("tg"))
		pG := h.g.pt("chain")
		callG.Pt = pG
		cG.callSite, cG.callPt, cG.callerFn = callG, pG, cH
		// F: queried, then error("m", 2)
		er := call(name("error"), str("\"m\""), num(2))
		zero := func() int { return 0 }
		fF.Body = []*Stmt{h.local(cF, "f1", 1), h.q(cF), {K: "call", Exprs: []*Expr{er}}}
		h.g.lines = append(h.g.lines, lineObs{"none", zero, zero, obsSrc{"err", 1, 0, 0}, "err:error2/tail"})
		h.fx.declare(Binding{"tf", nil})
		cG2.resolve("tf")
		fG2.Body = []*Stmt{h.local(cG2, "g2", 2), h.q(cG2), {K: "do", Body: []*Stmt{{K: "return", Exprs: []*Expr{call(name("tf"))}}}}}
		h.fx.declare(Binding{"tg2", nil})
		cG.resolve("tg2")
		fG.Body = []*Stmt{h.local(cG, "g1", 3), h.q(cG), {K: "return", Exprs: []*Expr{call(name("tg2"))}}}
		h.fx.declare(Binding{"tg", nil})
		cH.resolve("tg")
		fH.Body = []*Stmt{h.local(cH, "h1", 4), {K: "local", Names: []string{"x"}, Exprs: []*Expr{callG}, Vals: []*int{nil}}, {K: "return", Exprs: []*Expr{num(1)}}}
		h.fx.declare(Binding{"th", nil})
		h.g.nScen = 1
		h.main.Body = []*Stmt{
			h.local(h.fx, "m1", 5),
			{K: "localfunc", Names: []string{"tf"}, Fn: fF},
			{K: "localfunc", Names: []string{"tg2"}, Fn: fG2},
			{K: "localfunc", Names: []string{"tg"}, Fn: fG},
			{K: "localfunc", Names: []string{"th"}, Fn: fH},
			{K: "call", Exprs: []*Expr{call(name("R"), num(1), call(name("pcall"), name("th")))}},
		}
		return finish(h.g, h.main)
	})
	// seeded C17-6: errors raised by a Go function called by a Go function (pcall(libfn), xpcall,
	// gsub/sort with a failing host callback, host function calling a Go function, in coroutines)
	add("go-function-called-by-go-function", func() *Generated {
		h := newHand(6)
		var body []*Stmt
		for k := 1; k <= 8; k++ {
			f := &Func{ID: h.g.fn()}
			cx := &fctx{fn: f, parent: h.fx, callerNLoc: -1}
			cx.push()
			f.Body = append(h.g.faultAction(cx, "gogo", k, 1), &Stmt{K: "return", Exprs: []*Expr{num(1)}})
			body = append(body, &Stmt{K: "call", Exprs: []*Expr{call(name("R"), num(k), call(name("pcall"), &Expr{K: "func", Fn: f}))}})
		}
		h.g.nScen = 8
		h.main.Body = body
		return finish(h.g, h.main)
	})
	return out
}

func corpus(w *lib.Writer) {
	for _, c := range corpusList() {
		runCase(w, input{Kind: "corpus", Name: c.name, NLay: len(c.layouts)}, c.build(), c.layouts)
	}
}
