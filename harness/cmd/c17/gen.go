package main

import (
	"fmt"
	"strings"

	"verifh/lib"
)

// ---------- what is observed, resolved to token indices after emission ----------

type obsSrc struct {
	Kind string // err | cur | ldef | llast
	Scen int    // err: scenario number (0 = error of the whole chunk)
	Pt   int    // cur/ldef/llast: observing point
	Lvl  int    // 1 | 2
}

type lineObs struct {
	Mode    string // range | exact
	SpecTok func() int
	ImplTok func() int
	Src     obsSrc
	What    string // for the class table and diagnostics
}

type scopeObs struct {
	Fn  func() *Func
	Pt  int // point in Fn's scope tree
	At  int // observing point (== Pt at level 1)
	Lvl int
}

type setObs struct {
	scopeObs
	Idx, Val int
}

type upObs struct {
	Fn *Func
	At int
}

func fixed(f *Func) func() *Func { return func() *Func { return f } }

type upSetObs struct {
	upObs
	Idx, Val int
}

// ---------- generation context ----------

type fctx struct {
	fn     *Func
	parent *fctx
	scopes [][]Binding
	// the call that entered this function on the chain (nil: entered from Go / pcall)
	callSite   *Expr
	callerFn   *fctx
	callPt     *Point
	callerNLoc int // locals in scope in the caller at the call (-1: unknown)
	// entered by `return f(...)` from tailOf's function: that frame is lost, level 2 is the
	// "(tail call)" pseudo frame
	tailOf     *fctx
	underPcall bool
}

// tailBase: the function that started the sequence of tail calls ending here, and how many
// frames were lost on the way.
func (fx *fctx) tailBase() (*fctx, int) {
	b, d := fx, 0
	for b.tailOf != nil {
		b, d = b.tailOf, d+1
	}
	return b, d
}

func (fx *fctx) push() { fx.scopes = append(fx.scopes, nil) }
func (fx *fctx) pop()  { fx.scopes = fx.scopes[:len(fx.scopes)-1] }
func (fx *fctx) declare(b Binding) {
	fx.scopes[len(fx.scopes)-1] = append(fx.scopes[len(fx.scopes)-1], b)
}
func (fx *fctx) nlocals() int {
	n := 0
	for _, s := range fx.scopes {
		n += len(s)
	}
	return n
}
func (fx *fctx) findLocal(n string) *Binding {
	for i := len(fx.scopes) - 1; i >= 0; i-- {
		for j := len(fx.scopes[i]) - 1; j >= 0; j-- {
			if fx.scopes[i][j].Name == n {
				return &fx.scopes[i][j]
			}
		}
	}
	return nil
}

// resolve is Lua's singlevaraux: local, else upvalue (recorded in every function between),
// else global.
func (fx *fctx) resolve(n string) (kind string, b *Binding) {
	if b := fx.findLocal(n); b != nil {
		return "local", b
	}
	for i := range fx.fn.Upvals {
		if fx.fn.Upvals[i].Name == n {
			return "upval", &fx.fn.Upvals[i]
		}
	}
	if fx.parent == nil {
		return "global", nil
	}
	k, b := fx.parent.resolve(n)
	if k == "global" {
		return "global", nil
	}
	fx.fn.Upvals = append(fx.fn.Upvals, Binding{n, b.Val})
	return "upval", &fx.fn.Upvals[len(fx.fn.Upvals)-1]
}

type action struct {
	K     string // q | qs | qu | chain | fault | scen
	Fault string
	Next  func(fx *fctx) ([]*Stmt, callee) // chain: defines what is needed and says how to enter it
	Scen  int
}

type gen struct {
	r       *lib.Rand
	nextPt  int
	nextVal int
	nextFn  int
	nextNm  int
	nScen   int
	size    int // statements generated so far (budget)

	lines  []lineObs
	scopes []scopeObs
	sets   []setObs
	ups    []upObs
	upsets []upSetObs

	onPlace func() // name resolution of the expression being placed, run where it stands in source order
	plain   bool   // the expression being placed may yield a boolean: no arithmetic around it

	loaded     []int       // query ids that run inside a chunk made by loadstring: what = "main", lines 0
	loadedLine map[int]int // ... and the line of the query statement inside that chunk's own text

	classes map[string]bool
	kf      map[string]bool
}

func newGen(r *lib.Rand) *gen {
	return &gen{r: r, nextVal: 100, classes: map[string]bool{}, kf: map[string]bool{}}
}

func (g *gen) pt(kind string) *Point { g.nextPt++; return &Point{g.nextPt, kind} }
func (g *gen) val() int              { g.nextVal++; return g.nextVal }

var localNames = []string{"a", "b", "c", "d", "x", "y", "z", "i", "j", "k", "n", "v", "w", "u", "s", "p", "q", "t"}

func (g *gen) lname() string { return localNames[g.r.Intn(len(localNames))] }
func (g *gen) fresh(prefix string) string {
	g.nextNm++
	return fmt.Sprintf("%s%d", prefix, g.nextNm)
}

// ref makes a variable reference, recording upvalue captures.
func (g *gen) ref(fx *fctx, n string) *Expr {
	fx.resolve(n)
	return name(n)
}

// ---------- tokens with line breaks inside ----------
func (g *gen) longString() *Expr {
	kind := nlKinds[g.r.Pick(4, 3, 3, 1)]
	nl := func() string { return kind }
	if g.r.Chance(25) {
		nl = func() string { return nlKinds[g.r.Pick(4, 3, 3, 1)] }
	}
	if g.r.Chance(50) {
		// long bracket of level 0-3 whose body is made of closer / opener look-alikes, dashes, quotes,
		// backslashes and line ends (layout.go soup); "p" keeps the value non-empty
		eq := strings.Repeat("=", g.r.Pick(3, 3, 2, 1))
		lg := &layGen{r: g.r}
		body := lg.soup(eq, nl)
		i := g.r.Intn(len(body) + 1)
		body = body[:i] + "p" + body[i:]
		return str("[" + eq + "[" + body + "]" + eq + "]")
	}
	words := []string{"", "x", "end", "--", "]", "a b", "'"}
	s := ""
	n := 1 + g.r.Intn(3)
	for i := 0; i < n; i++ {
		s += words[g.r.Intn(len(words))]
		if i < n-1 || g.r.Chance(30) {
			s += nl()
		}
	}
	if g.r.Chance(40) {
		s = nl() + s // a leading newline is dropped from the value, not from the line count
	}
	switch g.r.Intn(3) {
	case 0:
		return str("[[p" + strings.ReplaceAll(s, "]", ")") + "]]")
	case 1:
		return str("[=[" + s + "p]=]")
	default:
		// short string with escaped line breaks, next to other escapes (none of which is a line end)
		esc := []string{"q", "\\n", "\\r", "\\10", "\\13", "\\\\", "\\'", "", "--", "]]", "\\013\\010"}
		q := []string{"\"", "'"}[g.r.Intn(2)]
		t := q + "p"
		for i := 0; i < n; i++ {
			t += esc[g.r.Intn(len(esc))] + "\\" + nl() + esc[g.r.Intn(len(esc))]
		}
		return str(t + q)
	}
}

func (g *gen) strLit() *Expr {
	if g.r.Chance(25) {
		return g.longString()
	}
	return str([]string{"\"s\"", "'t'", "\"a b\"", "\"\\n\"", "\"--\"", "\"--[[\"", "'\\r\\n'", "\"\\10\"", "'--[='", "\"]]\""}[g.r.Intn(10)])
}

// ---------- fillers: harmless whether executed or not ----------
func (g *gen) simpleVal(fx *fctx) *Expr {
	switch g.r.Intn(6) {
	case 0:
		return g.strLit()
	case 1:
		return lit([]string{"nil", "true", "false"}[g.r.Intn(3)])
	case 2:
		// some variable in scope (local or upvalue) or a global
		if n := fx.nlocals(); n > 0 && g.r.Chance(60) {
			for _, s := range fx.scopes {
				for _, b := range s {
					if g.r.Intn(n) == 0 && b.Name[0] != '(' {
						return g.ref(fx, b.Name)
					}
				}
			}
		}
		if fx.parent != nil && g.r.Chance(60) {
			for p := fx.parent; p != nil; p = p.parent {
				for _, s := range p.scopes {
					for _, b := range s {
						if g.r.Intn(4) == 0 && b.Name[0] != '(' {
							return g.ref(fx, b.Name)
						}
					}
				}
			}
		}
		return name(fmt.Sprintf("G%d", 1+g.r.Intn(3)))
	default:
		return num(g.r.Intn(50))
	}
}

func (g *gen) declLocal(fx *fctx, known bool) *Stmt {
	n := 1 + g.r.Pick(6, 3, 1)
	s := &Stmt{K: "local"}
	var bs []Binding
	for i := 0; i < n; i++ {
		nm := g.lname()
		s.Names = append(s.Names, nm)
		bs = append(bs, Binding{nm, nil})
	}
	ne := n
	switch g.r.Intn(5) {
	case 0:
		ne = 0
	case 1:
		ne = 1
	}
	for i := 0; i < ne; i++ {
		if known || g.r.Chance(75) {
			v := g.val()
			s.Exprs = append(s.Exprs, num(v))
			bs[i].Val = ival(v)
		} else {
			s.Exprs = append(s.Exprs, g.simpleVal(fx))
		}
	}
	for i := range bs {
		s.Vals = append(s.Vals, bs[i].Val)
	}
	// the new names come into scope after the statement
	for _, b := range bs {
		fx.declare(b)
	}
	return s
}

func (g *gen) fillerBlockBody(fx *fctx, depth int) []*Stmt {
	fx.push()
	var out []*Stmt
	for i := g.r.Intn(3); i > 0; i-- {
		out = append(out, g.filler(fx, depth+1))
	}
	fx.pop()
	return out
}

func (g *gen) filler(fx *fctx, depth int) *Stmt {
	g.size++
	k := g.r.Pick(30, 12, 10, 8, 6, 6, 5, 5, 4, 6)
	if depth >= 3 && k >= 3 && k <= 8 {
		k = 0
	}
	switch k {
	case 0:
		return g.declLocal(fx, false)
	case 1:
		return &Stmt{K: "assign", Lhs: []*Expr{name(fmt.Sprintf("G%d", 1+g.r.Intn(3)))}, Exprs: []*Expr{g.simpleVal(fx)}}
	case 2:
		if g.r.Chance(15) {
			c := call(name("sink"), g.strLit())
			c.Style = 1
			return &Stmt{K: "call", Exprs: []*Expr{c}}
		}
		c := call(name("sink"), g.simpleVal(fx))
		if g.r.Chance(50) {
			c.Args = append(c.Args, g.simpleVal(fx))
		}
		return &Stmt{K: "call", Exprs: []*Expr{c}}
	case 3:
		return &Stmt{K: "do", Body: g.fillerBlockBody(fx, depth)}
	case 4:
		s := &Stmt{K: "if", Conds: []*Expr{lit("false")}, Blocks: [][]*Stmt{g.fillerBlockBody(fx, depth)}}
		if g.r.Chance(40) {
			s.Conds = append(s.Conds, bin("==", num(1), num(2)))
			s.Blocks = append(s.Blocks, g.fillerBlockBody(fx, depth))
		}
		if g.r.Chance(50) {
			s.HasElse = true
			s.Else = g.fillerBlockBody(fx, depth)
		}
		return s
	case 5:
		return &Stmt{K: "while", Exprs: []*Expr{lit("false")}, Body: g.fillerBlockBody(fx, depth)}
	case 6:
		// numeric for, zero or two iterations
		lim := []int{0, 2}[g.r.Intn(2)]
		s := &Stmt{K: "numfor", Names: []string{g.lname()}, Exprs: []*Expr{num(1), num(lim)}}
		fx.push()
		fx.declare(Binding{"(for index)", nil})
		fx.declare(Binding{"(for limit)", nil})
		fx.declare(Binding{"(for step)", nil})
		fx.declare(Binding{s.Names[0], nil})
		for i := g.r.Intn(3); i > 0; i-- {
			s.Body = append(s.Body, g.filler(fx, depth+1))
		}
		fx.pop()
		return s
	case 7:
		s := &Stmt{K: "repeat", Exprs: []*Expr{lit("true")}}
		s.Body = g.fillerBlockBody(fx, depth)
		return s
	case 8:
		// a nested function that is never on the chain (maybe called)
		f := &Func{ID: g.fn()}
		cx := &fctx{fn: f, parent: fx}
		cx.push()
		for i := g.r.Intn(3); i > 0; i-- {
			b := Binding{g.lname(), nil}
			f.Params = append(f.Params, b)
			cx.declare(b)
		}
		for i := g.r.Intn(3); i > 0; i-- {
			f.Body = append(f.Body, g.filler(cx, 2))
		}
		nm := g.fresh("h")
		s := &Stmt{K: "localfunc", Names: []string{nm}, Fn: f}
		fx.declare(Binding{nm, nil})
		return s
	default:
		t := &Expr{K: "table"}
		for i := g.r.Intn(4); i > 0; i-- {
			t.Args = append(t.Args, g.simpleVal(fx))
			if g.r.Chance(30) {
				t.Keys = append(t.Keys, g.lname())
			} else {
				t.Keys = append(t.Keys, "")
			}
		}
		return &Stmt{K: "assign", Lhs: []*Expr{index(name("T"), "x")}, Exprs: []*Expr{t}}
	}
}

func (g *gen) fn() int { g.nextFn++; return g.nextFn }

// atom parenthesises an operator expression so that it can be an operand of a wrapper without
// the parser regrouping it.
func atom(e *Expr) *Expr {
	if e.K == "bin" || e.K == "un" {
		return paren(e)
	}
	return e
}

func (g *gen) placed() {
	if g.onPlace != nil {
		g.onPlace()
		g.onPlace = nil
	}
}

func startsWithParen(e *Expr) bool {
	for e != nil {
		switch e.K {
		case "paren":
			return true
		case "index", "indexe", "call", "method", "bin":
			e = e.A
		default:
			return false
		}
	}
	return false
}

// ---------- expression wrappers ----------
// wrapVal: any context; wrapCond: result must stay truthy when e == 1; wrapNum: must stay 1.
func (g *gen) wrapVal(e *Expr, noConcat bool) *Expr {
	e = atom(e)
	switch g.r.Intn(14) {
	case 0:
		return paren(e)
	case 1:
		return bin("+", num(1+g.r.Intn(5)), e)
	case 2:
		return bin("*", e, num(2))
	case 3:
		return un("not", e)
	case 4:
		return bin("and", num(3), e)
	case 5:
		return bin("or", e, num(4))
	case 6:
		return un("-", e)
	case 7:
		return bin("==", e, num(1))
	case 8:
		return bin("+", bin("*", num(2), num(3)), paren(e))
	case 9:
		if !noConcat {
			return bin("..", e, g.strLit())
		}
	}
	return e
}

func (g *gen) wrapCond(e *Expr) *Expr {
	if g.plain {
		if g.r.Bool() {
			return paren(e)
		}
		return e
	}
	e = atom(e)
	switch g.r.Intn(9) {
	case 0:
		return paren(e)
	case 1:
		return bin("and", e, num(1))
	case 2:
		return bin("and", lit("true"), e)
	case 3:
		return bin("or", e, num(2))
	case 4:
		return bin("==", e, num(1))
	case 5:
		return bin("<", e, num(2))
	case 6:
		return un("not", un("not", e))
	}
	return e
}

func (g *gen) wrapNum(e *Expr) *Expr {
	e = atom(e)
	switch g.r.Intn(6) {
	case 0:
		return paren(e)
	case 1:
		return bin("*", e, num(1))
	case 2:
		return bin("+", num(0), e)
	case 3:
		return bin("and", e, num(1))
	}
	return e
}

// ---------- shapes: statements that evaluate e exactly once ----------
// body() supplies the statements of a block that the shape opens (may hold further actions).
func (g *gen) shape(fx *fctx, e *Expr, isCall, isFault, noConcat bool, depth int) []*Stmt {
	g.size++
	pick := g.r.Pick(14, 12, 6, 8, 6, 8, 8, 5, 5, 6, 5, 4, 5, 5, 4)
	if depth >= 3 && pick >= 9 {
		pick = 1
	}
	if pick != 10 && pick != 12 {
		g.placed() // in shapes 10 and 12 filler code precedes e in the source
	}
	W := func() *Expr {
		if g.r.Chance(50) {
			return e
		}
		if g.plain {
			return paren(e)
		}
		return g.wrapVal(e, noConcat)
	}
	if g.plain && (pick == 4 || pick == 7 || pick == 8 || pick >= 13) {
		pick = 1
	}
	switch pick {
	case 0:
		if isCall && !startsWithParen(e) { // a statement must not begin with "(": it would continue the previous one
			return []*Stmt{{K: "call", Exprs: []*Expr{e}}}
		}
		fallthrough
	case 1:
		nm := g.lname()
		s := &Stmt{K: "local", Names: []string{nm}, Exprs: []*Expr{W()}, Vals: []*int{nil}}
		fx.declare(Binding{nm, nil})
		return []*Stmt{s}
	case 2:
		n1, n2 := g.lname(), g.lname()
		v := g.val()
		s := &Stmt{K: "local", Names: []string{n1, n2}}
		if g.r.Bool() {
			s.Exprs = []*Expr{num(v), W()}
			s.Vals = []*int{ival(v), nil}
		} else {
			s.Exprs = []*Expr{W(), num(v)}
			s.Vals = []*int{nil, ival(v)}
		}
		fx.declare(Binding{n1, s.Vals[0]})
		fx.declare(Binding{n2, s.Vals[1]})
		return []*Stmt{s}
	case 3:
		s := &Stmt{K: "assign", Lhs: []*Expr{name("G1")}, Exprs: []*Expr{W()}}
		if g.r.Chance(40) {
			s.Lhs = append(s.Lhs, name("G2"))
			if g.r.Bool() {
				s.Exprs = append(s.Exprs, num(5))
			} else {
				s.Exprs = []*Expr{num(5), s.Exprs[0]}
			}
		}
		return []*Stmt{s}
	case 4:
		if g.r.Bool() {
			return []*Stmt{{K: "assign", Lhs: []*Expr{index(name("T"), "x")}, Exprs: []*Expr{W()}}}
		}
		return []*Stmt{{K: "assign", Lhs: []*Expr{indexe(name("T"), bin("+", num(1), atom(e)))}, Exprs: []*Expr{num(1)}}}
	case 5:
		c := call(name("sink"), num(1), W(), g.strLit())
		if g.r.Chance(30) {
			c = call(name("sink"), W())
		}
		return []*Stmt{{K: "call", Exprs: []*Expr{c}}}
	case 6:
		t := &Expr{K: "table", Args: []*Expr{num(1), W(), num(3)}, Keys: []string{"", "", "k"}}
		if g.r.Chance(40) {
			t = &Expr{K: "table", Args: []*Expr{W()}, Keys: []string{"k"}}
		}
		if g.r.Chance(30) {
			c := call(name("sink"), t)
			c.Style = 2
			return []*Stmt{{K: "call", Exprs: []*Expr{c}}}
		}
		nm := g.lname()
		s := &Stmt{K: "local", Names: []string{nm}, Exprs: []*Expr{t}, Vals: []*int{nil}}
		fx.declare(Binding{nm, nil})
		return []*Stmt{s}
	case 7:
		m := method(method(name("T"), "id", num(1)), "id", W())
		return []*Stmt{{K: "call", Exprs: []*Expr{m}}}
	case 8:
		if isFault {
			return []*Stmt{{K: "do", Body: []*Stmt{{K: "return", Exprs: []*Expr{W()}}}}}
		}
		return []*Stmt{{K: "assign", Lhs: []*Expr{name("G3")}, Exprs: []*Expr{bin("+", bin("+", num(1), num(2)), atom(e))}}}
	case 9:
		s := &Stmt{K: "if", Conds: []*Expr{g.wrapCond(e)}, Blocks: [][]*Stmt{g.fillerBlockBody(fx, depth)}}
		if g.r.Chance(30) {
			s.HasElse = true
			s.Else = g.fillerBlockBody(fx, depth)
		}
		return []*Stmt{s}
	case 10:
		b1 := g.fillerBlockBody(fx, depth)
		g.placed()
		s := &Stmt{K: "if", Conds: []*Expr{lit("false"), g.wrapCond(e)}, Blocks: [][]*Stmt{b1, g.fillerBlockBody(fx, depth)}}
		return []*Stmt{s}
	case 11:
		body := g.fillerBlockBody(fx, depth)
		body = append(body, &Stmt{K: "break"})
		return []*Stmt{{K: "while", Exprs: []*Expr{g.wrapCond(e)}, Body: body}}
	case 12:
		rb := g.fillerBlockBody(fx, depth)
		g.placed()
		return []*Stmt{{K: "repeat", Exprs: []*Expr{g.wrapCond(e)}, Body: rb}}
	case 13:
		s := &Stmt{K: "numfor", Names: []string{g.lname()}}
		one := func() *Expr { return num(1) }
		switch g.r.Intn(3) {
		case 0:
			s.Exprs = []*Expr{g.wrapNum(e), one()}
		case 1:
			s.Exprs = []*Expr{one(), g.wrapNum(e)}
		default:
			s.Exprs = []*Expr{one(), one(), g.wrapNum(e)}
		}
		fx.push()
		for _, n := range []string{"(for index)", "(for limit)", "(for step)", s.Names[0]} {
			fx.declare(Binding{n, nil})
		}
		for i := g.r.Intn(2); i > 0; i-- {
			s.Body = append(s.Body, g.filler(fx, depth+1))
		}
		fx.pop()
		return []*Stmt{s}
	default:
		s := &Stmt{K: "genfor", Names: []string{g.lname(), g.lname()}}
		t := &Expr{K: "table", Args: []*Expr{W()}, Keys: []string{""}}
		if g.r.Bool() {
			s.Exprs = []*Expr{call(name("pairs"), t)}
		} else {
			s.Exprs = []*Expr{name("next"), t, lit("nil")}
		}
		fx.push()
		for _, n := range []string{"(for generator)", "(for state)", "(for control)", s.Names[0], s.Names[1]} {
			fx.declare(Binding{n, nil})
		}
		for i := g.r.Intn(2); i > 0; i-- {
			s.Body = append(s.Body, g.filler(fx, depth+1))
		}
		fx.pop()
		return []*Stmt{s}
	}
}

// ---------- queries ----------
func (g *gen) observeFrame(fx *fctx, at *Point, siteOf func() *Expr) {
	// level 1: the function that contains the query call
	q := siteOf
	g.lines = append(g.lines, lineObs{"range", func() int { return q().First }, func() int { return q().Anchor }, obsSrc{"cur", 0, at.ID, 1}, "currentline/1"})
	g.defLines(fixed(fx.fn), at.ID, 1)
	g.scopes = append(g.scopes, scopeObs{fixed(fx.fn), at.ID, at.ID, 1})
	g.ups = append(g.ups, upObs{fx.fn, at.ID})
	// level 2: the calling statement in the calling Lua function
	if fx.callSite != nil {
		cs := fx.callSite
		g.lines = append(g.lines, lineObs{"range", func() int { return cs.First }, func() int { return cs.Anchor }, obsSrc{"cur", 0, at.ID, 2}, "currentline/2"})
		caller := func() *Func { return fx.callerFn.fn }
		g.defLines(caller, at.ID, 2)
		g.scopes = append(g.scopes, scopeObs{caller, fx.callPt.ID, at.ID, 2})
	}
	if fx.tailOf != nil {
		// level 2 is the (tail call) pseudo frame: no lines, no variables
		zero := func() int { return 0 }
		for _, k := range []string{"cur", "ldef", "llast"} {
			g.lines = append(g.lines, lineObs{"none", zero, zero, obsSrc{k, 0, at.ID, 2}, k + "/tail"})
		}
		// the first real frame below the lost ones: the statement that called the function which
		// started the sequence of tail calls
		if base, d := fx.tailBase(); !base.underPcall {
			g.lines = append(g.lines, lineObs{"range", func() int { return base.callSite.First }, func() int { return base.callSite.Anchor },
				obsSrc{"cur", 0, at.ID, d + 2}, "currentline/below-tail"})
		}
	}
}

// extraLevel: the level of the first real frame below the frames lost to tail calls (0: none).
func (fx *fctx) extraLevel() int {
	if fx.tailOf == nil {
		return 0
	}
	if base, d := fx.tailBase(); !base.underPcall {
		return d + 2
	}
	return 0
}

// defLines: linedefined / lastlinedefined of the function at that level (skipped for the main
// chunk at finalisation, where the tokens are -1).
func (g *gen) defLines(fo func() *Func, at, lvl int) {
	g.lines = append(g.lines, lineObs{"exact", func() int { return fo().FuncTok }, func() int { return fo().FuncTok }, obsSrc{"ldef", 0, at, lvl}, "linedefined"})
	g.lines = append(g.lines, lineObs{"exact", func() int { return fo().EndTok }, func() int { return fo().EndTok }, obsSrc{"llast", 0, at, lvl}, "lastlinedefined"})
}

func (g *gen) queryAction(fx *fctx, kind string, depth int) []*Stmt {
	p := g.pt("Q")
	var e *Expr
	switch kind {
	case "q":
		e = call(name("Q"), num(p.ID))
		if x := fx.extraLevel(); x > 0 {
			e.Args = append(e.Args, num(x))
		}
		e.Pt = p
		g.observeFrame(fx, p, func() *Expr { return e })
	case "qs":
		p.Kind = "QS"
		lvl := 1
		n := fx.nlocals()
		tf, tp := fixed(fx.fn), p
		if fx.callSite != nil && fx.callerNLoc >= 0 && g.r.Chance(40) {
			lvl = 2
			n = fx.callerNLoc
			tf, tp = func() *Func { return fx.callerFn.fn }, fx.callPt
		}
		idx := 1 + g.r.Intn(n+1)
		switch g.r.Intn(8) {
		case 0:
			idx = 0
		case 1:
			idx = 250
		}
		if idx > n && idx < 250 {
			idx = n
		}
		if n == 0 && idx < 250 {
			idx = 0
		}
		v := 9000 + g.r.Intn(100)
		e = call(name("QS"), num(p.ID), num(lvl), num(idx), num(v))
		e.Pt = p
		g.sets = append(g.sets, setObs{scopeObs{tf, tp.ID, p.ID, lvl}, idx, v})
		g.classes["setlocal"] = true
	default:
		p.Kind = "QU"
		n := len(fx.fn.Upvals)
		idx := 1 + g.r.Intn(n+1)
		if g.r.Chance(15) {
			idx = 0
		}
		v := 9500 + g.r.Intn(100)
		e = call(name("QU"), num(p.ID), num(idx), num(v))
		e.Pt = p
		f := fx.fn
		g.upsets = append(g.upsets, upSetObs{upObs{f, p.ID}, idx, v})
		g.classes["setupvalue"] = true
	}
	return g.shape(fx, e, true, false, false, depth)
}

// ---------- faults ----------
func (g *gen) nilOperand(fx *fctx, pre *[]*Stmt) *Expr {
	switch g.r.Intn(3) {
	case 0:
		return name(fmt.Sprintf("UNDEF%d", g.r.Intn(3)))
	case 1:
		return index(name("T"), "none")
	default:
		nm := g.fresh("nv")
		*pre = append(*pre, &Stmt{K: "local", Names: []string{nm}, Vals: []*int{nil}})
		fx.declare(Binding{nm, nil})
		return name(nm)
	}
}

var faultKinds = []string{"index", "index", "arith", "arith", "call", "call", "cmp", "concat", "error", "error", "error2", "store", "forcheck", "gencall", "method", "badarg", "gogo", "gogo"}

func (g *gen) faultAction(fx *fctx, kind string, scen int, depth int) []*Stmt {
	var pre []*Stmt
	var node, place *Expr // node: the operation that faults; place: the expression put into a statement
	noConcat := false
	isCall := false
	what := kind
	if kind == "error2" && fx.callSite == nil && fx.tailOf == nil {
		kind, what = "error", "error"
	}
	N := func() *Expr { return g.nilOperand(fx, &pre) }
	if kind == "gogo" && g.r.Chance(35) {
		// the same inside a coroutine: the message comes back through resume and is re-raised as it is
		f := &Func{ID: g.fn()}
		cx := &fctx{fn: f, parent: fx, callerNLoc: -1}
		cx.push()
		f.Body = append(g.faultAction(cx, "gogo/co", scen, 2), &Stmt{K: "return", Exprs: []*Expr{num(1)}})
		co := g.fresh("co")
		s1 := &Stmt{K: "local", Names: []string{co}, Vals: []*int{nil},
			Exprs: []*Expr{call(index(name("coroutine"), "create"), &Expr{K: "func", Fn: f})}}
		fx.declare(Binding{co, nil})
		s2 := &Stmt{K: "call", Exprs: []*Expr{call(name("error"),
			call(name("select"), num(2), call(index(name("coroutine"), "resume"), name(co))), num(0))}}
		g.size += 2
		return []*Stmt{s1, s2}
	}
	switch kind {
	case "gogo", "gogo/co":
		// a run-time error raised by a Go function whose caller is a Go function too (two or more
		// Go frames above the Lua frame): the position is that of the Lua statement being executed
		isCall = true
		bad := func() []*Expr { // a library/host function and arguments it rejects
			switch g.r.Intn(5) {
			case 0:
				return []*Expr{index(name("string"), "rep"), N()}
			case 1:
				return []*Expr{name("ipairs")}
			case 2:
				return []*Expr{index(name("math"), "floor"), g.strLit()}
			case 3:
				return []*Expr{name("HARG"), num(1)}
			default:
				return []*Expr{name("HRAISE")}
			}
		}
		rethrow := func(k int, x *Expr) *Expr { return call(name("error"), call(name("select"), num(k), x), num(0)) }
		hostf := func() *Expr { return name([]string{"HRAISE", "HARG"}[g.r.Intn(2)]) }
		switch g.r.Intn(8) {
		case 0:
			node = call(name("pcall"), bad()...)
			place = rethrow(2, node)
		case 1:
			node = call(name("pcall"), append([]*Expr{name("pcall")}, bad()...)...)
			place = rethrow(3, node)
		case 2:
			node = call(name("xpcall"), bad()[0], name("IDH"))
			place = rethrow(2, node)
		case 3:
			node = call(index(name("string"), "gsub"), g.strLit(), str("\".\""), hostf())
		case 4:
			node = method(paren(str("\"abc\"")), "gsub", str("\"%w\""), hostf())
		case 5:
			t := &Expr{K: "table", Args: []*Expr{num(3), num(1), num(2)}, Keys: []string{"", "", ""}}
			node = call(index(name("table"), "sort"), t, hostf())
		case 6:
			node = call(name("HCALL"), bad()...)
		default:
			node = call(name("HCALL"), append([]*Expr{name("HCALL")}, bad()...)...)
		}
	case "index":
		switch g.r.Intn(4) {
		case 0:
			node = index(N(), "f")
		case 1:
			node = indexe(N(), num(1))
		case 2:
			node = index(N(), "f") // the inner index faults
			place = index(node, "g")
		default:
			node = indexe(N(), g.strLit())
		}
	case "arith":
		switch g.r.Intn(7) {
		case 0:
			node = bin("+", N(), num(1))
		case 1:
			node = bin("-", num(1), N())
		case 2:
			node = bin("*", paren(num(2)), N())
		case 3:
			node = bin("^", num(2), N())
		case 4:
			node = un("-", N())
		case 5:
			node = bin("%", N(), num(3))
		default:
			node = bin("/", paren(bin("+", num(1), num(2))), N()) // constant-folded left operand
		}
	case "call":
		isCall = true
		switch g.r.Intn(5) {
		case 0:
			node = call(N())
		case 1:
			node = call(N(), num(1), g.strLit())
		case 2:
			node = call(N(), g.strLit())
			node.Style = 1
		case 3:
			node = call(N(), &Expr{K: "table", Args: []*Expr{num(1)}, Keys: []string{""}})
			node.Style = 2
		default:
			node = call(index(name("T"), "none"), num(2))
		}
	case "method":
		isCall = true
		node = method(name("T"), "none", num(1))
	case "badarg": // a library function rejects its argument: the position is the calling statement's
		isCall = true
		switch g.r.Intn(4) {
		case 0:
			node = call(name("ipairs"), N())
		case 1:
			node = call(index(name("string"), "rep"), N())
		case 2:
			node = method(paren(str("\"s\"")), "rep", N())
		default:
			node = call(index(name("math"), "floor"), str("\"x\""))
		}
	case "cmp":
		switch g.r.Intn(4) {
		case 0:
			node = bin("<", num(1), N())
		case 1:
			node = bin("<=", N(), num(1))
		case 2:
			node = bin(">", N(), num(2))
		default:
			node = bin(">=", g.strLit(), num(1))
		}
	case "concat":
		noConcat = true
		switch g.r.Intn(3) {
		case 0:
			node = bin("..", g.strLit(), N())
		case 1:
			node = bin("..", N(), g.strLit())
		default:
			node = bin("..", g.strLit(), bin("..", num(1), N()))
		}
	case "error", "error2":
		isCall = true
		msg := str("\"m\"")
		if g.r.Chance(20) {
			msg = g.longString()
		}
		node = call(name("error"), msg)
		if kind == "error2" {
			node.Args = append(node.Args, num(2))
		} else if g.r.Chance(30) {
			node.Args = append(node.Args, num(1))
		}
	}
	nd := node
	spec := func() int { return nd.First }
	impl := func() int { return nd.Anchor }
	mode := "range"
	if kind == "error2" && fx.tailOf != nil { // level 2 is the (tail call) pseudo frame: no position
		mode, what = "none", "error2/tail"
		spec = func() int { return 0 }
		impl = spec
	} else if kind == "error2" { // level 2: the calling statement in the calling Lua function
		cs := fx.callSite
		spec = func() int { return cs.First }
		impl = func() int { return cs.Anchor }
	}
	g.classes["fault:"+what] = true
	var out []*Stmt
	switch kind {
	case "store":
		s := &Stmt{K: "assign", Exprs: []*Expr{num(1)}}
		switch g.r.Intn(3) {
		case 0:
			s.Lhs = []*Expr{index(N(), "f")}
		case 1:
			s.Lhs = []*Expr{indexe(N(), num(1))}
		default:
			s.Lhs = []*Expr{name("G1"), index(N(), "f")}
			s.Exprs = []*Expr{num(1), num(2)}
		}
		l := s.Lhs[len(s.Lhs)-1]
		spec = func() int { return l.First }
		impl = func() int { return l.Anchor }
		out = []*Stmt{s}
	case "forcheck":
		s := &Stmt{K: "numfor", Names: []string{g.lname()}}
		switch g.r.Intn(3) {
		case 0:
			s.Exprs = []*Expr{N(), num(2)}
		case 1:
			s.Exprs = []*Expr{num(1), N()}
		default:
			s.Exprs = []*Expr{num(1), num(2), N()}
		}
		s.Body = g.fillerBlockBody(fx, depth)
		spec = func() int { return s.First }
		impl = func() int { return s.First }
		out = []*Stmt{s}
	case "gencall":
		s := &Stmt{K: "genfor", Names: []string{g.lname()}, Exprs: []*Expr{N()}}
		if g.r.Bool() {
			s.Exprs = append(s.Exprs, num(1))
		}
		s.Body = g.fillerBlockBody(fx, depth)
		spec = func() int { return s.First }
		impl = func() int { return s.First }
		out = []*Stmt{s}
	default:
		if place == nil {
			place = node
		}
		out = g.shape(fx, place, isCall, true, noConcat, depth)
	}
	g.lines = append(g.lines, lineObs{mode, spec, impl, obsSrc{"err", scen, 0, 0}, "err:" + what})
	return append(pre, out...)
}

// ---------- chains of functions ----------
var bindKinds = []string{"localfunc", "localassign", "global", "globalstmt", "field", "fieldstmt", "method", "mm_index", "mm_add", "mm_call", "mm_concat", "mm_newindex", "mm_lt", "mm_unm", "mm_eq", "inline", "iter"}

type chainPlan struct {
	n     int    // functions on the chain
	fault string // "" = returns normally
	scen  int    // scenario number for the fault
}

// callee: how the caller reaches a chain function that has been defined.
type callee struct {
	mk       func(c2 *fctx) *Expr // the expression that enters it (placed once, by the caller c2)
	res      func(c2 *fctx)       // resolves the names the expression mentions: call where it stands in the source
	store    bool                 // the expression is the left side of an assignment (__newindex)
	tail     bool                 // entered by `return <expr>` (a tail call)
	iterName string               // entered as the iterator of a generic for over these arguments
	iterArgs []*Expr
	fn       *Func
}

// defineChain generates, in the current block of fx, the definition of chain function i
// (and, before it in fx or nested in it, of the function it calls). nested: fx is the caller.
func (g *gen) defineChain(fx *fctx, pl chainPlan, i int, underPcall, nested bool, tailOf *fctx) (defs []*Stmt, ce callee) {
	kind := bindKinds[g.r.Pick(20, 12, 6, 6, 8, 6, 10, 3, 3, 3, 2, 2, 2, 2, 2, 0, 8)]
	isMM := len(kind) > 3 && kind[:3] == "mm_"
	if underPcall {
		if isMM || kind == "method" || kind == "iter" {
			kind, isMM = "localfunc", false
		}
		if g.r.Chance(25) {
			kind = "inline"
		}
	}
	if tailOf != nil && (isMM || kind == "inline" || kind == "iter") { // `return f(...)`: a plain call
		kind, isMM = "localfunc", false
	}
	f := &Func{ID: g.fn()}
	ce.fn = f
	ce.tail = tailOf != nil
	cx := &fctx{fn: f, parent: fx, callerNLoc: -1, tailOf: tailOf, underPcall: underPcall}
	tailNext := i < pl.n && g.r.Chance(30) // this function ends with `return next(...)`
	var nextTailOf *fctx
	if tailNext {
		nextTailOf = cx
	}
	if nested && !underPcall && tailOf == nil {
		cx.callerNLoc = fx.nlocals() // lower bound: these stay in scope until the call
	}
	cx.push()
	np := g.r.Pick(2, 4, 3, 1)
	switch kind {
	case "mm_index", "mm_add", "mm_concat", "mm_lt", "mm_eq":
		np = 2
	case "mm_newindex":
		np = 3
	case "mm_unm":
		np = 1
	case "mm_call":
		np = 1 + g.r.Intn(2)
	case "iter": // called by the generic for with (state, control)
		np = 2
	}
	if kind == "method" {
		f.Method = true
		cx.declare(Binding{"self", nil})
	}
	var args []*Expr
	for k := 0; k < np; k++ {
		b := Binding{g.lname(), nil}
		if !isMM {
			v := g.val()
			b.Val = ival(v)
			args = append(args, num(v))
		}
		f.Params = append(f.Params, b)
		cx.declare(b)
	}
	if !isMM && kind != "iter" && g.r.Chance(20) {
		f.Vararg = true
		cx.declare(Binding{"arg", nil})
		for k := g.r.Intn(3); k > 0; k-- {
			args = append(args, num(g.r.Intn(9)))
		}
	}
	g.classes["bind:"+kind] = true

	// the function this one calls: defined before it in fx, or nested in its body
	var next *callee
	if i < pl.n && g.r.Chance(45) {
		pre, c := g.defineChain(fx, pl, i+1, false, false, nextTailOf)
		defs = append(defs, pre...)
		next = &c
	}
	var acts []action
	for k := g.r.Pick(3, 5, 2); k > 0; k-- {
		acts = append(acts, action{K: []string{"q", "q", "q", "qs", "qu"}[g.r.Intn(5)]})
	}
	if i < pl.n {
		acts = append(acts, action{K: "chain", Next: func(c2 *fctx) ([]*Stmt, callee) {
			if next != nil {
				return nil, *next
			}
			return g.defineChain(c2, pl, i+1, false, true, nextTailOf)
		}})
		if pl.fault == "" && !tailNext { // reached only when the chain returns here
			for k := g.r.Pick(5, 3, 1); k > 0; k-- {
				acts = append(acts, action{K: "q"})
			}
		}
	} else if pl.fault != "" {
		acts = append(acts, action{K: "fault", Fault: pl.fault, Scen: pl.scen})
	}
	bodyGen := func() {
		// capture some variables of the enclosing functions (upvalues in order of first use)
		var pre []*Stmt
		if g.r.Chance(65) {
			var cands []string
			for p := fx; p != nil; p = p.parent {
				for _, sc := range p.scopes {
					for _, b := range sc {
						if b.Name[0] != '(' && b.Val != nil {
							cands = append(cands, b.Name)
						}
					}
				}
			}
			for k := g.r.Intn(4); k > 0 && len(cands) > 0; k-- {
				n := cands[g.r.Intn(len(cands))]
				if kind, _ := cx.resolve(n); kind == "upval" {
					pre = append(pre, &Stmt{K: "assign", Lhs: []*Expr{name(fmt.Sprintf("G%d", 1+g.r.Intn(3)))}, Exprs: []*Expr{name(n)}})
				}
			}
		}
		f.Body = append(pre, g.genSeq(cx, acts, 1)...)
		f.Body = append(f.Body, &Stmt{K: "return", Exprs: []*Expr{num(1)}})
	}
	// The entering expression is created before the body so that the observations made inside
	// the body can refer to it; the caller places it later.
	var callExpr *Expr
	enter := func(e *Expr) {
		callExpr = e
		if !underPcall {
			p := g.pt("chain")
			e.Pt = p
			if tailOf == nil { // after a tail call the caller's frame no longer exists
				cx.callSite, cx.callPt = e, p
			}
		}
	}
	ce.mk = func(c2 *fctx) *Expr { cx.callerFn = c2; return callExpr }
	fexp := func() *Expr {
		fe := &Expr{K: "func", Fn: f}
		if kind != "inline" && g.r.Chance(25) { // a parenthesised function expression: linedefined is still the keyword's line
			g.classes["parenfunc"] = true
			return paren(fe)
		}
		return fe
	}

	switch kind {
	case "inline":
		bodyGen()
		callExpr = call(fexp(), args...)
	case "localfunc", "localassign":
		nm := g.fresh("f")
		enter(call(name(nm), args...))
		if kind == "localfunc" {
			fx.declare(Binding{nm, nil}) // visible inside its own body
			bodyGen()
			defs = append(defs, &Stmt{K: "localfunc", Names: []string{nm}, Fn: f})
		} else {
			bodyGen()
			defs = append(defs, &Stmt{K: "local", Names: []string{nm}, Exprs: []*Expr{fexp()}, Vals: []*int{nil}})
			fx.declare(Binding{nm, nil})
		}
		ce.res = func(c2 *fctx) { c2.resolve(nm) }
	case "iter":
		// the function is the iterator of `for k in f, s, c do ... break end`: the loop instruction
		// calls it with the hidden variables in scope and the declared ones not
		nm := g.fresh("f")
		enter(&Expr{K: "itersite"})
		fx.declare(Binding{nm, nil})
		bodyGen()
		defs = append(defs, &Stmt{K: "localfunc", Names: []string{nm}, Fn: f})
		ce.res = func(c2 *fctx) { c2.resolve(nm) }
		ce.iterName, ce.iterArgs = nm, args
	case "global", "globalstmt":
		nm := g.fresh("GF")
		enter(call(name(nm), args...))
		bodyGen()
		if kind == "global" {
			defs = append(defs, &Stmt{K: "assign", Lhs: []*Expr{name(nm)}, Exprs: []*Expr{fexp()}})
		} else {
			defs = append(defs, &Stmt{K: "funcstmt", Path: []string{nm}, Fn: f})
		}
	case "field", "fieldstmt":
		nm := g.fresh("fk")
		enter(call(index(name("T"), nm), args...))
		bodyGen()
		if kind == "field" {
			defs = append(defs, &Stmt{K: "assign", Lhs: []*Expr{index(name("T"), nm)}, Exprs: []*Expr{fexp()}})
		} else {
			defs = append(defs, &Stmt{K: "funcstmt", Path: []string{"T", nm}, Fn: f})
		}
	case "method":
		nm := g.fresh("mk")
		enter(method(name("T"), nm, args...))
		bodyGen()
		defs = append(defs, &Stmt{K: "funcstmt", Path: []string{"T"}, Method: nm, Fn: f})
	default: // metamethods: local hN = function ... end; local mN = setmetatable({}, {__ev = hN})
		hn, mn := g.fresh("h"), g.fresh("m")
		obj := func() *Expr { return name(mn) }
		nref := 1
		switch kind {
		case "mm_index":
			enter(index(obj(), "k"))
		case "mm_add":
			if g.r.Bool() {
				enter(bin("+", obj(), num(1)))
			} else {
				enter(bin("+", paren(num(1)), obj()))
			}
		case "mm_call":
			enter(call(obj(), num(4)))
		case "mm_concat":
			enter(bin("..", str("\"s\""), obj()))
		case "mm_newindex":
			enter(index(obj(), "k"))
			ce.store = true
		case "mm_lt":
			enter(bin("<", obj(), obj()))
			nref = 2
		case "mm_unm":
			enter(un("-", obj()))
		case "mm_eq":
			enter(bin("==", obj(), call(name("setmetatable"), &Expr{K: "table"}, call(name("getmetatable"), obj()))))
			nref = 2
		}
		bodyGen()
		defs = append(defs, &Stmt{K: "local", Names: []string{hn}, Exprs: []*Expr{fexp()}, Vals: []*int{nil}})
		fx.declare(Binding{hn, nil})
		mt := &Expr{K: "table", Args: []*Expr{name(hn)}, Keys: []string{"__" + kind[3:]}}
		defs = append(defs, &Stmt{K: "local", Names: []string{mn}, Exprs: []*Expr{call(name("setmetatable"), &Expr{K: "table"}, mt)}, Vals: []*int{nil}})
		fx.declare(Binding{mn, nil})
		ce.res = func(c2 *fctx) {
			for k := 0; k < nref; k++ {
				c2.resolve(mn)
			}
		}
	}
	return defs, ce
}

// chainAction places the call to the next function of the chain.
func (g *gen) chainAction(fx *fctx, a action, depth int) []*Stmt {
	pre, ce := a.Next(fx)
	e := ce.mk(fx)
	g.onPlace = func() {
		if ce.res != nil {
			ce.res(fx)
		}
	}
	var out []*Stmt
	if ce.iterName != "" {
		g.placed()
		g.size++
		g.classes["iterator"] = true
		st := &Stmt{K: "genfor", Names: []string{g.lname()}, IterSite: e, Exprs: append([]*Expr{name(ce.iterName)}, ce.iterArgs...)}
		if g.r.Bool() {
			st.Names = append(st.Names, g.lname())
		}
		fx.push()
		for _, n := range []string{"(for generator)", "(for state)", "(for control)"} {
			fx.declare(Binding{n, nil})
		}
		for _, n := range st.Names {
			fx.declare(Binding{n, nil})
		}
		for i := g.r.Intn(2); i > 0; i-- {
			st.Body = append(st.Body, g.filler(fx, depth+1))
		}
		fx.pop()
		st.Body = append(st.Body, &Stmt{K: "break"})
		out = []*Stmt{st}
	} else if ce.tail {
		g.placed()
		g.size++
		g.classes["tailcall"] = true
		out = []*Stmt{{K: "do", Body: []*Stmt{{K: "return", Exprs: []*Expr{e}}}}}
	} else if ce.store {
		g.placed()
		g.size++
		out = []*Stmt{{K: "assign", Lhs: []*Expr{e}, Exprs: []*Expr{num(1)}}}
	} else {
		isCall := e.K == "call" || e.K == "method"
		g.plain = e.K == "bin" && (e.S == "<" || e.S == "==")
		out = g.shape(fx, e, isCall, false, e.K == "bin" && e.S == "..", depth)
		g.plain = false
	}
	return append(pre, out...)
}

// factory: a function that declares locals, creates closures over them in a random order (so a
// variable in a higher register is often captured before one in a lower register) and returns
// the closures; the caller keeps them, runs other calls over the freed registers and then calls
// each closure, which inspects (and sets) its upvalues: names, order and current values of
// variables whose declaring function has returned.
func (g *gen) factory(fx *fctx, depth int) []*Stmt {
	mk := &Func{ID: g.fn()}
	mx := &fctx{fn: mk, parent: fx, callerNLoc: -1}
	mx.push()
	mkName := g.fresh("mk")
	fx.declare(Binding{mkName, nil})
	nv := 2 + g.r.Intn(3)
	var vars []Binding
	for i := 0; i < nv; i++ {
		v := g.val()
		vars = append(vars, Binding{g.fresh("v"), ival(v)})
	}
	// declarations: one statement or several
	if g.r.Bool() {
		st := &Stmt{K: "local"}
		for _, b := range vars {
			st.Names = append(st.Names, b.Name)
			st.Exprs = append(st.Exprs, num(*b.Val))
			st.Vals = append(st.Vals, b.Val)
			mx.declare(b)
		}
		mk.Body = append(mk.Body, st)
	} else {
		for _, b := range vars {
			mk.Body = append(mk.Body, &Stmt{K: "local", Names: []string{b.Name}, Exprs: []*Expr{num(*b.Val)}, Vals: []*int{b.Val}})
			mx.declare(b)
		}
	}
	nc := 2 + g.r.Intn(2)
	type clo struct {
		name string
		call *Expr
	}
	var clos []clo
	ret := &Stmt{K: "return"}
	for k := 0; k < nc; k++ {
		f := &Func{ID: g.fn()}
		cx := &fctx{fn: f, parent: mx, callerNLoc: -1}
		cx.push()
		hn := g.fresh("h")
		e := call(name(hn))
		p := g.pt("chain")
		e.Pt = p
		cx.callSite, cx.callPt, cx.callerFn = e, p, fx
		// which variables this closure uses, in which order (the first closure prefers the last
		// variables: captured in descending register order)
		order := g.r.Intn(3)
		used := 1 + g.r.Intn(nv)
		for j := 0; j < used; j++ {
			var b Binding
			switch order {
			case 0:
				b = vars[nv-1-(j+k)%nv]
			case 1:
				b = vars[(j+k)%nv]
			default:
				b = vars[g.r.Intn(nv)]
			}
			cx.resolve(b.Name)
			f.Body = append(f.Body, &Stmt{K: "assign", Lhs: []*Expr{name(fmt.Sprintf("G%d", 1+g.r.Intn(3)))}, Exprs: []*Expr{name(b.Name)}})
		}
		acts := []action{{K: "q"}}
		if g.r.Chance(50) {
			acts = append(acts, action{K: "qu"})
		}
		f.Body = append(f.Body, g.genSeq(cx, acts, 2)...)
		f.Body = append(f.Body, &Stmt{K: "return", Exprs: []*Expr{num(1)}})
		gn := g.fresh("g")
		mk.Body = append(mk.Body, &Stmt{K: "local", Names: []string{gn}, Exprs: []*Expr{{K: "func", Fn: f}}, Vals: []*int{nil}})
		mx.declare(Binding{gn, nil})
		ret.Exprs = append(ret.Exprs, name(gn))
		clos = append(clos, clo{hn, e})
	}
	mk.Body = append(mk.Body, ret)
	g.classes["factory"] = true
	g.size += 4
	out := []*Stmt{{K: "localfunc", Names: []string{mkName}, Fn: mk}}
	recv := &Stmt{K: "local", Exprs: []*Expr{call(name(mkName))}}
	for _, c := range clos {
		recv.Names = append(recv.Names, c.name)
		recv.Vals = append(recv.Vals, nil)
	}
	out = append(out, recv)
	for _, c := range clos {
		fx.declare(Binding{c.name, nil})
	}
	// other calls run over the registers the factory used
	out = append(out, &Stmt{K: "call", Exprs: []*Expr{call(name("sink"), num(11), num(12), num(13), g.strLit(), num(15))}})
	for _, i := range g.perm(len(clos)) {
		c := clos[i]
		g.onPlace = nil
		out = append(out, g.shape(fx, c.call, true, false, false, depth)...)
	}
	return out
}

// cothread: a coroutine suspended inside a function with known locals is inspected from outside
// through the thread forms debug.getinfo(co, 1, ..), getlocal(co, 1, i), setlocal(co, 1, i, v):
// current line = the statement that yielded, the variables in scope there.
func (g *gen) cothread(fx *fctx, depth int) []*Stmt {
	f := &Func{ID: g.fn()}
	cx := &fctx{fn: f, parent: fx, callerNLoc: -1, underPcall: true}
	cx.push()
	pv := g.val()
	f.Params = []Binding{{g.lname(), ival(pv)}}
	cx.declare(f.Params[0])
	body := func(n int) {
		for ; n > 0; n-- {
			f.Body = append(f.Body, g.declLocal(cx, true))
		}
	}
	body(1 + g.r.Intn(2))
	y := call(index(name("coroutine"), "yield"), num(1))
	p := g.pt("chain")
	y.Pt = p
	// the yield sits in a nested block half of the time
	var ys []*Stmt
	nested := g.r.Bool()
	if nested {
		cx.push()
		ys = append(ys, g.declLocal(cx, true))
	}
	if g.r.Bool() {
		ys = append(ys, &Stmt{K: "call", Exprs: []*Expr{y}})
	} else {
		nm := g.lname()
		ys = append(ys, &Stmt{K: "local", Names: []string{nm}, Exprs: []*Expr{g.wrapVal(y, false)}, Vals: []*int{nil}})
		cx.declare(Binding{nm, nil})
	}
	if nested {
		cx.pop()
		f.Body = append(f.Body, &Stmt{K: "do", Body: ys})
	} else {
		f.Body = append(f.Body, ys...)
	}
	body(g.r.Intn(2))
	f.Body = append(f.Body, &Stmt{K: "return", Exprs: []*Expr{num(1)}})
	q := g.pt("QT")
	g.lines = append(g.lines, lineObs{"range", func() int { return y.First }, func() int { return y.Anchor }, obsSrc{"cur", 0, q.ID, 1}, "currentline/thread"})
	g.defLines(fixed(f), q.ID, 1)
	g.scopes = append(g.scopes, scopeObs{fixed(f), p.ID, q.ID, 1})
	co := g.fresh("co")
	fx.declare(Binding{co, nil})
	g.classes["cothread"] = true
	g.size += 4
	return []*Stmt{
		{K: "local", Names: []string{co}, Vals: []*int{nil}, Exprs: []*Expr{call(index(name("coroutine"), "create"), &Expr{K: "func", Fn: f})}},
		{K: "call", Exprs: []*Expr{call(index(name("coroutine"), "resume"), name(co), num(pv))}},
		{K: "call", Exprs: []*Expr{call(name("QT"), num(q.ID), name(co))}},
		{K: "call", Exprs: []*Expr{call(index(name("coroutine"), "resume"), name(co))}},
	}
}

// codead: a coroutine killed by a run-time error keeps its frames: level 0 of the dead thread
// is the function in which the error was raised (its line, its variables), level 1 its caller.
func (g *gen) codead(fx *fctx, depth int) []*Stmt {
	f := &Func{ID: g.fn()}
	cx := &fctx{fn: f, parent: fx, callerNLoc: -1, underPcall: true}
	cx.push()
	pv := g.val()
	f.Params = []Binding{{g.lname(), ival(pv)}}
	cx.declare(f.Params[0])
	f.Body = append(f.Body, g.declLocal(cx, true))
	q := g.pt("QD")
	// the operation that fails (a VM-raised error: the failing frame is a Lua frame)
	mkFault := func(c *fctx, body *[]*Stmt) *Expr {
		var node *Expr
		switch g.r.Intn(3) {
		case 0:
			node = index(name(fmt.Sprintf("UNDEF%d", g.r.Intn(3))), "f")
		case 1:
			node = bin("+", name(fmt.Sprintf("UNDEF%d", g.r.Intn(3))), num(1))
		default:
			node = call(index(name("T"), "none"), num(2))
		}
		node.Pt = g.pt("chain")
		nm := g.lname()
		*body = append(*body, &Stmt{K: "local", Names: []string{nm}, Exprs: []*Expr{node}, Vals: []*int{nil}})
		c.declare(Binding{nm, nil})
		return node
	}
	observe := func(fn *Func, node *Expr, lvl int) {
		g.lines = append(g.lines, lineObs{"range", func() int { return node.First }, func() int { return node.Anchor }, obsSrc{"cur", 0, q.ID, lvl}, "currentline/dead"})
		g.defLines(fixed(fn), q.ID, lvl)
		g.scopes = append(g.scopes, scopeObs{fixed(fn), node.Pt.ID, q.ID, lvl})
	}
	if g.r.Bool() {
		node := mkFault(cx, &f.Body)
		observe(f, node, 0)
	} else {
		// one call deeper: body -> inner, inner fails
		in := &Func{ID: g.fn()}
		ix := &fctx{fn: in, parent: cx, callerNLoc: -1}
		ix.push()
		av := g.val()
		in.Params = []Binding{{g.lname(), ival(av)}}
		ix.declare(in.Params[0])
		in.Body = append(in.Body, g.declLocal(ix, true))
		node := mkFault(ix, &in.Body)
		in.Body = append(in.Body, &Stmt{K: "return", Exprs: []*Expr{num(1)}})
		inName := g.fresh("f")
		cx.declare(Binding{inName, nil})
		f.Body = append(f.Body, &Stmt{K: "localfunc", Names: []string{inName}, Fn: in})
		ce := call(name(inName), num(av))
		ce.Pt = g.pt("chain")
		f.Body = append(f.Body, &Stmt{K: "local", Names: []string{g.lname()}, Exprs: []*Expr{ce}, Vals: []*int{nil}})
		observe(in, node, 0)
		observe(f, ce, 1)
	}
	f.Body = append(f.Body, &Stmt{K: "return", Exprs: []*Expr{num(1)}})
	co := g.fresh("co")
	fx.declare(Binding{co, nil})
	g.classes["codead"] = true
	g.size += 3
	return []*Stmt{
		{K: "local", Names: []string{co}, Vals: []*int{nil}, Exprs: []*Expr{call(index(name("coroutine"), "create"), &Expr{K: "func", Fn: f})}},
		{K: "call", Exprs: []*Expr{call(index(name("coroutine"), "resume"), name(co), num(pv))}},
		{K: "call", Exprs: []*Expr{call(name("QD"), num(q.ID), name(co))}},
	}
}

// loadchunk: a query inside a chunk compiled by loadstring and called from Lua code: its
// function is a main chunk (what = "main", defined on no line) although it is not the bottom
// frame; level 2 is the calling statement.
func (g *gen) loadchunk(fx *fctx, depth int) []*Stmt {
	q := g.pt("Q")
	// the chunk text has its own line count: every piece in front of the statement is one line
	// (written with escapes inside a short string: \n = LF, \r = CR)
	pieces := []string{`\n`, `\r`, `\r\n`, `\n\r`, `--\n`, `--x\r\n`, `--[\n`, `--[=\n`, `--[==\r\n`, `--[=\r`, `--[[\n]]`, `--[=[x]=]\n`,
		`\t\n`, `--]]\n`, `--[=[\r\n]=]`, `--[===\n`}
	pre, cur := "", 1
	for g.r.Chance(55) && cur < 6 {
		pre += pieces[g.r.Intn(len(pieces))] + " " // the blank keeps LF and CR of two pieces apart
		cur++
	}
	e := call(call(name("loadstring"), str(fmt.Sprintf("\"%slocal r = Q(%d) return r\"", pre, q.ID))))
	p := g.pt("chain")
	e.Pt = p
	g.loaded = append(g.loaded, q.ID)
	if g.loadedLine == nil {
		g.loadedLine = map[int]int{}
	}
	g.loadedLine[q.ID] = cur
	g.lines = append(g.lines, lineObs{"range", func() int { return e.First }, func() int { return e.Anchor }, obsSrc{"cur", 0, q.ID, 2}, "currentline/2"})
	g.defLines(fixed(fx.fn), q.ID, 2)
	g.scopes = append(g.scopes, scopeObs{fixed(fx.fn), p.ID, q.ID, 2})
	g.classes["loadchunk"] = true
	g.onPlace = nil
	return g.shape(fx, e, true, false, false, depth)
}

func (g *gen) perm(n int) []int {
	p := make([]int, n)
	for i := range p {
		p[i] = i
	}
	for i := n - 1; i > 0; i-- {
		j := g.r.Intn(i + 1)
		p[i], p[j] = p[j], p[i]
	}
	return p
}

// scenario: R(k, pcall(f, args...)) where f heads a chain that usually ends in a fault.
func (g *gen) scenario(fx *fctx, depth int) []*Stmt {
	g.nScen++
	k := g.nScen
	pl := chainPlan{n: 1 + g.r.Pick(3, 5, 2), scen: k}
	if g.r.Chance(88) {
		pl.fault = faultKinds[g.r.Intn(len(faultKinds))]
	}
	defs, ce := g.defineChain(fx, pl, 1, true, false, nil)
	e := ce.mk(fx)
	if ce.res != nil {
		ce.res(fx)
	}
	pc := call(name("pcall"), append([]*Expr{e.A}, e.Args...)...)
	g.size++
	return append(defs, &Stmt{K: "call", Exprs: []*Expr{call(name("R"), num(k), pc)}})
}

func (g *gen) genSeq(fx *fctx, acts []action, depth int) []*Stmt {
	var out []*Stmt
	for len(acts) > 0 {
		for g.size < 60 && g.r.Chance(30) {
			out = append(out, g.filler(fx, depth))
		}
		if depth < 4 && g.r.Chance(30) {
			n := 1 + g.r.Intn(len(acts))
			out = append(out, g.wrap(fx, acts[:n], depth))
			acts = acts[n:]
			continue
		}
		out = append(out, g.act(fx, acts[0], depth)...)
		acts = acts[1:]
	}
	for g.size < 60 && g.r.Chance(25) {
		out = append(out, g.filler(fx, depth))
	}
	return out
}

func (g *gen) act(fx *fctx, a action, depth int) []*Stmt {
	switch a.K {
	case "q", "qs", "qu":
		return g.queryAction(fx, a.K, depth)
	case "chain":
		return g.chainAction(fx, a, depth)
	case "fault":
		return g.faultAction(fx, a.Fault, a.Scen, depth)
	case "scen":
		return g.scenario(fx, depth)
	case "factory":
		return g.factory(fx, depth)
	case "loadchunk":
		return g.loadchunk(fx, depth)
	case "cothread":
		if g.r.Chance(40) {
			return g.codead(fx, depth)
		}
		return g.cothread(fx, depth)
	}
	panic("action " + a.K)
}

// wrap puts the actions inside a block construct that runs its body at least once.
func (g *gen) wrap(fx *fctx, acts []action, depth int) *Stmt {
	g.size++
	body := func(decl []Binding) []*Stmt {
		fx.push()
		for _, b := range decl {
			fx.declare(b)
		}
		ss := g.genSeq(fx, acts, depth+1)
		fx.pop()
		return ss
	}
	switch g.r.Intn(8) {
	case 0:
		return &Stmt{K: "do", Body: body(nil)}
	case 1:
		b := body(nil)
		b = append(b, &Stmt{K: "break"})
		c := []*Expr{lit("true"), bin("<", num(1), num(2)), num(1), g.strLit()}[g.r.Intn(4)]
		return &Stmt{K: "while", Exprs: []*Expr{c}, Body: b}
	case 2:
		return &Stmt{K: "repeat", Exprs: []*Expr{[]*Expr{lit("true"), bin("==", num(1), num(1))}[g.r.Intn(2)]}, Body: body(nil)}
	case 3:
		s := &Stmt{K: "if", Conds: []*Expr{lit("true")}, Blocks: [][]*Stmt{body(nil)}}
		if g.r.Chance(40) {
			s.HasElse = true
			s.Else = g.fillerBlockBody(fx, depth)
		}
		return s
	case 4:
		s := &Stmt{K: "if", Conds: []*Expr{lit("false")}, Blocks: [][]*Stmt{g.fillerBlockBody(fx, depth)}}
		if g.r.Bool() {
			s.Conds = append(s.Conds, bin("~=", num(1), num(2)))
			s.Blocks = append(s.Blocks, body(nil))
		} else {
			s.HasElse = true
			s.Else = body(nil)
		}
		return s
	case 5, 6:
		a, b := 1+g.r.Intn(5), 0
		b = a + g.r.Intn(2)
		st := 0
		s := &Stmt{K: "numfor", Names: []string{g.lname()}, Exprs: []*Expr{num(a), num(b)}}
		stv := 1
		if g.r.Chance(40) {
			st = 1 + g.r.Intn(2)
			stv = st
			s.Exprs = append(s.Exprs, num(st))
		}
		s.ForVals = [4]*int{ival(a), ival(b), ival(stv), ival(a)}
		s.Body = body([]Binding{{"(for index)", ival(a)}, {"(for limit)", ival(b)}, {"(for step)", ival(stv)}, {s.Names[0], ival(a)}})
		return s
	default:
		v := g.val()
		s := &Stmt{K: "genfor", Names: []string{g.lname(), g.lname()}}
		t := &Expr{K: "table", Args: []*Expr{num(v)}, Keys: []string{""}}
		switch g.r.Intn(3) {
		case 0:
			s.Exprs = []*Expr{call(name("pairs"), t)}
		case 1:
			s.Exprs = []*Expr{call(name("ipairs"), t)}
		default:
			s.Exprs = []*Expr{name("next"), t, lit("nil")}
		}
		s.Vals = []*int{ival(1), ival(v)}
		s.Body = body([]Binding{{"(for generator)", nil}, {"(for state)", nil}, {"(for control)", nil}, {s.Names[0], ival(1)}, {s.Names[1], ival(v)}})
		return s
	}
}

// ---------- a whole program ----------
type Generated struct {
	Prog  *Program
	Main  *Func
	G     *gen
	FnIdx map[*Func]int
	Lines []lineObs // those that apply (main chunk has no linedefined tokens)
}

func genProgram(r *lib.Rand) *Generated {
	g := newGen(r)
	main := &Func{ID: 0, IsMain: true, Vararg: true}
	fx := &fctx{fn: main, callerNLoc: -1}
	fx.push()
	var acts []action
	nsc := 1 + r.Pick(4, 5, 2)
	for i := 0; i < nsc; i++ {
		if r.Chance(45) {
			acts = append(acts, action{K: []string{"q", "q", "qs"}[r.Intn(3)]})
		}
		if r.Chance(30) {
			acts = append(acts, action{K: "factory"})
		}
		if r.Chance(25) {
			acts = append(acts, action{K: "cothread"})
		}
		if r.Chance(20) {
			acts = append(acts, action{K: "loadchunk"})
		}
		if r.Chance(30) {
			// a chain entered directly from the main chunk, returning normally
			pl := chainPlan{n: 1 + r.Pick(5, 4, 1)}
			acts = append(acts, action{K: "chain", Next: func(c2 *fctx) ([]*Stmt, callee) {
				return g.defineChain(c2, pl, 1, false, true, nil)
			}})
		} else {
			acts = append(acts, action{K: "scen"})
		}
	}
	if r.Chance(35) {
		acts = append(acts, action{K: "q"})
	}
	if r.Chance(15) {
		k := faultKinds[r.Intn(len(faultKinds))]
		acts = append(acts, action{K: "fault", Fault: k, Scen: 0})
	}
	main.Body = g.genSeq(fx, acts, 0)
	return finish(g, main)
}

// finish emits the program and resolves the observations to token indices.
func finish(g *gen, main *Func) *Generated {
	p := emitProgram(main)
	out := &Generated{Prog: p, Main: main, G: g, FnIdx: map[*Func]int{}}
	for i, f := range p.Fns {
		out.FnIdx[f] = i
	}
	for _, l := range g.lines {
		if l.SpecTok() < 0 || l.ImplTok() < 0 {
			// linedefined / lastlinedefined of the main chunk: 0
			zero := func() int { return 0 }
			l = lineObs{"zero", zero, zero, l.Src, l.What + "/main"}
		}
		out.Lines = append(out.Lines, l)
	}
	return out
}
