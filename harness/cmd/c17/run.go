package main

import (
	"bytes"
	"context"
	"fmt"
	"reflect"
	"regexp"
	"strconv"
	"time"

	lua "github.com/yuin/gopher-lua"
	"github.com/yuin/gopher-lua/parse"
)

// The query functions are Lua code loaded as a separate chunk, so that they go through the
// real debug library and do not disturb the line numbers of the program under test.
// They are globals and use no upvalues, so that what they report does not itself depend on
// the closure machinery under test.
const prelude = `
getinfo, getlocal, setlocal, getupvalue, setupvalue = debug.getinfo, debug.getlocal, debug.setlocal, debug.getupvalue, debug.setupvalue
seen = {}
OPTS = {"Slf", "lSf", "fSl", "nSlf", "Sluf", "flnSu"}
function enum(id, lvl, phase)
  local i = 1
  while true do
    local n, v = getlocal(lvl + 2, i)
    if n == nil or n == "(*temporary)" then break end
    RL(id, lvl, phase, i, n, v)
    i = i + 1
  end
  return i
end
function enumup(id, lvl, phase, f)
  local j = 1
  while true do
    local n, v = getupvalue(f, j)
    if n == nil then break end
    RU(id, lvl, phase, j, n, v)
    j = j + 1
  end
  return j
end
function Q(id, extra)
  if seen[id] then return 1 end
  seen[id] = true
  if extra then
    local inf = getinfo(extra + 1, "Sl")
    if inf then RI(id, extra, inf.what, inf.currentline, inf.linedefined, inf.lastlinedefined) end
  end
  for lvl = 1, 2 do
    local inf = getinfo(lvl + 1, OPTS[(id + lvl) % 6 + 1])
    if inf == nil then break end
    RI(id, lvl, inf.what, inf.currentline, inf.linedefined, inf.lastlinedefined)
    -- the same frame asked for one item at a time, and with the default selection
    local a, b, c = getinfo(lvl + 1, "l"), getinfo(lvl + 1, "S"), getinfo(lvl + 1)
    if a.currentline ~= inf.currentline or c.currentline ~= inf.currentline
       or b.linedefined ~= inf.linedefined or c.linedefined ~= inf.linedefined
       or b.lastlinedefined ~= inf.lastlinedefined or c.lastlinedefined ~= inf.lastlinedefined or b.what ~= inf.what then
      RX(id, lvl)
    end
    if inf.func then
      local byf = getinfo(inf.func, "Sl")
      RF(id, lvl, byf.linedefined, byf.lastlinedefined, byf.currentline)
    end
    if inf.what ~= "G" then
      enum(id, lvl, 0)
      if inf.func then enumup(id, lvl, 0, inf.func) end
    end
  end
  return 1
end
function QS(id, lvl, idx, val)
  if seen[id] then return 1 end
  seen[id] = true
  local _, old = getlocal(lvl + 1, idx)
  local r = setlocal(lvl + 1, idx, val)
  RS(id, r)
  enum(id, lvl, 1)
  if r then setlocal(lvl + 1, idx, old) end
  return 1
end
function QU(id, idx, val)
  if seen[id] then return 1 end
  seen[id] = true
  local f = getinfo(2, "f").func
  local _, old = getupvalue(f, idx)
  local r = setupvalue(f, idx, val)
  RS(id, r)
  enumup(id, 1, 1, f)
  if r then setupvalue(f, idx, old) end
  return 1
end
function QT(id, co)
  if seen[id] then return 1 end
  seen[id] = true
  local inf = getinfo(co, 1, "Sl")
  if inf then RI(id, 1, inf.what, inf.currentline, inf.linedefined, inf.lastlinedefined) end
  local i = 1
  while true do
    local n, v = getlocal(co, 1, i)
    if n == nil or n == "(*temporary)" then break end
    RL(id, 1, 0, i, n, v)
    i = i + 1
  end
  -- setlocal through the thread form changes the variable of the coroutine, and only that one
  local n1, old = getlocal(co, 1, 1)
  if n1 then
    local r = setlocal(co, 1, 1, 777)
    local _, now = getlocal(co, 1, 1)
    RT(id, r == n1 and now == 777)
    setlocal(co, 1, 1, old)
  end
  return 1
end
function QD(id, co)
  if seen[id] then return 1 end
  seen[id] = true
  for lvl = 0, 1 do
    local inf = getinfo(co, lvl, "Sl")
    if inf == nil then break end
    RI(id, lvl, inf.what, inf.currentline, inf.linedefined, inf.lastlinedefined)
    local i = 1
    while true do
      local n, v = getlocal(co, lvl, i)
      if n == nil or n == "(*temporary)" then break end
      RL(id, lvl, 0, i, n, v)
      i = i + 1
    end
  end
  return 1
end
function sink(...) return 1 end
function IDH(m) return m end
T = { id = function(self, ...) return self end }
`

type obsBinding struct {
	Name string
	Val  *int64 // integral number, else nil
}

type frameInfo struct {
	What                       string
	Cur, LineDefined, LastLine int
}

type key3 struct{ ID, Lvl, Phase int }

type runResult struct {
	LoadErr      string
	TopErr       string         // error of the whole chunk ("" if it returned)
	Scen         map[int]string // scenario -> error message ("" when pcall returned true)
	ScenOK       map[int]bool
	Info         map[[2]int]frameInfo
	Locals       map[key3][]obsBinding
	Upvals       map[key3][]obsBinding
	ByFunc       map[[2]int][3]int // getinfo(func, "Sl"): linedefined, lastlinedefined, currentline
	SetRet       map[int]*string   // QS/QU: returned name
	ThreadSetBad []int             // QT: setlocal(co, 1, 1, v) did not change exactly that variable
	RegSize      int               // debugging aid (show): size of the data stack before the run, and its growth
	RegGrown     int
	Incons       [][2]int // (point, level): getinfo answers differ with the selection of items asked for
	SetSeen      map[int]bool
}

func lvInt(v lua.LValue) *int64 {
	if n, ok := v.(lua.LNumber); ok {
		f := float64(n)
		if f == float64(int64(f)) {
			i := int64(f)
			return &i
		}
	}
	return nil
}

// runSource loads and runs one rendered program in a fresh state.
// variant 1 runs the same program in a state whose data stack and call stack start small and grow
// (reallocation steps while frames are live); what is observed must not depend on it.
func runSource(src []byte, variant int) (res *runResult) {
	res = &runResult{ByFunc: map[[2]int][3]int{}, Scen: map[int]string{}, ScenOK: map[int]bool{}, Info: map[[2]int]frameInfo{},
		Locals: map[key3][]obsBinding{}, Upvals: map[key3][]obsBinding{}, SetRet: map[int]*string{}, SetSeen: map[int]bool{}}
	L := lua.NewState()
	if variant == 1 {
		L.Close()
		L = lua.NewState(lua.Options{RegistrySize: 128, RegistryMaxSize: 1 << 22, RegistryGrowStep: 8, MinimizeStackMemory: true})
	}
	defer L.Close()
	// a program that does not end (possible only when the interpreter misbehaves: every generated
	// loop is bounded) is cut off; the cancellation error is then that run's observation
	ctx, cancel := context.WithTimeout(context.Background(), 5*time.Second)
	defer cancel()
	L.SetContext(ctx)
	defer func() {
		if r := recover(); r != nil {
			res.TopErr = fmt.Sprintf("GO PANIC: %v", r)
		}
	}()
	L.SetGlobal("RI", L.NewFunction(func(L *lua.LState) int {
		res.Info[[2]int{L.CheckInt(1), L.CheckInt(2)}] = frameInfo{L.CheckString(3), L.CheckInt(4), L.CheckInt(5), L.CheckInt(6)}
		return 0
	}))
	L.SetGlobal("RT", L.NewFunction(func(L *lua.LState) int {
		if !lua.LVAsBool(L.Get(2)) {
			res.ThreadSetBad = append(res.ThreadSetBad, L.CheckInt(1))
		}
		return 0
	}))
	L.SetGlobal("RX", L.NewFunction(func(L *lua.LState) int {
		res.Incons = append(res.Incons, [2]int{L.CheckInt(1), L.CheckInt(2)})
		return 0
	}))
	L.SetGlobal("RF", L.NewFunction(func(L *lua.LState) int {
		res.ByFunc[[2]int{L.CheckInt(1), L.CheckInt(2)}] = [3]int{L.CheckInt(3), L.CheckInt(4), L.CheckInt(5)}
		return 0
	}))
	rec := func(m map[key3][]obsBinding) lua.LGFunction {
		return func(L *lua.LState) int {
			k := key3{L.CheckInt(1), L.CheckInt(2), L.CheckInt(3)}
			m[k] = append(m[k], obsBinding{L.CheckString(5), lvInt(L.Get(6))})
			return 0
		}
	}
	L.SetGlobal("RL", L.NewFunction(rec(res.Locals)))
	L.SetGlobal("RU", L.NewFunction(rec(res.Upvals)))
	L.SetGlobal("RS", L.NewFunction(func(L *lua.LState) int {
		id := L.CheckInt(1)
		res.SetSeen[id] = true
		if s, ok := L.Get(2).(lua.LString); ok {
			t := string(s)
			res.SetRet[id] = &t
		}
		return 0
	}))
	// host functions that fail, and one that calls its first argument from Go (unprotected)
	L.SetGlobal("HRAISE", L.NewFunction(func(L *lua.LState) int { L.RaiseError("boom"); return 0 }))
	L.SetGlobal("HARG", L.NewFunction(func(L *lua.LState) int { L.ArgError(1, "rejected"); return 0 }))
	L.SetGlobal("HCALL", L.NewFunction(func(L *lua.LState) int {
		var args []lua.LValue
		for i := 2; i <= L.GetTop(); i++ {
			args = append(args, L.Get(i))
		}
		if err := L.CallByParam(lua.P{Fn: L.Get(1), NRet: 0, Protect: false}, args...); err != nil {
			L.RaiseError("%s", err.Error())
		}
		return 0
	}))
	L.SetGlobal("R", L.NewFunction(func(L *lua.LState) int {
		k := L.CheckInt(1)
		if L.Get(2) == lua.LTrue {
			res.ScenOK[k] = true
			res.Scen[k] = ""
		} else {
			res.Scen[k] = L.Get(3).String()
		}
		return 0
	}))
	if err := L.DoString(prelude); err != nil {
		res.LoadErr = "prelude: " + err.Error()
		return
	}
	fn, err := L.Load(bytes.NewReader(src), "chunk")
	if err != nil {
		res.LoadErr = err.Error()
		return
	}
	if variant == 1 {
		// the host already holds values on the data stack: the program's frames start just below the
		// initial size and every deeper call makes the stack grow by another step
		for i := 0; i < 96+len(src)%32; i++ {
			L.Push(lua.LNil)
		}
	}
	res.RegSize = regSize(L)
	defer func() { res.RegGrown = regSize(L) - res.RegSize }()
	L.Push(fn)
	if err := L.PCall(0, lua.MultRet, nil); err != nil {
		if ae, ok := err.(*lua.ApiError); ok && ae.Object != nil {
			res.TopErr = ae.Object.String()
		} else {
			res.TopErr = err.Error()
		}
		if res.TopErr == "" {
			res.TopErr = "?"
		}
	}
	return
}

var posRe = regexp.MustCompile(`^chunk:(\d+):`)

// errLine parses the `chunk:line:` prefix; -1 when there is none.
func errLine(msg string) int {
	m := posRe.FindStringSubmatch(msg)
	if m == nil {
		return -1
	}
	n, _ := strconv.Atoi(m[1])
	return n
}

// lexLines runs the real scanner over the source and returns the line it gives every token.
func lexLines(src []byte) (lines []int, err error) {
	defer func() {
		if r := recover(); r != nil {
			err = fmt.Errorf("scanner panic: %v", r)
		}
	}()
	sc := parse.NewScanner(bytes.NewReader(src), "chunk")
	lx := &parse.Lexer{}
	for {
		tok, e := sc.Scan(lx)
		if e != nil {
			return nil, e
		}
		if tok.Type == parse.EOF {
			return lines, nil
		}
		lx.PrevTokenType = tok.Type
		lines = append(lines, tok.Pos.Line)
	}
}

// regSize reads the current size of the state's data stack (debugging aid only: shows that the
// growing variant really grows; never part of an observation).
func regSize(L *lua.LState) (n int) {
	defer func() { recover() }()
	return reflect.ValueOf(L).Elem().FieldByName("reg").Elem().FieldByName("array").Len()
}
