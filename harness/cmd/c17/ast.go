// c17: programs are built as small ASTs whose failing statement, call chain and scopes are
// known by construction; this file holds the AST and the emitter that turns it into a token
// list with statement entries, anchors and per-function scope trees.
package main

import (
	"fmt"
	"strings"
)

// Point is a call instruction at which something is observed (a query call or a call on
// the chain); its id appears in the scope tree of the function that contains it.
type Point struct {
	ID   int
	Kind string // "Q" | "QS" | "QU" | "chain"
}

type Expr struct {
	K     string // num str nil true false name vararg index indexe call method bin un paren table func
	S     string // token text / name / operator / key / method name
	A, B  *Expr
	Args  []*Expr
	Keys  []string // table: "" = positional item
	Fn    *Func
	Style int // call/method: 0 f(args), 1 f "str", 2 f {tbl}
	Pt    *Point

	First, Last, Anchor int // token indices, filled by the emitter
}

type Stmt struct {
	K        string // local localfunc funcstmt assign call do while repeat if numfor genfor return break
	Names    []string
	Vals     []*int // local: value known by construction (nil = unknown)
	Exprs    []*Expr
	Lhs      []*Expr
	Fn       *Func
	Path     []string // funcstmt: a.b.c
	Method   string   // funcstmt: :m
	Body     []*Stmt
	Conds    []*Expr   // if: conditions (if, elseif...)
	Blocks   [][]*Stmt // if: then-blocks
	Else     []*Stmt
	HasElse  bool
	ForVals  [4]*int // numfor: index, limit, step, var values
	IterSite *Expr   // genfor: stands for the loop instruction that calls the iterator (observed point)

	First, Last int // token range of the whole statement
}

type Binding struct {
	Name string
	Val  *int
}

type Func struct {
	ID                        int
	Params                    []Binding
	Vararg                    bool
	Method                    bool
	IsMain                    bool
	IsStmt                    bool // defined by `function name(` / `local function name(` (linedefined anchor differs)
	Body                      []*Stmt
	Upvals                    []Binding // in order of first reference
	FuncTok, ParenTok, EndTok int
	Items                     string // Gallina term of the scope tree (filled by the emitter)
}

// ---------- constructors ----------
func num(v int) *Expr                   { return &Expr{K: "num", S: fmt.Sprint(v)} }
func str(tok string) *Expr              { return &Expr{K: "str", S: tok} }
func lit(k string) *Expr                { return &Expr{K: k} }
func name(n string) *Expr               { return &Expr{K: "name", S: n} }
func index(o *Expr, k string) *Expr     { return &Expr{K: "index", A: o, S: k} }
func indexe(o, k *Expr) *Expr           { return &Expr{K: "indexe", A: o, B: k} }
func call(f *Expr, args ...*Expr) *Expr { return &Expr{K: "call", A: f, Args: args} }
func method(o *Expr, m string, args ...*Expr) *Expr {
	return &Expr{K: "method", A: o, S: m, Args: args}
}
func bin(op string, a, b *Expr) *Expr { return &Expr{K: "bin", S: op, A: a, B: b} }
func un(op string, a *Expr) *Expr     { return &Expr{K: "un", S: op, A: a} }
func paren(a *Expr) *Expr             { return &Expr{K: "paren", A: a} }
func ival(v int) *int                 { return &v }

// ---------- emitter ----------
type Program struct {
	Toks  []string
	Stmts [][2]int
	Fns   []*Func
}

type emitter struct {
	p *Program
}

func (e *emitter) tok(s string) int {
	e.p.Toks = append(e.p.Toks, s)
	return len(e.p.Toks) - 1
}

func (e *emitter) entry(a, b int) { e.p.Stmts = append(e.p.Stmts, [2]int{a, b}) }

// expr emits x; pts collects the points of x in evaluation order (not those inside nested
// function bodies).
func (e *emitter) expr(x *Expr, pts *[]*Point) {
	switch x.K {
	case "num", "str", "name":
		x.First = e.tok(x.S)
		x.Anchor = x.First
	case "nil", "true", "false":
		x.First = e.tok(x.K)
		x.Anchor = x.First
	case "vararg":
		x.First = e.tok("...")
		x.Anchor = x.First
	case "index":
		e.expr(x.A, pts)
		x.First, x.Anchor = x.A.First, x.A.Anchor
		e.tok(".")
		e.tok(x.S)
	case "indexe":
		e.expr(x.A, pts)
		x.First, x.Anchor = x.A.First, x.A.Anchor
		e.tok("[")
		e.expr(x.B, pts)
		e.tok("]")
	case "call", "method":
		e.expr(x.A, pts)
		x.First, x.Anchor = x.A.First, x.A.Anchor
		if x.K == "method" {
			e.tok(":")
			e.tok(x.S)
		}
		switch x.Style {
		case 0:
			e.tok("(")
			for i, a := range x.Args {
				if i > 0 {
					e.tok(",")
				}
				e.expr(a, pts)
			}
			e.tok(")")
		default: // single string or table argument without parentheses
			e.expr(x.Args[0], pts)
		}
	case "bin":
		checkPrec(x)
		e.expr(x.A, pts)
		x.First, x.Anchor = x.A.First, x.A.Anchor
		e.tok(x.S)
		e.expr(x.B, pts)
	case "un":
		if x.A.K == "bin" && prec(x.A.S) < 7 {
			panic("generator: unary operator applied to an unparenthesised " + x.A.S)
		}
		x.First = e.tok(x.S)
		e.expr(x.A, pts)
		x.Anchor = x.A.Anchor // the parser gives a unary node the line of its operand
	case "paren":
		x.First = e.tok("(")
		x.Anchor = x.First
		e.expr(x.A, pts)
		e.tok(")")
		// parser: `( expr )` is the inner node with its line reset to that of "(" -- except that
		// a directly parenthesised call keeps its own line
		if x.A.K != "call" && x.A.K != "method" && x.A.K != "func" {
			setAnchor(x.A, x.First)
		}
	case "table":
		x.First = e.tok("{")
		x.Anchor = x.First
		for i, a := range x.Args {
			if i > 0 {
				e.tok(",")
			}
			if x.Keys[i] != "" {
				e.tok(x.Keys[i])
				e.tok("=")
			}
			e.expr(a, pts)
		}
		e.tok("}")
	case "func":
		x.First = e.tok("function")
		x.Anchor = x.First
		x.Fn.FuncTok = x.First
		e.funcBody(x.Fn)
	default:
		panic("expr kind " + x.K)
	}
	if x.Pt != nil {
		*pts = append(*pts, x.Pt)
	}
	x.Last = len(e.p.Toks) - 1
}

func prec(op string) int {
	switch op {
	case "or":
		return 1
	case "and":
		return 2
	case "<", ">", "<=", ">=", "~=", "==":
		return 3
	case "..":
		return 4
	case "+", "-":
		return 5
	case "*", "/", "%":
		return 6
	case "^":
		return 8
	}
	panic("operator " + op)
}

// checkPrec makes sure the token sequence parses back into this very tree.
func checkPrec(x *Expr) {
	p := prec(x.S)
	right := x.S == ".." || x.S == "^"
	if a := x.A; a.K == "bin" && (prec(a.S) < p || prec(a.S) == p && right) || a.K == "un" && p > 7 {
		panic("generator: left operand of " + x.S + " needs parentheses")
	}
	if b := x.B; b.K == "bin" && (prec(b.S) < p || prec(b.S) == p && !right) {
		panic("generator: right operand of " + x.S + " needs parentheses")
	}
}

func setAnchor(x *Expr, tok int) {
	x.Anchor = tok
	if x.K == "paren" {
		setAnchor(x.A, tok)
	}
}

// funcBody emits `( params ) body end` and the function's scope tree.
func (e *emitter) funcBody(f *Func) {
	f.ParenTok = e.tok("(")
	for i, p := range f.Params {
		if i > 0 {
			e.tok(",")
		}
		e.tok(p.Name)
	}
	if f.Vararg {
		if len(f.Params) > 0 {
			e.tok(",")
		}
		e.tok("...")
	}
	e.tok(")")
	f.Items = e.block(f.Body)
	f.EndTok = e.tok("end")
	e.p.Fns = append(e.p.Fns, f)
}

func coqOptInt(v *int) string {
	if v == nil {
		return "None"
	}
	if *v < 0 {
		return fmt.Sprintf("(Some (%d))", *v)
	}
	return fmt.Sprintf("(Some %d)", *v)
}

func coqBinding(b Binding) string {
	return fmt.Sprintf("(%q%%string, %s)", b.Name, coqOptInt(b.Val))
}

func coqBindings(bs []Binding) string {
	it := make([]string, len(bs))
	for i, b := range bs {
		it[i] = coqBinding(b)
	}
	return "[" + strings.Join(it, "; ") + "]"
}

func coqPts(ps []*Point) string {
	it := make([]string, len(ps))
	for i, p := range ps {
		it[i] = fmt.Sprint(p.ID)
	}
	return "[" + strings.Join(it, "; ") + "]"
}

// block emits the statements and returns the Gallina `items` term of their scope tree.
func (e *emitter) block(ss []*Stmt) string {
	// build as a list of prefix constructors applied right to left
	var parts []string // each part is "(Ctor args" and expects " rest)"
	for _, s := range ss {
		parts = append(parts, e.stmt(s)...)
	}
	out := "INil"
	for i := len(parts) - 1; i >= 0; i-- {
		out = parts[i] + " " + out + ")"
	}
	return out
}

func ptParts(ps []*Point) []string {
	var out []string
	for _, p := range ps {
		out = append(out, fmt.Sprintf("(IPoint %d", p.ID))
	}
	return out
}

// stmt emits one statement; returns the scope-tree constructors it contributes.
func (e *emitter) stmt(s *Stmt) []string {
	var parts []string
	var pts []*Point
	start := len(e.p.Toks)
	simple := func() {
		s.First, s.Last = start, len(e.p.Toks)-1
		e.entry(s.First, s.Last)
	}
	orPad := func(ps []*Point) []string {
		if len(ps) == 0 {
			return []string{"(IPad"}
		}
		return ptParts(ps)
	}
	switch s.K {
	case "local":
		e.tok("local")
		for i, n := range s.Names {
			if i > 0 {
				e.tok(",")
			}
			e.tok(n)
		}
		if len(s.Exprs) > 0 {
			e.tok("=")
			for i, x := range s.Exprs {
				if i > 0 {
					e.tok(",")
				}
				e.expr(x, &pts)
			}
		}
		simple()
		bs := make([]Binding, len(s.Names))
		for i, n := range s.Names {
			bs[i] = Binding{n, nil}
			if i < len(s.Vals) {
				bs[i].Val = s.Vals[i]
			}
		}
		parts = append(ptParts(pts), "(ILocal "+coqBindings(bs))
	case "localfunc":
		e.tok("local")
		s.Fn.FuncTok = e.tok("function")
		e.tok(s.Names[0])
		s.Fn.IsStmt = true
		hdr := start
		e.funcBody(s.Fn)
		// header entry: local function name ( params )
		e.entry(hdr, e.closeParenOf(s.Fn))
		s.First, s.Last = start, len(e.p.Toks)-1
		parts = []string{"(ILocal " + coqBindings([]Binding{{s.Names[0], nil}})}
	case "funcstmt":
		s.Fn.FuncTok = e.tok("function")
		for i, n := range s.Path {
			if i > 0 {
				e.tok(".")
			}
			e.tok(n)
		}
		if s.Method != "" {
			e.tok(":")
			e.tok(s.Method)
		}
		s.Fn.IsStmt = true
		e.funcBody(s.Fn)
		e.entry(start, e.closeParenOf(s.Fn))
		s.First, s.Last = start, len(e.p.Toks)-1
		parts = []string{"(IPad"}
	case "assign":
		for i, x := range s.Lhs {
			if i > 0 {
				e.tok(",")
			}
			e.expr(x, &pts)
		}
		e.tok("=")
		for i, x := range s.Exprs {
			if i > 0 {
				e.tok(",")
			}
			e.expr(x, &pts)
		}
		simple()
		parts = orPad(pts)
	case "call":
		e.expr(s.Exprs[0], &pts)
		simple()
		parts = orPad(pts)
	case "return":
		e.tok("return")
		for i, x := range s.Exprs {
			if i > 0 {
				e.tok(",")
			}
			e.expr(x, &pts)
		}
		simple()
		parts = orPad(pts)
	case "break":
		e.tok("break")
		simple()
		parts = []string{"(IPad"}
	case "do":
		e.tok("do")
		e.entry(start, start)
		body := e.block(s.Body)
		e.tok("end")
		parts = []string{"(IBlock " + body}
	case "while":
		e.tok("while")
		e.expr(s.Exprs[0], &pts)
		d := e.tok("do")
		e.entry(start, d)
		body := e.block(s.Body)
		e.tok("end")
		parts = append(ptParts(pts), "(IBlock "+body)
	case "repeat":
		e.tok("repeat")
		e.entry(start, start)
		body := e.block(s.Body)
		u := e.tok("until")
		e.expr(s.Exprs[0], &pts)
		e.entry(u, len(e.p.Toks)-1)
		parts = []string{fmt.Sprintf("(IRepeat %s %s", body, coqPts(pts))}
	case "if":
		parts = e.ifChain(s, 0)
	case "numfor":
		e.tok("for")
		e.tok(s.Names[0])
		e.tok("=")
		var h [3][]*Point
		for i, x := range s.Exprs {
			if i > 0 {
				e.tok(",")
			}
			e.expr(x, &h[i])
		}
		d := e.tok("do")
		e.entry(start, d)
		body := e.block(s.Body)
		e.tok("end")
		parts = []string{fmt.Sprintf("(INumFor %s %s %s %s %s %s %s %s", coqPts(h[0]), coqPts(h[1]), coqPts(h[2]),
			coqOptInt(s.ForVals[0]), coqOptInt(s.ForVals[1]), coqOptInt(s.ForVals[2]),
			coqBinding(Binding{s.Names[0], s.ForVals[3]}), body)}
	case "genfor":
		e.tok("for")
		for i, n := range s.Names {
			if i > 0 {
				e.tok(",")
			}
			e.tok(n)
		}
		e.tok("in")
		for i, x := range s.Exprs {
			if i > 0 {
				e.tok(",")
			}
			e.expr(x, &pts)
		}
		d := e.tok("do")
		e.entry(start, d)
		body := e.block(s.Body)
		e.tok("end")
		bs := make([]Binding, len(s.Names))
		for i, n := range s.Names {
			bs[i] = Binding{n, nil}
			if i < len(s.Vals) {
				bs[i].Val = s.Vals[i]
			}
		}
		var iter []*Point
		if s.IterSite != nil { // gopher gives TFORLOOP the line of the `for` keyword
			s.IterSite.First, s.IterSite.Last, s.IterSite.Anchor = start, start, start
			iter = []*Point{s.IterSite.Pt}
		}
		parts = []string{fmt.Sprintf("(IGenFor %s %s %s %s", coqPts(pts), coqBindings(bs), coqPts(iter), body)}
	default:
		panic("stmt kind " + s.K)
	}
	s.First, s.Last = start, len(e.p.Toks)-1
	return parts
}

// ifChain emits `if c then b {elseif c then b} [else b] end`; as gopher's parser does, an
// elseif is an if statement alone in the else block of the one before.
func (e *emitter) ifChain(s *Stmt, i int) []string {
	var pts []*Point
	start := len(e.p.Toks)
	if i == 0 {
		e.tok("if")
	} else {
		e.tok("elseif")
	}
	e.expr(s.Conds[i], &pts)
	th := e.tok("then")
	e.entry(start, th)
	body := e.block(s.Blocks[i])
	parts := append(ptParts(pts), "(IBlock "+body)
	if i+1 < len(s.Conds) {
		inner := e.ifChain(s, i+1)
		term := "INil"
		for k := len(inner) - 1; k >= 0; k-- {
			term = inner[k] + " " + term + ")"
		}
		parts = append(parts, "(IBlock "+term)
		return parts
	}
	if s.HasElse {
		el := e.tok("else")
		e.entry(el, el)
		parts = append(parts, "(IBlock "+e.block(s.Else))
	}
	e.tok("end")
	return parts
}

// closeParenOf finds the `)` that closes the parameter list of f.
func (e *emitter) closeParenOf(f *Func) int {
	i := f.ParenTok + 1
	for e.p.Toks[i] != ")" {
		i++
	}
	return i
}

func emitProgram(main *Func) *Program {
	p := &Program{}
	e := &emitter{p}
	main.IsMain = true
	main.FuncTok, main.ParenTok = -1, -1
	main.Items = e.block(main.Body)
	main.EndTok = -1
	p.Fns = append(p.Fns, main)
	return p
}

func (f *Func) coq() string {
	b := func(x bool) string {
		if x {
			return "true"
		}
		return "false"
	}
	return fmt.Sprintf("(Fn %s %s %s %s)", b(f.Method), coqBindings(f.Params), b(f.Vararg && !f.IsMain), f.Items)
}
