// c17: correspondence harness for property C17 (error positions and debug queries).
package main

import (
	"encoding/hex"
	"encoding/json"
	"fmt"
	"os"
	"sort"
	"strconv"
	"strings"

	"verifh/lib"
)

const header = "From GL Require Import Common.Bytes Dbg.Lines Dbg.Layout Dbg.Scope Dbg.DbgLocals Dbg.DbgCases.\nFrom Coq Require Import String Uint63."

type input struct {
	Kind string `json:"kind"` // gen | corpus
	Seed string `json:"seed,omitempty"`
	Name string `json:"name,omitempty"`
	NLay int    `json:"nlay"`
}

func main() {
	if len(os.Args) > 2 && os.Args[1] == "show" { // debugging aid: c17 show <case-seed> [layout]
		seed, _ := strconv.ParseUint(os.Args[2], 10, 64)
		r := lib.NewRand(seed)
		g := genProgram(r.Fork())
		lr := r.Fork()
		k := 0
		if len(os.Args) > 3 {
			k, _ = strconv.Atoi(os.Args[3])
		}
		var lay Layout
		for i := 0; i <= k; i++ {
			lay = makeLayout(g.Prog, i, lr.Fork())
		}
		src, _ := render(g.Prog, lay)
		os.Stdout.Write(src)
		res := runSource(src, k%2)
		fmt.Printf("\n-- load=%q top=%q scen=%v\n-- data stack %d +%d\n", res.LoadErr, res.TopErr, res.Scen, res.RegSize, res.RegGrown)
		for _, l := range g.Lines {
			fmt.Printf("-- %s %+v spec=%d impl=%d\n", l.What, l.Src, l.SpecTok(), l.ImplTok())
		}
		return
	}
	a := lib.ParseArgs()
	if a.Cmd != "run" {
		fmt.Fprintln(os.Stderr, "unknown command", a.Cmd)
		os.Exit(2)
	}
	w, err := lib.NewWriter(a.Out, "C17", a.Tier, a.Seed, header, "case", 25)
	if err != nil {
		panic(err)
	}
	w.Meta.Rule = "one case = one generated Lua program (nested functions/blocks/loops, call chains of 1-3 Lua functions entered by pcall, directly, " +
		"through methods or metamethods) rendered under N layouts (tidy, spread, comments, one token per line, blank lines, CR/LF/CRLF/LFCR, long strings " +
		"spanning lines; one layout per program in the style lexedge: comments, long strings and file ends drawn from the scanner's look-ahead decisions - long-bracket " +
		"openers/closers cut at every position, directly before a line end or the end of input, glued to tokens, odd bytes - half of them padded so that the 4096-byte " +
		"read buffer ends inside such a piece) and run on the real interpreter; observed: chunk:line: prefix of the injected fault, debug.getinfo currentline/linedefined/" +
		"lastlinedefined, debug.getlocal/getupvalue enumerations at levels 1 and 2, setlocal/setupvalue read back; " +
		"non-trivial = at least 3 line observations and some observed line differs between two layouts; distinct by Gallina term"
	r := lib.NewRand(a.Seed)
	if a.Replay != "" {
		replay(w, a.Replay)
	} else {
		corpus(w)
		n, nlay := 400, 4
		if a.Tier == "thorough" {
			n, nlay = 8000, 6
		}
		for i := 0; i < n; i++ {
			seed := r.U64()
			runGenerated(w, input{Kind: "gen", Seed: strconv.FormatUint(seed, 10), NLay: nlay})
		}
	}
	if err := w.Close(); err != nil {
		panic(err)
	}
}

func replay(w *lib.Writer, path string) {
	b, err := os.ReadFile(path)
	if err != nil {
		panic(err)
	}
	var rp struct {
		Input input `json:"input"`
	}
	if err := json.Unmarshal(b, &rp); err != nil {
		panic(err)
	}
	if rp.Input.Kind == "corpus" {
		for _, c := range corpusList() {
			if c.name == rp.Input.Name {
				runCase(w, rp.Input, c.build(), c.layouts)
			}
		}
		return
	}
	runGenerated(w, rp.Input)
}

func runGenerated(w *lib.Writer, in input) {
	seed, _ := strconv.ParseUint(in.Seed, 10, 64)
	r := lib.NewRand(seed)
	g := genProgram(r.Fork())
	lr := r.Fork()
	var lays []Layout
	for k := 0; k < in.NLay; k++ {
		lays = append(lays, makeLayout(g.Prog, k, lr.Fork()))
	}
	runCase(w, in, g, lays)
}

func coqObsBindings(bs []obsBinding) string {
	it := make([]string, len(bs))
	for i, b := range bs {
		v := "None"
		if b.Val != nil {
			v = "(Some " + lib.CoqZ(*b.Val) + ")"
		}
		it[i] = fmt.Sprintf("(%q%%string, %s)", b.Name, v)
	}
	return "[" + strings.Join(it, "; ") + "]"
}

func coqOptName(s *string) string {
	if s == nil {
		return "None"
	}
	return fmt.Sprintf("(Some %q%%string)", *s)
}

func coqPairs(ps [][2]int) string {
	it := make([]string, len(ps))
	for i, p := range ps {
		it[i] = fmt.Sprintf("(%d,%d)", p[0], p[1])
	}
	return "[" + strings.Join(it, ";") + "]"
}

func coqInts(xs []int) string {
	it := make([]string, len(xs))
	for i, x := range xs {
		it[i] = lib.CoqZ(int64(x))
	}
	return "[" + strings.Join(it, ";") + "]"
}

// pack7 prints a byte string as primitive 63-bit integers, 7 bytes each (Lines.unpack).
func pack7(b []byte) string {
	var sb strings.Builder
	sb.WriteString("([")
	for i := 0; i < len(b); i += 7 {
		if i > 0 {
			sb.WriteByte(';')
		}
		var chunk [7]byte
		copy(chunk[:], b[i:])
		sb.WriteString("0x" + hex.EncodeToString(chunk[:]))
	}
	sb.WriteString("])%uint63")
	return sb.String()
}

func packSpans(ps [][2]int) string {
	it := make([]string, len(ps))
	for i, p := range ps {
		if p[1] >= 65536 {
			panic("token too long")
		}
		it[i] = strconv.Itoa(p[0]*65536 + p[1])
	}
	return "([" + strings.Join(it, ";") + "])%uint63"
}

func packInts(xs []int) string {
	it := make([]string, len(xs))
	for i, x := range xs {
		if x < 0 {
			x = 0
		}
		it[i] = strconv.Itoa(x)
	}
	return "([" + strings.Join(it, ";") + "])%uint63"
}

type layReport struct {
	Style  string `json:"style"`
	Source string `json:"source"`
	Lines  []int  `json:"lines"`
}

// runCase renders, runs and records one program under the given layouts.
func runCase(w *lib.Writer, in input, g *Generated, lays []Layout) {
	p := g.Prog
	gg := g.G
	id := w.NextID()
	fail := func(what string) {
		if len(what) > 300 {
			what = what[:300]
		}
		w.GoFail(id, what)
	}
	var layTerms []string
	var reports []layReport
	nontriv := false
	var first []int
	kf := map[string]bool{}
	for k := range gg.kf {
		kf[k] = true
	}
	faultScen := map[int]bool{}
	topFault := false
	for _, l := range g.Lines {
		if l.Src.Kind == "err" {
			if l.Src.Scen == 0 {
				topFault = true
			} else {
				faultScen[l.Src.Scen] = true
			}
		}
	}
	for li, lay := range lays {
		src, spans := render(p, lay)
		lex, err := lexLines(src)
		if err != nil {
			fail("scanner rejected the rendered program: " + err.Error())
		} else if len(lex) != len(p.Toks) {
			fail(fmt.Sprintf("generator: rendered program scans to %d tokens, built from %d", len(lex), len(p.Toks)))
			lex = make([]int, len(p.Toks))
		}
		res := runSource(src, li%2)
		if res.LoadErr != "" {
			fail("program did not load: " + res.LoadErr)
		}
		if (res.TopErr != "") != topFault {
			fail(fmt.Sprintf("chunk error expected=%v got %q", topFault, res.TopErr))
		}
		for k := 1; k <= gg.nScen; k++ {
			msg, ran := res.Scen[k]
			if !ran && !topFault {
				fail(fmt.Sprintf("scenario %d did not run", k))
			} else if ran && (msg != "") != faultScen[k] {
				fail(fmt.Sprintf("scenario %d: fault expected=%v, message %q", k, faultScen[k], msg))
			}
		}
		// getinfo(f,'S') of the function object must agree with getinfo(level,'S'); no current line
		for k, bf := range res.ByFunc {
			if fi, ok := res.Info[k]; ok && fi.What != "G" && (bf[0] != fi.LineDefined || bf[1] != fi.LastLine || bf[2] != -1) {
				fail(fmt.Sprintf("getinfo(func,'Sl') = %v disagrees with getinfo(level) %+v", bf, fi))
			}
		}
		// a Go function on the stack (pcall, a metamethod dispatcher, ...) is defined on no line
		for k, fi := range res.Info {
			if fi.What == "G" && (fi.Cur != -1 || fi.LineDefined != -1 || fi.LastLine != -1) {
				fail(fmt.Sprintf("point %d level %d is a Go function, getinfo gives lines %d/%d/%d (expected -1)", k[0], k[1], fi.Cur, fi.LineDefined, fi.LastLine))
				break
			}
		}
		// a chunk made by loadstring and called from Lua code is a main chunk
		for _, id := range gg.loaded {
			if fi, ok := res.Info[[2]int{id, 1}]; !ok || fi.What != "main" || fi.LineDefined != 0 || fi.LastLine != 0 || fi.Cur != gg.loadedLine[id] {
				fail(fmt.Sprintf("point %d runs in a loadstring chunk: getinfo(1) gives %+v (expected what=main, lines 0/0, currentline %d)", id, fi, gg.loadedLine[id]))
			}
		}
		// what: "main" exactly for the levels that are a main chunk
		for _, l := range g.Lines {
			if l.Src.Kind != "ldef" {
				continue
			}
			if fi, ok := res.Info[[2]int{l.Src.Pt, l.Src.Lvl}]; ok {
				if (l.Mode == "zero") != (fi.What == "main") {
					fail(fmt.Sprintf("point %d level %d: what=%q for a %s", l.Src.Pt, l.Src.Lvl, fi.What, map[bool]string{true: "main chunk", false: "function"}[l.Mode == "zero"]))
				}
			}
		}
		for _, x := range res.Incons {
			fail(fmt.Sprintf("point %d level %d: getinfo(level, \"l\" / \"S\" / default) disagrees with the combined query", x[0], x[1]))
		}
		for _, id := range res.ThreadSetBad {
			fail(fmt.Sprintf("point %d: debug.setlocal(co, 1, 1, v) did not set the first local of the suspended coroutine", id))
		}
		// a level lost to a tail call: what = "tail", no variables
		for _, l := range g.Lines {
			if l.Mode == "none" && l.Src.Kind == "cur" {
				if fi, ok := res.Info[[2]int{l.Src.Pt, l.Src.Lvl}]; ok && fi.What != "tail" {
					fail(fmt.Sprintf("point %d level %d is a frame lost to a tail call, getinfo says what=%q", l.Src.Pt, l.Src.Lvl, fi.What))
				}
				if n := len(res.Locals[key3{l.Src.Pt, l.Src.Lvl, 0}]); n > 0 {
					fail(fmt.Sprintf("point %d level %d (tail call): getlocal enumerates %d variables", l.Src.Pt, l.Src.Lvl, n))
				}
			}
		}
		var lines []int
		for _, l := range g.Lines {
			v := -1
			switch l.Src.Kind {
			case "err":
				if l.Src.Scen == 0 {
					v = errLine(res.TopErr)
				} else {
					v = errLine(res.Scen[l.Src.Scen])
				}
			default:
				if fi, ok := res.Info[[2]int{l.Src.Pt, l.Src.Lvl}]; ok {
					switch l.Src.Kind {
					case "cur":
						v = fi.Cur
					case "ldef":
						v = fi.LineDefined
					default:
						v = fi.LastLine
					}
				}
			}
			lines = append(lines, v)
		}
		if first == nil {
			first = lines
		} else {
			for i := range lines {
				if lines[i] != first[i] {
					nontriv = true
				}
			}
		}
		var locs, sets, ups, usets []string
		for _, s := range gg.scopes {
			locs = append(locs, coqObsBindings(res.Locals[key3{s.At, s.Lvl, 0}]))
		}
		for _, s := range gg.sets {
			sets = append(sets, fmt.Sprintf("(%s, %s)", coqOptName(res.SetRet[s.At]), coqObsBindings(res.Locals[key3{s.At, s.Lvl, 1}])))
		}
		for _, u := range gg.ups {
			ups = append(ups, coqObsBindings(res.Upvals[key3{u.At, 1, 0}]))
		}
		for _, u := range gg.upsets {
			usets = append(usets, fmt.Sprintf("(%s, %s)", coqOptName(res.SetRet[u.At]), coqObsBindings(res.Upvals[key3{u.At, 1, 1}])))
		}
		layTerms = append(layTerms, fmt.Sprintf("(LayObs %d %s %s %s %s %s %s %s %s)",
			len(src), pack7(src), packSpans(spans), packInts(lex), coqInts(lines),
			lib.CoqList(locs), lib.CoqList(sets), lib.CoqList(ups), lib.CoqList(usets)))
		rep := layReport{Style: lay.Style, Lines: lines}
		if len(reports) == 0 {
			rep.Source = string(src)
		}
		reports = append(reports, rep)
	}
	// static part
	var lds, sds, stds, uds, usds, fns []string
	for _, l := range g.Lines {
		mode := "LRange"
		switch l.Mode {
		case "exact":
			mode = "LExact"
		case "none":
			mode = "LNone"
		case "zero":
			mode = "LZero"
		}
		lds = append(lds, fmt.Sprintf("(LDesc %s %d %d)", mode, l.SpecTok(), l.ImplTok()))
	}
	for _, s := range gg.scopes {
		sds = append(sds, fmt.Sprintf("(SDesc %d %d)", g.FnIdx[s.Fn()], s.Pt))
	}
	for _, s := range gg.sets {
		stds = append(stds, fmt.Sprintf("(SetDesc %d %d %s %d)", g.FnIdx[s.Fn()], s.Pt, lib.CoqZ(int64(s.Idx)), s.Val))
	}
	for _, u := range gg.ups {
		uds = append(uds, fmt.Sprintf("(UDesc %s)", coqBindings(u.Fn.Upvals)))
	}
	for _, u := range gg.upsets {
		usds = append(usds, fmt.Sprintf("(USetDesc %s %d %d)", coqBindings(u.Fn.Upvals), u.Idx, u.Val))
	}
	for _, f := range p.Fns {
		fns = append(fns, f.coq())
	}
	term := fmt.Sprintf("(Case %s %s %s %s %s %s %s %s)", coqPairs(p.Stmts), lib.CoqList(lds), lib.CoqList(fns),
		lib.CoqList(sds), lib.CoqList(stds), lib.CoqList(uds), lib.CoqList(usds), lib.CoqList(layTerms))
	var cls []string
	for c := range gg.classes {
		if strings.HasPrefix(c, "fault:") {
			cls = append(cls, c[6:])
		}
	}
	sort.Strings(cls)
	class := "nofault"
	if len(cls) > 0 {
		class = strings.Join(cls, "+")
	}
	if in.Kind == "corpus" {
		class = "corpus:" + in.Name
	}
	var what []string
	for _, l := range g.Lines {
		what = append(what, l.What)
	}
	var kfs []string
	for k := range kf {
		kfs = append(kfs, k)
	}
	sort.Strings(kfs)
	w.Add(lib.Case{Coq: term, Input: in, Class: class, Nontrivial: nontriv && len(g.Lines) >= 3, KF: kfs,
		Observed: map[string]any{"layouts": reports, "what": what, "tokens": len(p.Toks), "functions": len(p.Fns)}})
}
