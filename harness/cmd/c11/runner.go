package main

// Runs one program: a reference run without a context, a trace run with a context that fires at
// cap+1 (recording the abstract frame stack and the emit count at every poll), and one run per
// requested firing index k.  Executed inside a child process (a hang is the parent's observation).

import (
	"encoding/json"
	"os"
	"sort"
)

type job struct {
	Name      string `json:"name"`
	Src       string `json:"src"`
	Cap       int    `json:"cap"`   // polls explored (trace run fires at Cap+1)
	AllK      bool   `json:"all_k"` // every k in 1..min(total,Cap)
	NK        int    `json:"nk"`    // else NK indices chosen with Seed
	Seed      uint64 `json:"seed"`
	Ks        []int  `json:"ks,omitempty"`    // else exactly these
	NoRef     bool   `json:"noref,omitempty"` // no context-free reference run (script loops without emitting)
	Reason    string `json:"reason,omitempty"`
	GoLoop    int    `json:"goloop,omitempty"` // KF witness: Go library loop over N catching callbacks
	Calib     bool   `json:"calib,omitempty"`
	Shape     string `json:"shape,omitempty"`
	Setup     string `json:"setup,omitempty"`      // state construction / attach point, see newEnvS
	Mode      string `json:"mode,omitempty"`       // "" DoString, "pcall", "resume"
	RemoveCtx bool   `json:"remove_ctx,omitempty"` // SetContext, RemoveContext, cancel: must run like a context-free state
	Class     string `json:"class"`
}

type fireObs struct {
	K           int      `json:"k"`
	Fired       bool     `json:"fired"`
	Stack       []string `json:"stack"`    // abstract frames at the firing poll, top first
	TraceOK     bool     `json:"trace_ok"` // stack and emit count equal the trace run's at poll k
	EmitsBefore int      `json:"emits_before"`
	EmitsAfter  int      `json:"emits_after"`
	PollsAfter  int      `json:"polls_after"`
	PollsTotal  int      `json:"polls_total"`
	PrefixOK    bool     `json:"prefix_ok"` // emitted values = prefix of the context-free run's
	Outc        int      `json:"outc"`
	Err         string   `json:"err,omitempty"`
	GoRemaining int      `json:"go_remaining,omitempty"`
	NoInherit   int      `json:"no_inherit,omitempty"`
}

type jobResult struct {
	Name       string    `json:"name"`
	TracePolls int       `json:"trace_polls"` // polls of the trace run (<= Cap+1)
	Terminated bool      `json:"terminated"`  // the program ended before poll Cap+1
	RefOutc    int       `json:"ref_outc"`
	RefErr     string    `json:"ref_err,omitempty"`
	RefEmits   int       `json:"ref_emits"`
	SameAsRef  bool      `json:"same_as_ref"` // terminated: emits, outcome and error text equal the reference run's
	TraceOutc  int       `json:"trace_outc"`
	Other      int       `json:"other_done_calls"`
	Script     []int     `json:"script,omitempty"` // calibration: per instruction 0 other, 1 call of emit, 2 return
	Runs       []fireObs `json:"runs"`
	MaxDepth   int       `json:"max_depth"`
	CompileErr string    `json:"compile_err,omitempty"`
	NoInherit  int       `json:"no_inherit,omitempty"`
}

type tracePoint struct {
	stack string
	emits int
}

func reasonOf(j job) string {
	if j.Reason != "" {
		return j.Reason
	}
	return stdReason
}

func runJob(j job) jobResult {
	res := jobResult{Name: j.Name}
	reason := reasonOf(j)
	if _, err := newEnv(false, 0, "").L.LoadString(j.Src); err != nil {
		res.CompileErr = "generated program does not compile: " + err.Error()
		return res
	}

	// trace run
	tr := newEnvS(true, j.Cap+1, j.Reason, j.RemoveCtx, j.Mode, j.Setup)
	var points []tracePoint
	tr.c.onPoll = func(th *luaState, i int) {
		s := tr.snapshot(th)
		if len(s) > res.MaxDepth {
			res.MaxDepth = len(s)
		}
		points = append(points, tracePoint{joinTags(s), len(tr.emits)})
	}
	terr, _ := tr.runScript(j.Src, j.Mode)
	res.TracePolls = tr.c.n
	res.Terminated = !tr.c.fired
	res.TraceOutc, _ = outcome(terr, reason)
	res.Other = tr.c.other
	res.NoInherit = tr.noInherit
	if tr.notFresh {
		res.CompileErr = "harness: setup " + j.Setup + " did not produce a state on which no call was ever made (G.MainThread already set)"
		tr.close()
		return res
	}
	if tr.c.n == 0 && !j.RemoveCtx {
		// not a single Done() call came from lua.mainLoopWithContext although a context is attached
		res.CompileErr = "no dispatch poll observed: the polling loop (lua.mainLoopWithContext) never called Done() on the attached context"
		tr.close()
		return res
	}
	traceErrText := ""
	if terr != nil {
		_, traceErrText = outcome(terr, reason)
	}
	tr.close()

	// reference run without a context
	var refEmits []string
	if !j.NoRef {
		rf := newEnvS(false, 0, "", false, j.Mode, j.Setup)
		if !res.Terminated {
			rf.maxEmits = len(tr.emits) + 1
		}
		rerr, exited := rf.runScript(j.Src, j.Mode)
		refEmits = rf.emits
		res.RefEmits = len(refEmits)
		if !exited {
			res.RefOutc, res.RefErr = outcome(rerr, reason)
		} else {
			res.RefOutc = -1
		}
		if res.Terminated {
			res.SameAsRef = !exited && eqStrings(refEmits, tr.emits) && res.RefErr == traceErrText && res.RefOutc == res.TraceOutc
		}
	}

	if j.Calib {
		res.Script = calibScript(j.Src, j.Shape)
	}

	// firing indices
	limit := res.TracePolls
	if !res.Terminated {
		limit = j.Cap
	}
	var ks []int
	switch {
	case len(j.Ks) > 0:
		ks = j.Ks
	case j.AllK:
		for k := 1; k <= limit; k++ {
			ks = append(ks, k)
		}
	default:
		ks = pickKs(limit, j.NK, j.Seed)
	}
	if j.Calib {
		ks = append(ks, limit+1, limit+5) // beyond the end: the context never fires
	}

	for _, k := range ks {
		e := newEnvS(true, k, j.Reason, false, j.Mode, j.Setup)
		var stack []string
		before := 0
		e.c.onFire = func(th *luaState) {
			stack = e.snapshot(th)
			before = len(e.emits)
		}
		err, _ := e.runScript(j.Src, j.Mode)
		o := fireObs{K: k, Fired: e.c.fired, Stack: stack, EmitsBefore: before, EmitsAfter: e.emitsAft,
			PollsAfter: e.c.after, PollsTotal: e.c.n, NoInherit: e.noInherit}
		o.Outc, o.Err = outcome(err, reason)
		if o.Fired {
			o.TraceOK = k-1 < len(points) && points[k-1].stack == joinTags(stack) && points[k-1].emits == before
		} else {
			o.TraceOK = res.Terminated && e.c.n == res.TracePolls && o.Outc == res.TraceOutc
			before = len(e.emits)
			o.EmitsBefore = before
		}
		if j.NoRef {
			o.PrefixOK = true
		} else {
			pre := e.emits
			if o.Fired {
				pre = e.emits[:before]
			}
			o.PrefixOK = len(pre) <= len(refEmits) && eqStrings(pre, refEmits[:len(pre)])
			if !o.Fired {
				o.PrefixOK = o.PrefixOK && len(pre) == len(refEmits) && o.Outc == res.RefOutc && o.Err == res.RefErr
			}
		}
		e.close()
		res.Runs = append(res.Runs, o)
	}
	return res
}

func eqStrings(a, b []string) bool {
	if len(a) != len(b) {
		return false
	}
	for i := range a {
		if a[i] != b[i] {
			return false
		}
	}
	return true
}

func pickKs(limit, n int, seed uint64) []int {
	if limit <= 0 {
		return nil
	}
	if n >= limit {
		ks := make([]int, limit)
		for i := range ks {
			ks[i] = i + 1
		}
		return ks
	}
	r := newRand(seed)
	seen := map[int]bool{1: true, limit: true}
	for len(seen) < n {
		seen[1+r.Intn(limit)] = true
	}
	ks := make([]int, 0, n)
	for k := range seen {
		ks = append(ks, k)
	}
	sort.Ints(ks)
	return ks
}

func childMain() {
	var j job
	if err := json.NewDecoder(os.Stdin).Decode(&j); err != nil {
		os.Exit(3)
	}
	res := runJob(j)
	json.NewEncoder(os.Stdout).Encode(res)
}
