package main

// A hand-written context.Context (not one of package context's own types): open finding C11-10.
// NewThread derives context.WithCancel(parent) for every coroutine and the coroutine polls only that
// child; for a parent the standard library does not know, cancellation reaches the child from a helper
// goroutine, i.e. asynchronously: the coroutine keeps executing instructions until the scheduler runs
// that goroutine.  Scheduler-dependent by nature: the case reports how many host calls the coroutine
// still made after Done() was closed; it is a failure (covered by the finding) when that is > 0.

import (
	"context"
	"sync"
	"time"

	lua "github.com/yuin/gopher-lua"
	"verifh/lib"
)

type handCtx struct {
	mu   sync.Mutex
	done chan struct{}
	err  error
}

func (c *handCtx) Deadline() (time.Time, bool) { return time.Time{}, false }
func (c *handCtx) Done() <-chan struct{}       { return c.done }
func (c *handCtx) Value(any) any               { return nil }
func (c *handCtx) Err() error {
	c.mu.Lock()
	defer c.mu.Unlock()
	return c.err
}
func (c *handCtx) cancel() {
	c.mu.Lock()
	defer c.mu.Unlock()
	if c.err == nil {
		c.err = context.Canceled
		close(c.done)
	}
}

func runCustomCtx(w *lib.Writer) {
	one := func(src string) (after int, err error) {
		L := lua.NewState()
		c := &handCtx{done: make(chan struct{})}
		L.SetContext(c)
		n := 0
		L.SetGlobal("tick", L.NewFunction(func(*lua.LState) int {
			n++
			if n == 1000 {
				c.cancel()
			}
			return 0
		}))
		err = L.DoString(src)
		if n > 1000 {
			after = n - 1000
		}
		return
	}
	mainAfter, _ := one(`for i = 1, 200000 do tick() end`)
	coAfter, _ := one(`coroutine.wrap(function() for i = 1, 200000 do tick() end end)()`)
	obs := map[string]any{"host_calls_after_done_main_thread": mainAfter, "host_calls_after_done_in_coroutine": coAfter}
	id := w.Add(lib.Case{Coq: "CGoFail", Input: caseInput{Kind: "custom_ctx"}, Observed: obs, Class: "custom_context/coroutine",
		Nontrivial: true, KF: []string{"C11-10"}})
	if mainAfter > 0 {
		// the main thread polls the attached context itself: never covered by the finding
		id2 := w.Add(lib.Case{Coq: "CGoFail", Input: caseInput{Kind: "custom_ctx"}, Observed: obs, Class: "custom_context/main"})
		w.GoFail(id2, "instructions of the main thread completed after a hand-written context was done")
	}
	if coAfter > 0 {
		w.GoFail(id, "a coroutine kept running after a hand-written context was done (cancellation reaches the derived context asynchronously)")
	}
}
