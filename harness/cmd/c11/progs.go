package main

// The programs: the construct list of the property statement, calibration programs (known bytecode
// shape), the regression corpus, and a generator of small random programs.

import (
	"fmt"
	"strings"

	lua "github.com/yuin/gopher-lua"
	"verifh/lib"
)

type construct struct {
	name   string
	src    string
	noref  bool
	reason string // custom Err() text (main-thread-only programs)
	goloop int
}

var constructList = []construct{
	{name: "tight_loop", reason: "verif stop 7f3a", src: `
local i = 0
while true do i = i + 1 if i % 7 == 0 then emit(i) end end`},
	{name: "tight_loop_silent", noref: true, src: `
local i = 0
while true do i = i + 1 end`},
	// loops whose body compiles to zero instructions: the only instruction executed is the loop's own
	{name: "empty_for_huge", noref: true, src: `
for i = 1, math.huge do end`},
	{name: "empty_for_down_and_tiny_step", noref: true, src: `
for i = 1, 3 do end
for i = 0, -math.huge, -1 do end`},
	{name: "empty_for_step_absorbed", noref: true, src: `
for i = 1, 2, 1e-17 do end`},
	{name: "empty_for_in_pcall_retry", noref: true, src: `
while true do pcall(function() for i = 1, math.huge do end end) end`},
	{name: "empty_for_in_coroutines", noref: true, src: `
local w = coroutine.wrap(function() for i = 1, math.huge do end end)
local co = coroutine.create(function() pcall(w) for i = 1, math.huge do end end)
while true do coroutine.resume(co) co = coroutine.create(function() for i = 1e308, math.huge do end end) end`},
	{name: "empty_while_repeat_goto", noref: true, src: `
pcall(function() while true do end end)
pcall(function() repeat until false end)
::a:: goto a`},
	{name: "for_loops_terminating", reason: "deadline of the harness", src: `
local s = 0
for i = 1, 12 do s = s + i emit(i, s) end
for k, v in pairs({a = 1}) do emit(k, v) end
for i, v in ipairs({5, 6, 7}) do emit(i, v) end
repeat s = s - 7 emit(s) until s < 0
emit("done")`},
	{name: "recursion", src: `
local function f(n) emit(n) if n == 0 then return 0 end return 1 + f(n - 1) end
while true do emit(f(9)) end`},
	{name: "mutual_recursion_varargs", src: `
local even, odd
function even(n, ...) if n == 0 then emit(select('#', ...)) return true end return odd(n - 1, n, ...) end
function odd(n, ...) if n == 0 then return false end local r = even(n - 1, ...) return r end
while true do emit(even(6)) emit(even(7)) end`},
	{name: "tail_calls", src: `
local function f(n) if n % 5 == 0 then emit(n) end return f(n + 1) end
f(0)`},
	{name: "goto_loop", src: `
local i = 0
::top::
i = i + 1
if i % 3 == 0 then emit(i) end
if i % 11 == 0 then goto skip end
i = i + 1
::skip::
goto top`},
	{name: "pcall_retry", src: `
local function f() local i = 0 while true do i = i + 1 emit(i) end end
while true do local ok, e = pcall(f) emit("retry") end`},
	{name: "pcall_retry_error", src: `
local n = 0
local function f() n = n + 1 emit(n) error("boom" .. n) end
while true do local ok, e = pcall(f) emit(ok) end`},
	{name: "xpcall_retry_handler_loops", src: `
local function f() emit("f") error("x") end
local function h(e) emit("h") local i = 0 while true do i = i + 1 emit(i) end end
while true do xpcall(f, h) emit("retry") end`},
	{name: "xpcall_handler_errors", src: `
local n = 0
local function f() n = n + 1 emit("f", n) local t = nil; return t.x end
local function h(e) emit("h") error("in handler") end
while true do local ok, e = xpcall(f, h) emit(ok) end`},
	{name: "xpcall_go_handler", src: `
local function f() local i = 0 while true do i = i + 1 emit(i) if i % 4 == 0 then error("e") end end end
while true do local ok, tb = xpcall(f, debug.traceback) emit(ok) end`},
	{name: "nested_protected", src: `
local function deep(n)
  if n == 0 then local i = 0 while true do i = i + 1 emit(i) end end
  if n % 2 == 0 then pcall(deep, n - 1)
  else xpcall(function() deep(n - 1) end, function(e) emit("h" .. n) return e end) end
  emit("after" .. n)
  return deep(n)
end
deep(5)`},
	{name: "metamethod_recursion", src: `
local t = setmetatable({}, {__index = function(t, k) emit(k) if k >= 14 then return 0 end return t[k + 1] + 1 end})
local c = setmetatable({}, {__call = function(self, n) emit("c" .. n) if n > 0 then return self(n - 1) end return 0 end})
local a = setmetatable({}, {__add = function(x, y) emit("add") return 1 end, __concat = function(x, y) emit("cat") return "s" end,
  __eq = function() emit("eq") return true end, __lt = function() emit("lt") return false end, __tostring = function() emit("ts") return "A" end,
  __newindex = function(t, k, v) emit("ni", k) rawset(t, k, v) end, __len = function() return 3 end, __unm = function() emit("unm") return 0 end})
local b = setmetatable({}, getmetatable(a))
while true do
  emit(t[1]) emit(c(5)) emit(a + 1, a .. "x", a == b, a < b, tostring(a), -a) a.zz = 1 a.zz = nil
end`},
	{name: "coroutine_ping_pong", src: `
local function body(name) return function(x) local i = 0 while true do i = i + 1 emit(name .. i) x = coroutine.yield(i) end end end
local a, b = coroutine.create(body("a")), coroutine.create(body("b"))
while true do local _, x = coroutine.resume(a, 1) local _, y = coroutine.resume(b, x) emit(x + y) end`},
	{name: "coroutine_wrap_generator", src: `
local gen = coroutine.wrap(function() local i = 0 while true do i = i + 1 emit("g" .. i) coroutine.yield(i) end end)
while true do local v = gen() emit(v) end`},
	{name: "coroutine_nested", src: `
local inner = coroutine.wrap(function() local i = 0 while true do i = i + 1 emit("in" .. i) coroutine.yield(i) end end)
local outer = coroutine.create(function() while true do local v = inner() emit("out" .. v) coroutine.yield(v) local ok = pcall(function() emit("p") inner() end) end end)
while true do local ok, v = coroutine.resume(outer) emit(ok, v) end`},
	{name: "coroutine_retry_loops_inside", src: `
local n = 0
while true do
  n = n + 1
  local co = coroutine.create(function() local i = 0 while true do i = i + 1 emit(n, i) if i == 5 then error("co err") end end end)
  local ok, e = coroutine.resume(co) emit(ok)
  local w = coroutine.wrap(function() local i = 0 while true do i = i + 1 emit("w", i) if i == 3 then error("w err") end end end)
  local ok2 = pcall(w) emit(ok2)
  local ok3 = xpcall(coroutine.wrap(function() emit("x") coroutine.yield(1) end), function(e) emit("hh") return e end) emit(ok3)
end`},
	// coroutines that outlive the coroutine that created them (creator returns / dies by error),
	// grandchildren: attaching a context must not change what resuming them does
	{name: "coroutine_outlives_creator", src: `
local inner, winner
local outer = coroutine.create(function()
  inner = coroutine.create(function(a) while true do a = coroutine.yield(a + 1) emit("in", a) end end)
  winner = coroutine.wrap(function() local i = 0 while true do i = i + 1 emit("w", i) coroutine.yield(i) end end)
  emit(coroutine.resume(inner, 1))
  emit(winner())
end)
emit(coroutine.resume(outer)) emit(coroutine.status(outer))
local n = 0
while true do
  n = n + 1
  emit(coroutine.resume(inner, n)) emit(pcall(winner))
  local mk = coroutine.wrap(function()
    local g = coroutine.create(function() local gg = coroutine.wrap(function() while true do emit("gg") coroutine.yield(7) end end)
      while true do emit("g", gg()) coroutine.yield(gg) end end)
    if n % 2 == 0 then error({g}) end
    return g
  end)
  local ok, g = pcall(mk) if not ok then g = g[1] end
  local _, gg = coroutine.resume(g) emit(coroutine.status(g), gg()) emit(coroutine.resume(g))
end`},
	// channel.select with handler functions on every kind of case, in every order (buffered
	// channels, never blocks): with a context the handlers must get the same arguments
	{name: "select_handlers", src: `
local full, empty, half = channel.make(1), channel.make(1), channel.make(2)
full:send("f") half:send("h")
local n = 0
local function h(tag) return function(...) emit(tag, select("#", ...), ...) end end
while true do
  n = n + 1
  emit(channel.select({"<-|", empty, n, h("send-first")})) emit(empty:receive())
  emit(channel.select({"|<-", empty, h("recv-e")}, {"<-|", empty, n, h("send-after-recv")})) emit(empty:receive())
  emit(channel.select({"|<-", empty, h("recv-e")}, {"default", h("default-after-recv")}))
  emit(channel.select({"<-|", full, n, h("send-full")}, {"default", h("default-after-send")}))
  emit(channel.select({"<-|", full, n, h("send-full")}, {"|<-", half, h("recv-after-send")})) half:send(n)
  emit(channel.select({"default", h("default-first")}))
  emit(channel.select({"|<-", full, h("recv-first")})) full:send("f")
  emit(channel.select({"<-|", full, 1}, {"|<-", empty}, {"default"}))
end`},
	{name: "sort_comparator", src: `
local t = {}
while true do
  for i = 1, 9 do t[i] = (i * 7) % 10 end
  table.sort(t, function(a, b) emit(a, b) return a < b end)
  pcall(table.sort, t, function(a, b) emit("e") error("cmp") end)
  emit(t[1], t[9])
end`},
	{name: "gsub_callback", src: `
while true do
  local s = string.gsub("hello world", "%w", function(c) emit(c) return c:upper() end)
  emit(s)
  for w in string.gmatch("a b c", "%a") do emit(w) end
  pcall(string.gsub, "abc", ".", function(c) emit("e" .. c) error("in cb") end)
end`},
	{name: "closures_upvalues_load", src: `
local function counter() local c = 0 return function() c = c + 1 return c end end
local k = counter()
local parts = {"return ", "1 + ", "2"}
while true do
  emit(k())
  local i = 0
  local f = load(function() i = i + 1 emit("rd" .. i) return parts[i] end)
  emit(f())
  emit(loadstring("local a = ... return a * 2")(21))
  emit(unpack({1, 2, 3}))
end`},
	{name: "channels_nonblocking", src: `
local ch = channel.make(4)
local n = 0
while true do
  n = n + 1
  ch:send(n) ch:send(n * 2)
  local ok, v = ch:receive() emit(ok, v)
  local idx, v2 = channel.select({"|<-", ch}, {"default"}) emit(idx, v2)
  local co = coroutine.wrap(function() ch:send(7) local ok, v = ch:receive() emit("co", v) end) co()
end`},
}

// Scripts that need no library at all (only the host function emit): they can be the first call ever
// made on a state created with Options{SkipOpenLibs: true}.
var bareList = []construct{
	{name: "bare_tight_loop", src: `
local i = 0
while true do i = i + 1 if i % 7 == 0 then emit(i) end end`},
	{name: "bare_calls_and_tail_calls", src: `
local function step(n) return n + 1 end
local function spin(n) if n % 9 == 0 then emit(n) end return spin(step(n)) end
local c = 0
for i = 1, 6 do c = step(c) emit(c) end
spin(c)`},
	{name: "bare_recursion_closures", src: `
local function counter() local c = 0 return function() c = c + 1 return c end end
local k = counter()
local function f(n) emit(n) if n == 0 then return 0 end return 1 + f(n - 1) end
while true do emit(f(5), k()) end`},
	{name: "bare_goto_repeat", src: `
local i = 0
repeat i = i + 1 emit("r", i) until i >= 3
::top::
i = i + 1
if i % 3 == 0 then emit(i) end
goto top`},
	{name: "bare_terminating", src: `
local s = 0
for i = 1, 9 do s = s + i emit(i, s) end
local function g(a, ...) local t = {...} return a, #t end
emit(g(1, 2, 3))
local t = {10, 20, x = 1}
t.y = t[1] + t[2] emit(t.y, #t)
emit("done")`},
	{name: "bare_empty_for", noref: true, src: `
for i = 1, 1e308 do end`},
}

// The regression corpus: witnesses of the defects of DESIGN 9.1 for C11 and of those found later.
//
//	C11-1 (fixed): blocking ch:send never returned after cancel -> in runBlocking (kind send).
//	C11-2 (open):  a Go library function that iterates over a callback which catches errors without
//	               executing a Lua instruction itself (here string.gsub with a table whose __index is
//	               pcall) keeps iterating after cancellation: one dispatch attempt per remaining
//	               iteration, unrelated to the call depth.
func corpus(tier string) []job {
	n := 24
	js := []job{{
		// fixed (3317c4c): with a live context a coroutine created inside another coroutine was
		// cancelled when its creator finished
		Name: "inner_coroutine_survives_creator", Class: "corpus/outlives_creator", Cap: 400, AllK: true,
		Src: `
local inner
local outer = coroutine.create(function()
  inner = coroutine.create(function(a) local b = coroutine.yield(a) return b + 1 end)
  return coroutine.resume(inner, 1)
end)
emit(coroutine.resume(outer))
emit(coroutine.status(outer))
emit(coroutine.resume(inner, 1))`,
	}, {
		// fixed (poll after a Go function entered from Go code): C11-2, a Go library loop over an
		// error-catching callback went on after cancellation, one attempt per remaining iteration
		Name: "goloop_gsub_index_pcall", Class: "corpus/goloop_catch", Cap: 400, AllK: true,
		Src: fmt.Sprintf(`
local r = setmetatable({}, {__index = pcall, __call = function(t, k) emit(k) return "y" end})
local s = string.gsub(string.rep("x", %d), ".", r)
emit(s)`, n),
	}, {
		Name: "goloop_sort_pcall_comparator", Class: "corpus/goloop_catch", Cap: 400, AllK: true,
		Src: `
local function f(x) emit("cmp") return false end
local t = {} for i = 1, 12 do t[i] = f end
emit(pcall(table.sort, t, pcall))
emit(pcall(table.sort, t, function(a, b) return select(2, coroutine.resume(coroutine.create(a), b)) end))`,
	}, {
		// fixed: a script whose last action is a tail-called Go function that swallowed the
		// cancellation ended with a nil error (hunt obs-1)
		Name: "tail_pcall_swallows", Class: "corpus/tail_catcher", Cap: 300, AllK: true,
		Src: `return pcall(function() local i = 0 while true do i = i + 1 emit(i) end end)`,
	}, {
		Name: "tail_xpcall_swallows", Class: "corpus/tail_catcher", Cap: 300, AllK: true,
		Src: `return xpcall(function() local i = 0 while true do i = i + 1 emit(i) end end, function(e) emit("h") return e end)`,
	}, {
		Name: "tail_resume_swallows", Class: "corpus/tail_catcher", Cap: 300, AllK: true,
		Src: `
local co = coroutine.create(function() local i = 0 while true do i = i + 1 emit(i) end end)
local function last() return coroutine.resume(co) end
return last()`,
	}, {
		Name: "tail_catchers_nested", Class: "corpus/tail_catcher", Cap: 300, AllK: true,
		Src: `
local function loop() local i = 0 while true do i = i + 1 emit(i) end end
local w = coroutine.wrap(function() return pcall(loop) end)
local function a() return xpcall(w, debug.traceback) end
return pcall(a)`,
	}, {
		// fixed: the reader loop of load never dispatched an instruction (hunt obs-5)
		Name: "load_go_reader", Class: "corpus/goloop_reader", Cap: 200, AllK: true, NoRef: true,
		Src: `return load(os.time)`,
	}, {
		Name: "load_go_reader_in_pcall_retry", Class: "corpus/goloop_reader", Cap: 200, AllK: true, NoRef: true,
		Src: `while true do pcall(load, os.clock) end`,
	}}
	// fixed: a coroutine body driven by the host's L.Resume that ends with a tail-called catcher ended
	// the coroutine normally (ResumeOK, nil error) after a swallowed cancellation (hunt2 obs-2)
	js = append(js, job{Name: "resume_body_tail_pcall", Class: "corpus/tail_catcher", Cap: 200, AllK: true, Mode: "resume",
		Src: `return pcall(function() local i = 0 while true do i = i + 1 emit(i) end end)`})
	js = append(js, job{Name: "coroutine_body_is_go_catcher", Class: "corpus/tail_catcher", Cap: 200, AllK: true,
		Src: `
local function loop() local i = 0 while true do i = i + 1 emit(i) end end
local co = coroutine.wrap(pcall)
local function last() return co(loop) end
emit(pcall(last))
return coroutine.wrap(function() return xpcall(loop, function(e) return e end) end)()`})
	// the host runs the catching builtin itself: CallByParam(P{Fn: pcall}, chunk)
	for _, name := range []string{"tight_loop", "pcall_retry", "coroutine_wrap_generator"} {
		js = append(js, job{Name: name + "/hostpcall", Class: "corpus/host_calls_pcall", Src: srcOf(name), Cap: 120, AllK: true, Mode: "hostpcall"})
	}
	return js
}

func constructs(tier string) []job {
	cap := 300
	if tier == "thorough" {
		cap = 3000
	}
	var js []job
	for _, c := range constructList {
		js = append(js, job{Name: c.name, Class: "construct/" + c.name, Src: c.src, Cap: cap, AllK: true, NoRef: c.noref, Reason: c.reason, GoLoop: c.goloop})
	}
	// the other entry points of the statement: PCall (CallByParam with Protect) and Resume
	acap := 120
	if tier == "thorough" {
		acap = 1000
	}
	for _, name := range []string{"pcall_retry", "xpcall_retry_handler_loops", "nested_protected", "coroutine_ping_pong", "coroutine_nested", "sort_comparator"} {
		for _, c := range constructList {
			if c.name == name {
				for _, mode := range []string{"pcall", "resume"} {
					js = append(js, job{Name: c.name + "/" + mode, Class: "api_" + mode + "/" + c.name, Src: c.src, Cap: acap, AllK: true, Mode: mode})
				}
			}
		}
	}
	js = append(js, job{Name: "resume_yielding_chunk", Class: "api_resume/yielding_chunk", Mode: "resume", Cap: acap, AllK: true, Src: `
local i = 0
while true do i = i + 1 emit(i) local x = coroutine.yield(i) pcall(function() emit("p", x) coroutine.wrap(function() emit("w") end)() end) end`})
	// the context is attached to a Go-created worker thread (the main state has none) and the
	// non-terminating work happens in coroutines the script creates (create, wrap, nested)
	for _, name := range []string{"coroutine_ping_pong", "coroutine_wrap_generator", "coroutine_nested", "coroutine_retry_loops_inside", "empty_for_in_coroutines", "nested_protected"} {
		for _, c := range constructList {
			if c.name == name {
				js = append(js, job{Name: c.name + "/thread", Class: "worker_thread_ctx/" + c.name, Src: c.src, Cap: acap, AllK: true, Mode: "thread", NoRef: c.noref})
			}
		}
	}
	js = append(js, job{Name: "worker_spawns_looping_coroutines", Class: "worker_thread_ctx/spawn", Mode: "thread", Cap: acap, AllK: true, Src: `
local function spin(tag) return function() local n = 0 while true do n = n + 1 if n % 5 == 0 then emit(tag, n) coroutine.yield(n) end end end end
local a = coroutine.wrap(spin("a"))
local b = coroutine.create(function() local inner = coroutine.wrap(spin("in")) while true do emit("b", inner()) coroutine.yield() end end)
while true do emit(a()) emit(coroutine.resume(b)) end`})
	// state construction and attach point (see newEnvS): the cancelled script is the FIRST call ever
	// made on a state built with SkipOpenLibs (no library: the scripts use emit only), the same with
	// the libraries opened without L.Call, a context attached after the first call, a context that
	// replaces another one, and one attached after SetContext/RemoveContext
	for _, c := range bareList {
		js = append(js, job{Name: c.name + "/bare", Class: "state_bare/" + c.name, Src: c.src, Cap: acap, AllK: true, NoRef: c.noref, Setup: "bare"})
	}
	js = append(js, job{Name: "bare_calls_and_tail_calls/bare_pcall", Class: "state_bare/api_pcall", Src: bareList[1].src, Cap: acap, AllK: true, Setup: "bare", Mode: "pcall"})
	js = append(js, job{Name: "bare_tight_loop/bare_late", Class: "state_bare_late/bare_tight_loop", Src: bareList[0].src, Cap: acap, AllK: true, Setup: "bare_late"})
	for _, su := range []struct {
		setup string
		names []string
	}{
		{"bare_libs", []string{"tail_calls", "pcall_retry", "xpcall_retry_handler_loops", "coroutine_ping_pong", "sort_comparator", "metamethod_recursion"}},
		{"replace", []string{"tight_loop", "pcall_retry", "coroutine_wrap_generator"}},
		{"reattach", []string{"goto_loop", "nested_protected", "coroutine_nested"}},
		{"bare_libs_replace", []string{"recursion", "coroutine_retry_loops_inside"}},
	} {
		for _, name := range su.names {
			for _, c := range constructList {
				if c.name == name {
					js = append(js, job{Name: c.name + "/" + su.setup, Class: "state_" + su.setup + "/" + c.name, Src: c.src, Cap: acap, AllK: true, NoRef: c.noref, Reason: c.reason, Setup: su.setup})
				}
			}
		}
	}
	// SetContext; RemoveContext; cancel: nothing polls any more
	js = append(js, job{Name: "remove_context", Class: "remove_context", RemoveCtx: true, Cap: 100000, Ks: []int{-1}, Src: srcOf("for_loops_terminating") + `
local co = coroutine.wrap(function() for i = 1, 3 do emit("co", i) coroutine.yield() end end)
co() co() pcall(function() emit("in") error("x") end)`})
	// calibration: straight-line chunks, one per shape
	shapes := []string{"e", "eeee", "leael", "aaaa", "elelelaeea", "lllleeeeaaaaeeee", "f", "efeg", "Fge", "lfFaGe"}
	if tier == "thorough" {
		shapes = append(shapes, strings.Repeat("ela", 40), strings.Repeat("e", 100), strings.Repeat("al", 60)+"e")
	}
	for i, sh := range []string{"eeee", "elelelaeea", "efeg", "lfFaGe"} {
		js = append(js, job{Name: fmt.Sprintf("calib_bare_%d", i), Class: "calibration_bare", Src: calibSrc(sh), Cap: 2000, AllK: true, Calib: true, Shape: sh, Setup: "bare"})
	}
	for i, sh := range shapes {
		js = append(js, job{Name: fmt.Sprintf("calib_%d", i), Class: "calibration", Src: calibSrc(sh), Cap: 2000, AllK: true, Calib: true, Shape: sh})
	}
	return js
}

func srcOf(name string) string {
	for _, c := range constructList {
		if c.name == name {
			return c.src
		}
	}
	panic("no construct " + name)
}

// calibSrc: straight-line chunk; e = emit(i), l = local xi = i, a = x0 = x0 + i.
func calibSrc(shape string) string {
	var sb strings.Builder
	sb.WriteString("local x0 = 0\n")
	for i, c := range shape {
		switch c {
		case 'e':
			fmt.Fprintf(&sb, "emit(%d)\n", i)
		case 'l':
			fmt.Fprintf(&sb, "local y%d = %d\n", i, i)
		case 'a':
			fmt.Fprintf(&sb, "x0 = x0 + %d\n", i)
		case 'f', 'g', 'F', 'G':
			n, body := calibLoop(c)
			fmt.Fprintf(&sb, "for j%d = 1, %d do %s end\n", i, n, body)
		}
	}
	return sb.String()
}

// calibLoop: f/g = numeric for loops with an EMPTY body (5 / 23 iterations), F/G = with a body that
// emits (3 / 4 iterations).
func calibLoop(c rune) (int, string) {
	switch c {
	case 'f':
		return 5, ""
	case 'g':
		return 23, ""
	case 'F':
		return 3, "emit(0)"
	}
	return 4, "x0 = x0 + 1 emit(x0)"
}

// calibScript lists the classes of the instructions the chunk EXECUTES, in order: 1 = CALL (every
// call of a calibration chunk calls emit), 2 = RETURN, 0 = anything else.  It is derived from the
// compiler's output (proto.Code) by following FORPREP/FORLOOP with the iteration counts known from
// the source -- not from the polling loop.
func calibScript(src, shape string) []int {
	L := lua.NewState()
	fn, err := L.LoadString(src)
	if err != nil {
		return nil
	}
	var counts []int
	for _, c := range shape {
		if strings.ContainsRune("fgFG", c) {
			n, _ := calibLoop(c)
			counts = append(counts, n)
		}
	}
	code := fn.Proto.Code
	sbx := func(inst uint32) int { return int(inst&0x3ffff) - 131071 }
	left := map[int]int{} // FORLOOP pc -> iterations still to run
	nloop := 0
	for pc := 0; pc < len(code); pc++ {
		if int(code[pc]>>26) == lua.OP_FORLOOP {
			if nloop < len(counts) {
				left[pc] = counts[nloop]
			}
			nloop++
		}
	}
	var out []int
	for pc, steps := 0, 0; pc < len(code) && steps < 100000; steps++ {
		inst := code[pc]
		switch int(inst >> 26) {
		case lua.OP_CALL:
			out = append(out, 1)
			pc++
		case lua.OP_RETURN:
			out = append(out, 2)
			return out
		case lua.OP_FORPREP:
			out = append(out, 0)
			pc += 1 + sbx(inst)
		case lua.OP_FORLOOP:
			out = append(out, 0)
			if left[pc] > 0 {
				left[pc]--
				pc += 1 + sbx(inst)
			} else {
				pc++
			}
		default:
			out = append(out, 0)
			pc++
		}
	}
	return out
}

/* random programs ---------------------------------------------------------------------------- */

type gen struct {
	r      *lib.Rand
	n      int // fresh names
	budget int // statements left
}

func (g *gen) fresh(p string) string { g.n++; return fmt.Sprintf("%s%d", p, g.n) }

// block emits a sequence of statements. inCo: directly inside a coroutine body (yield allowed);
// prot: inside some protected call (error allowed freely).
func (g *gen) block(sb *strings.Builder, depth int, inCo, prot bool, ind string) {
	n := g.r.Range(1, 3)
	for i := 0; i < n; i++ {
		g.stmt(sb, depth, inCo, prot, ind)
	}
}

func (g *gen) stmt(sb *strings.Builder, depth int, inCo, prot bool, ind string) {
	g.budget--
	if depth <= 0 || g.budget <= 0 {
		fmt.Fprintf(sb, "%semit(%d)\n", ind, g.r.Intn(100))
		return
	}
	in2 := ind + "  "
	switch g.r.Pick(18, 10, 10, 9, 5, 8, 6, 7, 5, 5, 6, 4, 5) {
	case 0:
		fmt.Fprintf(sb, "%semit(%d)\n", ind, g.r.Intn(100))
	case 1: // loop
		v := g.fresh("i")
		fmt.Fprintf(sb, "%sfor %s = 1, %d do\n", ind, v, g.r.Range(1, 3))
		g.block(sb, depth-1, inCo, prot, in2)
		fmt.Fprintf(sb, "%send\n", ind)
	case 2: // pcall
		fmt.Fprintf(sb, "%semit(pcall(function()\n", ind)
		g.block(sb, depth-1, false, true, in2)
		fmt.Fprintf(sb, "%send))\n", ind)
	case 3: // xpcall with a Lua handler that may do things
		fmt.Fprintf(sb, "%semit((xpcall(function()\n", ind)
		g.block(sb, depth-1, false, true, in2)
		fmt.Fprintf(sb, "%send, function(e)\n", ind)
		g.block(sb, depth-2, false, true, in2)
		fmt.Fprintf(sb, "%s  return e\n%send)))\n", ind, ind)
	case 4: // error
		if prot || g.r.Chance(30) {
			fmt.Fprintf(sb, "%sif emit then error(\"e%d\") end\n", ind, g.r.Intn(100))
		} else {
			fmt.Fprintf(sb, "%semit(\"noerr\")\n", ind)
		}
	case 5: // coroutine driven by resume or wrap
		co := g.fresh("co")
		wrap := g.r.Bool()
		mk := "coroutine.create"
		if wrap {
			mk = "coroutine.wrap"
		}
		fmt.Fprintf(sb, "%slocal %s = %s(function(a)\n", ind, co, mk)
		g.block(sb, depth-1, true, prot, in2)
		fmt.Fprintf(sb, "%send)\n", ind)
		v := g.fresh("j")
		fmt.Fprintf(sb, "%sfor %s = 1, %d do\n", ind, v, g.r.Range(1, 3))
		if wrap {
			fmt.Fprintf(sb, "%s  emit(pcall(%s, %s))\n", ind, co, v)
		} else {
			fmt.Fprintf(sb, "%s  emit(coroutine.resume(%s, %s))\n", ind, co, v)
		}
		fmt.Fprintf(sb, "%send\n", ind)
	case 6: // yield
		if inCo {
			fmt.Fprintf(sb, "%semit(coroutine.yield(%d))\n", ind, g.r.Intn(50))
		} else {
			fmt.Fprintf(sb, "%semit(\"noyield\")\n", ind)
		}
	case 7: // recursion, possibly by tail call
		f := g.fresh("rec")
		fmt.Fprintf(sb, "%slocal function %s(n)\n%s  if n <= 0 then return 0 end\n", ind, f, ind)
		g.block(sb, depth-2, false, prot, in2)
		if g.r.Bool() {
			fmt.Fprintf(sb, "%s  return %s(n - 1)\n%send\n", ind, f, ind)
		} else {
			fmt.Fprintf(sb, "%s  return 1 + %s(n - 1)\n%send\n", ind, f, ind)
		}
		fmt.Fprintf(sb, "%semit(%s(%d))\n", ind, f, g.r.Range(1, 3))
	case 8: // metamethod
		t := g.fresh("mt")
		ev := []string{"__index", "__call", "__add", "__concat", "__unm", "__len"}[g.r.Intn(5)]
		fmt.Fprintf(sb, "%slocal %s = setmetatable({}, {%s = function(a, b)\n", ind, t, ev)
		g.block(sb, depth-2, false, prot, in2)
		fmt.Fprintf(sb, "%s  return 1\n%send})\n", ind, ind)
		use := map[string]string{"__index": "%s.k", "__call": "%s(1)", "__add": "%s + 1", "__concat": "%s .. \"z\"", "__unm": "-%s", "__len": "#%s"}[ev]
		fmt.Fprintf(sb, "%semit("+use+")\n", ind, t)
	case 9: // sort comparator
		fmt.Fprintf(sb, "%stable.sort({3, 1, 2}, function(a, b)\n", ind)
		g.block(sb, depth-2, false, prot, in2)
		fmt.Fprintf(sb, "%s  return a < b\n%send)\n", ind, ind)
	case 10: // gsub callback
		fmt.Fprintf(sb, "%semit((string.gsub(\"ab\", \"%%a\", function(c)\n", ind)
		g.block(sb, depth-2, false, prot, in2)
		fmt.Fprintf(sb, "%s  return c .. c\n%send)))\n", ind, ind)
	case 12: // a coroutine created inside another coroutine and resumed after its creator is dead
		esc, cr := g.fresh("esc"), g.fresh("cr")
		fmt.Fprintf(sb, "%slocal %s\n%slocal %s = coroutine.wrap(function()\n%s  %s = coroutine.create(function(a)\n", ind, esc, ind, cr, ind, esc)
		g.block(sb, depth-1, true, prot, in2+"  ")
		fmt.Fprintf(sb, "%s  end)\n", ind)
		if g.r.Bool() {
			fmt.Fprintf(sb, "%s  emit(coroutine.resume(%s, 0))\n", ind, esc)
		}
		if g.r.Chance(30) {
			fmt.Fprintf(sb, "%s  error(\"creator dies\")\n", ind)
		}
		fmt.Fprintf(sb, "%send)\n%semit(pcall(%s))\n", ind, ind, cr)
		v := g.fresh("j")
		fmt.Fprintf(sb, "%sfor %s = 1, %d do emit(coroutine.resume(%s, %s)) end\n", ind, v, g.r.Range(1, 3), esc, v)
	case 11: // while with break, goto
		v := g.fresh("w")
		fmt.Fprintf(sb, "%slocal %s = 0\n%swhile true do\n%s  %s = %s + 1\n%s  if %s > %d then break end\n", ind, v, ind, ind, v, v, ind, v, g.r.Range(1, 3))
		g.block(sb, depth-1, inCo, prot, in2)
		fmt.Fprintf(sb, "%send\n", ind)
	}
}

func randomProgram(r *lib.Rand) string {
	g := &gen{r: r, budget: 40}
	var sb strings.Builder
	retry := r.Chance(35)
	if retry {
		// endless retry loop around the body: the script never terminates on its own
		sb.WriteString("local round = 0\nwhile true do\n  round = round + 1 emit(\"round\", round)\n  pcall(function()\n")
		g.block(&sb, 4, false, true, "    ")
		sb.WriteString("  end)\nend\n")
	} else {
		g.block(&sb, 4, false, false, "")
		g.block(&sb, 3, false, false, "")
		sb.WriteString("emit(\"end\")\n")
	}
	return sb.String()
}

func randomJobs(r *lib.Rand, tier string) []job {
	n, cap := 100, 1500
	if tier == "thorough" {
		n, cap = 1500, 4000
	}
	var js []job
	for i := 0; i < n; i++ {
		pr := r.Fork()
		js = append(js, job{Name: fmt.Sprintf("random_%d", i), Class: "random", Src: randomProgram(pr), Cap: cap, NK: 20, Seed: pr.U64()})
	}
	return js
}
