package main

// The deterministic context and the instrumented Lua state of the C11 harness.
//
// rootCtx wraps a real context.WithCancel context.  Its Done() counts the calls made by the VM's
// polling loop (identified by the caller being lua.mainLoopWithContext) and, at the k-th such call,
// cancels the real context BEFORE returning its channel: the k-th dispatch attempt is the first one
// that sees Done() closed.  Because Value() delegates to the real context, context.WithCancel (used by
// LState.NewThread) recognises the wrapper as a cancelCtx parent and registers the coroutine's child
// context synchronously, so cancel() reaches every coroutine before it returns (no helper goroutine).
// Coroutine threads poll their own child context; the harness swaps that child for the same counting
// wrapper (hook VerifCtxReplace: sets the context object only, every method delegates, the loop chosen
// by NewThread is not touched).

import (
	"context"
	"fmt"
	"runtime"
	"strings"
	"time"

	lua "github.com/yuin/gopher-lua"
)

type counter struct {
	k       int // fire at the k-th dispatch poll; 0 = never
	n       int // dispatch polls so far
	other   int // Done() calls that are not dispatch polls (NewThread, channel operations)
	fired   bool
	after   int // dispatch polls after the firing one
	cancel  context.CancelFunc
	onPoll  func(th *lua.LState, i int) // before the firing decision of poll i
	onFire  func(th *lua.LState)
	pcCache map[uintptr]int
	kind    int // kind of the poll being handled (see pollKind)
}

// pollKind classifies the caller of Done(): 1 = the poll before an instruction
// (lua.mainLoopWithContext), 2 = the poll after a Go function that ended a dispatch loop
// (lua.pollContextAfterGFunction), 0 = anything else (NewThread, channel operations).
func (c *counter) pollKind() int {
	var pcs [1]uintptr
	// 0 = Callers, 1 = pollKind, 2 = Done, 3 = the caller of Done
	if runtime.Callers(3, pcs[:]) == 0 {
		return 0
	}
	if v, ok := c.pcCache[pcs[0]]; ok {
		return v
	}
	fr, _ := runtime.CallersFrames(pcs[:]).Next()
	v := 0
	switch {
	case strings.HasSuffix(fr.Function, ".pollContextAfterGFunction"):
		v = 2
	case strings.HasSuffix(fr.Function, ".mainLoopWithContext"):
		v = 1
	}
	c.pcCache[pcs[0]] = v
	return v
}

type cctx struct {
	inner  context.Context
	c      *counter
	th     *lua.LState
	reason error // if set: Err() of a done context (main-thread-only programs)
}

func (x *cctx) Deadline() (time.Time, bool) { return x.inner.Deadline() }
func (x *cctx) Value(k any) any             { return x.inner.Value(k) }
func (x *cctx) Err() error {
	e := x.inner.Err()
	if e != nil && x.reason != nil {
		return x.reason
	}
	return e
}

//go:noinline
func (x *cctx) Done() <-chan struct{} {
	c := x.c
	if k := c.pollKind(); k != 0 {
		c.kind = k
		c.n++
		if c.fired {
			c.after++
		}
		if c.onPoll != nil {
			c.onPoll(x.th, c.n)
		}
		if c.n == c.k && !c.fired {
			c.fired = true
			if c.onFire != nil {
				c.onFire(x.th)
			}
			c.cancel()
		}
	} else {
		c.other++
	}
	return x.inner.Done()
}

type reasonErr string

func (r reasonErr) Error() string { return string(r) }

// env is one instrumented state.
type env struct {
	L           *lua.LState
	c           *counter
	root        *cctx
	emits       []string
	emitsAft    int
	maxEmits    int // reference runs: Goexit after this many emits (0 = unlimited)
	pcallFn     *lua.LFunction
	xpcallFn    *lua.LFunction
	loadFn      *lua.LFunction // load runs its reader under PCall (f7b87fa): it catches like pcall
	wrapped     map[*lua.LState]bool
	mustBeFresh bool // setup "bare*": no call may have been made on the state before the script
	notFresh    bool
	worker      *lua.LState // mode "thread": the Go-created thread that carries the context
	noInherit   int         // coroutines created while the creator had a context but which got none
}

const stdReason = "context canceled"

// newEnv builds a state; withCtx attaches the counting context firing at poll k (0: never).
func newEnv(withCtx bool, k int, customReason string) *env {
	return newEnvX(withCtx, k, customReason, false)
}

func newEnvX(withCtx bool, k int, customReason string, removeCtx bool) *env {
	return newEnvM(withCtx, k, customReason, removeCtx, "")
}

// newEnvM: mode "thread" leaves the main state WITHOUT a context and attaches the context to a
// worker thread made by L.NewThread (a per-request context on a Go-created thread); the script is
// then run on that worker through L.Resume.
func newEnvM(withCtx bool, k int, customReason string, removeCtx bool, mode string) *env {
	return newEnvS(withCtx, k, customReason, removeCtx, mode, "")
}

// newEnvS adds the state-construction / attach-point dimension (setup):
//
//	""                 lua.NewState() (its library opening already made calls), SetContext, run
//	"bare"             Options{SkipOpenLibs: true}, no library at all, SetContext BEFORE the very first
//	                   call ever made on the state: the cancelled script is that first call
//	"bare_libs"        same, with the libraries opened by invoking lua.OpenXxx(L) directly (no L.Call)
//	"bare_late"        bare state whose first call is a context-free warm-up; SetContext after it
//	"replace"          SetContext(A); SetContext(ctx); cancel A  (A must have no effect any more)
//	"reattach"         SetContext(A); RemoveContext(); cancel A; SetContext(ctx)
//	"bare_libs_replace" the two combined
func newEnvS(withCtx bool, k int, customReason string, removeCtx bool, mode, setup string) *env {
	e := &env{wrapped: map[*lua.LState]bool{}}
	bare := strings.HasPrefix(setup, "bare")
	L := lua.NewState(lua.Options{SkipOpenLibs: bare})
	if bare && strings.Contains(setup, "libs") {
		for _, open := range []lua.LGFunction{lua.OpenPackage, lua.OpenBase, lua.OpenTable, lua.OpenString,
			lua.OpenMath, lua.OpenDebug, lua.OpenChannel, lua.OpenCoroutine} {
			open(L)
			L.SetTop(0)
		}
	}
	e.L = L
	e.mustBeFresh = bare && !strings.Contains(setup, "late")
	e.pcallFn, _ = L.GetGlobal("pcall").(*lua.LFunction)
	e.xpcallFn, _ = L.GetGlobal("xpcall").(*lua.LFunction)
	e.loadFn, _ = L.GetGlobal("load").(*lua.LFunction)
	L.SetGlobal("emit", L.NewFunction(func(L *lua.LState) int {
		if e.maxEmits > 0 && len(e.emits) >= e.maxEmits {
			runtime.Goexit()
		}
		var sb strings.Builder
		for i := 1; i <= L.GetTop(); i++ {
			if i > 1 {
				sb.WriteByte(',')
			}
			v := L.Get(i)
			switch v.Type() {
			case lua.LTNumber, lua.LTString, lua.LTBool, lua.LTNil:
				sb.WriteString(v.String())
			default:
				sb.WriteString(v.Type().String())
			}
		}
		e.emits = append(e.emits, sb.String())
		if e.c != nil && e.c.fired {
			e.emitsAft++
		}
		return 0
	}))
	if withCtx {
		in, cancel := context.WithCancel(context.Background())
		e.c = &counter{k: k, cancel: cancel, pcCache: map[uintptr]int{}}
		e.root = &cctx{inner: in, c: e.c, th: L}
		if customReason != "" {
			e.root.reason = reasonErr(customReason)
		}
		if strings.Contains(setup, "late") {
			if err := L.DoString(`local warm = 1`); err != nil {
				panic(err)
			}
		}
		if mode != "thread" {
			switch {
			case strings.Contains(setup, "replace"):
				a, cancelA := context.WithCancel(context.Background())
				L.SetContext(a)
				L.SetContext(e.root)
				cancelA()
			case strings.Contains(setup, "reattach"):
				a, cancelA := context.WithCancel(context.Background())
				L.SetContext(a)
				if got := L.RemoveContext(); got != a {
					e.noInherit++
				}
				cancelA()
				L.SetContext(e.root)
			default:
				L.SetContext(e.root)
			}
		}
	} else if strings.Contains(setup, "late") {
		if err := L.DoString(`local warm = 1`); err != nil {
			panic(err)
		}
	}
	if mode == "thread" {
		// the main state has run something (G.MainThread is set) and has no context
		if err := L.DoString(`local warm = 1`); err != nil {
			panic(err)
		}
		e.worker, _ = L.NewThread()
		if withCtx {
			e.root.th = e.worker
			e.worker.SetContext(e.root)
		}
	}
	if withCtx && removeCtx {
		// the context is detached again and then cancelled: the state must behave like one that never had it
		if got := L.RemoveContext(); got != context.Context(e.root) {
			e.noInherit++
		}
		cancel0 := e.c.cancel
		cancel0()
	}
	// coroutine.create / coroutine.wrap: call the real builtin, then give the new thread's own
	// (child) context the counting wrapper.
	co, hasCo := L.GetGlobal("coroutine").(*lua.LTable)
	if !hasCo {
		return e
	}
	origCreate := co.RawGetString("create").(*lua.LFunction)
	origWrap := co.RawGetString("wrap").(*lua.LFunction)
	co.RawSetString("create", L.NewFunction(func(L *lua.LState) int {
		n := L.GetTop()
		L.Push(origCreate)
		for i := 1; i <= n; i++ {
			L.Push(L.Get(i))
		}
		L.Call(n, 1)
		if th, ok := L.Get(-1).(*lua.LState); ok {
			e.adopt(L, th, false)
		}
		return 1
	}))
	co.RawSetString("wrap", L.NewFunction(func(L *lua.LState) int {
		n := L.GetTop()
		L.Push(origWrap)
		for i := 1; i <= n; i++ {
			L.Push(L.Get(i))
		}
		L.Call(n, 1)
		if fn, ok := L.Get(-1).(*lua.LFunction); ok && len(fn.Upvalues) > 0 {
			if th, ok := fn.Upvalues[0].Value().(*lua.LState); ok {
				e.adopt(L, th, true)
			}
		}
		return 1
	}))
	return e
}

func (e *env) adopt(creator, th *lua.LState, wrapped bool) {
	e.wrapped[th] = wrapped
	c := th.Context()
	if creator.Context() != nil && lua.VerifCtxPolls(creator) && (c == nil || !lua.VerifCtxPolls(th)) {
		// NewThread must give the thread a child context and the polling loop
		e.noInherit++
	}
	if c == nil {
		return
	}
	if e.c != nil {
		// swap the child context for a delegating, counting wrapper; the loop selection made by
		// NewThread is left as it is (SetContext would select the polling loop)
		lua.VerifCtxReplace(th, &cctx{inner: c, c: e.c, th: th})
	}
}

// polls: the thread has a context and runs the polling loop.
func polls(th *lua.LState) bool { return th.Context() != nil && lua.VerifCtxPolls(th) }

// snapshot projects the running chain of threads (th, its resumer, ..., the main thread) onto the
// frame tags of Ctx/CancelModel.v, top first.
//
//	L/l  Lua frame on a thread with/without a context     G  Go function (not catching)
//	P    pcall      X<h><r>  xpcall, h in {l: Lua handler, g: Go handler}, r in {t,f}: handler running
//	C<w><p>  coroutine boundary (resume or wrap function in the parent), w wrapped, p child has a context
func (e *env) snapshot(th *lua.LState) []string {
	var out []string
	goHandlerExit := false
	if e.c != nil && e.c.kind == 2 {
		// the poll being handled is the one after a Go function: that function's frame is gone,
		// what is left of it is the entry that polls
		out = append(out, "E")
		goHandlerExit = pollIsAfterGoHandler()
	}
	var child *lua.LState
	for cur := th; cur != nil; cur = cur.Parent {
		frames := lua.VerifCtxFrames(cur)
		flag := polls(cur)
		mark := "e"
		if flag {
			mark = "E"
		}
		// enteredFromGo: frame i was entered through callR (from Go code: host call, library
		// callback, metamethod, iterator, body of a coroutine), i.e. it is the base frame of a dispatch loop
		enteredFromGo := func(i int) bool {
			if i == 0 {
				// the bottom frame of a thread: a host call, or the body of a coroutine (a Go
				// function that ends a coroutine is followed by a poll as well)
				return true
			}
			b := frames[i-1]
			if b.Fn == nil || b.Fn.IsG {
				return true
			}
			return b.Pending != lua.OP_CALL && b.Pending != lua.OP_TAILCALL
		}
		for i := len(frames) - 1; i >= 0; i-- {
			f := frames[i]
			isG := f.Fn == nil || f.Fn.IsG
			switch {
			case !isG && f.Pending == lua.OP_TAILCALL && i+1 < len(frames) && frames[i+1].Fn != nil && frames[i+1].Fn.IsG:
				// pending in a tail call of a Go function: the frame is removed when that function
				// returns and never runs another instruction; if it was the base frame of its
				// dispatch loop the loop polls once more before it ends
				if enteredFromGo(i) {
					out = append(out, mark)
				}
				continue
			case !isG:
				if flag {
					out = append(out, "L")
				} else {
					out = append(out, "l")
				}
				continue
			case f.Fn == nil:
				out = append(out, "G")
			case child != nil && i == len(frames)-1:
				out = append(out, "C"+tf(lua.VerifCtxWrapped(child))+tf(polls(child)))
			case f.Fn == e.pcallFn, e.loadFn != nil && f.Fn == e.loadFn:
				out = append(out, "P")
			case f.Fn == e.xpcallFn:
				h := "g"
				hf, _ := f.Arg2.(*lua.LFunction)
				if hf != nil && !hf.IsG {
					h = "l"
				}
				running := false
				for j := i + 1; j < len(frames) && hf != nil; j++ {
					if frames[j].Fn == hf {
						running = true
					}
				}
				if goHandlerExit && cur == th && h == "g" && !running {
					// the Go function that has just returned is this xpcall's handler (its frame
					// is gone, the Go stack shows PCall's deferred function calling it)
					running = true
					goHandlerExit = false
				}
				out = append(out, "X"+h+tf(running))
			default:
				out = append(out, "G")
			}
			// a Go function entered from Go code: the loop that ran it polls when it returns
			if enteredFromGo(i) {
				out = append(out, mark)
			}
		}
		child = cur
	}
	return out
}

// pollIsAfterGoHandler: the poll after a Go function is being handled; was that function called by
// the deferred function of LState.PCall, i.e. as the error handler of xpcall?  (Go call stack:
// pollContextAfterGFunction <- mainLoopWithContext <- callR <- Call <- PCall.func1.)
func pollIsAfterGoHandler() bool {
	var pcs [24]uintptr
	n := runtime.Callers(2, pcs[:])
	frames := runtime.CallersFrames(pcs[:n])
	state := 0
	for {
		fr, more := frames.Next()
		switch state {
		case 0:
			if strings.HasSuffix(fr.Function, ".callR") {
				state = 1
			}
		case 1:
			if strings.HasSuffix(fr.Function, ".Call") {
				state = 2
			} else if strings.Contains(fr.Function, ".PCall.func1") {
				return !strings.Contains(fr.Function, ".PCall.func1.")
			} else {
				return false
			}
		case 2:
			return strings.Contains(fr.Function, ".PCall.func1") && !strings.Contains(fr.Function, ".PCall.func1.")
		}
		if !more {
			return false
		}
	}
}

func tf(b bool) string {
	if b {
		return "t"
	}
	return "f"
}

// outcome classes of DoString: 0 returned nil, 1 error whose text contains the reason, 2 other error.
func outcome(err error, reason string) (int, string) {
	if err == nil {
		return 0, ""
	}
	s := err.Error()
	if i := strings.Index(s, "\nstack traceback"); i >= 0 {
		s = s[:i]
	}
	if len(s) > 160 {
		s = s[:160]
	}
	if strings.Contains(s, reason) {
		return 1, s
	}
	return 2, s
}

// runScript runs src to completion in a goroutine of its own (reference runs end it with Goexit).
// mode: "" DoString; "pcall" LoadString + CallByParam(Protect); "resume" the chunk is the body of a
// thread made by L.NewThread and driven by L.Resume until it is dead.
func (e *env) runScript(src, mode string) (err error, exited bool) {
	done := make(chan struct{})
	exited = true
	if e.mustBeFresh && e.L.G.MainThread != nil {
		e.notFresh = true
	}
	go func() {
		defer close(done)
		switch mode {
		case "pcall":
			fn, lerr := e.L.LoadString(src)
			if lerr != nil {
				err = lerr
			} else {
				err = e.L.CallByParam(lua.P{Fn: fn, NRet: lua.MultRet, Protect: true})
			}
		case "hostpcall":
			fn, lerr := e.L.LoadString(src)
			if lerr != nil {
				err = lerr
			} else {
				err = e.L.CallByParam(lua.P{Fn: e.pcallFn, NRet: lua.MultRet, Protect: true}, fn)
			}
		case "resume", "thread":
			fn, lerr := e.L.LoadString(src)
			if lerr != nil {
				err = lerr
				break
			}
			th := e.worker
			if mode == "resume" {
				th, _ = e.L.NewThread()
				e.adopt(e.L, th, false)
			}
			for i := 0; ; i++ {
				st, rerr, _ := e.L.Resume(th, fn, lua.LNumber(i))
				if st == lua.ResumeError {
					err = rerr
					break
				}
				if st == lua.ResumeOK {
					break
				}
			}
		default:
			err = e.L.DoString(src)
		}
		exited = false
	}()
	<-done
	return
}

func (e *env) close() {
	if e.c != nil {
		e.c.cancel()
	}
	// L.Close() is not needed for the observations and would run user-visible finalisers only.
}

func joinTags(t []string) string { return strings.Join(t, " ") }

var _ = fmt.Sprint
