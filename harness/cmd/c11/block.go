package main

// Blocking channel operations: the script goroutine parks in receive / select / send; once the Go
// runtime reports it parked (goroutine status "select"/"chan ..." in runtime.Stack, no timing
// involved) another goroutine cancels the context.  Only the verdict "did not return" is time-based
// (the child waits 15 s); the Go scheduler itself is not modelled.

import (
	"encoding/json"
	"fmt"
	"os"
	"runtime"
	"strings"
	"time"

	"verifh/lib"
)

type blockJob struct {
	Name string `json:"name"`
	Src  string `json:"src"`
}

type blockObs struct {
	Parked     string   `json:"parked"` // goroutine status when cancel was called
	Stack      []string `json:"stack"`
	Returned   bool     `json:"returned"`
	PollsAfter int      `json:"polls_after"`
	EmitsAfter int      `json:"emits_after"`
	Outc       int      `json:"outc"`
	Err        string   `json:"err,omitempty"`
	Problem    string   `json:"problem,omitempty"`
}

var blockJobs = []blockJob{
	{"receive", `local ch = channel.make() emit(1) local ok, v = ch:receive() emit("after", ok, v)`},
	{"send", `local ch = channel.make() emit(1) ch:send(1) emit("after")`},
	{"send_buffer_full", `local ch = channel.make(1) ch:send(1) emit(1) ch:send(2) emit("after")`},
	{"select_recv", `local ch = channel.make() emit(1) local i, v = channel.select({"|<-", ch}) emit("after", i)`},
	{"select_send", `local ch = channel.make() emit(1) local i = channel.select({"<-|", ch, 5}) emit("after", i)`},
	{"select_recv_handler", `local ch = channel.make() channel.select({"|<-", ch, function(ok, v) emit("h") end}) emit("after")`},
	{"receive_in_pcall_retry", `local ch = channel.make() while true do local ok = pcall(function() emit("try") ch:receive() emit("after") end) emit(ok) end`},
	{"send_in_xpcall", `local ch = channel.make() while true do xpcall(function() ch:send(1) emit("after") end, function(e) emit("h") return e end) emit("r") end`},
	{"receive_in_coroutine", `local ch = channel.make() local co = coroutine.create(function() ch:receive() emit("after") end) while true do emit(coroutine.resume(co)) end`},
	{"send_in_wrap_in_pcall", `local ch = channel.make() while true do local ok = pcall(coroutine.wrap(function() ch:send(1) emit("after") end)) emit(ok) end`},
	// tail position: the Go function's return leaves the dispatch loop without another poll
	// (fixed 9a7a14e: these ended with a nil error and the results false, nil)
	{"return_receive", `local ch = channel.make() emit(1) return ch:receive()`},
	{"return_send", `local ch = channel.make() emit(1) return ch:send(1)`},
	{"return_select", `local ch = channel.make() emit(1) return channel.select({"|<-", ch}, {"<-|", ch, 1})`},
	{"return_receive_nested_tail_calls", `local ch = channel.make() local function f() return ch:receive() end local function g() return f() end return g()`},
	{"return_receive_in_coroutine_tail", `local ch = channel.make() local co = coroutine.wrap(function() return ch:receive() end) return co()`},
	{"receive_in_sort_comparator", `local ch = channel.make() table.sort({2, 1, 3}, function(a, b) ch:receive() emit("after") return a < b end)`},
}

func runBlocking(w *lib.Writer, tier string) { runBlockJobs(w, blockJobs) }

func (in caseInput) toBlock() blockJob {
	if in.Block != nil {
		return *in.Block
	}
	return blockJob{}
}

func runBlockJobs(w *lib.Writer, jobs []blockJob) {
	for _, bj := range jobs {
		bj := bj
		in, _ := json.Marshal(bj)
		var obs blockObs
		fail := ""
		func() {
			j := job{Name: bj.Name}
			_ = j
			res, f := runRaw("blockchild", in, 5*time.Minute)
			if f != "" {
				fail = f
				return
			}
			if e := json.Unmarshal(res, &obs); e != nil {
				fail = "child produced no result: " + e.Error()
			}
		}()
		cin := caseInput{Kind: "block", Block: &bj}
		if fail == "" && obs.Problem != "" {
			fail = obs.Problem
		}
		if fail != "" {
			id := w.Add(lib.Case{Coq: "CGoFail", Input: cin, Observed: fail, Class: "block/gofail"})
			w.GoFail(id, fail)
			continue
		}
		id := w.Add(lib.Case{
			Coq:   fmt.Sprintf("CBlock %s %s %s %s %s", coqStack(obs.Stack), z(obs.PollsAfter), z(obs.EmitsAfter), z(obs.Outc), lib.CoqBool(obs.Returned)),
			Input: cin, Observed: obs, Class: "block/" + bj.Name, Nontrivial: true,
		})
		if !obs.Returned {
			w.GoFail(id, "blocked channel operation ("+obs.Parked+") did not return after the context was cancelled")
		}
	}
}

func blockChildMain() {
	var bj blockJob
	if err := json.NewDecoder(os.Stdin).Decode(&bj); err != nil {
		os.Exit(3)
	}
	obs := runBlock(bj)
	json.NewEncoder(os.Stdout).Encode(obs)
}

func goroutineStatus(id string) string {
	buf := make([]byte, 1<<18)
	buf = buf[:runtime.Stack(buf, true)]
	s := string(buf)
	key := "goroutine " + id + " ["
	j := strings.Index(s, key)
	if j < 0 {
		return ""
	}
	rest := s[j+len(key):]
	e := strings.IndexAny(rest, "],")
	if e < 0 {
		return ""
	}
	return rest[:e]
}

func runBlock(bj blockJob) blockObs {
	var obs blockObs
	e := newEnv(true, 0, "")
	done := make(chan error, 1)
	gid := make(chan string, 1)
	go func() {
		b := make([]byte, 64)
		b = b[:runtime.Stack(b, false)]
		gid <- strings.Fields(string(b))[1]
		done <- e.L.DoString(bj.Src)
	}()
	id := <-gid
	parked := false
	for i := 0; i < 200000 && !parked; i++ {
		select {
		case err := <-done:
			obs.Problem = fmt.Sprintf("harness bug: script ended before blocking: %v", err)
			return obs
		default:
		}
		st := goroutineStatus(id)
		if strings.HasPrefix(st, "select") || strings.HasPrefix(st, "chan") {
			obs.Parked = st
			parked = true
			break
		}
		runtime.Gosched()
		if i > 1000 {
			time.Sleep(100 * time.Microsecond)
		}
	}
	if !parked {
		obs.Problem = "harness bug: script goroutine never parked"
		return obs
	}
	th := e.L.G.CurrentThread
	if th == nil {
		th = e.L
	}
	e.c.kind = 0 // no poll is being handled: the script goroutine is parked
	obs.Stack = e.snapshot(th)
	if len(obs.Stack) > 0 && obs.Stack[0] == "G" {
		if polls(th) || th.Context() != nil {
			obs.Stack[0] = "B"
		} else {
			obs.Stack[0] = "b"
		}
	}
	e.c.fired = true // the script goroutine is parked; it observes this after the channel close
	e.c.cancel()
	select {
	case err := <-done:
		obs.Returned = true
		obs.Outc, obs.Err = outcome(err, stdReason)
	case <-time.After(15 * time.Second):
		obs.Returned = false
		obs.Outc = -1
	}
	obs.PollsAfter = e.c.after
	obs.EmitsAfter = e.emitsAft
	return obs
}
