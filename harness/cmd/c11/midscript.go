package main

// Contexts attached or removed by a host function WHILE the script is running.

import (
	"context"
	"strings"

	lua "github.com/yuin/gopher-lua"
	"verifh/lib"
)

const midScript = `
emit(1)
switch()
local x = 1 + 1
emit(x)
local co = coroutine.wrap(function() emit("co") coroutine.yield() emit("co2") end)
co() co()
emit(pcall(function() emit("in") error("x") end))
for i = 1, 3 do emit(i) end
emit("end")`

func runMidScript(w *lib.Writer) {
	run := func(withCtx bool, sw func(e *env)) (emits []string, err error) {
		e := newEnvS(withCtx, 0, "", false, "", "")
		e.L.SetGlobal("switch", e.L.NewFunction(func(*lua.LState) int { sw(e); return 0 }))
		err, _ = e.runScript(midScript, "")
		return e.emits, err
	}
	ref, rerr := run(false, func(*env) {})

	// (a) fixed: RemoveContext from a host function made the running polling loop dereference nil
	em, err := run(true, func(e *env) { e.L.RemoveContext() })
	same := rerr == nil && err == nil && eqStrings(ref, em)
	obs := map[string]any{"emits": len(em), "ref_emits": len(ref), "err": errText(err)}
	w.Add(lib.Case{Coq: "CNoFire " + lib.CoqBool(same) + " true", Input: caseInput{Kind: "midscript_remove"}, Observed: obs,
		Class: "midscript/remove_context", Nontrivial: true})

	// (b) open finding C11-9: SetContext (with a context that is already done) from a host function
	// while the script runs on the non-polling loop is not noticed by the frames already running
	done, cancel := context.WithCancel(context.Background())
	cancel()
	emAfter := 0
	var e2 *env
	em2, err2 := run(false, func(e *env) { e2 = e; emAfter = len(e.emits); e.L.SetContext(done) })
	_ = e2
	after := len(em2) - emAfter
	obs2 := map[string]any{"emits_after_attach": after, "err": errText(err2)}
	id := w.Add(lib.Case{Coq: "CGoFail", Input: caseInput{Kind: "midscript_attach"}, Observed: obs2,
		Class: "midscript/set_context", Nontrivial: true, KF: []string{"C11-9"}})
	if after > 0 || err2 == nil || !strings.Contains(err2.Error(), stdReason) {
		w.GoFail(id, "a context attached by a host function while the script is running does not stop it")
	}
}

func errText(err error) string {
	if err == nil {
		return ""
	}
	s := err.Error()
	if len(s) > 120 {
		s = s[:120]
	}
	return s
}
