package main

// Contexts attached or removed by a host function WHILE the script is running.

import (
	"context"
	"runtime"
	"strings"

	lua "github.com/yuin/gopher-lua"
	"verifh/lib"
)

const midScript = `
emit(1)
switch()
local x = 1 + 1
emit(x)
local co = coroutine.wrap(function() emit("co") coroutine.yield() emit("co2") end)
co() co()
emit(pcall(function() emit("in") error("x") end))
for i = 1, 3 do emit(i) end
emit("end")`

func runMidScript(w *lib.Writer) {
	run := func(withCtx bool, sw func(e *env)) (emits []string, err error) {
		e := newEnvS(withCtx, 0, "", false, "", "")
		e.L.SetGlobal("switch", e.L.NewFunction(func(*lua.LState) int { sw(e); return 0 }))
		err, _ = e.runScript(midScript, "")
		return e.emits, err
	}
	ref, rerr := run(false, func(*env) {})

	// (a) fixed: RemoveContext from a host function made the running polling loop dereference nil
	em, err := run(true, func(e *env) { e.L.RemoveContext() })
	same := rerr == nil && err == nil && eqStrings(ref, em)
	obs := map[string]any{"emits": len(em), "ref_emits": len(ref), "err": errText(err)}
	w.Add(lib.Case{Coq: "CNoFire " + lib.CoqBool(same) + " true", Input: caseInput{Kind: "midscript_remove"}, Observed: obs,
		Class: "midscript/remove_context", Nontrivial: true})

	// (b) open finding C11-9: SetContext (with a context that is already done) from a host function
	// while the script runs on the non-polling loop is not noticed by the frames already running
	done, cancel := context.WithCancel(context.Background())
	cancel()
	emAfter := 0
	var e2 *env
	em2, err2 := run(false, func(e *env) { e2 = e; emAfter = len(e.emits); e.L.SetContext(done) })
	_ = e2
	after := len(em2) - emAfter
	obs2 := map[string]any{"emits_after_attach": after, "err": errText(err2)}
	id := w.Add(lib.Case{Coq: "CGoFail", Input: caseInput{Kind: "midscript_attach"}, Observed: obs2,
		Class: "midscript/set_context", Nontrivial: true, KF: []string{"C11-9"}})
	if after > 0 || err2 == nil || !strings.Contains(err2.Error(), stdReason) {
		w.GoFail(id, "a context attached by a host function while the script is running does not stop it")
	}
}

// Coroutines that exist before SetContext (hunt2 obs-1): a coroutine created by an OLD coroutine after
// the context was attached, and the old coroutine itself, must stop (fixed: a thread without a context
// joins the context of the thread that resumes it).  The context is cancelled synchronously by the
// 50th emit; the loops are bounded so that an unfixed tree fails instead of hanging.
const oldCoroutineScript = `
local worker = spawner(function() for i = 1, 4000 do emit("w", i) end return "worker done" end)
emit(pcall(worker))
emit(pcall(oldloop))
emit("end")`

func runOldCoroutines(w *lib.Writer) {
	L := lua.NewState()
	var emits, after int
	var cancel context.CancelFunc
	fired := false
	L.SetGlobal("emit", L.NewFunction(func(*lua.LState) int {
		emits++
		if fired {
			after++
		}
		if emits == 50 && cancel != nil {
			fired = true
			cancel()
		}
		return 0
	}))
	// before SetContext: a spawner coroutine (started, suspended) and a coroutine that will loop
	if err := L.DoString(`
spawner = coroutine.wrap(function(f) while true do f = coroutine.yield(coroutine.wrap(f)) end end)
oldloop = coroutine.wrap(function() coroutine.yield() for i = 1, 4000 do emit("o", i) end end)
oldloop()`); err != nil {
		panic(err)
	}
	ctx, c := context.WithCancel(context.Background())
	cancel = c
	L.SetContext(ctx)
	err := L.DoString(oldCoroutineScript)
	obs := map[string]any{"emits": emits, "emits_after_cancel": after, "err": errText(err)}
	ok := after == 0 && err != nil && strings.Contains(err.Error(), stdReason)
	id := w.Add(lib.Case{Coq: "CNoFire " + lib.CoqBool(ok) + " true", Input: caseInput{Kind: "midscript_oldco"}, Observed: obs,
		Class: "midscript/coroutines_older_than_the_context", Nontrivial: true})
	_ = id
}

// A chain of coroutines each creating its successor and ending, under a live context that is never
// done, must not keep the dead coroutines reachable (hunt2 obs-4: ~100 KB per dead coroutine with the
// first version of fix 3317c4c).
func runCtxChainMemory(w *lib.Writer) {
	heap := func(withCtx bool) uint64 {
		L := lua.NewState()
		if withCtx {
			L.SetContext(context.Background())
		}
		var mb uint64
		// called by the LAST coroutine of the chain while it runs: every predecessor is dead
		L.SetGlobal("probe", L.NewFunction(func(*lua.LState) int {
			runtime.GC()
			runtime.GC()
			var m runtime.MemStats
			runtime.ReadMemStats(&m)
			mb = m.HeapAlloc >> 20
			return 0
		}))
		if err := L.DoString(`
left = 1200
function task()
  left = left - 1
  if left > 0 then pending = coroutine.create(task) else probe() pending = "stop" end
end
pending = coroutine.create(task)
while pending ~= "stop" do coroutine.resume(pending) end`); err != nil {
			panic(err)
		}
		return mb
	}
	without, with := heap(false), heap(true)
	ok := with <= without+25
	obs := map[string]any{"heap_mb_without_context": without, "heap_mb_with_live_context": with}
	w.Add(lib.Case{Coq: "CNoFire " + lib.CoqBool(ok) + " true", Input: caseInput{Kind: "midscript_chainmem"}, Observed: obs,
		Class: "midscript/dead_coroutines_released", Nontrivial: true})
}

func errText(err error) string {
	if err == nil {
		return ""
	}
	s := err.Error()
	if len(s) > 120 {
		s = s[:120]
	}
	return s
}
