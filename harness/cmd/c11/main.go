// c11: correspondence harness for property C11 (cancelling the context stops any script promptly).
package main

import (
	"bytes"
	"context"
	"encoding/json"
	"fmt"
	"os"
	"os/exec"
	"strings"
	"sync"
	"syscall"
	"time"

	lua "github.com/yuin/gopher-lua"
	"verifh/lib"
)

type luaState = lua.LState

func newRand(seed uint64) *lib.Rand { return lib.NewRand(seed) }

const header = "From GL Require Import Ctx.CancelModel Ctx.CancelCases.\nFrom Coq Require Import List ZArith.\nImport ListNotations."

// A hung script spins: the child is limited in CPU seconds (RLIMIT_CPU, robust against a loaded
// machine); the wall-clock limit is only a backstop for a child that sleeps.
var childCPU = 60
var childTimeout = 15 * time.Minute

// runRaw executes this binary with a sub-command in a child process; a crash or a hang is reported,
// not propagated.
func runRaw(sub string, in []byte, limit time.Duration) ([]byte, string) {
	ctx, cancel := context.WithTimeout(context.Background(), limit)
	defer cancel()
	cmd := exec.CommandContext(ctx, os.Args[0], sub)
	cmd.Stdin = bytes.NewReader(in)
	var out, errb bytes.Buffer
	cmd.Stdout = &out
	cmd.Stderr = &errb
	cmd.Env = append(os.Environ(), "GOMEMLIMIT=2GiB", fmt.Sprintf("VERIF_CPU_LIMIT=%d", childCPU))
	err := cmd.Run()
	if ctx.Err() != nil || (err != nil && cmd.ProcessState != nil && strings.Contains(cmd.ProcessState.String(), "signal:")) && childHitCPULimit(cmd) {
		return nil, "hang: the child running this program did not finish within the CPU/time limit (a script kept running or stayed blocked after cancellation)"
	}
	if err != nil {
		msg := errb.String()
		if len(msg) > 400 {
			msg = msg[:400]
		}
		return nil, "crash of the child process: " + err.Error() + ": " + msg
	}
	return out.Bytes(), ""
}

func childHitCPULimit(cmd *exec.Cmd) bool {
	ps := cmd.ProcessState
	return ps != nil && int(ps.UserTime().Seconds()+ps.SystemTime().Seconds()) >= childCPU-2
}

// limitCPU is called first thing in a child.
func limitCPU() {
	var n uint64
	fmt.Sscan(os.Getenv("VERIF_CPU_LIMIT"), &n)
	if n > 0 {
		syscall.Setrlimit(syscall.RLIMIT_CPU, &syscall.Rlimit{Cur: n, Max: n + 2})
	}
}

func runChild(j job) (jobResult, string) {
	in, _ := json.Marshal(j)
	out, fail := runRaw("child", in, childTimeout)
	if fail != "" {
		return jobResult{Name: j.Name}, fail
	}
	var res jobResult
	if e := json.Unmarshal(out, &res); e != nil {
		return jobResult{Name: j.Name}, "child produced no result: " + e.Error()
	}
	return res, ""
}

func coqTag(t string) string {
	b := func(c byte) string {
		if c == 't' {
			return "true"
		}
		return "false"
	}
	switch t[0] {
	case 'L':
		return "TLua true"
	case 'l':
		return "TLua false"
	case 'G':
		return "TGoPlain"
	case 'B':
		return "TGoBlock true"
	case 'b':
		return "TGoBlock false"
	case 'P':
		return "TGoPcall"
	case 'E':
		return "TEntry true"
	case 'e':
		return "TEntry false"
	case 'X':
		h := "HGo"
		if t[1] == 'l' {
			h = "HLua"
		}
		return "TGoXpcall " + h + " " + b(t[2])
	case 'C':
		return "TCo " + b(t[1]) + " " + b(t[2])
	}
	return "TGoPlain"
}

func coqStack(s []string) string {
	it := make([]string, len(s))
	for i, t := range s {
		it[i] = coqTag(t)
	}
	return lib.CoqList(it)
}

type caseInput struct {
	Kind  string    `json:"kind"`
	Job   job       `json:"job"`
	K     int       `json:"k,omitempty"`
	Block *blockJob `json:"block,omitempty"`
}

func nontrivialStack(s []string) bool {
	for _, t := range s {
		if t != "L" && t != "E" {
			return true
		}
	}
	return len(s) >= 3
}

// addJob turns one job's observations into cases.
func addJob(w *lib.Writer, j job, res jobResult, fail string) {
	jin := j
	jin.Ks = nil
	if fail != "" {
		id := w.Add(lib.Case{Coq: "CGoFail", Input: caseInput{Kind: "job", Job: jin}, Observed: fail, Class: j.Class + "/gofail", KF: kfOf(j)})
		w.GoFail(id, fail)
		return
	}
	if res.CompileErr != "" {
		id := w.Add(lib.Case{Coq: "CGoFail", Input: caseInput{Kind: "job", Job: jin}, Observed: res.CompileErr, Class: j.Class + "/gofail"})
		w.GoFail(id, "program could not be run: "+res.CompileErr)
		return
	}
	if j.RemoveCtx {
		ok := res.Terminated && res.TracePolls == 0 && res.NoInherit == 0
		w.Add(lib.Case{
			Coq:      fmt.Sprintf("CNoFire %s %s", lib.CoqBool(res.SameAsRef), lib.CoqBool(ok)),
			Input:    caseInput{Kind: "removectx", Job: jin},
			Observed: map[string]any{"same_as_ref": res.SameAsRef, "polls": res.TracePolls, "terminated": res.Terminated},
			Class:    j.Class, Nontrivial: res.RefEmits > 0,
		})
		return
	}
	if res.Terminated && !j.NoRef {
		// the whole run with a context that never fires = the run without a context
		w.Add(lib.Case{
			Coq:      fmt.Sprintf("CNoFire %s %s", lib.CoqBool(res.SameAsRef), lib.CoqBool(true)),
			Input:    caseInput{Kind: "nofire", Job: jin},
			Observed: map[string]any{"same_as_ref": res.SameAsRef, "polls": res.TracePolls, "emits": res.RefEmits, "outc": res.RefOutc},
			Class:    j.Class + "/nofire", Nontrivial: res.RefEmits > 0,
		})
	}
	for _, o := range res.Runs {
		in := caseInput{Kind: "fire", Job: jin, K: o.K}
		in.Job.Ks = []int{o.K}
		if o.NoInherit > 0 {
			id := w.Add(lib.Case{Coq: "CGoFail", Input: in, Observed: o, Class: j.Class + "/gofail"})
			w.GoFail(id, "a coroutine created while its creator had a context got no context (NewThread did not derive a child)")
			continue
		}
		if j.Calib {
			w.Add(lib.Case{
				Coq:   fmt.Sprintf("CCalib %s %s %s %s %s", lib.CoqZList(toI64(res.Script)), z(o.K), z(o.EmitsBefore+o.EmitsAfter), z(o.PollsTotal), z(o.Outc)),
				Input: in, Observed: o, Class: j.Class, Nontrivial: o.Fired && o.K > 1,
			})
			continue
		}
		if !o.Fired {
			w.Add(lib.Case{
				Coq:   fmt.Sprintf("CNoFire %s %s", lib.CoqBool(o.PrefixOK), lib.CoqBool(o.TraceOK)),
				Input: in, Observed: o, Class: j.Class + "/nofire", Nontrivial: false,
			})
			continue
		}
		goChoices, fuel := "[]", 0
		w.Add(lib.Case{
			Coq: fmt.Sprintf("CFire %s %s %s %s %s %s %s %s", coqStack(o.Stack), goChoices, z(fuel),
				lib.CoqBool(o.TraceOK), lib.CoqBool(o.PrefixOK), z(o.PollsAfter), z(o.EmitsAfter), z(o.Outc)),
			Input: in, Observed: o, Class: j.Class, Nontrivial: nontrivialStack(o.Stack), KF: kfOf(j),
		})
	}
}

func z(i int) string { return lib.CoqZ(int64(i)) }

func kfOf(j job) []string { return nil }

func toI64(a []int) []int64 {
	out := make([]int64, len(a))
	for i, x := range a {
		out[i] = int64(x)
	}
	return out
}

func runJobs(w *lib.Writer, jobs []job) {
	type slot struct {
		res  jobResult
		fail string
	}
	out := make([]slot, len(jobs))
	var wg sync.WaitGroup
	sem := make(chan struct{}, 8)
	for i := range jobs {
		wg.Add(1)
		go func(i int) {
			defer wg.Done()
			sem <- struct{}{}
			defer func() { <-sem }()
			out[i].res, out[i].fail = runChild(jobs[i])
		}(i)
	}
	wg.Wait()
	depth := 0
	for i := range jobs {
		addJob(w, jobs[i], out[i].res, out[i].fail)
		if out[i].res.MaxDepth > depth {
			depth = out[i].res.MaxDepth
		}
	}
	if w.Meta.Extra == nil {
		w.Meta.Extra = map[string]any{}
	}
	if d, ok := w.Meta.Extra["max_depth_seen"].(int); !ok || depth > d {
		w.Meta.Extra["max_depth_seen"] = depth
	}
}

func main() {
	if len(os.Args) >= 2 && os.Args[1] == "child" {
		limitCPU()
		childMain()
		return
	}
	if len(os.Args) >= 2 && os.Args[1] == "blockchild" {
		limitCPU()
		blockChildMain()
		return
	}
	a := lib.ParseArgs()
	if a.Cmd != "run" {
		fmt.Fprintln(os.Stderr, "unknown command", a.Cmd)
		os.Exit(2)
	}
	w, err := lib.NewWriter(a.Out, "C11", a.Tier, a.Seed, header, "case", 400)
	if err != nil {
		panic(err)
	}
	w.Meta.Rule = "each program is run by the real VM under a counting context.Context whose Done() is closed at the k-th call made by mainLoopWithContext, " +
		"for every k up to the tier's cap (constructs) or 20 sampled k (random programs); observed per (program,k): abstract frame stack at the firing poll, polls and emit calls after it, " +
		"final error, emit trace vs the context-free run; blocked channel operations are cancelled from another goroutine once the script goroutine is parked; " +
		"non-trivial = the firing poll finds a protected call, coroutine boundary or Go library frame on the stack, or call depth >= 3; distinct by Gallina term"
	if a.Tier == "thorough" {
		childCPU = 400
		childTimeout = 40 * time.Minute
	}
	if a.Replay != "" {
		replay(w, a.Replay)
	} else {
		r := lib.NewRand(a.Seed)
		runJobs(w, corpus(a.Tier))
		runJobs(w, constructs(a.Tier))
		runJobs(w, randomJobs(r, a.Tier))
		runBlocking(w, a.Tier)
		runMidScript(w)
		runOldCoroutines(w)
		runCtxChainMemory(w)
		runCustomCtx(w)
	}
	if err := w.Close(); err != nil {
		panic(err)
	}
}

func replay(w *lib.Writer, file string) {
	b, err := os.ReadFile(file)
	if err != nil {
		panic(err)
	}
	var rp struct {
		Input caseInput `json:"input"`
	}
	if err := json.Unmarshal(b, &rp); err != nil {
		panic(err)
	}
	switch rp.Input.Kind {
	case "midscript_remove", "midscript_attach":
		runMidScript(w)
	case "midscript_oldco":
		runOldCoroutines(w)
	case "midscript_chainmem":
		runCtxChainMemory(w)
	case "custom_ctx":
		runCustomCtx(w)
	case "block":
		runBlockJobs(w, []blockJob{rp.Input.toBlock()})
	default:
		runJobs(w, []job{rp.Input.Job})
	}
}

var _ = strings.TrimSpace
