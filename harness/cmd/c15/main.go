// c15: correspondence harness for property C15 (string and math functions).
package main

import (
	"fmt"
	"os"

	"verifh/lib"
)

const header = "From GL Require Import Common.Bytes Str.StrModel Str.FormatModel Str.MathWModel Str.StrCases."

func main() {
	if len(os.Args) == 4 && os.Args[1] == "child-rep" {
		childRep(os.Args[2], os.Args[3])
		return
	}
	a := lib.ParseArgs()
	if a.Cmd != "run" {
		fmt.Fprintln(os.Stderr, "unknown command", a.Cmd)
		os.Exit(2)
	}
	w, err := lib.NewWriter(a.Out, "C15", a.Tier, a.Seed, header, "case", 400)
	if err != nil {
		panic(err)
	}
	w.Meta.Rule = "string.sub/byte/find(plain)/rep/reverse/upper/lower/len/char called through CallByParam on the real library; " +
		"bounded-exhaustive over strings of length<=3 on {00,'a','Z',7f,ff} x index window [-len-2,len+2] (quick: PRNG sample of it) plus random strings over all 256 bytes; " +
		"non-trivial = non-empty subject and at least one index argument outside 1..len or negative, or a byte >= 0x80; distinct by Gallina term"
	r := lib.NewRand(a.Seed)
	if a.Replay != "" {
		replay(w, a.Replay)
	} else {
		corpus(w)
		fmtCorpus(w)
		mathCorpus(w)
		spellRand = lib.NewRand(a.Seed ^ 0x5e11)
		genStrings(w, r, a.Tier)
		spellRand = nil
		genFormat(w, r.Fork(), a.Tier)
		genMath(w, r.Fork(), a.Tier)
	}
	if err := w.Close(); err != nil {
		panic(err)
	}
}
