package main

import (
	"verifh/lib"
)

// ---------- length boundaries (wave 5) ----------
//
// The random strings of genStrings are at most 12 bytes long and string.rep is asked for at most 5
// copies: a fast path, lookup window or buffer step that starts at an internal limit (16, 32, 64,
// 256 bytes; a doubling loop in rep; the initial stack segment for multiple results) is never
// entered.  This stream runs every function on subjects whose length sits on and next to the powers
// of two, with the index/pattern arguments at the far end of the subject.

func boundaryString(r *lib.Rand, n int) []byte {
	switch r.Intn(3) {
	case 0: // periodic: a plain find has many partial matches
		s := make([]byte, n)
		for i := range s {
			s[i] = "ab"[i%2]
		}
		if n > 0 && r.Bool() {
			s[n-1] = 'c'
		}
		return s
	case 1: // letters (upper/lower change every byte), a few high bytes
		s := r.Bytes(n, []byte("azAZmM@[`{"))
		if n > 2 {
			s[r.Intn(n)] = 0xff
			s[r.Intn(n)] = 0x80
		}
		return s
	}
	return r.Bytes(n, nil)
}

func genStringBoundaries(w *lib.Writer, r *lib.Rand, tier string) {
	lens := []int{15, 16, 17, 31, 32, 33, 63, 64, 65, 127, 128, 129, 255, 256, 257}
	whole := []string{"reverse", "upper", "lower", "len"}
	for _, n := range lens {
		s := boundaryString(r, n)
		hs := lib.Hex(s)
		l := int64(n)
		for k := 0; k < 2; k++ {
			runCase(w, in{Fn: whole[r.Intn(len(whole))], S: hs})
		}
		if tier == "thorough" {
			for _, fn := range whole {
				runCase(w, in{Fn: fn, S: hs})
			}
		}
		// sub/byte with both ends near the far end of the subject
		ends := [][]int64{{1, l}, {1, -1}, {2, -2}, {l, l}, {-1, -1}, {-l, l}, {l + 1, l + 1}, {l - 1, l + 5}, {-l - 1, 1}, {l / 2, l/2 + 1}, {0, l}}
		e := ends[r.Intn(len(ends))]
		runCase(w, in{Fn: "sub", S: hs, Args: e})
		e = ends[r.Intn(len(ends))]
		runCase(w, in{Fn: "sub", S: hs, Args: e[:1]})
		runCase(w, in{Fn: "byte", S: hs, Args: []int64{1, -1}}) // n results
		runCase(w, in{Fn: "byte", S: hs, Args: []int64{l}})
		// plain find: the pattern is the tail of the subject (the only match is at the last possible
		// position), the tail with its last byte changed, the whole subject, one byte more than it
		for k := 0; k < 3; k++ {
			pl := []int{1, 2, 7, 8, 9, 15, 16, 17, 31, 32, 33, 63, 64, 65, n - 1, n}[r.Intn(16)]
			if pl > n {
				pl = n
			}
			if pl < 1 {
				pl = 1
			}
			p := append([]byte{}, s[n-pl:]...)
			init := []int64{1, l - int64(pl) + 1, l - int64(pl) + 2, -int64(pl), -int64(pl) + 1, l, l + 1}[r.Intn(7)]
			switch r.Intn(4) {
			case 0:
				p[pl-1] ^= 1 // near miss
			case 1:
				p = append(p, 'x') // runs over the end
			}
			runCase(w, in{Fn: "find", S: hs, P: lib.Hex(p), Args: []int64{init}})
		}
		runCase(w, in{Fn: "find", S: hs, P: hs, Args: []int64{1}})
	}
	// rep: counts on and next to the powers of two (a doubling loop), short and empty subjects
	for _, n := range []int64{6, 7, 8, 9, 15, 16, 17, 31, 32, 33, 63, 64, 65, 100, 127, 128, 129, 255, 256, 257} {
		s := boundaryString(r, r.Range(0, 3))
		if r.Chance(80) && len(s) == 0 {
			s = []byte{'x'}
		}
		runCase(w, in{Fn: "rep", S: lib.Hex(s), Args: []int64{n}})
	}
	// char with many arguments, a few long subjects
	for _, n := range []int{64, 255, 257, 300} {
		cs := make([]int64, n)
		for i := range cs {
			cs[i] = int64(r.Intn(256))
		}
		runCase(w, in{Fn: "char", Args: cs})
	}
	long := []int{1023, 1024, 1025}
	if tier == "thorough" {
		long = append(long, 4095, 4096, 4097)
	}
	for _, n := range long {
		s := boundaryString(r, n)
		hs := lib.Hex(s)
		runCase(w, in{Fn: whole[r.Intn(3)], S: hs})
		runCase(w, in{Fn: "find", S: hs, P: lib.Hex(s[n-33:]), Args: []int64{int64(r.Range(1, n-40))}})
		runCase(w, in{Fn: "sub", S: hs, Args: []int64{int64(n - 2), -1}})
	}
}
