package main

import (
	"fmt"
	"math"
	"strconv"
	"strings"

	lua "github.com/yuin/gopher-lua"
	"verifh/lib"
)

// ---------- string.format ----------

// fmtArg is one argument of a string.format call: a number (IEEE bits, hex) or a byte string.
type fmtArg struct {
	K    string `json:"k"`              // "num" | "str"
	Bits string `json:"bits,omitempty"` // hex of math.Float64bits
	S    string `json:"s_hex,omitempty"`
}

type fmtIn struct {
	Fn   string   `json:"fn"` // "format"
	F    string   `json:"f_hex"`
	Args []fmtArg `json:"fargs"`
}

func numArg(f float64) fmtArg { return fmtArg{K: "num", Bits: strconv.FormatUint(math.Float64bits(f), 16)} }
func strArg(s []byte) fmtArg  { return fmtArg{K: "str", S: lib.Hex(s)} }

func (a fmtArg) float() float64 {
	u, _ := strconv.ParseUint(a.Bits, 16, 64)
	return math.Float64frombits(u)
}

// coqNum prints a float64 as the model's exact dyadic `num`.
func coqNum(f float64) string {
	if math.IsNaN(f) {
		return "NNaN"
	}
	if math.IsInf(f, 0) {
		return "(NInf " + lib.CoqBool(f < 0) + ")"
	}
	b := math.Float64bits(f)
	neg := b>>63 == 1
	ex := int64((b >> 52) & 0x7ff)
	m := b & (1<<52 - 1)
	var e int64
	if ex == 0 {
		e = -1074
	} else {
		m |= 1 << 52
		e = ex - 1075
	}
	if m == 0 {
		e = 0
	}
	for m != 0 && m%2 == 0 {
		m /= 2
		e++
	}
	return fmt.Sprintf("(NFin %s %d %s)", lib.CoqBool(neg), m, lib.CoqZ(e))
}

// coqArg prints an argument. A string given to a numeric conversion is printed as
// AConv s (tonumber s): the string -> number conversion is C16's subject and is taken from the real
// tonumber here.
func coqArg(a fmtArg, numericVerb bool) string {
	if a.K == "num" {
		return "(ANum " + coqNum(a.float()) + ")"
	}
	if !numericVerb {
		return "(AStr " + lib.CoqBytes(unhex(a.S)) + ")"
	}
	conv := "None"
	if n, ok := realToNumber(unhex(a.S)); ok {
		conv = "(Some " + coqNum(n) + ")"
	}
	return "(AConv " + lib.CoqBytes(unhex(a.S)) + " " + conv + ")"
}

func realToNumber(s []byte) (float64, bool) {
	L := state()
	top := L.GetTop()
	defer L.SetTop(top)
	if err := L.CallByParam(lua.P{Fn: L.GetGlobal("tonumber"), NRet: 1, Protect: true}, lua.LString(string(s))); err != nil {
		return 0, false
	}
	n, ok := L.Get(-1).(lua.LNumber)
	return float64(n), ok
}

// dirSpec mirrors FormatModel.dspec for the known-finding matchers and the non-triviality rule.
type dirSpec struct {
	minus, plus, space, sharp, zero bool
	width, prec                      int // -1 = absent
	verb                             byte
}

// parseDirs mirrors parse_fmt/scan_dir: the directives of a format string (ok=false: malformed).
func parseDirs(f []byte) (ds []dirSpec, ok bool) {
	i := 0
	for i < len(f) {
		if f[i] != '%' {
			i++
			continue
		}
		if i+1 < len(f) && f[i+1] == '%' {
			i += 2
			continue
		}
		i++
		d := dirSpec{width: -1, prec: -1}
	flags:
		for i < len(f) {
			switch f[i] {
			case '-':
				d.minus = true
			case '+':
				d.plus = true
			case ' ':
				d.space = true
			case '#':
				d.sharp = true
			case '0':
				d.zero = true
			default:
				break flags
			}
			i++
		}
		for i < len(f) && f[i] >= '0' && f[i] <= '9' {
			if d.width < 0 {
				d.width = 0
			}
			d.width = d.width*10 + int(f[i]-'0')
			i++
		}
		if i < len(f) && f[i] == '.' {
			i++
			d.prec = 0
			for i < len(f) && f[i] >= '0' && f[i] <= '9' {
				d.prec = d.prec*10 + int(f[i]-'0')
				i++
			}
		}
		if i >= len(f) {
			return ds, false
		}
		d.verb = f[i]
		i++
		ds = append(ds, d)
	}
	return ds, true
}

// supported mirrors the domain on which fmt_dir is defined (Some): the harness drops the rest.
func supported(d dirSpec, a fmtArg) bool {
	if strings.ContainsRune("q", rune(d.verb)) {
		return false // defined by lstrlib, not modelled
	}
	if !strings.ContainsRune("dicuxXoeEfgGs", rune(d.verb)) {
		return true // not a conversion of lstrlib: the call must raise 'invalid option'
	}
	if a.K == "str" {
		return true // %s takes it as it is, a numeric conversion converts it or raises
	}
	if d.verb == 's' {
		f := a.float()
		return f == math.Trunc(f) && math.Abs(f) < 9.2e18
	}
	return true
}

// kfTags: the matchers of the open findings, evaluated on the input alone. C15-8, C15-11 and C15-12
// are repaired in the code; nothing is open for string.format.
func kfTags(ds []dirSpec, args []fmtArg) []string { return nil }

func fmtNontrivial(ds []dirSpec, args []fmtArg) bool {
	for i, d := range ds {
		if d.minus || d.plus || d.space || d.sharp || d.zero || d.width > 0 || d.prec >= 0 {
			return true
		}
		if i < len(args) {
			a := args[i]
			if a.K == "num" {
				f := a.float()
				if f < 0 || f != math.Trunc(f) || math.Abs(f) >= 1<<31 {
					return true
				}
			} else {
				for _, c := range unhex(a.S) {
					if c >= 0x80 || c == 0 {
						return true
					}
				}
			}
		}
	}
	return len(ds) != len(args)
}

func runFormat(w *lib.Writer, c fmtIn) {
	f := unhex(c.F)
	ds, ok := parseDirs(f)
	if !ok {
		w.Meta.Discarded++
		return
	}
	for i, d := range ds {
		if i < len(c.Args) && !supported(d, c.Args[i]) {
			w.Meta.Discarded++
			return
		}
		if i >= len(c.Args) && strings.ContainsRune("q", rune(d.verb)) {
			w.Meta.Discarded++
			return
		}
	}
	largs := []lua.LValue{lua.LString(string(f))}
	cargs := make([]string, len(c.Args))
	for i, a := range c.Args {
		if a.K == "num" {
			largs = append(largs, lua.LNumber(a.float()))
		} else {
			largs = append(largs, lua.LString(string(unhex(a.S))))
		}
		cargs[i] = coqArg(a, i < len(ds) && ds[i].verb != 's')
	}
	res, errs := call("format", largs...)
	class := "format:multi"
	if len(ds) == 1 {
		class = "format:%" + string(ds[0].verb)
	} else if len(ds) == 0 {
		class = "format:literal"
	}
	if len(ds) > len(c.Args) {
		class = "format:missing-arg"
	}
	kc := lib.Case{Input: c, Class: class, Nontrivial: fmtNontrivial(ds, c.Args), KF: kfTags(ds, c.Args)}
	id := w.NextID()
	obs := ""
	if errs != "" {
		if len(errs) > 120 {
			errs = errs[:120]
		}
		kc.Observed = map[string]any{"error": errs}
		obs = "FErr"
	} else if len(res) == 1 {
		s, ok := res[0].(lua.LString)
		if !ok {
			w.GoFail(id, "string.format returned a non-string")
		}
		kc.Observed = lib.Hex([]byte(string(s)))
		obs = "(FOk " + lib.CoqBytes([]byte(string(s))) + ")"
	} else {
		w.GoFail(id, "string.format: expected exactly one result")
		obs = "FUnsupported"
	}
	kc.Coq = fmt.Sprintf("CFormat %s %s %s", lib.CoqBytes(f), lib.CoqList(cargs), obs)
	w.Add(kc)
}

// ---------- generators ----------

func dirString(d dirSpec) string {
	var sb strings.Builder
	sb.WriteByte('%')
	if d.minus {
		sb.WriteByte('-')
	}
	if d.plus {
		sb.WriteByte('+')
	}
	if d.space {
		sb.WriteByte(' ')
	}
	if d.sharp {
		sb.WriteByte('#')
	}
	if d.zero {
		sb.WriteByte('0')
	}
	if d.width >= 0 {
		sb.WriteString(strconv.Itoa(d.width))
	}
	if d.prec >= 0 {
		sb.WriteByte('.')
		sb.WriteString(strconv.Itoa(d.prec))
	}
	sb.WriteByte(d.verb)
	return sb.String()
}

var fmtWidths = []int{-1, 0, 1, 5, 12}
var fmtPrecs = []int{-1, 0, 1, 3, 17}

var intPool = []float64{0, 1, -1, 7, -8, 10, 255, -255, 65, 200, 256, 12345, -12345, 99999, 100000,
	1 << 31, -(1 << 31), 1 << 53, -(1 << 53), 1<<53 - 1, 1<<53 + 2, 9223372036854774784, -9223372036854775808,
	3.7, -3.7, 0.5, -0.5, 1e15, math.Copysign(0, -1)}

var floatPool = []float64{0, math.Copysign(0, -1), 1, -1, 0.5, 1.5, 2.5, 3.5, 0.1, 1.0 / 3, 2.0005, 123456.789,
	1e15, 1e16, 9.9999995, 0.000123, 5e-324, 2.2250738585072014e-308, math.MaxFloat64, -math.MaxFloat64,
	1e100, 1e-100, 999999.5, 9.5, 0.95, 0.05, 0.25, 0.125, 0.375, 99.5, 9.999999999999999e22, 1e23, 1 << 53,
	1<<53 + 2, 4.35, 0.045, 1e-7, 123456789012345678, -2.5, -0.1, 6.02214076e23, 1.7976931348623157e308 / 3}

// strings given to numeric conversions: convertible spellings and near misses
var numStrPool = []string{"42", "-7", " 10 ", "0x10", "1e2", "3.75", "-0.5", "0010", ".5", "abc", "", "12abc", "1e", "0x", "-"}

func strPool() [][]byte {
	all := make([]byte, 256)
	for i := range all {
		all[i] = byte(i)
	}
	long := []byte(strings.Repeat("0123456789", 15))
	return [][]byte{{}, []byte("a"), []byte("abc"), []byte("hello world"), []byte("\xc3\xa9"),
		[]byte("\xc3\xa9\xc3\xa9x"), {0xff, 0xfe}, []byte("x\x00y"), all, long, []byte("%d"), []byte("  sp  "),
		[]byte("\xe2\x82\xac12"), {0x80}}
}

func randFloat(r *lib.Rand) float64 {
	for {
		var f float64
		switch r.Intn(4) {
		case 0:
			f = math.Float64frombits(r.U64())
		case 1:
			f = float64(int64(r.U64()>>uint(r.Intn(60)))) / float64(int64(1)<<uint(r.Intn(20)))
		case 2:
			f = float64(r.Range(-100000, 100000)) / 1000
		default:
			f = float64(r.Range(1, 999999)) * math.Pow(10, float64(r.Range(-30, 30)))
		}
		if !math.IsNaN(f) && !math.IsInf(f, 0) {
			if r.Bool() {
				f = -f
			}
			return f
		}
	}
}

func randInt(r *lib.Rand) float64 {
	v := float64(int64(r.U64() >> uint(r.Range(1, 63))))
	if r.Bool() {
		v = -v
	}
	return v
}

// argsFor: the argument pool of one verb (boundary values first).
func argsFor(verb byte, r *lib.Rand, nrand int) []fmtArg {
	var out []fmtArg
	switch verb {
	case 'd', 'i', 'x', 'X', 'o', 'u':
		if verb != 'd' && verb != 'i' { // unsigned conversions reach up to 2^64
			out = append(out, numArg(1<<63), numArg(1<<63+1<<62), numArg(18446744073709549568))
		}
		for _, v := range intPool {
			out = append(out, numArg(v))
		}
		for i := 0; i < nrand; i++ {
			out = append(out, numArg(randInt(r)))
		}
		for _, t := range numStrPool {
			out = append(out, strArg([]byte(t)))
		}
	case 'c':
		for _, v := range []float64{0, 10, 37, 65, 127, 128, 200, 255, 256, 321, -1, 65.9} {
			out = append(out, numArg(v))
		}
		for i := 0; i < nrand; i++ {
			out = append(out, numArg(float64(r.Intn(256))))
		}
	case 'e', 'E', 'f', 'g', 'G':
		for _, v := range floatPool {
			out = append(out, numArg(v))
		}
		out = append(out, numArg(math.Inf(1)), numArg(math.Inf(-1)), numArg(math.NaN()))
		for _, t := range numStrPool {
			out = append(out, strArg([]byte(t)))
		}
		for i := 0; i < nrand; i++ {
			out = append(out, numArg(randFloat(r)))
		}
	case 's':
		for _, s := range strPool() {
			out = append(out, strArg(s))
		}
		out = append(out, numArg(42), numArg(-7), numArg(1<<53))
		for i := 0; i < nrand; i++ {
			out = append(out, strArg(r.Bytes(r.Range(0, 20), nil)))
		}
	}
	return out
}

func h(s string) string { return lib.Hex([]byte(s)) }

func fmtCorpus(w *lib.Writer) {
	n := numArg
	for _, c := range []fmtIn{
		{F: h("%c"), Args: []fmtArg{n(200)}},                            // C15-6 (fixed)
		{F: h("%5c|%-5c|"), Args: []fmtArg{n(255), n(0)}},               //
		{F: h("%x %o %X"), Args: []fmtArg{n(-1), n(-8), n(-255)}},       // C15-7 (fixed)
		{F: h("%#x"), Args: []fmtArg{n(0)}},                             // C15-8 (fixed)
		{F: h("%#05x"), Args: []fmtArg{n(10)}},                          // C15-8 (fixed)
		{F: h("%#x %#o %#X"), Args: []fmtArg{n(255), n(8), n(255)}},     //
		{F: h("%d")},                                                    // C15-9 (fixed): must raise
		{F: h("%d %d"), Args: []fmtArg{n(1)}},                           //
		{F: h("%%%d"), Args: []fmtArg{n(1), n(2)}},                      // item count (fixed): surplus argument ignored
		{F: h("100%%"), Args: []fmtArg{n(5)}},                           //
		{F: h("%5s|%-5s|%.2s|"), Args: []fmtArg{strArg([]byte("\xc3\xa9")), strArg([]byte("\xc3\xa9")), strArg([]byte("\xc3\xa9\xc3\xa9"))}}, // %s bytes (fixed)
		{F: h("%f %e %E"), Args: []fmtArg{n(math.Inf(1)), n(math.Inf(-1)), n(math.NaN())}}, // C15-11 (fixed)
		{F: h("%+.0d|% .0d|%#.0o"), Args: []fmtArg{n(0), n(0), n(0)}},   // C15-12 (fixed)
		{F: h("%+x|% x|%+o|% X|%+5x|%+#x"), Args: []fmtArg{n(255), n(255), n(8), n(255), n(255), n(255)}}, // +/space on unsigned (fixed)
		{F: h("%#.0x|%#5.0o|%+5.0d|%-+5.0d|"), Args: []fmtArg{n(0), n(0), n(0), n(0)}},
		{F: h("%10f|%-10E|%+f|% e|%010f|%+010f"), Args: []fmtArg{n(math.Inf(1)), n(math.Inf(-1)), n(math.NaN()), n(math.Inf(1)), n(math.Inf(-1)), n(math.NaN())}},
		{F: h("%g|%g|%10g|%G|%g|%g|%g|%#g|%.0g|%.3g|%g|%g|%+g|%010g"), Args: []fmtArg{n(123456.789), n(1.0 / 3), n(2.0 / 3), n(1e-10), n(9999995), n(100000), n(1e6), n(1.5), n(2.5), n(1234.5), n(0), n(math.Copysign(0, -1)), n(1), n(0.0001)}}, // %g default precision 6 (fixed)
		{F: h("%g|%G|%g|%.17g|%.1g|%#.3g"), Args: []fmtArg{n(math.Inf(1)), n(math.NaN()), n(5e-324), n(0.1), n(0.95), n(100)}},
		{F: h("%u|%5u|%-5u|%05u|%.3u|%u"), Args: []fmtArg{n(5), n(42), n(42), n(42), n(42), n(-1)}}, // %u (fixed)
		{F: h("%x|%o|%u"), Args: []fmtArg{n(1<<63 + 1<<62), n(1 << 63), n(18446744073709549568)}},        // [2^63,2^64) (fixed)
		{F: h("%b"), Args: []fmtArg{n(5)}}, {F: h("%v"), Args: []fmtArg{n(5)}}, {F: h("%T"), Args: []fmtArg{n(5)}}, // invalid options raise (fixed)
		{F: h("%*d"), Args: []fmtArg{n(5), n(5)}}, {F: h("%d%"), Args: []fmtArg{n(5), n(5)}}, {F: h("%5%"), Args: []fmtArg{n(5)}},
		{F: h("%y"), Args: []fmtArg{strArg([]byte("a"))}},
		{F: h("%.3d"), Args: []fmtArg{strArg([]byte("42"))}},               // numeric string to a numeric conversion (fixed)
		{F: h("%+d|%05d|%x|%5.1f|%c|%e"), Args: []fmtArg{strArg([]byte("10")), strArg([]byte(" 7 ")), strArg([]byte("0x10")), strArg([]byte("3.75")), strArg([]byte("65")), strArg([]byte("1e2"))}},
		{F: h("%d"), Args: []fmtArg{strArg([]byte("abc"))}},                // must raise
		{F: h("%s|%d"), Args: []fmtArg{strArg([]byte("12")), strArg([]byte(""))}}, // must raise
		{F: h("%5.3d|%-5.3d|%05.3d|%.0d|"), Args: []fmtArg{n(7), n(7), n(7), n(0)}},
		{F: h("%.3f %.0f %.0f %.0f"), Args: []fmtArg{n(2.0005), n(0.5), n(1.5), n(2.5)}},
		{F: h("%.20f|%e|%.0e|%#.0e|%#.0f"), Args: []fmtArg{n(0.1), n(math.Copysign(0, -1)), n(1), n(1), n(1)}},
		{F: h("%d %d %i"), Args: []fmtArg{n(3.7), n(-3.7), n(1 << 53)}},
		{F: h("%%")},
		{F: h("")},
		{F: h("%s\x00 is not \x00%s"), Args: []fmtArg{strArg([]byte("not be")), strArg([]byte("be"))}},
		{F: h("%%%d %010d"), Args: []fmtArg{n(10), n(23)}},
		{F: h("%99.99f"), Args: []fmtArg{n(-1e308)}},
	} {
		c.Fn = "format"
		runFormat(w, c)
	}
}

// cDefinedFlags: does ISO C define this flag/precision combination for the verb?
func cDefinedFlags(d dirSpec) bool {
	switch d.verb {
	case 'd', 'i':
		return !d.sharp
	case 'u':
		return !d.sharp
	case 'x', 'X', 'o':
		return true // '+' and ' ' are defined: they act on signed conversions only
	case 'c':
		return !d.sharp && !d.zero && d.prec < 0
	case 's':
		return !d.sharp && !d.zero
	}
	return true
}

func genFormat(w *lib.Writer, r *lib.Rand, tier string) {
	verbs := []byte("dicuxXoeEfgGs")
	// single directives: flag subsets x widths x precisions x verbs, each with arguments from its pool
	perDir := 1
	keepPct := 12
	nrand := 6
	if tier == "thorough" {
		perDir, keepPct, nrand = 6, 100, 30
	}
	pools := map[byte][]fmtArg{}
	for _, v := range verbs {
		pools[v] = argsFor(v, r, nrand)
	}
	for _, v := range verbs {
		for fl := 0; fl < 32; fl++ {
			for _, wd := range fmtWidths {
				for _, pr := range fmtPrecs {
					d := dirSpec{minus: fl&1 != 0, plus: fl&2 != 0, space: fl&4 != 0, sharp: fl&8 != 0, zero: fl&16 != 0,
						width: wd, prec: pr, verb: v}
					pct := keepPct
					if !cDefinedFlags(d) && tier != "thorough" {
						pct = keepPct / 4 // undefined in C: only the impl model is compared
					}
					if r.Intn(100) >= pct {
						continue
					}
					pool := pools[v]
					for k := 0; k < perDir; k++ {
						a := pool[r.Intn(len(pool))]
						runFormat(w, fmtIn{Fn: "format", F: h(dirString(d)), Args: []fmtArg{a}})
					}
				}
			}
		}
	}
	// every pool value once with plain and a few common directives
	for _, v := range verbs {
		for _, a := range pools[v] {
			ds := []string{"%" + string(v)}
			switch v {
			case 'e', 'E', 'f', 'g', 'G':
				ds = append(ds, "%.0"+string(v), "%.3"+string(v), "%.17"+string(v), "%+12.1"+string(v), "%#.0"+string(v))
			case 'd', 'i':
				ds = append(ds, "%+d", "%05d", "%-12d|", "%.3d")
			case 'x', 'X', 'o':
				ds = append(ds, "%#"+string(v), "%012"+string(v), "%.3"+string(v))
			case 's':
				ds = append(ds, "%5s", "%-12s|", "%.1s", "%12.3s")
			case 'c':
				ds = append(ds, "%5c", "%-5c|")
			}
			for _, d := range ds {
				if tier == "thorough" || r.Intn(100) < 35 {
					runFormat(w, fmtIn{Fn: "format", F: h(d), Args: []fmtArg{a}})
				}
			}
		}
	}
	// %c over all byte values
	for b := 0; b < 256; b++ {
		if tier == "thorough" || b%7 == 0 || b >= 250 || (b >= 126 && b <= 130) {
			runFormat(w, fmtIn{Fn: "format", F: h("%c"), Args: []fmtArg{numArg(float64(b))}})
		}
	}
	// several directives, literal text, %%, missing and surplus arguments
	nmulti := 150
	if tier == "thorough" {
		nmulti = 3000
	}
	lits := []string{"", "x", " ", "%%", "a%%b", "\x00", "\xff", "1e5", ": "}
	for k := 0; k < nmulti; k++ {
		var sb strings.Builder
		var args []fmtArg
		nd := r.Range(0, 4)
		for i := 0; i < nd; i++ {
			sb.WriteString(lits[r.Intn(len(lits))])
			v := verbs[r.Intn(len(verbs))]
			d := dirSpec{width: fmtWidths[r.Intn(5)], prec: fmtPrecs[r.Intn(5)], verb: v}
			if r.Chance(40) {
				d.minus = r.Chance(30)
				d.zero = r.Chance(30)
				d.plus = r.Chance(30)
				d.space = r.Chance(20)
				d.sharp = r.Chance(20)
			}
			if !cDefinedFlags(d) && r.Chance(80) {
				d = dirSpec{width: d.width, prec: -1, verb: v, minus: d.minus}
			}
			sb.WriteString(dirString(d))
			args = append(args, pools[v][r.Intn(len(pools[v]))])
		}
		sb.WriteString(lits[r.Intn(len(lits))])
		switch r.Intn(10) {
		case 0: // missing argument(s)
			if len(args) > 0 {
				args = args[:r.Intn(len(args))]
			}
		case 1, 2: // surplus arguments
			for j := r.Range(1, 2); j > 0; j-- {
				args = append(args, numArg(float64(r.Intn(9))))
			}
		}
		runFormat(w, fmtIn{Fn: "format", F: h(sb.String()), Args: args})
	}
	genFormatBoundaries(w, r)
	genFormatSweeps(w, r.Fork())
}
