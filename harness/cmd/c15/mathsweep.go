package main

import (
	"math"
	"math/big"

	"verifh/lib"
)

// ---------- exhaustive exponent sweeps (wave 5) ----------
//
// The functions that go through the Coq model (floor ceil abs sqrt deg rad modf frexp ldexp fmod) are
// evaluated there case by case, which costs milliseconds: the generated cases cannot visit every
// exponent of the float64 encoding (2098 binades) or every int exponent of ldexp.  A change that is
// wrong at ONE exponent (seed C15-10: ldexp(x, -1023) only) is found by a sweep over all of them.
// The sweep runs on the Go side against independent references (math/big and bit patterns, nothing
// of Go's package math that the wrappers call); it decides nothing: every argument tuple on which
// the library and the reference part is handed to runMath, i.e. becomes an ordinary case that the
// Coq model judges (check_impl / check_spec).  A reference that is itself off (big.Float.Sqrt is
// not documented as correctly rounded, deg divides at 200 bits) therefore costs a case, never a
// false alarm.

const sweepForwardCap = 12 // forwarded cases per function (a broken tree disagrees thousands of times)

type sweeper struct {
	w         *lib.Writer
	forwarded map[string]int
}

func bigOf(x float64) *big.Float { return new(big.Float).SetFloat64(x) }

func negZero() float64 { return math.Copysign(0, -1) }

func signedZeroLike(x float64) float64 {
	if math.Signbit(x) {
		return negZero()
	}
	return 0
}

// truncInt: x truncated towards zero as an integer, and whether x was integral; |x| < 2^63, finite.
func truncInt(x float64) (*big.Int, bool) {
	i, acc := bigOf(x).Int(nil)
	return i, acc == big.Exact
}

func intToFloat(i *big.Int) float64 {
	f, _ := new(big.Float).SetInt(i).Float64()
	return f
}

// decompose: |x| = m * 2^e exactly, m an integer below 2^53 (finite x).
func decompose(x float64) (m uint64, e int) {
	b := math.Float64bits(x)
	ex := int((b >> 52) & 0x7ff)
	m = b & (1<<52 - 1)
	if ex == 0 {
		return m, -1074
	}
	return m | 1<<52, ex - 1075
}

var rpdBig = bigOf(math.Pi / 180.0)

// refMath: the definition's value from first principles; ok=false where no reference is given.
func refMath(fn string, xs []float64) (outs []float64, ok bool) {
	x := xs[0]
	special := math.IsNaN(x) || math.IsInf(x, 0) || x == 0
	switch fn {
	case "abs":
		return []float64{math.Float64frombits(math.Float64bits(x) &^ (1 << 63))}, true
	case "floor", "ceil":
		if special || math.Abs(x) >= 1<<52 {
			return []float64{x}, true
		}
		i, exact := truncInt(x)
		if !exact {
			if fn == "floor" && x < 0 {
				i.Sub(i, big.NewInt(1))
			}
			if fn == "ceil" && x > 0 {
				i.Add(i, big.NewInt(1))
			}
		}
		r := intToFloat(i)
		if r == 0 {
			r = signedZeroLike(x) // ceil(-0.5) = -0, floor(0.5) = +0
		}
		return []float64{r}, true
	case "modf":
		if math.IsNaN(x) {
			return []float64{x, x}, true
		}
		if math.IsInf(x, 0) || x == 0 || math.Abs(x) >= 1<<52 {
			return []float64{x, signedZeroLike(x)}, true
		}
		i, _ := truncInt(x)
		ip := math.Copysign(intToFloat(i), x)
		fr := math.Copysign(x-ip, x) // exact: both parts are multiples of x's ulp below |x|
		return []float64{ip, fr}, true
	case "frexp":
		if special {
			return []float64{x, 0}, true
		}
		mant := new(big.Float)
		e := bigOf(x).MantExp(mant)
		m, _ := mant.Float64()
		return []float64{m, float64(e)}, true
	case "sqrt":
		if math.IsNaN(x) || x < 0 {
			return []float64{math.NaN()}, true
		}
		if special {
			return []float64{x}, true
		}
		r, _ := new(big.Float).SetPrec(53).Sqrt(bigOf(x)).Float64()
		return []float64{r}, true
	case "rad", "deg":
		if special {
			return []float64{x}, true
		}
		z := new(big.Float).SetPrec(200)
		if fn == "rad" {
			z.Mul(bigOf(x), rpdBig) // exact at 200 bits: rounded once by Float64
		} else {
			z.Quo(bigOf(x), rpdBig)
		}
		r, _ := z.Float64()
		return []float64{r}, true
	case "ldexp":
		if len(xs) < 2 {
			return nil, false
		}
		ef := xs[1]
		if ef != math.Trunc(ef) || math.Abs(ef) > 1<<62 {
			return nil, false
		}
		if special {
			return []float64{x}, true
		}
		e := int64(ef)
		if e > 5000 {
			e = 5000
		}
		if e < -5000 {
			e = -5000
		}
		r, _ := new(big.Float).SetMantExp(bigOf(x), int(e)).Float64()
		return []float64{r}, true
	case "fmod", "mod":
		if len(xs) < 2 {
			return nil, false
		}
		y := xs[1]
		if math.IsNaN(x) || math.IsNaN(y) || math.IsInf(x, 0) || y == 0 {
			return []float64{math.NaN()}, true
		}
		if math.IsInf(y, 0) || x == 0 {
			return []float64{x}, true
		}
		mx, ex := decompose(x)
		my, ey := decompose(y)
		e0 := ex
		if ey < e0 {
			e0 = ey
		}
		a := new(big.Int).Lsh(new(big.Int).SetUint64(mx), uint(ex-e0))
		b := new(big.Int).Lsh(new(big.Int).SetUint64(my), uint(ey-e0))
		a.Mod(a, b)
		r, _ := new(big.Float).SetMantExp(new(big.Float).SetInt(a), e0).Float64()
		return []float64{math.Copysign(r, x)}, true
	}
	return nil, false
}

func (s *sweeper) check(fn string, xs ...float64) {
	want, ok := refMath(fn, xs)
	if !ok {
		return
	}
	got, errs := callNums(fn, xs...)
	same := errs == "" && len(got) == len(want)
	for i := 0; same && i < len(want); i++ {
		same = sameFloat(got[i], want[i])
	}
	key := "math." + fn
	if same {
		s.w.Meta.GoOnlyChecked++
		s.w.Meta.Distribution[key+"(sweep,go-side)"]++
		return
	}
	if s.forwarded[key] >= sweepForwardCap {
		return
	}
	s.forwarded[key]++
	s.w.Meta.Distribution[key+"(sweep: disagreement handed to the model)"]++
	runMath(s.w, mIn(fn, xs...)) // the model decides
}

// binadeValues: for the binade 2^k (k in -1074..1023) the first, second, middle, random and last
// mantissa, both signs alternating.
func binadeValues(r *lib.Rand, k int) []float64 {
	ms := []float64{1, 1 + 0x1p-52, 1.5, 1 + float64(r.U64()>>12)*0x1p-52, 2 - 0x1p-52}
	out := make([]float64, 0, len(ms))
	for i, m := range ms {
		x := math.Ldexp(m, k) // exact or (subnormal binades) some representable value of that binade: only a generator
		if (i+k)%2 != 0 {
			x = -x
		}
		out = append(out, x)
	}
	return out
}

func genMathSweeps(w *lib.Writer, r *lib.Rand) {
	s := &sweeper{w: w, forwarded: map[string]int{}}
	one := []string{"floor", "ceil", "abs", "sqrt", "deg", "rad", "modf", "frexp"}
	// (1) every binade x 5 mantissas through every one-argument function; frexp's parts go back
	//     through ldexp (the recomposition runs on the real code: e reaches -1073..1024)
	for k := -1074; k <= 1023; k++ {
		for _, x := range binadeValues(r, k) {
			for _, fn := range one {
				s.check(fn, x)
			}
			if me, errs := callNums("frexp", x); errs == "" && len(me) == 2 {
				s.check("ldexp", me[0], me[1])
			}
		}
	}
	// (2) ldexp: every exponent -2200..2200 (beyond both ends of the encoding whatever x's own exponent)
	//     for mantissas with 1, 2 and 53 significant bits, large, small and subnormal
	xs := []float64{1, -1, 1.5, 2 - 0x1p-52, 0x1p-1022, 5e-324, -0x1.8p-1070, math.MaxFloat64, 0x1p1000, -0x1.0000000000001p-500,
		1 + float64(r.U64()>>12)*0x1p-52}
	for e := -2200; e <= 2200; e++ {
		for _, x := range xs {
			s.check("ldexp", x, float64(e))
		}
	}
	// (3) ldexp landing on the ends of the encoding from every binade: results in the subnormal range
	//     (ties: odd mantissas shifted out), at the smallest normal, at 1, at the overflow threshold
	for k := -1074; k <= 1023; k++ {
		for _, x := range binadeValues(r, k) {
			for _, t := range []int{-1076, -1075, -1074, -1073, -1050, -1023, -1022, -1021, 0, 1022, 1023, 1024} {
				s.check("ldexp", x, float64(t-k))
			}
		}
	}
	// (4) fmod: dividend from every binade, divisor at the ends of the encoding and next to the dividend
	for k := -1074; k <= 1023; k++ {
		bx := binadeValues(r, k)
		for i, x := range bx {
			for _, ky := range []int{-1074, -1023, -1022, k - 53, k - 1, k, k + 1, 0, 1023} {
				if ky < -1074 || ky > 1023 {
					continue
				}
				y := binadeValues(r, ky)[(i+ky+5000)%len(bx)]
				s.check("fmod", x, y)
			}
		}
	}
	// (5) the integers 2^j, 2^j-1, 2^j+1 and their neighbours at distance 1/2 and one ulp (int32/int64
	//     conversions, 2^52/2^53 where the fraction bits run out)
	for j := 0; j <= 64; j++ {
		p := math.Ldexp(1, j)
		for _, n := range []float64{p, p - 1, p + 1} {
			for _, x := range []float64{n, n + 0.5, n - 0.5, math.Nextafter(n, 0), math.Nextafter(n, math.Inf(1))} {
				for _, sx := range []float64{x, -x} {
					for _, fn := range []string{"floor", "ceil", "modf", "frexp", "abs"} {
						s.check(fn, sx)
					}
					s.check("fmod", sx, 1)
					s.check("fmod", sx, p)
				}
			}
		}
	}
	// (6) the wrappers whose yardstick is Go's own math (exp log trig pow atan2 ...): the same binades,
	//     and pow with every integer exponent that 2^n, 2^-n can take; a disagreement is a Go-side failure
	fails := map[string]int{}
	goRun := func(fn string, xs ...float64) {
		if fails[fn] >= sweepForwardCap {
			return
		}
		before := len(w.Meta.GoViolations)
		runMath(w, mIn(fn, xs...))
		fails[fn] += len(w.Meta.GoViolations) - before
	}
	unary := lib.SortedKeys(goOnly1)
	for k := -1074; k <= 1023; k++ {
		vs := binadeValues(r, k)
		for _, fn := range unary {
			goRun(fn, vs[0])
			goRun(fn, vs[1+(k+1074)%4])
		}
		x, ax := vs[3], math.Abs(vs[3])
		for _, y := range []float64{2, 0.5, -1, 3, -0.5, 1.0 / 3} {
			goRun("pow", x, y)
			goRun("pow", ax, y)
		}
		goRun("atan2", vs[1], 1)
		goRun("atan2", 1, vs[1])
		goRun("atan2", vs[2], vs[4])
		goRun("atan2", vs[0], math.Ldexp(1.25, -k))
	}
	for n := -1130; n <= 1130; n++ {
		for _, b := range []float64{2, 0.5, -2, 4, 1.5} {
			goRun("pow", b, float64(n))
		}
	}
}

// callNums calls math.<fn> on numbers and returns the numeric results.
func callNums(fn string, xs ...float64) ([]float64, string) {
	args := numArgs(xs)
	res, errs := callMath(fn, args...)
	if errs != "" {
		return nil, errs
	}
	out := make([]float64, len(res))
	for i, v := range res {
		out[i] = lnum(v)
	}
	return out, ""
}

// ldexpBoundaryExps: exponents around every limit of the float64 exponent encoding (bias 1023, 52
// fraction bits, 2046/2047 biased ends, their sums) and of the int conversions.
func ldexpBoundaryExps() []float64 {
	var out []float64
	seen := map[float64]bool{}
	add := func(e float64) {
		if !seen[e] {
			seen[e] = true
			out = append(out, e)
		}
	}
	for _, c := range []int{0, 52, 63, 127, 1023, 1074, 2046, 2098} {
		for d := -2; d <= 2; d++ {
			add(float64(c + d))
			add(float64(-(c + d)))
		}
	}
	for _, e := range []float64{1 << 31, 1<<31 - 1, 1<<31 + 1, 1 << 32, 1 << 53, 1 << 62, 1<<63 - 1024} {
		add(e)
		add(-e)
	}
	add(-(1 << 63)) // the most negative int: exactly representable, exactly converted
	return out
}

func ldexpMantissas() []float64 {
	return []float64{1, -1, 0.5, -0.5, 1.5, 0.75, 3, 2 - 0x1p-52, 1 - 0x1p-53, 5e-324, -5e-324, 0x1.8p-1070, 0x1p-1022, 0x1.fffffffffffffp-1023,
		math.MaxFloat64, -math.MaxFloat64, 0x1p1000, 0x1.0000000000001p-500, 0x1.8p-1000, 0, negZero(), math.Inf(1), math.Inf(-1), math.NaN()}
}

// genMathBoundaries: the cases that go through the Coq model whatever the sweeps find.
func genMathBoundaries(w *lib.Writer, r *lib.Rand, run func(*lib.Writer, mathIn)) {
	ms := ldexpMantissas()
	for _, e := range ldexpBoundaryExps() {
		run(w, mIn("ldexp", 1, e))
		run(w, mIn("ldexp", ms[r.Intn(len(ms))], e))
	}
	// frexp, then ldexp of its parts, on the real code (recomposition as a program would do it)
	chain := func(x float64) {
		run(w, mIn("frexp", x))
		if me, errs := callNums("frexp", x); errs == "" && len(me) == 2 {
			run(w, mIn("ldexp", me[0], me[1]))
		}
	}
	for _, x := range mathPool() {
		if x != 0 && !math.IsNaN(x) && !math.IsInf(x, 0) {
			chain(x)
		}
	}
	for k := 0; k < 30; k++ {
		chain(math.Float64frombits(r.U64()))
		chain(math.Float64frombits(r.U64() >> uint(12+r.Intn(52)))) // subnormals of every binade
	}
	// max/min over many arguments (the argument window outgrows the initial stack segment), the
	// extreme value first, last, in the middle, repeated
	for _, n := range []int{7, 16, 33, 64, 120, 255, 256, 300} {
		for _, fn := range []string{"max", "min"} {
			xs := make([]float64, n)
			for i := range xs {
				xs[i] = float64(r.Range(-50, 50)) / 4
			}
			ext := 1e6
			if fn == "min" {
				ext = -1e6
			}
			switch r.Intn(4) {
			case 0:
				xs[0] = ext
			case 1:
				xs[n-1] = ext
			case 2:
				xs[n/2] = ext
			}
			run(w, mIn(fn, xs...))
		}
	}
}
