package main

import (
	"math"
	"strconv"
	"strings"

	lua "github.com/yuin/gopher-lua"
	"verifh/lib"
)

// ---------- string.format: boundary stream and sweeps (wave 5) ----------
//
// genFormatSweeps: every float64 binade through the float conversions and every power of two (+-1)
// through the integer conversions, against a reference put together from strconv on the Go side.
// As in genMathSweeps the reference decides nothing: a disagreement is handed to runFormat and the
// Coq model judges the case.

// cRef: what C printf prints for one directive without '#' (ok=false: no reference given).
func cRef(d dirSpec, x float64) (string, bool) {
	if d.sharp || math.IsNaN(x) || math.IsInf(x, 0) {
		return "", false
	}
	var sign, body string
	intPad := false // flag 0 is ignored by integer conversions that carry a precision
	switch d.verb {
	case 'e', 'E', 'f', 'g', 'G':
		p := d.prec
		if p < 0 {
			p = 6
		}
		body = strconv.FormatFloat(math.Abs(x), d.verb|0x20, p, 64)
		if d.verb == 'E' || d.verb == 'G' {
			body = strings.ToUpper(body)
		}
		if math.Signbit(x) {
			sign = "-"
		}
	case 'd', 'i':
		if x != math.Trunc(x) || math.Abs(x) >= 1<<63 {
			return "", false
		}
		v := int64(x)
		if v < 0 {
			sign = "-"
			body = strconv.FormatUint(uint64(-v), 10)
		} else {
			body = strconv.FormatUint(uint64(v), 10)
		}
		intPad = true
	case 'x', 'X', 'o', 'u':
		if x != math.Trunc(x) || x >= 1<<64 || x < -(1 << 63) {
			return "", false
		}
		var v uint64
		if x < 0 {
			v = uint64(int64(x))
		} else {
			v = uint64(x)
		}
		base := map[byte]int{'x': 16, 'X': 16, 'o': 8, 'u': 10}[d.verb]
		body = strconv.FormatUint(v, base)
		if d.verb == 'X' {
			body = strings.ToUpper(body)
		}
		intPad = true
	default:
		return "", false
	}
	signed := d.verb != 'x' && d.verb != 'X' && d.verb != 'o' && d.verb != 'u'
	if sign == "" && signed {
		if d.plus {
			sign = "+"
		} else if d.space {
			sign = " "
		}
	}
	zero := d.zero
	if intPad && d.prec >= 0 {
		zero = false
		if d.prec == 0 && body == "0" {
			body = ""
		}
		for len(body) < d.prec {
			body = "0" + body
		}
	}
	n := d.width - len(sign) - len(body)
	if n < 0 {
		n = 0
	}
	switch {
	case d.minus:
		return sign + body + strings.Repeat(" ", n), true
	case zero:
		return sign + strings.Repeat("0", n) + body, true
	}
	return strings.Repeat(" ", n) + sign + body, true
}

func genFormatSweeps(w *lib.Writer, r *lib.Rand) {
	forwarded := map[byte]int{}
	check := func(f string, x float64) {
		ds, ok := parseDirs([]byte(f))
		if !ok || len(ds) != 1 {
			return
		}
		want, ok := cRef(ds[0], x)
		if !ok {
			return
		}
		// the directive may be followed by literal text
		if i := strings.IndexByte(f, '|'); i >= 0 {
			want += f[i:]
		}
		got, gerr := callFormat(f, x)
		if gerr == "" && got == want {
			w.Meta.GoOnlyChecked++
			w.Meta.Distribution["format:%"+string(ds[0].verb)+"(sweep,go-side)"]++
			return
		}
		if forwarded[ds[0].verb] >= sweepForwardCap {
			return
		}
		forwarded[ds[0].verb]++
		w.Meta.Distribution["format:%"+string(ds[0].verb)+"(sweep: disagreement handed to the model)"]++
		runFormat(w, fmtIn{Fn: "format", F: h(f), Args: []fmtArg{numArg(x)}})
	}
	floatDirs := []string{"%e", "%.0e", "%.17e", "%E", "%f", "%.0f", "%.3f", "%g", "%.17g", "%.1g", "%G", "%10.2f|", "%-+14.3e|", "%012.4g", "% .2E"}
	for k := -1074; k <= 1023; k++ {
		vs := binadeValues(r, k)
		for i, f := range floatDirs {
			check(f, vs[(i+k+1074)%len(vs)])
		}
		check(floatDirs[r.Intn(len(floatDirs))], vs[3])
	}
	// decimal boundaries: 10^n and its neighbours (digit-count and rounding carries), n = -30..30
	for n := -30; n <= 30; n++ {
		p := math.Pow10(n)
		for _, x := range []float64{p, math.Nextafter(p, 0), math.Nextafter(p, math.Inf(1)), -p, 9.5 * p, 9.9999995 * p, 0.5 * p} {
			for _, f := range []string{"%e", "%f", "%g", "%.0f", "%.0e", "%.5g", "%.1f", "%.15g", "%.16g", "%.17g"} {
				check(f, x)
			}
		}
	}
	intDirs := []string{"%d", "%i", "%u", "%x", "%X", "%o", "%+d", "% d", "%5d|", "%-5d|", "%05d", "%.20d", "%020d", "%20x|", "%.0d", "%-20o|", "%+.3d", "%3.1u"}
	for j := 0; j <= 64; j++ {
		p := math.Ldexp(1, j)
		for _, x := range []float64{p, p - 1, p + 1, -p, -(p - 1), -(p + 1), math.Nextafter(p, 0), -math.Nextafter(p, math.Inf(1))} {
			for _, f := range intDirs {
				check(f, x)
			}
		}
	}
	for n := 0; n <= 19; n++ { // powers of ten: the digit count changes
		p := math.Pow10(n)
		for _, x := range []float64{p, p - 1, -p, -(p - 1)} {
			for _, f := range intDirs {
				check(f, x)
			}
		}
	}
}

func callFormat(f string, x float64) (string, string) {
	res, errs := call("format", lua.LString(f), lua.LNumber(x))
	if errs != "" {
		return "", errs
	}
	if len(res) == 1 {
		if v, ok := res[0].(lua.LString); ok {
			return string(v), ""
		}
	}
	return "", "result shape"
}

// genFormatBoundaries: calls whose SIZE sits on an internal limit -- many directives (argument window,
// item counters), long literal runs and long %s arguments (buffer steps at 64..512 bytes), width and
// precision at lstrlib's two-digit limit.
func genFormatBoundaries(w *lib.Writer, r *lib.Rand) {
	simple := []string{"%d", "%s", "%x", "%c", "%5.1f", "%-3d", "%g", "%03o", "%.2s", "%e"}
	argFor := func(d string) fmtArg {
		switch d[len(d)-1] {
		case 's':
			return strArg(r.Bytes(r.Range(0, 6), []byte("abcXYZ \xff")))
		case 'c':
			return numArg(float64(r.Range(33, 126)))
		case 'd', 'x', 'o':
			return numArg(float64(r.Range(-1000, 100000)))
		}
		return numArg(float64(r.Range(-100000, 100000)) / 64)
	}
	for _, nd := range []int{8, 15, 16, 17, 31, 32, 33, 64, 65, 100, 255, 256} {
		var sb strings.Builder
		var args []fmtArg
		for i := 0; i < nd; i++ {
			d := simple[r.Intn(len(simple))]
			sb.WriteString(d)
			sb.WriteString([]string{"", " ", ",", "%%"}[r.Intn(4)])
			args = append(args, argFor(d))
		}
		runFormat(w, fmtIn{Fn: "format", F: h(sb.String()), Args: args})
		switch r.Intn(3) {
		case 0: // the last argument is missing
			runFormat(w, fmtIn{Fn: "format", F: h(sb.String()), Args: args[:nd-1]})
		case 1: // one surplus argument
			runFormat(w, fmtIn{Fn: "format", F: h(sb.String()), Args: append(append([]fmtArg{}, args...), numArg(1))})
		}
	}
	for _, n := range []int{63, 64, 65, 127, 128, 129, 255, 256, 257, 511, 512, 513, 1024} {
		lit := strings.Repeat("lorem ipsum ", n/12+1)[:n]
		s := r.Bytes(n, []byte("abcdefghij"))
		runFormat(w, fmtIn{Fn: "format", F: h(lit + "%d" + lit[:n/2] + "%%%s"), Args: []fmtArg{numArg(float64(n)), strArg(s[:3])}})
		runFormat(w, fmtIn{Fn: "format", F: h("%s"), Args: []fmtArg{strArg(s)}})
		runFormat(w, fmtIn{Fn: "format", F: h([]string{"[%99s]", "[%-99s]", "%.98s|", "%.99s", "%5.64s"}[r.Intn(5)]), Args: []fmtArg{strArg(s)}})
	}
	for _, f := range []string{"%98d", "%99d", "%-99d|", "%.98d", "%.99d", "%099d", "%99.98d", "%99x", "%.99o", "%99.99e", "%.99f", "%99.0f", "%.99g", "%99c", "%99.99s", "%-99.1s|"} {
		var a fmtArg
		switch f[len(f)-1] {
		case 's':
			a = strArg([]byte("boundary"))
		case 'c':
			a = numArg(65)
		case 'd', 'x', 'o':
			a = numArg([]float64{0, 1, -1, 1 << 53, -(1 << 62)}[r.Intn(5)])
		default:
			a = numArg([]float64{0, 1.5, -1e-300, math.MaxFloat64, 5e-324, 123456.789}[r.Intn(6)])
		}
		runFormat(w, fmtIn{Fn: "format", F: h(f), Args: []fmtArg{a}})
	}
}
