package main

import (
	"encoding/json"
	"fmt"
	"context"
	"os"
	"os/exec"
	"strings"
	"time"

	lua "github.com/yuin/gopher-lua"
	"verifh/lib"
)

// in is the replayable input of one case.
type in struct {
	Fn   string  `json:"fn"`
	S    string  `json:"s_hex"`
	P    string  `json:"p_hex,omitempty"`
	Args []int64 `json:"args"` // integer arguments after the string(s); absent trailing ones omitted
	// Sp: how each integer argument is spelled when passed (luaL_checkint converts): 0 number,
	// 1 "N", 2 " N ", 3 "N.0", 4 "0xN" (N >= 0), 5 "Ne0", 6 the number N+-0.5 (truncated back to N),
	// 7 the string "N.5" / "-N.5". Absent = all 0.
	Sp []int `json:"sp,omitempty"`
}

// spell passes the integer x under spelling sp.
func spell(x int64, sp int) lua.LValue {
	half := "5"
	switch sp {
	case 1:
		return lua.LString(fmt.Sprintf("%d", x))
	case 2:
		return lua.LString(fmt.Sprintf(" %d ", x))
	case 3:
		return lua.LString(fmt.Sprintf("%d.0", x))
	case 4:
		if x >= 0 {
			return lua.LString(fmt.Sprintf("0x%x", x))
		}
		return lua.LString(fmt.Sprintf("%d", x))
	case 5:
		return lua.LString(fmt.Sprintf("%de0", x))
	case 6:
		if x >= 0 {
			return lua.LNumber(float64(x) + 0.5)
		}
		return lua.LNumber(float64(x) - 0.5)
	case 7:
		return lua.LString(fmt.Sprintf("%d.%s", x, half))
	}
	return lua.LNumber(x)
}

func (c in) vals() []lua.LValue {
	out := make([]lua.LValue, len(c.Args))
	for i, x := range c.Args {
		sp := 0
		if i < len(c.Sp) {
			sp = c.Sp[i]
		}
		out[i] = spell(x, sp)
	}
	return out
}

var L *lua.LState

func state() *lua.LState {
	if L == nil {
		L = lua.NewState()
	}
	return L
}

// call runs string.<fn>(args...) on the real library; returns results or the error text.
func call(fn string, args ...lua.LValue) (res []lua.LValue, errs string) {
	L := state()
	top := L.GetTop()
	f := L.GetField(L.GetGlobal("string"), fn)
	err := L.CallByParam(lua.P{Fn: f, NRet: lua.MultRet, Protect: true}, args...)
	if err != nil {
		L.SetTop(top)
		return nil, err.Error()
	}
	n := L.GetTop() - top
	for i := 1; i <= n; i++ {
		res = append(res, L.Get(top+i))
	}
	L.SetTop(top)
	return res, ""
}

func unhex(s string) []byte {
	var b []byte
	fmt.Sscanf(s, "%x", &b)
	return b
}

func nums(a []int64) []lua.LValue {
	out := make([]lua.LValue, len(a))
	for i, x := range a {
		out[i] = lua.LNumber(x)
	}
	return out
}

func optZ(a []int64, i int) string {
	if i < len(a) {
		return lib.CoqOpt(true, lib.CoqZ(a[i]))
	}
	return "None"
}

func nontrivial(s []byte, args []int64) bool {
	if len(s) == 0 {
		return false
	}
	for _, c := range s {
		if c >= 0x80 {
			return true
		}
	}
	for _, a := range args {
		if a <= 0 || a > int64(len(s)) {
			return true
		}
	}
	return false
}

// runCase executes one input against the real code and records it.
// spellRand, when set by the generator, makes runCase pass about a third of the integer
// arguments under another spelling (numeric strings, non-integral numbers); the choice is stored in
// the input, so a replay repeats it.
var spellRand *lib.Rand

func runCase(w *lib.Writer, c in) {
	if c.Sp == nil && spellRand != nil && len(c.Args) > 0 && spellRand.Intn(100) < 30 {
		c.Sp = make([]int, len(c.Args))
		for i := range c.Sp {
			if spellRand.Intn(100) < 70 {
				c.Sp[i] = spellRand.Range(1, 7)
			}
		}
	}
	s := unhex(c.S)
	p := unhex(c.P)
	args := []lua.LValue{lua.LString(string(s))}
	if c.Fn == "find" {
		args = append(args, lua.LString(string(p)))
		if len(c.Args) > 0 {
			args = append(args, c.vals()[0])
		} else {
			args = append(args, lua.LNumber(1)) // plain needs a 4th argument; init defaults to 1
		}
		args = append(args, lua.LTrue)
	} else if c.Fn == "char" {
		args = c.vals()
	} else {
		args = append(args, c.vals()...)
	}
	if c.Fn == "rep" && len(c.Args) == 1 && c.Args[0] > 0 && float64(len(s))*float64(c.Args[0]) > 1<<26 {
		runHugeRep(w, c, s)
		return
	}
	res, errs := call(c.Fn, args...)
	id := w.NextID()
	kc := lib.Case{Input: c, Class: c.Fn, Nontrivial: nontrivial(s, c.Args)}
	if errs != "" {
		kc.Observed = map[string]any{"error": errs}
		switch c.Fn {
		case "rep": // legitimate only for a result that cannot reasonably be built: the model decides
			kc.Coq = fmt.Sprintf("CRepErr %s %s", lib.CoqBytes(s), lib.CoqZ(c.Args[0]))
			w.Add(kc)
		case "char": // legitimate only for a code outside 0..255: the model decides
			kc.Coq = fmt.Sprintf("CCharErr %s", lib.CoqZList(c.Args))
			w.Add(kc)
		default:
			// none of the other functions may fail on string/integer arguments
			kc.Coq = errCase(c, s, p)
			w.Add(kc)
			w.GoFail(id, "string."+c.Fn+" raised: "+errs)
		}
		return
	}
	str := func() []byte {
		if len(res) == 1 {
			if v, ok := res[0].(lua.LString); ok {
				return []byte(string(v))
			}
		}
		w.GoFail(id, "string."+c.Fn+": expected one string result")
		return nil
	}
	sb := lib.CoqBytes(s)
	switch c.Fn {
	case "sub":
		o := str()
		kc.Observed = lib.Hex(o)
		if len(c.Args) == 2 {
			kc.Coq = fmt.Sprintf("CSub %s %s %s %s", sb, lib.CoqZ(c.Args[0]), lib.CoqZ(c.Args[1]), lib.CoqBytes(o))
		} else {
			kc.Coq = fmt.Sprintf("CSub2 %s %s %s", sb, lib.CoqZ(c.Args[0]), lib.CoqBytes(o))
		}
	case "byte":
		var o []int64
		for _, v := range res {
			n, ok := v.(lua.LNumber)
			if !ok {
				w.GoFail(id, "string.byte returned a non-number")
			}
			o = append(o, int64(n))
		}
		kc.Observed = o
		kc.Coq = fmt.Sprintf("CByte %s %s %s %s", sb, optZ(c.Args, 0), optZ(c.Args, 1), lib.CoqZList(o))
	case "find":
		obs := "None"
		if len(res) == 2 {
			a, ok1 := res[0].(lua.LNumber)
			b, ok2 := res[1].(lua.LNumber)
			if !ok1 || !ok2 {
				w.GoFail(id, "string.find returned non-numbers")
			}
			obs = fmt.Sprintf("(Some (%s, %s))", lib.CoqZ(int64(a)), lib.CoqZ(int64(b)))
			kc.Observed = []int64{int64(a), int64(b)}
		} else if len(res) == 1 && res[0] == lua.LNil {
			kc.Observed = nil
		} else {
			w.GoFail(id, "string.find(plain): unexpected result shape")
		}
		kc.Coq = fmt.Sprintf("CFind %s %s %s %s", sb, lib.CoqBytes(p), optZ(c.Args, 0), obs)
	case "rep":
		o := str()
		kc.Observed = lib.Hex(o)
		kc.Coq = fmt.Sprintf("CRep %s %s %s", sb, lib.CoqZ(c.Args[0]), lib.CoqBytes(o))
	case "reverse", "upper", "lower":
		o := str()
		kc.Observed = lib.Hex(o)
		ctor := map[string]string{"reverse": "CReverse", "upper": "CUpper", "lower": "CLower"}[c.Fn]
		kc.Coq = fmt.Sprintf("%s %s %s", ctor, sb, lib.CoqBytes(o))
	case "len":
		n, _ := res[0].(lua.LNumber)
		kc.Observed = int64(n)
		kc.Coq = fmt.Sprintf("CLen %s %s", sb, lib.CoqZ(int64(n)))
	case "char":
		o := str()
		kc.Observed = lib.Hex(o)
		kc.Coq = fmt.Sprintf("CChar %s %s", lib.CoqZList(c.Args), lib.CoqBytes(o))
	}
	// the subject must not have been modified in place
	if string(s) != string(unhex(c.S)) {
		w.GoFail(id, "argument string modified in place")
	}
	w.Add(kc)
}

// runHugeRep runs string.rep with a result of more than 64 MB in a child process: an allocation
// failure aborts a Go process and cannot be caught.
func runHugeRep(w *lib.Writer, c in, s []byte) {
	id := w.NextID()
	kc := lib.Case{Input: c, Class: "rep:huge", Nontrivial: true}
	ctx, cancel := context.WithTimeout(context.Background(), 60*time.Second)
	defer cancel()
	out, err := exec.CommandContext(ctx, os.Args[0], "child-rep", c.S, fmt.Sprint(c.Args[0])).CombinedOutput()
	o := string(out)
	switch {
	case err == nil && strings.HasPrefix(o, "ERR"):
		kc.Observed = map[string]any{"error": strings.TrimSpace(o)}
		kc.Coq = fmt.Sprintf("CRepErr %s %s", lib.CoqBytes(s), lib.CoqZ(c.Args[0]))
		w.Add(kc)
	case err == nil && strings.HasPrefix(o, "OK"):
		kc.Observed = strings.TrimSpace(o)
		kc.Coq = fmt.Sprintf("CRep %s %s []", lib.CoqBytes(s), lib.CoqZ(c.Args[0])) // a result of that size is not carried over
		w.Add(kc)
	default:
		if len(o) > 200 {
			o = o[:200]
		}
		kc.Observed = map[string]any{"crash": o}
		kc.Coq = fmt.Sprintf("CRep %s %s [-7]", lib.CoqBytes(s), lib.CoqZ(c.Args[0]))
		w.Add(kc)
		w.GoFail(id, "string.rep: the process died or hung instead of returning or raising: "+o)
	}
}

// childRep is the body of the child process of runHugeRep.
func childRep(shex, n string) {
	var cnt int64
	fmt.Sscan(n, &cnt)
	res, errs := call("rep", lua.LString(string(unhex(shex))), lua.LNumber(cnt))
	if errs != "" {
		if len(errs) > 80 {
			errs = errs[:80]
		}
		fmt.Println("ERR", errs)
		return
	}
	if len(res) == 1 {
		if v, ok := res[0].(lua.LString); ok {
			fmt.Println("OK", len(v))
			return
		}
	}
	fmt.Println("BAD result shape")
}

// errCase encodes a raised error as an observation no model output equals.
func errCase(c in, s, p []byte) string {
	sb := lib.CoqBytes(s)
	switch c.Fn {
	case "find":
		return fmt.Sprintf("CFind %s %s %s (Some (-7, -7))", sb, lib.CoqBytes(p), optZ(c.Args, 0))
	case "byte":
		return fmt.Sprintf("CByte %s %s %s [-7]", sb, optZ(c.Args, 0), optZ(c.Args, 1))
	case "len":
		return fmt.Sprintf("CLen %s (-7)", sb)
	case "char":
		return fmt.Sprintf("CChar %s [-7]", lib.CoqZList(c.Args))
	case "sub":
		if len(c.Args) == 2 {
			return fmt.Sprintf("CSub %s %s %s [-7]", sb, lib.CoqZ(c.Args[0]), lib.CoqZ(c.Args[1]))
		}
		return fmt.Sprintf("CSub2 %s %s [-7]", sb, lib.CoqZ(c.Args[0]))
	case "rep":
		return fmt.Sprintf("CRep %s %s [-7]", sb, lib.CoqZ(c.Args[0]))
	}
	ctor := map[string]string{"reverse": "CReverse", "upper": "CUpper", "lower": "CLower"}[c.Fn]
	return fmt.Sprintf("%s %s [-7]", ctor, sb)
}

var alpha = []byte{0x00, 'a', 'Z', 0x7f, 0xff}

func smallStrings(maxLen int) [][]byte {
	out := [][]byte{{}}
	prev := [][]byte{{}}
	for l := 1; l <= maxLen; l++ {
		var cur [][]byte
		for _, p := range prev {
			for _, c := range alpha {
				q := append(append([]byte{}, p...), c)
				cur = append(cur, q)
			}
		}
		out = append(out, cur...)
		prev = cur
	}
	return out
}

// corpus: minimized earlier failures and the witnesses of repaired defects run first.
func corpus(w *lib.Writer) {
	h := func(s string) string { return lib.Hex([]byte(s)) }
	for _, c := range []in{
		{Fn: "upper", S: h("\200a\377")}, {Fn: "lower", S: h("A\377Z")}, // C15-1
		{Fn: "byte", S: h("abc")},                                       // C15-2
		{Fn: "byte", S: h("abc"), Args: []int64{0, 2}},                  // C15-3
		{Fn: "find", S: h("abc"), P: "", Args: []int64{3}},              // C15-4
		{Fn: "find", S: h("abc"), P: "", Args: []int64{10}},
		{Fn: "find", S: h("abc"), P: h("b"), Args: []int64{10}}, // C15-5
		{Fn: "byte", S: h("abc"), Args: []int64{-10}},
		{Fn: "sub", S: h("hello"), Args: []int64{-3}},
		{Fn: "sub", S: h("hello"), Args: []int64{0, -100}},
		// string.rep beyond any buildable size must raise, not kill the process (fixed)
		{Fn: "rep", S: lib.Hex(make([]byte, 1024)), Args: []int64{1<<31 - 1}},
		{Fn: "rep", S: h("x"), Args: []int64{1 << 40}}, {Fn: "rep", S: h("ab"), Args: []int64{1 << 62}},
		{Fn: "rep", S: h("x"), Args: []int64{1 << 31}}, {Fn: "rep", S: h(""), Args: []int64{1 << 40}},
		{Fn: "rep", S: h("abc"), Args: []int64{1000}},
		// string.char outside 0..255 raises (fixed)
		{Fn: "char", Args: []int64{256}}, {Fn: "char", Args: []int64{-1}}, {Fn: "char", Args: []int64{65, 300, 66}},
		{Fn: "char", Args: []int64{0, 255}}, {Fn: "char", Args: []int64{}},
		// positions at the ends of the integer range (fixed: -2^63 overflowed)
		{Fn: "sub", S: h("hello"), Args: []int64{-1 << 63}}, {Fn: "sub", S: h("hello"), Args: []int64{-1 << 63, 1 << 62}},
		{Fn: "sub", S: h("hello"), Args: []int64{2, -1 << 63}}, {Fn: "byte", S: h("abc"), Args: []int64{-1 << 63, 1 << 62}},
		{Fn: "find", S: h("abc"), P: h("b"), Args: []int64{-1 << 63}}, {Fn: "find", S: h("abc"), P: h("b"), Args: []int64{1 << 62}},
		// integer arguments given as numeric strings / non-integral numbers (luaL_checkint converts; fixed)
		{Fn: "rep", S: h("x"), Args: []int64{3}, Sp: []int{1}},
		{Fn: "sub", S: h("hello"), Args: []int64{2, 3}, Sp: []int{1, 1}},
		{Fn: "sub", S: h("hello"), Args: []int64{-3, 4}, Sp: []int{2, 4}},
		{Fn: "sub", S: h("hello"), Args: []int64{2, -2}, Sp: []int{6, 7}},
		{Fn: "byte", S: h("abc"), Args: []int64{1, 2}, Sp: []int{3, 5}},
		{Fn: "find", S: h("abcabc"), P: h("b"), Args: []int64{3}, Sp: []int{1}},
		{Fn: "char", Args: []int64{65, 66, 255}, Sp: []int{1, 6, 4}},
	} {
		runCase(w, c)
	}
}

func genStrings(w *lib.Writer, r *lib.Rand, tier string) {
	small := smallStrings(3)
	// sampling rate of the exhaustive window in the quick tier
	keep := func() bool { return tier == "thorough" || r.Intn(100) < 6 }
	for _, s := range small {
		l := int64(len(s))
		hs := lib.Hex(s)
		for i := -l - 2; i <= l+2; i++ {
			if keep() {
				runCase(w, in{Fn: "sub", S: hs, Args: []int64{i}})
			}
			if keep() {
				runCase(w, in{Fn: "byte", S: hs, Args: []int64{i}})
			}
			for j := -l - 2; j <= l+2; j++ {
				if keep() {
					runCase(w, in{Fn: "sub", S: hs, Args: []int64{i, j}})
				}
				if keep() {
					runCase(w, in{Fn: "byte", S: hs, Args: []int64{i, j}})
				}
			}
			// plain find with patterns drawn from the substrings of s and near misses
			for _, p := range [][]byte{{}, s, append([]byte{}, s[len(s)/2:]...), {'a'}, {0xff, 'a'}, {'Z', 0x00}} {
				if keep() {
					runCase(w, in{Fn: "find", S: hs, P: lib.Hex(p), Args: []int64{i}})
				}
			}
		}
		if keep() {
			runCase(w, in{Fn: "byte", S: hs})
		}
		for n := int64(-2); n <= 5; n++ {
			if keep() {
				runCase(w, in{Fn: "rep", S: hs, Args: []int64{n}})
			}
		}
		for _, fn := range []string{"reverse", "upper", "lower", "len"} {
			if keep() {
				runCase(w, in{Fn: fn, S: hs})
			}
		}
	}
	// all 256 single bytes for upper/lower/reverse/char
	if tier == "thorough" || true {
		all := make([]byte, 256)
		for i := range all {
			all[i] = byte(i)
		}
		runCase(w, in{Fn: "upper", S: lib.Hex(all)})
		runCase(w, in{Fn: "lower", S: lib.Hex(all)})
		runCase(w, in{Fn: "reverse", S: lib.Hex(all)})
		cs := make([]int64, 256)
		for i := range cs {
			cs[i] = int64(i)
		}
		runCase(w, in{Fn: "char", Args: cs})
	}
	// random strings over all byte values
	nrand := 40
	per := 12
	if tier == "thorough" {
		nrand, per = 400, 40
	}
	for k := 0; k < nrand; k++ {
		s := r.Bytes(r.Range(0, 12), nil)
		l := len(s)
		hs := lib.Hex(s)
		for q := 0; q < per; q++ {
			i := int64(r.Range(-l-2, l+2))
			j := int64(r.Range(-l-2, l+2))
			if r.Chance(6) { // the ends of the integer range
				ext := []int64{-1 << 63, -1 << 62, 1 << 62, -1<<31 - 1, 1 << 31, 1 << 53}
				if r.Bool() {
					i = ext[r.Intn(len(ext))]
				} else {
					j = ext[r.Intn(len(ext))]
				}
			}
			switch r.Intn(8) {
			case 0:
				runCase(w, in{Fn: "sub", S: hs, Args: []int64{i, j}})
			case 1:
				runCase(w, in{Fn: "byte", S: hs, Args: []int64{i, j}})
			case 2:
				runCase(w, in{Fn: "byte", S: hs, Args: []int64{i}})
			case 3:
				var p []byte
				if l > 0 && r.Chance(70) {
					a := r.Intn(l)
					b := r.Range(a, l)
					p = s[a:b]
				} else {
					p = r.Bytes(r.Range(0, 2), nil)
				}
				runCase(w, in{Fn: "find", S: hs, P: lib.Hex(p), Args: []int64{i}})
			case 4:
				runCase(w, in{Fn: "rep", S: hs, Args: []int64{int64(r.Range(-2, 5))}})
			case 5:
				runCase(w, in{Fn: []string{"reverse", "upper", "lower", "len"}[r.Intn(4)], S: hs})
			case 6:
				runCase(w, in{Fn: "sub", S: hs, Args: []int64{i}})
			case 7:
				cs := make([]int64, r.Range(0, 6))
				for x := range cs {
					cs[x] = int64(r.Intn(256))
					if r.Chance(5) { // outside 0..255: must raise
						cs[x] = []int64{-1, 256, 257, 300, 1 << 31, -256, 1000}[r.Intn(7)]
					}
				}
				runCase(w, in{Fn: "char", Args: cs})
			}
		}
	}
	genStringBoundaries(w, r.Fork(), tier)
}

func replay(w *lib.Writer, path string) {
	b, err := os.ReadFile(path)
	if err != nil {
		panic(err)
	}
	var peek struct {
		Input struct {
			Fn string `json:"fn"`
		} `json:"input"`
	}
	if err := json.Unmarshal(b, &peek); err != nil {
		panic(err)
	}
	switch {
	case peek.Input.Fn == "format":
		var rp struct {
			Input fmtIn `json:"input"`
		}
		if err := json.Unmarshal(b, &rp); err != nil {
			panic(err)
		}
		runFormat(w, rp.Input)
	case strings.HasPrefix(peek.Input.Fn, "math."):
		var rp struct {
			Input mathIn `json:"input"`
		}
		if err := json.Unmarshal(b, &rp); err != nil {
			panic(err)
		}
		callMath("randomseed", lua.LNumber(20260925))
		runMath(w, rp.Input)
	default:
		var rp struct {
			Input in `json:"input"`
		}
		if err := json.Unmarshal(b, &rp); err != nil {
			panic(err)
		}
		runCase(w, rp.Input)
	}
}
