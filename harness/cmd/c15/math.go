package main

import (
	"fmt"
	"math"
	"strconv"

	lua "github.com/yuin/gopher-lua"
	"verifh/lib"
)

// ---------- math library ----------

type mathIn struct {
	Fn   string   `json:"fn"`   // "math.floor", ...
	Bits []string `json:"bits"` // arguments: hex of math.Float64bits
	Rep  int      `json:"rep,omitempty"`
	// AsStr: finite arguments are passed as strings ("%.17g", which reads back exactly):
	// luaL_checknumber / luaL_checkint convert them
	AsStr bool `json:"as_str,omitempty"`
}

func fbits(f float64) string { return strconv.FormatUint(math.Float64bits(f), 16) }
func unbits(s string) float64 {
	u, _ := strconv.ParseUint(s, 16, 64)
	return math.Float64frombits(u)
}

func callMath(fn string, args ...lua.LValue) (res []lua.LValue, errs string) {
	L := state()
	top := L.GetTop()
	f := L.GetField(L.GetGlobal("math"), fn)
	err := L.CallByParam(lua.P{Fn: f, NRet: lua.MultRet, Protect: true}, args...)
	if err != nil {
		L.SetTop(top)
		e := err.Error()
		if len(e) > 120 {
			e = e[:120]
		}
		return nil, e
	}
	n := L.GetTop() - top
	for i := 1; i <= n; i++ {
		res = append(res, L.Get(top+i))
	}
	L.SetTop(top)
	return res, ""
}

var mopCtor = map[string]string{"floor": "MFloor", "ceil": "MCeil", "abs": "MAbs", "sqrt": "MSqrt", "deg": "MDeg",
	"rad": "MRad", "fmod": "MFmod", "modf": "MModf", "frexp": "MFrexp", "mod": "MFmod", "ldexp": "MLdexp", "max": "MMax", "min": "MMin"}

// thin wrappers decided against Go's own math (the oracle): only argument order and arity are at stake
var goOnly1 = map[string]func(float64) float64{"exp": math.Exp, "log": math.Log, "log10": math.Log10,
	"sin": math.Sin, "cos": math.Cos, "tan": math.Tan, "asin": math.Asin, "acos": math.Acos, "atan": math.Atan,
	"sinh": math.Sinh, "cosh": math.Cosh, "tanh": math.Tanh}
var goOnly2 = map[string]func(float64, float64) float64{"pow": math.Pow, "atan2": math.Atan2}

func sameFloat(a, b float64) bool {
	if math.IsNaN(a) || math.IsNaN(b) {
		return math.IsNaN(a) && math.IsNaN(b)
	}
	return math.Float64bits(a) == math.Float64bits(b)
}

func relClose(a, b, tol float64) bool {
	if math.IsNaN(a) || math.IsNaN(b) || math.IsInf(a, 0) || math.IsInf(b, 0) {
		return false
	}
	return math.Abs(a-b) <= tol*math.Max(math.Abs(a), math.Abs(b))
}

// agrees1 decides a unary thin wrapper. Go's math is the yardstick bit for bit, except where Go's
// amd64 implementation is itself off the function's definition by far more than rounding; there
// the definition is checked through an identity:
//   log, log10 of a subnormal x: log(x) = log(x*2^54) - 54 log 2 (Go's Log does not normalise x);
//   log10(10^n) = n exactly (C's log10; Go computes log2(x)*(Ln2/Ln10));
//   exp, sinh, cosh just below their overflow thresholds 709.78 / 710.47 are finite:
//   e^x = (e^(x/2))^2 (Go's Exp gives up from about 709.1 on).
func agrees1(fn string, x, got, goWant float64) bool {
	sub := x > 0 && x < 0x1p-1022
	switch fn {
	case "asin", "acos":
		// Go's Asin/Acos cancel in 1-x*x near |x| = 1 (acos(0.99999999) has 6 correct digits); the
		// yardstick is the cancellation-free identity, within 1e-15
		if math.Abs(x) < 1 && x != 0 {
			want := math.Atan2(x, math.Sqrt((1-x)*(1+x)))
			if fn == "acos" {
				want = 2 * math.Atan2(math.Sqrt(1-x), math.Sqrt(1+x))
			}
			return relClose(got, want, 1e-15)
		}
		if math.Abs(x) == 1 {
			return relClose(got, goWant, 1e-15)
		}
	case "log":
		if sub {
			return relClose(got, math.Log(x*0x1p54)-54*math.Ln2, 1e-13)
		}
	case "log10":
		if !sub && x > 0 && !math.IsInf(x, 0) {
			if n := math.Round(math.Log10(x)); n >= -307 && n <= 308 && math.Pow10(int(n)) == x {
				return got == n
			}
		}
		if sub {
			return relClose(got, math.Log10(x*0x1p54)-54*(math.Ln2/math.Ln10), 1e-13)
		}
	case "exp":
		if math.IsInf(goWant, 1) && x < 709.782712893384 {
			h := math.Exp(x / 2)
			return relClose(got, h*h, 1e-13)
		}
	case "sinh", "cosh":
		if math.IsInf(goWant, 0) && math.Abs(x) < 710.4758600739439 {
			h := math.Exp(math.Abs(x) / 2)
			w := h * 0.5 * h
			if fn == "sinh" {
				w = math.Copysign(w, x)
			}
			return relClose(got, w, 1e-13)
		}
	}
	return sameFloat(got, goWant)
}

func mathNontrivial(xs []float64, nominal int) bool {
	if len(xs) != nominal {
		return true
	}
	for _, x := range xs {
		if x != math.Trunc(x) || x <= 0 || math.Abs(x) >= 1<<53 || math.IsNaN(x) {
			return true
		}
	}
	return false
}

func runMath(w *lib.Writer, c mathIn) {
	fn := c.Fn[len("math."):]
	xs := make([]float64, len(c.Bits))
	largs := make([]lua.LValue, len(c.Bits))
	cargs := make([]string, len(c.Bits))
	for i, b := range c.Bits {
		xs[i] = unbits(b)
		largs[i] = lua.LNumber(xs[i])
		if c.AsStr && !math.IsNaN(xs[i]) && !math.IsInf(xs[i], 0) {
			largs[i] = lua.LString(strconv.FormatFloat(xs[i], 'g', 17, 64))
		}
		cargs[i] = coqNum(xs[i])
	}
	if fn == "random" {
		runRandom(w, c, xs, largs, cargs)
		return
	}
	if fn == "huge" {
		checkHuge(w)
		return
	}
	res, errs := callMath(fn, largs...)
	var outs []float64
	shapeOK := true
	for _, v := range res {
		n, ok := v.(lua.LNumber)
		if !ok {
			shapeOK = false
		}
		outs = append(outs, float64(n))
	}
	if f1, ok := goOnly1[fn]; ok {
		good := (len(xs) == 0 && errs != "") || (len(xs) >= 1 && errs == "" && len(outs) == 1 && agrees1(fn, xs[0], outs[0], f1(xs[0])))
		goSide(w, c, good, outs, errs)
		return
	}
	if f2, ok := goOnly2[fn]; ok {
		want := math.NaN()
		if len(xs) >= 2 {
			want = f2(xs[0], xs[1])
			if fn == "atan2" && !math.IsNaN(want) && math.Signbit(want) != math.Signbit(xs[0]) {
				want = -want // C99 F.9.1.4: atan2 has the sign of y; Go's Atan2 loses it when y/x underflows
			}
		}
		good := (len(xs) < 2 && errs != "") || (len(xs) >= 2 && errs == "" && len(outs) == 1 && sameFloat(outs[0], want))
		goSide(w, c, good, outs, errs)
		return
	}
	ctor, ok := mopCtor[fn]
	if !ok {
		w.Meta.Discarded++
		return
	}
	nominal := 1
	switch fn {
	case "fmod", "ldexp", "mod":
		nominal = 2
	case "max", "min":
		nominal = len(xs)
		if nominal == 0 {
			nominal = 1
		}
	}
	id := w.NextID()
	kc := lib.Case{Input: c, Class: c.Fn, Nontrivial: mathNontrivial(xs, nominal)}
	obs := "MErr"
	if errs != "" {
		kc.Observed = map[string]any{"error": errs}
	} else {
		if !shapeOK {
			w.GoFail(id, c.Fn+" returned a non-number")
		}
		items := make([]string, len(outs))
		hexes := make([]string, len(outs))
		for i, o := range outs {
			items[i] = coqNum(o)
			hexes[i] = fbits(o)
		}
		kc.Observed = hexes
		obs = "(MOk " + lib.CoqList(items) + ")"
	}
	kc.Coq = fmt.Sprintf("CMath %s %s %s", ctor, lib.CoqList(cargs), obs)
	w.Add(kc)
}

// goSide records a wrapper compared against Go's math directly; only a disagreement becomes a case.
func goSide(w *lib.Writer, c mathIn, good bool, outs []float64, errs string) {
	if good {
		w.Meta.GoOnlyChecked++
		w.Meta.Distribution[c.Fn+"(go-side)"]++
		return
	}
	id := w.NextID()
	w.Add(lib.Case{Input: c, Class: c.Fn, Nontrivial: true, Observed: map[string]any{"results": fmt.Sprint(outs), "error": errs},
		Coq: "CGoSide false"})
	w.GoFail(id, c.Fn+": result differs from the reference on the same arguments in the documented order (Go's math bit for bit, or the function's identity where Go's math is itself off: see agrees1)")
}

func runRandom(w *lib.Writer, c mathIn, xs []float64, largs []lua.LValue, cargs []string) {
	if len(xs) == 0 {
		// math.random(): a float in [0,1), decided here
		res, errs := callMath("random")
		ok := errs == "" && len(res) == 1
		if ok {
			n, isn := res[0].(lua.LNumber)
			ok = isn && float64(n) >= 0 && float64(n) < 1
		}
		goSide(w, c, ok, nil, errs)
		return
	}
	for _, x := range xs {
		if x != math.Trunc(x) || math.Abs(x) >= 1<<62 {
			w.Meta.Discarded++ // only integer bounds are in the property's domain
			return
		}
	}
	res, errs := callMath("random", largs...)
	id := w.NextID()
	kc := lib.Case{Input: c, Class: "math.random", Nontrivial: len(xs) > 1 || xs[0] != 1}
	obs := "None"
	if errs != "" {
		kc.Observed = map[string]any{"error": errs}
	} else {
		n, isn := lua.LNumber(0), false
		if len(res) == 1 {
			n, isn = res[0].(lua.LNumber)
		}
		if !isn || float64(n) != math.Trunc(float64(n)) || math.Abs(float64(n)) >= 1<<63 {
			w.GoFail(id, "math.random did not return one integer")
			n = 0
		}
		kc.Observed = int64(n)
		obs = "(Some " + lib.CoqZ(int64(n)) + ")"
	}
	kc.Coq = fmt.Sprintf("CRandom %s %s", lib.CoqList(cargs), obs)
	w.Add(kc)
}

// ---------- generators ----------

func mathPool() []float64 {
	nz := math.Copysign(0, -1)
	p := []float64{0, nz, 1, -1, 0.5, -0.5, 1.5, -1.5, 2.5, -2.5, 3, -7.5, 0.1, -0.1, 1.0 / 3, 2, 10, 100, 360, 180,
		5e-324, -5e-324, 1.5e-323, 2.2250738585072009e-308, 2.2250738585072014e-308, -2.2250738585072014e-308,
		1 << 52, 1<<52 + 0.5, 1<<53 - 1, 1 << 53, 1<<53 + 2, -(1 << 53), 1 << 62, 1 << 63, 1 << 64,
		math.MaxFloat64, -math.MaxFloat64, 1e300, 1e-300, 1e15 + 0.3, 4503599627370495.5, 0.49999999999999994,
		math.Pi, math.E, 1e22, 123456.789, math.Inf(1), math.Inf(-1), math.NaN(),
		// huge and tiny magnitudes (an intermediate product may overflow or underflow where the result does not)
		2e306, -2e306, 1e307, 3e307, 5e307, 1e308, -1e308, 1.7e308, 9.9e307, 1.5e308, 1e200, -1e200, 1e154, 1.4e154,
		1e-323, 1e-310, -1e-310, 3e-308, 1e-200, 1e-154, 4e-324 * 37, 2.5e-320,
		// neighbours of 1, of the int32/int64 conversion limits and of 2^51 (last binade with a half), the topmost
		// subnormal binade (frexp gives exponent -1023 there)
		math.Nextafter(1, 0), math.Nextafter(1, 2), 1<<31 - 0.5, 1<<31 + 0.5, -(1<<31 + 0.5), 1<<32 + 0.5, 1<<63 - 1024, -(1 << 63),
		-(1<<63 + 2048), 0x1p-1024, 0x1.8p-1024, -0x1.4p-1030, 1<<51 + 0.5, -(1<<51 + 0.5)}
	for _, k := range []int{1, 10, 52, 53, 54, 63, 64, 1023, -1, -10, -1022, -1023, -1074} {
		p = append(p, math.Ldexp(1, k), -math.Ldexp(1, k), math.Ldexp(3, k-1))
	}
	return p
}

func mIn(fn string, xs ...float64) mathIn {
	b := make([]string, len(xs))
	for i, x := range xs {
		b[i] = fbits(x)
	}
	return mathIn{Fn: "math." + fn, Bits: b}
}

func mathCorpus(w *lib.Writer) {
	callMath("randomseed", lua.LNumber(20260925))
	for _, c := range []mathIn{
		mIn("modf", math.Inf(1)), mIn("modf", math.Inf(-1)), // C15-10 (fixed)
		mIn("modf", -0.5), mIn("modf", math.Copysign(0, -1)), mIn("modf", -3),
		mIn("floor", -0.5), mIn("ceil", -0.5), mIn("floor", math.Copysign(0, -1)),
		mIn("fmod", -6, 3), mIn("fmod", 5.5, -2), mIn("fmod", 1, 0), mIn("fmod", 1e308, 5e-324),
		mIn("frexp", 5e-324), mIn("frexp", 0), mIn("ldexp", 1, -1074), mIn("ldexp", 3, -1075), mIn("ldexp", 1, 1024),
		mIn("ldexp", 0.5, -(1 << 63)), mIn("ldexp", 5e-324, -(1<<63)+1024), mIn("ldexp", 1-0x1p-53, -(1 << 63)), // exponent sum wrapped inside math.Ldexp: +Inf (fixed)
		mIn("ldexp", 1, -1023), mIn("ldexp", 0x1p1000, -1023), mIn("ldexp", 0.5, -1023), mIn("ldexp", math.Inf(1), -1023), // seeded C15-10: biased exponent 0 is not 2^-1023
		mIn("ldexp", 1, 2.7), mIn("max", 1, math.NaN(), 2), mIn("max", math.NaN(), 1), mIn("min", 0, math.Copysign(0, -1)),
		mIn("min", math.Copysign(0, -1), 0), mIn("max", 0, math.Copysign(0, -1)), mIn("max", math.Copysign(0, -1), 0),
		mIn("max", math.Copysign(0, -1), 0, math.Copysign(0, -1)),
		mIn("max"), mIn("floor"), mIn("fmod", 1), mIn("floor", 1.5, 99),
		mIn("random", 5, 5), mIn("random", -3, -1), mIn("random", 5, 3), mIn("random", 0), mIn("random", 1),
		mIn("random", -(1 << 40), 1<<40), mIn("random", 1, 1, 7),
		{Fn: "math.floor", Bits: []string{fbits(3.7)}, AsStr: true}, {Fn: "math.ldexp", Bits: []string{fbits(1), fbits(3)}, AsStr: true},
		{Fn: "math.random", Bits: []string{fbits(4), fbits(4)}, AsStr: true}, {Fn: "math.max", Bits: []string{fbits(1), fbits(-2.5)}, AsStr: true},
		{Fn: "math.fmod", Bits: []string{fbits(-7), fbits(3)}, AsStr: true},
		mIn("atan2", -1e-200, -1e200), mIn("atan2", -5e-324, -2), mIn("atan2", 1e-300, -1e30), // sign of y (fixed)
		mIn("log", 1e-320), mIn("log", 5e-324), mIn("log10", 1e-310), mIn("log10", 5e-324), // subnormals (fixed)
		mIn("log10", 1e15), mIn("log10", 0.1), mIn("log10", 1e-4), mIn("log10", 1e29),     // powers of ten (fixed)
		mIn("exp", 709.5), mIn("exp", 709.78), mIn("exp", 709.79), mIn("sinh", 710), mIn("sinh", -710), mIn("cosh", 710), mIn("cosh", 710.5), // early overflow (fixed)
		mIn("mod", -7, 3), mIn("mod", 5.5, -2), mIn("mod", 1, 0), // math.mod = math.fmod (fixed)
		mIn("acos", 0.99999999), mIn("acos", 1-1e-14), mIn("asin", 0.99999999), mIn("acos", -0.99999999), mIn("acos", 1), mIn("acos", -1), mIn("asin", 1), mIn("acos", 2), // cancellation near 1 (fixed)
		mIn("deg", 2e306), mIn("rad", 1e308), mIn("rad", math.MaxFloat64), mIn("deg", 5e-324), mIn("rad", 5e-324), // x*180/pi overflowed (fixed)
		mIn("pow", 2, 10), mIn("atan2", 1, 2),
		mIn("pow", math.Copysign(0, -1), 0.5), mIn("pow", math.Inf(-1), 0.5), // seeded C15-1: pow is not sqrt at -0 / -Inf
		mIn("pow", math.Copysign(0, -1), -0.5), mIn("pow", math.Inf(-1), -0.5), mIn("pow", -8, 1.0/3), mIn("pow", 0, -1),
		mIn("pow", math.Copysign(0, -1), -1), mIn("pow", math.Copysign(0, -1), 3), mIn("pow", -1, math.Inf(1)), mIn("pow", math.NaN(), 0),
		mIn("pow", 1, math.NaN()), mIn("atan2", math.Copysign(0, -1), -1), mIn("atan2", 0, math.Copysign(0, -1)),
		mIn("atan2", math.Copysign(0, -1), math.Copysign(0, -1)), mIn("atan2", math.Inf(1), math.Inf(-1)),
		mIn("exp", math.Inf(-1)), mIn("log", 0), mIn("log", math.Copysign(0, -1)), mIn("log", -1), mIn("log10", 0),
		mIn("sqrt", math.Copysign(0, -1)), mIn("sqrt", math.Inf(-1)), mIn("sqrt", -1), mIn("sin", math.Copysign(0, -1)),
		mIn("tan", math.Copysign(0, -1)), mIn("asin", math.Copysign(0, -1)), mIn("atan", math.Copysign(0, -1)),
		mIn("sinh", math.Copysign(0, -1)), mIn("tanh", math.Copysign(0, -1)), mIn("cos", math.Inf(1)),
		mIn("fmod", math.Copysign(0, -1), 1), mIn("fmod", math.Inf(1), 1), mIn("fmod", 1, math.Inf(-1)), mIn("fmod", math.Copysign(0, -1), math.Inf(1)),
	} {
		runMath(w, c)
	}
}

func genMath(w *lib.Writer, r *lib.Rand, tier string) {
	sr := r.Fork()
	runMath := func(w *lib.Writer, c mathIn) {
		if len(c.Bits) > 0 && sr.Intn(100) < 12 {
			c.AsStr = true
		}
		runMath(w, c)
	}
	pool := mathPool()
	pick := func() float64 {
		if r.Chance(75) {
			return pool[r.Intn(len(pool))]
		}
		return math.Float64frombits(r.U64())
	}
	reps := 1
	if tier == "thorough" {
		reps = 12
	}
	one := []string{"floor", "ceil", "abs", "sqrt", "deg", "rad", "modf", "frexp"}
	for _, fn := range one {
		for _, x := range pool {
			runMath(w, mIn(fn, x))
		}
		for k := 0; k < 40*reps; k++ {
			runMath(w, mIn(fn, math.Float64frombits(r.U64())))
		}
		runMath(w, mIn(fn, pick(), pick())) // surplus argument is ignored
	}
	// fmod: pairs
	for k := 0; k < 300*reps; k++ {
		x, y := pick(), pick()
		if r.Chance(30) { // nearby magnitudes
			y = x * float64(r.Range(1, 9)) / float64(r.Range(1, 9))
		}
		runMath(w, mIn("fmod", x, y))
	}
	// ldexp
	exps := []float64{0, 1, -1, 10, -10, 52, -52, 53, 1023, 1024, -1022, -1074, -1075, 1074, 2000, -2000, 2098, 2.7, -2.7, 0.5}
	for k := 0; k < 250*reps; k++ {
		e := exps[r.Intn(len(exps))]
		if r.Chance(30) {
			e = float64(r.Range(-2200, 2200))
		}
		runMath(w, mIn("ldexp", pick(), e))
	}
	// max/min over arities 1..6
	for k := 0; k < 200*reps; k++ {
		n := r.Range(1, 6)
		xs := make([]float64, n)
		for i := range xs {
			xs[i] = pick()
			if math.IsNaN(xs[i]) && r.Chance(70) {
				xs[i] = float64(r.Range(-3, 3))
			}
		}
		fn := "max"
		if r.Bool() {
			fn = "min"
		}
		runMath(w, mIn(fn, xs...))
	}
	// random(m,n), random(n)
	bounds := []float64{0, 1, 2, 3, -1, -5, 10, 100, 255, 256, 1 << 31, -(1 << 31), 1 << 32, 1 << 53, -(1 << 53), 1 << 61}
	for k := 0; k < 250*reps; k++ {
		m := bounds[r.Intn(len(bounds))]
		n := bounds[r.Intn(len(bounds))]
		switch r.Intn(6) {
		case 0:
			n = m
		case 1:
			n = m + float64(r.Range(0, 3))
		case 2:
			m, n = float64(r.Range(-20, 20)), float64(r.Range(-20, 20))
		}
		if r.Chance(15) {
			runMath(w, mathIn{Fn: "math.random", Bits: []string{fbits(n)}, Rep: k})
		} else {
			runMath(w, mathIn{Fn: "math.random", Bits: []string{fbits(m), fbits(n)}, Rep: k})
		}
	}
	for k := 0; k < 20; k++ {
		runMath(w, mathIn{Fn: "math.random", Rep: k})
	}
	// where Go's own math is not the yardstick (see agrees1): powers of ten, subnormals, the last stretch
	// before overflow, quotients that underflow
	for n := -307; n <= 308; n++ {
		runMath(w, mIn("log10", math.Pow10(n)))
	}
	for k := 0; k < 60*reps; k++ {
		sub := math.Float64frombits(r.U64() >> uint(12+r.Intn(52)))
		runMath(w, mIn("log", sub))
		runMath(w, mIn("log10", sub))
		runMath(w, mIn("exp", 709+float64(r.Intn(800))/1000))
		runMath(w, mIn("sinh", math.Copysign(709.5+float64(r.Intn(1000))/1000, float64(r.Intn(2))-0.5)))
		runMath(w, mIn("cosh", math.Copysign(709.5+float64(r.Intn(1000))/1000, float64(r.Intn(2))-0.5)))
		y := math.Ldexp(float64(r.Range(1, 1<<20)), -r.Range(500, 1074))
		x := math.Ldexp(float64(r.Range(1, 1<<20)), r.Range(0, 900))
		runMath(w, mIn("atan2", -y, -x))
		runMath(w, mIn("atan2", y, -x))
	}
	for k := 0; k < 60*reps; k++ { // asin / acos towards |x| = 1
		x := 1 - math.Ldexp(float64(r.Range(1, 1<<20)), -r.Range(21, 72))
		if r.Bool() {
			x = -x
		}
		runMath(w, mIn("asin", x))
		runMath(w, mIn("acos", x))
		runMath(w, mIn("mod", pick(), pick()))
	}
	checkHuge(w)
	genPowExact(w)
	genKnownValues(w)
	// thin wrappers against Go's math, bit for bit (sign of zero, NaN-ness): every pool and grid value for
	// the unary ones, the full grid x grid for the binary ones (special values as base AND exponent), then
	// random arguments; argument order and arity
	grid := mathGrid()
	for _, fn := range lib.SortedKeys(goOnly1) {
		for _, x := range pool {
			runMath(w, mIn(fn, x))
		}
		for _, x := range grid {
			runMath(w, mIn(fn, x))
		}
		for k := 0; k < 40*reps; k++ {
			runMath(w, mIn(fn, pick()))
		}
		runMath(w, mIn(fn))
		runMath(w, mIn(fn, pick(), pick()))
	}
	for _, fn := range lib.SortedKeys(goOnly2) {
		for _, x := range grid {
			for _, y := range grid {
				runMath(w, mIn(fn, x, y))
			}
		}
		for k := 0; k < 150*reps; k++ {
			x, y := pick(), pick()
			if r.Chance(50) {
				x, y = float64(r.Range(-9, 9))/2, float64(r.Range(-9, 9))/2
			}
			runMath(w, mIn(fn, x, y))
		}
		runMath(w, mIn(fn, 2))
		runMath(w, mIn(fn))
	}
	// the same grid for the binary functions that go through the model (quick: the core of the grid)
	g2 := grid
	if tier != "thorough" {
		g2 = grid[:mathGridCore]
	}
	for _, x := range g2 {
		for _, y := range g2 {
			runMath(w, mIn("fmod", x, y))
		}
		for _, e := range exps {
			runMath(w, mIn("ldexp", x, e))
		}
		for _, fn := range one {
			runMath(w, mIn(fn, x))
		}
	}
	genMathBoundaries(w, r, runMath)
	genMathSweeps(w, r.Fork())
}

func numArgs(xs []float64) []lua.LValue {
	args := make([]lua.LValue, len(xs))
	for i, x := range xs {
		args[i] = lua.LNumber(x)
	}
	return args
}

func lnum(v lua.LValue) float64 {
	if n, ok := v.(lua.LNumber); ok {
		return float64(n)
	}
	return math.NaN()
}

// powExact runs math.pow where x^y is an exactly representable number that C's pow returns exactly
// (perfect squares to 1.5 / 2.5, fourth powers to 0.25, powers of ten): the definition's value is
// known without a library. Go's math.Pow misses some of them by a few ulps (open finding C15-13).
func powExact(w *lib.Writer, x, y, exact float64) {
	c := mIn("pow", x, y)
	res, errs := callMath("pow", lua.LNumber(x), lua.LNumber(y))
	got := math.NaN()
	if errs == "" && len(res) == 1 {
		if n, ok := res[0].(lua.LNumber); ok {
			got = float64(n)
		}
	}
	impl := sameFloat(got, math.Pow(x, y))
	spec := sameFloat(got, exact)
	if impl && spec {
		w.Meta.GoOnlyChecked++
		w.Meta.Distribution["math.pow(exact,go-side)"]++
		return
	}
	w.Add(lib.Case{Input: c, Class: "math.pow:exact", Nontrivial: true, KF: []string{"C15-13"},
		Observed: map[string]any{"result": fmt.Sprintf("%.17g", got), "exact": fmt.Sprintf("%.17g", exact)},
		Coq: fmt.Sprintf("CGoSide2 %s %s", lib.CoqBool(impl), lib.CoqBool(spec))})
}

// knownValue records a Go-side case whose definition value is known independently of any library
// (spec) next to what Go's math gives (impl = the wrapper is still Go's function); a case is emitted
// only when the two part, tagged with the open finding.
func knownValue(w *lib.Writer, c mathIn, got, goWant, exact, tol float64, kf string) {
	impl := sameFloat(got, goWant)
	spec := sameFloat(got, exact) || (tol > 0 && relClose(got, exact, tol))
	if impl && spec {
		w.Meta.GoOnlyChecked++
		w.Meta.Distribution[c.Fn+"(known value,go-side)"]++
		return
	}
	w.Add(lib.Case{Input: c, Class: c.Fn + ":known-value", Nontrivial: true, KF: []string{kf},
		Observed: map[string]any{"result": fmt.Sprintf("%.17g", got), "exact": fmt.Sprintf("%.17g", exact)},
		Coq: fmt.Sprintf("CGoSide2 %s %s", lib.CoqBool(impl), lib.CoqBool(spec))})
}

func call1(fn string, xs ...float64) float64 {
	args := make([]lua.LValue, len(xs))
	for i, x := range xs {
		args[i] = lua.LNumber(x)
	}
	res, errs := callMath(fn, args...)
	if errs == "" && len(res) == 1 {
		if n, ok := res[0].(lua.LNumber); ok {
			return float64(n)
		}
	}
	return math.NaN()
}

// genKnownValues: (C15-13) pow with a huge exponent on a base next to 1, against the identity
// x^y = exp(y*log1p(x-1)) (Go's repeated squaring loses the 7th digit); (C15-14) sin/cos whose
// argument reduction needs more bits of pi than Go's: sin(fl(pi)) = pi - fl(pi), cos(fl(pi)/2) =
// (pi - fl(pi))/2 (to all 17 digits), and the classical worst case cos(6381956970095103 * 2^797) =
// -4.68716592425462761e-19 (Muller et al., Handbook of Floating-Point Arithmetic).
func genKnownValues(w *lib.Writer) {
	for _, p := range [][2]float64{{1.0000000001, 1e12}, {1.00000001, 1e10}, {0.9999999999, 1e12}, {1.000001, 5e8}} {
		x, y := p[0], p[1]
		knownValue(w, mIn("pow", x, y), call1("pow", x, y), math.Pow(x, y), math.Exp(y*math.Log1p(x-1)), 1e-10, "C15-13")
	}
	big := math.Ldexp(6381956970095103, 797)
	knownValue(w, mIn("cos", big), call1("cos", big), math.Cos(big), -4.68716592425462761e-19, 1e-15, "C15-14")
	knownValue(w, mIn("sin", math.Pi), call1("sin", math.Pi), math.Sin(math.Pi), 1.2246467991473532e-16, 1e-15, "C15-14")
	knownValue(w, mIn("cos", math.Pi/2), call1("cos", math.Pi/2), math.Cos(math.Pi/2), 6.123233995736766e-17, 1e-15, "C15-14")
}

func genPowExact(w *lib.Writer) {
	for k := 2.0; k <= 40; k++ {
		powExact(w, k*k, 1.5, k*k*k)
		powExact(w, k*k, 2.5, k*k*k*k*k)
		powExact(w, k*k*k*k, 0.25, k)
		powExact(w, k*k, 0.5, k)
		powExact(w, k, 3, k*k*k)
	}
	for n := -22; n <= 22; n++ {
		powExact(w, 10, float64(n), math.Pow10(n))
	}
	for _, n := range []int{33, 100, 308, -23, -100, -300} {
		powExact(w, 10, float64(n), math.Pow10(n))
	}
}

// checkHuge: math.huge is HUGE_VAL, "a value larger than or equal to any other numerical value".
func checkHuge(w *lib.Writer) {
	L := state()
	v, ok := L.GetField(L.GetGlobal("math"), "huge").(lua.LNumber)
	goSide(w, mathIn{Fn: "math.huge"}, ok && math.IsInf(float64(v), 1), []float64{float64(v)}, "")
}

// mathGrid: special values used as every argument of the binary functions (base and exponent, y and x,
// dividend and divisor). The first mathGridCore entries are the core used for the model-side functions in
// the quick tier.
const mathGridCore = 19

func mathGrid() []float64 {
	nz := math.Copysign(0, -1)
	return []float64{0, nz, 1, -1, math.Inf(1), math.Inf(-1), math.NaN(), 0.5, -0.5, 2, -2, 3, -3,
		math.MaxFloat64, -math.MaxFloat64, 5e-324, -5e-324, 1.5, 1 << 53,
		4, -4, 1.0 / 3, 1e300, -1e300, 2.2250738585072014e-308, 1<<53 - 1, 1<<53 + 2, -(1<<53 - 1), 1023, 1024, -1074,
		1e15 + 1, 0.25, 10, -0.75, 1e-300, 1 << 62, 7, -7, 1e22}
}
