// c03: closures keep their variables on every exit path; globals follow fenv.
package main

import (
	"encoding/json"
	"fmt"
	"os"

	"verifh/lib"
	"verifh/luagen"
	"verifh/luaprop"
)

func main() {
	if len(os.Args) > 1 && os.Args[1] == "fenvchild" {
		fenvChild(os.Args[2:])
		return
	}
	if len(os.Args) > 3 && os.Args[1] == "w5gen" { // development aid: programs of the nested-exit mode and what they print
		var seed uint64
		var n int
		fmt.Sscan(os.Args[2], &seed)
		fmt.Sscan(os.Args[3], &n)
		asCoq := len(os.Args) > 4 && os.Args[4] == "coq" // a file comparing them with the reference evaluator alone
		if asCoq {
			fmt.Println(luaprop.Header + "\nRequire Import GL.Common.Cases.\nOpen Scope Z_scope.")
		}
		for i := 0; i < n; i++ {
			prog := luagen.W5C03Program(lib.NewRand(seed*1000003 + uint64(i)))
			src := luagen.PrintLua(prog)
			out := luagen.Run(src, nil)
			if asCoq {
				fmt.Printf("Definition c%d : case := CProg %s %s.\n", i, luagen.CoqBlock(prog), out.Coq())
				continue
			}
			b, _ := json.Marshal(map[string]any{"i": i, "src": src, "out": out.Summary()})
			fmt.Println(string(b))
		}
		if asCoq {
			fmt.Print("Definition cases : list (Z * case) := [")
			for i := 0; i < n; i++ {
				if i > 0 {
					fmt.Print("; ")
				}
				fmt.Printf("(%d, c%d)", i, i)
			}
			fmt.Println("].\nDefinition Mskip := Eval vm_compute in mism (fun c => negb (check_skip c)) cases.\nPrint Mskip.\nDefinition Mspec := Eval vm_compute in mism check_spec cases.\nPrint Mspec.")
		}
		return
	}
	f := luagen.CoreFeatures()
	f.Closures, f.Goto, f.Errors, f.Funcs, f.Coroutines, f.Fenv, f.Varargs, f.MultiAssign = 14, 6, 5, 4, 3, 4, 1, 2
	luaprop.Main(&luaprop.Config{
		Prop: "C03",
		Rule: "generated programs dominated by closure shapes (counter factories, closures created in for/while/repeat/blocks/calls, shared upvalues, two-level capture) whose scopes are left by " +
			"fall-through, break, goto, return, tail call, an error caught by pcall/xpcall, coroutine suspension/death; afterwards a clobber call reuses the registers and the closures are read and written; " +
			"setfenv/getfenv shapes; traces compared with the reference evaluator; non-trivial = at least 5 emitted rows or an error outcome; distinct by Gallina term; " +
			"mode nested-exit: one exit statement (forward/backward goto, break, return, error) leaves 2-4 nested blocks that own captured locals; " +
			"environment scripts (fenv-*): random trees of setfenv(0|1|f)/getfenv/debug.setfenv, free-name reads and writes, closures, loaded chunks, coroutines created and resumed at different times, " +
			"through the base library or the host API, then host operations on the idle main thread, compared with coq/Fenv/FenvModel.v (non-trivial = at least 3 emitted values)",
		Modes: []luaprop.Mode{{Name: "closures", Features: f, Weight: 5},
			// wave 5: small programs around one exit statement that leaves several captured blocks at once
			{Name: "nested-exit", Features: f, Weight: 1, Gen: luagen.W5C03Program}},
		NQuick:    240,
		NThorough: 2500,
		Corpus:    corpus,
		VM:        true,
		Isolate:   true,
		// wave 5: environment scripts (fenv.go) with their own case kind C3Env of coq/Fenv/C03Cases.v
		Extra:       fenvExtra,
		ReplayExtra: fenvReplay,
		CaseHeader:  c03Header,
		CaseType:    "c3case",
		KF: func(uses map[string]int, src string) []string {
			if uses["funcdef-local-assign-selfref"] > 0 {
				return []string{"C03-2"}
			}
			return nil
		},
	})
}

var corpus = []string{
	`local up; local function mk() local x = 1; up = function() x = x + 1; return x end; error("boom") end; emit((xpcall(mk, function(m) error("again") end))); emit((function(a,b,c,d,e,f,g,h) local p,q,r,s = 61,62,63,64 return a end)(10,20,30,40,50,60,70,80)); emit(up(), up())`,
	`local fs = {}; for i = 1, 3 do do local x = i * 10; fs[i] = function() x = x + 1 return x end; if i == 2 then break end end end; emit((function(a,b,c,d,e) return e end)(1,2,3,4,5)); emit(fs[1](), fs[2](), fs[2]())`,
	`local f; local co = coroutine.create(function() local x = 5; f = function() return x end; local z = nil; return z.y end); emit(coroutine.resume(co)); emit(f())`,
	`local up; local function mk() local x=1; up=function() x=x+1; return x end; error("boom") end; emit(xpcall(mk, function(m) return m end)); emit((function(a,b,c,d,e,f,g,h) local p,q,r,s = 61,62,63,64 return a end)(10,20,30,40,50,60,70,80)); emit(up(), up())`,
	`local x = 1; local function get() return x end; local function set(v) x = v end; emit(pcall(error, "e")); x = 2; emit(get()); set(5); emit(x, get())`,
	`local a1 = 8; local function g() return a1 end; for i=1,2 do if i==1 then goto cont end ::cont:: end; a1 = 100; emit(g())`,
	`local fs = {}; local c = 0; ::top:: local x = c * 10; fs[#fs+1] = function() x = x + 1 return x end; c = c + 1; if c < 3 then goto top end; emit(fs[1](), fs[1](), fs[2](), fs[3]())`,
	`local fs = {}; for i = 1, 3 do local x = i * 10; fs[i] = function() x = x + 1 return x end; if i == 2 then break end end; emit((function(a,b,c,d) return d end)(1,2,3,4)); emit(fs[1](), fs[2](), fs[2]())`,
	`local co = coroutine.wrap(function() local x = 1; local f = function() x = x + 1 return x end; coroutine.yield(f); x = x + 10; coroutine.yield(f); error({}) end); local f = co(); emit(f()); co(); emit(f()); emit(pcall(co)); emit(f(), f())`,
	`local function mk() local n = 0; return function() n = n + 1; return n end, function() return n end end; local inc, get = mk(); inc(); inc(); emit(get()); local inc2, get2 = mk(); inc2(); emit(get(), get2())`,
	`gx = 1; local function f() return gx end; local env = {gx = 2}; setfenv(f, env); emit(f(), gx, getfenv(f) == env); local function mk() return function() return gx end end; setfenv(mk, {gx = 3}); emit(mk()())`,
	`local function outer() local a = 1; local function mid() local function inner() a = a + 1; return a end; return inner end; return mid(), function() return a end end; local i, g = outer(); i(); i(); emit(g())`,
	`local t = {}; local i = 1; while i <= 3 do local j = i; t[i] = function() return j end; i = i + 1 end; emit(t[1](), t[2](), t[3]()); local r = {}; local k = 1; repeat local j = k * 2; r[k] = function() return j end; k = k + 1 until k > 2; emit(r[1](), r[2]())`,
	// fixed 1f23970: the body of `local f = function ... end` sees the f in scope before the statement
	`fq = "global"; local fq = function() return fq end; emit(type(fq()), fq()); local function rq(n) if n == 0 then return type(rq) end return rq(n - 1) end; emit(rq(2)); local gq = 5; local gq = (function() return gq end); emit(gq())`,
	// fixed f8bdc35 / 46ccea9: goto and break close a local whose capturing closure follows the jump in the text
	`local fns, i = {}, 0; do ::L:: local x = i ::M:: i = i + 1; if i == 2 then goto L end; fns[#fns+1] = function() return x end; if i == 1 then goto M end end; emit(fns[1](), fns[2]())`,
	`local f; while true do local x = 1 ::again:: if f then break end; f = function() return x end; goto again end; local y = 2; emit(f(), y)`,
}
